/-
  The reference reader inverts the reference printer (expression fragment):  pExpr env (prE e ++ rest) = some (e, rest).
-/
import Drx.Spec.LingoPrint
namespace Drx.Spec

/-- nothing that follows can continue an expression at level ≥ lvl -/
def Follow (lvl : Nat) : List Tok → Prop
  | [] => True
  | t :: _ => ∀ l, lvl ≤ l → binOfTok l t = none

def NoLp : List Tok → Prop
  | .p .lp :: _ => False
  | _ => True

theorem binOfTok_ge5 (l : Nat) (t : Tok) (h : 5 ≤ l) : binOfTok l t = none := by
  match l, h with
  | n + 5, _ => simp [binOfTok]

theorem binOfTok_zero (t : Tok) : binOfTok 0 t = none := by simp [binOfTok]

/-- tokens that are never an infix operator -/
def Closer (t : Tok) : Prop := t = .p .rp ∨ t = .p .comma ∨ t = .p .rb ∨ t = .nl ∨ t = .p .colon

theorem binOfTok_closer (l : Nat) (t : Tok) (h : Closer t) : binOfTok l t = none := by
  rcases h with h | h | h | h | h <;> subst h <;>
  · match l with
    | 0 => rfl
    | 1 => rfl
    | 2 => rfl
    | 3 => rfl
    | 4 => rfl
    | n + 5 => simp [binOfTok]

theorem follow_closer (lvl : Nat) (t : Tok) (r : List Tok) (h : Closer t) : Follow lvl (t :: r) :=
  fun l _ => binOfTok_closer l t h

theorem nolp_closer (t : Tok) (r : List Tok) (h : Closer t) : NoLp (t :: r) := by
  rcases h with h | h | h | h | h <;> subst h <;> trivial

theorem binOfTok_own (op : BinOp) (h : op.isInfix = true) : binOfTok op.level op.tok = some op := by
  cases op <;> first | rfl | (simp [BinOp.isInfix] at h)

theorem binOfTok_other (op : BinOp) (l : Nat) (h : op.isInfix = true) (hl : l ≠ op.level) : binOfTok l op.tok = none := by
  match l with
  | 0 => rfl
  | n + 5 => simp [binOfTok]
  | 1 => cases op <;> first | rfl | (simp [BinOp.level] at hl) | (simp [BinOp.isInfix] at h)
  | 2 => cases op <;> first | rfl | (simp [BinOp.level] at hl) | (simp [BinOp.isInfix] at h)
  | 3 => cases op <;> first | rfl | (simp [BinOp.level] at hl) | (simp [BinOp.isInfix] at h)
  | 4 => cases op <;> first | rfl | (simp [BinOp.level] at hl) | (simp [BinOp.isInfix] at h)

theorem level_range (op : BinOp) (h : op.isInfix = true) : 1 ≤ op.level ∧ op.level ≤ 4 := by
  cases op <;> simp [BinOp.level, BinOp.isInfix] at *

variable (env : Env)

theorem pLoop_stop (f lvl : Nat) (a : Expr) (rest : List Tok) (h : Follow lvl rest) :
    pLoop env (f + 1) lvl a rest = some (a, rest) := by
  cases rest with
  | nil => simp [pLoop]
  | cons t r =>
    have : binOfTok lvl t = none := h lvl (Nat.le_refl _)
    simp [pLoop, this]

/-- climbing from level 5 up to `lvl`: if the level-5 parser reads exactly `e` from `ts` for every large enough fuel, and what
    follows cannot continue an expression, then so does every lower level -/
theorem climb (ts rest : List Tok) (e : Expr) (B : Nat)
    (h5 : ∀ F, B ≤ F → pE5 env F ts = some (e, rest)) :
    ∀ (k lvl : Nat), lvl + k = 5 → 1 ≤ lvl → Follow lvl rest → ∀ F, B + k + 1 ≤ F → pLevel env F lvl ts = some (e, rest) := by
  intro k
  induction k with
  | zero =>
    intro lvl hl _ _ F hF
    obtain ⟨f, rfl⟩ : ∃ f, F = f + 1 := ⟨F - 1, by omega⟩
    have h : lvl ≥ 5 := by omega
    simp only [pLevel, h, if_true]
    exact h5 f (by omega)
  | succ k ih =>
    intro lvl hl h1 hfol F hF
    obtain ⟨f, rfl⟩ : ∃ f, F = f + 1 := ⟨F - 1, by omega⟩
    have h : ¬ lvl ≥ 5 := by omega
    have hfol' : Follow (lvl + 1) rest := by
      cases rest with
      | nil => trivial
      | cons t r => exact fun l hl' => hfol l (by omega)
    have := ih (lvl + 1) (by omega) (by omega) hfol' f (by omega)
    simp only [pLevel, h, if_false, this]
    obtain ⟨f', rfl⟩ : ∃ f', f = f' + 1 := ⟨f - 1, by omega⟩
    exact pLoop_stop env f' lvl e rest hfol

/-- reading `a op b` (operands already known to read back at the next tighter level) at every level up to the operator's own -/
theorem read_infix (op : BinOp) (hop : op.isInfix = true) (a b : Expr) (ta tb R : List Tok) (B : Nat)
    (ha : ∀ F, B ≤ F → pLevel env F (op.level + 1) (ta ++ op.tok :: (tb ++ R)) = some (a, op.tok :: (tb ++ R)))
    (hb : ∀ F, B ≤ F → pLevel env F (op.level + 1) (tb ++ R) = some (b, R))
    (hR : Follow 1 R) :
    ∀ (k lvl : Nat), lvl + k = op.level → 1 ≤ lvl → ∀ F, B + k + 3 ≤ F →
      pLevel env F lvl (ta ++ op.tok :: (tb ++ R)) = some (.bin op a b, R) := by
  have hlv := level_range op hop
  have folR : ∀ lvl, 1 ≤ lvl → Follow lvl R := by
    intro lvl h1
    cases R with
    | nil => trivial
    | cons t r => exact fun l hl => hR l (by omega)
  intro k
  induction k with
  | zero =>
    intro lvl hl h1 F hF
    obtain ⟨f, rfl⟩ : ∃ f, F = f + 1 := ⟨F - 1, by omega⟩
    have hl' : lvl = op.level := by omega
    subst hl'
    have h : ¬ op.level ≥ 5 := by omega
    simp only [pLevel, h, if_false, ha f (by omega)]
    obtain ⟨f', rfl⟩ : ∃ f', f = f' + 1 := ⟨f - 1, by omega⟩
    simp only [pLoop, binOfTok_own op hop, hb f' (by omega)]
    obtain ⟨f'', rfl⟩ : ∃ f'', f' = f'' + 1 := ⟨f' - 1, by omega⟩
    exact pLoop_stop env f'' op.level (.bin op a b) R (folR _ hlv.1)
  | succ k ih =>
    intro lvl hl h1 F hF
    obtain ⟨f, rfl⟩ : ∃ f, F = f + 1 := ⟨F - 1, by omega⟩
    have h : ¬ lvl ≥ 5 := by omega
    simp only [pLevel, h, if_false, ih (lvl + 1) (by omega) (by omega) f (by omega)]
    obtain ⟨f', rfl⟩ : ∃ f', f = f' + 1 := ⟨f - 1, by omega⟩
    exact pLoop_stop env f' lvl (.bin op a b) R (folR _ h1)

/-- identifiers that are not words of the expression grammar -/
def PlainId (n : Name) : Prop :=
  (Tok.id n).kw "not" = false ∧ (Tok.id n).kw "sprite" = false ∧ (Tok.id n).kw "the" = false ∧ (Tok.id n).kw "field" = false
    ∧ chunkOfSingular n = none

/-- `env` classifies the identifier `n` as a variable of kind `k` (decidable form of `env.resolve n = .var k n`) -/
def resolvesTo (env : Env) (n : Name) (k : VarKind) : Bool :=
  match env.resolve n with
  | .var k' n' => decide (k' = k) && decide (n' = n)
  | _ => false

theorem resolve_of_resolvesTo (env : Env) (n : Name) (k : VarKind) (h : resolvesTo env n k = true) : env.resolve n = .var k n := by
  unfold resolvesTo at h
  split at h
  · rename_i k' n' heq
    simp at h
    rw [heq, h.1, h.2]
  · cases h

mutual
/-- the fragment of the round-trip theorem: literals, symbols, variables (classified by `env` as the tree says), unary and infix
    operators, `field`, function calls -/
def Frag (env : Env) : Expr → Prop
  | .int _ => True
  | .str _ => True
  | .float _ _ => True
  | .sym _ => True
  | .var k n => PlainId n ∧ resolvesTo env n k = true
  | .un _ a => Frag env a
  | .bin _ a b => Frag env a ∧ Frag env b
  | .field a => Frag env a
  | .call f as => PlainId f ∧ env.isVar f = false ∧ FragL env as
  | .list as => FragL env as
  | .chunk _ a b d => Frag env a ∧ Frag env b ∧ Frag env d
  | _ => False
def FragL (env : Env) : List Expr → Prop
  | [] => True
  | e :: es => Frag env e ∧ FragL env es
end

mutual
/-- fuel that is certainly enough to read the printed expression back -/
def fuelOf : Expr → Nat
  | .bin _ a b => fuelOf a + fuelOf b + 30
  | .un _ a => fuelOf a + 2
  | .field a => fuelOf a + 4
  | .call _ as => fuelOfL as + 30
  | .list as => fuelOfL as + 30
  | .chunk _ a b d => fuelOf a + fuelOf b + fuelOf d + 30
  | _ => 4
def fuelOfL : List Expr → Nat
  | [] => 0
  | e :: es => fuelOf e + fuelOfL es + 30
end

theorem prArgs_cons (e : Expr) (es : List Expr) : prArgs (e :: es) = prE e ++ prTail es := by
  induction es generalizing e with
  | nil => simp [prArgs, prTail]
  | cons e' es ih => simp [prArgs, prTail, ih e']

/-- the first token of a printed expression is not a closing parenthesis -/
def HeadNotRp : List Tok → Prop
  | [] => False
  | t :: _ => t ≠ .p .rp ∧ t ≠ .p .rb ∧ t ≠ .p .colon

theorem prE_head (e : Expr) (h : Frag env e) : HeadNotRp (prE e) := by
  cases e with
  | int n => simp [prE, HeadNotRp]
  | str s =>
    by_cases h0 : s = []
    · simp [prE, strToks, h0, HeadNotRp]
    · cases hc : nameOfConstant s <;> simp [prE, strToks, h0, hc, HeadNotRp]
  | float d s => simp [prE, HeadNotRp]
  | sym n => simp [prE, HeadNotRp]
  | var k n => simp [prE, HeadNotRp]
  | un op a => cases op <;> simp [prE, HeadNotRp, kw]
  | bin op a b =>
    cases hop : op.isInfix <;> simp [prE, hop, HeadNotRp, kw]
  | field a => simp [prE, HeadNotRp, kw]
  | call f as => simp [prE, HeadNotRp]
  | list as => simp [prE, HeadNotRp]
  | me => exact absurd h (by simp [Frag])
  | mcall o m as => exact absurd h (by simp [Frag])
  | plist as => exact absurd h (by simp [Frag])
  | the t k as => exact absurd h (by simp [Frag])
  | key n => exact absurd h (by simp [Frag])
  | movie n => exact absurd h (by simp [Frag])
  | oprop n o => exact absurd h (by simp [Frag])
  | chunk c a b d =>
    cases b with
    | int n => cases n <;> simp [prE, HeadNotRp, kw]
    | _ => simp [prE, HeadNotRp, kw]

theorem kw_num (n : Nat) (k : String) : (Tok.num n).kw k = false := rfl
theorem kw_p (x : P) (k : String) : (Tok.p x).kw k = false := rfl
theorem kw_flt (a b : Nat) (k : String) : (Tok.flt a b).kw k = false := rfl
theorem kw_str (s : Name) (k : String) : (Tok.str s).kw k = false := rfl

/-- from "level 5 reads it back" to "every level reads it back" (with explicit fuel) -/
theorem level_of_e5 (e : Expr) (rest : List Tok) (B : Nat)
    (h5 : ∀ F, B ≤ F → pE5 env F (prE e ++ rest) = some (e, rest))
    (lvl : Nat) (h1 : 1 ≤ lvl) (h2 : lvl ≤ 5) (hf : Follow lvl rest) :
    ∀ F, B + 6 ≤ F → pLevel env F lvl (prE e ++ rest) = some (e, rest) := by
  intro F hF
  exact climb env (prE e ++ rest) rest e B h5 (5 - lvl) lvl (by omega) h1 hf F (by omega)

theorem follow_tok_of_infix (op : BinOp) (hop : op.isInfix = true) (r : List Tok) : Follow (op.level + 1) (op.tok :: r) := by
  intro l hl
  exact binOfTok_other op l hop (by omega)

theorem nolp_optok (op : BinOp) (r : List Tok) : NoLp (op.tok :: r) := by
  cases op <;> simp [BinOp.tok, NoLp, kw]

theorem pE5_lp (f : Nat) (X : List Tok) (e : Expr) (r' : List Tok) (h : pLevel env f 1 X = some (e, .p .rp :: r')) :
    pE5 env (f + 2) (.p .lp :: X) = some (e, r') := by
  simp [pE5, pSimple, kw_p, h]

theorem pE5_field (f : Nat) (X : List Tok) (e : Expr) (r' : List Tok) (h : pE5 env f X = some (e, r')) :
    pE5 env (f + 2) (kw "field" :: X) = some (.field e, r') := by
  have k1 : (Tok.id ['f','i','e','l','d']).kw "field" = true := by decide
  have k2 : (Tok.id ['f','i','e','l','d']).kw "not" = false := by decide
  have k3 : (Tok.id ['f','i','e','l','d']).kw "sprite" = false := by decide
  have k4 : (Tok.id ['f','i','e','l','d']).kw "the" = false := by decide
  have k5 : chunkOfSingular ['f','i','e','l','d'] = none := by decide
  simp [kw, pE5, pSimple, k1, k2, k3, k4, k5, h]

theorem pE5_not (f : Nat) (X : List Tok) (e : Expr) (r' : List Tok) (h : pE5 env f X = some (e, r')) :
    pE5 env (f + 1) (kw "not" :: X) = some (.un .not e, r') := by
  have k1 : (Tok.id ['n','o','t']).kw "not" = true := by decide
  simp [kw, pE5, k1, h]

theorem pE5_neg (f : Nat) (X : List Tok) (e : Expr) (r' : List Tok) (h : pE5 env f X = some (e, r')) :
    pE5 env (f + 1) (.p .minus :: X) = some (.un .neg e, r') := by
  simp [pE5, h]

theorem pE5_call0 (f : Nat) (s : Name) (r : List Tok) (hp : PlainId s) (hv : env.isVar s = false) :
    pE5 env (f + 2) (.id s :: .p .lp :: .p .rp :: r) = some (.call s [], r) := by
  obtain ⟨h1, h2, h3, h4, h5⟩ := hp
  simp [pE5, pSimple, h1, h2, h3, h4, h5, hv]

theorem pE5_call (f : Nat) (s : Name) (t : Tok) (r1 : List Tok) (as : List Expr) (r2 : List Tok)
    (hp : PlainId s) (hv : env.isVar s = false) (ht : t ≠ .p .rp)
    (h : pArgs env f (t :: r1) = some (as, .p .rp :: r2)) :
    pE5 env (f + 2) (.id s :: .p .lp :: t :: r1) = some (.call s as, r2) := by
  obtain ⟨h1, h2, h3, h4, h5⟩ := hp
  simp only [pE5, h1, h2, pSimple, h3, h4, h5]
  simp [hv]
  split
  · rename_i heq; simp at heq; exact absurd heq.1 ht
  · simp [h]

theorem pE5_id (f : Nat) (n : Name) (rest : List Tok) (hp : PlainId n) (hn : NoLp rest) :
    pE5 env (f + 2) (.id n :: rest) = some (env.resolve n, rest) := by
  obtain ⟨h1, h2, h3, h4, h5⟩ := hp
  simp only [pE5, h1, h2, pSimple, h3, h4, h5]
  simp
  split
  · exact absurd hn (by simp [NoLp])
  · rfl

theorem pE5_var (f : Nat) (k : VarKind) (n : Name) (rest : List Tok) (hp : PlainId n) (hr : env.resolve n = .var k n) (hn : NoLp rest) :
    pE5 env (f + 2) (.id n :: rest) = some (.var k n, rest) := by
  rw [pE5_id env f n rest hp hn, hr]

/-- the named constants: writing the name and resolving it gives the string back, and the names are not words of the grammar -/
theorem namedConstants_ok : ∀ x ∈ namedConstants, namedConstantOf x.1.toList = some x.2 ∧
    (Tok.id x.1.toList).kw "not" = false ∧ (Tok.id x.1.toList).kw "sprite" = false ∧ (Tok.id x.1.toList).kw "the" = false
      ∧ (Tok.id x.1.toList).kw "field" = false ∧ chunkOfSingular x.1.toList = none := by decide +kernel

theorem nameOfConstant_spec (s c : Name) (h : nameOfConstant s = some c) :
    namedConstantOf c = some s ∧ PlainId c := by
  unfold nameOfConstant at h
  cases hf : namedConstants.find? (fun x => x.2 == s) with
  | none => simp [hf] at h
  | some x =>
    simp [hf] at h
    have hx := List.mem_of_find?_eq_some hf
    have hs : x.2 = s := by simpa using List.find?_some hf
    have := namedConstants_ok x hx
    subst h; subst hs
    exact ⟨this.1, this.2⟩

theorem resolve_constant (c s : Name) (h : namedConstantOf c = some s) : env.resolve c = .str s := by
  simp [Env.resolve, h]

theorem pE5_sprite_i (f : Nat) (X r2 r3 : List Tok) (a b : Expr)
    (h1 : pE5 env f X = some (a, kw "intersects" :: r2)) (h2 : pE5 env f r2 = some (b, r3)) :
    pE5 env (f + 1) (kw "sprite" :: X) = some (.bin .intersects a b, r3) := by
  have k1 : (Tok.id ['s','p','r','i','t','e']).kw "sprite" = true := by decide
  have k2 : (Tok.id ['s','p','r','i','t','e']).kw "not" = false := by decide
  have k3 : (Tok.id ['i','n','t','e','r','s','e','c','t','s']).kw "intersects" = true := by decide
  simp [kw, pE5, k1, k2] at h1 ⊢
  simp [h1, k3, h2]

theorem pE5_sprite_w (f : Nat) (X r2 r3 : List Tok) (a b : Expr)
    (h1 : pE5 env f X = some (a, kw "within" :: r2)) (h2 : pE5 env f r2 = some (b, r3)) :
    pE5 env (f + 1) (kw "sprite" :: X) = some (.bin .within a b, r3) := by
  have k1 : (Tok.id ['s','p','r','i','t','e']).kw "sprite" = true := by decide
  have k2 : (Tok.id ['s','p','r','i','t','e']).kw "not" = false := by decide
  have k3 : (Tok.id ['w','i','t','h','i','n']).kw "intersects" = false := by decide
  have k4 : (Tok.id ['w','i','t','h','i','n']).kw "within" = true := by decide
  simp [kw, pE5, k1, k2] at h1 ⊢
  simp [h1, k3, k4, h2]

theorem pE5_list0 (f : Nat) (r : List Tok) : pE5 env (f + 2) (.p .lb :: .p .rb :: r) = some (.list [], r) := by
  simp [pE5, pSimple, kw_p]

theorem pE5_list (f : Nat) (t : Tok) (ts r1 r2 : List Tok) (e : Expr) (es : List Expr)
    (ht1 : t ≠ .p .rb) (ht2 : t ≠ .p .colon)
    (h1 : pLevel env f 1 (t :: ts) = some (e, r1)) (hr1 : ∀ x, r1 ≠ .p .colon :: x)
    (h2 : pMore env f r1 = some (es, .p .rb :: r2)) :
    pE5 env (f + 2) (.p .lb :: t :: ts) = some (.list (e :: es), r2) := by
  simp only [pE5, kw_p]
  simp only [pSimple]
  simp
  split
  · rename_i heq; injection heq with h _; exact absurd h ht1
  · rename_i heq; injection heq with h _; exact absurd h ht2
  · simp only [h1]
    simp [h2]

theorem kwtag_facts (c : ChunkKind) :
    (Tok.id c.tag.toList).kw "the" = false ∧ (Tok.id c.tag.toList).kw "not" = false ∧ (Tok.id c.tag.toList).kw "sprite" = false
      ∧ chunkOfSingular c.tag.toList = some c := by
  cases c <;> decide

theorem pE5_chunk1 (f : Nat) (c : ChunkKind) (X r1 r2 : List Tok) (a d : Expr)
    (h1 : pLevel env f 1 X = some (a, Tok.id "of".toList :: r1)) (h2 : pE5 env f r1 = some (d, r2)) :
    pE5 env (f + 3) (Tok.id c.tag.toList :: X) = some (.chunk c a (.int 0) d, r2) := by
  obtain ⟨k1, k2, k3, k5⟩ := kwtag_facts c
  have o1 : (Tok.id ['o', 'f']).kw "to" = false := by decide
  have o2 : (Tok.id ['o', 'f']).kw "of" = true := by decide
  simp only [pE5, k2, k3]
  simp only [pSimple, k1, k5]
  simp [pChunk, h1, o1, o2, h2]

theorem pE5_chunk2 (f : Nat) (c : ChunkKind) (X r1 r2 r3 : List Tok) (a b d : Expr)
    (h1 : pLevel env f 1 X = some (a, Tok.id "to".toList :: r1))
    (h2 : pLevel env f 1 r1 = some (b, Tok.id "of".toList :: r2)) (h3 : pE5 env f r2 = some (d, r3)) :
    pE5 env (f + 3) (Tok.id c.tag.toList :: X) = some (.chunk c a b d, r3) := by
  obtain ⟨k1, k2, k3, k5⟩ := kwtag_facts c
  have o1 : (Tok.id ['t', 'o']).kw "to" = true := by decide
  have o2 : (Tok.id ['o', 'f']).kw "of" = true := by decide
  simp only [pE5, k2, k3]
  simp only [pSimple, k1, k5]
  simp [pChunk, h1, o1, o2, h2, h3]

theorem binOfTok_of (l : Nat) : binOfTok l (Tok.id "of".toList) = none := by
  match l with
  | 0 => rfl
  | 1 => rfl
  | 2 => decide
  | 3 => rfl
  | 4 => decide
  | n + 5 => simp [binOfTok]

theorem binOfTok_to (l : Nat) : binOfTok l (Tok.id "to".toList) = none := by
  match l with
  | 0 => rfl
  | 1 => rfl
  | 2 => decide
  | 3 => rfl
  | 4 => decide
  | n + 5 => simp [binOfTok]

theorem follow_of (lvl : Nat) (r : List Tok) : Follow lvl (Tok.id "of".toList :: r) := fun l _ => binOfTok_of l
theorem follow_to (lvl : Nat) (r : List Tok) : Follow lvl (Tok.id "to".toList :: r) := fun l _ => binOfTok_to l

mutual
/-- the level-5 reader inverts the printer on the fragment -/
theorem rp_e5 : ∀ (e : Expr), Frag env e → ∀ (rest : List Tok), NoLp rest → ∀ F, fuelOf e ≤ F →
    pE5 env F (prE e ++ rest) = some (e, rest)
  | .int n, _, rest, _, F, hF => by
    obtain ⟨f, rfl⟩ : ∃ f, F = f + 2 := ⟨F - 2, by simp [fuelOf] at hF; omega⟩
    simp [prE, pE5, pSimple, kw_num]
  | .str s, _, rest, hn, F, hF => by
    obtain ⟨f, rfl⟩ : ∃ f, F = f + 2 := ⟨F - 2, by simp [fuelOf] at hF; omega⟩
    by_cases h0 : s = []
    · subst h0; simp [prE, strToks, pE5, pSimple, kw_str]
    · cases hc : nameOfConstant s with
      | none => simp [prE, strToks, h0, hc, pE5, pSimple, kw_str]
      | some c =>
        obtain ⟨h1, h2⟩ := nameOfConstant_spec s c hc
        have := pE5_id env f c rest h2 hn
        rw [resolve_constant env c s h1] at this
        simpa [prE, strToks, h0, hc] using this
  | .float d s, _, rest, _, F, hF => by
    obtain ⟨f, rfl⟩ : ∃ f, F = f + 2 := ⟨F - 2, by simp [fuelOf] at hF; omega⟩
    simp [prE, pE5, pSimple, kw_flt]
  | .sym n, _, rest, _, F, hF => by
    obtain ⟨f, rfl⟩ : ∃ f, F = f + 2 := ⟨F - 2, by simp [fuelOf] at hF; omega⟩
    simp [prE, pE5, pSimple, kw_p]
  | .var k n, h, rest, hn, F, hF => by
    obtain ⟨f, rfl⟩ : ∃ f, F = f + 2 := ⟨F - 2, by simp [fuelOf] at hF; omega⟩
    obtain ⟨hp, hr⟩ : PlainId n ∧ resolvesTo env n k = true := h
    simpa [prE] using pE5_var env f k n rest hp (resolve_of_resolvesTo env n k hr) hn
  | .un .neg a, h, rest, hn, F, hF => by
    have ha : Frag env a := h
    obtain ⟨f, rfl⟩ : ∃ f, F = f + 1 := ⟨F - 1, by simp [fuelOf] at hF; omega⟩
    simpa [prE] using pE5_neg env f _ a rest (rp_e5 a ha rest hn f (by simp [fuelOf] at hF; omega))
  | .un .not a, h, rest, hn, F, hF => by
    have ha : Frag env a := h
    obtain ⟨f, rfl⟩ : ∃ f, F = f + 1 := ⟨F - 1, by simp [fuelOf] at hF; omega⟩
    simpa [prE] using pE5_not env f _ a rest (rp_e5 a ha rest hn f (by simp [fuelOf] at hF; omega))
  | .field a, h, rest, hn, F, hF => by
    have ha : Frag env a := h
    obtain ⟨f, rfl⟩ : ∃ f, F = f + 2 := ⟨F - 2, by simp [fuelOf] at hF; omega⟩
    simpa [prE] using pE5_field env f _ a rest (rp_e5 a ha rest hn f (by simp [fuelOf] at hF; omega))
  | .bin op a b, h, rest, hn, F, hF => by
    obtain ⟨ha, hb⟩ : Frag env a ∧ Frag env b := h
    cases hop : op.isInfix with
    | false =>
      -- `sprite a intersects b` / `sprite a within b`
      obtain ⟨f, rfl⟩ : ∃ f, F = f + 1 := ⟨F - 1, by simp [fuelOf] at hF; omega⟩
      have hfa : fuelOf a ≤ f := by simp [fuelOf] at hF; omega
      have hfb : fuelOf b ≤ f := by simp [fuelOf] at hF; omega
      cases op <;> simp [BinOp.isInfix] at hop
      · have h1 := rp_e5 a ha (kw "intersects" :: (prE b ++ rest)) (by simp [kw, NoLp]) f hfa
        have h2 := rp_e5 b hb rest hn f hfb
        simpa [prE, BinOp.isInfix, BinOp.tok] using pE5_sprite_i env f _ _ rest a b h1 h2
      · have h1 := rp_e5 a ha (kw "within" :: (prE b ++ rest)) (by simp [kw, NoLp]) f hfa
        have h2 := rp_e5 b hb rest hn f hfb
        simpa [prE, BinOp.isInfix, BinOp.tok] using pE5_sprite_w env f _ _ rest a b h1 h2
    | true =>
      obtain ⟨f, rfl⟩ : ∃ f, F = f + 2 := ⟨F - 2, by simp [fuelOf] at hF; omega⟩
      have hlv := level_range op hop
      have hA : ∀ F', fuelOf a + 6 ≤ F' →
          pLevel env F' (op.level + 1) (prE a ++ op.tok :: (prE b ++ .p .rp :: rest)) = some (a, op.tok :: (prE b ++ .p .rp :: rest)) :=
        level_of_e5 env a _ (fuelOf a) (fun F' hF' => rp_e5 a ha _ (nolp_optok op _) F' hF') (op.level + 1) (by omega) (by omega)
          (follow_tok_of_infix op hop _)
      have hB : ∀ F', fuelOf b + 6 ≤ F' → pLevel env F' (op.level + 1) (prE b ++ .p .rp :: rest) = some (b, .p .rp :: rest) :=
        level_of_e5 env b _ (fuelOf b) (fun F' hF' => rp_e5 b hb _ (nolp_closer _ _ (Or.inl rfl)) F' hF') (op.level + 1) (by omega) (by omega)
          (follow_closer _ _ _ (Or.inl rfl))
      have hin := read_infix env op hop a b (prE a) (prE b) (.p .rp :: rest) (fuelOf a + fuelOf b + 6)
        (fun F' hF' => hA F' (by omega)) (fun F' hF' => hB F' (by omega)) (follow_closer _ _ _ (Or.inl rfl))
        (op.level - 1) 1 (by omega) (Nat.le_refl 1) f (by simp [fuelOf] at hF; omega)
      have := pE5_lp env f _ (.bin op a b) rest hin
      simpa [prE, hop] using this
  | .call fn as, h, rest, hn, F, hF => by
    obtain ⟨hp, hv, has⟩ : PlainId fn ∧ env.isVar fn = false ∧ FragL env as := h
    obtain ⟨f, rfl⟩ : ∃ f, F = f + 2 := ⟨F - 2, by simp [fuelOf] at hF; omega⟩
    cases as with
    | nil => simpa [prE, prArgs] using pE5_call0 env f fn rest hp hv
    | cons e es =>
      obtain ⟨he, hes⟩ : Frag env e ∧ FragL env es := has
      obtain ⟨f', rfl⟩ : ∃ f', f = f' + 1 := ⟨f - 1, by simp [fuelOf, fuelOfL] at hF; omega⟩
      have hhead := prE_head env e he
      have hE : pLevel env f' 1 (prE e ++ (prTail es ++ .p .rp :: rest)) = some (e, prTail es ++ .p .rp :: rest) := by
        cases es with
        | nil =>
          exact level_of_e5 env e _ (fuelOf e) (fun F' hF' => rp_e5 e he _ (nolp_closer _ _ (Or.inl rfl)) F' hF') 1 (by omega) (by omega)
            (follow_closer _ _ _ (Or.inl rfl)) f' (by simp [fuelOf, fuelOfL] at hF; omega)
        | cons e2 es2 =>
          exact level_of_e5 env e _ (fuelOf e) (fun F' hF' => rp_e5 e he _ (nolp_closer _ _ (Or.inr (Or.inl rfl))) F' hF') 1 (by omega) (by omega)
            (follow_closer _ _ _ (Or.inr (Or.inl rfl))) f' (by simp [fuelOf, fuelOfL] at hF; omega)
      have hM := rp_more es hes (.p .rp) (Or.inl rfl) rest f' (by simp [fuelOf, fuelOfL] at hF; omega)
      have hArgs : pArgs env (f' + 1) (prE e ++ (prTail es ++ .p .rp :: rest)) = some (e :: es, .p .rp :: rest) := by
        simp only [pArgs, hE, hM]
      cases hpe : prE e with
      | nil => rw [hpe] at hhead; exact absurd hhead (by simp [HeadNotRp])
      | cons t ts =>
        rw [hpe] at hhead hArgs
        have := pE5_call env (f' + 1) fn t (ts ++ (prTail es ++ .p .rp :: rest)) (e :: es) rest hp hv hhead.1 (by simpa using hArgs)
        simpa [prE, prArgs_cons, hpe] using this
  | .list as, h, rest, hn, F, hF => by
    have has : FragL env as := h
    obtain ⟨f, rfl⟩ : ∃ f, F = f + 2 := ⟨F - 2, by simp [fuelOf] at hF; omega⟩
    cases as with
    | nil => simpa [prE, prArgs] using pE5_list0 env f rest
    | cons e es =>
      obtain ⟨he, hes⟩ : Frag env e ∧ FragL env es := has
      have hhead := prE_head env e he
      have hE : pLevel env f 1 (prE e ++ (prTail es ++ .p .rb :: rest)) = some (e, prTail es ++ .p .rb :: rest) := by
        cases es with
        | nil =>
          exact level_of_e5 env e _ (fuelOf e) (fun F' hF' => rp_e5 e he _ (nolp_closer _ _ (Or.inr (Or.inr (Or.inl rfl)))) F' hF') 1 (by omega) (by omega)
            (follow_closer _ _ _ (Or.inr (Or.inr (Or.inl rfl)))) f (by simp [fuelOf, fuelOfL] at hF; omega)
        | cons e2 es2 =>
          exact level_of_e5 env e _ (fuelOf e) (fun F' hF' => rp_e5 e he _ (nolp_closer _ _ (Or.inr (Or.inl rfl))) F' hF') 1 (by omega) (by omega)
            (follow_closer _ _ _ (Or.inr (Or.inl rfl))) f (by simp [fuelOf, fuelOfL] at hF; omega)
      have hM := rp_more es hes (.p .rb) (Or.inr rfl) rest f (by simp [fuelOf, fuelOfL] at hF; omega)
      have hnc : ∀ x, prTail es ++ .p .rb :: rest ≠ .p .colon :: x := by
        intro x
        cases es <;> simp [prTail]
      cases hpe : prE e with
      | nil => rw [hpe] at hhead; exact absurd hhead (by simp [HeadNotRp])
      | cons t ts =>
        rw [hpe] at hhead hE
        have := pE5_list env f t (ts ++ (prTail es ++ .p .rb :: rest)) _ rest e es hhead.2.1 hhead.2.2 (by simpa using hE) hnc hM
        simpa [prE, prArgs_cons, hpe] using this
  | .me, h, _, _, _, _ => absurd h (by simp [Frag])
  | .mcall _ _ _, h, _, _, _, _ => absurd h (by simp [Frag])
  | .plist _, h, _, _, _, _ => absurd h (by simp [Frag])
  | .the _ _ _, h, _, _, _, _ => absurd h (by simp [Frag])
  | .key _, h, _, _, _, _ => absurd h (by simp [Frag])
  | .movie _, h, _, _, _, _ => absurd h (by simp [Frag])
  | .oprop _ _, h, _, _, _, _ => absurd h (by simp [Frag])
  | .chunk c a b d, h, rest, hn, F, hF => by
    obtain ⟨ha, hb, hd⟩ : Frag env a ∧ Frag env b ∧ Frag env d := h
    obtain ⟨f, rfl⟩ : ∃ f, F = f + 3 := ⟨F - 3, by simp [fuelOf] at hF; omega⟩
    have hD : pE5 env f (prE d ++ rest) = some (d, rest) := rp_e5 d hd rest hn f (by simp [fuelOf] at hF; omega)
    have hcase : b = .int 0 ∨ prE (.chunk c a b d) = Tok.id c.tag.toList :: prE a ++ Tok.id "to".toList :: prE b ++ Tok.id "of".toList :: prE d := by
      cases b with
      | int n => cases n with
        | zero => exact Or.inl rfl
        | succ m => exact Or.inr (by simp [prE, kw])
      | _ => exact Or.inr (by simp [prE, kw])
    rcases hcase with hb0 | hpr
    · subst hb0
      have hA : pLevel env f 1 (prE a ++ Tok.id "of".toList :: (prE d ++ rest)) = some (a, Tok.id "of".toList :: (prE d ++ rest)) :=
        level_of_e5 env a (Tok.id "of".toList :: (prE d ++ rest)) (fuelOf a) (fun F' hF' => rp_e5 a ha _ (by simp [NoLp]) F' hF') 1 (by omega) (by omega)
          (follow_of 1 _) f (by simp [fuelOf] at hF; omega)
      have := pE5_chunk1 env f c _ _ rest a d hA hD
      simpa [prE, kw] using this
    · have hA : pLevel env f 1 (prE a ++ Tok.id "to".toList :: (prE b ++ Tok.id "of".toList :: (prE d ++ rest)))
          = some (a, Tok.id "to".toList :: (prE b ++ Tok.id "of".toList :: (prE d ++ rest))) :=
        level_of_e5 env a (Tok.id "to".toList :: (prE b ++ Tok.id "of".toList :: (prE d ++ rest))) (fuelOf a) (fun F' hF' => rp_e5 a ha _ (by simp [NoLp]) F' hF') 1 (by omega) (by omega)
          (follow_to 1 _) f (by simp [fuelOf] at hF; omega)
      have hB : pLevel env f 1 (prE b ++ Tok.id "of".toList :: (prE d ++ rest)) = some (b, Tok.id "of".toList :: (prE d ++ rest)) :=
        level_of_e5 env b (Tok.id "of".toList :: (prE d ++ rest)) (fuelOf b) (fun F' hF' => rp_e5 b hb _ (by simp [NoLp]) F' hF') 1 (by omega) (by omega)
          (follow_of 1 _) f (by simp [fuelOf] at hF; omega)
      have := pE5_chunk2 env f c _ _ _ rest a b d hA hB hD
      rw [hpr]
      simpa using this
/-- `, a, b` up to the closing parenthesis / bracket -/
theorem rp_more : ∀ (es : List Expr), FragL env es → ∀ (c : Tok), (c = .p .rp ∨ c = .p .rb) → ∀ (rest : List Tok) (F : Nat), fuelOfL es + 1 ≤ F →
    pMore env F (prTail es ++ c :: rest) = some (es, c :: rest)
  | [], _, c, hc, rest, F, hF => by
    obtain ⟨f, rfl⟩ : ∃ f, F = f + 1 := ⟨F - 1, by omega⟩
    rcases hc with hc | hc <;> subst hc <;> simp [prTail, pMore]
  | e :: es, h, c, hc, rest, F, hF => by
    obtain ⟨he, hes⟩ : Frag env e ∧ FragL env es := h
    obtain ⟨f, rfl⟩ : ∃ f, F = f + 1 := ⟨F - 1, by omega⟩
    have hcl : Closer c := by rcases hc with hc | hc <;> subst hc <;> simp [Closer]
    have hE : pLevel env f 1 (prE e ++ (prTail es ++ c :: rest)) = some (e, prTail es ++ c :: rest) := by
      cases es with
      | nil =>
        exact level_of_e5 env e _ (fuelOf e) (fun F' hF' => rp_e5 e he _ (nolp_closer _ _ hcl) F' hF') 1 (by omega) (by omega)
          (follow_closer _ _ _ hcl) f (by simp [fuelOfL] at hF; omega)
      | cons e2 es2 =>
        exact level_of_e5 env e _ (fuelOf e) (fun F' hF' => rp_e5 e he _ (nolp_closer _ _ (Or.inr (Or.inl rfl))) F' hF') 1 (by omega) (by omega)
          (follow_closer _ _ _ (Or.inr (Or.inl rfl))) f (by simp [fuelOfL] at hF; omega)
    have hM := rp_more es hes c hc rest f (by simp [fuelOfL] at hF; omega)
    simp only [prTail, List.cons_append, List.append_assoc, pMore, hE, hM]
end

end Drx.Spec
