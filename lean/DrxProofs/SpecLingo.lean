/-
  The reference reader inverts the reference printer (expression fragment):  pExpr env (prE e ++ rest) = some (e, rest).
-/
import Drx.Spec.LingoPrint
namespace Drx.Spec
set_option linter.unusedSimpArgs false

/-- nothing that follows can continue an expression at level ≥ lvl -/
def Follow (lvl : Nat) : List Tok → Prop
  | [] => True
  | t :: _ => ∀ l, lvl ≤ l → binOfTok l t = none

def NoLp : List Tok → Prop
  | .p .lp :: _ => False
  | _ => True

theorem binOfTok_ge5 (l : Nat) (t : Tok) (h : 5 ≤ l) : binOfTok l t = none := by
  match l, h with
  | n + 5, _ => simp [binOfTok]

theorem binOfTok_zero (t : Tok) : binOfTok 0 t = none := by simp [binOfTok]

/-- tokens that are never an infix operator -/
def Closer (t : Tok) : Prop := t = .p .rp ∨ t = .p .comma ∨ t = .p .rb ∨ t = .nl ∨ t = .p .colon

theorem binOfTok_closer (l : Nat) (t : Tok) (h : Closer t) : binOfTok l t = none := by
  rcases h with h | h | h | h | h <;> subst h <;>
  · match l with
    | 0 => rfl
    | 1 => rfl
    | 2 => rfl
    | 3 => rfl
    | 4 => rfl
    | n + 5 => simp [binOfTok]

theorem follow_closer (lvl : Nat) (t : Tok) (r : List Tok) (h : Closer t) : Follow lvl (t :: r) :=
  fun l _ => binOfTok_closer l t h

theorem nolp_closer (t : Tok) (r : List Tok) (h : Closer t) : NoLp (t :: r) := by
  rcases h with h | h | h | h | h <;> subst h <;> trivial

theorem binOfTok_own (op : BinOp) (h : op.isInfix = true) : binOfTok op.level op.tok = some op := by
  cases op <;> first | rfl | (simp [BinOp.isInfix] at h)

theorem binOfTok_other (op : BinOp) (l : Nat) (h : op.isInfix = true) (hl : l ≠ op.level) : binOfTok l op.tok = none := by
  match l with
  | 0 => rfl
  | n + 5 => simp [binOfTok]
  | 1 => cases op <;> first | rfl | (simp [BinOp.level] at hl) | (simp [BinOp.isInfix] at h)
  | 2 => cases op <;> first | rfl | (simp [BinOp.level] at hl) | (simp [BinOp.isInfix] at h)
  | 3 => cases op <;> first | rfl | (simp [BinOp.level] at hl) | (simp [BinOp.isInfix] at h)
  | 4 => cases op <;> first | rfl | (simp [BinOp.level] at hl) | (simp [BinOp.isInfix] at h)

theorem level_range (op : BinOp) (h : op.isInfix = true) : 1 ≤ op.level ∧ op.level ≤ 4 := by
  cases op <;> simp [BinOp.level, BinOp.isInfix] at *

variable (env : Env)

theorem pLoop_stop (f lvl : Nat) (a : Expr) (rest : List Tok) (h : Follow lvl rest) :
    pLoop env (f + 1) lvl a rest = some (a, rest) := by
  cases rest with
  | nil => simp [pLoop]
  | cons t r =>
    have : binOfTok lvl t = none := h lvl (Nat.le_refl _)
    simp [pLoop, this]

/-- climbing from level 5 up to `lvl`: if the level-5 parser reads exactly `e` from `ts` for every large enough fuel, and what
    follows cannot continue an expression, then so does every lower level -/
theorem climb (ts rest : List Tok) (e : Expr) (B : Nat)
    (h5 : ∀ F, B ≤ F → pE5 env F ts = some (e, rest)) :
    ∀ (k lvl : Nat), lvl + k = 5 → 1 ≤ lvl → Follow lvl rest → ∀ F, B + k + 1 ≤ F → pLevel env F lvl ts = some (e, rest) := by
  intro k
  induction k with
  | zero =>
    intro lvl hl _ _ F hF
    obtain ⟨f, rfl⟩ : ∃ f, F = f + 1 := ⟨F - 1, by omega⟩
    have h : lvl ≥ 5 := by omega
    simp only [pLevel, h, if_true]
    exact h5 f (by omega)
  | succ k ih =>
    intro lvl hl h1 hfol F hF
    obtain ⟨f, rfl⟩ : ∃ f, F = f + 1 := ⟨F - 1, by omega⟩
    have h : ¬ lvl ≥ 5 := by omega
    have hfol' : Follow (lvl + 1) rest := by
      cases rest with
      | nil => trivial
      | cons t r => exact fun l hl' => hfol l (by omega)
    have := ih (lvl + 1) (by omega) (by omega) hfol' f (by omega)
    simp only [pLevel, h, if_false, this]
    obtain ⟨f', rfl⟩ : ∃ f', f = f' + 1 := ⟨f - 1, by omega⟩
    exact pLoop_stop env f' lvl e rest hfol

/-- reading `a op b` (operands already known to read back at the next tighter level) at every level up to the operator's own -/
theorem read_infix (op : BinOp) (hop : op.isInfix = true) (a b : Expr) (ta tb R : List Tok) (B : Nat)
    (ha : ∀ F, B ≤ F → pLevel env F (op.level + 1) (ta ++ op.tok :: (tb ++ R)) = some (a, op.tok :: (tb ++ R)))
    (hb : ∀ F, B ≤ F → pLevel env F (op.level + 1) (tb ++ R) = some (b, R))
    (hR : Follow 1 R) :
    ∀ (k lvl : Nat), lvl + k = op.level → 1 ≤ lvl → ∀ F, B + k + 3 ≤ F →
      pLevel env F lvl (ta ++ op.tok :: (tb ++ R)) = some (.bin op a b, R) := by
  have hlv := level_range op hop
  have folR : ∀ lvl, 1 ≤ lvl → Follow lvl R := by
    intro lvl h1
    cases R with
    | nil => trivial
    | cons t r => exact fun l hl => hR l (by omega)
  intro k
  induction k with
  | zero =>
    intro lvl hl h1 F hF
    obtain ⟨f, rfl⟩ : ∃ f, F = f + 1 := ⟨F - 1, by omega⟩
    have hl' : lvl = op.level := by omega
    subst hl'
    have h : ¬ op.level ≥ 5 := by omega
    simp only [pLevel, h, if_false, ha f (by omega)]
    obtain ⟨f', rfl⟩ : ∃ f', f = f' + 1 := ⟨f - 1, by omega⟩
    simp only [pLoop, binOfTok_own op hop, hb f' (by omega)]
    obtain ⟨f'', rfl⟩ : ∃ f'', f' = f'' + 1 := ⟨f' - 1, by omega⟩
    exact pLoop_stop env f'' op.level (.bin op a b) R (folR _ hlv.1)
  | succ k ih =>
    intro lvl hl h1 F hF
    obtain ⟨f, rfl⟩ : ∃ f, F = f + 1 := ⟨F - 1, by omega⟩
    have h : ¬ lvl ≥ 5 := by omega
    simp only [pLevel, h, if_false, ih (lvl + 1) (by omega) (by omega) f (by omega)]
    obtain ⟨f', rfl⟩ : ∃ f', f = f' + 1 := ⟨f - 1, by omega⟩
    exact pLoop_stop env f' lvl (.bin op a b) R (folR _ h1)

/-- identifiers that are not words of the expression grammar -/
def PlainId (n : Name) : Prop :=
  (Tok.id n).kw "not" = false ∧ (Tok.id n).kw "sprite" = false ∧ (Tok.id n).kw "the" = false ∧ (Tok.id n).kw "field" = false
    ∧ chunkOfSingular n = none

/-- `env` classifies the identifier `n` as a variable of kind `k` (decidable form of `env.resolve n = .var k n`) -/
def resolvesTo (env : Env) (n : Name) (k : VarKind) : Bool :=
  match env.resolve n with
  | .var k' n' => decide (k' = k) && decide (n' = n)
  | _ => false

theorem resolve_of_resolvesTo (env : Env) (n : Name) (k : VarKind) (h : resolvesTo env n k = true) : env.resolve n = .var k n := by
  unfold resolvesTo at h
  split at h
  · rename_i k' n' heq
    simp at h
    rw [heq, h.1, h.2]
  · cases h


theorem kw_num (n : Nat) (k : String) : (Tok.num n).kw k = false := rfl
theorem kw_p (x : P) (k : String) : (Tok.p x).kw k = false := rfl
theorem kw_flt (a b : Nat) (k : String) : (Tok.flt a b).kw k = false := rfl
theorem kw_str (s : Name) (k : String) : (Tok.str s).kw k = false := rfl

/-- from "level 5 reads it back" to "every level reads it back" (with explicit fuel) -/
theorem level_of_e5 (e : Expr) (rest : List Tok) (B : Nat)
    (h5 : ∀ F, B ≤ F → pE5 env F (prE e ++ rest) = some (e, rest))
    (lvl : Nat) (h1 : 1 ≤ lvl) (h2 : lvl ≤ 5) (hf : Follow lvl rest) :
    ∀ F, B + 6 ≤ F → pLevel env F lvl (prE e ++ rest) = some (e, rest) := by
  intro F hF
  exact climb env (prE e ++ rest) rest e B h5 (5 - lvl) lvl (by omega) h1 hf F (by omega)

theorem follow_tok_of_infix (op : BinOp) (hop : op.isInfix = true) (r : List Tok) : Follow (op.level + 1) (op.tok :: r) := by
  intro l hl
  exact binOfTok_other op l hop (by omega)

theorem nolp_optok (op : BinOp) (r : List Tok) : NoLp (op.tok :: r) := by
  cases op <;> simp [BinOp.tok, NoLp, kw]

theorem pE5_lp (f : Nat) (X : List Tok) (e : Expr) (r' : List Tok) (h : pLevel env f 1 X = some (e, .p .rp :: r')) :
    pE5 env (f + 2) (.p .lp :: X) = some (e, r') := by
  simp [pE5, pSimple, kw_p, h]

theorem pE5_field (f : Nat) (X : List Tok) (e : Expr) (r' : List Tok) (h : pE5 env f X = some (e, r')) :
    pE5 env (f + 2) (kw "field" :: X) = some (.field e, r') := by
  have k1 : (Tok.id ['f','i','e','l','d']).kw "field" = true := by decide
  have k2 : (Tok.id ['f','i','e','l','d']).kw "not" = false := by decide
  have k3 : (Tok.id ['f','i','e','l','d']).kw "sprite" = false := by decide
  have k4 : (Tok.id ['f','i','e','l','d']).kw "the" = false := by decide
  have k5 : chunkOfSingular ['f','i','e','l','d'] = none := by decide
  simp [kw, pE5, pSimple, k1, k2, k3, k4, k5, h]

theorem pE5_not (f : Nat) (X : List Tok) (e : Expr) (r' : List Tok) (h : pE5 env f X = some (e, r')) :
    pE5 env (f + 1) (kw "not" :: X) = some (.un .not e, r') := by
  have k1 : (Tok.id ['n','o','t']).kw "not" = true := by decide
  simp [kw, pE5, k1, h]

theorem pE5_neg (f : Nat) (X : List Tok) (e : Expr) (r' : List Tok) (h : pE5 env f X = some (e, r')) :
    pE5 env (f + 1) (.p .minus :: X) = some (.un .neg e, r') := by
  simp [pE5, h]

theorem pE5_call0 (f : Nat) (s : Name) (r : List Tok) (hp : PlainId s) (hv : env.isVar s = false) :
    pE5 env (f + 2) (.id s :: .p .lp :: .p .rp :: r) = some (.call s [], r) := by
  obtain ⟨h1, h2, h3, h4, h5⟩ := hp
  simp [pE5, pSimple, h1, h2, h3, h4, h5, hv]

theorem pE5_call (f : Nat) (s : Name) (t : Tok) (r1 : List Tok) (as : List Expr) (r2 : List Tok)
    (hp : PlainId s) (hv : env.isVar s = false) (ht : t ≠ .p .rp)
    (h : pArgs env f (t :: r1) = some (as, .p .rp :: r2)) :
    pE5 env (f + 2) (.id s :: .p .lp :: t :: r1) = some (.call s as, r2) := by
  obtain ⟨h1, h2, h3, h4, h5⟩ := hp
  simp only [pE5, h1, h2, pSimple, h3, h4, h5]
  simp [hv]
  split
  · rename_i heq; simp at heq; exact absurd heq.1 ht
  · simp [h]

theorem pE5_id (f : Nat) (n : Name) (rest : List Tok) (hp : PlainId n) (hn : NoLp rest) :
    pE5 env (f + 2) (.id n :: rest) = some (env.resolve n, rest) := by
  obtain ⟨h1, h2, h3, h4, h5⟩ := hp
  simp only [pE5, h1, h2, pSimple, h3, h4, h5]
  simp
  split
  · exact absurd hn (by simp [NoLp])
  · rfl

theorem pE5_var (f : Nat) (k : VarKind) (n : Name) (rest : List Tok) (hp : PlainId n) (hr : env.resolve n = .var k n) (hn : NoLp rest) :
    pE5 env (f + 2) (.id n :: rest) = some (.var k n, rest) := by
  rw [pE5_id env f n rest hp hn, hr]

/-- the named constants: writing the name and resolving it gives the string back, and the names are not words of the grammar -/
theorem namedConstants_ok : ∀ x ∈ namedConstants, namedConstantOf x.1.toList = some x.2 ∧
    (Tok.id x.1.toList).kw "not" = false ∧ (Tok.id x.1.toList).kw "sprite" = false ∧ (Tok.id x.1.toList).kw "the" = false
      ∧ (Tok.id x.1.toList).kw "field" = false ∧ chunkOfSingular x.1.toList = none := by decide +kernel

theorem nameOfConstant_spec (s c : Name) (h : nameOfConstant s = some c) :
    namedConstantOf c = some s ∧ PlainId c := by
  unfold nameOfConstant at h
  cases hf : namedConstants.find? (fun x => x.2 == s) with
  | none => simp [hf] at h
  | some x =>
    simp [hf] at h
    have hx := List.mem_of_find?_eq_some hf
    have hs : x.2 = s := by simpa using List.find?_some hf
    have := namedConstants_ok x hx
    subst h; subst hs
    exact ⟨this.1, this.2⟩

theorem resolve_constant (c s : Name) (h : namedConstantOf c = some s) : env.resolve c = .str s := by
  simp [Env.resolve, h]

theorem pE5_sprite_i (f : Nat) (X r2 r3 : List Tok) (a b : Expr)
    (h1 : pE5 env f X = some (a, kw "intersects" :: r2)) (h2 : pE5 env f r2 = some (b, r3)) :
    pE5 env (f + 1) (kw "sprite" :: X) = some (.bin .intersects a b, r3) := by
  have k1 : (Tok.id ['s','p','r','i','t','e']).kw "sprite" = true := by decide
  have k2 : (Tok.id ['s','p','r','i','t','e']).kw "not" = false := by decide
  have k3 : (Tok.id ['i','n','t','e','r','s','e','c','t','s']).kw "intersects" = true := by decide
  simp [kw, pE5, k1, k2] at h1 ⊢
  simp [h1, k3, h2]

theorem pE5_sprite_w (f : Nat) (X r2 r3 : List Tok) (a b : Expr)
    (h1 : pE5 env f X = some (a, kw "within" :: r2)) (h2 : pE5 env f r2 = some (b, r3)) :
    pE5 env (f + 1) (kw "sprite" :: X) = some (.bin .within a b, r3) := by
  have k1 : (Tok.id ['s','p','r','i','t','e']).kw "sprite" = true := by decide
  have k2 : (Tok.id ['s','p','r','i','t','e']).kw "not" = false := by decide
  have k3 : (Tok.id ['w','i','t','h','i','n']).kw "intersects" = false := by decide
  have k4 : (Tok.id ['w','i','t','h','i','n']).kw "within" = true := by decide
  simp [kw, pE5, k1, k2] at h1 ⊢
  simp [h1, k3, k4, h2]

theorem pE5_list0 (f : Nat) (r : List Tok) : pE5 env (f + 2) (.p .lb :: .p .rb :: r) = some (.list [], r) := by
  simp [pE5, pSimple, kw_p]

theorem pE5_list (f : Nat) (t : Tok) (ts r1 r2 : List Tok) (e : Expr) (es : List Expr)
    (ht1 : t ≠ .p .rb) (ht2 : t ≠ .p .colon)
    (h1 : pLevel env f 1 (t :: ts) = some (e, r1)) (hr1 : ∀ x, r1 ≠ .p .colon :: x)
    (h2 : pMore env f r1 = some (es, .p .rb :: r2)) :
    pE5 env (f + 2) (.p .lb :: t :: ts) = some (.list (e :: es), r2) := by
  simp only [pE5, kw_p]
  simp only [pSimple]
  simp
  split
  · rename_i heq; injection heq with h _; exact absurd h ht1
  · rename_i heq; injection heq with h _; exact absurd h ht2
  · simp only [h1]
    simp [h2]

theorem kwtag_facts (c : ChunkKind) :
    (Tok.id c.tag.toList).kw "the" = false ∧ (Tok.id c.tag.toList).kw "not" = false ∧ (Tok.id c.tag.toList).kw "sprite" = false
      ∧ chunkOfSingular c.tag.toList = some c := by
  cases c <;> decide

theorem pE5_chunk1 (f : Nat) (c : ChunkKind) (X r1 r2 : List Tok) (a d : Expr)
    (h1 : pLevel env f 1 X = some (a, Tok.id "of".toList :: r1)) (h2 : pE5 env f r1 = some (d, r2)) :
    pE5 env (f + 3) (Tok.id c.tag.toList :: X) = some (.chunk c a (.int 0) d, r2) := by
  obtain ⟨k1, k2, k3, k5⟩ := kwtag_facts c
  have o1 : (Tok.id ['o', 'f']).kw "to" = false := by decide
  have o2 : (Tok.id ['o', 'f']).kw "of" = true := by decide
  simp only [pE5, k2, k3]
  simp only [pSimple, k1, k5]
  simp [pChunk, h1, o1, o2, h2]

theorem pE5_chunk2 (f : Nat) (c : ChunkKind) (X r1 r2 r3 : List Tok) (a b d : Expr)
    (h1 : pLevel env f 1 X = some (a, Tok.id "to".toList :: r1))
    (h2 : pLevel env f 1 r1 = some (b, Tok.id "of".toList :: r2)) (h3 : pE5 env f r2 = some (d, r3)) :
    pE5 env (f + 3) (Tok.id c.tag.toList :: X) = some (.chunk c a b d, r3) := by
  obtain ⟨k1, k2, k3, k5⟩ := kwtag_facts c
  have o1 : (Tok.id ['t', 'o']).kw "to" = true := by decide
  have o2 : (Tok.id ['o', 'f']).kw "of" = true := by decide
  simp only [pE5, k2, k3]
  simp only [pSimple, k1, k5]
  simp [pChunk, h1, o1, o2, h2, h3]

theorem binOfTok_of (l : Nat) : binOfTok l (Tok.id "of".toList) = none := by
  match l with
  | 0 => rfl
  | 1 => rfl
  | 2 => decide
  | 3 => rfl
  | 4 => decide
  | n + 5 => simp [binOfTok]

theorem binOfTok_to (l : Nat) : binOfTok l (Tok.id "to".toList) = none := by
  match l with
  | 0 => rfl
  | 1 => rfl
  | 2 => decide
  | 3 => rfl
  | 4 => decide
  | n + 5 => simp [binOfTok]

theorem follow_of (lvl : Nat) (r : List Tok) : Follow lvl (Tok.id "of".toList :: r) := fun l _ => binOfTok_of l
theorem follow_to (lvl : Nat) (r : List Tok) : Follow lvl (Tok.id "to".toList :: r) := fun l _ => binOfTok_to l

/-! ### `the` forms, `me`, method calls, property lists: one lemma per form -/

/-- not one of the words that introduce a date / time form -/
def notDateStyle (p : Name) : Bool :=
  let s := lowerName p
  s != "short".toList && s != "long".toList && s != "abbr".toList && s != "abbrev".toList && s != "abbreviated".toList

theorem tblDate_styles : ∀ x ∈ tblDate, x.2.1.toList = "short".toList ∨ x.2.1.toList = "abbr".toList ∨ x.2.1.toList = "long".toList := by
  decide +kernel

theorem dateIdx_none (p u : Name) (h : notDateStyle p = true) : dateIdx p u = none := by
  simp only [notDateStyle, Bool.and_eq_true, bne_iff_ne, ne_eq] at h
  obtain ⟨⟨⟨⟨h1, h2⟩, h3⟩, h4⟩, h5⟩ := h
  unfold dateIdx
  have e : (if (lowerName p = "abbrev".toList || lowerName p = "abbreviated".toList) = true then "abbr".toList else lowerName p) = lowerName p := by
    simp only [Bool.or_eq_true, decide_eq_true_eq]
    rw [if_neg]
    intro hh; rcases hh with hh | hh
    · exact h4 hh
    · exact h5 hh
  simp only [e, Option.map_eq_none_iff, List.find?_eq_none]
  intro x hx
  simp only [Bool.and_eq_true, beq_iff_eq, not_and]
  intro hs
  rcases tblDate_styles x hx with hh | hh | hh
  · rw [hh] at hs; exact absurd hs.symm h1
  · rw [hh] at hs; exact absurd hs.symm h3
  · rw [hh] at hs; exact absurd hs.symm h2

/-- a property name that is not one of the words with a special form after `the` -/
def PlainThe (p : Name) : Prop :=
  (Tok.id p).kw "number" = false ∧ (Tok.id p).kw "last" = false ∧ notDateStyle p = true

theorem pThe_simple (f : Nat) (p : Name) (r : List Tok) (hp : PlainThe p) (ho : isObjectless p = true) :
    pThe env (f + 1) (.id p :: r) = some (theSimple p, r) := by
  obtain ⟨h1, h2, h3⟩ := hp
  simp only [pThe, h1, h2, if_false, Bool.false_eq_true]
  rcases r with _ | ⟨t, r'⟩
  · simp [ho]
  · cases t <;> simp [dateIdx_none p _ h3, ho]

theorem pE5_the (f : Nat) (X : List Tok) (e : Expr) (r : List Tok) (h : pThe env f X = some (e, r)) :
    pE5 env (f + 2) (kw "the" :: X) = some (e, r) := by
  have k1 : (Tok.id ['t','h','e']).kw "the" = true := by decide
  have k2 : (Tok.id ['t','h','e']).kw "not" = false := by decide
  have k3 : (Tok.id ['t','h','e']).kw "sprite" = false := by decide
  simp [kw, pE5, pSimple, k1, k2, k3, h]

theorem kwOf : (Tok.id ['o','f']).kw "of" = true := by decide
theorem kwOfIn : (Tok.id ['o','f']).kw "in" = false := by decide

/-- head of the object expression is not one of the object keywords (those select the built-in tables) -/
def objKw (t : Tok) : Bool :=
  t.kw "sprite" || t.kw "cast" || t.kw "field" || t.kw "sound" || t.kw "menuitem" || t.kw "menu"

theorem pThe_oprop (f : Nat) (p : Name) (t : Tok) (X r3 : List Tok) (e : Expr) (hp : PlainThe p) (ho : isObjectless p = false)
    (ht : objKw t = false) (h : pE5 env f (t :: X) = some (e, r3)) :
    pThe env (f + 1) (.id p :: kw "of" :: t :: X) = some (.oprop p e, r3) := by
  obtain ⟨h1, h2, h3⟩ := hp
  simp only [objKw, Bool.or_eq_false_iff] at ht
  obtain ⟨⟨⟨⟨⟨t1, t2⟩, t3⟩, t4⟩, t5⟩, t6⟩ := ht
  simp only [pThe, h1, h2, if_false, Bool.false_eq_true, kw]
  simp [dateIdx_none p _ h3, ho, kwOf, t1, t2, t3, t4, t5, t6, h]

theorem pThe_sprite (f : Nat) (p : Name) (k : Nat) (X r3 : List Tok) (e : Expr) (hp : PlainThe p) (ho : isObjectless p = false)
    (hk : tblLookupName tblSprite p = some k) (h : pE5 env f X = some (e, r3)) :
    pThe env (f + 1) (.id p :: kw "of" :: kw "sprite" :: X) = some (.the .sprite k [e], r3) := by
  obtain ⟨h1, h2, h3⟩ := hp
  have s1 : (Tok.id ['s','p','r','i','t','e']).kw "sprite" = true := by decide
  simp only [pThe, h1, h2, if_false, Bool.false_eq_true, kw]
  simp [dateIdx_none p _ h3, ho, kwOf, s1, h, hk]

/-- like `PlainThe` but `number` is allowed (it is a cast / field property) -/
def PlainThe' (p : Name) : Prop := (Tok.id p).kw "last" = false ∧ notDateStyle p = true

theorem pThe_cast (f : Nat) (p : Name) (k : Nat) (X r3 : List Tok) (e : Expr) (hp : PlainThe' p) (ho : isObjectless p = false)
    (hk : tblLookupName tblCast p = some k) (h : pE5 env f X = some (e, r3)) :
    pThe env (f + 1) (.id p :: kw "of" :: kw "cast" :: X) = some (.the .cast k [e], r3) := by
  obtain ⟨h2, h3⟩ := hp
  have s1 : (Tok.id ['c','a','s','t']).kw "sprite" = false := by decide
  have s2 : (Tok.id ['c','a','s','t']).kw "cast" = true := by decide
  have c1 : chunkOfPlural ['c','a','s','t'] = none := by decide
  have c2 : (Tok.id ['c','a','s','t']).kw "menuitems" = false := by decide
  have c3 : (Tok.id ['c','a','s','t']).kw "castmembers" = false := by decide
  have c4 : (Tok.id ['c','a','s','t']).kw "menus" = false := by decide
  cases hn : (Tok.id p).kw "number" <;>
  · simp only [pThe, hn, h2, if_false, if_true, Bool.false_eq_true, kw]
    simp [dateIdx_none p _ h3, ho, kwOf, s1, s2, c1, c2, c3, c4, h, hk]

theorem pThe_video (f : Nat) (p : Name) (k : Nat) (X r3 : List Tok) (e : Expr) (hp : PlainThe p) (ho : isObjectless p = false)
    (hc : tblLookupName tblCast p = none) (hk : tblLookupName tblVideo p = some k) (h : pE5 env f X = some (e, r3)) :
    pThe env (f + 1) (.id p :: kw "of" :: kw "cast" :: X) = some (.the .video k [e], r3) := by
  obtain ⟨h1, h2, h3⟩ := hp
  have s1 : (Tok.id ['c','a','s','t']).kw "sprite" = false := by decide
  have s2 : (Tok.id ['c','a','s','t']).kw "cast" = true := by decide
  simp only [pThe, h1, h2, if_false, Bool.false_eq_true, kw]
  simp [dateIdx_none p _ h3, ho, kwOf, s1, s2, h, hk, hc]

theorem pThe_field (f : Nat) (p : Name) (k : Nat) (X r3 : List Tok) (e : Expr) (hp : PlainThe' p) (ho : isObjectless p = false)
    (hk : tblLookupName tblCast p = some k) (h : pE5 env f X = some (e, r3)) :
    pThe env (f + 1) (.id p :: kw "of" :: kw "field" :: X) = some (.the .field k [e], r3) := by
  obtain ⟨h2, h3⟩ := hp
  have s1 : (Tok.id ['f','i','e','l','d']).kw "sprite" = false := by decide
  have s2 : (Tok.id ['f','i','e','l','d']).kw "cast" = false := by decide
  have s3 : (Tok.id ['f','i','e','l','d']).kw "field" = true := by decide
  have c1 : chunkOfPlural ['f','i','e','l','d'] = none := by decide
  have c2 : (Tok.id ['f','i','e','l','d']).kw "menuitems" = false := by decide
  have c3 : (Tok.id ['f','i','e','l','d']).kw "castmembers" = false := by decide
  have c4 : (Tok.id ['f','i','e','l','d']).kw "menus" = false := by decide
  cases hn : (Tok.id p).kw "number" <;>
  · simp only [pThe, hn, h2, if_false, if_true, Bool.false_eq_true, kw]
    simp [dateIdx_none p _ h3, ho, kwOf, s1, s2, s3, c1, c2, c3, c4, h, hk]

theorem pThe_sound (f : Nat) (p : Name) (k : Nat) (X r3 : List Tok) (e : Expr) (hp : PlainThe p) (ho : isObjectless p = false)
    (hk : tblLookupName tblSound p = some k) (h : pE5 env f X = some (e, r3)) :
    pThe env (f + 1) (.id p :: kw "of" :: kw "sound" :: X) = some (.the .sound k [e], r3) := by
  obtain ⟨h1, h2, h3⟩ := hp
  have s1 : (Tok.id ['s','o','u','n','d']).kw "sprite" = false := by decide
  have s2 : (Tok.id ['s','o','u','n','d']).kw "cast" = false := by decide
  have s3 : (Tok.id ['s','o','u','n','d']).kw "field" = false := by decide
  have s4 : (Tok.id ['s','o','u','n','d']).kw "sound" = true := by decide
  simp only [pThe, h1, h2, if_false, Bool.false_eq_true, kw]
  simp [dateIdx_none p _ h3, ho, kwOf, s1, s2, s3, s4, h, hk]

theorem pThe_menuItem (f : Nat) (p : Name) (k : Nat) (X Y r4 : List Tok) (i m : Expr) (hp : PlainThe p) (ho : isObjectless p = false)
    (hk : tblLookupName tblMenuItem p = some k)
    (h1' : pE5 env f X = some (i, kw "of" :: kw "menu" :: Y)) (h2' : pE5 env f Y = some (m, r4)) :
    pThe env (f + 1) (.id p :: kw "of" :: kw "menuItem" :: X) = some (.the .menuItem k [i, m], r4) := by
  obtain ⟨h1, h2, h3⟩ := hp
  have s1 : (Tok.id ['m','e','n','u','I','t','e','m']).kw "sprite" = false := by decide
  have s2 : (Tok.id ['m','e','n','u','I','t','e','m']).kw "cast" = false := by decide
  have s3 : (Tok.id ['m','e','n','u','I','t','e','m']).kw "field" = false := by decide
  have s4 : (Tok.id ['m','e','n','u','I','t','e','m']).kw "sound" = false := by decide
  have s5 : (Tok.id ['m','e','n','u','I','t','e','m']).kw "menuitem" = true := by decide
  have m1 : (Tok.id ['m','e','n','u']).kw "menu" = true := by decide
  simp only [kw] at h1'
  simp only [pThe, h1, h2, if_false, Bool.false_eq_true, kw]
  simp [dateIdx_none p _ h3, ho, kwOf, s1, s2, s3, s4, s5, m1, h1', h2', hk]

theorem pThe_menuName (f : Nat) (X r3 : List Tok) (m : Expr) (h : pE5 env f X = some (m, r3)) :
    pThe env (f + 1) (kw "name" :: kw "of" :: kw "menu" :: X) = some (.the .menu 1 [m], r3) := by
  have h1 : (Tok.id ['n','a','m','e']).kw "number" = false := by decide
  have h2 : (Tok.id ['n','a','m','e']).kw "last" = false := by decide
  have h3 : notDateStyle ['n','a','m','e'] = true := by decide
  have h4 : (Tok.id ['n','a','m','e']).kw "name" = true := by decide
  have ho : isObjectless ['n','a','m','e'] = false := by decide +kernel
  have s1 : (Tok.id ['m','e','n','u']).kw "sprite" = false := by decide
  have s2 : (Tok.id ['m','e','n','u']).kw "cast" = false := by decide
  have s3 : (Tok.id ['m','e','n','u']).kw "field" = false := by decide
  have s4 : (Tok.id ['m','e','n','u']).kw "sound" = false := by decide
  have s5 : (Tok.id ['m','e','n','u']).kw "menuitem" = false := by decide
  have s6 : (Tok.id ['m','e','n','u']).kw "menu" = true := by decide
  simp only [kw]
  simp only [pThe, h1, h2, if_false, Bool.false_eq_true]
  simp [dateIdx_none _ _ h3, ho, kwOf, s1, s2, s3, s4, s5, s6, h, h4, h1, h2]

theorem chunkPlural_facts (c : ChunkKind) : chunkOfPlural (chunkPlural c).toList = some c := by cases c <;> decide
theorem chunkTag_facts (c : ChunkKind) : chunkOfSingular c.tag.toList = some c := by cases c <;> decide
theorem ofRank_rank (k : Nat) (c : ChunkKind) (h : ChunkKind.ofRank k = some c) : c.rank = k := by
  unfold ChunkKind.ofRank at h
  split at h
  · injection h with h; subst h; subst_vars; rfl
  · split at h
    · injection h with h; subst h; subst_vars; rfl
    · split at h
      · injection h with h; subst h; subst_vars; rfl
      · split at h
        · injection h with h; subst h; subst_vars; rfl
        · cases h

theorem kwNumber : (Tok.id ['n','u','m','b','e','r']).kw "number" = true := by decide
theorem kwLast : (Tok.id ['l','a','s','t']).kw "last" = true := by decide
theorem kwLastNumber : (Tok.id ['l','a','s','t']).kw "number" = false := by decide

theorem pThe_numChunks (f : Nat) (c : ChunkKind) (X r3 : List Tok) (e : Expr) (h : pE5 env f X = some (e, r3)) :
    pThe env (f + 1) (kw "number" :: kw "of" :: kw (chunkPlural c) :: kw "of" :: X) = some (.the .numChunks c.rank [e], r3) := by
  simp only [kw]
  simp only [pThe, kwNumber, if_true]
  simp [kwNumber, kwOf, chunkPlural_facts c, h]

theorem pThe_menuItems (f : Nat) (X r3 : List Tok) (e : Expr) (h : pE5 env f X = some (e, r3)) :
    pThe env (f + 1) (kw "number" :: kw "of" :: kw "menuItems" :: kw "of" :: kw "menu" :: X) = some (.the .menu 2 [e], r3) := by
  have c1 : chunkOfPlural ['m','e','n','u','I','t','e','m','s'] = none := by decide
  have c2 : (Tok.id ['m','e','n','u','I','t','e','m','s']).kw "menuitems" = true := by decide
  have m1 : (Tok.id ['m','e','n','u']).kw "menu" = true := by decide
  simp only [kw]
  simp only [pThe, kwNumber, if_true]
  simp [kwNumber, kwOf, c1, c2, m1, h]

theorem pThe_castMembers (f : Nat) (r : List Tok) :
    pThe env (f + 1) (kw "number" :: kw "of" :: kw "castMembers" :: r) = some (.the .count 2 [], r) := by
  have c1 : chunkOfPlural ['c','a','s','t','M','e','m','b','e','r','s'] = none := by decide
  have c2 : (Tok.id ['c','a','s','t','M','e','m','b','e','r','s']).kw "menuitems" = false := by decide
  have c3 : (Tok.id ['c','a','s','t','M','e','m','b','e','r','s']).kw "castmembers" = true := by decide
  simp only [kw]
  simp only [pThe, kwNumber, if_true]
  simp [kwNumber, kwOf, c1, c2, c3]

theorem pThe_menus (f : Nat) (r : List Tok) :
    pThe env (f + 1) (kw "number" :: kw "of" :: kw "menus" :: r) = some (.the .count 3 [], r) := by
  have c1 : chunkOfPlural ['m','e','n','u','s'] = none := by decide
  have c2 : (Tok.id ['m','e','n','u','s']).kw "menuitems" = false := by decide
  have c3 : (Tok.id ['m','e','n','u','s']).kw "castmembers" = false := by decide
  have c4 : (Tok.id ['m','e','n','u','s']).kw "menus" = true := by decide
  simp only [kw]
  simp only [pThe, kwNumber, if_true]
  simp [kwNumber, kwOf, c1, c2, c3, c4]

theorem pThe_last (f : Nat) (c : ChunkKind) (X r3 : List Tok) (e : Expr) (h : pE5 env f X = some (e, r3)) :
    pThe env (f + 1) (kw "last" :: kw c.tag :: kw "of" :: X) = some (.the .special (11 + c.rank) [e], r3) := by
  simp only [kw]
  simp only [pThe, kwLastNumber, kwLast, if_true, if_false, Bool.false_eq_true]
  simp [kwLastNumber, kwLast, kwOf, chunkTag_facts c, h]

/-- the date / time forms: the table words read back as the entry's index -/
def dateOk (k : Nat) : Bool :=
  match tblDate.find? fun x => x.1 == k with
  | some (_, st, un) => !(kw st).kw "number" && !(kw st).kw "last" && dateIdx st.toList un.toList == some k
  | none => false

theorem pThe_date (f : Nat) (st un : String) (k : Nat) (r : List Tok)
    (h1 : (kw st).kw "number" = false) (h2 : (kw st).kw "last" = false) (h3 : dateIdx st.toList un.toList = some k) :
    pThe env (f + 1) (kw st :: kw un :: r) = some (.the .special k [], r) := by
  simp only [kw] at h1 h2 ⊢
  simp only [pThe, h1, h2, if_false, Bool.false_eq_true]
  simp [h1, h2, h3]

theorem dateOk_all : ∀ x ∈ tblDate, dateOk x.1 = true := by decide +kernel

theorem plainId_me : PlainId ['m','e'] := by unfold PlainId; decide
theorem resolve_me (hm : env.isMethod = true) : env.resolve ['m','e'] = .me := by
  have h1 : namedConstantOf ['m','e'] = none := by decide +kernel
  have h2 : lowerName ['m','e'] = ['m','e'] := by decide
  simp [Env.resolve, h1, h2, hm]

theorem pE5_me (f : Nat) (rest : List Tok) (hm : env.isMethod = true) (hn : NoLp rest) :
    pE5 env (f + 2) (kw "me" :: rest) = some (.me, rest) := by
  have := pE5_id env f ['m','e'] rest plainId_me hn
  rw [resolve_me env hm] at this
  simpa [kw] using this

theorem pE5_mcall0 (f : Nat) (s m : Name) (r : List Tok) (hp : PlainId s) (hv : env.isVar s = true) :
    pE5 env (f + 2) (.id s :: .p .lp :: .id m :: .p .rp :: r) = some (.mcall (env.resolveVar s) m [], r) := by
  obtain ⟨h1, h2, h3, h4, h5⟩ := hp
  simp [pE5, pSimple, h1, h2, h3, h4, h5, hv]

theorem pE5_mcall (f : Nat) (s m : Name) (X r3 : List Tok) (as : List Expr) (hp : PlainId s) (hv : env.isVar s = true)
    (h : pArgs env f X = some (as, .p .rp :: r3)) :
    pE5 env (f + 2) (.id s :: .p .lp :: .id m :: .p .comma :: X) = some (.mcall (env.resolveVar s) m as, r3) := by
  obtain ⟨h1, h2, h3, h4, h5⟩ := hp
  simp [pE5, pSimple, h1, h2, h3, h4, h5, hv, h]

theorem pE5_plist0 (f : Nat) (r : List Tok) : pE5 env (f + 2) (.p .lb :: .p .colon :: .p .rb :: r) = some (.plist [], r) := by
  simp [pE5, pSimple, kw_p]

theorem pE5_plist (f : Nat) (t : Tok) (ts r1 r2 r3 : List Tok) (k v : Expr) (kvs : List Expr)
    (ht1 : t ≠ .p .rb) (ht2 : t ≠ .p .colon)
    (h1 : pLevel env f 1 (t :: ts) = some (k, .p .colon :: r1))
    (h2 : pLevel env f 1 r1 = some (v, r2))
    (h3 : pPairs env f r2 = some (kvs, .p .rb :: r3)) :
    pE5 env (f + 2) (.p .lb :: t :: ts) = some (.plist (k :: v :: kvs), r3) := by
  simp only [pE5, kw_p]
  simp only [pSimple]
  simp
  split
  · rename_i heq; injection heq with h _; exact absurd h ht1
  · rename_i heq; injection heq with h _; exact absurd h ht2
  · simp only [h1]
    simp [h2, h3]


def plainThe (n : Name) : Bool := !(Tok.id n).kw "number" && !(Tok.id n).kw "last" && notDateStyle n
def plainThe' (n : Name) : Bool := !(Tok.id n).kw "last" && notDateStyle n

theorem plainThe_spec (n : Name) (h : plainThe n = true) : PlainThe n := by
  simp [plainThe] at h; exact ⟨h.1.1, h.1.2, h.2⟩
theorem plainThe'_spec (n : Name) (h : plainThe' n = true) : PlainThe' n := by
  simp [plainThe'] at h; exact ⟨h.1, h.2⟩

/-- entry `k` of a property table: its name reads back as `k`, takes an object, and is not a word with a special form -/
def propOk (t : List (Nat × String)) (k : Nat) : Bool :=
  match tblLookupIdx t k with
  | some n => plainThe n && !isObjectless n && tblLookupName t n == some k
  | none => false
/-- the same for the cast / field table, where `number` is a property -/
def propOk' (t : List (Nat × String)) (k : Nat) : Bool :=
  match tblLookupIdx t k with
  | some n => plainThe' n && !isObjectless n && tblLookupName t n == some k
  | none => false
def videoOk (k : Nat) : Bool :=
  match tblLookupIdx tblVideo k with
  | some n => plainThe n && !isObjectless n && tblLookupName tblVideo n == some k && (tblLookupName tblCast n).isNone
  | none => false
def specialOk (k : Nat) : Bool :=
  match tblLookupIdx tblSpecial k with
  | some n => plainThe n && isObjectless n && tblLookupName tblSpecial n == some k
  | none => false
def sysOk (k : Nat) : Bool :=
  match tblLookupIdx tblSys k with
  | some n => plainThe n && isObjectless n && (tblLookupName tblSpecial n).isNone && tblLookupName tblSys n == some k
  | none => false

/-- which `the` forms (table, index, number of arguments) the round-trip theorem covers; all are decidable table facts -/
def TheOk : Tbl → Nat → Nat → Bool
  | .special, k, 0 => if k < 6 then specialOk k else dateOk k
  | .special, k, 1 => decide (11 ≤ k) && (ChunkKind.ofRank (k - 11)).isSome
  | .numChunks, k, 1 => (ChunkKind.ofRank k).isSome
  | .menu, k, 1 => k == 1 || k == 2
  | .menuItem, k, 2 => propOk tblMenuItem k
  | .sound, k, 1 => propOk tblSound k
  | .sprite, k, 1 => propOk tblSprite k
  | .cast, k, 1 => propOk' tblCast k
  | .video, k, 1 => videoOk k
  | .field, k, 1 => propOk' tblCast k
  | .sys, k, 0 => sysOk k
  | .count, k, 0 => k == 1 || k == 2 || k == 3
  | _, _, _ => false

theorem propOk_spec (t : List (Nat × String)) (k : Nat) (h : propOk t k = true) :
    PlainThe (nameOrUnknown t k) ∧ isObjectless (nameOrUnknown t k) = false ∧ tblLookupName t (nameOrUnknown t k) = some k := by
  unfold propOk at h
  cases hi : tblLookupIdx t k with
  | none => simp [hi] at h
  | some n =>
    simp [hi] at h
    simp only [nameOrUnknown, hi, Option.getD_some]
    exact ⟨plainThe_spec n h.1.1, h.1.2, h.2⟩

theorem propOk'_spec (t : List (Nat × String)) (k : Nat) (h : propOk' t k = true) :
    PlainThe' (nameOrUnknown t k) ∧ isObjectless (nameOrUnknown t k) = false ∧ tblLookupName t (nameOrUnknown t k) = some k := by
  unfold propOk' at h
  cases hi : tblLookupIdx t k with
  | none => simp [hi] at h
  | some n =>
    simp [hi] at h
    simp only [nameOrUnknown, hi, Option.getD_some]
    exact ⟨plainThe'_spec n h.1.1, h.1.2, h.2⟩

theorem videoOk_spec (k : Nat) (h : videoOk k = true) :
    PlainThe (nameOrUnknown tblVideo k) ∧ isObjectless (nameOrUnknown tblVideo k) = false
      ∧ tblLookupName tblVideo (nameOrUnknown tblVideo k) = some k ∧ tblLookupName tblCast (nameOrUnknown tblVideo k) = none := by
  unfold videoOk at h
  cases hi : tblLookupIdx tblVideo k with
  | none => simp [hi] at h
  | some n =>
    simp [hi] at h
    simp only [nameOrUnknown, hi, Option.getD_some]
    exact ⟨plainThe_spec n h.1.1.1, h.1.1.2, h.1.2, h.2⟩

theorem specialOk_spec (k : Nat) (h : specialOk k = true) :
    PlainThe (nameOrUnknown tblSpecial k) ∧ isObjectless (nameOrUnknown tblSpecial k) = true
      ∧ theSimple (nameOrUnknown tblSpecial k) = .the .special k [] := by
  unfold specialOk at h
  cases hi : tblLookupIdx tblSpecial k with
  | none => simp [hi] at h
  | some n =>
    simp [hi] at h
    simp only [nameOrUnknown, hi, Option.getD_some]
    exact ⟨plainThe_spec n h.1.1, h.1.2, by simp [theSimple, h.2]⟩

theorem sysOk_spec (k : Nat) (h : sysOk k = true) :
    PlainThe (nameOrUnknown tblSys k) ∧ isObjectless (nameOrUnknown tblSys k) = true
      ∧ theSimple (nameOrUnknown tblSys k) = .the .sys k [] := by
  unfold sysOk at h
  cases hi : tblLookupIdx tblSys k with
  | none => simp [hi] at h
  | some n =>
    simp [hi] at h
    simp only [nameOrUnknown, hi, Option.getD_some]
    exact ⟨plainThe_spec n h.1.1.1, h.1.1.2, by simp [theSimple, h.1.2, h.2]⟩

theorem perFrameHook_facts : PlainThe "perFrameHook".toList ∧ isObjectless "perFrameHook".toList = true
    ∧ theSimple "perFrameHook".toList = .the .count 1 [] := by
  refine ⟨⟨by decide, by decide, by decide⟩, by decide +kernel, ?_⟩
  have h1 : tblLookupName tblSpecial "perFrameHook".toList = none := by decide +kernel
  have h2 : tblLookupName tblSys "perFrameHook".toList = none := by decide +kernel
  have h3 : lowerName "perFrameHook".toList = "perframehook".toList := by decide
  simp only [theSimple, h1, h2, h3, if_true]

/-- `the` forms without argument -/
theorem rp_the0 (t : Tbl) (k : Nat) (hok : TheOk t k 0 = true) (rest : List Tok) (f : Nat) :
    pE5 env (f + 3) (prThe t k [] ++ rest) = some (.the t k [], rest) := by
  cases t <;> simp only [TheOk, Bool.false_eq_true] at hok
  · -- special
    by_cases hk : k < 6
    · simp only [hk, if_true] at hok
      obtain ⟨h1, h2, h3⟩ := specialOk_spec k hok
      have := pE5_the env (f + 1) _ _ rest (pThe_simple env f _ rest h1 h2)
      rw [h3] at this
      simpa [prThe, hk] using this
    · simp only [hk, if_false] at hok
      unfold dateOk at hok
      cases hf : tblDate.find? (fun x => x.1 == k) with
      | none => simp [hf] at hok
      | some x =>
        obtain ⟨i, st, un⟩ := x
        simp [hf] at hok
        have := pE5_the env (f + 1) _ _ rest (pThe_date env f st un k rest hok.1.1 hok.1.2 hok.2)
        simpa [prThe, hk, hf] using this
  · -- sys
    obtain ⟨h1, h2, h3⟩ := sysOk_spec k hok
    have := pE5_the env (f + 1) _ _ rest (pThe_simple env f _ rest h1 h2)
    rw [h3] at this
    simpa [prThe] using this
  · -- count
    simp at hok
    rcases hok with (hk | hk) | hk <;> subst hk
    · obtain ⟨h1, h2, h3⟩ := perFrameHook_facts
      have := pE5_the env (f + 1) _ _ rest (pThe_simple env f _ rest h1 h2)
      rw [h3] at this
      simpa [prThe, kw] using this
    · have := pE5_the env (f + 1) _ _ rest (pThe_castMembers env f rest)
      simpa [prThe] using this
    · have := pE5_the env (f + 1) _ _ rest (pThe_menus env f rest)
      simpa [prThe] using this

/-- `the` forms with one argument -/
theorem rp_the1 (t : Tbl) (k : Nat) (a : Expr) (hok : TheOk t k 1 = true) (rest : List Tok) (f : Nat)
    (ih : pE5 env f (prE a ++ rest) = some (a, rest)) :
    pE5 env (f + 3) (prThe t k [a] ++ rest) = some (.the t k [a], rest) := by
  cases t <;> simp only [TheOk, Bool.false_eq_true] at hok
  · -- special: the last chunk
    simp at hok
    obtain ⟨hk, hr⟩ := hok
    cases hc : ChunkKind.ofRank (k - 11) with
    | none => simp [hc] at hr
    | some c =>
      have hrank := ofRank_rank _ _ hc
      have := pE5_the env (f + 1) _ _ rest (pThe_last env f c _ rest a ih)
      have e : 11 + c.rank = k := by omega
      rw [e] at this
      simpa [prThe, hc] using this
  · -- numChunks
    cases hc : ChunkKind.ofRank k with
    | none => simp [hc] at hok
    | some c =>
      have hrank := ofRank_rank _ _ hc
      have := pE5_the env (f + 1) _ _ rest (pThe_numChunks env f c _ rest a ih)
      rw [hrank] at this
      simpa [prThe, hc] using this
  · -- menu
    simp at hok
    rcases hok with hk | hk <;> subst hk
    · have := pE5_the env (f + 1) _ _ rest (pThe_menuName env f _ rest a ih)
      simpa [prThe] using this
    · have := pE5_the env (f + 1) _ _ rest (pThe_menuItems env f _ rest a ih)
      simpa [prThe] using this
  · -- sound
    obtain ⟨h1, h2, h3⟩ := propOk_spec _ k hok
    have := pE5_the env (f + 1) _ _ rest (pThe_sound env f _ k _ rest a h1 h2 h3 ih)
    simpa [prThe] using this
  · -- sprite
    obtain ⟨h1, h2, h3⟩ := propOk_spec _ k hok
    have := pE5_the env (f + 1) _ _ rest (pThe_sprite env f _ k _ rest a h1 h2 h3 ih)
    simpa [prThe] using this
  · -- cast
    obtain ⟨h1, h2, h3⟩ := propOk'_spec _ k hok
    have := pE5_the env (f + 1) _ _ rest (pThe_cast env f _ k _ rest a h1 h2 h3 ih)
    simpa [prThe] using this
  · -- field
    obtain ⟨h1, h2, h3⟩ := propOk'_spec _ k hok
    have := pE5_the env (f + 1) _ _ rest (pThe_field env f _ k _ rest a h1 h2 h3 ih)
    simpa [prThe] using this
  · -- video
    obtain ⟨h1, h2, h3, h4⟩ := videoOk_spec k hok
    have := pE5_the env (f + 1) _ _ rest (pThe_video env f _ k _ rest a h1 h2 h4 h3 ih)
    simpa [prThe] using this

/-- `the P of menuItem i of menu m` -/
theorem rp_the2 (t : Tbl) (k : Nat) (i m : Expr) (hok : TheOk t k 2 = true) (rest : List Tok) (f : Nat)
    (ih1 : pE5 env f (prE i ++ kw "of" :: kw "menu" :: (prE m ++ rest)) = some (i, kw "of" :: kw "menu" :: (prE m ++ rest)))
    (ih2 : pE5 env f (prE m ++ rest) = some (m, rest)) :
    pE5 env (f + 3) (prThe t k [i, m] ++ rest) = some (.the t k [i, m], rest) := by
  cases t <;> simp only [TheOk, Bool.false_eq_true] at hok
  obtain ⟨h1, h2, h3⟩ := propOk_spec _ k hok
  have := pE5_the env (f + 1) _ _ rest (pThe_menuItem env f _ k _ _ rest i m h1 h2 h3 ih1 ih2)
  simpa [prThe] using this

theorem theOk_arity (t : Tbl) (k n : Nat) (h : TheOk t k (n + 3) = true) : False := by
  cases t <;> simp [TheOk] at h


/-! ### the fragment -/

/-- receiver of a method call `obj(mName, args)`: a variable (or `me`) the environment knows -/
def RecvOk (env : Env) (o : Expr) : Prop :=
  ∃ s, prE o = [.id s] ∧ PlainId s ∧ env.isVar s = true ∧ env.resolveVar s = o

def headNotObj : List Tok → Bool
  | [] => false
  | t :: _ => !objKw t

mutual
/-- the fragment of the round-trip theorem: every expression form of the syntax tree, with the side conditions under which the
    concrete syntax is unambiguous (identifiers that are not grammar words, variables classified by `env` as the tree says,
    table indices that exist, property lists with an even number of entries, method-call receivers that are variables) -/
def Frag (env : Env) : Expr → Prop
  | .int _ => True
  | .str _ => True
  | .float _ _ => True
  | .sym _ => True
  | .var k n => PlainId n ∧ resolvesTo env n k = true
  | .me => env.isMethod = true
  | .un _ a => Frag env a
  | .bin _ a b => Frag env a ∧ Frag env b
  | .field a => Frag env a
  | .call f as => PlainId f ∧ env.isVar f = false ∧ FragL env as
  | .mcall o _ as => RecvOk env o ∧ FragL env as
  | .list as => FragL env as
  | .plist as => as.length % 2 = 0 ∧ FragL env as
  | .the t k as => TheOk t k as.length = true ∧ FragL env as
  | .key n => PlainThe n ∧ isObjectless n = true ∧ theSimple n = .key n
  | .movie n => PlainThe n ∧ isObjectless n = true ∧ theSimple n = .movie n
  | .oprop n o => PlainThe n ∧ isObjectless n = false ∧ headNotObj (prE o) = true ∧ Frag env o
  | .chunk _ a b d => Frag env a ∧ Frag env b ∧ Frag env d
def FragL (env : Env) : List Expr → Prop
  | [] => True
  | e :: es => Frag env e ∧ FragL env es
end

mutual
/-- fuel that is certainly enough to read the printed expression back -/
def fuelOf : Expr → Nat
  | .bin _ a b => fuelOf a + fuelOf b + 30
  | .un _ a => fuelOf a + 2
  | .field a => fuelOf a + 4
  | .call _ as => fuelOfL as + 30
  | .mcall _ _ as => fuelOfL as + 30
  | .list as => fuelOfL as + 30
  | .plist as => fuelOfL as + 30
  | .the _ _ as => fuelOfL as + 30
  | .oprop _ o => fuelOf o + 4
  | .chunk _ a b d => fuelOf a + fuelOf b + fuelOf d + 30
  | _ => 4
def fuelOfL : List Expr → Nat
  | [] => 0
  | e :: es => fuelOf e + fuelOfL es + 30
end

theorem prArgs_cons (e : Expr) (es : List Expr) : prArgs (e :: es) = prE e ++ prTail es := by
  induction es generalizing e with
  | nil => simp [prArgs, prTail]
  | cons e' es ih => simp [prArgs, prTail, ih e']

/-- `, k1: v1, k2: v2` -/
def prPairTail : List Expr → List Tok
  | k :: v :: r => .p .comma :: prE k ++ .p .colon :: prE v ++ prPairTail r
  | _ => []

theorem prPairs_cons : ∀ (r : List Expr) (k v : Expr), r.length % 2 = 0 →
    prPairs (k :: v :: r) = prE k ++ .p .colon :: prE v ++ prPairTail r
  | [], k, v, _ => by simp [prPairs, prPairTail]
  | [x], _, _, h => by simp at h
  | k' :: v' :: r', k, v, h => by
    have h' : r'.length % 2 = 0 := by simp at h; omega
    simp [prPairs, prPairTail, prPairs_cons r' k' v' h']

theorem prThe_head (t : Tbl) (k : Nat) (as : List Expr) : ∃ X, prThe t k as = kw "the" :: X := by
  unfold prThe
  split <;> (try split) <;> (try split) <;> exact ⟨_, rfl⟩

/-- the first token of a printed expression is not a closing parenthesis -/
def HeadNotRp : List Tok → Prop
  | [] => False
  | t :: _ => t ≠ .p .rp ∧ t ≠ .p .rb ∧ t ≠ .p .colon

theorem prE_head (e : Expr) (h : Frag env e) : HeadNotRp (prE e) := by
  cases e with
  | int n => simp [prE, HeadNotRp]
  | str s =>
    by_cases h0 : s = []
    · simp [prE, strToks, h0, HeadNotRp]
    · cases hc : nameOfConstant s <;> simp [prE, strToks, h0, hc, HeadNotRp]
  | float d s => simp [prE, HeadNotRp]
  | sym n => simp [prE, HeadNotRp]
  | var k n => simp [prE, HeadNotRp]
  | un op a => cases op <;> simp [prE, HeadNotRp, kw]
  | bin op a b =>
    cases hop : op.isInfix <;> simp [prE, hop, HeadNotRp, kw]
  | field a => simp [prE, HeadNotRp, kw]
  | call f as => simp [prE, HeadNotRp]
  | list as => simp [prE, HeadNotRp]
  | me => simp [prE, HeadNotRp, kw]
  | mcall o m as =>
    obtain ⟨⟨s, hs, _⟩, _⟩ : RecvOk env o ∧ FragL env as := h
    simp [prE, hs, HeadNotRp]
  | plist as => cases as <;> simp [prE, HeadNotRp]
  | the t k as =>
    obtain ⟨X, hX⟩ := prThe_head t k as
    simp [prE, hX, HeadNotRp, kw]
  | key n => simp [prE, HeadNotRp, kw]
  | movie n => simp [prE, HeadNotRp, kw]
  | oprop n o => simp [prE, HeadNotRp, kw]
  | chunk c a b d =>
    cases b with
    | int n => cases n <;> simp [prE, HeadNotRp, kw]
    | _ => simp [prE, HeadNotRp, kw]

mutual
/-- the level-5 reader inverts the printer on the fragment -/
theorem rp_e5 : ∀ (e : Expr), Frag env e → ∀ (rest : List Tok), NoLp rest → ∀ F, fuelOf e ≤ F →
    pE5 env F (prE e ++ rest) = some (e, rest)
  | .int n, _, rest, _, F, hF => by
    obtain ⟨f, rfl⟩ : ∃ f, F = f + 2 := ⟨F - 2, by simp [fuelOf] at hF; omega⟩
    simp [prE, pE5, pSimple, kw_num]
  | .str s, _, rest, hn, F, hF => by
    obtain ⟨f, rfl⟩ : ∃ f, F = f + 2 := ⟨F - 2, by simp [fuelOf] at hF; omega⟩
    by_cases h0 : s = []
    · subst h0; simp [prE, strToks, pE5, pSimple, kw_str]
    · cases hc : nameOfConstant s with
      | none => simp [prE, strToks, h0, hc, pE5, pSimple, kw_str]
      | some c =>
        obtain ⟨h1, h2⟩ := nameOfConstant_spec s c hc
        have := pE5_id env f c rest h2 hn
        rw [resolve_constant env c s h1] at this
        simpa [prE, strToks, h0, hc] using this
  | .float d s, _, rest, _, F, hF => by
    obtain ⟨f, rfl⟩ : ∃ f, F = f + 2 := ⟨F - 2, by simp [fuelOf] at hF; omega⟩
    simp [prE, pE5, pSimple, kw_flt]
  | .sym n, _, rest, _, F, hF => by
    obtain ⟨f, rfl⟩ : ∃ f, F = f + 2 := ⟨F - 2, by simp [fuelOf] at hF; omega⟩
    simp [prE, pE5, pSimple, kw_p]
  | .var k n, h, rest, hn, F, hF => by
    obtain ⟨f, rfl⟩ : ∃ f, F = f + 2 := ⟨F - 2, by simp [fuelOf] at hF; omega⟩
    obtain ⟨hp, hr⟩ : PlainId n ∧ resolvesTo env n k = true := h
    simpa [prE] using pE5_var env f k n rest hp (resolve_of_resolvesTo env n k hr) hn
  | .un .neg a, h, rest, hn, F, hF => by
    have ha : Frag env a := h
    obtain ⟨f, rfl⟩ : ∃ f, F = f + 1 := ⟨F - 1, by simp [fuelOf] at hF; omega⟩
    simpa [prE] using pE5_neg env f _ a rest (rp_e5 a ha rest hn f (by simp [fuelOf] at hF; omega))
  | .un .not a, h, rest, hn, F, hF => by
    have ha : Frag env a := h
    obtain ⟨f, rfl⟩ : ∃ f, F = f + 1 := ⟨F - 1, by simp [fuelOf] at hF; omega⟩
    simpa [prE] using pE5_not env f _ a rest (rp_e5 a ha rest hn f (by simp [fuelOf] at hF; omega))
  | .field a, h, rest, hn, F, hF => by
    have ha : Frag env a := h
    obtain ⟨f, rfl⟩ : ∃ f, F = f + 2 := ⟨F - 2, by simp [fuelOf] at hF; omega⟩
    simpa [prE] using pE5_field env f _ a rest (rp_e5 a ha rest hn f (by simp [fuelOf] at hF; omega))
  | .bin op a b, h, rest, hn, F, hF => by
    obtain ⟨ha, hb⟩ : Frag env a ∧ Frag env b := h
    cases hop : op.isInfix with
    | false =>
      -- `sprite a intersects b` / `sprite a within b`
      obtain ⟨f, rfl⟩ : ∃ f, F = f + 1 := ⟨F - 1, by simp [fuelOf] at hF; omega⟩
      have hfa : fuelOf a ≤ f := by simp [fuelOf] at hF; omega
      have hfb : fuelOf b ≤ f := by simp [fuelOf] at hF; omega
      cases op <;> simp [BinOp.isInfix] at hop
      · have h1 := rp_e5 a ha (kw "intersects" :: (prE b ++ rest)) (by simp [kw, NoLp]) f hfa
        have h2 := rp_e5 b hb rest hn f hfb
        simpa [prE, BinOp.isInfix, BinOp.tok] using pE5_sprite_i env f _ _ rest a b h1 h2
      · have h1 := rp_e5 a ha (kw "within" :: (prE b ++ rest)) (by simp [kw, NoLp]) f hfa
        have h2 := rp_e5 b hb rest hn f hfb
        simpa [prE, BinOp.isInfix, BinOp.tok] using pE5_sprite_w env f _ _ rest a b h1 h2
    | true =>
      obtain ⟨f, rfl⟩ : ∃ f, F = f + 2 := ⟨F - 2, by simp [fuelOf] at hF; omega⟩
      have hlv := level_range op hop
      have hA : ∀ F', fuelOf a + 6 ≤ F' →
          pLevel env F' (op.level + 1) (prE a ++ op.tok :: (prE b ++ .p .rp :: rest)) = some (a, op.tok :: (prE b ++ .p .rp :: rest)) :=
        level_of_e5 env a _ (fuelOf a) (fun F' hF' => rp_e5 a ha _ (nolp_optok op _) F' hF') (op.level + 1) (by omega) (by omega)
          (follow_tok_of_infix op hop _)
      have hB : ∀ F', fuelOf b + 6 ≤ F' → pLevel env F' (op.level + 1) (prE b ++ .p .rp :: rest) = some (b, .p .rp :: rest) :=
        level_of_e5 env b _ (fuelOf b) (fun F' hF' => rp_e5 b hb _ (nolp_closer _ _ (Or.inl rfl)) F' hF') (op.level + 1) (by omega) (by omega)
          (follow_closer _ _ _ (Or.inl rfl))
      have hin := read_infix env op hop a b (prE a) (prE b) (.p .rp :: rest) (fuelOf a + fuelOf b + 6)
        (fun F' hF' => hA F' (by omega)) (fun F' hF' => hB F' (by omega)) (follow_closer _ _ _ (Or.inl rfl))
        (op.level - 1) 1 (by omega) (Nat.le_refl 1) f (by simp [fuelOf] at hF; omega)
      have := pE5_lp env f _ (.bin op a b) rest hin
      simpa [prE, hop] using this
  | .call fn as, h, rest, hn, F, hF => by
    obtain ⟨hp, hv, has⟩ : PlainId fn ∧ env.isVar fn = false ∧ FragL env as := h
    obtain ⟨f, rfl⟩ : ∃ f, F = f + 2 := ⟨F - 2, by simp [fuelOf] at hF; omega⟩
    cases as with
    | nil => simpa [prE, prArgs] using pE5_call0 env f fn rest hp hv
    | cons e es =>
      obtain ⟨he, hes⟩ : Frag env e ∧ FragL env es := has
      obtain ⟨f', rfl⟩ : ∃ f', f = f' + 1 := ⟨f - 1, by simp [fuelOf, fuelOfL] at hF; omega⟩
      have hhead := prE_head env e he
      have hE : pLevel env f' 1 (prE e ++ (prTail es ++ .p .rp :: rest)) = some (e, prTail es ++ .p .rp :: rest) := by
        cases es with
        | nil =>
          exact level_of_e5 env e _ (fuelOf e) (fun F' hF' => rp_e5 e he _ (nolp_closer _ _ (Or.inl rfl)) F' hF') 1 (by omega) (by omega)
            (follow_closer _ _ _ (Or.inl rfl)) f' (by simp [fuelOf, fuelOfL] at hF; omega)
        | cons e2 es2 =>
          exact level_of_e5 env e _ (fuelOf e) (fun F' hF' => rp_e5 e he _ (nolp_closer _ _ (Or.inr (Or.inl rfl))) F' hF') 1 (by omega) (by omega)
            (follow_closer _ _ _ (Or.inr (Or.inl rfl))) f' (by simp [fuelOf, fuelOfL] at hF; omega)
      have hM := rp_more es hes (.p .rp) (Or.inl rfl) rest f' (by simp [fuelOf, fuelOfL] at hF; omega)
      have hArgs : pArgs env (f' + 1) (prE e ++ (prTail es ++ .p .rp :: rest)) = some (e :: es, .p .rp :: rest) := by
        simp only [pArgs, hE, hM]
      cases hpe : prE e with
      | nil => rw [hpe] at hhead; exact absurd hhead (by simp [HeadNotRp])
      | cons t ts =>
        rw [hpe] at hhead hArgs
        have := pE5_call env (f' + 1) fn t (ts ++ (prTail es ++ .p .rp :: rest)) (e :: es) rest hp hv hhead.1 (by simpa using hArgs)
        simpa [prE, prArgs_cons, hpe] using this
  | .list as, h, rest, hn, F, hF => by
    have has : FragL env as := h
    obtain ⟨f, rfl⟩ : ∃ f, F = f + 2 := ⟨F - 2, by simp [fuelOf] at hF; omega⟩
    cases as with
    | nil => simpa [prE, prArgs] using pE5_list0 env f rest
    | cons e es =>
      obtain ⟨he, hes⟩ : Frag env e ∧ FragL env es := has
      have hhead := prE_head env e he
      have hE : pLevel env f 1 (prE e ++ (prTail es ++ .p .rb :: rest)) = some (e, prTail es ++ .p .rb :: rest) := by
        cases es with
        | nil =>
          exact level_of_e5 env e _ (fuelOf e) (fun F' hF' => rp_e5 e he _ (nolp_closer _ _ (Or.inr (Or.inr (Or.inl rfl)))) F' hF') 1 (by omega) (by omega)
            (follow_closer _ _ _ (Or.inr (Or.inr (Or.inl rfl)))) f (by simp [fuelOf, fuelOfL] at hF; omega)
        | cons e2 es2 =>
          exact level_of_e5 env e _ (fuelOf e) (fun F' hF' => rp_e5 e he _ (nolp_closer _ _ (Or.inr (Or.inl rfl))) F' hF') 1 (by omega) (by omega)
            (follow_closer _ _ _ (Or.inr (Or.inl rfl))) f (by simp [fuelOf, fuelOfL] at hF; omega)
      have hM := rp_more es hes (.p .rb) (Or.inr rfl) rest f (by simp [fuelOf, fuelOfL] at hF; omega)
      have hnc : ∀ x, prTail es ++ .p .rb :: rest ≠ .p .colon :: x := by
        intro x
        cases es <;> simp [prTail]
      cases hpe : prE e with
      | nil => rw [hpe] at hhead; exact absurd hhead (by simp [HeadNotRp])
      | cons t ts =>
        rw [hpe] at hhead hE
        have := pE5_list env f t (ts ++ (prTail es ++ .p .rb :: rest)) _ rest e es hhead.2.1 hhead.2.2 (by simpa using hE) hnc hM
        simpa [prE, prArgs_cons, hpe] using this
  | .me, h, rest, hn, F, hF => by
    obtain ⟨f, rfl⟩ : ∃ f, F = f + 2 := ⟨F - 2, by simp [fuelOf] at hF; omega⟩
    have hm : env.isMethod = true := h
    simpa [prE] using pE5_me env f rest hm hn
  | .key n, h, rest, _, F, hF => by
    obtain ⟨h1, h2, h3⟩ : PlainThe n ∧ isObjectless n = true ∧ theSimple n = .key n := h
    obtain ⟨f, rfl⟩ : ∃ f, F = f + 3 := ⟨F - 3, by simp [fuelOf] at hF; omega⟩
    have := pE5_the env (f + 1) _ _ rest (pThe_simple env f n rest h1 h2)
    rw [h3] at this
    simpa [prE] using this
  | .movie n, h, rest, _, F, hF => by
    obtain ⟨h1, h2, h3⟩ : PlainThe n ∧ isObjectless n = true ∧ theSimple n = .movie n := h
    obtain ⟨f, rfl⟩ : ∃ f, F = f + 3 := ⟨F - 3, by simp [fuelOf] at hF; omega⟩
    have := pE5_the env (f + 1) _ _ rest (pThe_simple env f n rest h1 h2)
    rw [h3] at this
    simpa [prE] using this
  | .oprop n o, h, rest, hn, F, hF => by
    obtain ⟨h1, h2, h3, ho⟩ : PlainThe n ∧ isObjectless n = false ∧ headNotObj (prE o) = true ∧ Frag env o := h
    obtain ⟨f, rfl⟩ : ∃ f, F = f + 3 := ⟨F - 3, by simp [fuelOf] at hF; omega⟩
    have ih := rp_e5 o ho rest hn f (by simp [fuelOf] at hF; omega)
    cases hpe : prE o with
    | nil => simp [hpe, headNotObj] at h3
    | cons t X =>
      rw [hpe] at ih h3
      have := pE5_the env (f + 1) _ _ rest
        (pThe_oprop env f n t (X ++ rest) rest o h1 h2 (by simpa [headNotObj] using h3) (by simpa using ih))
      simpa [prE, hpe] using this
  | .the t k [], h, rest, _, F, hF => by
    obtain ⟨hok, _⟩ : TheOk t k 0 = true ∧ True := h
    obtain ⟨f, rfl⟩ : ∃ f, F = f + 3 := ⟨F - 3, by simp [fuelOf] at hF; omega⟩
    simpa [prE] using rp_the0 env t k hok rest f
  | .the t k [a], h, rest, hn, F, hF => by
    obtain ⟨hok, ha, _⟩ : TheOk t k 1 = true ∧ Frag env a ∧ True := h
    obtain ⟨f, rfl⟩ : ∃ f, F = f + 3 := ⟨F - 3, by simp [fuelOf] at hF; omega⟩
    simpa [prE] using rp_the1 env t k a hok rest f (rp_e5 a ha rest hn f (by simp [fuelOf, fuelOfL] at hF; omega))
  | .the t k [i, m], h, rest, hn, F, hF => by
    obtain ⟨hok, hi, hm, _⟩ : TheOk t k 2 = true ∧ Frag env i ∧ Frag env m ∧ True := h
    obtain ⟨f, rfl⟩ : ∃ f, F = f + 3 := ⟨F - 3, by simp [fuelOf] at hF; omega⟩
    simpa [prE] using rp_the2 env t k i m hok rest f
      (rp_e5 i hi _ (by simp [kw, NoLp]) f (by simp [fuelOf, fuelOfL] at hF; omega))
      (rp_e5 m hm rest hn f (by simp [fuelOf, fuelOfL] at hF; omega))
  | .the t k (_ :: _ :: _ :: ds), h, _, _, _, _ => by
    obtain ⟨hok, _⟩ : TheOk t k (ds.length + 3) = true ∧ _ := h
    exact absurd hok (fun hh => theOk_arity t k ds.length hh)
  | .mcall o m as, h, rest, _, F, hF => by
    obtain ⟨⟨s, hs, hp, hv, hr⟩, has⟩ : RecvOk env o ∧ FragL env as := h
    obtain ⟨f, rfl⟩ : ∃ f, F = f + 2 := ⟨F - 2, by simp [fuelOf] at hF; omega⟩
    cases as with
    | nil =>
      have := pE5_mcall0 env f s m rest hp hv
      rw [hr] at this
      simpa [prE, hs, prTail] using this
    | cons e es =>
      obtain ⟨he, hes⟩ : Frag env e ∧ FragL env es := has
      obtain ⟨f', rfl⟩ : ∃ f', f = f' + 1 := ⟨f - 1, by simp [fuelOf, fuelOfL] at hF; omega⟩
      have hE : pLevel env f' 1 (prE e ++ (prTail es ++ .p .rp :: rest)) = some (e, prTail es ++ .p .rp :: rest) := by
        cases es with
        | nil =>
          exact level_of_e5 env e _ (fuelOf e) (fun F' hF' => rp_e5 e he _ (nolp_closer _ _ (Or.inl rfl)) F' hF') 1 (by omega) (by omega)
            (follow_closer _ _ _ (Or.inl rfl)) f' (by simp [fuelOf, fuelOfL] at hF; omega)
        | cons e2 es2 =>
          exact level_of_e5 env e _ (fuelOf e) (fun F' hF' => rp_e5 e he _ (nolp_closer _ _ (Or.inr (Or.inl rfl))) F' hF') 1 (by omega) (by omega)
            (follow_closer _ _ _ (Or.inr (Or.inl rfl))) f' (by simp [fuelOf, fuelOfL] at hF; omega)
      have hM := rp_more es hes (.p .rp) (Or.inl rfl) rest f' (by simp [fuelOf, fuelOfL] at hF; omega)
      have hArgs : pArgs env (f' + 1) (prE e ++ (prTail es ++ .p .rp :: rest)) = some (e :: es, .p .rp :: rest) := by
        simp only [pArgs, hE, hM]
      have := pE5_mcall env (f' + 1) s m _ rest (e :: es) hp hv hArgs
      rw [hr] at this
      simpa [prE, hs, prTail] using this
  | .plist [], _, rest, _, F, hF => by
    obtain ⟨f, rfl⟩ : ∃ f, F = f + 2 := ⟨F - 2, by simp [fuelOf] at hF; omega⟩
    simpa [prE] using pE5_plist0 env f rest
  | .plist [_], h, _, _, _, _ => by
    obtain ⟨hev, _⟩ : (1 : Nat) % 2 = 0 ∧ _ := h
    simp at hev
  | .plist (k :: v :: r), h, rest, _, F, hF => by
    obtain ⟨hev, hk, hv, hr⟩ : (r.length + 2) % 2 = 0 ∧ Frag env k ∧ Frag env v ∧ FragL env r := h
    have hev' : r.length % 2 = 0 := by omega
    obtain ⟨f, rfl⟩ : ∃ f, F = f + 2 := ⟨F - 2, by simp [fuelOf] at hF; omega⟩
    have hhead := prE_head env k hk
    have hK : pLevel env f 1 (prE k ++ .p .colon :: (prE v ++ (prPairTail r ++ .p .rb :: rest)))
        = some (k, .p .colon :: (prE v ++ (prPairTail r ++ .p .rb :: rest))) :=
      level_of_e5 env k _ (fuelOf k) (fun F' hF' => rp_e5 k hk _ (nolp_closer _ _ (Or.inr (Or.inr (Or.inr (Or.inr rfl))))) F' hF') 1 (by omega) (by omega)
        (follow_closer _ _ _ (Or.inr (Or.inr (Or.inr (Or.inr rfl))))) f (by simp [fuelOf, fuelOfL] at hF; omega)
    have hV : pLevel env f 1 (prE v ++ (prPairTail r ++ .p .rb :: rest)) = some (v, prPairTail r ++ .p .rb :: rest) := by
      match r, hr with
      | [], _ =>
        exact level_of_e5 env v _ (fuelOf v) (fun F' hF' => rp_e5 v hv _ (nolp_closer _ _ (Or.inr (Or.inr (Or.inl rfl)))) F' hF') 1 (by omega) (by omega)
          (follow_closer _ _ _ (Or.inr (Or.inr (Or.inl rfl)))) f (by simp [fuelOf, fuelOfL] at hF; omega)
      | [x], _ =>
        exact level_of_e5 env v _ (fuelOf v) (fun F' hF' => rp_e5 v hv _ (nolp_closer _ _ (Or.inr (Or.inr (Or.inl rfl)))) F' hF') 1 (by omega) (by omega)
          (follow_closer _ _ _ (Or.inr (Or.inr (Or.inl rfl)))) f (by simp [fuelOf, fuelOfL] at hF; omega)
      | k2 :: v2 :: r2, _ =>
        exact level_of_e5 env v _ (fuelOf v) (fun F' hF' => rp_e5 v hv _ (nolp_closer _ _ (Or.inr (Or.inl rfl))) F' hF') 1 (by omega) (by omega)
          (follow_closer _ _ _ (Or.inr (Or.inl rfl))) f (by simp [fuelOf, fuelOfL] at hF; omega)
    have hP := rp_pairs r hr hev' rest f (by simp [fuelOf, fuelOfL] at hF; omega)
    cases hpe : prE k with
    | nil => rw [hpe] at hhead; exact absurd hhead (by simp [HeadNotRp])
    | cons t ts =>
      rw [hpe] at hhead hK
      have := pE5_plist env f t (ts ++ .p .colon :: (prE v ++ (prPairTail r ++ .p .rb :: rest))) _ _ rest k v r hhead.2.1 hhead.2.2
        (by simpa using hK) hV hP
      simpa [prE, prPairs_cons r k v hev', hpe] using this
  | .chunk c a b d, h, rest, hn, F, hF => by
    obtain ⟨ha, hb, hd⟩ : Frag env a ∧ Frag env b ∧ Frag env d := h
    obtain ⟨f, rfl⟩ : ∃ f, F = f + 3 := ⟨F - 3, by simp [fuelOf] at hF; omega⟩
    have hD : pE5 env f (prE d ++ rest) = some (d, rest) := rp_e5 d hd rest hn f (by simp [fuelOf] at hF; omega)
    have hcase : b = .int 0 ∨ prE (.chunk c a b d) = Tok.id c.tag.toList :: prE a ++ Tok.id "to".toList :: prE b ++ Tok.id "of".toList :: prE d := by
      cases b with
      | int n => cases n with
        | zero => exact Or.inl rfl
        | succ m => exact Or.inr (by simp [prE, kw])
      | _ => exact Or.inr (by simp [prE, kw])
    rcases hcase with hb0 | hpr
    · subst hb0
      have hA : pLevel env f 1 (prE a ++ Tok.id "of".toList :: (prE d ++ rest)) = some (a, Tok.id "of".toList :: (prE d ++ rest)) :=
        level_of_e5 env a (Tok.id "of".toList :: (prE d ++ rest)) (fuelOf a) (fun F' hF' => rp_e5 a ha _ (by simp [NoLp]) F' hF') 1 (by omega) (by omega)
          (follow_of 1 _) f (by simp [fuelOf] at hF; omega)
      have := pE5_chunk1 env f c _ _ rest a d hA hD
      simpa [prE, kw] using this
    · have hA : pLevel env f 1 (prE a ++ Tok.id "to".toList :: (prE b ++ Tok.id "of".toList :: (prE d ++ rest)))
          = some (a, Tok.id "to".toList :: (prE b ++ Tok.id "of".toList :: (prE d ++ rest))) :=
        level_of_e5 env a (Tok.id "to".toList :: (prE b ++ Tok.id "of".toList :: (prE d ++ rest))) (fuelOf a) (fun F' hF' => rp_e5 a ha _ (by simp [NoLp]) F' hF') 1 (by omega) (by omega)
          (follow_to 1 _) f (by simp [fuelOf] at hF; omega)
      have hB : pLevel env f 1 (prE b ++ Tok.id "of".toList :: (prE d ++ rest)) = some (b, Tok.id "of".toList :: (prE d ++ rest)) :=
        level_of_e5 env b (Tok.id "of".toList :: (prE d ++ rest)) (fuelOf b) (fun F' hF' => rp_e5 b hb _ (by simp [NoLp]) F' hF') 1 (by omega) (by omega)
          (follow_of 1 _) f (by simp [fuelOf] at hF; omega)
      have := pE5_chunk2 env f c _ _ _ rest a b d hA hB hD
      rw [hpr]
      simpa using this
/-- `, a, b` up to the closing parenthesis / bracket -/
theorem rp_more : ∀ (es : List Expr), FragL env es → ∀ (c : Tok), (c = .p .rp ∨ c = .p .rb) → ∀ (rest : List Tok) (F : Nat), fuelOfL es + 1 ≤ F →
    pMore env F (prTail es ++ c :: rest) = some (es, c :: rest)
  | [], _, c, hc, rest, F, hF => by
    obtain ⟨f, rfl⟩ : ∃ f, F = f + 1 := ⟨F - 1, by omega⟩
    rcases hc with hc | hc <;> subst hc <;> simp [prTail, pMore]
  | e :: es, h, c, hc, rest, F, hF => by
    obtain ⟨he, hes⟩ : Frag env e ∧ FragL env es := h
    obtain ⟨f, rfl⟩ : ∃ f, F = f + 1 := ⟨F - 1, by omega⟩
    have hcl : Closer c := by rcases hc with hc | hc <;> subst hc <;> simp [Closer]
    have hE : pLevel env f 1 (prE e ++ (prTail es ++ c :: rest)) = some (e, prTail es ++ c :: rest) := by
      cases es with
      | nil =>
        exact level_of_e5 env e _ (fuelOf e) (fun F' hF' => rp_e5 e he _ (nolp_closer _ _ hcl) F' hF') 1 (by omega) (by omega)
          (follow_closer _ _ _ hcl) f (by simp [fuelOfL] at hF; omega)
      | cons e2 es2 =>
        exact level_of_e5 env e _ (fuelOf e) (fun F' hF' => rp_e5 e he _ (nolp_closer _ _ (Or.inr (Or.inl rfl))) F' hF') 1 (by omega) (by omega)
          (follow_closer _ _ _ (Or.inr (Or.inl rfl))) f (by simp [fuelOfL] at hF; omega)
    have hM := rp_more es hes c hc rest f (by simp [fuelOfL] at hF; omega)
    simp only [prTail, List.cons_append, List.append_assoc, pMore, hE, hM]
/-- `, k: v, k: v` up to the closing bracket -/
theorem rp_pairs : ∀ (es : List Expr), FragL env es → es.length % 2 = 0 → ∀ (rest : List Tok) (F : Nat), fuelOfL es + 1 ≤ F →
    pPairs env F (prPairTail es ++ .p .rb :: rest) = some (es, .p .rb :: rest)
  | [], _, _, rest, F, hF => by
    obtain ⟨f, rfl⟩ : ∃ f, F = f + 1 := ⟨F - 1, by omega⟩
    simp [prPairTail, pPairs]
  | [_], _, hev, _, _, _ => by simp at hev
  | k :: v :: r, h, hev, rest, F, hF => by
    obtain ⟨hk, hv, hr⟩ : Frag env k ∧ Frag env v ∧ FragL env r := h
    have hev' : r.length % 2 = 0 := by simp at hev; omega
    obtain ⟨f, rfl⟩ : ∃ f, F = f + 1 := ⟨F - 1, by omega⟩
    have hK : pLevel env f 1 (prE k ++ .p .colon :: (prE v ++ (prPairTail r ++ .p .rb :: rest)))
        = some (k, .p .colon :: (prE v ++ (prPairTail r ++ .p .rb :: rest))) :=
      level_of_e5 env k _ (fuelOf k) (fun F' hF' => rp_e5 k hk _ (nolp_closer _ _ (Or.inr (Or.inr (Or.inr (Or.inr rfl))))) F' hF') 1 (by omega) (by omega)
        (follow_closer _ _ _ (Or.inr (Or.inr (Or.inr (Or.inr rfl))))) f (by simp [fuelOfL] at hF; omega)
    have hV : pLevel env f 1 (prE v ++ (prPairTail r ++ .p .rb :: rest)) = some (v, prPairTail r ++ .p .rb :: rest) := by
      match r, hr with
      | [], _ =>
        exact level_of_e5 env v _ (fuelOf v) (fun F' hF' => rp_e5 v hv _ (nolp_closer _ _ (Or.inr (Or.inr (Or.inl rfl)))) F' hF') 1 (by omega) (by omega)
          (follow_closer _ _ _ (Or.inr (Or.inr (Or.inl rfl)))) f (by simp [fuelOfL] at hF; omega)
      | [x], _ =>
        exact level_of_e5 env v _ (fuelOf v) (fun F' hF' => rp_e5 v hv _ (nolp_closer _ _ (Or.inr (Or.inr (Or.inl rfl)))) F' hF') 1 (by omega) (by omega)
          (follow_closer _ _ _ (Or.inr (Or.inr (Or.inl rfl)))) f (by simp [fuelOfL] at hF; omega)
      | k2 :: v2 :: r2, _ =>
        exact level_of_e5 env v _ (fuelOf v) (fun F' hF' => rp_e5 v hv _ (nolp_closer _ _ (Or.inr (Or.inl rfl))) F' hF') 1 (by omega) (by omega)
          (follow_closer _ _ _ (Or.inr (Or.inl rfl))) f (by simp [fuelOfL] at hF; omega)
    have hP := rp_pairs r hr hev' rest f (by simp [fuelOfL] at hF; omega)
    simp only [prPairTail, List.cons_append, List.append_assoc, pPairs, hK, hV, hP]
end

/-! ### fuel: 30 per printed token is enough -/

theorem prTail_length_args : ∀ (es : List Expr), (prArgs es).length + 1 = (prTail es).length ∨ es = []
  | [] => Or.inr rfl
  | e :: es => by
    left
    rw [prArgs_cons]
    simp [prTail]

theorem prPairs_length : ∀ (es : List Expr), (prPairs es).length = (prArgs es).length
  | [] => by simp [prPairs, prArgs]
  | [k] => by simp [prPairs, prArgs]
  | [k, v] => by simp [prPairs, prArgs]
  | k :: v :: x :: r => by
    have := prPairs_length (x :: r)
    simp [prPairs, prArgs, this]

theorem prThe_len1 (t : Tbl) (k : Nat) (a : Expr) (hok : TheOk t k 1 = true) : (prE a).length + 3 ≤ (prThe t k [a]).length := by
  cases t <;> simp only [TheOk, Bool.false_eq_true] at hok <;> simp [prThe] <;> (try split) <;> simp <;> omega

theorem prThe_len2 (t : Tbl) (k : Nat) (i m : Expr) (hok : TheOk t k 2 = true) : (prE i).length + (prE m).length + 6 ≤ (prThe t k [i, m]).length := by
  cases t <;> simp only [TheOk, Bool.false_eq_true] at hok <;> simp [prThe] <;> omega

theorem prThe_len0 (t : Tbl) (k : Nat) (as : List Expr) : 2 ≤ (prThe t k as).length := by
  obtain ⟨X, hX⟩ := prThe_head t k as
  have : X ≠ [] := by
    intro h; subst h
    unfold prThe at hX
    split at hX <;> (try split at hX) <;> (try split at hX) <;> simp at hX
  cases X with
  | nil => exact absurd rfl this
  | cons x X' => simp [hX]

mutual
theorem fuel_bound : ∀ (e : Expr), Frag env e → fuelOf e ≤ 30 * (prE e).length
  | .int _, _ => by simp [fuelOf, prE]
  | .str s, _ => by
    by_cases h0 : s = []
    · simp [fuelOf, prE, strToks, h0]
    · cases hc : nameOfConstant s <;> simp [fuelOf, prE, strToks, h0, hc]
  | .float _ _, _ => by simp [fuelOf, prE]
  | .sym _, _ => by simp [fuelOf, prE]
  | .var _ _, _ => by simp [fuelOf, prE]
  | .me, _ => by simp [fuelOf, prE]
  | .key _, _ => by simp [fuelOf, prE]
  | .movie _, _ => by simp [fuelOf, prE]
  | .un op a, h => by
    have ha : Frag env a := h
    have := fuel_bound a ha
    cases op <;> simp [fuelOf, prE] <;> omega
  | .field a, h => by
    have ha : Frag env a := h
    have := fuel_bound a ha
    simp [fuelOf, prE]; omega
  | .bin op a b, h => by
    obtain ⟨ha, hb⟩ : Frag env a ∧ Frag env b := h
    have := fuel_bound a ha
    have := fuel_bound b hb
    cases hop : op.isInfix <;> simp [fuelOf, prE, hop] <;> omega
  | .call f as, h => by
    obtain ⟨_, _, has⟩ : PlainId f ∧ env.isVar f = false ∧ FragL env as := h
    have := fuelL_bound as has
    rcases prTail_length_args as with h1 | h1
    · simp [fuelOf, prE]; omega
    · subst h1; simp [fuelOf, fuelOfL, prE]; omega
  | .list as, h => by
    have has : FragL env as := h
    have := fuelL_bound as has
    rcases prTail_length_args as with h1 | h1
    · simp [fuelOf, prE]; omega
    · subst h1; simp [fuelOf, fuelOfL, prE]; omega
  | .plist as, h => by
    obtain ⟨_, has⟩ : as.length % 2 = 0 ∧ FragL env as := h
    have := fuelL_bound as has
    rcases prTail_length_args as with h1 | h1
    · cases as with
      | nil => simp [fuelOf, fuelOfL, prE]
      | cons x xs => simp [fuelOf, prE, prPairs_length]; omega
    · subst h1; simp [fuelOf, fuelOfL, prE]
  | .mcall o m as, h => by
    obtain ⟨_, has⟩ : RecvOk env o ∧ FragL env as := h
    have := fuelL_bound as has
    simp [fuelOf, prE]; omega
  | .oprop n o, h => by
    obtain ⟨_, _, _, ho⟩ : PlainThe n ∧ isObjectless n = false ∧ headNotObj (prE o) = true ∧ Frag env o := h
    have := fuel_bound o ho
    simp [fuelOf, prE]; omega
  | .chunk c a b d, h => by
    obtain ⟨ha, hb, hd⟩ : Frag env a ∧ Frag env b ∧ Frag env d := h
    have := fuel_bound a ha
    have := fuel_bound b hb
    have := fuel_bound d hd
    have hcase : b = .int 0 ∨ prE (.chunk c a b d) = Tok.id c.tag.toList :: prE a ++ Tok.id "to".toList :: prE b ++ Tok.id "of".toList :: prE d := by
      cases b with
      | int n => cases n with
        | zero => exact Or.inl rfl
        | succ m => exact Or.inr (by simp [prE, kw])
      | _ => exact Or.inr (by simp [prE, kw])
    rcases hcase with hb0 | hpr
    · subst hb0; simp [fuelOf, prE]; omega
    · rw [hpr]; simp [fuelOf]; omega
  | .the t k [], _ => by
    have := prThe_len0 t k []
    simp [fuelOf, fuelOfL, prE]; omega
  | .the t k [a], h => by
    obtain ⟨hok, ha, _⟩ : TheOk t k 1 = true ∧ Frag env a ∧ True := h
    have := fuel_bound a ha
    have := prThe_len1 t k a hok
    simp [fuelOf, fuelOfL, prE]; omega
  | .the t k [i, m], h => by
    obtain ⟨hok, hi, hm, _⟩ : TheOk t k 2 = true ∧ Frag env i ∧ Frag env m ∧ True := h
    have := fuel_bound i hi
    have := fuel_bound m hm
    have := prThe_len2 t k i m hok
    simp [fuelOf, fuelOfL, prE]; omega
  | .the t k (_ :: _ :: _ :: ds), h => by
    obtain ⟨hok, _⟩ : TheOk t k (ds.length + 3) = true ∧ _ := h
    exact absurd hok (fun hh => theOk_arity t k ds.length hh)
theorem fuelL_bound : ∀ (es : List Expr), FragL env es → fuelOfL es ≤ 30 * (prTail es).length
  | [], _ => by simp [fuelOfL]
  | e :: es, h => by
    obtain ⟨he, hes⟩ : Frag env e ∧ FragL env es := h
    have := fuel_bound e he
    have := fuelL_bound es hes
    simp [fuelOfL, prTail]; omega
end

end Drx.Spec
