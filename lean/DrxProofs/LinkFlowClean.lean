/-
  C03 link: `condition_detect_in_statements` is the identity on a list that is already reconstructed (no jz statement at any
  list level reachable through repeat bodies).  Needed because the real code scans a loop body once per enclosing `if`
  (each extracted if-list is scanned again, including the bodies of its repeat statements).
-/
import DrxProofs.LinkFlowScan
namespace Drx.LinkFlow
open Drx Drx.Lscr

/-- what `mapRep` does to one statement -/
def repStep (d : Nat) (roEnd : Option Int) (st : Node) : R Node :=
  match d with
  | 0 => if isNestStmt st then .error .other else .ok st
  | d' + 1 =>
    match st with
    | .stmt p (.repeat_ rp re c body t s v sg vr) => do
      let body' ← condDetectD d' body (some re)
      pure (.stmt p (.repeat_ rp re c body' t s v sg vr))
    | .stmt p (.tell tp operand inner closed) => do
      let inner' ← condDetectD d' inner roEnd
      pure (.stmt p (.tell tp operand inner' closed))
    | x => pure x

theorem mapM_nil_ok {f : Node → R Node} : ([] : List Node).mapM f = .ok [] := rfl

theorem mapM_cons_ok {f : Node → R Node} {x y : Node} {l m : List Node} (hx : f x = .ok y) (hl : l.mapM f = .ok m) :
    (x :: l).mapM f = .ok (y :: m) := by
  rw [List.mapM_cons, hx, hl]; rfl

theorem mapM_append_ok {f : Node → R Node} {l1 l2 m1 m2 : List Node} (h1 : l1.mapM f = .ok m1) (h2 : l2.mapM f = .ok m2) :
    (l1 ++ l2).mapM f = .ok (m1 ++ m2) := by
  rw [List.mapM_append, h1, h2]; rfl

theorem mapM_id_ok {f : Node → R Node} {l : List Node} (h : ∀ x ∈ l, f x = .ok x) : l.mapM f = .ok l := by
  induction l with
  | nil => rfl
  | cons x l ih =>
    exact mapM_cons_ok (h x List.mem_cons_self) (ih fun y hy => h y (List.mem_cons_of_mem _ hy))

theorem mapRep_eq (d : Nat) (l : List Node) (r : Option Int) : mapRep d l r = l.mapM (repStep d r) := by
  cases d with
  | succ d' => rfl
  | zero =>
    simp only [mapRep]
    induction l with
    | nil => rfl
    | cons x l ih =>
      rw [List.mapM_cons, List.any_cons]
      by_cases hx : isNestStmt x = true
      · simp [hx, repStep]; rfl
      · have hx' : isNestStmt x = false := by simpa using hx
        rw [← ih]
        simp only [hx', Bool.false_or, repStep]
        split <;> rfl

theorem repStep_other (d : Nat) (r : Option Int) (p : Int) (c : Node) (h : c.cls ≠ .repeat_) (h' : c.cls ≠ .tell) :
    repStep d r (.stmt p c) = .ok (.stmt p c) := by
  cases d with
  | zero => cases c <;> first | (exact absurd rfl h) | (exact absurd rfl h') | rfl
  | succ d' => cases c <;> first | (exact absurd rfl h) | (exact absurd rfl h') | rfl

theorem repStep_repeat (d' : Nat) (r : Option Int) (p rp re : Int) (c : Node) (body body' : List Node) (t : Str) (s : Node) (v : Name) (sg : Str)
    (vr : Node) (h : condDetectD d' body (some re) = .ok body') :
    repStep (d' + 1) r (.stmt p (.repeat_ rp re c body t s v sg vr)) = .ok (.stmt p (.repeat_ rp re c body' t s v sg vr)) := by
  simp only [repStep, h]; rfl

/-- reconstructed to depth `d`: no jz statement in the list, nor (recursively) in the body of a repeat statement of the list;
    repeat statements nest at most `d` deep -/
def CleanL : Nat → List Node → Prop
  | 0, l => AllS (fun _ c => c.cls ≠ .jz ∧ c.cls ≠ .tell ∧ c.cls ≠ .repeat_) l
  | d + 1, l => AllS (fun _ c => c.cls ≠ .jz ∧ c.cls ≠ .tell ∧
      ∀ rp re cd body t s v sg vr, c = Node.repeat_ rp re cd body t s v sg vr → CleanL d body) l

theorem CleanL.nil (d : Nat) : CleanL d [] := by cases d <;> exact AllS.nil

theorem CleanL.cons_plain {d : Nat} {p : Int} {c : Node} {l : List Node} (h1 : c.cls ≠ .jz) (h2 : c.cls ≠ .repeat_)
    (h3 : c.cls ≠ .tell) (hl : CleanL d l) : CleanL d (.stmt p c :: l) := by
  cases d with
  | zero => exact AllS.cons ⟨h1, h3, h2⟩ hl
  | succ d =>
    refine AllS.cons ⟨h1, h3, ?_⟩ hl
    intro rp re cd body t s v sg vr e; subst e; exact absurd rfl h2

theorem CleanL.cons_loop {d : Nat} {p rp re : Int} {cd : Node} {body : List Node} {t : Str} {s : Node} {v : Name} {sg : Str}
    {vr : Node} {l : List Node} (hb : CleanL d body) (hl : CleanL (d + 1) l) :
    CleanL (d + 1) (.stmt p (.repeat_ rp re cd body t s v sg vr) :: l) := by
  refine AllS.cons ⟨by simp [Node.cls], by simp [Node.cls], ?_⟩ hl
  intro rp' re' cd' body' t' s' v' sg' vr' e
  simp only [Node.repeat_.injEq] at e
  obtain ⟨_, _, _, rfl, _⟩ := e
  exact hb

theorem CleanL.append {d : Nat} {l1 l2 : List Node} (h1 : CleanL d l1) (h2 : CleanL d l2) : CleanL d (l1 ++ l2) := by
  cases d <;> exact AllS.append h1 h2

theorem CleanL.noJz {d : Nat} {l : List Node} (h : CleanL d l) : AllS (fun _ c => c.cls ≠ .jz) l := by
  cases d <;> exact AllS.mono h fun p c hh => hh.1

/-- the scan of a list without jz statements, started in the initial state, changes nothing -/
theorem scan_clean (r : Option Int) (l : List Node) (h : AllS (fun _ c => c.cls ≠ .jz) l) (j : List Node) :
    l.foldlM (scanStep r) { jzs := j } = .ok { jzs := j } := by
  induction l with
  | nil => rfl
  | cons x l ih =>
    obtain ⟨p, c, rfl, hc⟩ := h.head
    have st := scanStep_plain r { jzs := j } p c (fun a ha => by cases ha) (by simp [resetSt, PrevOK]) hc
    rw [foldlM_cons_ok st]
    exact ih h.tail

theorem clean_id : ∀ (d : Nat) (l : List Node) (r : Option Int), CleanL d l → condDetectD d l r = .ok l := by
  intro d
  induction d with
  | zero =>
    intro l r h
    have hM : mapRep 0 l r = .ok l := by
      rw [mapRep_eq]
      apply mapM_id_ok
      intro x hx
      obtain ⟨p, c, rfl, _, h3, h2⟩ := h x hx
      exact repStep_other 0 r p c h2 h3
    rw [condDetectD_eq, hM]
    show (l.foldlM (scanStep r) {}).bind _ = _
    rw [scan_clean r l h.noJz []]
    show condJzs 0 l.length [] l r = _
    rw [condJzs_nil]
  | succ d ih =>
    intro l r h
    have hM : mapRep (d + 1) l r = .ok l := by
      rw [mapRep_eq]
      apply mapM_id_ok
      intro x hx
      obtain ⟨p, c, rfl, _, h3, h2⟩ := h x hx
      by_cases hc : c.cls = .repeat_
      · cases c with
        | repeat_ rp re cd body t s v sg vr =>
          exact repStep_repeat d r p rp re cd body body t s v sg vr (ih body (some re) (h2 _ _ _ _ _ _ _ _ _ rfl))
        | _ => simp [Node.cls] at hc
      · exact repStep_other (d + 1) r p c hc h3
    rw [condDetectD_eq, hM]
    show (l.foldlM (scanStep r) {}).bind _ = _
    rw [scan_clean r l h.noJz []]
    show condJzs (d + 1) l.length [] l r = _
    rw [condJzs_nil]

/-! ### the reconstructed lists of a skeleton are clean -/

theorem exitIf_cls (pj : Int) (cond : Node) : ∃ c, exitIf pj cond = .stmt pj c ∧ c.cls = .ifThen := ⟨_, rfl, rfl⟩

mutual
theorem tgtC1_clean (o : Int) : (x : P) → x.wf = true → ∀ d, x.depth ≤ d → CleanL d (tgtC1 o x)
  | .simple s, h, d, _ => by
    obtain ⟨_, h2⟩ := wf_simple.1 h
    simp only [tgtC1]
    exact CleanL.cons_plain (simpleCode_spec h2).1 (simpleCode_spec h2).2.2.2.1 (simpleCode_spec h2).2.2.2.2 (CleanL.nil d)
  | .skip _, _, d, _ => by simp only [tgtC1]; exact CleanL.nil d
  | .ifThen .., _, d, _ => by
    simp only [tgtC1]
    exact CleanL.cons_plain (by simp [Node.cls]) (by simp [Node.cls]) (by simp [Node.cls]) (CleanL.nil d)
  | .loop csz cond body, h, d, hd => by
    simp only [P.depth] at hd
    obtain ⟨d', rfl⟩ : ∃ d', d = d' + 1 := ⟨d - 1, by omega⟩
    have hb := tgtC_clean (o + csz + 3) body (wf_loop.1 h) d' (by omega)
    simp only [tgtC1, rawLoop]
    refine CleanL.cons_loop ?_ (CleanL.nil _)
    exact CleanL.cons_plain (c := .ifThen (o + csz) (.unary (S "not") (o + csz) cond) [exitRepeatStmt (o + csz)] [])
      (by simp [Node.cls]) (by simp [Node.cls]) (by simp [Node.cls]) hb
  | .loopX csz cond b1 csz2 cond2 t b2, h, d, hd => by
    simp only [P.depth] at hd
    obtain ⟨d', rfl⟩ : ∃ d', d = d' + 1 := ⟨d - 1, by omega⟩
    obtain ⟨hb1, _, hb2, _⟩ := wf_loopX.1 h
    have c1 := tgtC_clean (o + csz + 3) b1 hb1 d' (by omega)
    have c2 := tgtC_clean (o + csz + 3 + P.sizes b1 + csz2 + 3 + P.sizes t + 3) b2 hb2 d' (by omega)
    simp only [tgtC1, rawLoop]
    refine CleanL.cons_loop ?_ (CleanL.nil _)
    refine CleanL.cons_plain (c := .ifThen (o + csz) (.unary (S "not") (o + csz) cond) [exitRepeatStmt (o + csz)] [])
      (by simp [Node.cls]) (by simp [Node.cls]) (by simp [Node.cls]) ?_
    exact CleanL.append c1 (CleanL.cons_plain (by simp [Node.cls]) (by simp [Node.cls]) (by simp [Node.cls]) c2)
theorem tgtC_clean (o : Int) : (ps : List P) → P.wfs ps = true → ∀ d, P.depths ps ≤ d → CleanL d (tgtC o ps)
  | [], _, d, _ => by simp only [tgtC]; exact CleanL.nil d
  | x :: ps, h, d, hd => by
    obtain ⟨hx, hps⟩ := wfs_cons.1 h
    simp only [P.depths] at hd
    simp only [tgtC]
    exact CleanL.append (tgtC1_clean o x hx d (by omega)) (tgtC_clean (o + x.size) ps hps d (by omega))
end

end Drx.LinkFlow
