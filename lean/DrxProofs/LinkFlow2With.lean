/-
  C03 link, byte level (part 4b): the structured stack lemma for `repeat with v = a [down] to b` with a local loop variable.
-/
import DrxProofs.LinkFlow2Struct
namespace Drx.LinkFlow
open Drx Drx.Lscr Drx.Spec Drx.Link

theorem stmt_congr {p p' : Int} (c : Node) (h : p = p') : Node.stmt p c = Node.stmt p' c := by rw [h]

theorem runIs_cons_ok {ctx : Lscr.Ctx} {a : Nat} {i : Instr} {is : List Instr} {st st1 : PState} (h : execI ctx i (a : Int) st = .ok st1) :
    runIs ctx a (i :: is) st = runIs ctx (a + i.size) is st1 := by
  simp only [runIs, h]

theorem layoutStmt_with (te : Option Nat) (pre cnd : List Instr) (cbody : List CStmt) (incr : List Instr) :
    layoutStmt te (.loop pre cnd [] cbody incr []) =
      pre ++ cnd ++ [.op3 0x95 (3 + (CStmt.sizes cbody + codeSize incr) + 2)] ++ layoutStmts (some (codeSize incr + 2)) cbody ++ incr
        ++ [.op2 0x54 (codeSize cnd + 3 + (CStmt.sizes cbody + codeSize incr))] := by
  simp [layoutStmt, codeSize]

/-- `a; set v`: the statement in front of a `repeat with` -/
theorem run_pre (ctx : Lscr.Ctx) (a j : Nat) (ca : List Instr) (st : PState) (lvn ra : Node) (gv0 : List Node) (hb : st.bpc = 6)
    (hlv : ctx.localVars[j]? = some lvn)
    (h : runIs ctx a ca st = .ok { st with stack := ra :: st.stack, gvars := gv0 }) :
    runIs ctx a (ca ++ [.op2 0x52 (6 * j)]) st =
      .ok { st with gvars := gv0, stmts := st.stmts ++ [.stmt ((a + codeSize ca : Nat) : Int)
        (.binary (S "assign") ((a + codeSize ca : Nat) : Int) lvn ra)] } := by
  rw [runIs_bind_ok h, runIs_single, exec_setloc ctx j lvn hlv _ { st with stack := ra :: st.stack, gvars := gv0 } hb ra st.stack rfl]

/-- `v; b; <=` : the loop condition -/
theorem run_cnd (ctx : Lscr.Ctx) (a j : Nat) (cb : List Instr) (o : BinOp) (st : PState) (lvn rb : Node) (gv0 : List Node) (hb : st.bpc = 6)
    (hlv : ctx.localVars[j]? = some lvn)
    (h : runIs ctx (a + 2) cb { st with stack := lvn :: st.stack } = .ok { st with stack := rb :: lvn :: st.stack, gvars := gv0 }) :
    runIs ctx a (.op2 0x4c (6 * j) :: (cb ++ [.op1 o.code])) st =
      .ok { st with stack := .binary (binName o) ((a + 2 + codeSize cb : Nat) : Int) lvn rb :: st.stack, gvars := gv0 } := by
  rw [runIs_cons_ok (exec_loc ctx j lvn hlv _ st hb)]
  show runIs ctx (a + 2) _ _ = _
  rw [runIs_bind_ok h, runIs_single, exec_bin ctx o _ _ lvn rb st.stack rfl]

theorem stepStr_natStr : natStr 1 = stepStr false := by decide

/-- `±1; v; +; set v`: the step at the end of the body -/
theorem run_incr (ctx : Lscr.Ctx) (a j : Nat) (down : Bool) (st : PState) (lvn : Node) (hb : st.bpc = 6)
    (hlv : ctx.localVars[j]? = some lvn) :
    runIs ctx a [if down then Instr.op2 0x41 0xff else .op2 0x41 0x01, .op2 0x4c (6 * j), .op1 0x05, .op2 0x52 (6 * j)] st =
      .ok { st with stmts := st.stmts ++ [.stmt ((a + 5 : Nat) : Int) (.binary (S "assign") ((a + 5 : Nat) : Int) lvn
        (.binary (S "add") ((a + 4 : Nat) : Int) (.leaf .const (.s (stepStr down)) (a : Int)) lvn))] } := by
  obtain ⟨stk, bpc, tl, gv, sts⟩ := st
  simp only at hb
  subst hb
  have h1 : execI ctx (if down then Instr.op2 0x41 0xff else .op2 0x41 0x01) (a : Int) ⟨stk, 6, tl, gv, sts⟩ =
      .ok ⟨.leaf .const (.s (stepStr down)) (a : Int) :: stk, 6, tl, gv, sts⟩ := by
    cases down
    · simp only [Bool.false_eq_true, if_false]; rw [exec_int1 ctx 1 (by omega), stepStr_natStr]
    · simp only [if_true]; rw [exec_int1_ff]; rfl
  have hs1 : (if down then Instr.op2 0x41 0xff else Instr.op2 0x41 0x01).size = 2 := by cases down <;> rfl
  have h2 : execI ctx (.op2 0x4c (6 * j)) ((a + 2 : Nat) : Int) ⟨.leaf .const (.s (stepStr down)) (a : Int) :: stk, 6, tl, gv, sts⟩ =
      .ok ⟨lvn :: .leaf .const (.s (stepStr down)) (a : Int) :: stk, 6, tl, gv, sts⟩ := exec_loc ctx j lvn hlv _ _ rfl
  have h3 : execI ctx (.op1 0x05) ((a + 2 + 2 : Nat) : Int) ⟨lvn :: .leaf .const (.s (stepStr down)) (a : Int) :: stk, 6, tl, gv, sts⟩ =
      .ok ⟨.binary (S "add") ((a + 2 + 2 : Nat) : Int) (.leaf .const (.s (stepStr down)) (a : Int)) lvn :: stk, 6, tl, gv, sts⟩ :=
    exec_bin ctx .add _ _ (.leaf .const (.s (stepStr down)) (a : Int)) lvn stk rfl
  have h4 : execI ctx (.op2 0x52 (6 * j)) ((a + 2 + 2 + 1 : Nat) : Int)
      ⟨.binary (S "add") ((a + 2 + 2 : Nat) : Int) (.leaf .const (.s (stepStr down)) (a : Int)) lvn :: stk, 6, tl, gv, sts⟩ =
      .ok ⟨stk, 6, tl, gv, sts ++ [.stmt ((a + 2 + 2 + 1 : Nat) : Int) (.binary (S "assign") ((a + 2 + 2 + 1 : Nat) : Int) lvn
        (.binary (S "add") ((a + 2 + 2 : Nat) : Int) (.leaf .const (.s (stepStr down)) (a : Int)) lvn))]⟩ :=
    exec_setloc ctx j lvn hlv _ _ rfl _ stk rfl
  rw [runIs_cons_ok h1, hs1, runIs_cons_ok h2]
  show runIs ctx (a + 2 + 2) _ _ = _
  rw [runIs_cons_ok h3]
  show runIs ctx (a + 2 + 2 + 1) _ _ = _
  rw [runIs_single, h4]

theorem localOff_spec (c : Spec.Ctx) (n : Spec.Name) (o : Nat) (h : c.localOff n = some o) :
    ∃ j, idxOf n c.locals 0 = some j ∧ o = 6 * j := by
  unfold Spec.Ctx.localOff at h
  cases hi : idxOf n c.locals 0 with
  | none => rw [hi] at h; cases h
  | some j => rw [hi] at h; simp only [Option.map_some, Option.some.injEq] at h; exact ⟨j, rfl, h.symm⟩

/-- `repeat with v = a [down] to b … end repeat`, `v` a local variable -/
theorem struct_with (n : Spec.Name) (ea eb : Expr) (down : Bool) (body : List Stmt) (hfa : FragE ea = true) (hfb : FragE eb = true)
    (hbody : Structs body) : Struct1 (.repeatWith (.var .loc n) ea eb down body) := by
  intro c hT s0 s1 cs h
  rw [lowerStmt] at h
  simp only [M_bind_ok, M_pure_ok, Prod.mk.injEq, lowerSet, lowerGet] at h
  obtain ⟨ca, sA, hca, setv, sB, hset, getv, sC, hget, cb, sD, hcb, cbody, sE, hcbody, rfl, rfl⟩ := h
  rw [lowerExpr] at hget
  cases ho : c.localOff n with
  | none => rw [ho] at hset; simp [Spec.fail] at hset
  | some o =>
    rw [ho] at hset hget
    simp only [M_bind_ok, M_pure_ok, Prod.mk.injEq] at hset
    obtain ⟨c2, s2, hop2, rfl, rfl⟩ := hset
    obtain ⟨rfl, rfl, _⟩ := op2c_ok _ _ _ _ _ hop2
    obtain ⟨rfl, rfl, _⟩ := op2c_ok _ _ _ _ _ hget
    obtain ⟨j, hj, rfl⟩ := localOff_spec c n o ho
    obtain ⟨e1, hopA, hrunA⟩ := stack_lemma ea hfa c s0 _ ca hca
    obtain ⟨e2, hopB, hrunB⟩ := stack_lemma eb hfb c _ _ cb hcb
    obtain ⟨e3, _, hopC, hrunC⟩ := hbody c hT _ _ cbody hcbody
    -- the skeleton's pieces
    have hcs : ([CStmt.loop (ca ++ [Instr.op2 0x52 (6 * j)]) ([Instr.op2 0x4c (6 * j)] ++ cb ++ [Instr.op1 (if down = true then 0x11 else 0x0d)]) [] cbody
        ([if down = true then Instr.op2 0x41 0xff else Instr.op2 0x41 0x01] ++ [Instr.op2 0x4c (6 * j)] ++ [Instr.op1 0x05] ++ [Instr.op2 0x52 (6 * j)]) []] : List CStmt) =
        [CStmt.loop (ca ++ [Instr.op2 0x52 (6 * j)]) (Instr.op2 0x4c (6 * j) :: (cb ++ [Instr.op1 (if down then BinOp.ge else BinOp.le).code])) [] cbody
          [if down then Instr.op2 0x41 0xff else Instr.op2 0x41 0x01, Instr.op2 0x4c (6 * j), Instr.op1 0x05, Instr.op2 0x52 (6 * j)] []] := by
      cases down <;> simp [BinOp.code]
    rw [hcs]
    have hsi : codeSize [if down then Instr.op2 0x41 0xff else Instr.op2 0x41 0x01, Instr.op2 0x4c (6 * j), Instr.op1 0x05, Instr.op2 0x52 (6 * j)] = 7 := by
      cases down <;> simp [codeSize, Instr.size]
    have hsc : codeSize (Instr.op2 0x4c (6 * j) :: (cb ++ [Instr.op1 (if down then BinOp.ge else BinOp.le).code])) = 2 + codeSize cb + 1 := by
      simp [codeSize, codeSize_append, Instr.size]; omega
    have hsp : codeSize (ca ++ [Instr.op2 0x52 (6 * j)]) = codeSize ca + 2 := by simp [codeSize_append, codeSize, Instr.size]
    refine ⟨(e1.trans e2).trans e3, by simp, ?_, ?_⟩
    · intro te i hi
      rw [layoutStmts_single, layoutStmt_with] at hi
      simp only [List.mem_append, List.mem_cons, List.not_mem_nil, or_false] at hi
      rcases hi with (((((hi | hi) | hi | hi | hi) | hi) | hi) | hi | hi | hi | hi) | hi
      · exact hopA i hi
      · subst hi; simp [Instr.opc]
      · subst hi; simp [Instr.opc]
      · exact hopB i hi
      · subst hi; cases down <;> simp [Instr.opc, BinOp.code]
      · subst hi; simp [Instr.opc]
      · exact hopC _ i hi
      · subst hi; cases down <;> simp [Instr.opc]
      · subst hi; simp [Instr.opc]
      · subst hi; simp [Instr.opc]
      · subst hi; simp [Instr.opc]
      · subst hi; simp [Instr.opc]
    intro sF ctx hF hrel G hG hP te a st hb hgv hpos
    have hGa : ∀ g ∈ ea.vars .glob, g ∈ G := fun g hg => hG g (by simp [Stmt.vars, hg])
    have hGb : ∀ g ∈ eb.vars .glob, g ∈ G := fun g hg => hG g (by simp [Stmt.vars, hg])
    have hGc : ∀ g ∈ Stmt.varsList .glob body, g ∈ G := fun g hg => hG g (by simp [Stmt.vars, hg])
    have hPc : ∀ v ∈ Stmt.varsList .prop body, ctx.props.contains v = true := fun v hv => hP v (by simp [Stmt.vars, hv])
    obtain ⟨pv, hlv⟩ := hrel.locals n j hj
    -- pre
    obtain ⟨ra, gv0, hembA, hgv0, hrA⟩ := hrunA sF ctx ((e2.trans e3).trans hF) hrel G hGa a st hb hgv
    have hpre := run_pre ctx a j ca st _ ra gv0 hb hlv hrA
    -- condition
    obtain ⟨rb, gv1, hembB, hgv1, hrB⟩ := hrunB sF ctx (e3.trans hF) hrel G hGb (a + (codeSize ca + 2) + 2)
      { st with gvars := gv0, stmts := st.stmts ++ [.stmt ((a + codeSize ca : Nat) : Int) (.binary (S "assign") ((a + codeSize ca : Nat) : Int) (.leaf .localVar (.s n) pv) ra)],
                stack := .leaf .localVar (.s n) pv :: st.stack } hb hgv0.1
    have hcnd := run_cnd ctx (a + (codeSize ca + 2)) j cb (if down then BinOp.ge else BinOp.le)
      { st with gvars := gv0, stmts := st.stmts ++ [.stmt ((a + codeSize ca : Nat) : Int) (.binary (S "assign") ((a + codeSize ca : Nat) : Int) (.leaf .localVar (.s n) pv) ra)] }
      (.leaf .localVar (.s n) pv) rb gv1 hb hlv hrB
    have hbn : binName (if down then BinOp.ge else BinOp.le) = cmpName down := by cases down <;> rfl
    rw [hbn] at hcnd
    -- conditional jump
    have hjz := run_jz ctx (a + (codeSize ca + 2)) _ (3 + (CStmt.sizes cbody + 7) + 2) _ _ gv1 hcnd
    rw [hsc] at hjz
    -- body
    have hpos1 : AllS (fun p _ => p < ((a + (codeSize ca + 2) + (2 + codeSize cb + 1) + 3 : Nat) : Int))
        ((st.stmts ++ [.stmt ((a + codeSize ca : Nat) : Int) (.binary (S "assign") ((a + codeSize ca : Nat) : Int) (.leaf .localVar (.s n) pv) ra)]) ++
          [jzStmt ((a + (codeSize ca + 2) + (2 + codeSize cb + 1) : Nat) : Int)
            (.binary (cmpName down) ((a + (codeSize ca + 2) + 2 + codeSize cb : Nat) : Int) (.leaf .localVar (.s n) pv) rb)
            (((a + (codeSize ca + 2) + (2 + codeSize cb + 1) : Nat) : Int) + ((3 + (CStmt.sizes cbody + 7) + 2 : Nat) : Int))]) :=
      AllS.append (AllS.append (AllS.mono hpos fun _ _ hh => by push_cast; omega) (AllS.cons (by push_cast; omega) AllS.nil))
        (allS_jz _ _ _ (by push_cast; omega))
    obtain ⟨b', hembb, hszb, gv2, hgv2, hr2⟩ := hrunC sF ctx hF hrel G hGc hPc (some (7 + 2)) (a + (codeSize ca + 2) + (2 + codeSize cb + 1) + 3)
      { st with gvars := gv1, stmts := ((st.stmts ++ [.stmt ((a + codeSize ca : Nat) : Int) (.binary (S "assign") ((a + codeSize ca : Nat) : Int) (.leaf .localVar (.s n) pv) ra)]) ++
          [jzStmt ((a + (codeSize ca + 2) + (2 + codeSize cb + 1) : Nat) : Int)
            (.binary (cmpName down) ((a + (codeSize ca + 2) + 2 + codeSize cb : Nat) : Int) (.leaf .localVar (.s n) pv) rb)
            (((a + (codeSize ca + 2) + (2 + codeSize cb + 1) : Nat) : Int) + ((3 + (CStmt.sizes cbody + 7) + 2 : Nat) : Int))]) }
      hb hgv1.1 hpos1
    have hwfb := (embSrc_wf body b' hembb).1
    have invb := emit_inv false ((a + (codeSize ca + 2) + (2 + codeSize cb + 1) + 3 : Nat) : Int) (lower b') hwfb
    -- step
    have hinc := run_incr ctx (a + (codeSize ca + 2) + (2 + codeSize cb + 1) + 3 + CStmt.sizes cbody) j down
      { st with gvars := gv2, stmts := (((st.stmts ++ [.stmt ((a + codeSize ca : Nat) : Int) (.binary (S "assign") ((a + codeSize ca : Nat) : Int) (.leaf .localVar (.s n) pv) ra)]) ++
          [jzStmt ((a + (codeSize ca + 2) + (2 + codeSize cb + 1) : Nat) : Int)
            (.binary (cmpName down) ((a + (codeSize ca + 2) + 2 + codeSize cb : Nat) : Int) (.leaf .localVar (.s n) pv) rb)
            (((a + (codeSize ca + 2) + (2 + codeSize cb + 1) : Nat) : Int) + ((3 + (CStmt.sizes cbody + 7) + 2 : Nat) : Int))]) ++
          emit false ((a + (codeSize ca + 2) + (2 + codeSize cb + 1) + 3 : Nat) : Int) (lower b')) }
      (.leaf .localVar (.s n) pv) hb hlv
    -- back jump
    have hbk := run_back ctx (a + (codeSize ca + 2) + (2 + codeSize cb + 1) + 3 + CStmt.sizes cbody + 7) ((2 + codeSize cb + 1) + 3 + (CStmt.sizes cbody + 7))
      { st with gvars := gv2, stmts := ((((st.stmts ++ [.stmt ((a + codeSize ca : Nat) : Int) (.binary (S "assign") ((a + codeSize ca : Nat) : Int) (.leaf .localVar (.s n) pv) ra)]) ++
          [jzStmt ((a + (codeSize ca + 2) + (2 + codeSize cb + 1) : Nat) : Int)
            (.binary (cmpName down) ((a + (codeSize ca + 2) + 2 + codeSize cb : Nat) : Int) (.leaf .localVar (.s n) pv) rb)
            (((a + (codeSize ca + 2) + (2 + codeSize cb + 1) : Nat) : Int) + ((3 + (CStmt.sizes cbody + 7) + 2 : Nat) : Int))]) ++
          emit false ((a + (codeSize ca + 2) + (2 + codeSize cb + 1) + 3 : Nat) : Int) (lower b')) ++
          [.stmt ((a + (codeSize ca + 2) + (2 + codeSize cb + 1) + 3 + CStmt.sizes cbody + 5 : Nat) : Int)
            (.binary (S "assign") ((a + (codeSize ca + 2) + (2 + codeSize cb + 1) + 3 + CStmt.sizes cbody + 5 : Nat) : Int) (.leaf .localVar (.s n) pv)
              (.binary (S "add") ((a + (codeSize ca + 2) + (2 + codeSize cb + 1) + 3 + CStmt.sizes cbody + 4 : Nat) : Int)
                (.leaf .const (.s (stepStr down)) ((a + (codeSize ca + 2) + (2 + codeSize cb + 1) + 3 + CStmt.sizes cbody : Nat) : Int)) (.leaf .localVar (.s n) pv)))]) }
      (st.stmts ++ [.stmt ((a + codeSize ca : Nat) : Int) (.binary (S "assign") ((a + codeSize ca : Nat) : Int) (.leaf .localVar (.s n) pv) ra)])
      (jzStmt ((a + (codeSize ca + 2) + (2 + codeSize cb + 1) : Nat) : Int)
            (.binary (cmpName down) ((a + (codeSize ca + 2) + 2 + codeSize cb : Nat) : Int) (.leaf .localVar (.s n) pv) rb)
            (((a + (codeSize ca + 2) + (2 + codeSize cb + 1) : Nat) : Int) + ((3 + (CStmt.sizes cbody + 7) + 2 : Nat) : Int)) ::
          (emit false ((a + (codeSize ca + 2) + (2 + codeSize cb + 1) + 3 : Nat) : Int) (lower b') ++
          [.stmt ((a + (codeSize ca + 2) + (2 + codeSize cb + 1) + 3 + CStmt.sizes cbody + 5 : Nat) : Int)
            (.binary (S "assign") ((a + (codeSize ca + 2) + (2 + codeSize cb + 1) + 3 + CStmt.sizes cbody + 5 : Nat) : Int) (.leaf .localVar (.s n) pv)
              (.binary (S "add") ((a + (codeSize ca + 2) + (2 + codeSize cb + 1) + 3 + CStmt.sizes cbody + 4 : Nat) : Int)
                (.leaf .const (.s (stepStr down)) ((a + (codeSize ca + 2) + (2 + codeSize cb + 1) + 3 + CStmt.sizes cbody : Nat) : Int)) (.leaf .localVar (.s n) pv)))]))
      ((a + (codeSize ca + 2) : Nat) : Int) (by simp [List.append_assoc]) (by push_cast; omega)
      (AllS.append (AllS.mono hpos fun _ _ hh => by push_cast; omega) (AllS.cons (by push_cast; omega) AllS.nil))
      (AllS.append (allS_jz _ _ _ (by push_cast; omega)) (AllS.append (AllS.mono invb fun _ _ hh => by have := hh.1; push_cast at *; omega)
        (AllS.cons (by push_cast; omega) AllS.nil)))
    refine ⟨.loop (.with_ ⟨codeSize ca + 2, codeSize ca, .binary (S "assign") ((a + codeSize ca : Nat) : Int) (.leaf .localVar (.s n) pv) ra⟩
        ⟨7, 5, .binary (S "assign") ((a + (codeSize ca + 2) + (2 + codeSize cb + 1) + 3 + CStmt.sizes cbody + 5 : Nat) : Int) (.leaf .localVar (.s n) pv)
              (.binary (S "add") ((a + (codeSize ca + 2) + (2 + codeSize cb + 1) + 3 + CStmt.sizes cbody + 4 : Nat) : Int)
                (.leaf .const (.s (stepStr down)) ((a + (codeSize ca + 2) + (2 + codeSize cb + 1) + 3 + CStmt.sizes cbody : Nat) : Int)) (.leaf .localVar (.s n) pv))⟩)
        (2 + codeSize cb + 1) (.binary (cmpName down) ((a + (codeSize ca + 2) + 2 + codeSize cb : Nat) : Int) (.leaf .localVar (.s n) pv) rb) b',
      ⟨_, _, _, _, _, _, _, _, _, _, _, _, _, _, _, rfl, by simp only; omega, by simp only; omega, rfl, rfl,
        EmbH.toEmb _ _ _ hembA, EmbH.toEmb _ _ _ hembB, hembb⟩, ?_, gv2, (hgv0.trans hgv1).trans hgv2, ?_⟩
    · rw [size_with]
      simp only [CStmt.sizes, CStmt.size, hsi, hsc, hsp, hszb, codeSize_nil]
      omega
    · rw [layoutStmts_single, layoutStmt_with, hsi, hsc]
      rw [List.append_assoc _ _ [Instr.op2 0x54 _], List.append_assoc _ (layoutStmts _ cbody) _, List.append_assoc _ [Instr.op3 0x95 _] _,
        List.append_assoc (ca ++ [Instr.op2 0x52 (6 * j)])]
      have hc95 : codeSize (Instr.op2 0x4c (6 * j) :: (cb ++ [Instr.op1 (if down then BinOp.ge else BinOp.le).code]) ++
            [Instr.op3 0x95 (3 + (CStmt.sizes cbody + 7) + 2)]) = (2 + codeSize cb + 1) + 3 := by
        rw [codeSize_append, hsc]; simp [codeSize, Instr.size]
      have hcb2 : codeSize (layoutStmts (some (7 + 2)) cbody) = CStmt.sizes cbody := layoutStmts_size _ _
      dsimp only at hpre hjz hr2 hinc hbk
      rw [runIs_bind_ok hpre, hsp, ← List.append_assoc _ [Instr.op3 0x95 _], runIs_bind_ok hjz, hc95, ← Nat.add_assoc,
        runIs_bind_ok hr2, hcb2, runIs_bind_ok hinc, hsi, hbk]
      simp only [lower1, emit, emit1_simple, emit1_loop_raw, emit_append, List.append_nil, List.append_assoc, List.cons_append,
        List.nil_append, P.sizes, P.size, Drx.LinkFlow.sizes_append, hszb]
      exact stmts_congr st gv2 (cons_congr (stmt_congr _ (by push_cast; omega)) (cons_congr (rawLoop_congr (by push_cast; omega)
        (by push_cast; omega) (cons_congr (jzStmt_congr _ (by push_cast; omega) (by push_cast; omega))
          (append_congr (emit_congr _ _ (by push_cast; omega)) (cons_congr (stmt_congr _ (by push_cast; omega)) rfl)))) rfl))

/-! ### `repeat with v in l`: the peek protocol (list, count, counter on the stack) -/

set_option linter.unusedSimpArgs false in
set_option linter.unusedVariables false in
section

theorem runIs_cons_ok' {ctx : Lscr.Ctx} {a : Nat} {i : Instr} {is : List Instr} {st st1 : PState} (h : execI ctx i (a : Int) st = .ok st1) :
    runIs ctx a (i :: is) st = runIs ctx (a + i.size) is st1 := by
  simp only [runIs, h]

theorem layoutStmt_in (te : Option Nat) (pre cnd bp : List Instr) (cbody : List CStmt) (incr post : List Instr) :
    layoutStmt te (.loop pre cnd bp cbody incr post) =
      pre ++ cnd ++ [.op3 0x95 (3 + (codeSize bp + CStmt.sizes cbody + codeSize incr) + 2)] ++ bp ++ layoutStmts (some (codeSize incr + 2)) cbody ++ incr
        ++ [.op2 0x54 (codeSize cnd + 3 + (codeSize bp + CStmt.sizes cbody + codeSize incr))] ++ post := by
  simp [layoutStmt]

/-- the list, its count, the counter: the prologue of `repeat with x in l` -/
theorem run_in_pre (ctx : Lscr.Ctx) (a ic : Nat) (cl : List Instr) (st : PState) (ln : Node) (gv0 : List Node)
    (hn : ctx.names[ic]? = some (S "count"))
    (h : runIs ctx a cl st = .ok { st with stack := ln :: st.stack, gvars := gv0 }) :
    runIs ctx a (cl ++ [.op2 0x64 0, .op2 0x43 1, .op2 0x57 ic, .op2 0x41 1]) st =
      .ok { st with gvars := gv0, stack := (.leaf .const (.s (S "1")) ((a + codeSize cl + 6 : Nat) : Int) :: Node.callFn (.s (S "count")) ((a + codeSize cl + 4 : Nat) : Int) (.loadList (S "<load_list>") ((a + codeSize cl + 2 : Nat) : Int) [ln]) true false false .none :: ln :: st.stack) } := by
  obtain ⟨stk, bpc, tl, gv, sts⟩ := st
  rw [runIs_bind_ok h]
  have h1 : execI ctx (.op2 0x64 0) ((a + codeSize cl : Nat) : Int) ⟨ln :: stk, bpc, tl, gv0, sts⟩ = .ok ⟨ln :: ln :: stk, bpc, tl, gv0, sts⟩ :=
    exec_peek ctx 0 _ _ ln rfl
  have h2 : execI ctx (.op2 0x43 1) ((a + codeSize cl + 2 : Nat) : Int) ⟨ln :: ln :: stk, bpc, tl, gv0, sts⟩ =
      .ok ⟨.loadList (S "<load_list>") ((a + codeSize cl + 2 : Nat) : Int) [ln] :: ln :: stk, bpc, tl, gv0, sts⟩ := by
    have := exec_args1 ctx true 1 ((a + codeSize cl + 2 : Nat) : Int) ⟨ln :: ln :: stk, bpc, tl, gv0, sts⟩ (by simp)
    simpa [listName] using this
  have h3 : execI ctx (.op2 0x57 ic) ((a + codeSize cl + 2 + 2 : Nat) : Int) ⟨.loadList (S "<load_list>") ((a + codeSize cl + 2 : Nat) : Int) [ln] :: ln :: stk, bpc, tl, gv0, sts⟩ =
      .ok ⟨.callFn (.s (S "count")) ((a + codeSize cl + 2 + 2 : Nat) : Int) (.loadList (S "<load_list>") ((a + codeSize cl + 2 : Nat) : Int) [ln]) true false false .none :: ln :: stk, bpc, tl, gv0, sts⟩ := by
    have := exec_callext ctx ic (S "count") hn ((a + codeSize cl + 2 + 2 : Nat) : Int)
      ⟨.loadList (S "<load_list>") ((a + codeSize cl + 2 : Nat) : Int) [ln] :: ln :: stk, bpc, tl, gv0, sts⟩ true _ [ln] (ln :: stk) rfl
    simpa [listName] using this
  have h4 : execI ctx (.op2 0x41 1) ((a + codeSize cl + 2 + 2 + 2 : Nat) : Int)
      ⟨.callFn (.s (S "count")) ((a + codeSize cl + 2 + 2 : Nat) : Int) (.loadList (S "<load_list>") ((a + codeSize cl + 2 : Nat) : Int) [ln]) true false false .none :: ln :: stk, bpc, tl, gv0, sts⟩ =
      .ok ⟨.leaf .const (.s (S "1")) ((a + codeSize cl + 2 + 2 + 2 : Nat) : Int) ::
        Node.callFn (.s (S "count")) ((a + codeSize cl + 2 + 2 : Nat) : Int) (.loadList (S "<load_list>") ((a + codeSize cl + 2 : Nat) : Int) [ln]) true false false .none :: ln :: stk, bpc, tl, gv0, sts⟩ := by
    have := exec_int1 ctx 1 (by omega) ((a + codeSize cl + 2 + 2 + 2 : Nat) : Int)
      ⟨.callFn (.s (S "count")) ((a + codeSize cl + 2 + 2 : Nat) : Int) (.loadList (S "<load_list>") ((a + codeSize cl + 2 : Nat) : Int) [ln]) true false false .none :: ln :: stk, bpc, tl, gv0, sts⟩
    rw [natStr_one] at this
    exact this
  rw [runIs_cons_ok' h1]
  show runIs ctx (a + codeSize cl + 2) _ _ = _
  rw [runIs_cons_ok' h2]
  show runIs ctx (a + codeSize cl + 2 + 2) _ _ = _
  rw [runIs_cons_ok' h3]
  show runIs ctx (a + codeSize cl + 2 + 2 + 2) _ _ = _
  rw [runIs_single, h4]

/-- `counter <= count`: the loop condition -/
theorem run_in_cnd (ctx : Lscr.Ctx) (a : Nat) (st : PState) (kn cn ln : Node) (rest : List Node) (hs : st.stack = kn :: cn :: ln :: rest) :
    runIs ctx a [.op2 0x64 0, .op2 0x64 2, .op1 0x0d] st =
      .ok { st with stack := .binary (S "lte") ((a + 4 : Nat) : Int) kn cn :: st.stack } := by
  obtain ⟨stk, bpc, tl, gv, sts⟩ := st
  simp only at hs
  subst hs
  have h1 : execI ctx (.op2 0x64 0) (a : Int) ⟨kn :: cn :: ln :: rest, bpc, tl, gv, sts⟩ = .ok ⟨kn :: kn :: cn :: ln :: rest, bpc, tl, gv, sts⟩ :=
    exec_peek ctx 0 _ _ kn rfl
  have h2 : execI ctx (.op2 0x64 2) ((a + 2 : Nat) : Int) ⟨kn :: kn :: cn :: ln :: rest, bpc, tl, gv, sts⟩ =
      .ok ⟨cn :: kn :: kn :: cn :: ln :: rest, bpc, tl, gv, sts⟩ := exec_peek ctx 2 _ _ cn rfl
  have h3 : execI ctx (.op1 0x0d) ((a + 2 + 2 : Nat) : Int) ⟨cn :: kn :: kn :: cn :: ln :: rest, bpc, tl, gv, sts⟩ =
      .ok ⟨.binary (S "lte") ((a + 2 + 2 : Nat) : Int) kn cn :: kn :: cn :: ln :: rest, bpc, tl, gv, sts⟩ :=
    exec_bin ctx .le _ _ kn cn (kn :: cn :: ln :: rest) rfl
  rw [runIs_cons_ok' h1]
  show runIs ctx (a + 2) _ _ = _
  rw [runIs_cons_ok' h2]
  show runIs ctx (a + 2 + 2) _ _ = _
  rw [runIs_single, h3]

/-- `set x = getAt(l, counter)`: the first statement of the body -/
theorem run_in_bp (ctx : Lscr.Ctx) (a ig j : Nat) (st : PState) (hb : st.bpc = 6) (lvn kn cn ln : Node) (rest : List Node)
    (hn : ctx.names[ig]? = some (S "getAt")) (hlv : ctx.localVars[j]? = some lvn) (hs : st.stack = kn :: cn :: ln :: rest) :
    runIs ctx a [.op2 0x64 2, .op2 0x64 1, .op2 0x43 2, .op2 0x57 ig, .op2 0x52 (6 * j)] st =
      .ok { st with stmts := st.stmts ++ [.stmt ((a + 8 : Nat) : Int) (.binary (S "assign") ((a + 8 : Nat) : Int) lvn
        (.callFn (.s (S "getAt")) ((a + 6 : Nat) : Int) (.loadList (S "<load_list>") ((a + 4 : Nat) : Int) [kn, ln]) true false false .none))] } := by
  obtain ⟨stk, bpc, tl, gv, sts⟩ := st
  simp only at hs hb
  subst hs; subst hb
  have h1 : execI ctx (.op2 0x64 2) (a : Int) ⟨kn :: cn :: ln :: rest, 6, tl, gv, sts⟩ = .ok ⟨ln :: kn :: cn :: ln :: rest, 6, tl, gv, sts⟩ :=
    exec_peek ctx 2 _ _ ln rfl
  have h2 : execI ctx (.op2 0x64 1) ((a + 2 : Nat) : Int) ⟨ln :: kn :: cn :: ln :: rest, 6, tl, gv, sts⟩ =
      .ok ⟨kn :: ln :: kn :: cn :: ln :: rest, 6, tl, gv, sts⟩ := exec_peek ctx 1 _ _ kn rfl
  have h3 : execI ctx (.op2 0x43 2) ((a + 2 + 2 : Nat) : Int) ⟨kn :: ln :: kn :: cn :: ln :: rest, 6, tl, gv, sts⟩ =
      .ok ⟨.loadList (S "<load_list>") ((a + 2 + 2 : Nat) : Int) [kn, ln] :: kn :: cn :: ln :: rest, 6, tl, gv, sts⟩ := by
    have := exec_args1 ctx true 2 ((a + 2 + 2 : Nat) : Int) ⟨kn :: ln :: kn :: cn :: ln :: rest, 6, tl, gv, sts⟩ (by simp)
    simpa [listName] using this
  have h4 : execI ctx (.op2 0x57 ig) ((a + 2 + 2 + 2 : Nat) : Int) ⟨.loadList (S "<load_list>") ((a + 2 + 2 : Nat) : Int) [kn, ln] :: kn :: cn :: ln :: rest, 6, tl, gv, sts⟩ =
      .ok ⟨.callFn (.s (S "getAt")) ((a + 2 + 2 + 2 : Nat) : Int) (.loadList (S "<load_list>") ((a + 2 + 2 : Nat) : Int) [kn, ln]) true false false .none :: kn :: cn :: ln :: rest, 6, tl, gv, sts⟩ := by
    have := exec_callext ctx ig (S "getAt") hn ((a + 2 + 2 + 2 : Nat) : Int)
      ⟨.loadList (S "<load_list>") ((a + 2 + 2 : Nat) : Int) [kn, ln] :: kn :: cn :: ln :: rest, 6, tl, gv, sts⟩ true _ [kn, ln] (kn :: cn :: ln :: rest) rfl
    simpa [listName] using this
  have h5 := exec_setloc ctx j lvn hlv ((a + 2 + 2 + 2 + 2 : Nat) : Int)
    ⟨.callFn (.s (S "getAt")) ((a + 2 + 2 + 2 : Nat) : Int) (.loadList (S "<load_list>") ((a + 2 + 2 : Nat) : Int) [kn, ln]) true false false .none :: kn :: cn :: ln :: rest, 6, tl, gv, sts⟩
    rfl _ (kn :: cn :: ln :: rest) rfl
  rw [runIs_cons_ok' h1]
  show runIs ctx (a + 2) _ _ = _
  rw [runIs_cons_ok' h2]
  show runIs ctx (a + 2 + 2) _ _ = _
  rw [runIs_cons_ok' h3]
  show runIs ctx (a + 2 + 2 + 2) _ _ = _
  rw [runIs_cons_ok' h4]
  show runIs ctx (a + 2 + 2 + 2 + 2) _ _ = _
  rw [runIs_single, h5]

/-- `counter + 1`: the step -/
theorem run_in_incr (ctx : Lscr.Ctx) (a : Nat) (st : PState) (kn : Node) (rest : List Node) (hs : st.stack = kn :: rest) :
    runIs ctx a [.op2 0x41 1, .op1 0x05] st =
      .ok { st with stack := .binary (S "add") ((a + 2 : Nat) : Int) kn (.leaf .const (.s (S "1")) (a : Int)) :: rest } := by
  obtain ⟨stk, bpc, tl, gv, sts⟩ := st
  simp only at hs
  subst hs
  have h1 : execI ctx (.op2 0x41 1) (a : Int) ⟨kn :: rest, bpc, tl, gv, sts⟩ = .ok ⟨.leaf .const (.s (S "1")) (a : Int) :: kn :: rest, bpc, tl, gv, sts⟩ := by
    have := exec_int1 ctx 1 (by omega) (a : Int) ⟨kn :: rest, bpc, tl, gv, sts⟩
    rw [natStr_one] at this
    exact this
  have h2 : execI ctx (.op1 0x05) ((a + 2 : Nat) : Int) ⟨.leaf .const (.s (S "1")) (a : Int) :: kn :: rest, bpc, tl, gv, sts⟩ =
      .ok ⟨.binary (S "add") ((a + 2 : Nat) : Int) kn (.leaf .const (.s (S "1")) (a : Int)) :: rest, bpc, tl, gv, sts⟩ :=
    exec_bin ctx .add _ _ kn (.leaf .const (.s (S "1")) (a : Int)) rest rfl
  rw [runIs_cons_ok' h1]
  show runIs ctx (a + 2) _ _ = _
  rw [runIs_single, h2]

/-- the epilogue: the three protocol values are dropped -/
theorem run_in_post (ctx : Lscr.Ctx) (a : Nat) (st : PState) (x y z : Node) (rest : List Node) (hs : st.stack = x :: y :: z :: rest) :
    runIs ctx a [.op2 0x65 3] st = .ok { st with stack := rest } := by
  rw [runIs_single, exec_discard ctx 3 _ st (by rw [hs]; simp)]
  simp [hs]

theorem stmt_congr' {p p' : Int} (c : Node) (h : p = p') : Node.stmt p c = Node.stmt p' c := by rw [h]

theorem localOff_spec' (c : Spec.Ctx) (n : Spec.Name) (o : Nat) (h : c.localOff n = some o) :
    ∃ j, idxOf n c.locals 0 = some j ∧ o = 6 * j := by
  unfold Spec.Ctx.localOff at h
  cases hi : idxOf n c.locals 0 with
  | none => rw [hi] at h; cases h
  | some j => rw [hi] at h; simp only [Option.map_some, Option.some.injEq] at h; exact ⟨j, rfl, h.symm⟩

/-- `repeat with v in l … end repeat`, `v` a local variable -/
theorem struct_in (n : Spec.Name) (el : Expr) (body : List Stmt) (hfl : FragE el = true) (hbody : Structs body) :
    Struct1 (.repeatIn (.var .loc n) el body) := by
  intro c hT s0 s1 cs h
  rw [lowerStmt] at h
  simp only [M_bind_ok, M_pure_ok, Prod.mk.injEq, lowerSet] at h
  obtain ⟨cl, sA, hcl, ic, sB, hic, cnt, sB', hcnt, ig, sC, hig, gat, sC', hgat, setv, sD, hset, cbody, sE, hcbody, rfl, rfl⟩ := h
  cases ho : c.localOff n with
  | none => rw [ho] at hset; simp [Spec.fail] at hset
  | some o =>
    rw [ho] at hset
    simp only [M_bind_ok, M_pure_ok, Prod.mk.injEq] at hset
    obtain ⟨c2, s2, hop2, rfl, rfl⟩ := hset
    obtain ⟨rfl, rfl, _⟩ := op2c_ok _ _ _ _ _ hop2
    obtain ⟨rfl, rfl, _⟩ := op2c_ok _ _ _ _ _ hcnt
    obtain ⟨rfl, rfl, _⟩ := op2c_ok _ _ _ _ _ hgat
    obtain ⟨j, hj, rfl⟩ := localOff_spec' c n o ho
    obtain ⟨eic, hgetc, _, _⟩ := nameIdx_ok _ _ _ _ hic
    obtain ⟨eig, hgetg, _, _⟩ := nameIdx_ok _ _ _ _ hig
    obtain ⟨e1, hopA, hrunA⟩ := stack_lemma el hfl c s0 _ cl hcl
    obtain ⟨e3, _, hopC, hrunC⟩ := hbody c hT _ _ cbody hcbody
    have hcs : ([CStmt.loop (cl ++ [Instr.op2 0x64 0, Instr.op2 0x43 1] ++ [Instr.op2 0x57 ic] ++ [Instr.op2 0x41 1])
        [Instr.op2 0x64 0, Instr.op2 0x64 2, Instr.op1 0x0d]
        ([Instr.op2 0x64 2, Instr.op2 0x64 1, Instr.op2 0x43 2] ++ [Instr.op2 0x57 ig] ++ [Instr.op2 0x52 (6 * j)]) cbody
        [Instr.op2 0x41 1, Instr.op1 0x05] [Instr.op2 0x65 3]] : List CStmt) =
        [CStmt.loop (cl ++ [Instr.op2 0x64 0, Instr.op2 0x43 1, Instr.op2 0x57 ic, Instr.op2 0x41 1])
          [Instr.op2 0x64 0, Instr.op2 0x64 2, Instr.op1 0x0d]
          [Instr.op2 0x64 2, Instr.op2 0x64 1, Instr.op2 0x43 2, Instr.op2 0x57 ig, Instr.op2 0x52 (6 * j)] cbody
          [Instr.op2 0x41 1, Instr.op1 0x05] [Instr.op2 0x65 3]] := by simp
    rw [hcs]
    have hsp : codeSize (cl ++ [Instr.op2 0x64 0, Instr.op2 0x43 1, Instr.op2 0x57 ic, Instr.op2 0x41 1]) = codeSize cl + 8 := by
      simp [codeSize_append, codeSize, Instr.size]
    have hsc : codeSize [Instr.op2 0x64 0, Instr.op2 0x64 2, Instr.op1 0x0d] = 5 := by simp [codeSize, Instr.size]
    have hsb : codeSize [Instr.op2 0x64 2, Instr.op2 0x64 1, Instr.op2 0x43 2, Instr.op2 0x57 ig, Instr.op2 0x52 (6 * j)] = 10 := by
      simp [codeSize, Instr.size]
    have hsi : codeSize [Instr.op2 0x41 1, Instr.op1 0x05] = 3 := by simp [codeSize, Instr.size]
    refine ⟨(((e1.trans eic).trans eig).trans e3), by simp, ?_, ?_⟩
    · intro te i hi
      rw [layoutStmts_single, layoutStmt_in] at hi
      simp only [List.mem_append, List.mem_cons, List.not_mem_nil, or_false] at hi
      rcases hi with ((((((((hi | hi | hi | hi | hi) | hi | hi | hi) | hi) | hi | hi | hi | hi | hi) | hi) | hi | hi) | hi) | hi)
      · exact hopA i hi
      all_goals first | exact hopC _ i hi | (subst hi; simp [Instr.opc])
    intro sF ctx hF hrel G hG hP te a st hb hgv hpos
    have hGa : ∀ g ∈ el.vars .glob, g ∈ G := fun g hg => hG g (by simp [Stmt.vars, Expr.vars, hg])
    have hGc : ∀ g ∈ Stmt.varsList .glob body, g ∈ G := fun g hg => hG g (by simp [Stmt.vars, hg])
    have hPc : ∀ v ∈ Stmt.varsList .prop body, ctx.props.contains v = true := fun v hv => hP v (by simp [Stmt.vars, hv])
    obtain ⟨pv, hlv⟩ := hrel.locals n j hj
    have hnc : ctx.names[ic]? = some (S "count") := by rw [hrel.names]; exact ((eig.trans e3).trans hF).name hgetc
    have hng : ctx.names[ig]? = some (S "getAt") := by rw [hrel.names]; exact (e3.trans hF).name hgetg
    -- prologue
    obtain ⟨ln, gv0, hembL, hgv0, hrL⟩ := hrunA sF ctx (((eic.trans eig).trans e3).trans hF) hrel G hGa a st hb hgv
    have hpre := run_in_pre ctx a ic cl st ln gv0 hnc hrL
    -- abbreviations for the protocol nodes
    generalize hK : Node.leaf .const (.s (S "1")) ((a + codeSize cl + 6 : Nat) : Int) = kn at hpre
    generalize hC : Node.callFn (.s (S "count")) ((a + codeSize cl + 4 : Nat) : Int) (.loadList (S "<load_list>") ((a + codeSize cl + 2 : Nat) : Int) [ln]) true false false .none = cn at hpre
    -- condition
    have hcnd := run_in_cnd ctx (a + (codeSize cl + 8)) { st with gvars := gv0, stack := (kn :: cn :: ln :: st.stack) } kn cn ln st.stack rfl
    have hjz := run_jz ctx (a + (codeSize cl + 8)) _ (3 + (10 + CStmt.sizes cbody + 3) + 2) _ _ gv0 hcnd
    rw [hsc] at hjz
    -- first statement of the body
    have hbp := run_in_bp ctx (a + (codeSize cl + 8) + 5 + 3) ig j
      { st with gvars := gv0, stack := (kn :: cn :: ln :: st.stack), stmts := (st.stmts ++
          [jzStmt ((a + (codeSize cl + 8) + 5 : Nat) : Int) (.binary (S "lte") ((a + (codeSize cl + 8) + 4 : Nat) : Int) kn cn)
            (((a + (codeSize cl + 8) + 5 : Nat) : Int) + ((3 + (10 + CStmt.sizes cbody + 3) + 2 : Nat) : Int))]) }
      hb (.leaf .localVar (.s n) pv) kn cn ln st.stack hng hlv rfl
    -- body
    have hpos1 : AllS (fun p _ => p < ((a + (codeSize cl + 8) + 5 + 3 + 10 : Nat) : Int))
        ((st.stmts ++ [jzStmt ((a + (codeSize cl + 8) + 5 : Nat) : Int) (.binary (S "lte") ((a + (codeSize cl + 8) + 4 : Nat) : Int) kn cn)
            (((a + (codeSize cl + 8) + 5 : Nat) : Int) + ((3 + (10 + CStmt.sizes cbody + 3) + 2 : Nat) : Int))]) ++
          [.stmt ((a + (codeSize cl + 8) + 5 + 3 + 8 : Nat) : Int) (.binary (S "assign") ((a + (codeSize cl + 8) + 5 + 3 + 8 : Nat) : Int) (.leaf .localVar (.s n) pv)
            (.callFn (.s (S "getAt")) ((a + (codeSize cl + 8) + 5 + 3 + 6 : Nat) : Int) (.loadList (S "<load_list>") ((a + (codeSize cl + 8) + 5 + 3 + 4 : Nat) : Int) [kn, ln]) true false false .none))]) :=
      AllS.append (AllS.append (AllS.mono hpos fun _ _ hh => by push_cast; omega) (allS_jz _ _ _ (by push_cast; omega)))
        (AllS.cons (by push_cast; omega) AllS.nil)
    obtain ⟨b', hembb, hszb, gv2, hgv2, hr2⟩ := hrunC sF ctx hF hrel G hGc hPc (some (3 + 2)) (a + (codeSize cl + 8) + 5 + 3 + 10)
      { st with gvars := gv0, stack := (kn :: cn :: ln :: st.stack), stmts := ((st.stmts ++
          [jzStmt ((a + (codeSize cl + 8) + 5 : Nat) : Int) (.binary (S "lte") ((a + (codeSize cl + 8) + 4 : Nat) : Int) kn cn)
            (((a + (codeSize cl + 8) + 5 : Nat) : Int) + ((3 + (10 + CStmt.sizes cbody + 3) + 2 : Nat) : Int))]) ++
          [.stmt ((a + (codeSize cl + 8) + 5 + 3 + 8 : Nat) : Int) (.binary (S "assign") ((a + (codeSize cl + 8) + 5 + 3 + 8 : Nat) : Int) (.leaf .localVar (.s n) pv)
            (.callFn (.s (S "getAt")) ((a + (codeSize cl + 8) + 5 + 3 + 6 : Nat) : Int) (.loadList (S "<load_list>") ((a + (codeSize cl + 8) + 5 + 3 + 4 : Nat) : Int) [kn, ln]) true false false .none))]) }
      hb hgv0.1 hpos1
    have hwfb := (embSrc_wf body b' hembb).1
    have invb := emit_inv false ((a + (codeSize cl + 8) + 5 + 3 + 10 : Nat) : Int) (lower b') hwfb
    -- step
    have hinc := run_in_incr ctx (a + (codeSize cl + 8) + 5 + 3 + 10 + CStmt.sizes cbody)
      { st with gvars := gv2, stack := (kn :: cn :: ln :: st.stack), stmts := (((st.stmts ++
          [jzStmt ((a + (codeSize cl + 8) + 5 : Nat) : Int) (.binary (S "lte") ((a + (codeSize cl + 8) + 4 : Nat) : Int) kn cn)
            (((a + (codeSize cl + 8) + 5 : Nat) : Int) + ((3 + (10 + CStmt.sizes cbody + 3) + 2 : Nat) : Int))]) ++
          [.stmt ((a + (codeSize cl + 8) + 5 + 3 + 8 : Nat) : Int) (.binary (S "assign") ((a + (codeSize cl + 8) + 5 + 3 + 8 : Nat) : Int) (.leaf .localVar (.s n) pv)
            (.callFn (.s (S "getAt")) ((a + (codeSize cl + 8) + 5 + 3 + 6 : Nat) : Int) (.loadList (S "<load_list>") ((a + (codeSize cl + 8) + 5 + 3 + 4 : Nat) : Int) [kn, ln]) true false false .none))]) ++
          emit false ((a + (codeSize cl + 8) + 5 + 3 + 10 : Nat) : Int) (lower b')) }
      kn (cn :: ln :: st.stack) rfl
    -- back jump
    have hbk := run_back ctx (a + (codeSize cl + 8) + 5 + 3 + 10 + CStmt.sizes cbody + 3) (5 + 3 + (10 + CStmt.sizes cbody + 3))
      { st with gvars := gv2, stack := (.binary (S "add") ((a + (codeSize cl + 8) + 5 + 3 + 10 + CStmt.sizes cbody + 2 : Nat) : Int) kn
            (.leaf .const (.s (S "1")) ((a + (codeSize cl + 8) + 5 + 3 + 10 + CStmt.sizes cbody : Nat) : Int)) :: cn :: ln :: st.stack), stmts := (((st.stmts ++
          [jzStmt ((a + (codeSize cl + 8) + 5 : Nat) : Int) (.binary (S "lte") ((a + (codeSize cl + 8) + 4 : Nat) : Int) kn cn)
            (((a + (codeSize cl + 8) + 5 : Nat) : Int) + ((3 + (10 + CStmt.sizes cbody + 3) + 2 : Nat) : Int))]) ++
          [.stmt ((a + (codeSize cl + 8) + 5 + 3 + 8 : Nat) : Int) (.binary (S "assign") ((a + (codeSize cl + 8) + 5 + 3 + 8 : Nat) : Int) (.leaf .localVar (.s n) pv)
            (.callFn (.s (S "getAt")) ((a + (codeSize cl + 8) + 5 + 3 + 6 : Nat) : Int) (.loadList (S "<load_list>") ((a + (codeSize cl + 8) + 5 + 3 + 4 : Nat) : Int) [kn, ln]) true false false .none))]) ++
          emit false ((a + (codeSize cl + 8) + 5 + 3 + 10 : Nat) : Int) (lower b')) }
      st.stmts
      (jzStmt ((a + (codeSize cl + 8) + 5 : Nat) : Int) (.binary (S "lte") ((a + (codeSize cl + 8) + 4 : Nat) : Int) kn cn)
            (((a + (codeSize cl + 8) + 5 : Nat) : Int) + ((3 + (10 + CStmt.sizes cbody + 3) + 2 : Nat) : Int)) ::
        (.stmt ((a + (codeSize cl + 8) + 5 + 3 + 8 : Nat) : Int) (.binary (S "assign") ((a + (codeSize cl + 8) + 5 + 3 + 8 : Nat) : Int) (.leaf .localVar (.s n) pv)
            (.callFn (.s (S "getAt")) ((a + (codeSize cl + 8) + 5 + 3 + 6 : Nat) : Int) (.loadList (S "<load_list>") ((a + (codeSize cl + 8) + 5 + 3 + 4 : Nat) : Int) [kn, ln]) true false false .none)) ::
          emit false ((a + (codeSize cl + 8) + 5 + 3 + 10 : Nat) : Int) (lower b')))
      ((a + (codeSize cl + 8) : Nat) : Int) (by simp [List.append_assoc]) (by push_cast; omega)
      (AllS.mono hpos fun _ _ hh => by push_cast; omega)
      (AllS.append (allS_jz _ _ _ (by push_cast; omega)) (AllS.cons (by push_cast; omega)
        (AllS.mono invb fun _ _ hh => by have := hh.1; push_cast at *; omega)))
    -- epilogue
    have hpost := run_in_post ctx (a + (codeSize cl + 8) + 5 + 3 + 10 + CStmt.sizes cbody + 3 + 2)
      { st with gvars := gv2, stack := (.binary (S "add") ((a + (codeSize cl + 8) + 5 + 3 + 10 + CStmt.sizes cbody + 2 : Nat) : Int) kn
            (.leaf .const (.s (S "1")) ((a + (codeSize cl + 8) + 5 + 3 + 10 + CStmt.sizes cbody : Nat) : Int)) :: cn :: ln :: st.stack), stmts := (st.stmts ++ [.stmt ((a + (codeSize cl + 8) + 5 + 3 + 10 + CStmt.sizes cbody + 3 : Nat) : Int)
            (rawLoop ((a + (codeSize cl + 8) : Nat) : Int) ((a + (codeSize cl + 8) + 5 + 3 + 10 + CStmt.sizes cbody + 3 : Nat) : Int)
              (jzStmt ((a + (codeSize cl + 8) + 5 : Nat) : Int) (.binary (S "lte") ((a + (codeSize cl + 8) + 4 : Nat) : Int) kn cn)
                (((a + (codeSize cl + 8) + 5 : Nat) : Int) + ((3 + (10 + CStmt.sizes cbody + 3) + 2 : Nat) : Int)) ::
              (.stmt ((a + (codeSize cl + 8) + 5 + 3 + 8 : Nat) : Int) (.binary (S "assign") ((a + (codeSize cl + 8) + 5 + 3 + 8 : Nat) : Int) (.leaf .localVar (.s n) pv)
                (.callFn (.s (S "getAt")) ((a + (codeSize cl + 8) + 5 + 3 + 6 : Nat) : Int) (.loadList (S "<load_list>") ((a + (codeSize cl + 8) + 5 + 3 + 4 : Nat) : Int) [kn, ln]) true false false .none)) ::
              emit false ((a + (codeSize cl + 8) + 5 + 3 + 10 : Nat) : Int) (lower b'))))]) }
      _ cn ln st.stack rfl
    subst hK hC
    refine ⟨.loop (.in_ (codeSize cl + 8)
        ⟨10, 8, .binary (S "assign") ((a + (codeSize cl + 8) + 5 + 3 + 8 : Nat) : Int) (.leaf .localVar (.s n) pv)
            (.callFn (.s (S "getAt")) ((a + (codeSize cl + 8) + 5 + 3 + 6 : Nat) : Int) (.loadList (S "<load_list>") ((a + (codeSize cl + 8) + 5 + 3 + 4 : Nat) : Int)
              [.leaf .const (.s (S "1")) ((a + codeSize cl + 6 : Nat) : Int), ln]) true false false .none)⟩ 3 2) 5
        (.binary (S "lte") ((a + (codeSize cl + 8) + 4 : Nat) : Int) (.leaf .const (.s (S "1")) ((a + codeSize cl + 6 : Nat) : Int))
          (.callFn (.s (S "count")) ((a + codeSize cl + 4 : Nat) : Int) (.loadList (S "<load_list>") ((a + codeSize cl + 2 : Nat) : Int) [ln]) true false false .none)) b',
      ⟨_, _, _, _, _, _, _, _, _, _, _, _, _, _, _, rfl, by simp only; omega, rfl, EmbH.toEmb _ _ _ hembL, hembb⟩, ?_, gv2, hgv0.trans hgv2, ?_⟩
    · rw [size_in]
      simp only [CStmt.sizes, CStmt.size, hsi, hsc, hsp, hsb, hszb]
      simp [codeSize, Instr.size]
      omega
    · rw [layoutStmts_single, layoutStmt_in, hsb, hsi, hsc]
      have hc95 : codeSize ([Instr.op2 0x64 0, Instr.op2 0x64 2, Instr.op1 0x0d] ++ [Instr.op3 0x95 (3 + (10 + CStmt.sizes cbody + 3) + 2)]) = 5 + 3 := by
        simp [codeSize, Instr.size]
      have hcb2 : codeSize (layoutStmts (some (3 + 2)) cbody) = CStmt.sizes cbody := layoutStmts_size _ _
      have hc54 : codeSize [Instr.op2 0x54 (5 + 3 + (10 + CStmt.sizes cbody + 3))] = 2 := by simp [codeSize, Instr.size]
      have hcode : cl ++ [Instr.op2 0x64 0, Instr.op2 0x43 1, Instr.op2 0x57 ic, Instr.op2 0x41 1] ++ [Instr.op2 0x64 0, Instr.op2 0x64 2, Instr.op1 0x0d] ++
            [Instr.op3 0x95 (3 + (10 + CStmt.sizes cbody + 3) + 2)] ++
            [Instr.op2 0x64 2, Instr.op2 0x64 1, Instr.op2 0x43 2, Instr.op2 0x57 ig, Instr.op2 0x52 (6 * j)] ++ layoutStmts (some (3 + 2)) cbody ++
            [Instr.op2 0x41 1, Instr.op1 0x05] ++ [Instr.op2 0x54 (5 + 3 + (10 + CStmt.sizes cbody + 3))] ++ [Instr.op2 0x65 3] =
          (cl ++ [Instr.op2 0x64 0, Instr.op2 0x43 1, Instr.op2 0x57 ic, Instr.op2 0x41 1]) ++
            (([Instr.op2 0x64 0, Instr.op2 0x64 2, Instr.op1 0x0d] ++ [Instr.op3 0x95 (3 + (10 + CStmt.sizes cbody + 3) + 2)]) ++
              ([Instr.op2 0x64 2, Instr.op2 0x64 1, Instr.op2 0x43 2, Instr.op2 0x57 ig, Instr.op2 0x52 (6 * j)] ++
                (layoutStmts (some (3 + 2)) cbody ++ ([Instr.op2 0x41 1, Instr.op1 0x05] ++
                  ([Instr.op2 0x54 (5 + 3 + (10 + CStmt.sizes cbody + 3))] ++ [Instr.op2 0x65 3]))))) := by
        simp only [List.append_assoc]
      rw [hcode]
      dsimp only at hpre hjz hbp hr2 hinc hbk hpost
      rw [runIs_bind_ok hpre, hsp, runIs_bind_ok hjz, hc95, ← Nat.add_assoc, runIs_bind_ok hbp, hsb, runIs_bind_ok hr2, hcb2,
        runIs_bind_ok hinc, hsi, runIs_bind_ok hbk, hc54, hpost]
      simp only [lower1, emit, emit1, emit1_simple, emit1_loop_raw, emit_append, List.append_nil, List.nil_append, List.append_assoc, List.cons_append,
        P.sizes, P.size, Drx.LinkFlow.sizes_append, hszb, Bool.false_eq_true, if_false]
      exact stmts_congr st gv2 (cons_congr (rawLoop_congr (by push_cast; omega) (by push_cast; omega)
        (cons_congr (jzStmt_congr _ (by push_cast; omega) (by push_cast; omega))
          (cons_congr (stmt_congr' _ (by push_cast; omega)) (emit_congr _ _ (by push_cast; omega))))) rfl)


end

/-! ### all structured statements of the fragment -/

theorem structs_nil : Structs [] := by
  intro c hT s0 s1 cs h
  rw [lowerStmts] at h
  simp only [M_pure_ok, Prod.mk.injEq] at h
  obtain ⟨rfl, rfl⟩ := h
  refine ⟨Ext.refl _, rfl, by simp [layoutStmts], ?_⟩
  intro sF ctx _ _ G _ _ te a st _ hgv _
  exact ⟨[], rfl, by simp [lower, P.sizes, CStmt.sizes], st.gvars, GvNext.refl hgv, by simp [layoutStmts, runIs, lower, emit]⟩

theorem struct1_simple (s : Stmt) (hf : FragS s = true) (h1 : ∀ c t e, s ≠ .ifThen c t e) (h2 : ∀ c b, s ≠ .repeatWhile c b)
    (h3 : ∀ v a b d body, s ≠ .repeatWith v a b d body) (h4 : ∀ v l body, s ≠ .repeatIn v l body) : Struct1 s :=
  fun c hT s0 s1 cs h => struct_simple stmtPos s hf (embSrc1_simple h1 h2 h3 h4) c hT s0 s1 cs h

mutual
/-- **the structured stack lemma**, for every statement of the fragment -/
theorem struct1_all : (s : Stmt) → FragT s = true → Struct1 s
  | .ifThen c t e, h => by
    simp only [FragT, Bool.and_eq_true] at h
    exact struct_if c t e h.1.1 (structs_all t h.1.2) (structs_all e h.2)
  | .repeatWhile c b, h => by
    simp only [FragT, Bool.and_eq_true] at h
    exact struct_while c b h.1.1 (structs_all b h.2)
  | .repeatWith (.var .loc v) a b down body, h => by
    simp only [FragT, Bool.and_eq_true] at h
    exact struct_with v a b down body h.1.1.2 h.1.2 (structs_all body h.2)
  | .set lv v, h => struct1_simple _ (by simp only [FragT, Bool.and_eq_true] at h; exact h.1) (by intros; simp) (by intros; simp) (by intros; simp) (by intros; simp)
  | .call f as, h => struct1_simple _ (by simpa [FragT] using h) (by intros; simp) (by intros; simp) (by intros; simp) (by intros; simp)
  | .exit, _ => struct1_simple _ rfl (by intros; simp) (by intros; simp) (by intros; simp) (by intros; simp)
  | .put m v lv, h => struct1_simple _ (by simpa [FragT] using h) (by intros; simp) (by intros; simp) (by intros; simp) (by intros; simp)
  | .delete t, h => struct1_simple _ (by simpa [FragT] using h) (by intros; simp) (by intros; simp) (by intros; simp) (by intros; simp)
  | .hilite t, h => struct1_simple _ (by simpa [FragT] using h) (by intros; simp) (by intros; simp) (by intros; simp) (by intros; simp)
  | .mcall o m as, h => struct1_simple _ (by simpa [FragT] using h) (by intros; simp) (by intros; simp) (by intros; simp) (by intros; simp)
  | .tell .., h => by simp [FragT] at h
  | .repeatIn (.var .loc v) l body, h => by
    simp only [FragT, Bool.and_eq_true] at h
    exact struct_in v l body h.1.2 (structs_all body h.2)
  | .repeatIn (.int _) .., h => by simp [FragT] at h
  | .exitRepeat, h => by simp [FragT] at h
  | .repeatWith (.int _) .., h => by simp [FragT] at h
theorem structs_all : (ss : List Stmt) → FragTs ss = true → Structs ss
  | [], _ => structs_nil
  | s :: ss, h => by
    simp only [FragTs, Bool.and_eq_true] at h
    exact structs_cons s ss (struct1_all s h.1) (structs_all ss h.2)
end

end Drx.LinkFlow
