/-
  C03 link, byte level (part 4b): the structured stack lemma for `repeat with v = a [down] to b` with a local loop variable.
-/
import DrxProofs.LinkFlow2Struct
namespace Drx.LinkFlow
open Drx Drx.Lscr Drx.Spec Drx.Link

theorem stmt_congr {p p' : Int} (c : Node) (h : p = p') : Node.stmt p c = Node.stmt p' c := by rw [h]

theorem runIs_cons_ok {ctx : Lscr.Ctx} {a : Nat} {i : Instr} {is : List Instr} {st st1 : PState} (h : execI ctx i (a : Int) st = .ok st1) :
    runIs ctx a (i :: is) st = runIs ctx (a + i.size) is st1 := by
  simp only [runIs, h]

theorem layoutStmt_with (te : Option Nat) (pre cnd : List Instr) (cbody : List CStmt) (incr : List Instr) :
    layoutStmt te (.loop pre cnd [] cbody incr []) =
      pre ++ cnd ++ [.op3 0x95 (3 + (CStmt.sizes cbody + codeSize incr) + 2)] ++ layoutStmts (some (codeSize incr + 2)) cbody ++ incr
        ++ [.op2 0x54 (codeSize cnd + 3 + (CStmt.sizes cbody + codeSize incr))] := by
  simp [layoutStmt, codeSize]

/-- `a; set v`: the statement in front of a `repeat with` -/
theorem run_pre (ctx : Lscr.Ctx) (a j : Nat) (ca : List Instr) (st : PState) (lvn ra : Node) (gv0 : List Node) (hb : st.bpc = 6)
    (hlv : ctx.localVars[j]? = some lvn)
    (h : runIs ctx a ca st = .ok { st with stack := ra :: st.stack, gvars := gv0 }) :
    runIs ctx a (ca ++ [.op2 0x52 (6 * j)]) st =
      .ok { st with gvars := gv0, stmts := st.stmts ++ [.stmt ((a + codeSize ca : Nat) : Int)
        (.binary (S "assign") ((a + codeSize ca : Nat) : Int) lvn ra)] } := by
  rw [runIs_bind_ok h, runIs_single, exec_setloc ctx j lvn hlv _ { st with stack := ra :: st.stack, gvars := gv0 } hb ra st.stack rfl]

/-- `v; b; <=` : the loop condition -/
theorem run_cnd (ctx : Lscr.Ctx) (a j : Nat) (cb : List Instr) (o : BinOp) (st : PState) (lvn rb : Node) (gv0 : List Node) (hb : st.bpc = 6)
    (hlv : ctx.localVars[j]? = some lvn)
    (h : runIs ctx (a + 2) cb { st with stack := lvn :: st.stack } = .ok { st with stack := rb :: lvn :: st.stack, gvars := gv0 }) :
    runIs ctx a (.op2 0x4c (6 * j) :: (cb ++ [.op1 o.code])) st =
      .ok { st with stack := .binary (binName o) ((a + 2 + codeSize cb : Nat) : Int) lvn rb :: st.stack, gvars := gv0 } := by
  rw [runIs_cons_ok (exec_loc ctx j lvn hlv _ st hb)]
  show runIs ctx (a + 2) _ _ = _
  rw [runIs_bind_ok h, runIs_single, exec_bin ctx o _ _ lvn rb st.stack rfl]

theorem stepStr_natStr : natStr 1 = stepStr false := by decide

/-- `±1; v; +; set v`: the step at the end of the body -/
theorem run_incr (ctx : Lscr.Ctx) (a j : Nat) (down : Bool) (st : PState) (lvn : Node) (hb : st.bpc = 6)
    (hlv : ctx.localVars[j]? = some lvn) :
    runIs ctx a [if down then Instr.op2 0x41 0xff else .op2 0x41 0x01, .op2 0x4c (6 * j), .op1 0x05, .op2 0x52 (6 * j)] st =
      .ok { st with stmts := st.stmts ++ [.stmt ((a + 5 : Nat) : Int) (.binary (S "assign") ((a + 5 : Nat) : Int) lvn
        (.binary (S "add") ((a + 4 : Nat) : Int) (.leaf .const (.s (stepStr down)) (a : Int)) lvn))] } := by
  obtain ⟨stk, bpc, tl, gv, sts⟩ := st
  simp only at hb
  subst hb
  have h1 : execI ctx (if down then Instr.op2 0x41 0xff else .op2 0x41 0x01) (a : Int) ⟨stk, 6, tl, gv, sts⟩ =
      .ok ⟨.leaf .const (.s (stepStr down)) (a : Int) :: stk, 6, tl, gv, sts⟩ := by
    cases down
    · simp only [Bool.false_eq_true, if_false]; rw [exec_int1 ctx 1 (by omega), stepStr_natStr]
    · simp only [if_true]; rw [exec_int1_ff]; rfl
  have hs1 : (if down then Instr.op2 0x41 0xff else Instr.op2 0x41 0x01).size = 2 := by cases down <;> rfl
  have h2 : execI ctx (.op2 0x4c (6 * j)) ((a + 2 : Nat) : Int) ⟨.leaf .const (.s (stepStr down)) (a : Int) :: stk, 6, tl, gv, sts⟩ =
      .ok ⟨lvn :: .leaf .const (.s (stepStr down)) (a : Int) :: stk, 6, tl, gv, sts⟩ := exec_loc ctx j lvn hlv _ _ rfl
  have h3 : execI ctx (.op1 0x05) ((a + 2 + 2 : Nat) : Int) ⟨lvn :: .leaf .const (.s (stepStr down)) (a : Int) :: stk, 6, tl, gv, sts⟩ =
      .ok ⟨.binary (S "add") ((a + 2 + 2 : Nat) : Int) (.leaf .const (.s (stepStr down)) (a : Int)) lvn :: stk, 6, tl, gv, sts⟩ :=
    exec_bin ctx .add _ _ (.leaf .const (.s (stepStr down)) (a : Int)) lvn stk rfl
  have h4 : execI ctx (.op2 0x52 (6 * j)) ((a + 2 + 2 + 1 : Nat) : Int)
      ⟨.binary (S "add") ((a + 2 + 2 : Nat) : Int) (.leaf .const (.s (stepStr down)) (a : Int)) lvn :: stk, 6, tl, gv, sts⟩ =
      .ok ⟨stk, 6, tl, gv, sts ++ [.stmt ((a + 2 + 2 + 1 : Nat) : Int) (.binary (S "assign") ((a + 2 + 2 + 1 : Nat) : Int) lvn
        (.binary (S "add") ((a + 2 + 2 : Nat) : Int) (.leaf .const (.s (stepStr down)) (a : Int)) lvn))]⟩ :=
    exec_setloc ctx j lvn hlv _ _ rfl _ stk rfl
  rw [runIs_cons_ok h1, hs1, runIs_cons_ok h2]
  show runIs ctx (a + 2 + 2) _ _ = _
  rw [runIs_cons_ok h3]
  show runIs ctx (a + 2 + 2 + 1) _ _ = _
  rw [runIs_single, h4]

theorem localOff_spec (c : Spec.Ctx) (n : Spec.Name) (o : Nat) (h : c.localOff n = some o) :
    ∃ j, idxOf n c.locals 0 = some j ∧ o = 6 * j := by
  unfold Spec.Ctx.localOff at h
  cases hi : idxOf n c.locals 0 with
  | none => rw [hi] at h; cases h
  | some j => rw [hi] at h; simp only [Option.map_some, Option.some.injEq] at h; exact ⟨j, rfl, h.symm⟩

/-- `repeat with v = a [down] to b … end repeat`, `v` a local variable -/
theorem struct_with (n : Spec.Name) (ea eb : Expr) (down : Bool) (body : List Stmt) (hfa : FragE ea = true) (hfb : FragE eb = true)
    (hbody : Structs body) : Struct1 (.repeatWith (.var .loc n) ea eb down body) := by
  intro c hT s0 s1 cs h
  rw [lowerStmt] at h
  simp only [M_bind_ok, M_pure_ok, Prod.mk.injEq, lowerSet, lowerGet] at h
  obtain ⟨ca, sA, hca, setv, sB, hset, getv, sC, hget, cb, sD, hcb, cbody, sE, hcbody, rfl, rfl⟩ := h
  rw [lowerExpr] at hget
  cases ho : c.localOff n with
  | none => rw [ho] at hset; simp [Spec.fail] at hset
  | some o =>
    rw [ho] at hset hget
    simp only [M_bind_ok, M_pure_ok, Prod.mk.injEq] at hset
    obtain ⟨c2, s2, hop2, rfl, rfl⟩ := hset
    obtain ⟨rfl, rfl, _⟩ := op2c_ok _ _ _ _ _ hop2
    obtain ⟨rfl, rfl, _⟩ := op2c_ok _ _ _ _ _ hget
    obtain ⟨j, hj, rfl⟩ := localOff_spec c n o ho
    obtain ⟨e1, hopA, hrunA⟩ := stack_lemma ea hfa c s0 _ ca hca
    obtain ⟨e2, hopB, hrunB⟩ := stack_lemma eb hfb c _ _ cb hcb
    obtain ⟨e3, _, hopC, hrunC⟩ := hbody c hT _ _ cbody hcbody
    -- the skeleton's pieces
    have hcs : ([CStmt.loop (ca ++ [Instr.op2 0x52 (6 * j)]) ([Instr.op2 0x4c (6 * j)] ++ cb ++ [Instr.op1 (if down = true then 0x11 else 0x0d)]) [] cbody
        ([if down = true then Instr.op2 0x41 0xff else Instr.op2 0x41 0x01] ++ [Instr.op2 0x4c (6 * j)] ++ [Instr.op1 0x05] ++ [Instr.op2 0x52 (6 * j)]) []] : List CStmt) =
        [CStmt.loop (ca ++ [Instr.op2 0x52 (6 * j)]) (Instr.op2 0x4c (6 * j) :: (cb ++ [Instr.op1 (if down then BinOp.ge else BinOp.le).code])) [] cbody
          [if down then Instr.op2 0x41 0xff else Instr.op2 0x41 0x01, Instr.op2 0x4c (6 * j), Instr.op1 0x05, Instr.op2 0x52 (6 * j)] []] := by
      cases down <;> simp [BinOp.code]
    rw [hcs]
    have hsi : codeSize [if down then Instr.op2 0x41 0xff else Instr.op2 0x41 0x01, Instr.op2 0x4c (6 * j), Instr.op1 0x05, Instr.op2 0x52 (6 * j)] = 7 := by
      cases down <;> simp [codeSize, Instr.size]
    have hsc : codeSize (Instr.op2 0x4c (6 * j) :: (cb ++ [Instr.op1 (if down then BinOp.ge else BinOp.le).code])) = 2 + codeSize cb + 1 := by
      simp [codeSize, codeSize_append, Instr.size]; omega
    have hsp : codeSize (ca ++ [Instr.op2 0x52 (6 * j)]) = codeSize ca + 2 := by simp [codeSize_append, codeSize, Instr.size]
    refine ⟨(e1.trans e2).trans e3, by simp, ?_, ?_⟩
    · intro te i hi
      rw [layoutStmts_single, layoutStmt_with] at hi
      simp only [List.mem_append, List.mem_cons, List.not_mem_nil, or_false] at hi
      rcases hi with (((((hi | hi) | hi | hi | hi) | hi) | hi) | hi | hi | hi | hi) | hi
      · exact hopA i hi
      · subst hi; simp [Instr.opc]
      · subst hi; simp [Instr.opc]
      · exact hopB i hi
      · subst hi; cases down <;> simp [Instr.opc, BinOp.code]
      · subst hi; simp [Instr.opc]
      · exact hopC _ i hi
      · subst hi; cases down <;> simp [Instr.opc]
      · subst hi; simp [Instr.opc]
      · subst hi; simp [Instr.opc]
      · subst hi; simp [Instr.opc]
      · subst hi; simp [Instr.opc]
    intro sF ctx hF hrel G hG hP te a st hb hgv hpos
    have hGa : ∀ g ∈ ea.vars .glob, g ∈ G := fun g hg => hG g (by simp [Stmt.vars, hg])
    have hGb : ∀ g ∈ eb.vars .glob, g ∈ G := fun g hg => hG g (by simp [Stmt.vars, hg])
    have hGc : ∀ g ∈ Stmt.varsList .glob body, g ∈ G := fun g hg => hG g (by simp [Stmt.vars, hg])
    have hPc : ∀ v ∈ Stmt.varsList .prop body, ctx.props.contains v = true := fun v hv => hP v (by simp [Stmt.vars, hv])
    obtain ⟨pv, hlv⟩ := hrel.locals n j hj
    -- pre
    obtain ⟨ra, gv0, hembA, hgv0, hrA⟩ := hrunA sF ctx ((e2.trans e3).trans hF) hrel G hGa a st hb hgv
    have hpre := run_pre ctx a j ca st _ ra gv0 hb hlv hrA
    -- condition
    obtain ⟨rb, gv1, hembB, hgv1, hrB⟩ := hrunB sF ctx (e3.trans hF) hrel G hGb (a + (codeSize ca + 2) + 2)
      { st with gvars := gv0, stmts := st.stmts ++ [.stmt ((a + codeSize ca : Nat) : Int) (.binary (S "assign") ((a + codeSize ca : Nat) : Int) (.leaf .localVar (.s n) pv) ra)],
                stack := .leaf .localVar (.s n) pv :: st.stack } hb hgv0.1
    have hcnd := run_cnd ctx (a + (codeSize ca + 2)) j cb (if down then BinOp.ge else BinOp.le)
      { st with gvars := gv0, stmts := st.stmts ++ [.stmt ((a + codeSize ca : Nat) : Int) (.binary (S "assign") ((a + codeSize ca : Nat) : Int) (.leaf .localVar (.s n) pv) ra)] }
      (.leaf .localVar (.s n) pv) rb gv1 hb hlv hrB
    have hbn : binName (if down then BinOp.ge else BinOp.le) = cmpName down := by cases down <;> rfl
    rw [hbn] at hcnd
    -- conditional jump
    have hjz := run_jz ctx (a + (codeSize ca + 2)) _ (3 + (CStmt.sizes cbody + 7) + 2) _ _ gv1 hcnd
    rw [hsc] at hjz
    -- body
    have hpos1 : AllS (fun p _ => p < ((a + (codeSize ca + 2) + (2 + codeSize cb + 1) + 3 : Nat) : Int))
        ((st.stmts ++ [.stmt ((a + codeSize ca : Nat) : Int) (.binary (S "assign") ((a + codeSize ca : Nat) : Int) (.leaf .localVar (.s n) pv) ra)]) ++
          [jzStmt ((a + (codeSize ca + 2) + (2 + codeSize cb + 1) : Nat) : Int)
            (.binary (cmpName down) ((a + (codeSize ca + 2) + 2 + codeSize cb : Nat) : Int) (.leaf .localVar (.s n) pv) rb)
            (((a + (codeSize ca + 2) + (2 + codeSize cb + 1) : Nat) : Int) + ((3 + (CStmt.sizes cbody + 7) + 2 : Nat) : Int))]) :=
      AllS.append (AllS.append (AllS.mono hpos fun _ _ hh => by push_cast; omega) (AllS.cons (by push_cast; omega) AllS.nil))
        (allS_jz _ _ _ (by push_cast; omega))
    obtain ⟨b', hembb, hszb, gv2, hgv2, hr2⟩ := hrunC sF ctx hF hrel G hGc hPc (some (7 + 2)) (a + (codeSize ca + 2) + (2 + codeSize cb + 1) + 3)
      { st with gvars := gv1, stmts := ((st.stmts ++ [.stmt ((a + codeSize ca : Nat) : Int) (.binary (S "assign") ((a + codeSize ca : Nat) : Int) (.leaf .localVar (.s n) pv) ra)]) ++
          [jzStmt ((a + (codeSize ca + 2) + (2 + codeSize cb + 1) : Nat) : Int)
            (.binary (cmpName down) ((a + (codeSize ca + 2) + 2 + codeSize cb : Nat) : Int) (.leaf .localVar (.s n) pv) rb)
            (((a + (codeSize ca + 2) + (2 + codeSize cb + 1) : Nat) : Int) + ((3 + (CStmt.sizes cbody + 7) + 2 : Nat) : Int))]) }
      hb hgv1.1 hpos1
    have hwfb := (embSrc_wf body b' hembb).1
    have invb := emit_inv false ((a + (codeSize ca + 2) + (2 + codeSize cb + 1) + 3 : Nat) : Int) (lower b') hwfb
    -- step
    have hinc := run_incr ctx (a + (codeSize ca + 2) + (2 + codeSize cb + 1) + 3 + CStmt.sizes cbody) j down
      { st with gvars := gv2, stmts := (((st.stmts ++ [.stmt ((a + codeSize ca : Nat) : Int) (.binary (S "assign") ((a + codeSize ca : Nat) : Int) (.leaf .localVar (.s n) pv) ra)]) ++
          [jzStmt ((a + (codeSize ca + 2) + (2 + codeSize cb + 1) : Nat) : Int)
            (.binary (cmpName down) ((a + (codeSize ca + 2) + 2 + codeSize cb : Nat) : Int) (.leaf .localVar (.s n) pv) rb)
            (((a + (codeSize ca + 2) + (2 + codeSize cb + 1) : Nat) : Int) + ((3 + (CStmt.sizes cbody + 7) + 2 : Nat) : Int))]) ++
          emit false ((a + (codeSize ca + 2) + (2 + codeSize cb + 1) + 3 : Nat) : Int) (lower b')) }
      (.leaf .localVar (.s n) pv) hb hlv
    -- back jump
    have hbk := run_back ctx (a + (codeSize ca + 2) + (2 + codeSize cb + 1) + 3 + CStmt.sizes cbody + 7) ((2 + codeSize cb + 1) + 3 + (CStmt.sizes cbody + 7))
      { st with gvars := gv2, stmts := ((((st.stmts ++ [.stmt ((a + codeSize ca : Nat) : Int) (.binary (S "assign") ((a + codeSize ca : Nat) : Int) (.leaf .localVar (.s n) pv) ra)]) ++
          [jzStmt ((a + (codeSize ca + 2) + (2 + codeSize cb + 1) : Nat) : Int)
            (.binary (cmpName down) ((a + (codeSize ca + 2) + 2 + codeSize cb : Nat) : Int) (.leaf .localVar (.s n) pv) rb)
            (((a + (codeSize ca + 2) + (2 + codeSize cb + 1) : Nat) : Int) + ((3 + (CStmt.sizes cbody + 7) + 2 : Nat) : Int))]) ++
          emit false ((a + (codeSize ca + 2) + (2 + codeSize cb + 1) + 3 : Nat) : Int) (lower b')) ++
          [.stmt ((a + (codeSize ca + 2) + (2 + codeSize cb + 1) + 3 + CStmt.sizes cbody + 5 : Nat) : Int)
            (.binary (S "assign") ((a + (codeSize ca + 2) + (2 + codeSize cb + 1) + 3 + CStmt.sizes cbody + 5 : Nat) : Int) (.leaf .localVar (.s n) pv)
              (.binary (S "add") ((a + (codeSize ca + 2) + (2 + codeSize cb + 1) + 3 + CStmt.sizes cbody + 4 : Nat) : Int)
                (.leaf .const (.s (stepStr down)) ((a + (codeSize ca + 2) + (2 + codeSize cb + 1) + 3 + CStmt.sizes cbody : Nat) : Int)) (.leaf .localVar (.s n) pv)))]) }
      (st.stmts ++ [.stmt ((a + codeSize ca : Nat) : Int) (.binary (S "assign") ((a + codeSize ca : Nat) : Int) (.leaf .localVar (.s n) pv) ra)])
      (jzStmt ((a + (codeSize ca + 2) + (2 + codeSize cb + 1) : Nat) : Int)
            (.binary (cmpName down) ((a + (codeSize ca + 2) + 2 + codeSize cb : Nat) : Int) (.leaf .localVar (.s n) pv) rb)
            (((a + (codeSize ca + 2) + (2 + codeSize cb + 1) : Nat) : Int) + ((3 + (CStmt.sizes cbody + 7) + 2 : Nat) : Int)) ::
          (emit false ((a + (codeSize ca + 2) + (2 + codeSize cb + 1) + 3 : Nat) : Int) (lower b') ++
          [.stmt ((a + (codeSize ca + 2) + (2 + codeSize cb + 1) + 3 + CStmt.sizes cbody + 5 : Nat) : Int)
            (.binary (S "assign") ((a + (codeSize ca + 2) + (2 + codeSize cb + 1) + 3 + CStmt.sizes cbody + 5 : Nat) : Int) (.leaf .localVar (.s n) pv)
              (.binary (S "add") ((a + (codeSize ca + 2) + (2 + codeSize cb + 1) + 3 + CStmt.sizes cbody + 4 : Nat) : Int)
                (.leaf .const (.s (stepStr down)) ((a + (codeSize ca + 2) + (2 + codeSize cb + 1) + 3 + CStmt.sizes cbody : Nat) : Int)) (.leaf .localVar (.s n) pv)))]))
      ((a + (codeSize ca + 2) : Nat) : Int) (by simp [List.append_assoc]) (by push_cast; omega)
      (AllS.append (AllS.mono hpos fun _ _ hh => by push_cast; omega) (AllS.cons (by push_cast; omega) AllS.nil))
      (AllS.append (allS_jz _ _ _ (by push_cast; omega)) (AllS.append (AllS.mono invb fun _ _ hh => by have := hh.1; push_cast at *; omega)
        (AllS.cons (by push_cast; omega) AllS.nil)))
    refine ⟨.loop (.with_ ⟨codeSize ca + 2, codeSize ca, .binary (S "assign") ((a + codeSize ca : Nat) : Int) (.leaf .localVar (.s n) pv) ra⟩
        ⟨7, 5, .binary (S "assign") ((a + (codeSize ca + 2) + (2 + codeSize cb + 1) + 3 + CStmt.sizes cbody + 5 : Nat) : Int) (.leaf .localVar (.s n) pv)
              (.binary (S "add") ((a + (codeSize ca + 2) + (2 + codeSize cb + 1) + 3 + CStmt.sizes cbody + 4 : Nat) : Int)
                (.leaf .const (.s (stepStr down)) ((a + (codeSize ca + 2) + (2 + codeSize cb + 1) + 3 + CStmt.sizes cbody : Nat) : Int)) (.leaf .localVar (.s n) pv))⟩)
        (2 + codeSize cb + 1) (.binary (cmpName down) ((a + (codeSize ca + 2) + 2 + codeSize cb : Nat) : Int) (.leaf .localVar (.s n) pv) rb) b',
      ⟨_, _, _, _, _, _, _, _, _, _, _, _, _, _, _, rfl, by simp only; omega, by simp only; omega, rfl, rfl,
        EmbH.toEmb _ _ _ hembA, EmbH.toEmb _ _ _ hembB, hembb⟩, ?_, gv2, (hgv0.trans hgv1).trans hgv2, ?_⟩
    · rw [size_with]
      simp only [CStmt.sizes, CStmt.size, hsi, hsc, hsp, hszb, codeSize_nil]
      omega
    · rw [layoutStmts_single, layoutStmt_with, hsi, hsc]
      rw [List.append_assoc _ _ [Instr.op2 0x54 _], List.append_assoc _ (layoutStmts _ cbody) _, List.append_assoc _ [Instr.op3 0x95 _] _,
        List.append_assoc (ca ++ [Instr.op2 0x52 (6 * j)])]
      have hc95 : codeSize (Instr.op2 0x4c (6 * j) :: (cb ++ [Instr.op1 (if down then BinOp.ge else BinOp.le).code]) ++
            [Instr.op3 0x95 (3 + (CStmt.sizes cbody + 7) + 2)]) = (2 + codeSize cb + 1) + 3 := by
        rw [codeSize_append, hsc]; simp [codeSize, Instr.size]
      have hcb2 : codeSize (layoutStmts (some (7 + 2)) cbody) = CStmt.sizes cbody := layoutStmts_size _ _
      dsimp only at hpre hjz hr2 hinc hbk
      rw [runIs_bind_ok hpre, hsp, ← List.append_assoc _ [Instr.op3 0x95 _], runIs_bind_ok hjz, hc95, ← Nat.add_assoc,
        runIs_bind_ok hr2, hcb2, runIs_bind_ok hinc, hsi, hbk]
      simp only [lower1, emit, emit1_simple, emit1_loop_raw, emit_append, List.append_nil, List.append_assoc, List.cons_append,
        List.nil_append, P.sizes, P.size, Drx.LinkFlow.sizes_append, hszb]
      exact stmts_congr st gv2 (cons_congr (stmt_congr _ (by push_cast; omega)) (cons_congr (rawLoop_congr (by push_cast; omega)
        (by push_cast; omega) (cons_congr (jzStmt_congr _ (by push_cast; omega) (by push_cast; omega))
          (append_congr (emit_congr _ _ (by push_cast; omega)) (cons_congr (stmt_congr _ (by push_cast; omega)) rfl)))) rfl))

/-! ### all structured statements of the fragment -/

theorem structs_nil : Structs [] := by
  intro c hT s0 s1 cs h
  rw [lowerStmts] at h
  simp only [M_pure_ok, Prod.mk.injEq] at h
  obtain ⟨rfl, rfl⟩ := h
  refine ⟨Ext.refl _, rfl, by simp [layoutStmts], ?_⟩
  intro sF ctx _ _ G _ _ te a st _ hgv _
  exact ⟨[], rfl, by simp [lower, P.sizes, CStmt.sizes], st.gvars, GvNext.refl hgv, by simp [layoutStmts, runIs, lower, emit]⟩

theorem struct1_simple (s : Stmt) (hf : FragS s = true) (h1 : ∀ c t e, s ≠ .ifThen c t e) (h2 : ∀ c b, s ≠ .repeatWhile c b)
    (h3 : ∀ v a b d body, s ≠ .repeatWith v a b d body) : Struct1 s :=
  fun c hT s0 s1 cs h => struct_simple stmtPos s hf (embSrc1_simple h1 h2 h3) c hT s0 s1 cs h

mutual
/-- **the structured stack lemma**, for every statement of the fragment -/
theorem struct1_all : (s : Stmt) → FragT s = true → Struct1 s
  | .ifThen c t e, h => by
    simp only [FragT, Bool.and_eq_true] at h
    exact struct_if c t e h.1.1 (structs_all t h.1.2) (structs_all e h.2)
  | .repeatWhile c b, h => by
    simp only [FragT, Bool.and_eq_true] at h
    exact struct_while c b h.1.1 (structs_all b h.2)
  | .repeatWith (.var .loc v) a b down body, h => by
    simp only [FragT, Bool.and_eq_true] at h
    exact struct_with v a b down body h.1.1.2 h.1.2 (structs_all body h.2)
  | .set lv v, h => struct1_simple _ (by simp only [FragT, Bool.and_eq_true] at h; exact h.1) (by intros; simp) (by intros; simp) (by intros; simp)
  | .call f as, h => struct1_simple _ (by simpa [FragT] using h) (by intros; simp) (by intros; simp) (by intros; simp)
  | .exit, _ => struct1_simple _ rfl (by intros; simp) (by intros; simp) (by intros; simp)
  | .put m v lv, h => struct1_simple _ (by simpa [FragT] using h) (by intros; simp) (by intros; simp) (by intros; simp)
  | .delete t, h => struct1_simple _ (by simpa [FragT] using h) (by intros; simp) (by intros; simp) (by intros; simp)
  | .hilite t, h => struct1_simple _ (by simpa [FragT] using h) (by intros; simp) (by intros; simp) (by intros; simp)
  | .mcall o m as, h => struct1_simple _ (by simpa [FragT] using h) (by intros; simp) (by intros; simp) (by intros; simp)
  | .tell .., h => by simp [FragT] at h
  | .repeatIn .., h => by simp [FragT] at h
  | .exitRepeat, h => by simp [FragT] at h
  | .repeatWith (.int _) .., h => by simp [FragT] at h
theorem structs_all : (ss : List Stmt) → FragTs ss = true → Structs ss
  | [], _ => structs_nil
  | s :: ss, h => by
    simp only [FragTs, Bool.and_eq_true] at h
    exact structs_cons s ss (struct1_all s h.1) (structs_all ss h.2)
end

end Drx.LinkFlow
