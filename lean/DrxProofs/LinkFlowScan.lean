/-
  C03 link, layer F2a: the scanning pass of `condition_detect_in_statements` over the raw statement list of a well-formed
  skeleton collects exactly the jz operations of the ifs of that list level, in order (`jzsOf`), whatever is nested inside them.
-/
import DrxProofs.LinkFlowGen
namespace Drx.LinkFlow
open Drx Drx.Lscr

/-- every jump address up to `x` stays inside the enclosing loop (if there is one) -/
def RB (r : Option Int) (x : Int) : Prop := ∀ e, r = some e → x ≤ e

theorem RB.mono {r : Option Int} {x y : Int} (h : RB r x) (hy : y ≤ x) : RB r y := fun e he => by have := h e he; omega

theorem addrSel (r : Option Int) (addr : Int) (h : RB r addr) : selAddr r addr = some addr := by
  cases r with
  | none => rfl
  | some e => have := h e rfl; have n : ¬ e < addr := by omega
              simp [selAddr, n]

theorem Neutral.reset {s : ScanSt} {o : Int} (h : Neutral s o) : Neutral (resetSt s) o :=
  ⟨resetSt_address_le h.1, by rw [resetSt_idem]; exact h.2⟩

theorem jzsOf_cons_simple (o : Int) (s : Smp) (ps : List P) : jzsOf o (.simple s :: ps) = jzsOf (o + (P.simple s).size) ps := by
  simp [jzsOf]
theorem jzsOf_cons_skip (o : Int) (n : Nat) (ps : List P) : jzsOf o (.skip n :: ps) = jzsOf (o + (P.skip n).size) ps := by
  simp [jzsOf]
theorem jzsOf_cons_loop (o : Int) (csz : Nat) (cond : Node) (b : List P) (ps : List P) :
    jzsOf o (.loop csz cond b :: ps) = jzsOf (o + (P.loop csz cond b).size) ps := by
  simp [jzsOf]
theorem jzsOf_cons_loopX (o : Int) (csz : Nat) (cond : Node) (b1 : List P) (csz2 : Nat) (cond2 : Node) (t b2 : List P) (ps : List P) :
    jzsOf o (.loopX csz cond b1 csz2 cond2 t b2 :: ps) = jzsOf (o + (P.loopX csz cond b1 csz2 cond2 t b2).size) ps := by
  simp [jzsOf]
theorem jzsOf_cons_if (o : Int) (csz : Nat) (cond : Node) (t e : List P) (ps : List P) :
    jzsOf o (.ifThen csz cond t e :: ps) =
      .jz (o + csz) cond (o + csz + 3 + P.sizes t + (if e.isEmpty then 0 else 3)) :: jzsOf (o + (P.ifThen csz cond t e).size) ps := by
  simp [jzsOf]

theorem foldlM_append_ok {s s1 : ScanSt} {r : Option Int} {l1 l2 : List Node} (h : l1.foldlM (scanStep r) s = .ok s1) :
    (l1 ++ l2).foldlM (scanStep r) s = l2.foldlM (scanStep r) s1 := by
  rw [List.foldlM_append, h]; rfl

theorem foldlM_append_cons_ok {s s1 : ScanSt} {r : Option Int} {l1 l2 : List Node} {x : Node}
    (h : (l1 ++ [x]).foldlM (scanStep r) s = .ok s1) : (l1 ++ x :: l2).foldlM (scanStep r) s = l2.foldlM (scanStep r) s1 := by
  rw [List.append_cons, List.foldlM_append, h]; rfl

theorem foldlM_cons_ok {s s1 : ScanSt} {r : Option Int} {x : Node} {l2 : List Node} (h : scanStep r s x = .ok s1) :
    (x :: l2).foldlM (scanStep r) s = l2.foldlM (scanStep r) s1 := by
  rw [List.foldlM_cons, h]; rfl

/-- one plain statement (position at or after `o`, code not a jz) keeps the scan neutral and records nothing -/
theorem scan_plain_step (r : Option Int) (s : ScanSt) (o pos : Int) (code : Node) (hs : Neutral s o) (hp : o ≤ pos)
    (hc : code.cls ≠ .jz) : scanStep r s (.stmt pos code) = .ok (resetSt s) :=
  scanStep_plain r s pos code (fun a ha => by have := hs.1 a ha; omega) hs.2 hc

theorem scan_emit (r : Option Int) : ∀ (ps : List P) (o : Int) (s : ScanSt), P.wfs ps = true → RB r (o + P.sizes ps) →
    Neutral s o → ∃ s', (emit true o ps).foldlM (scanStep r) s = .ok s' ∧ Neutral s' (o + P.sizes ps) ∧
      s'.jzs = s.jzs ++ jzsOf o ps := by
  intro ps
  induction ps with
  | nil => intro o s _ _ hs; exact ⟨s, rfl, by simpa [P.sizes] using hs, by simp [jzsOf]⟩
  | cons x ps ih =>
    intro o s hwf hrb hs
    obtain ⟨hx, hps⟩ := wfs_cons.1 hwf
    rw [sizes_cons] at hrb
    have hrb' : RB r (o + x.size + P.sizes ps) := hrb.mono (by omega)
    cases x with
    | simple s0 =>
      obtain ⟨h1, h2⟩ := wf_simple.1 hx
      have st := scan_plain_step r s o (o + s0.off) s0.code hs (by omega) (simpleCode_spec h2).1
      obtain ⟨s', e1, e2, e3⟩ := ih (o + (P.simple s0).size) (resetSt s) hps hrb' (hs.reset.mono (by omega))
      refine ⟨s', ?_, by rw [sizes_cons]; simpa [Int.add_assoc] using e2, by rw [e3, resetSt_jzs, jzsOf_cons_simple]⟩
      simp only [emit, emit1, List.cons_append, List.nil_append]
      rw [foldlM_cons_ok st]; exact e1
    | skip n =>
      obtain ⟨s', e1, e2, e3⟩ := ih (o + (P.skip n).size) s hps hrb' (hs.mono (by omega))
      refine ⟨s', ?_, by rw [sizes_cons]; simpa [Int.add_assoc] using e2, by rw [e3, jzsOf_cons_skip]⟩
      simp only [emit, emit1, List.nil_append]; exact e1
    | loop csz cond b =>
      have st := scan_plain_step r s o (o + csz + 3 + P.sizes b) (rawLoop o (o + csz + 3 + P.sizes b)
        (exitIf (o + csz) cond :: tgtC (o + csz + 3) b)) hs (by omega) (by simp [rawLoop, Node.cls])
      obtain ⟨s', e1, e2, e3⟩ := ih (o + (P.loop csz cond b).size) (resetSt s) hps hrb' (hs.reset.mono (by omega))
      refine ⟨s', ?_, by rw [sizes_cons]; simpa [Int.add_assoc] using e2, by rw [e3, resetSt_jzs, jzsOf_cons_loop]⟩
      simp only [emit, emit1, List.cons_append, List.nil_append, if_true]
      rw [foldlM_cons_ok st]; exact e1
    | loopX csz cond b1 csz2 cond2 t b2 =>
      have hsz := size_loopX csz cond b1 csz2 cond2 t b2
      have st := scan_plain_step r s o (o + csz + 3 + (P.sizes b1 + (csz2 + 3 + P.sizes t + 3) + P.sizes b2))
        (rawLoop o (o + csz + 3 + (P.sizes b1 + (csz2 + 3 + P.sizes t + 3) + P.sizes b2))
          (exitIf (o + csz) cond :: (tgtC (o + csz + 3) b1 ++
            .stmt (o + csz + 3 + P.sizes b1 + csz2) (.ifThen (o + csz + 3 + P.sizes b1 + csz2) cond2
              (tgtC (o + csz + 3 + P.sizes b1 + csz2 + 3) t ++ [exitRepeatStmt (o + csz + 3 + P.sizes b1 + csz2 + 3 + P.sizes t)]) []) ::
            tgtC (o + csz + 3 + P.sizes b1 + csz2 + 3 + P.sizes t + 3) b2))) hs (by omega) (by simp [rawLoop, Node.cls])
      obtain ⟨s', e1, e2, e3⟩ := ih (o + (P.loopX csz cond b1 csz2 cond2 t b2).size) (resetSt s) hps hrb' (hs.reset.mono (by omega))
      refine ⟨s', ?_, by rw [sizes_cons]; simpa [Int.add_assoc] using e2, by rw [e3, resetSt_jzs, jzsOf_cons_loopX]⟩
      simp only [emit, emit1, List.cons_append, List.nil_append, if_true]
      rw [foldlM_cons_ok st]; exact e1
    | ifThen csz cond t e =>
      obtain ⟨ht, he, hne⟩ := wf_if.1 hx
      have it := emit_inv true (o + csz + 3) t ht
      have ie := emit_inv true (o + csz + 3 + P.sizes t + 3) e he
      have hsz := size_if csz cond t e
      by_cases hemp : e = []
      · -- if without else
        subst hemp
        simp only [List.isEmpty_nil, if_true] at hsz
        have hrbA : RB r (o + csz + 3 + P.sizes t) := hrb.mono (by omega)
        have st := scanStep_jz r s (o + csz) (o + csz) cond (o + csz + 3 + P.sizes t)
          (fun a ha => by have := hs.1 a ha; omega) hs.2
        rw [addrSel r _ hrbA] at st
        have sk := scan_skip r (o + csz + 3 + P.sizes t) (emit true (o + csz + 3) t)
          (it.mono fun p c hh => hh.2.1) _ (rfl : (ScanSt.mk (some (o + csz + 3 + P.sizes t)) (resetSt s).prev false
            (s.jzs ++ [.jz (o + csz) cond (o + csz + 3 + P.sizes t)])).address = _)
        have hN : Neutral (ScanSt.mk (some (o + csz + 3 + P.sizes t)) (lastOr (emit true (o + csz + 3) t) (resetSt s).prev) false
            (s.jzs ++ [.jz (o + csz) cond (o + csz + 3 + P.sizes t)])) (o + (P.ifThen csz cond t []).size) := by
          constructor
          · intro a ha; simp only [Option.some.injEq] at ha; subst ha; omega
          · by_cases hnt : P.nsts t = 0
            · rw [emit_nil_of_nsts true _ t hnt]
              simpa [resetSt, lastOr] using hs.2
            · obtain ⟨l', lp, lc, hl, hlc⟩ := emit_last true (o + csz + 3) t ht hnt
              rw [hl, lastOr_append_singleton]; simpa [resetSt, PrevOK] using hlc
        obtain ⟨s', e1, e2, e3⟩ := ih (o + (P.ifThen csz cond t []).size) _ hps hrb' hN
        refine ⟨s', ?_, by rw [sizes_cons]; simpa [Int.add_assoc] using e2, ?_⟩
        · simp only [emit, emit1, List.isEmpty_nil, if_true, List.cons_append]
          rw [jzStmt, foldlM_cons_ok st, foldlM_append_ok sk]; exact e1
        · rw [e3, jzsOf_cons_if]; simp
      · -- if … else
        have hne' : P.nsts e ≠ 0 := by rcases hne with h | h; exact absurd h hemp; exact h
        have hie : e.isEmpty = false := by cases e <;> simp_all
        simp only [hie] at hsz
        have hrbA : RB r (o + csz + 3 + P.sizes t + 3) := hrb.mono (by simp at hsz; omega)
        have st := scanStep_jz r s (o + csz) (o + csz) cond (o + csz + 3 + P.sizes t + 3)
          (fun a ha => by have := hs.1 a ha; omega) hs.2
        rw [addrSel r _ hrbA] at st
        -- the then-branch and the else jump are skipped
        have hskip : AllS (fun p _ => p < o + csz + 3 + P.sizes t + 3) (emit true (o + csz + 3) t ++
            [jumpStmt (o + csz + 3 + P.sizes t) (o + csz + 3 + P.sizes t + 3 + P.sizes e)]) :=
          AllS.append (it.mono fun p c hh => by have := hh.2.1; omega) (AllS.cons (by omega) AllS.nil)
        have sk := scan_skip r (o + csz + 3 + P.sizes t + 3) _ hskip _
          (rfl : (ScanSt.mk (some (o + csz + 3 + P.sizes t + 3)) (resetSt s).prev false
            (s.jzs ++ [.jz (o + csz) cond (o + csz + 3 + P.sizes t + 3)])).address = _)
        rw [lastOr_append_singleton] at sk
        -- the head of the else part
        have hlen := emit_length true (o + csz + 3 + P.sizes t + 3) e
        obtain ⟨x, xs, hxs⟩ : ∃ x xs, emit true (o + csz + 3 + P.sizes t + 3) e = x :: xs := by
          cases hh : emit true (o + csz + 3 + P.sizes t + 3) e with
          | nil => rw [hh] at hlen; simp at hlen; omega
          | cons x xs => exact ⟨x, xs, rfl⟩
        rw [hxs] at ie
        obtain ⟨px, cx, rfl, hpx⟩ := ie.head
        have sa := scanStep_afterJump r (ScanSt.mk (some (o + csz + 3 + P.sizes t + 3))
            (some (jumpStmt (o + csz + 3 + P.sizes t) (o + csz + 3 + P.sizes t + 3 + P.sizes e))) false
            (s.jzs ++ [.jz (o + csz) cond (o + csz + 3 + P.sizes t + 3)])) px cx _ _ _
          (fun a ha => by simp only [Option.some.injEq] at ha; have := hpx.1; omega) rfl rfl
        have sk2 := scan_skip r (o + csz + 3 + P.sizes t + 3 + P.sizes e) xs
          (ie.tail.mono fun p c hh => hh.2.1) _
          (rfl : (ScanSt.mk (some (o + csz + 3 + P.sizes t + 3 + P.sizes e))
            (some (jumpStmt (o + csz + 3 + P.sizes t) (o + csz + 3 + P.sizes t + 3 + P.sizes e))) true
            (s.jzs ++ [.jz (o + csz) cond (o + csz + 3 + P.sizes t + 3)])).address = _)
        have hN : Neutral (ScanSt.mk (some (o + csz + 3 + P.sizes t + 3 + P.sizes e))
            (lastOr xs (some (jumpStmt (o + csz + 3 + P.sizes t) (o + csz + 3 + P.sizes t + 3 + P.sizes e)))) true
            (s.jzs ++ [.jz (o + csz) cond (o + csz + 3 + P.sizes t + 3)])) (o + (P.ifThen csz cond t e).size) := by
          constructor
          · intro a ha; simp only [Option.some.injEq] at ha; subst ha; simp at hsz; omega
          · simp [resetSt, PrevOK]
        obtain ⟨s', e1, e2, e3⟩ := ih (o + (P.ifThen csz cond t e).size) _ hps hrb' hN
        refine ⟨s', ?_, by rw [sizes_cons]; simpa [Int.add_assoc] using e2, ?_⟩
        · rw [emit_cons, emit1_if_else true o csz cond t e hemp, hxs]
          simp only [List.cons_append, List.append_assoc, jzStmt, jumpStmt]
          dsimp only [jumpStmt] at sk sa sk2
          rw [foldlM_cons_ok st, foldlM_append_cons_ok sk, foldlM_cons_ok sa, foldlM_append_ok sk2]; exact e1
        · rw [e3, jzsOf_cons_if]; simp [hie]
