/-
  JavaScript side of the text gap: rendering a token list of the JavaScript subset and lexing it again is the identity,
  `lexJs (renderJToks ts) = some ts`, for token lists whose tokens are individually well-formed (`safeJToks`: identifiers are
  identifiers, string literals need no escape).  Every token is followed by a space, so no two tokens can fuse (`+ +` never
  becomes `++`, `= =` never `==`).
-/
import Drx.Spec.JsRead
import DrxProofs.SpecLex
import DrxProofs.SpecJs
namespace Drx.Spec
set_option linter.unusedSimpArgs false

def JP.text : JP → List Char
  | .lp => ['('] | .rp => [')'] | .lc => ['{'] | .rc => ['}'] | .lb => ['['] | .rb => [']'] | .comma => [','] | .semi => [';']
  | .dot => ['.'] | .dots => ['.', '.', '.'] | .assign => ['='] | .eq => ['=', '='] | .ne => ['!', '='] | .lt => ['<'] | .le => ['<', '=']
  | .gt => ['>'] | .ge => ['>', '='] | .plus => ['+'] | .minus => ['-'] | .star => ['*'] | .slash => ['/'] | .pct => ['%'] | .bang => ['!']
  | .and => ['&', '&'] | .or => ['|', '|'] | .inc => ['+', '+'] | .dec => ['-', '-']

def JTok.text : JTok → List Char
  | .id s => s
  | .num d 0 => natDigits d
  | .num d (s + 1) => fltText d (s + 1)
  | .dstr s => '"' :: s ++ ['"']
  | .sstr s => '\'' :: s ++ ['\'']
  | .p x => x.text

/-- every token followed by one space -/
def renderJToks : List JTok → List Char
  | [] => []
  | t :: ts => t.text ++ ' ' :: renderJToks ts

def validJsId : Name → Bool
  | [] => false
  | c :: cs => isJsIdStart c && cs.all isJsIdChar

/-- string content that needs no escape between quotes `q` -/
def plainStr (q : Char) (s : Name) : Bool := s.all fun x => x != q && x != '\\' && x != '\n'

def safeJTok : JTok → Bool
  | .id s => validJsId s
  | .dstr s => plainStr '"' s
  | .sstr s => plainStr '\'' s
  | _ => true

def safeJToks (ts : List JTok) : Bool := ts.all safeJTok

/-! ### character classes -/

theorem jsIdStart_not_digit (c : Char) (h : isJsIdStart c = true) : c.isDigit = false := by
  simp only [isJsIdStart, Bool.or_eq_true, beq_iff_eq] at h
  rcases h with (h | h) | h
  · exact idStart_not_digit c (by simp [isIdStart, h])
  · subst h; decide
  · subst h; decide

theorem jsIdStart_ne (c l : Char) (h : isJsIdStart c = true) (hl : isJsIdStart l = false) : (c == l) = false := by
  cases hc : c == l with
  | false => rfl
  | true => have := eq_of_beq hc; subst this; rw [h] at hl; cases hl

theorem jsIdStart_idChar (c : Char) (h : isJsIdStart c = true) : isJsIdChar c = true := by
  simp only [isJsIdStart, Bool.or_eq_true] at h
  simp only [isJsIdChar, Char.isAlphanum, Bool.or_eq_true]
  rcases h with (h | h) | h
  · exact Or.inl (Or.inl (Or.inl h))
  · exact Or.inl (Or.inr h)
  · exact Or.inr h

theorem digit_not_jsIdStart (c : Char) (h : c.isDigit = true) : isJsIdStart c = false := by
  cases hs : isJsIdStart c with
  | false => rfl
  | true => rw [jsIdStart_not_digit c hs] at h; cases h

/-! ### one token at a time -/

theorem jlex_space (f : Nat) (rest : List Char) (acc : List JTok) : lexJsAux (f + 1) (' ' :: rest) acc = lexJsAux f rest acc := by
  simp [lexJsAux]

theorem jlex_id (f : Nat) (c : Char) (cs rest : List Char) (acc : List JTok) (h : validJsId (c :: cs) = true) :
    lexJsAux (f + 2) ((c :: cs) ++ ' ' :: rest) acc = lexJsAux f rest (.id (c :: cs) :: acc) := by
  simp only [validJsId, Bool.and_eq_true] at h
  obtain ⟨h1, h2⟩ := h
  have n1 := jsIdStart_ne c ' ' h1 (by decide)
  have n2 := jsIdStart_ne c '\t' h1 (by decide)
  have n3 := jsIdStart_ne c '\n' h1 (by decide)
  have n4 := jsIdStart_ne c '\r' h1 (by decide)
  have n5 := jsIdStart_ne c '"' h1 (by decide)
  have n6 := jsIdStart_ne c '\'' h1 (by decide)
  have n7 := jsIdStart_not_digit c h1
  have hall : (c :: cs).all isJsIdChar = true := by simp [jsIdStart_idChar c h1, h2]
  have hsp := spanC_append isJsIdChar (c :: cs) ' ' rest hall (by decide)
  rw [List.cons_append] at hsp ⊢
  rw [lexJsAux.eq_def]
  simp only [n1, n2, n3, n4, n5, n6, n7, h1, hsp, Bool.or_self, Bool.false_eq_true, if_false, if_true]
  exact jlex_space f rest _

theorem jsStr_step (q c : Char) (f : Nat) (rest acc : List Char) (hc : c ≠ '\\') :
    jsStr q (f + 1) (c :: rest) acc = if c == q then some (acc.reverse, rest) else if c == '\n' then none else jsStr q f rest (c :: acc) := by
  rw [jsStr.eq_def]
  split
  · rename_i heq; cases heq
  · rename_i heq; cases heq
  · rename_i heq; injection heq with h1 h2; exact absurd h1 hc
  · rename_i hf heq
    injection heq with h1 h2
    injection hf with hf
    subst h1; subst h2; subst hf; rfl

theorem jsStr_plain (q : Char) (hq : q ≠ '\\') : ∀ (s : List Char), plainStr q s = true → ∀ (rest acc : List Char) (F : Nat), s.length + 1 ≤ F →
    jsStr q F (s ++ q :: rest) acc = some (acc.reverse ++ s, rest)
  | [], _, rest, acc, F, hF => by
    obtain ⟨f, rfl⟩ : ∃ f, F = f + 1 := ⟨F - 1, by omega⟩
    simp [jsStr_step q q f rest acc hq]
  | c :: s, h, rest, acc, F, hF => by
    obtain ⟨f, rfl⟩ : ∃ f, F = f + 1 := ⟨F - 1, by omega⟩
    simp only [plainStr, List.all_cons, Bool.and_eq_true, bne_iff_ne, ne_eq] at h
    obtain ⟨⟨⟨h1, h2⟩, h3⟩, h4⟩ := h
    have ih := jsStr_plain q hq s (by simpa [plainStr] using h4) rest (c :: acc) f (by simp at hF; omega)
    rw [List.cons_append, jsStr_step q c f _ acc h2]
    have e1 : (c == q) = false := by simpa using h1
    have e2 : (c == '\n') = false := by simpa using h3
    simp [e1, e2, ih]

theorem jlex_dstr (f : Nat) (s rest : List Char) (acc : List JTok) (h : plainStr '"' s = true) :
    lexJsAux (f + 2) (('"' :: s ++ ['"']) ++ ' ' :: rest) acc = lexJsAux f rest (.dstr s :: acc) := by
  have e : ('"' :: s ++ ['"']) ++ ' ' :: rest = '"' :: (s ++ '"' :: ' ' :: rest) := by simp
  have hs := jsStr_plain '"' (by decide) s h (' ' :: rest) [] ((s ++ '"' :: ' ' :: rest).length + 1) (by simp)
  rw [e, lexJsAux.eq_def]
  simp only [hs]
  simp
  exact jlex_space f rest _

theorem jlex_sstr (f : Nat) (s rest : List Char) (acc : List JTok) (h : plainStr '\'' s = true) :
    lexJsAux (f + 2) (('\'' :: s ++ ['\'']) ++ ' ' :: rest) acc = lexJsAux f rest (.sstr s :: acc) := by
  have e : ('\'' :: s ++ ['\'']) ++ ' ' :: rest = '\'' :: (s ++ '\'' :: ' ' :: rest) := by simp
  have hs := jsStr_plain '\'' (by decide) s h (' ' :: rest) [] ((s ++ '\'' :: ' ' :: rest).length + 1) (by simp)
  rw [e, lexJsAux.eq_def]
  simp only [hs]
  simp
  exact jlex_space f rest _

theorem jlex_int (f : Nat) (n : Nat) (rest : List Char) (acc : List JTok) :
    lexJsAux (f + 2) (natDigits n ++ ' ' :: rest) acc = lexJsAux f rest (.num n 0 :: acc) := by
  have hall := natDigits_all n
  have hval := natDigits_val n
  cases hd : natDigits n with
  | nil => exact absurd hd (natDigits_ne_nil n)
  | cons c cs =>
    rw [hd] at hall hval
    have hc : c.isDigit = true := by simp only [List.all_cons, Bool.and_eq_true] at hall; exact hall.1
    have n1 := digit_ne c ' ' hc (by decide)
    have n2 := digit_ne c '\t' hc (by decide)
    have n3 := digit_ne c '\n' hc (by decide)
    have n4 := digit_ne c '\r' hc (by decide)
    have n5 := digit_ne c '"' hc (by decide)
    have n6 := digit_ne c '\'' hc (by decide)
    have hsp := spanC_append Char.isDigit (c :: cs) ' ' rest hall (by decide)
    have hsp' : isJsIdStart ' ' = false := by decide
    rw [List.cons_append] at hsp ⊢
    rw [lexJsAux.eq_def]
    simp only [n1, n2, n3, n4, n5, n6, hc, hsp, Bool.or_self, Bool.false_eq_true, if_false, if_true, hval, hsp']
    exact jlex_space f rest _

theorem jlex_flt (f : Nat) (d s : Nat) (hs : 1 ≤ s) (rest : List Char) (acc : List JTok) :
    lexJsAux (f + 2) (fltText d s ++ ' ' :: rest) acc = lexJsAux f rest (.num d s :: acc) := by
  have hlen := fltDigits_len d s
  have hall := fltDigits_all d s
  have hval := fltDigits_val d s
  generalize hD : fltDigits d s = D at hlen hall hval
  rw [fltText_eq, hD]
  have hip : (D.take (D.length - s)).all Char.isDigit = true := all_take _ _ _ hall
  have hfp : (D.drop (D.length - s)).all Char.isDigit = true := all_drop _ _ _ hall
  have hfl : (D.drop (D.length - s)).length = s := by simp; omega
  cases hI : D.take (D.length - s) with
  | nil =>
    have : (D.take (D.length - s)).length = D.length - s := by simp
    rw [hI] at this; simp at this; omega
  | cons c cs =>
    cases hF : D.drop (D.length - s) with
    | nil => rw [hF] at hfl; simp at hfl; omega
    | cons e es =>
      rw [hI] at hip; rw [hF] at hfp hfl
      have hc : c.isDigit = true := by simp only [List.all_cons, Bool.and_eq_true] at hip; exact hip.1
      have n1 := digit_ne c ' ' hc (by decide)
      have n2 := digit_ne c '\t' hc (by decide)
      have n3 := digit_ne c '\n' hc (by decide)
      have n4 := digit_ne c '\r' hc (by decide)
      have n5 := digit_ne c '"' hc (by decide)
      have n6 := digit_ne c '\'' hc (by decide)
      have hsp1 := spanC_append Char.isDigit (c :: cs) '.' (e :: es ++ ' ' :: rest) hip (by decide)
      have hsp2 := spanC_append Char.isDigit (e :: es) ' ' rest hfp (by decide)
      have hjoin : (c :: cs) ++ (e :: es) = D := by rw [← hI, ← hF]; exact List.take_append_drop _ _
      have hv : digitsVal ((c :: cs) ++ (e :: es)) = d := by rw [hjoin]; exact hval
      have hsp' : isJsIdStart ' ' = false := by decide
      have e1 : ((c :: cs) ++ '.' :: (e :: es)) ++ ' ' :: rest = c :: (cs ++ '.' :: (e :: es ++ ' ' :: rest)) := by simp
      rw [e1, lexJsAux.eq_def]
      rw [List.cons_append] at hsp1 hsp2
      simp only [n1, n2, n3, n4, n5, n6, hc, hsp1, Bool.or_self, Bool.false_eq_true, if_false, if_true]
      simp only [List.cons_append, hsp2, hfl, hsp', Bool.false_eq_true, if_false]
      rw [List.cons_append] at hv
      rw [hv]
      exact jlex_space f rest _

theorem jlex_punct (f : Nat) (x : JP) (rest : List Char) (acc : List JTok) :
    lexJsAux (f + 2) (x.text ++ ' ' :: rest) acc = lexJsAux f rest (.p x :: acc) := by
  cases x <;> simp [JP.text, lexJsAux, isJsIdStart, Char.isAlpha, Char.isUpper, Char.isLower, Char.isDigit]

/-! ### the whole token list -/

theorem lexJsAux_render : ∀ (ts : List JTok), safeJToks ts = true → ∀ (acc : List JTok) (F : Nat), 2 * ts.length + 1 ≤ F →
    lexJsAux F (renderJToks ts) acc = some (acc.reverse ++ ts)
  | [], _, acc, F, hF => by
    obtain ⟨f, rfl⟩ : ∃ f, F = f + 1 := ⟨F - 1, by omega⟩
    simp [renderJToks, lexJsAux]
  | t :: ts, h, acc, F, hF => by
    simp only [safeJToks, List.all_cons, Bool.and_eq_true] at h
    obtain ⟨ht, hts⟩ := h
    obtain ⟨f, rfl⟩ : ∃ f, F = f + 2 := ⟨F - 2, by simp at hF; omega⟩
    have ih := lexJsAux_render ts (by simpa [safeJToks] using hts) (t :: acc) f (by simp at hF; omega)
    simp only [renderJToks]
    cases t with
    | id s =>
      cases s with
      | nil => simp [safeJTok, validJsId] at ht
      | cons c cs =>
        simp only [JTok.text]
        rw [jlex_id f c cs _ _ (by simpa [safeJTok] using ht), ih]; simp
    | num d s =>
      cases s with
      | zero => simp only [JTok.text]; rw [jlex_int, ih]; simp
      | succ s' => simp only [JTok.text]; rw [jlex_flt f d (s' + 1) (by omega), ih]; simp
    | dstr s => simp only [JTok.text]; rw [jlex_dstr f s _ _ (by simpa [safeJTok] using ht), ih]; simp
    | sstr s => simp only [JTok.text]; rw [jlex_sstr f s _ _ (by simpa [safeJTok] using ht), ih]; simp
    | p x => simp only [JTok.text]; rw [jlex_punct, ih]; simp

theorem jtext_len (t : JTok) (h : safeJTok t = true) : 1 ≤ t.text.length := by
  cases t with
  | id s => cases s <;> simp_all [safeJTok, validJsId, JTok.text]
  | num d s =>
    cases s with
    | zero => simpa [JTok.text] using natDigits_len d
    | succ s' => simp [JTok.text, fltText]; omega
  | dstr s => simp [JTok.text]
  | sstr s => simp [JTok.text]
  | p x => cases x <;> simp [JTok.text, JP.text]

theorem renderJ_len : ∀ (ts : List JTok), safeJToks ts = true → 2 * ts.length ≤ (renderJToks ts).length
  | [], _ => by simp [renderJToks]
  | t :: ts, h => by
    simp only [safeJToks, List.all_cons, Bool.and_eq_true] at h
    have := renderJ_len ts (by simpa [safeJToks] using h.2)
    have := jtext_len t h.1
    simp [renderJToks]; omega

/-- **rendering then lexing is the identity** on JavaScript token lists without hazards -/
theorem lexJs_render (ts : List JTok) (h : safeJToks ts = true) : lexJs (renderJToks ts) = some ts := by
  have := lexJsAux_render ts h [] ((renderJToks ts).length + 1) (by have := renderJ_len ts h; omega)
  simpa [lexJs] using this

/-! ### the JavaScript printer's token lists are hazard-free; expressions read back from TEXT -/

theorem safeJToks_append (a b : List JTok) : safeJToks (a ++ b) = (safeJToks a && safeJToks b) := by simp [safeJToks]
theorem safeJToks_cons (t : JTok) (a : List JTok) : safeJToks (t :: a) = (safeJTok t && safeJToks a) := by simp [safeJToks]

mutual
/-- identifiers are identifiers, string literals need no escape -/
def okJ : JE → Bool
  | .num _ _ => true
  | .lstr s => plainStr '"' s
  | .dstr s => plainStr '"' s
  | .sstr s => plainStr '\'' s
  | .id n => validJsId n
  | .mem o n => okJ o && validJsId n
  | .idx o i => okJ o && okJ i
  | .call f as => okJ f && okJs as
  | .newLS e => okJ e
  | .un _ a => okJ a
  | .bin _ a b => okJ a && okJ b
  | .spread n => validJsId n
def okJs : List JE → Bool
  | [] => true
  | e :: es => okJ e && okJs es
end

theorem safeJToks_nil : safeJToks [] = true := rfl
theorem safeJTok_p (x : JP) : safeJTok (.p x) = true := rfl
theorem safeJTok_num (d s : Nat) : safeJTok (.num d s) = true := rfl
theorem safeJTok_new : safeJTok (.id "new".toList) = true := by decide
theorem safeJTok_LS : safeJTok (.id "LingoString".toList) = true := by decide

theorem ite_some_safe {c : Prop} [Decidable c] {a : JTok} {r : Option JTok} {t : JTok} (ha : safeJTok a = true)
    (hr : r = some t → safeJTok t = true) : (if c then some a else r) = some t → safeJTok t = true := by
  intro h
  split at h
  · injection h with h; subst h; exact ha
  · exact hr h

theorem jsOpTok_safe (op : Name) : safeJTok ((jsOpTok op).getD (.p .plus)) = true := by
  cases h : jsOpTok op with
  | none => rfl
  | some t =>
    have : jsOpTok op = some t → safeJTok t = true := by
      unfold jsOpTok
      exact (ite_some_safe rfl (ite_some_safe rfl (ite_some_safe rfl (ite_some_safe rfl (ite_some_safe rfl (ite_some_safe rfl (ite_some_safe rfl (ite_some_safe rfl (ite_some_safe rfl (ite_some_safe rfl (ite_some_safe rfl (ite_some_safe rfl (ite_some_safe rfl (fun h => by cases h))))))))))))))
    exact this h

theorem jsUnTok_safe (op : Name) : safeJTok ((jsUnTok op).getD (.p .bang)) = true := by
  cases h : jsUnTok op with
  | none => rfl
  | some t =>
    have : jsUnTok op = some t → safeJTok t = true := by
      unfold jsUnTok
      exact (ite_some_safe rfl (ite_some_safe rfl (fun h => by cases h)))
    exact this h

theorem wrapRecv_safe (o : JE) (ts : List JTok) (h : safeJToks ts = true) : safeJToks (wrapRecv o ts) = true := by
  unfold wrapRecv
  split
  · simp only [safeJToks_cons, safeJToks_append, h, safeJTok_p, safeJToks_nil, Bool.and_self]
  · exact h

mutual
theorem prJ_safe : ∀ (e : JE), okJ e = true → safeJToks (prJ e) = true
  | .num _ _, _ => by simp only [prJ, safeJToks_cons, safeJTok_num, safeJToks_nil, Bool.and_self]
  | .lstr s, h => by
    have : safeJTok (.dstr s) = true := by simpa [okJ, safeJTok] using h
    simp only [prJ, safeJToks_cons, safeJToks_nil, safeJTok_new, safeJTok_LS, safeJTok_p, this, Bool.and_self]
  | .dstr s, h => by
    have : safeJTok (.dstr s) = true := by simpa [okJ, safeJTok] using h
    simp only [prJ, safeJToks_cons, safeJToks_nil, this, Bool.and_self]
  | .sstr s, h => by
    have : safeJTok (.sstr s) = true := by simpa [okJ, safeJTok] using h
    simp only [prJ, safeJToks_cons, safeJToks_nil, this, Bool.and_self]
  | .id n, h => by
    have : safeJTok (.id n) = true := by simpa [okJ, safeJTok] using h
    simp only [prJ, safeJToks_cons, safeJToks_nil, this, Bool.and_self]
  | .spread n, h => by
    have : safeJTok (.id n) = true := by simpa [okJ, safeJTok] using h
    simp only [prJ, safeJToks_cons, safeJToks_nil, this, safeJTok_p, Bool.and_self]
  | .mem o n, h => by
    have hh : okJ o = true ∧ validJsId n = true := by simpa [okJ] using h
    have hw := wrapRecv_safe o _ (prJ_safe o hh.1)
    have hn : safeJTok (.id n) = true := by simpa [safeJTok] using hh.2
    simp only [prJ, safeJToks_append, safeJToks_cons, safeJToks_nil, hw, hn, safeJTok_p, Bool.and_self]
  | .idx o i, h => by
    have hh : okJ o = true ∧ okJ i = true := by simpa [okJ] using h
    have hw := wrapRecv_safe o _ (prJ_safe o hh.1)
    have hi := prJ_safe i hh.2
    simp only [prJ, safeJToks_append, safeJToks_cons, safeJToks_nil, hw, hi, safeJTok_p, Bool.and_self]
  | .call f as, h => by
    have hh : okJ f = true ∧ okJs as = true := by simpa [okJ] using h
    have hw := wrapRecv_safe f _ (prJ_safe f hh.1)
    have ha := prJArgs_safe as hh.2
    simp only [prJ, safeJToks_append, safeJToks_cons, safeJToks_nil, hw, ha, safeJTok_p, Bool.and_self]
  | .newLS e, h => by
    have he := prJ_safe e (by simpa [okJ] using h)
    simp only [prJ, safeJToks_append, safeJToks_cons, safeJToks_nil, he, safeJTok_new, safeJTok_LS, safeJTok_p, Bool.and_self]
  | .un op a, h => by
    have ha := prJ_safe a (by simpa [okJ] using h)
    simp only [prJ, safeJToks_append, safeJToks_cons, safeJToks_nil, ha, jsUnTok_safe, safeJTok_p, Bool.and_self]
  | .bin op a b, h => by
    have hh : okJ a = true ∧ okJ b = true := by simpa [okJ] using h
    have ha := prJ_safe a hh.1
    have hb := prJ_safe b hh.2
    simp only [prJ, safeJToks_append, safeJToks_cons, safeJToks_nil, ha, hb, jsOpTok_safe, safeJTok_p, Bool.and_self]
theorem prJArgs_safe : ∀ (es : List JE), okJs es = true → safeJToks (prJArgs es) = true
  | [], _ => rfl
  | [e], h => by simpa [prJArgs] using prJ_safe e (by simpa [okJs] using h)
  | e :: e2 :: es, h => by
    have hh : okJ e = true ∧ okJs (e2 :: es) = true := by simpa [okJs] using h
    have he := prJ_safe e hh.1
    have := prJArgs_safe (e2 :: es) hh.2
    simp only [prJArgs, safeJToks_append, safeJToks_cons, he, this, safeJTok_p, Bool.and_self]
end

/-- the printed JavaScript expression, as TEXT, lexes back to the printer's tokens -/
theorem lexJs_prJ (e : JE) (h : okJ e = true) : lexJs (renderJToks (prJ e)) = some (prJ e) := lexJs_render _ (prJ_safe e h)

theorem wrapRecv_len (o : JE) (ts : List JTok) : ts.length ≤ (wrapRecv o ts).length := by
  unfold wrapRecv; split <;> simp <;> omega

mutual
theorem jfuel_bound : ∀ (e : JE), jfuel e ≤ 24 * (prJ e).length
  | .num _ _ => by simp [jfuel, prJ]
  | .lstr _ => by simp [jfuel, prJ]
  | .dstr _ => by simp [jfuel, prJ]
  | .sstr _ => by simp [jfuel, prJ]
  | .id _ => by simp [jfuel, prJ]
  | .spread _ => by simp [jfuel, prJ]
  | .newLS e => by simp [jfuel, prJ]; omega
  | .mem o n => by
    have := jfuel_bound o
    have := wrapRecv_len o (prJ o)
    simp [jfuel, prJ]; omega
  | .idx o i => by
    have := jfuel_bound o
    have := jfuel_bound i
    have := wrapRecv_len o (prJ o)
    simp [jfuel, prJ]; omega
  | .call f as => by
    have := jfuel_bound f
    have := jfuelL_bound as
    have := wrapRecv_len f (prJ f)
    simp [jfuel, prJ]; omega
  | .un _ a => by
    have := jfuel_bound a
    simp [jfuel, prJ]; omega
  | .bin _ a b => by
    have := jfuel_bound a
    have := jfuel_bound b
    simp [jfuel, prJ]; omega
theorem jfuelL_bound : ∀ (es : List JE), jfuelL es ≤ 24 * (prJArgs es).length + 24
  | [] => by simp [jfuelL]
  | [e] => by have := jfuel_bound e; simp [jfuelL, prJArgs]; omega
  | e :: e2 :: es => by
    have := jfuel_bound e
    have := jfuelL_bound (e2 :: es)
    simp only [jfuelL, prJArgs, List.length_append, List.length_cons] at *; omega
end


end Drx.Spec
