/-
  C03 link, byte level (part 4): the structured stack lemma, by mutual induction on the source statements.
-/
import DrxProofs.LinkFlow2Run
namespace Drx.LinkFlow
open Drx Drx.Lscr Drx.Spec Drx.Link

/-- what the structured stack lemma says about one statement -/
def Struct1 (s : Stmt) : Prop :=
  ∀ (c : Spec.Ctx), c.inTell = false → ∀ (s0 s1 : St) (cs : List CStmt), lowerStmt c s s0 = .ok (cs, s1) →
    Ext s0 s1 ∧ cs ≠ [] ∧ (∀ te, ∀ i ∈ layoutStmts te cs, i.opc ≠ 153) ∧
    ∀ (sF : St) (ctx : Lscr.Ctx), Ext s1 sF → Rel c sF ctx → ∀ (G : List Spec.Name), (∀ g ∈ s.vars .glob, g ∈ G) →
      (∀ v ∈ s.vars .prop, ctx.props.contains v = true) →
      ∀ (te : Option Nat) (a : Nat) (st : PState), st.bpc = 6 → GvOk G st.gvars → AllS (fun p _ => p < (a : Int)) st.stmts →
        ∃ x, EmbSrc1 s x ∧ x.size = CStmt.sizes cs ∧ RunsAs G ctx (layoutStmts te cs) a st (lower1 x)

/-- … and about a statement list -/
def Structs (ss : List Stmt) : Prop :=
  ∀ (c : Spec.Ctx), c.inTell = false → ∀ (s0 s1 : St) (cs : List CStmt), lowerStmts c ss s0 = .ok (cs, s1) →
    Ext s0 s1 ∧ cs.isEmpty = ss.isEmpty ∧ (∀ te, ∀ i ∈ layoutStmts te cs, i.opc ≠ 153) ∧
    ∀ (sF : St) (ctx : Lscr.Ctx), Ext s1 sF → Rel c sF ctx → ∀ (G : List Spec.Name), (∀ g ∈ Stmt.varsList .glob ss, g ∈ G) →
      (∀ v ∈ Stmt.varsList .prop ss, ctx.props.contains v = true) →
      ∀ (te : Option Nat) (a : Nat) (st : PState), st.bpc = 6 → GvOk G st.gvars → AllS (fun p _ => p < (a : Int)) st.stmts →
        ∃ xs, EmbSrc ss xs ∧ P.sizes (lower xs) = CStmt.sizes cs ∧ RunsAs G ctx (layoutStmts te cs) a st (lower xs)

/-- lists, given the heads -/
theorem structs_cons (s : Stmt) (ss : List Stmt) (h1 : Struct1 s) (h2 : Structs ss) : Structs (s :: ss) := by
  intro c hT s0 s1 cs h
  rw [lowerStmts] at h
  simp only [M_bind_ok, M_pure_ok, Prod.mk.injEq] at h
  obtain ⟨c1, sA, hc1, c2, sB, hc2, rfl, rfl⟩ := h
  obtain ⟨e1, hne1, hop1, hrun1⟩ := h1 c hT s0 sA c1 hc1
  obtain ⟨e2, _, hop2, hrun2⟩ := h2 c hT sA _ c2 hc2
  refine ⟨e1.trans e2, ?_, ?_, ?_⟩
  · cases c1 with
    | nil => exact absurd rfl hne1
    | cons y ys => rfl
  · intro te i hi
    rw [layoutStmts_append] at hi
    rcases List.mem_append.mp hi with hi | hi
    · exact hop1 _ i hi
    · exact hop2 _ i hi
  intro sF ctx hF hrel G hG hP te a st hb hgv hpos
  have hG1 : ∀ g ∈ s.vars .glob, g ∈ G := fun g hg => hG g (by simp [Stmt.varsList, hg])
  have hG2 : ∀ g ∈ Stmt.varsList .glob ss, g ∈ G := fun g hg => hG g (by simp [Stmt.varsList, hg])
  have hP1 : ∀ v ∈ s.vars .prop, ctx.props.contains v = true := fun v hv => hP v (by simp [Stmt.varsList, hv])
  have hP2 : ∀ v ∈ Stmt.varsList .prop ss, ctx.props.contains v = true := fun v hv => hP v (by simp [Stmt.varsList, hv])
  obtain ⟨x, hx, hsz1, gv1, hgv1, hr1⟩ := hrun1 sF ctx (e2.trans hF) hrel G hG1 hP1 (te.map (· + CStmt.sizes c2)) a st hb hgv hpos
  have hwf1 := (embSrc1_wf s x hx).1
  have inv1 := emit_inv false (a : Int) (lower1 x) hwf1
  have hcs1 : codeSize (layoutStmts (te.map (· + CStmt.sizes c2)) c1) = CStmt.sizes c1 := layoutStmts_size _ _
  have hpos2 : AllS (fun p _ => p < ((a + CStmt.sizes c1 : Nat) : Int)) (st.stmts ++ emit false (a : Int) (lower1 x)) :=
    AllS.append (AllS.mono hpos fun _ _ hh => by push_cast; omega)
      (AllS.mono inv1 fun _ _ hh => by have := hh.2.1; rw [← hsz1, Src.size_eq]; push_cast; omega)
  obtain ⟨xs, hxs, hsz2, gv2, hgv2, hr2⟩ := hrun2 sF ctx hF hrel G hG2 hP2 te (a + CStmt.sizes c1)
    { st with stmts := st.stmts ++ emit false (a : Int) (lower1 x), gvars := gv1 } hb hgv1.1 hpos2
  refine ⟨x :: xs, ⟨x, xs, rfl, hx, hxs⟩, ?_, gv2, hgv1.trans hgv2, ?_⟩
  · rw [lower_cons', Drx.LinkFlow.sizes_append, Spec.sizes_append, hsz2, ← hsz1, Src.size_eq]
  · rw [layoutStmts_append, runIs_bind_ok hr1, hcs1, hr2, lower_cons', emit_append, ← Src.size_eq, hsz1]
    simp [List.append_assoc]

theorem layoutStmt_if_empty (te : Option Nat) (c : List Instr) (t e : List CStmt) (h : e.isEmpty = true) :
    layoutStmt te (.ifThen c t e) = c ++ [.op3 0x95 (3 + CStmt.sizes t)] ++ layoutStmts te t := by
  simp [layoutStmt, h]

theorem layoutStmt_if_else (te : Option Nat) (c : List Instr) (t e : List CStmt) (h : e.isEmpty = false) :
    layoutStmt te (.ifThen c t e) = c ++ [.op3 0x95 (3 + CStmt.sizes t + 3)] ++ layoutStmts (te.map (· + 3 + CStmt.sizes e)) t
      ++ [.op3 0x93 (3 + CStmt.sizes e)] ++ layoutStmts te e := by
  simp [layoutStmt, h]

/-- `if c then t [else e] end if` -/
theorem struct_if (cd : Expr) (t e : List Stmt) (hfc : FragE cd = true) (ht : Structs t) (he : Structs e) :
    Struct1 (.ifThen cd t e) := by
  intro c hT s0 s1 cs h
  rw [lowerStmt] at h
  simp only [M_bind_ok, M_pure_ok, Prod.mk.injEq] at h
  obtain ⟨cc, sA, hcc, ct, sB, hct, ce, sC, hce, rfl, rfl⟩ := h
  obtain ⟨e1, hop1, hrun1⟩ := stack_lemma cd hfc c s0 sA cc hcc
  obtain ⟨e2, _, hop2, hrun2⟩ := ht c hT sA sB ct hct
  obtain ⟨e3, hemp3, hop3, hrun3⟩ := he c hT sB _ ce hce
  refine ⟨(e1.trans e2).trans e3, by simp, ?_, ?_⟩
  · intro te i hi
    rw [layoutStmts_single] at hi
    by_cases hE : ce.isEmpty = true
    · rw [layoutStmt_if_empty _ _ _ _ hE] at hi
      simp only [List.mem_append, List.mem_singleton] at hi
      rcases hi with (hi | hi) | hi
      · exact hop1 i hi
      · subst hi; simp [Instr.opc]
      · exact hop2 _ i hi
    · have hE' : ce.isEmpty = false := by simpa using hE
      rw [layoutStmt_if_else _ _ _ _ hE'] at hi
      simp only [List.mem_append, List.mem_singleton] at hi
      rcases hi with (((hi | hi) | hi) | hi) | hi
      · exact hop1 i hi
      · subst hi; simp [Instr.opc]
      · exact hop2 _ i hi
      · subst hi; simp [Instr.opc]
      · exact hop3 _ i hi
  intro sF ctx hF hrel G hG hP te a st hb hgv hpos
  have hG0 : ∀ g ∈ cd.vars .glob, g ∈ G := fun g hg => hG g (by simp [Stmt.vars, hg])
  have hG1 : ∀ g ∈ Stmt.varsList .glob t, g ∈ G := fun g hg => hG g (by simp [Stmt.vars, hg])
  have hG2 : ∀ g ∈ Stmt.varsList .glob e, g ∈ G := fun g hg => hG g (by simp [Stmt.vars, hg])
  have hP1 : ∀ v ∈ Stmt.varsList .prop t, ctx.props.contains v = true := fun v hv => hP v (by simp [Stmt.vars, hv])
  have hP2 : ∀ v ∈ Stmt.varsList .prop e, ctx.props.contains v = true := fun v hv => hP v (by simp [Stmt.vars, hv])
  obtain ⟨n, gv0, hembH, hgv0, hr0⟩ := hrun1 sF ctx ((e2.trans e3).trans hF) hrel G hG0 a st hb hgv
  have hemb := EmbH.toEmb _ _ _ hembH
  rw [layoutStmts_single]
  generalize Option.map (fun x => x + CStmt.sizes []) te = te'
  by_cases hE : ce.isEmpty = true
  · -- no else
    have hee : e = [] := by
      have : e.isEmpty = true := by rw [← hemp3]; exact hE
      simpa using this
    subst hee
    have hjz := run_jz ctx a cc (3 + CStmt.sizes ct) st n gv0 hr0
    have hpos1 : AllS (fun p _ => p < ((a + codeSize cc + 3 : Nat) : Int))
        (st.stmts ++ [jzStmt ((a + codeSize cc : Nat) : Int) n (((a + codeSize cc : Nat) : Int) + ((3 + CStmt.sizes ct : Nat) : Int))]) :=
      AllS.append (AllS.mono hpos fun _ _ hh => by push_cast; omega) (allS_jz _ _ _ (by push_cast; omega))
    obtain ⟨t', hembt, hszt, gv1, hgv1, hr1⟩ := hrun2 sF ctx (e3.trans hF) hrel G hG1 hP1 te' (a + codeSize cc + 3)
      { st with gvars := gv0, stmts := st.stmts ++ [jzStmt ((a + codeSize cc : Nat) : Int) n (((a + codeSize cc : Nat) : Int) + ((3 + CStmt.sizes ct : Nat) : Int))] }
      hb hgv0.1 hpos1
    refine ⟨.ifThen (codeSize cc) n t' [], ⟨_, _, _, _, rfl, hemb, hembt, rfl⟩, ?_, gv1, hgv0.trans hgv1, ?_⟩
    · have : ce = [] := by simpa using hE
      subst this
      simp [Src.size, lower1, lower, P.sizes, P.size, CStmt.sizes, CStmt.size, hszt]
    · rw [layoutStmt_if_empty _ _ _ _ hE, runIs_bind_ok hjz]
      have hc : codeSize (cc ++ [Instr.op3 0x95 (3 + CStmt.sizes ct)]) = codeSize cc + 3 := by
        simp [codeSize_append, codeSize, Instr.size]
      rw [hc, ← Nat.add_assoc, hr1]
      simp only [lower1, lower, emit, List.append_nil, emit1_if_noelse, List.append_assoc, List.cons_append, List.nil_append, hszt]
      exact stmts_congr st gv1 (cons_congr (jzStmt_congr n (by omega) (by omega)) (emit_congr _ _ (by omega)))
  · -- with else
    have hE' : ce.isEmpty = false := by simpa using hE
    have hjz := run_jz ctx a cc (3 + CStmt.sizes ct + 3) st n gv0 hr0
    have hpos1 : AllS (fun p _ => p < ((a + codeSize cc + 3 : Nat) : Int))
        (st.stmts ++ [jzStmt ((a + codeSize cc : Nat) : Int) n (((a + codeSize cc : Nat) : Int) + ((3 + CStmt.sizes ct + 3 : Nat) : Int))]) :=
      AllS.append (AllS.mono hpos fun _ _ hh => by push_cast; omega) (allS_jz _ _ _ (by push_cast; omega))
    obtain ⟨t', hembt, hszt, gv1, hgv1, hr1⟩ := hrun2 sF ctx (e3.trans hF) hrel G hG1 hP1 (te'.map (· + 3 + CStmt.sizes ce))
      (a + codeSize cc + 3)
      { st with gvars := gv0, stmts := st.stmts ++ [jzStmt ((a + codeSize cc : Nat) : Int) n (((a + codeSize cc : Nat) : Int) + ((3 + CStmt.sizes ct + 3 : Nat) : Int))] }
      hb hgv0.1 hpos1
    have hwft := (embSrc_wf t t' hembt).1
    have invt := emit_inv false ((a + codeSize cc + 3 : Nat) : Int) (lower t') hwft
    have hpos2 : AllS (fun p _ => p < ((a + codeSize cc + 3 + CStmt.sizes ct + 3 : Nat) : Int))
        ((st.stmts ++ [jzStmt ((a + codeSize cc : Nat) : Int) n (((a + codeSize cc : Nat) : Int) + ((3 + CStmt.sizes ct + 3 : Nat) : Int))]
          ++ emit false ((a + codeSize cc + 3 : Nat) : Int) (lower t')) ++
          [jumpStmt ((a + codeSize cc + 3 + CStmt.sizes ct : Nat) : Int)
            (((a + codeSize cc + 3 + CStmt.sizes ct : Nat) : Int) + ((3 + CStmt.sizes ce : Nat) : Int))]) :=
      AllS.append (AllS.append (AllS.mono hpos1 fun _ _ hh => by push_cast at *; omega)
        (AllS.mono invt fun _ _ hh => by have := hh.2.1; rw [hszt] at this; push_cast at *; omega))
        (allS_jump _ _ (by push_cast; omega))
    obtain ⟨e', hembe, hsze, gv2, hgv2, hr2⟩ := hrun3 sF ctx hF hrel G hG2 hP2 te' (a + codeSize cc + 3 + CStmt.sizes ct + 3)
      { st with gvars := gv1, stmts := (st.stmts ++ [jzStmt ((a + codeSize cc : Nat) : Int) n (((a + codeSize cc : Nat) : Int) + ((3 + CStmt.sizes ct + 3 : Nat) : Int))]
          ++ emit false ((a + codeSize cc + 3 : Nat) : Int) (lower t')) ++
          [jumpStmt ((a + codeSize cc + 3 + CStmt.sizes ct : Nat) : Int)
            (((a + codeSize cc + 3 + CStmt.sizes ct : Nat) : Int) + ((3 + CStmt.sizes ce : Nat) : Int))] }
      hb hgv1.1 hpos2
    have hne : e' ≠ [] := by
      intro h0
      have hl := (embSrc_wf e e' hembe).2
      rw [h0] at hl
      have : e = [] := by cases e with | nil => rfl | cons _ _ => simp at hl
      rw [this] at hemp3
      simp [hE'] at hemp3
    have hlne : lower e' ≠ [] := fun h0 => hne ((lower_eq_nil e').1 h0)
    refine ⟨.ifThen (codeSize cc) n t' e', ⟨_, _, _, _, rfl, hemb, hembt, hembe⟩, ?_, gv2, (hgv0.trans hgv1).trans hgv2, ?_⟩
    · have hie : (lower e').isEmpty = false := by cases hh : lower e' with | nil => exact absurd hh hlne | cons _ _ => rfl
      simp [Src.size, lower1, P.sizes, P.size, CStmt.sizes, CStmt.size, hszt, hsze, hie, hE']
    · rw [layoutStmt_if_else _ _ _ _ hE']
      have hc1 : codeSize (cc ++ [Instr.op3 0x95 (3 + CStmt.sizes ct + 3)]) = codeSize cc + 3 := by
        simp [codeSize_append, codeSize, Instr.size]
      have hc2 : codeSize (layoutStmts (te'.map (· + 3 + CStmt.sizes ce)) ct) = CStmt.sizes ct := layoutStmts_size _ _
      have hc3 : codeSize [Instr.op3 0x93 (3 + CStmt.sizes ce)] = 3 := by simp [codeSize, Instr.size]
      rw [List.append_assoc, List.append_assoc, List.append_assoc, ← List.append_assoc cc, runIs_bind_ok hjz, hc1, ← Nat.add_assoc,
        runIs_bind_ok hr1, hc2, runIs_bind_ok (run_jump ctx _ _ _), hc3, hr2]
      simp only [lower1, emit, List.append_nil, emit1_if_else _ _ _ _ _ _ hlne, List.append_assoc, List.cons_append, List.nil_append,
        hszt, hsze]
      exact stmts_congr st gv2 (cons_congr (jzStmt_congr n (by omega) (by omega)) (append_congr (emit_congr _ _ (by omega))
        (cons_congr (jumpStmt_congr (by omega) (by omega)) (emit_congr _ _ (by omega)))))

theorem layoutStmt_while (te : Option Nat) (cc : List Instr) (cb : List CStmt) :
    layoutStmt te (.loop [] cc [] cb [] []) =
      cc ++ [.op3 0x95 (3 + CStmt.sizes cb + 2)] ++ layoutStmts (some 2) cb ++ [.op2 0x54 (codeSize cc + 3 + CStmt.sizes cb)] := by
  simp [layoutStmt, codeSize]

theorem rawLoop_congr {s s' i i' : Int} {B B' : List Node} (h1 : s = s') (h2 : i = i') (h3 : B = B') :
    Node.stmt i (rawLoop s i B) = Node.stmt i' (rawLoop s' i' B') := by rw [h1, h2, h3]

/-- the back jump at the end of a loop whose statements are `done ++ B` -/
theorem run_back (ctx : Lscr.Ctx) (idx k : Nat) (st : PState) (done B : List Node) (s : Int) (hst : st.stmts = done ++ B)
    (hs : (idx : Int) - (k : Int) = s) (hd : AllS (fun p _ => p < s) done) (hB : AllS (fun p _ => s ≤ p) B) :
    runIs ctx idx [.op2 0x54 k] st = .ok { st with stmts := done ++ [.stmt (idx : Int) (rawLoop s (idx : Int) B)] } := by
  rw [runIs_single]
  exact exec_back ctx k _ st _ (by rw [hst]; exact jumpBack_split done B _ k s hs hd hB)

/-- `repeat while c … end repeat` -/
theorem struct_while (cd : Expr) (body : List Stmt) (hfc : FragE cd = true) (hb : Structs body) : Struct1 (.repeatWhile cd body) := by
  intro c hT s0 s1 cs h
  rw [lowerStmt] at h
  simp only [M_bind_ok, M_pure_ok, Prod.mk.injEq] at h
  obtain ⟨cc, sA, hcc, cb, sB, hcb, rfl, rfl⟩ := h
  obtain ⟨e1, hop1, hrun1⟩ := stack_lemma cd hfc c s0 sA cc hcc
  obtain ⟨e2, _, hop2, hrun2⟩ := hb c hT sA _ cb hcb
  refine ⟨e1.trans e2, by simp, ?_, ?_⟩
  · intro te i hi
    rw [layoutStmts_single, layoutStmt_while] at hi
    simp only [List.mem_append, List.mem_singleton] at hi
    rcases hi with ((hi | hi) | hi) | hi
    · exact hop1 i hi
    · subst hi; simp [Instr.opc]
    · exact hop2 _ i hi
    · subst hi; simp [Instr.opc]
  intro sF ctx hF hrel G hG hP te a st hb' hgv hpos
  have hG0 : ∀ g ∈ cd.vars .glob, g ∈ G := fun g hg => hG g (by simp [Stmt.vars, hg])
  have hG1 : ∀ g ∈ Stmt.varsList .glob body, g ∈ G := fun g hg => hG g (by simp [Stmt.vars, hg])
  have hP1 : ∀ v ∈ Stmt.varsList .prop body, ctx.props.contains v = true := fun v hv => hP v (by simp [Stmt.vars, hv])
  obtain ⟨n, gv0, hembH, hgv0, hr0⟩ := hrun1 sF ctx (e2.trans hF) hrel G hG0 a st hb' hgv
  have hemb := EmbH.toEmb _ _ _ hembH
  rw [layoutStmts_single, layoutStmt_while]
  have hjz := run_jz ctx a cc (3 + CStmt.sizes cb + 2) st n gv0 hr0
  have hpos1 : AllS (fun p _ => p < ((a + codeSize cc + 3 : Nat) : Int))
      (st.stmts ++ [jzStmt ((a + codeSize cc : Nat) : Int) n (((a + codeSize cc : Nat) : Int) + ((3 + CStmt.sizes cb + 2 : Nat) : Int))]) :=
    AllS.append (AllS.mono hpos fun _ _ hh => by push_cast; omega) (allS_jz _ _ _ (by push_cast; omega))
  obtain ⟨b', hembb, hszb, gv1, hgv1, hr1⟩ := hrun2 sF ctx hF hrel G hG1 hP1 (some 2) (a + codeSize cc + 3)
    { st with gvars := gv0, stmts := st.stmts ++ [jzStmt ((a + codeSize cc : Nat) : Int) n (((a + codeSize cc : Nat) : Int) + ((3 + CStmt.sizes cb + 2 : Nat) : Int))] }
    hb' hgv0.1 hpos1
  have hwfb := (embSrc_wf body b' hembb).1
  have invb := emit_inv false ((a + codeSize cc + 3 : Nat) : Int) (lower b') hwfb
  have hc1 : codeSize (cc ++ [Instr.op3 0x95 (3 + CStmt.sizes cb + 2)]) = codeSize cc + 3 := by
    simp [codeSize_append, codeSize, Instr.size]
  have hc2 : codeSize (layoutStmts (some 2) cb) = CStmt.sizes cb := layoutStmts_size _ _
  have hbk := run_back ctx (a + codeSize cc + 3 + CStmt.sizes cb) (codeSize cc + 3 + CStmt.sizes cb)
    { st with gvars := gv1, stmts := ((st.stmts ++ [jzStmt ((a + codeSize cc : Nat) : Int) n (((a + codeSize cc : Nat) : Int) + ((3 + CStmt.sizes cb + 2 : Nat) : Int))]) ++ emit false ((a + codeSize cc + 3 : Nat) : Int) (lower b')) }
    st.stmts (jzStmt ((a + codeSize cc : Nat) : Int) n (((a + codeSize cc : Nat) : Int) + ((3 + CStmt.sizes cb + 2 : Nat) : Int))
      :: emit false ((a + codeSize cc + 3 : Nat) : Int) (lower b')) (a : Int) (by simp [List.append_assoc]) (by push_cast; omega) hpos
    (AllS.append (allS_jz _ _ _ (by push_cast; omega)) (AllS.mono invb fun _ _ hh => by have := hh.1; push_cast at *; omega))
  refine ⟨.loop .while_ (codeSize cc) n b', ⟨_, _, _, rfl, hemb, hembb⟩, ?_, gv1, hgv0.trans hgv1, ?_⟩
  · simp [Src.size, lower1, P.sizes, P.size, CStmt.sizes, CStmt.size, hszb, codeSize]
  · rw [List.append_assoc, List.append_assoc, ← List.append_assoc cc, runIs_bind_ok hjz, hc1, ← Nat.add_assoc, runIs_bind_ok hr1, hc2, hbk]
    simp only [lower1, emit, List.append_nil, emit1_loop_raw, hszb]
    exact stmts_congr st gv1 (cons_congr (rawLoop_congr rfl (by push_cast; omega)
      (cons_congr (jzStmt_congr n (by push_cast; omega) (by push_cast; omega)) (emit_congr _ _ (by push_cast; omega)))) rfl)

end Drx.LinkFlow
