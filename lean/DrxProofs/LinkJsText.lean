/-
  J1–J4 (text level): for every expression `e` of the fragment `JsOkE` and every model node `n` with `Link.Emb e n`,
  `generate_js` of `n` (model: `Lscr.js`) is the text `txJ (toJsE c e)`: the characters of the reference printer's tokens
  with the translator's white space.
-/
import Drx.LinkJs
import DrxProofs.LscrConst
import DrxProofs.LinkJsThe
namespace Drx.LinkJs
open Drx Drx.Lscr Drx.Gen Drx.Spec Drx.Link
set_option linter.unusedSimpArgs false
set_option linter.unusedVariables false

/-! ### J1: operator tables -/

/-- the text `toJs` prescribes for a binary operator, as the entry of a `JS_BIN_OP`-shaped table -/
def jsOpEntry (o : BinOp) : Str :=
  match jsBinOp o with
  | some s => s.toList
  | none =>
    match jsMethodOp o with
    | some m => '.' :: m.toList
    | none => S "sprite(%s)." ++ (if o = .intersects then S "intersects" else S "within") ++ S "(sprite(%s))"

/-- **J1** the regenerated `JS_BIN_OP` maps the enum value of every source operator to the operator `toJs` uses:
    the 13 infix operators, the 4 method-style ones (with the leading dot), the 2 sprite tests (as a format) -/
theorem jsBinOp_table (o : BinOp) : dictGet OpNames.jsBinOp (binName o) = .ok (jsOpEntry o) ∧ (binName o = S "assign") = False := by
  cases o <;> exact ⟨rfl, eq_false (by decide)⟩

def jsUnEntry : UnOp → Str
  | .neg => S "-"
  | .not => S "!"

/-- **J1** `JS_UNA_OP` for the two prefix operators and `field` -/
theorem jsUnaOp_table (o : UnOp) : dictGet OpNames.jsUnaOp (unName o) = .ok (jsUnEntry o) := by
  cases o <;> rfl

theorem jsUnaOp_field : dictGet OpNames.jsUnaOp (S "field") = .ok (S "field") := rfl

/-- the three shapes of `JS_BIN_OP` entries -/
inductive OpShape where
  | infix | method | sprite
  deriving DecidableEq

def opShape (o : BinOp) : OpShape :=
  match jsBinOp o with
  | some _ => .infix
  | none => match jsMethodOp o with
    | some _ => .method
    | none => .sprite

theorem entry_infix (o : BinOp) (s : String) (h : jsBinOp o = some s) :
    jsOpEntry o = s.toList ∧ startsWith (jsOpEntry o) (S "sprite(") = false ∧ startsWith (jsOpEntry o) (S ".") = false := by
  cases o <;> simp [jsBinOp] at h <;> subst h <;> exact ⟨rfl, by decide, by decide⟩

theorem entry_method (o : BinOp) (m : String) (h0 : jsBinOp o = none) (h : jsMethodOp o = some m) :
    jsOpEntry o = '.' :: m.toList ∧ startsWith (jsOpEntry o) (S "sprite(") = false ∧ startsWith (jsOpEntry o) (S ".") = true := by
  cases o <;> simp [jsMethodOp] at h <;> subst h <;> first | exact ⟨rfl, by decide, by decide⟩ | (simp [jsBinOp] at h0)

theorem entry_sprite (o : BinOp) (h0 : jsBinOp o = none) (h : jsMethodOp o = none) :
    startsWith (jsOpEntry o) (S "sprite(") = true ∧
    ∀ a b : Str, pyFormat (jsOpEntry o) [a, b] =
      .ok (S "sprite(" ++ a ++ S ")." ++ (if o = .intersects then S "intersects" else S "within") ++ S "(sprite(" ++ b ++ S "))") := by
  cases o <;> first | (simp [jsBinOp] at h0; done) | (simp [jsMethodOp] at h; done) | skip
  all_goals
    refine ⟨by decide, ?_⟩
    intro a b
    simp [jsOpEntry, jsBinOp, jsMethodOp, S, pyFormat, Except.map]

/-! ### one-step facts about the model's `generate_js` -/

theorem js_unary (fm : Bool) (op : Str) (p : Int) (x : Node) (ind : Nat) (o t : Str)
    (hd : dictGet OpNames.jsUnaOp op = .ok o) (hx : js fm false x ind = .ok (.s t)) :
    js fm false (.unary op p x) ind = .ok (.s (o ++ S "(" ++ t ++ S ")")) := by
  simp only [js, hd, hx, bind, Except.bind, pure, Except.pure, Name.str]
  simp

theorem js_binary (fm : Bool) (op : Str) (p : Int) (l r : Node) (ind : Nat) (lt rt o : Str)
    (hna : (op = S "assign") = False) (hd : dictGet OpNames.jsBinOp op = .ok o)
    (hl : js fm false l ind = .ok (.s lt)) (hr : js fm false r ind = .ok (.s rt)) :
    js fm false (.binary op p l r) ind =
      if startsWith o (S "sprite(") then (pyFormat o [lt, rt]).map Name.s
      else if startsWith o (S ".") then .ok (.s (jsReceiver lt ++ o ++ S "(" ++ rt ++ S ")"))
      else .ok (.s (S "(" ++ lt ++ S " " ++ o ++ S " " ++ rt ++ S ")")) := by
  simp only [js, hna, if_false, hd, hl, hr, bind, Except.bind, pure, Except.pure, Name.str]

theorem js_assign (fm : Bool) (p : Int) (l r : Node) (ind : Nat) (lt rt : Str)
    (hl : js fm false l ind = .ok (.s lt)) (hr : js fm false r ind = .ok (.s rt)) :
    js fm false (.binary (S "assign") p l r) ind = .ok (.s (lt ++ S " = " ++ rt)) := by
  simp only [js, if_true, hl, hr, bind, Except.bind, pure, Except.pure, Name.str]

theorem js_toList (fm : Bool) (p p' : Int) (nm : Str) (ops : List Node) (ind : Nat) (l : List Str)
    (h : jsStrs fm false ops ind = .ok l) :
    js fm false (.toList p (.loadList nm p' ops)) ind = .ok (.s (S "list(" ++ commaJoinRev l ++ S ")")) := by
  simp only [js, h, bind, Except.bind, pure, Except.pure]

theorem js_toDict (fm : Bool) (p p' : Int) (nm : Str) (ops : List Node) (ind : Nat) (l : List Str)
    (h : jsStrs fm false ops ind = .ok l) :
    js fm false (.toDict p (.loadList nm p' ops)) ind = .ok (.s (S "propList(" ++ commaJoinRev l ++ S ")")) := by
  simp only [js, h, bind, Except.bind, pure, Except.pure]

theorem callJsName_plain (f : Str) (inTell : Bool) (ps : Lscr.Name)
    (h1 : f ≠ S "birth") (h2 : f ≠ S "new") (h3 : f ≠ S "go") (h4 : f ≠ S "cast") (h5 : f ≠ S "continue") :
    callJsName (.s f) inTell ps = .ok (.s f, ps) := by
  simp [callJsName, h1, h2, h3, h4, h5, bind, Except.bind, pure, Except.pure]

theorem callJsCode_plain (f : Str) (ps : Str) (h : f ≠ S "return") :
    callJsCode (.s f) (.s ps) = .ok (.s (f ++ S "(" ++ ps ++ S ")")) := by
  simp [callJsCode, h, Name.asStr, bind, Except.bind, pure, Except.pure]

theorem specialCall_false (f : Str) (h : specialCall f = false) :
    f ≠ S "birth" ∧ f ≠ S "go" ∧ f ≠ S "cast" ∧ f ≠ S "continue" ∧ f ≠ S "me" := by
  simp only [specialCall, Bool.or_eq_false_iff, beq_eq_false_iff_ne, ne_eq] at h
  exact ⟨h.1.1.1.1, h.1.1.1.2, h.1.1.2, h.1.2, h.2⟩

/-- a plain call (no rewritten name): `f(a, b)` -/
theorem js_call_plain (f : Str) (p p' : Int) (nm : Str) (ops : List Node) (up it wr : Bool) (ind : Nat) (l : List Str)
    (hsp : specialCall f = false) (hnew : f ≠ S "new") (hret : f ≠ S "return")
    (hl : jsStrs true (if ops.isEmpty then false else listFn f) ops ind = .ok l) :
    js true false (.callFn (.s f) p (.loadList nm p' ops) up it wr .none) ind = .ok (.s (f ++ S "(" ++ commaJoinRev l ++ S ")")) := by
  obtain ⟨h1, h3, h4, h5, h6⟩ := specialCall_false f hsp
  have hme : ¬ (True ∧ (Lscr.Name.s f == Lscr.Name.s (S "me")) = true) := by simp [h6]
  cases ops with
  | nil =>
    simp only [List.isEmpty_nil, if_true] at hl
    simp only [js, List.isEmpty_nil, if_true, hl, bind, Except.bind, pure, Except.pure, callJsName_plain f it _ h1 hnew h3 h4 h5, hme,
      if_false, recvName, callJsCode_plain f _ hret]
  | cons x xs =>
    have hne : (x :: xs).isEmpty = false := rfl
    simp only [hne, Bool.false_eq_true, if_false] at hl
    have hli : isListFn (.s f) = .ok (listFn f) := by simp [isListFn, listFn, Name.asStr, bind, Except.bind, pure, Except.pure]
    simp only [js, hne, Bool.false_eq_true, if_false, hli, hl, bind, Except.bind, pure, Except.pure, callJsName_plain f it _ h1 hnew h3 h4 h5, hme,
      recvName, callJsCode_plain f _ hret]

/-! ### argument lists -/

/-- `ts` are the texts `generate_js` returns for the nodes `ns` -/
inductive Texts (fm : Bool) (ind : Nat) : List Node → List Str → Prop
  | nil : Texts fm ind [] []
  | cons {x : Node} {t : Str} {xs : List Node} {ts : List Str} :
      js fm false x ind = .ok (.s t) → Texts fm ind xs ts → Texts fm ind (x :: xs) (t :: ts)

theorem Texts.append {fm : Bool} {ind : Nat} {a b : List Node} {s t : List Str} (h1 : Texts fm ind a s) (h2 : Texts fm ind b t) :
    Texts fm ind (a ++ b) (s ++ t) := by
  induction h1 with
  | nil => exact h2
  | cons hx _ ih => exact Texts.cons hx ih

theorem Texts.reverse {fm : Bool} {ind : Nat} {a : List Node} {s : List Str} (h : Texts fm ind a s) :
    Texts fm ind a.reverse s.reverse := by
  induction h with
  | nil => exact Texts.nil
  | cons hx _ ih =>
    simp only [List.reverse_cons]
    exact ih.append (Texts.cons hx Texts.nil)

/-- the comprehension of `generate_js` over an operand list; with `gv` the last operand must not be a Symbol -/
theorem jsStrs_texts (fm gv : Bool) (ind : Nat) : ∀ (ns : List Node) (ts : List Str), Texts fm ind ns ts →
    (gv = true → ∀ x, ns.getLast? = some x → x.symName? = none) → jsStrs fm gv ns ind = .ok ts
  | [], _, h, _ => by cases h; simp [jsStrs]
  | [x], _, h, hg => by
    cases h with
    | cons hx hr =>
      cases hr
      have : (if gv = true then x.symName? else none) = none := by
        cases gv with
        | false => rfl
        | true => simpa using hg rfl x (by simp)
      simp only [jsStrs, this, hx, bind, Except.bind, pure, Except.pure, Name.str]
  | x :: y :: r, _, h, hg => by
    cases h with
    | cons hx hr =>
      have ih := jsStrs_texts fm gv ind (y :: r) _ hr (fun hgv z hz => hg hgv z (by simpa [List.getLast?_cons_cons] using hz))
      simp only [jsStrs, hx, ih, bind, Except.bind, pure, Except.pure, Name.str]

/-- a node that is the image of a non-symbol expression is not a Symbol -/
theorem emb_not_sym (e : Expr) (x : Node) (h : Emb e x) (hs : ∀ s, e ≠ .sym s) : x.symName? = none :=
  emb_symName' e x h hs   -- agent-link's lemma (DrxProofs/LinkText.lean): follows every extension of `Emb`

/-- texts of an argument list, in source order -/
def txL (c : JCtx) : List Expr → List Str
  | [] => []
  | e :: es => txJ (toJsE c e) :: txL c es

theorem joinWith_txL (c : JCtx) : ∀ (as : List Expr), joinWith (S ", ") (txL c as) = txArgs (toJsEs c as)
  | [] => rfl
  | [e] => by simp [txL, toJsEs, joinWith, txArgs]
  | e :: e2 :: es => by
    have ih := joinWith_txL c (e2 :: es)
    simp only [txL, toJsEs, joinWith, txArgs] at ih ⊢
    rw [ih]

theorem commaJoinRev_reverse (l : List Str) : commaJoinRev l.reverse = joinWith (S ", ") l := by
  simp [commaJoinRev]

/-! ### first characters (the receiver test of `js_receiver`) -/

/-- `code.startswith('-') or code.startswith('!') or code[0].isdigit()` -/
def special (c : Char) : Bool := c == '-' || c == '!' || isAsciiDigit c

theorem jsReceiver_eq (t : Str) : jsReceiver t = if t.head?.map special = some true then S "(" ++ t ++ S ")" else t := by
  cases t with
  | nil => simp [jsReceiver]
  | cons c r =>
    simp only [jsReceiver, List.head?_cons, Option.map_some, Option.some.injEq, special, Bool.or_eq_true, beq_iff_eq]
    by_cases h : (c = '-' ∨ c = '!') ∨ isAsciiDigit c = true
    · have h' : c = '-' ∨ c = '!' ∨ isAsciiDigit c = true := by
        rcases h with (h | h) | h
        · exact Or.inl h
        · exact Or.inr (Or.inl h)
        · exact Or.inr (Or.inr h)
      simp [h, h']
    · have h' : ¬ (c = '-' ∨ c = '!' ∨ isAsciiDigit c = true) := by
        intro h2; apply h
        rcases h2 with h2 | h2 | h2
        · exact Or.inl (Or.inl h2)
        · exact Or.inl (Or.inr h2)
        · exact Or.inr h2
      simp [h, h']

theorem idStart_not_special (c : Char) (h : isJsIdStart c = true) : special c = false := by
  simp only [isJsIdStart, Char.isAlpha, Char.isUpper, Char.isLower, Bool.or_eq_true, Bool.and_eq_true, decide_eq_true_eq, beq_iff_eq,
    ge_iff_le, UInt32.le_iff_toNat_le] at h
  have eA : 'A'.val.toNat = 65 := rfl
  have eZ : 'Z'.val.toNat = 90 := rfl
  have ea : 'a'.val.toNat = 97 := rfl
  have ez : 'z'.val.toNat = 122 := rfl
  have hr : c.val.toNat = 36 ∨ c.val.toNat = 95 ∨ (65 ≤ c.val.toNat ∧ c.val.toNat ≤ 122) := by
    rcases h with ((h | h) | h) | h
    · omega
    · omega
    · subst h; exact Or.inr (Or.inl rfl)
    · subst h; exact Or.inl rfl
  have e0 : '0'.val.toNat = 48 := rfl
  have e9 : '9'.val.toNat = 57 := rfl
  have h1 : c ≠ '-' := by intro e; subst e; revert hr; decide
  have h2 : c ≠ '!' := by intro e; subst e; revert hr; decide
  have h3 : isAsciiDigit c = false := by
    simp only [isAsciiDigit, Bool.and_eq_false_iff, decide_eq_false_iff_not, Char.le_def, UInt32.le_iff_toNat_le]
    omega
  simp [special, h1, h2, h3]

theorem jsIdLex_head (n : Spec.Name) (h : jsIdLex n = true) : n.head?.map special = some false := by
  cases n with
  | nil => simp [jsIdLex] at h
  | cons c cs =>
    simp only [jsIdLex, Bool.and_eq_true] at h
    simp [idStart_not_special c h.1]

theorem jsIdOk_lex (n : Spec.Name) (h : jsIdOk n = true) : jsIdLex n = true := by
  simp only [jsIdOk, Bool.and_eq_true] at h; exact h.1

theorem head_append_some (a b : Str) (x : Bool) (h : a.head?.map special = some x) : (a ++ b).head?.map special = some x := by
  cases a with
  | nil => simp at h
  | cons c r => simpa using h

theorem natStr_special (k : Nat) : (natStr k).head?.map special = some true := by
  obtain ⟨c, rest, h, hd, _, _⟩ := natStr_head k
  simp [h, special, hd]

theorem toJsCall_plain (c : JCtx) (f : Spec.Name) (src : List Expr) (args : List JE)
    (hsp : specialCall f = false) (hnew : f ≠ S "new") : toJsCall c f src args = .call (.id f) args := by
  obtain ⟨h1, h3, h4, h5, _⟩ := specialCall_false f hsp
  have h1' : ¬ f = "birth".toList := h1
  have h2' : ¬ f = "new".toList := hnew
  have h3' : ¬ f = "go".toList := h3
  have h4' : ¬ f = "cast".toList := h4
  have h5' : ¬ f = "continue".toList := h5
  simp only [toJsCall, h1', h2', h3', h4', h5', if_false]

theorem jsIdOk_not_kw (f : Spec.Name) (h : jsIdOk f = true) (k : String) (hk : isJsKeyword k.toList = true) : f ≠ k.toList := by
  intro e
  simp only [jsIdOk, Bool.and_eq_true, Bool.not_eq_true'] at h
  rw [e, hk] at h
  exact absurd h.2 (by simp)

theorem np_num (d k : Nat) : (JE.num d k).needsParen = true := rfl
theorem np_un (op : Spec.Name) (a : JE) : (JE.un op a).needsParen = true := rfl
theorem np_id (n : Spec.Name) : (JE.id n).needsParen = false := rfl
theorem np_mem (o : JE) (n : Spec.Name) : (JE.mem o n).needsParen = false := rfl
theorem np_idx (o i : JE) : (JE.idx o i).needsParen = false := rfl
theorem np_call (f : JE) (as : List JE) : (JE.call f as).needsParen = false := rfl
theorem np_bin (op : Spec.Name) (a b : JE) : (JE.bin op a b).needsParen = false := rfl
theorem np_lstr (s : Spec.Name) : (JE.lstr s).needsParen = false := rfl

/-- the text of the translation of a fragment expression starts with `-`, `!` or a digit exactly when the reference printer
    parenthesises it as a receiver (numeric literals and prefix operations: F41 / F42) -/
theorem tx_special (c : JCtx) : ∀ (e : Expr), JsOkE e = true →
    (txJ (toJsE c e)).head?.map special = some (toJsE c e).needsParen
  | .int k, _ => by simpa [toJsE, txJ, JE.needsParen] using natStr_special k
  | .str s, _ => by simp [toJsE, txJ, JE.needsParen, S, special, isAsciiDigit]
  | .sym s, _ => by simp [toJsE, txJ, jcall, JE.needsParen, S, special, isAsciiDigit]
  | .var .loc n, h => by
    simp only [JsOkE, Bool.or_eq_true, beq_iff_eq] at h
    by_cases hm : n = "me".toList
    · simp [toJsE, hm, jid, txJ, JE.needsParen, special, isAsciiDigit]
    · rcases h with h | h
      · exact absurd h hm
      · simp only [toJsE, hm, if_false, txJ, np_id]
        exact jsIdLex_head n (jsIdOk_lex n h)
  | .var .param n, h => by
    simp only [JsOkE, Bool.or_eq_true, beq_iff_eq] at h
    by_cases hm : n = "me".toList
    · simp [toJsE, hm, jid, txJ, JE.needsParen, special, isAsciiDigit]
    · rcases h with h | h
      · exact absurd h hm
      · simp only [toJsE, hm, if_false, txJ, np_id]
        exact jsIdLex_head n (jsIdOk_lex n h)
  | .var .glob n, _ => by simp [toJsE, jid, txJ, JE.needsParen, S, special, isAsciiDigit]
  | .var .prop n, _ => by simp [toJsE, jid, txJ, JE.needsParen, S, special, isAsciiDigit]
  | .un .neg a, _ => by simp [toJsE, txJ, JE.needsParen, special, isAsciiDigit]
  | .un .not a, _ => by simp [toJsE, txJ, JE.needsParen, special, isAsciiDigit]
  | .field a, _ => by simp [toJsE, jcall, txJ, JE.needsParen, S, special, isAsciiDigit]
  | .list as, _ => by simp [toJsE, jcall, txJ, JE.needsParen, S, special, isAsciiDigit]
  | .call f as, h => by
    simp only [JsOkE, Bool.and_eq_true, Bool.not_eq_true'] at h
    obtain ⟨⟨⟨hid, hsp⟩, _⟩, _⟩ := h
    have hnew := jsIdOk_not_kw f hid "new" (by decide)
    rw [toJsE, toJsCall_plain c f as _ hsp hnew]
    simp only [txJ, np_id, np_call, Bool.false_eq_true, if_false, List.append_assoc]
    exact head_append_some _ _ _ (jsIdLex_head f (jsIdOk_lex f hid))
  | .bin op a b, h => by
    simp only [JsOkE, Bool.and_eq_true] at h
    cases hop : jsBinOp op with
    | some o => simp [toJsE, hop, txJ, JE.needsParen, S, special, isAsciiDigit]
    | none =>
      cases hm : jsMethodOp op with
      | some m =>
        have ih := tx_special c a h.1
        simp only [toJsE, hop, hm, jmem, txJ, np_mem, np_call, Bool.false_eq_true, if_false, List.append_assoc]
        cases hp : (toJsE c a).needsParen with
        | true => simp [hp, S, special, isAsciiDigit]
        | false =>
          rw [hp] at ih
          simp only [hp, Bool.false_eq_true, if_false]
          exact head_append_some _ _ _ ih
      | none => simp [toJsE, hop, hm, jmem, jcall, txJ, JE.needsParen, S, special, isAsciiDigit]
  | .plist as, _ => by simp [toJsE, jcall, txJ, JE.needsParen, S, special, isAsciiDigit]
  | .oprop v o, h => by
    simp only [JsOkE, Bool.and_eq_true] at h
    have ih := tx_special c o h.2
    simp only [toJsE, txJ, np_mem, List.append_assoc]
    cases hp : (toJsE c o).needsParen with
    | true => simp [hp, S, special, isAsciiDigit]
    | false =>
      rw [hp] at ih
      simp only [hp, Bool.false_eq_true, if_false]
      exact head_append_some _ _ _ ih
  | .chunk k a b d, h => by
    simp only [JsOkE, Bool.and_eq_true] at h
    have ih := tx_special c d h.2
    simp only [toJsE, jmem, txJ, np_mem, np_idx, Bool.false_eq_true, if_false, List.append_assoc]
    cases hp : (toJsE c d).needsParen with
    | true => simp [hp, S, special, isAsciiDigit]
    | false =>
      rw [hp] at ih
      simp only [hp, Bool.false_eq_true, if_false]
      exact head_append_some _ _ _ ih
  | .the t k [e], h => by
    rcases jsOkE_the t k e h with ⟨h1, _⟩ | ⟨op, r, ty, hs, hty, _, _, he⟩ | ⟨rfl, he⟩
    · cases t <;> first
        | (simp [theTbl] at h1; done)
        | simp [toJsE, toJsEs, toJsThe, jcall, txJ, JE.needsParen, S, special, isAsciiDigit]
    · have ih := tx_special c e he
      rcases toJsE_strThe c t k e op r ty hs hty with ⟨_, e1⟩ | ⟨_, e1⟩
      · rw [e1]
        simp only [txJ, np_mem, np_idx, Bool.false_eq_true, if_false, List.append_assoc]
        cases hp : (toJsE c e).needsParen with
        | true => simp [hp, S, special, isAsciiDigit]
        | false =>
          rw [hp] at ih
          simp only [hp, Bool.false_eq_true, if_false]
          exact head_append_some _ _ _ ih
      · rw [e1]
        simp only [jmem, txJ, np_mem, Bool.false_eq_true, if_false, List.append_assoc]
        cases hp : (toJsE c e).needsParen with
        | true => simp [hp, S, special, isAsciiDigit]
        | false =>
          rw [hp] at ih
          simp only [hp, Bool.false_eq_true, if_false]
          exact head_append_some _ _ _ ih
    · rw [toJsE_fieldThe]
      simp [jcall, txJ, JE.needsParen, S, special, isAsciiDigit]
  | .the .special k [], h => by
    have hk : k < 6 := by simpa [JsOkE] using h
    simp [toJsE, toJsEs, toJsThe, hk, jid, txJ, JE.needsParen, S, special, isAsciiDigit]
  | .mcall o m as, h => by
    obtain ⟨n, hn, hte, _⟩ := recvJsOk_spec c o m as (by simp only [JsOkE, Bool.and_eq_true] at h; exact h.1.1)
    rw [hte]
    simp only [txJ, np_id, np_call, Bool.false_eq_true, if_false, List.append_assoc]
    exact head_append_some _ _ _ (jsIdLex_head n (jsIdOk_lex n hn.1))
  | .key v, h => by
    by_cases hd : v = "date".toList ∨ v = "time".toList
    · simp only [toJsE, hd, if_true]
      simp [jmem, jid, txJ, JE.needsParen, S, special, isAsciiDigit]
    · simp only [toJsE, hd, if_false, txJ, np_mem, jid, np_id, Bool.false_eq_true, List.append_assoc]
      exact head_append_some _ _ _ (jsIdLex_head _ (key_owner_lex v))

/-! ### J2–J4: the text of an expression -/

theorem constJs_string (s : Str) :
    constJs (.s (escapeString s)) = .s (S "new LingoString(\"" ++ escQ s ++ S "\")") := by
  have hq : startsWith (escapeString s) ['"'] = true := by simp [startsWith, escapeString, List.isPrefixOf]
  simp only [constJs, hq, if_true, escapeString_body, escQ]

/-- `DefinedPropertyName.generate_js` (after the repair F139: always the script object) -/
theorem leafJs_definedProp (v : Str) : leafJs .definedProp (.s v) true = .s (S "this." ++ v) := by
  simp [leafJs, Name.str, S]

theorem receiver_tx (c : JCtx) (a : Expr) (h : JsOkE a = true) :
    jsReceiver (txJ (toJsE c a)) = if (toJsE c a).needsParen then S "(" ++ txJ (toJsE c a) ++ S ")" else txJ (toJsE c a) := by
  rw [jsReceiver_eq, tx_special c a h]
  cases (toJsE c a).needsParen <;> simp

/-- `PropertyAccessorOperation.generate_js` with an explicit object (`the P of obj`, opcodes 61 / 62) -/
theorem js_propAcc_ex (p : Int) (obj : Node) (prop : Str) (ind : Nat) (t : Str) (h : js true false obj ind = .ok (.s t)) :
    js true false (.propAcc p obj prop true) ind = .ok (.s (jsReceiver t ++ S "." ++ prop)) := by
  simp only [js, h, bind, Except.bind, pure, Except.pure, Name.str, Bool.not_true, Bool.false_eq_true, and_false, if_false]

/-- … with an owner node the opcode created, whose text is not `tell_obj` -/
theorem js_propAcc_obj (p : Int) (obj : Node) (prop : Str) (ind : Nat) (t : Str) (h : js true false obj ind = .ok (.s t))
    (hne : t ≠ S "tell_obj") :
    js true false (.propAcc p obj prop false) ind = .ok (.s (jsReceiver t ++ S "." ++ prop)) := by
  have : ¬ ((Lscr.Name.s t == Lscr.Name.s (S "tell_obj")) = true ∧ (!false) = true) := by
    intro h'; exact hne (by simpa using h'.1)
  simp only [js, h, bind, Except.bind, pure, Except.pure, Name.str, this, if_false]

/-- `StringOperation.generate_js`, one position -/
theorem js_strOp_one (kind : Str) (p : Int) (start of_ : Node) (ind : Nat) (c a : Str)
    (hc : js true false of_ 0 = .ok (.s c)) (ha : js true false start 0 = .ok (.s a)) :
    js true false (.strOp kind p start .none of_) ind = .ok (.s (jsReceiver c ++ S "." ++ kind ++ S "[" ++ a ++ S "]")) := by
  simp only [js, Node.isNone, if_true, hc, ha, bind, Except.bind, pure, Except.pure, Name.str]

/-- … a range of positions -/
theorem js_strOp_range (kind : Str) (p : Int) (start stop of_ : Node) (ind : Nat) (c a b : Str) (hs : stop.isNone = false)
    (hc : js true false of_ 0 = .ok (.s c)) (ha : js true false start 0 = .ok (.s a)) (hb : js true false stop 0 = .ok (.s b)) :
    js true false (.strOp kind p start stop of_) ind =
      .ok (.s (jsReceiver c ++ S "." ++ kind ++ S "[range(" ++ a ++ S ", " ++ b ++ S ")]")) := by
  simp only [js, hs, Bool.false_eq_true, if_false, hc, ha, hb, bind, Except.bind, pure, Except.pure, Name.str]

theorem isZero_true (b : Expr) (h : isZero b = true) : b = .int 0 := by
  cases b with
  | int k => cases k with
    | zero => rfl
    | succ k => simp [isZero] at h
  | _ => simp [isZero] at h

theorem toJsE_chunk_range (c : JCtx) (k : ChunkKind) (a b d : Expr) (h : isZero b = false) :
    toJsE c (.chunk k a b d) = .idx (jmem (toJsE c d) k.tag) (jcall "range" [toJsE c a, toJsE c b]) := by
  cases b with
  | int n => cases n with
    | zero => simp [isZero] at h
    | succ n => simp [toJsE]
  | _ => simp [toJsE]

/-- the index of a built-in object as the model keeps it is, inside `idxJsOk`, the text of its translation -/
theorem idx_tx (c : JCtx) (e : Expr) (hf : idxJsOk e = true) (nm : Lscr.Name) (h : idxName e = some nm) : nm = .s (txJ (toJsE c e)) := by
  cases e with
  | int k => simp only [idxName, Option.some.injEq] at h; subst h; simp [toJsE, txJ]
  | var kd v =>
    simp only [idxName, Option.some.injEq] at h; subst h
    cases kd with
    | loc =>
      simp only [idxJsOk, Bool.and_eq_true, bne_iff_ne, ne_eq] at hf
      have hm : ¬ v = "me".toList := hf.2
      simp only [toJsE, hm, if_false, txJ]
    | param =>
      simp only [idxJsOk, Bool.and_eq_true, bne_iff_ne, ne_eq] at hf
      have hm : ¬ v = "me".toList := hf.2
      simp only [toJsE, hm, if_false, txJ]
    | _ => simp [idxJsOk] at hf
  | _ => simp [idxJsOk] at hf

/-- `UnaryStringOperation.generate_js`: `the last <chunk> of e` -/
theorem js_unaryStr_last (p : Int) (ty : Str) (x : Node) (ind : Nat) (t : Str) (hx : js true false x ind = .ok (.s t)) :
    js true false (.unaryStr (S "last") p (some ty) x) ind = .ok (.s (jsReceiver t ++ S "." ++ ty ++ S "[\"" ++ S "last" ++ S "\"]")) := by
  have hd : dictGet OpNames.jsUnaOp (S "last") = .ok (S "last") := rfl
  simp only [js, hd, hx, bind, Except.bind, pure, Except.pure, Name.str, if_true]

/-- … `the number of <chunk>s of e` -/
theorem js_unaryStr_number (p : Int) (ty : Str) (x : Node) (ind : Nat) (t : Str) (hx : js true false x ind = .ok (.s t)) :
    js true false (.unaryStr (S "number") p (some ty) x) ind = .ok (.s (jsReceiver t ++ S "." ++ ty ++ S "." ++ S "length")) := by
  have hd : dictGet OpNames.jsUnaOp (S "number") = .ok (S "length") := rfl
  have hne : ¬ (S "number" = S "last") := by decide
  simp only [js, hd, hx, bind, Except.bind, pure, Except.pure, Name.str, hne, if_false]

theorem escQ_last : escQ "last".toList = S "last" := by decide +kernel

/-- the three owner leaves of the built-in property tables -/
theorem js_owner (cls : Leaf) (w : Str) (hcls : (cls = .sprite ∧ w = S "sprite") ∨ (cls = .cast ∧ w = S "member") ∨ (cls = .soundChan ∧ w = S "sound"))
    (nm : Str) (q : Int) (ind : Nat) :
    js true false (.leaf cls (.s nm) q) ind = .ok (.s (w ++ S "(" ++ nm ++ S ")")) ∧ w ++ S "(" ++ nm ++ S ")" ≠ S "tell_obj" ∧
      jsReceiver (w ++ S "(" ++ nm ++ S ")") = w ++ S "(" ++ nm ++ S ")" := by
  rcases hcls with ⟨rfl, rfl⟩ | ⟨rfl, rfl⟩ | ⟨rfl, rfl⟩ <;>
    refine ⟨by simp [js, leafJs, Name.str, S], by simp [S], by simp [jsReceiver, S, isAsciiDigit]⟩

/-- a method call `x(#m, a, b)` on a local / parameter receiver: the symbol is the LAST stored operand -/
theorem js_mcall_core (c : JCtx) (x m : Spec.Name) (as : List Expr) (hx1 : jsIdOk x = true) (hx3 : specialCall x = false)
    (hx4 : listFn x = false) (nm : Str) (p p' ps : Int) (wr : Bool)
    (ops : List Node) (ind : Nat) (htx : Texts true ind ops (txL c as)) :
    js true false (.callFn (.s x) p (.loadList nm p' (ops.reverse ++ [.sym (.s m) ps false])) true false wr .none) ind =
      .ok (.s (txJ (.call (.id x) (jcall "symbol" [.sstr m] :: toJsEs c as)))) := by
  have hnew := jsIdOk_not_kw x hx1 "new" (by decide)
  have hret := jsIdOk_not_kw x hx1 "return" (by decide)
  have hsym : js true false (.sym (.s m) ps false) ind = .ok (.s (S "symbol('" ++ m ++ S "')")) := by
    simp [js, Name.asStr, Except.map]
  have ht := (htx.reverse).append (Texts.cons hsym Texts.nil)
  have hne : (ops.reverse ++ [Node.sym (.s m) ps false]).isEmpty = false := by simp
  have hl : jsStrs true (if (ops.reverse ++ [Node.sym (.s m) ps false]).isEmpty then false else listFn x)
      (ops.reverse ++ [Node.sym (.s m) ps false]) ind = .ok ((txL c as).reverse ++ [S "symbol('" ++ m ++ S "')"]) := by
    rw [hne]
    simp only [Bool.false_eq_true, if_false, hx4]
    exact jsStrs_texts true false ind _ _ ht (by intro h; cases h)
  rw [js_call_plain x p p' _ _ true false wr ind _ hx3 hnew hret hl]
  have e : (txL c as).reverse ++ [S "symbol('" ++ m ++ S "')"] = ((S "symbol('" ++ m ++ S "')") :: txL c as).reverse := by simp
  rw [e, commaJoinRev_reverse]
  have e2 : joinWith (S ", ") ((S "symbol('" ++ m ++ S "')") :: txL c as) = txArgs (jcall "symbol" [.sstr m] :: toJsEs c as) := by
    cases has' : as with
    | nil => simp [txL, toJsEs, joinWith, txArgs, jcall, txJ, JE.needsParen, S]
    | cons a1 as1 =>
      have := joinWith_txL c (a1 :: as1)
      simp only [txL, toJsEs] at this
      simp only [txL, toJsEs, joinWith, txArgs, this]
      simp [jcall, txJ, txArgs, JE.needsParen, S]
  rw [e2]
  simp only [txJ, np_id, Bool.false_eq_true, if_false]

mutual
/-- **J-text** (expressions): `generate_js` of the image of `e`, as called by the script wrappers (`factory_method = True`),
    is the text of the tree `toJs` assigns to `e` -/
theorem js_emb (c : JCtx) : ∀ (e : Expr), JsOkE e = true → ∀ (n : Node), Emb e n → ∀ (ind : Nat),
    js true false n ind = .ok (.s (txJ (toJsE c e)))
  | .int k, _, n, h, ind => by
    obtain ⟨p, rfl⟩ := h
    simp only [js, leafJs, toJsE, txJ]
    rw [show natStr k = Lscr.intStr ((k : Nat) : Int) from rfl, constJs_intStr]
  | .str s, _, n, h, ind => by
    obtain ⟨p, rfl⟩ := h
    simp only [js, leafJs, toJsE, txJ, constJs_string]
  | .sym s, _, n, h, ind => by
    obtain ⟨p, rfl⟩ := h
    simp only [js, Name.asStr, Except.map, toJsE]
    simp [S, txJ, txArgs, jcall, JE.needsParen]
  | .var .loc v, hf, n, h, ind => by
    obtain ⟨p, rfl⟩ := h
    by_cases hm : v = "me".toList
    · subst hm; simp [js, leafJs, toJsE, jid, txJ, S]
    · have : ¬ (True ∧ (Lscr.Name.s v == Lscr.Name.s (S "me")) = true) := by
        simp only [beq_iff_eq, Lscr.Name.s.injEq, true_and]; exact hm
      simp only [js, leafJs, this, if_false, toJsE, hm, txJ]
  | .var .param v, hf, n, h, ind => by
    obtain ⟨p, rfl⟩ := h
    by_cases hm : v = "me".toList
    · subst hm; simp [js, leafJs, toJsE, jid, txJ, S]
    · have : ¬ (True ∧ (Lscr.Name.s v == Lscr.Name.s (S "me")) = true) := by
        simp only [beq_iff_eq, Lscr.Name.s.injEq, true_and]; exact hm
      simp only [js, leafJs, this, if_false, toJsE, hm, txJ]
  | .var .glob v, _, n, h, ind => by
    obtain ⟨p, rfl⟩ := h
    simp [js, leafJs, toJsE, jid, txJ, S, Name.str, JE.needsParen]
  | .var .prop v, hf, n, h, ind => by
    obtain ⟨p, rfl⟩ := h
    simp only [js, leafJs_definedProp v, toJsE, txJ, jid, np_id]
    simp [S]
  | .un o a, hf, n, h, ind => by
    obtain ⟨p, x, rfl, hx⟩ := h
    have hfa : JsOkE a = true := by simpa [JsOkE] using hf
    have ih := js_emb c a hfa x hx ind
    rw [js_unary true _ p x ind _ _ (jsUnaOp_table o) ih]
    cases o <;> simp [toJsE, txJ, jsUnEntry, S]
  | .field a, hf, n, h, ind => by
    obtain ⟨p, x, rfl, hx⟩ := h
    have hfa : JsOkE a = true := by simpa [JsOkE] using hf
    have ih := js_emb c a hfa x hx ind
    rw [js_unary true _ p x ind _ _ jsUnaOp_field ih]
    simp [toJsE, txJ, txArgs, jcall, S, JE.needsParen]
  | .bin o a b, hf, n, h, ind => by
    obtain ⟨p, x, y, rfl, hx, hy⟩ := h
    simp only [JsOkE, Bool.and_eq_true] at hf
    have iha := js_emb c a hf.1 x hx ind
    have ihb := js_emb c b hf.2 y hy ind
    obtain ⟨hd, hna⟩ := jsBinOp_table o
    rw [js_binary true _ p x y ind _ _ _ hna hd iha ihb]
    cases hop : jsBinOp o with
    | some s =>
      obtain ⟨e1, e2, e3⟩ := entry_infix o s hop
      simp only [e2, e3, Bool.false_eq_true, if_false]
      simp only [e1, toJsE, hop, txJ]
    | none =>
      cases hm : jsMethodOp o with
      | some m =>
        obtain ⟨e1, e2, e3⟩ := entry_method o m hop hm
        simp only [e2, e3, Bool.false_eq_true, if_false, if_true]
        simp only [e1, toJsE, hop, hm, jmem, txJ, txArgs, np_mem, receiver_tx c a hf.1]
        simp [S]
      | none =>
        obtain ⟨e1, e2⟩ := entry_sprite o hop hm
        simp only [e1, if_true, e2, Except.map, toJsE, hop, hm, jmem, jcall, txJ, txArgs, np_mem, np_call, np_id]
        by_cases hi : o = .intersects <;> simp [hi, S]
  | .call f as, hf, n, h, ind => by
    obtain ⟨p, p', wr, ops, rfl, hops⟩ := h
    simp only [JsOkE, Bool.and_eq_true, Bool.not_eq_true'] at hf
    obtain ⟨⟨⟨hid, hsp⟩, hlf⟩, has⟩ := hf
    have hnew := jsIdOk_not_kw f hid "new" (by decide)
    have hret := jsIdOk_not_kw f hid "return" (by decide)
    have ht := (js_embL c as has ops hops ind).reverse
    have hl : jsStrs true (if ops.reverse.isEmpty then false else listFn f) ops.reverse ind = .ok (txL c as).reverse := by
      apply jsStrs_texts true _ ind _ _ ht
      intro hgv x hx
      -- the last operand in pop order is the first argument
      cases as with
      | nil =>
        simp only [EmbL] at hops; subst hops
        simp at hx
      | cons e es =>
        obtain ⟨x0, xs, rfl, hx0, _⟩ := hops
        have hx' : x0 = x := by simpa using hx
        subst hx'
        have hne : (x0 :: xs).reverse.isEmpty = false := by simp
        rw [hne] at hgv
        simp only [Bool.false_eq_true, if_false] at hgv
        rw [hgv] at hlf
        simp only [Bool.true_and] at hlf
        refine emb_not_sym e x0 hx0 ?_
        intro s hs; subst hs; simp [headIsSym] at hlf
    rw [js_call_plain f p p' _ ops.reverse true false wr ind _ hsp hnew hret hl, commaJoinRev_reverse, joinWith_txL,
      toJsE, toJsCall_plain c f as _ hsp hnew]
    simp only [txJ, np_id, Bool.false_eq_true, if_false]
  | .list as, hf, n, h, ind => by
    obtain ⟨p, p', ops, rfl, hops⟩ := h
    have has : JsOkL as = true := by simpa [JsOkE] using hf
    have ht := (js_embL c as has ops hops ind).reverse
    have hl := jsStrs_texts true false ind _ _ ht (by intro h; cases h)
    rw [js_toList true p p' _ ops.reverse ind _ hl, commaJoinRev_reverse, joinWith_txL]
    simp [toJsE, jcall, txJ, JE.needsParen, S]
  | .float _ _, hf, _, _, _ => by simp [JsOkE] at hf
  | .me, hf, _, _, _ => by simp [JsOkE] at hf
  | .mcall o m as, hf, n, h, ind => by
    simp only [JsOkE, Bool.and_eq_true] at hf
    obtain ⟨⟨hro, hm⟩, has⟩ := hf
    obtain ⟨x, ⟨hx1, hx2, hx3, hx4⟩, hte, hmr, hox⟩ := recvJsOk_spec c o m as hro
    simp only [Emb] at h
    obtain ⟨p, p', ps, rc, ops, nm, hnm, rfl, hops, hrc⟩ := h
    rw [hmr] at hnm
    simp only [Option.some.injEq] at hnm
    subst hnm
    have hrcn : rc = .none := by rcases hox with rfl | rfl <;> exact hrc
    subst hrcn
    rw [hte]
    exact js_mcall_core c x m as hx1 hx3 hx4 (S "<load_list>") p p' ps false ops ind (js_embL c as has ops hops ind)
  | .plist as, hf, n, h, ind => by
    obtain ⟨p, p', ops, rfl, hops⟩ := h
    have has : JsOkL as = true := by simpa [JsOkE] using hf
    have ht := (js_embL c as has ops hops ind).reverse
    have hl := jsStrs_texts true false ind _ _ ht (by intro h; cases h)
    rw [js_toDict true p p' _ ops.reverse ind _ hl, commaJoinRev_reverse, joinWith_txL]
    simp [toJsE, jcall, txJ, JE.needsParen, S]
  | .oprop v o, hf, n, h, ind => by
    obtain ⟨p, x, rfl, hx⟩ := h
    simp only [JsOkE, Bool.and_eq_true] at hf
    have ih := js_emb c o hf.2 x hx ind
    rw [js_propAcc_ex p x v ind _ ih, receiver_tx c o hf.2]
    simp only [toJsE, txJ]
  | .chunk k a b d, hf, n, h, ind => by
    obtain ⟨p, x, y, z, rfl, hx, hy, hz⟩ := h
    simp only [JsOkE, Bool.and_eq_true] at hf
    have iha := js_emb c a hf.1.1 x hx 0
    have ihd := js_emb c d hf.2 z hz 0
    rcases hy with ⟨hz0, rfl⟩ | ⟨hz0, hy⟩
    · have hb0 := isZero_true b hz0
      subst hb0
      rw [js_strOp_one _ p x z ind _ _ ihd iha, receiver_tx c d hf.2]
      simp only [toJsE, jmem, txJ, np_mem, Bool.false_eq_true, if_false, List.append_assoc]
    · have ihb := js_emb c b hf.1.2 y hy 0
      rw [js_strOp_range _ p x y z ind _ _ _ (emb_isNone b y hy) ihd iha ihb, receiver_tx c d hf.2, toJsE_chunk_range c k a b d hz0]
      simp only [jmem, jcall, txJ, txArgs, np_mem, np_id, Bool.false_eq_true, if_false, List.append_assoc]
      simp [S, List.append_assoc]
  | .the t k as, hf, n, h, ind => by
    match as, hf, h with
    | [e], hf, h =>
      simp only [Emb] at h
      rcases jsOkE_the t k e hf with ⟨hf1, hf2⟩ | ⟨op0, r0, ty0, hs0, hty0, hnone, hnf, hfe⟩ | ⟨rfl, hfe⟩
      · rcases h with ⟨p, q, cls, tb, w, nm, htb, hidx, rfl⟩ | ⟨p, x, op, r, ty, hst, _, _, _⟩ | ⟨ht, _⟩
        · have hnm := idx_tx c e hf2 nm hidx
          subst hnm
          cases t <;> simp only [theTbl, Option.some.injEq, Prod.mk.injEq, reduceCtorEq] at htb
          all_goals
            obtain ⟨rfl, rfl, rfl⟩ := htb
            first
              | (obtain ⟨e1, e2, e3⟩ := js_owner .soundChan (S "sound") (Or.inr (Or.inr ⟨rfl, rfl⟩)) (txJ (toJsE c e)) q ind
                 rw [js_propAcc_obj p _ _ ind _ e1 e2, e3]
                 simp [toJsE, toJsEs, toJsThe, jcall, txJ, txArgs, JE.needsParen, nameOrUnknown, S, List.append_assoc])
              | (obtain ⟨e1, e2, e3⟩ := js_owner .sprite (S "sprite") (Or.inl ⟨rfl, rfl⟩) (txJ (toJsE c e)) q ind
                 rw [js_propAcc_obj p _ _ ind _ e1 e2, e3]
                 simp [toJsE, toJsEs, toJsThe, jcall, txJ, txArgs, JE.needsParen, nameOrUnknown, S, List.append_assoc])
              | (obtain ⟨e1, e2, e3⟩ := js_owner .cast (S "member") (Or.inr (Or.inl ⟨rfl, rfl⟩)) (txJ (toJsE c e)) q ind
                 rw [js_propAcc_obj p _ _ ind _ e1 e2, e3]
                 simp [toJsE, toJsEs, toJsThe, jcall, txJ, txArgs, JE.needsParen, nameOrUnknown, S, List.append_assoc])
        · cases t <;> first | (simp [theTbl] at hf1; done) | (simp [strThe] at hst)
        · subst ht; simp [theTbl] at hf1
      · rcases h with ⟨p, q, cls, tb, w, nm, htb, _, _⟩ | ⟨p, x, op, r, ty, hst, hty, rfl, hx⟩ | ⟨ht, _⟩
        · rw [hnone] at htb; cases htb
        · rw [hs0] at hst
          simp only [Option.some.injEq, Prod.mk.injEq] at hst
          obtain ⟨rfl, rfl⟩ := hst
          rw [hty0] at hty
          simp only [Option.some.injEq] at hty
          subst hty
          have ih := js_emb c e hfe x hx ind
          rcases toJsE_strThe c t k e op0 r0 ty0 hs0 hty0 with ⟨rfl, e1⟩ | ⟨rfl, e1⟩
          · rw [e1, js_unaryStr_last p ty0 x ind _ ih, receiver_tx c e hfe]
            simp only [txJ, np_mem, Bool.false_eq_true, if_false, escQ_last]
            simp [S, List.append_assoc]
          · rw [e1, js_unaryStr_number p ty0 x ind _ ih, receiver_tx c e hfe]
            simp only [jmem, txJ, np_mem, Bool.false_eq_true, if_false]
            simp [S, List.append_assoc]
        · exact absurd ht hnf
      · rcases h with ⟨p, q, cls, tb, w, nm, htb, _, _⟩ | ⟨p, x, op, r, ty, hst, _, _, _⟩ | ⟨_, p, q, x, rfl, hx⟩
        · simp [theTbl] at htb
        · simp [strThe] at hst
        · have ih := js_emb c e hfe x hx ind
          have hu := js_unary true _ q x ind _ _ jsUnaOp_field ih
          have hne : S "field" ++ S "(" ++ txJ (toJsE c e) ++ S ")" ≠ S "tell_obj" := by simp [S]
          rw [js_propAcc_obj p _ _ ind _ hu hne, toJsE_fieldThe]
          simp [jcall, txJ, txArgs, JE.needsParen, jsReceiver, isAsciiDigit, S, List.append_assoc]
    | [], hf, h =>
      cases t with
      | special =>
        have hk : k < 6 := by simpa [JsOkE] using hf
        simp only [Emb] at h
        obtain ⟨p, rfl⟩ := h
        obtain ⟨h1, h2⟩ := special_owner k hk
        simp only [js, leafJs, h1]
        simp [toJsE, toJsEs, toJsThe, hk, jid, txJ, JE.needsParen, nameOrUnknown, Name.str, S]
      | _ => simp [JsOkE] at hf
    | _ :: _ :: _, hf, _ => simp [JsOkE] at hf
  | .key v, hf, n, h, ind => by
    obtain ⟨p, rfl⟩ := h
    by_cases hd : v = "date".toList ∨ v = "time".toList
    · have hd' : v = S "date" ∨ v = S "time" := hd
      simp only [js, hd', if_true, toJsE, hd]
      simp [jmem, jid, txJ, txArgs, JE.needsParen, S]
    · have hd' : ¬ (v = S "date" ∨ v = S "time") := hd
      have ho := key_owner v
      simp only [js, hd', if_false, toJsE, hd, txJ, jid, np_id, Bool.false_eq_true]
      cases hg : dictGet PropTables.knownPropertiesOperation v with
      | ok o => rw [hg] at ho; simp only at ho; simp only [← ho]
      | error e => rw [hg] at ho; simp only at ho; simp only [← ho]; simp [S]
  | .movie _, hf, _, _, _ => by simp [JsOkE] at hf
/-- argument lists: one text per argument, in source order -/
theorem js_embL (c : JCtx) : ∀ (as : List Expr), JsOkL as = true → ∀ (ops : List Node), EmbL as ops → ∀ (ind : Nat),
    Texts true ind ops (txL c as)
  | [], _, ops, h, ind => by
    simp only [EmbL] at h; subst h; exact Texts.nil
  | e :: es, hf, ops, h, ind => by
    obtain ⟨x, xs, rfl, hx, hxs⟩ := h
    simp only [JsOkL, Bool.and_eq_true] at hf
    exact Texts.cons (js_emb c e hf.1 x hx ind) (js_embL c es hf.2 xs hxs ind)
end

/-- the call case for any name of the operand list (`<load_list>` in expression position, `load_list` for a command) and
    any `with_result` flag -/
theorem js_callnode (c : JCtx) (f : Spec.Name) (as : List Expr) (hf : JsOkE (.call f as) = true) (nm : Str) (p p' : Int) (wr : Bool)
    (ops : List Node) (hops : EmbL as ops) (ind : Nat) :
    js true false (.callFn (.s f) p (.loadList nm p' ops.reverse) true false wr .none) ind = .ok (.s (txJ (toJsE c (.call f as)))) := by
  simp only [JsOkE, Bool.and_eq_true, Bool.not_eq_true'] at hf
  obtain ⟨⟨⟨hid, hsp⟩, hlf⟩, has⟩ := hf
  have hnew := jsIdOk_not_kw f hid "new" (by decide)
  have hret := jsIdOk_not_kw f hid "return" (by decide)
  have ht := (js_embL c as has ops hops ind).reverse
  have hl : jsStrs true (if ops.reverse.isEmpty then false else listFn f) ops.reverse ind = .ok (txL c as).reverse := by
    apply jsStrs_texts true _ ind _ _ ht
    intro hgv x hx
    cases as with
    | nil =>
      simp only [EmbL] at hops; subst hops
      simp at hx
    | cons e es =>
      obtain ⟨x0, xs, rfl, hx0, _⟩ := hops
      have hx' : x0 = x := by simpa using hx
      subst hx'
      have hne : (x0 :: xs).reverse.isEmpty = false := by simp
      rw [hne] at hgv
      simp only [Bool.false_eq_true, if_false] at hgv
      rw [hgv] at hlf
      simp only [Bool.true_and] at hlf
      refine emb_not_sym e x0 hx0 ?_
      intro s hs; subst hs; simp [headIsSym] at hlf
  rw [js_call_plain f p p' _ ops.reverse true false wr ind _ hsp hnew hret hl, commaJoinRev_reverse, joinWith_txL,
    toJsE, toJsCall_plain c f as _ hsp hnew]
  simp only [txJ, np_id, Bool.false_eq_true, if_false]

end Drx.LinkJs
