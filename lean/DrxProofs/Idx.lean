/-
  Helper lemmas for C17 (index chunks): shift invariance of the decoder loops, the loops on encoded tables,
  the key-table fold as a grouping, the version-word case analysis, the six round trips.
-/
import Drx.Py
import Drx.PyI
import Drx.Riff
import Drx.Idx
import Drx.IdxSpec
import DrxProofs.Py
import DrxProofs.Fields
namespace Drx
open Drx.Idx Drx.IdxSpec

/-! ### key table -/

theorem parseChunkId_skip (pre rest : Bytes) (pos : Nat) (o : Order) (h : pre.length ≤ pos) :
    Riff.parseChunkId (pre ++ rest) pos o = Riff.parseChunkId rest (pos - pre.length) o := by
  unfold Riff.parseChunkId
  rw [slice_skip _ _ _ _ h]
  have : pos + 4 - pre.length = pos - pre.length + 4 := by omega
  rw [this]

theorem parseChunkId_here (o : Order) (b post : Bytes) (h : b.length = 4) :
    Riff.parseChunkId (encFourCC o b ++ post) 0 o = .ok (b.map Riff.sanitize) := by
  unfold Riff.parseChunkId
  have hl : (encFourCC o b).length = 4 := by cases o <;> simp [encFourCC, h]
  rw [slice_zero_append _ _ _ (by omega)]
  cases o <;> simp [encFourCC, h, List.map_reverse]

/-- one step of the key loop on a spec entry -/
def keyStep (kd : KeyData) (e : KeyEntry) : KeyData := if e.isLink then keyInsert kd e.cas e.ref else kd

theorem keyLoop_skip (o : Order) (pre rest : Bytes) (n i : Nat) (kd : KeyData) :
    keyLoop o (pre ++ rest) n (pre.length + i) kd = keyLoop o rest n i kd := by
  induction n generalizing i kd with
  | zero => simp [keyLoop]
  | succ n ih =>
    unfold keyLoop
    rw [getS_skip _ _ _ _ _ (by omega), getS_skip _ _ _ _ _ (by omega), parseChunkId_skip _ _ _ _ (by omega)]
    have e1 : pre.length + i - pre.length = i := by omega
    have e2 : pre.length + i + 4 - pre.length = i + 4 := by omega
    have e3 : pre.length + i + 8 - pre.length = i + 8 := by omega
    have e4 : pre.length + i + 12 = pre.length + (i + 12) := by omega
    rw [e1, e2, e3, e4]
    simp only [ih]

theorem encKeyEntry_length (o : Order) (e : KeyEntry) (h : e.valid) : (encKeyEntry o e).length = 12 := by
  have : (encFourCC o e.fourcc).length = 4 := by cases o <;> simp [encFourCC, h.2.2]
  simp [encKeyEntry, this]

theorem keyLoop_entries (o : Order) (es : List KeyEntry) (tail : Bytes) (kd : KeyData) (hv : ∀ e ∈ es, e.valid) :
    keyLoop o (encKeyEntries o es ++ tail) es.length 0 kd = .ok (es.foldl keyStep kd) := by
  induction es generalizing kd with
  | nil => simp [keyLoop]
  | cons e es ih =>
    have he := hv e (by simp)
    have hes : ∀ e ∈ es, e.valid := fun x hx => hv x (by simp [hx])
    simp only [List.length_cons, encKeyEntries, List.foldl_cons]
    unfold keyLoop
    have r1 : getS o 4 (encKeyEntry o e ++ encKeyEntries o es ++ tail) 0 = .ok e.nfile := by
      simp only [encKeyEntry, List.append_assoc]
      exact getS4_here _ _ _ he.1
    have r2 : getS o 4 (encKeyEntry o e ++ encKeyEntries o es ++ tail) (0 + 4) = .ok e.cas := by
      simp only [encKeyEntry, List.append_assoc]
      rw [getS_skip _ _ _ _ _ (by simp)]
      simp only [encS_length]
      exact getS4_here _ _ _ he.2.1
    have r3 : Riff.parseChunkId (encKeyEntry o e ++ encKeyEntries o es ++ tail) (0 + 8) o = .ok (e.fourcc.map Riff.sanitize) := by
      simp only [encKeyEntry, List.append_assoc]
      rw [parseChunkId_skip _ _ _ _ (by simp), parseChunkId_skip _ _ _ _ (by simp)]
      simp only [encS_length]
      exact parseChunkId_here _ _ _ he.2.2
    rw [r1, r2, r3]
    simp only [bind, Except.bind]
    have e12 : 0 + 12 = (encKeyEntry o e).length + 0 := by rw [encKeyEntry_length o e he]
    rw [e12, List.append_assoc, keyLoop_skip, ih _ hes]
    rfl


theorem encKeyEntries_append (o : Order) (a b : List KeyEntry) :
    encKeyEntries o (a ++ b) = encKeyEntries o a ++ encKeyEntries o b := by
  induction a with
  | nil => simp [encKeyEntries]
  | cons e es ih => simp [encKeyEntries, ih]

/-- the model on an encoded table: all used slots but the last are folded into the dictionary (F02) -/
theorem parseKey_encKey (o : Order) (u1 cap : Int) (es : List KeyEntry) (tail : Bytes)
    (hu1 : s32 u1) (hcap : s32 cap) (hn : es.length < 2147483648) (hv : ∀ e ∈ es, e.valid) :
    parseKey o (encKey o u1 cap es tail) = .ok (es.dropLast.foldl keyStep []) := by
  unfold parseKey encKey
  rw [getS4_here _ _ _ hu1]
  rw [getS_skip _ _ _ _ _ (by simp)]
  simp only [encS_length]
  rw [getS4_here _ _ _ hcap]
  rw [getS_skip _ _ _ _ _ (by simp), getS_skip _ _ _ _ _ (by simp)]
  simp only [encS_length]
  rw [getS4_here _ _ _ (s32_ofNat _ hn)]
  simp only [bind, Except.bind]
  have e12 : (12 : Nat) = (encS o 4 u1 ++ (encS o 4 cap ++ encS o 4 (es.length : Int))).length + 0 := by simp
  have ea : encS o 4 u1 ++ (encS o 4 cap ++ (encS o 4 (es.length : Int) ++ (encKeyEntries o es ++ tail)))
      = (encS o 4 u1 ++ (encS o 4 cap ++ encS o 4 (es.length : Int))) ++ (encKeyEntries o es ++ tail) := by simp
  rw [ea, e12, keyLoop_skip]
  have hcnt : ((es.length : Int) - 1).toNat = es.dropLast.length := by simp
  rw [hcnt]
  rcases List.eq_nil_or_concat es with h | ⟨es', l, h⟩
  · subst h; simp [keyLoop]
  · subst h
    simp only [List.concat_eq_append, List.dropLast_concat] at hv ⊢
    rw [encKeyEntries_append, List.append_assoc]
    exact keyLoop_entries o es' _ [] (fun e he => hv e (by simp [he]))


/-! #### the fold of `keyInsert` is the grouping by owner -/

theorem mem_firsts (l : List Int) (k : Int) : k ∈ firsts l ↔ k ∈ l := by
  induction l with
  | nil => simp [firsts]
  | cons a l ih =>
    simp only [firsts, List.mem_cons, List.mem_filter, ih]
    by_cases h : k = a <;> simp [h]

theorem firsts_nodup (l : List Int) : (firsts l).Nodup := by
  induction l with
  | nil => simp [firsts]
  | cons a l ih =>
    simp only [firsts, List.nodup_cons]
    exact ⟨by simp [List.mem_filter], ih.filter _⟩

theorem firsts_snoc (l : List Int) (k : Int) :
    firsts (l ++ [k]) = if k ∈ l then firsts l else firsts l ++ [k] := by
  induction l with
  | nil => simp [firsts]
  | cons a l ih =>
    simp only [List.cons_append, firsts, ih]
    by_cases hka : k = a
    · subst hka
      by_cases hkl : k ∈ l <;> simp [hkl, List.filter_append]
    · have hak : ¬ a = k := fun h => hka h.symm
      by_cases hkl : k ∈ l <;> simp [hkl, hka, List.filter_append]

theorem keyInsert_map_mem (ks : List Int) (hnd : ks.Nodup) (k : Int) (hk : k ∈ ks) (g : Int → List KeyRef) (r : KeyRef) :
    keyInsert (ks.map fun k' => (k', g k')) k r = ks.map fun k' => (k', if k' = k then g k' ++ [r] else g k') := by
  induction ks with
  | nil => simp at hk
  | cons a ks ih =>
    rw [List.nodup_cons] at hnd
    simp only [List.map_cons, keyInsert]
    by_cases hak : a = k
    · subst hak
      simp only [if_true]
      congr 1
      apply List.map_congr_left
      intro x hx
      have : x ≠ a := fun h => hnd.1 (h ▸ hx)
      simp [this]
    · simp only [hak, if_false]
      have hk' : k ∈ ks := by
        rcases List.mem_cons.mp hk with h | h
        · exact absurd h.symm hak
        · exact h
      rw [ih hnd.2 hk']

theorem keyInsert_map_not_mem (ks : List Int) (k : Int) (hk : k ∉ ks) (g : Int → List KeyRef) (r : KeyRef) :
    keyInsert (ks.map fun k' => (k', g k')) k r = (ks.map fun k' => (k', g k')) ++ [(k, [r])] := by
  induction ks with
  | nil => simp [keyInsert]
  | cons a ks ih =>
    have hak : ¬ a = k := fun h => hk (by simp [h])
    have hk' : k ∉ ks := fun h => hk (by simp [h])
    simp only [List.map_cons, keyInsert, hak, if_false, ih hk', List.cons_append]

/-- grouping of a list of links -/
def assemble (L : List KeyEntry) : KeyData :=
  (firsts (L.map (·.cas))).map fun k => (k, (L.filter (fun e => e.cas = k)).map KeyEntry.ref)

theorem assemble_snoc (A : List KeyEntry) (b : KeyEntry) :
    keyInsert (assemble A) b.cas b.ref = assemble (A ++ [b]) := by
  unfold assemble
  simp only [List.map_append, List.map_cons, List.map_nil, firsts_snoc]
  by_cases hm : b.cas ∈ A.map (·.cas)
  · simp only [hm, if_true]
    rw [keyInsert_map_mem _ (firsts_nodup _) _ ((mem_firsts _ _).2 hm)]
    apply List.map_congr_left
    intro k _
    by_cases hk : k = b.cas
    · subst hk; simp [List.filter_append]
    · have : ¬ b.cas = k := fun h => hk h.symm
      simp [hk, this, List.filter_append]
  · simp only [hm, if_false]
    rw [keyInsert_map_not_mem _ _ (fun h => hm ((mem_firsts _ _).1 h))]
    simp only [List.map_append, List.map_cons, List.map_nil]
    congr 1
    · apply List.map_congr_left
      intro k hk
      have hk' := (mem_firsts _ _).1 hk
      have : ¬ b.cas = k := fun h => hm (h ▸ hk')
      simp [this, List.filter_append]
    · have hnone : A.filter (fun e => decide (e.cas = b.cas)) = [] := by
        rw [List.filter_eq_nil_iff]
        intro e he
        have : e.cas ≠ b.cas := fun h => hm (by rw [← h]; exact List.mem_map_of_mem he)
        simp [this]
      simp [List.filter_append, hnone]

theorem foldl_keyInsert_assemble (A B : List KeyEntry) :
    B.foldl (fun kd e => keyInsert kd e.cas e.ref) (assemble A) = assemble (A ++ B) := by
  induction B generalizing A with
  | nil => simp
  | cons b B ih =>
    simp only [List.foldl_cons, assemble_snoc]
    rw [ih]
    simp

theorem foldl_keyStep_links (es : List KeyEntry) (kd : KeyData) :
    es.foldl keyStep kd = (links es).foldl (fun kd e => keyInsert kd e.cas e.ref) kd := by
  induction es generalizing kd with
  | nil => simp [links]
  | cons e es ih =>
    simp only [List.foldl_cons, links, List.filter_cons]
    by_cases h : e.isLink
    · simp only [keyStep, h, if_true, decide_true, List.foldl_cons]
      exact ih _
    · simp only [keyStep, h, if_false, decide_false]
      exact ih _

/-- the dictionary built slot by slot is the grouping by owner of the spec -/
theorem foldl_keyStep_eq_group (es : List KeyEntry) : es.foldl keyStep [] = group es := by
  rw [foldl_keyStep_links]
  have := foldl_keyInsert_assemble [] (links es)
  simpa [assemble, group, firsts] using this


/-! ### cast table -/

theorem casLoop_skip (pre rest : Bytes) (i : Nat) : casLoop (pre ++ rest) (pre.length + i) = casLoop rest i := by
  generalize hm : rest.length - i = m
  induction m using Nat.strongRecOn generalizing i with
  | _ m ih =>
    rw [casLoop, casLoop.eq_1 rest]
    by_cases h : rest.length ≥ i + 4
    · have h' : (pre ++ rest).length ≥ pre.length + i + 4 := by simp; omega
      simp only [h, h', dite_true]
      rw [getS_skip _ _ _ _ _ (by omega)]
      have e1 : pre.length + i - pre.length = i := by omega
      have e2 : pre.length + i + 4 = pre.length + (i + 4) := by omega
      rw [e1, e2, ih (rest.length - (i + 4)) (by omega) (i + 4) rfl]
    · have h' : ¬ (pre ++ rest).length ≥ pre.length + i + 4 := by simp; omega
      simp only [h, h', dite_false]

theorem casLoop_short (d : Bytes) (h : d.length < 4) : casLoop d 0 = .ok [] := by
  rw [casLoop]
  have : ¬ d.length ≥ 0 + 4 := by omega
  simp only [this, dite_false]

theorem casLoop_enc (vs : List Int) (tail : Bytes) (ht : tail.length < 4) (hv : ∀ v ∈ vs, s32 v) :
    casLoop (encCas vs tail) 0 = .ok vs := by
  unfold encCas
  induction vs with
  | nil => simpa [encInts] using casLoop_short tail ht
  | cons v vs ih =>
    simp only [encInts, List.append_assoc]
    rw [casLoop]
    have hlen : (encS Order.be 4 v ++ (encInts Order.be 4 vs ++ tail)).length ≥ 0 + 4 := by simp
    rw [dif_pos hlen, getS4_here _ _ _ (hv v (by simp))]
    have e4 : 0 + 4 = (encS Order.be 4 v).length + 0 := by simp
    rw [e4, casLoop_skip, ih (fun x hx => hv x (by simp [hx]))]

theorem getS_ok_of_le (o : Order) (k : Nat) (d : Bytes) (i : Nat) (h : i + k ≤ d.length) : ∃ v, getS o k d i = .ok v := by
  unfold getS unpackS
  have : (slice d i (i + k)).length = k := by simp [slice, List.length_take, List.length_drop]; omega
  simp [this]

/-- the cast table decoder never fails and returns one slot per complete 4-byte group -/
theorem casLoop_total (d : Bytes) (i : Nat) : ∃ l, casLoop d i = .ok l ∧ l.length = (d.length - i) / 4 := by
  generalize hm : d.length - i = m
  induction m using Nat.strongRecOn generalizing i with
  | _ m ih =>
    rw [casLoop]
    by_cases h : d.length ≥ i + 4
    · simp only [h, dite_true]
      obtain ⟨v, hv⟩ := getS_ok_of_le .be 4 d i (by omega)
      obtain ⟨l, hl, hlen⟩ := ih (d.length - (i + 4)) (by omega) (i + 4) rfl
      rw [hv, hl]
      refine ⟨v :: l, rfl, ?_⟩
      simp only [List.length_cons, hlen]
      omega
    · simp only [h, dite_false]
      refine ⟨[], rfl, ?_⟩
      simp only [List.length_nil]
      omega


/-! ### script-context table -/

theorem lctxLoop_skip (pre rest : Bytes) (n i : Nat) :
    lctxLoop (pre ++ rest) n ((pre.length + i : Nat) : Int) = lctxLoop rest n (i : Int) := by
  induction n generalizing i with
  | zero => simp [lctxLoop]
  | succ n ih =>
    unfold lctxLoop
    have a1 : ((pre.length + i : Nat) : Int) + 4 = ((pre.length + i + 4 : Nat) : Int) := by omega
    have a2 : ((pre.length + i : Nat) : Int) + 8 = ((pre.length + i + 8 : Nat) : Int) := by omega
    have a3 : ((pre.length + i : Nat) : Int) + 12 = ((pre.length + (i + 12) : Nat) : Int) := by omega
    have b1 : (i : Int) + 4 = ((i + 4 : Nat) : Int) := by omega
    have b2 : (i : Int) + 8 = ((i + 8 : Nat) : Int) := by omega
    have b3 : (i : Int) + 12 = ((i + 12 : Nat) : Int) := by omega
    rw [a1, a2, a3, b1, b2, b3]
    simp only [getUI_nat, getSI_nat]
    rw [getU_skip _ _ _ _ _ (by omega), getS_skip _ _ _ _ _ (by omega), getS_skip _ _ _ _ _ (by omega), ih]
    have e1 : pre.length + i - pre.length = i := by omega
    have e2 : pre.length + i + 4 - pre.length = i + 4 := by omega
    have e3 : pre.length + i + 8 - pre.length = i + 8 := by omega
    rw [e1, e2, e3]

theorem encLctxEntry_length (e : LctxEntry) : (encLctxEntry e).length = 12 := by simp [encLctxEntry]

theorem lctxLoop_entries (es : List LctxEntry) (tail : Bytes) (hv : ∀ e ∈ es, e.valid) :
    lctxLoop (encLctxEntries es ++ tail) es.length ((0 : Nat) : Int) = .ok (es.map LctxEntry.ref) := by
  induction es with
  | nil => simp [lctxLoop]
  | cons e es ih =>
    have he := hv e (by simp)
    simp only [List.length_cons, encLctxEntries, List.map_cons]
    unfold lctxLoop
    have b1 : ((0 : Nat) : Int) + 4 = ((4 : Nat) : Int) := by omega
    have b2 : ((0 : Nat) : Int) + 8 = ((8 : Nat) : Int) := by omega
    have b3 : ((0 : Nat) : Int) + 12 = (((encLctxEntry e).length + 0 : Nat) : Int) := by rw [encLctxEntry_length]; omega
    rw [b1, b2, b3]
    simp only [getUI_nat, getSI_nat, List.append_assoc]
    rw [lctxLoop_skip, ih (fun x hx => hv x (by simp [hx]))]
    have r1 : getU .be 4 (encLctxEntry e ++ (encLctxEntries es ++ tail)) 0 = .ok e.key := by
      simp only [encLctxEntry, List.append_assoc]
      exact getU_here _ _ _ _ (by have := he.1; omega)
    have r2 : getS .be 4 (encLctxEntry e ++ (encLctxEntries es ++ tail)) 4 = .ok e.scr := by
      simp only [encLctxEntry, List.append_assoc]
      rw [getS_skip _ _ _ _ _ (by simp)]
      simp only [encOrd_length]
      exact getS4_here _ _ _ he.2.1
    have r3 : getS .be 4 (encLctxEntry e ++ (encLctxEntries es ++ tail)) 8 = .ok e.unk := by
      simp only [encLctxEntry, List.append_assoc]
      rw [getS_skip _ _ _ _ _ (by simp), getS_skip _ _ _ _ _ (by simp)]
      simp only [encOrd_length, encS_length]
      exact getS4_here _ _ _ he.2.2
    rw [r1, r2, r3]
    rfl

theorem parseLctx_encLctx (u1 u2 n2 : Int) (gap : Bytes) (es : List LctxEntry) (tail : Bytes)
    (hu1 : s32 u1) (hu2 : s32 u2) (hn2 : s32 n2) (hgap : 18 + gap.length < 32768) (hn : es.length < 2147483648)
    (hv : ∀ e ∈ es, e.valid) :
    parseLctx (encLctx u1 u2 n2 gap es tail) = .ok (es.map LctxEntry.ref) := by
  unfold parseLctx encLctx
  rw [getS4_here _ _ _ hu1]
  rw [getS_skip _ _ _ _ _ (by simp)]
  simp only [encS_length]
  rw [getS4_here _ _ _ hu2]
  rw [getS_skip _ _ _ _ _ (by simp), getS_skip _ _ _ _ _ (by simp)]
  simp only [encS_length]
  rw [getS4_here _ _ _ (s32_ofNat _ hn)]
  rw [getS_skip _ _ _ _ _ (by simp), getS_skip _ _ _ _ _ (by simp), getS_skip _ _ _ _ _ (by simp)]
  simp only [encS_length]
  rw [getS4_here _ _ _ hn2]
  rw [getS_skip _ _ _ _ _ (by simp), getS_skip _ _ _ _ _ (by simp), getS_skip _ _ _ _ _ (by simp), getS_skip _ _ _ _ _ (by simp)]
  simp only [encS_length]
  rw [getS2_here _ _ _ (s16_ofNat _ hgap)]
  simp only [bind, Except.bind, Int.toNat_natCast]
  have ea : encS Order.be 4 u1 ++ (encS Order.be 4 u2 ++ (encS Order.be 4 (es.length : Int) ++ (encS Order.be 4 n2 ++
      (encS Order.be 2 ((18 + gap.length : Nat) : Int) ++ (gap ++ (encLctxEntries es ++ tail))))))
      = (encS Order.be 4 u1 ++ (encS Order.be 4 u2 ++ (encS Order.be 4 (es.length : Int) ++ (encS Order.be 4 n2 ++
      (encS Order.be 2 ((18 + gap.length : Nat) : Int) ++ gap))))) ++ (encLctxEntries es ++ tail) := by simp
  have el : (18 + gap.length : Nat) = (encS Order.be 4 u1 ++ (encS Order.be 4 u2 ++ (encS Order.be 4 (es.length : Int) ++ (encS Order.be 4 n2 ++
      (encS Order.be 2 ((18 + gap.length : Nat) : Int) ++ gap))))).length + 0 := by simp; omega
  rw [ea]
  conv => lhs; arg 3; rw [el]
  rw [lctxLoop_skip]
  exact lctxLoop_entries es tail hv


/-! ### name table -/

theorem lnamLoop_skip (dec : Dec) (pre rest : Bytes) (n i : Nat) :
    lnamLoop dec (pre ++ rest) n (pre.length + i) = lnamLoop dec rest n i := by
  induction n generalizing i with
  | zero => simp [lnamLoop]
  | succ n ih =>
    unfold lnamLoop
    rw [byteAt_skip _ _ _ (by omega)]
    have e1 : pre.length + i - pre.length = i := by omega
    rw [e1]
    cases byteAt rest i with
    | error e => rfl
    | ok nb =>
      simp only [bind, Except.bind]
      rw [slice_skip _ _ _ _ (by omega)]
      have e2 : pre.length + i + 1 - pre.length = i + 1 := by omega
      have e3 : pre.length + i + 1 + nb.toNat - pre.length = i + 1 + nb.toNat := by omega
      have e4 : pre.length + i + 1 + nb.toNat = pre.length + (i + 1 + nb.toNat) := by omega
      rw [e2, e3, e4, ih]

theorem encName_length (n : Bytes) : (encName n).length = n.length + 1 := by simp [encName]

theorem lnamLoop_names (dec : Dec) (names : List Bytes) (tail : Bytes) (hv : ∀ n ∈ names, n.length < 256) :
    lnamLoop dec (encNames names ++ tail) names.length 0 = decodeAll dec names := by
  induction names with
  | nil => simp [lnamLoop, decodeAll]
  | cons n ns ih =>
    have hn := hv n (by simp)
    simp only [List.length_cons, encNames, decodeAll, List.append_assoc]
    unfold lnamLoop
    have r1 : byteAt (encName n ++ (encNames ns ++ tail)) 0 = .ok (UInt8.ofNat n.length) := by
      simp [encName, byteAt]
    have hb : (UInt8.ofNat n.length).toNat = n.length := by
      simp only [UInt8.toNat_ofNat']; omega
    rw [r1]
    simp only [bind, Except.bind, hb]
    have r2 : slice (encName n ++ (encNames ns ++ tail)) (0 + 1) (0 + 1 + n.length) = n := by
      simp [encName, slice]
    rw [r2]
    have e : 0 + 1 + n.length = (encName n).length + 0 := by rw [encName_length]; omega
    rw [e, lnamLoop_skip, ih (fun x hx => hv x (by simp [hx]))]

theorem parseLnam_encLnam (dec : Dec) (u1 u2 fs u3 : Int) (names : List Bytes) (tail : Bytes)
    (hu1 : s32 u1) (hu2 : s32 u2) (hfs : s32 fs) (hu3 : s16 u3) (hn : names.length < 32768)
    (hv : ∀ n ∈ names, n.length < 256) :
    parseLnam dec (encLnam u1 u2 fs u3 names tail) = decodeAll dec names := by
  unfold parseLnam encLnam
  rw [getS4_here _ _ _ hu1]
  rw [getS_skip _ _ _ _ _ (by simp)]
  simp only [encS_length]
  rw [getS4_here _ _ _ hu2]
  rw [getS_skip _ _ _ _ _ (by simp), getS_skip _ _ _ _ _ (by simp)]
  simp only [encS_length]
  rw [getS4_here _ _ _ hfs]
  rw [getS_skip _ _ _ _ _ (by simp), getS_skip _ _ _ _ _ (by simp), getS_skip _ _ _ _ _ (by simp)]
  simp only [encS_length]
  rw [getS4_here _ _ _ hfs]
  rw [getS_skip _ _ _ _ _ (by simp), getS_skip _ _ _ _ _ (by simp), getS_skip _ _ _ _ _ (by simp), getS_skip _ _ _ _ _ (by simp)]
  simp only [encS_length]
  rw [getS2_here _ _ _ hu3]
  rw [getS_skip _ _ _ _ _ (by simp), getS_skip _ _ _ _ _ (by simp), getS_skip _ _ _ _ _ (by simp), getS_skip _ _ _ _ _ (by simp),
      getS_skip _ _ _ _ _ (by simp)]
  simp only [encS_length]
  rw [getS2_here _ _ _ (s16_ofNat _ hn)]
  simp only [bind, Except.bind, Int.toNat_natCast, ne_eq, not_true_eq_false, if_false]
  have ea : encS Order.be 4 u1 ++ (encS Order.be 4 u2 ++ (encS Order.be 4 fs ++ (encS Order.be 4 fs ++ (encS Order.be 2 u3 ++
      (encS Order.be 2 (names.length : Int) ++ (encNames names ++ tail))))))
      = (encS Order.be 4 u1 ++ (encS Order.be 4 u2 ++ (encS Order.be 4 fs ++ (encS Order.be 4 fs ++ (encS Order.be 2 u3 ++
      encS Order.be 2 (names.length : Int)))))) ++ (encNames names ++ tail) := by simp
  have el : (20 : Nat) = (encS Order.be 4 u1 ++ (encS Order.be 4 u2 ++ (encS Order.be 4 fs ++ (encS Order.be 4 fs ++ (encS Order.be 2 u3 ++
      encS Order.be 2 (names.length : Int)))))).length + 0 := by simp
  rw [ea]
  conv => lhs; arg 4; rw [el]
  rw [lnamLoop_skip]
  exact lnamLoop_names dec names tail hv


/-! ### marker list -/

theorem vwlbLoop_skip (dec : Dec) (pre rest : Bytes) (m n i : Nat) :
    vwlbLoop dec (pre ++ rest) (pre.length + m) n (pre.length + i) = vwlbLoop dec rest m n i := by
  induction n generalizing i with
  | zero => simp [vwlbLoop]
  | succ n ih =>
    unfold vwlbLoop
    rw [getS_skip _ _ _ _ _ (by omega), getU_skip _ _ _ _ _ (by omega), getU_skip _ _ _ _ _ (by omega)]
    have e1 : pre.length + i - pre.length = i := by omega
    have e2 : pre.length + i + 2 - pre.length = i + 2 := by omega
    have e3 : pre.length + i + 6 - pre.length = i + 6 := by omega
    have e4 : pre.length + i + 4 = pre.length + (i + 4) := by omega
    rw [e1, e2, e3, e4, ih]
    cases getS Order.be 2 rest i with
    | error e => rfl
    | ok fr =>
      cases getU Order.be 2 rest (i + 2) with
      | error e => rfl
      | ok s =>
        cases getU Order.be 2 rest (i + 6) with
        | error e => rfl
        | ok e =>
          simp only [bind, Except.bind]
          have c : (pre.length + m + e < pre.length + m + s) ↔ (m + e < m + s) := by omega
          simp only [c]
          split
          · rfl
          · rw [slice_skip _ _ _ _ (by omega)]
            have f1 : pre.length + m + s - pre.length = m + s := by omega
            have f2 : pre.length + m + e - pre.length = m + e := by omega
            rw [f1, f2]

theorem encRecs_length (sf : Int) (ms : List MarkerSpec) (off : Nat) : (encRecs sf ms off).length = 4 * ms.length + 4 := by
  induction ms generalizing off with
  | nil => simp [encRecs]
  | cons m ms ih => simp [encRecs, ih]; omega

theorem encRecs_head (sf : Int) (ms : List MarkerSpec) (off : Nat) :
    ∃ f rest, encRecs sf ms off = encS .be 2 f ++ (encOrd .be 2 off ++ rest) := by
  cases ms with
  | nil => exact ⟨sf, [], by simp [encRecs]⟩
  | cons m ms => exact ⟨m.frame, _, rfl⟩

theorem vwlbLoop_recs (dec : Dec) (sf : Int) (ms : List MarkerSpec) (off : Nat) (P tail : Bytes)
    (hP : P.length = off) (hoff : off + (pool ms).length < 65536) (hf : ∀ m ∈ ms, s16 m.frame) :
    vwlbLoop dec (encRecs sf ms off ++ (P ++ (pool ms ++ tail))) (4 * ms.length + 4) ms.length 0 = decodeMarkers dec ms := by
  induction ms generalizing off P with
  | nil => simp [vwlbLoop, decodeMarkers]
  | cons m ms ih =>
    have hm := hf m (by simp)
    simp only [pool, List.length_append] at hoff
    obtain ⟨f, rest, hhead⟩ := encRecs_head sf ms (off + m.label.length)
    simp only [List.length_cons, decodeMarkers]
    unfold vwlbLoop
    have r1 : getS .be 2 (encRecs sf (m :: ms) off ++ (P ++ (pool (m :: ms) ++ tail))) 0 = .ok m.frame := by
      simp only [encRecs, List.append_assoc]
      exact getS2_here _ _ _ hm
    have r2 : getU .be 2 (encRecs sf (m :: ms) off ++ (P ++ (pool (m :: ms) ++ tail))) (0 + 2) = .ok off := by
      simp only [encRecs, List.append_assoc]
      rw [getU_skip _ _ _ _ _ (by simp)]
      simp only [encS_length]
      exact getU_here _ _ _ _ (by omega)
    have r3 : getU .be 2 (encRecs sf (m :: ms) off ++ (P ++ (pool (m :: ms) ++ tail))) (0 + 6) = .ok (off + m.label.length) := by
      simp only [encRecs, hhead, List.append_assoc]
      rw [getU_skip _ _ _ _ _ (by simp), getU_skip _ _ _ _ _ (by simp), getU_skip _ _ _ _ _ (by simp)]
      simp only [encS_length, encOrd_length]
      exact getU_here _ _ _ _ (by omega)
    rw [r1, r2, r3]
    simp only [bind, Except.bind]
    rw [if_neg (by omega)]
    have hlen : (encRecs sf (m :: ms) off).length = 4 * (ms.length + 1) + 4 := by
      rw [encRecs_length]; simp
    have r4 : slice (encRecs sf (m :: ms) off ++ (P ++ (pool (m :: ms) ++ tail))) (4 * (ms.length + 1) + 4 + off)
        (4 * (ms.length + 1) + 4 + (off + m.label.length)) = m.label := by
      rw [slice_skip _ _ _ _ (by omega), slice_skip _ _ _ _ (by omega)]
      simp only [pool, List.append_assoc]
      have a : 4 * (ms.length + 1) + 4 + off - (encRecs sf (m :: ms) off).length - P.length = 0 := by omega
      have b : 4 * (ms.length + 1) + 4 + (off + m.label.length) - (encRecs sf (m :: ms) off).length - P.length = m.label.length := by omega
      rw [a, b]
      exact slice_zero_append _ _ _ rfl
    rw [r4]
    have ed : encRecs sf (m :: ms) off ++ (P ++ (pool (m :: ms) ++ tail))
        = (encS .be 2 m.frame ++ encOrd .be 2 off) ++ (encRecs sf ms (off + m.label.length) ++ ((P ++ m.label) ++ (pool ms ++ tail))) := by
      simp [encRecs, pool]
    have e1 : 4 * (ms.length + 1) + 4 = (encS Order.be 2 m.frame ++ encOrd Order.be 2 off).length + (4 * ms.length + 4) := by simp; omega
    have e2 : 0 + 4 = (encS Order.be 2 m.frame ++ encOrd Order.be 2 off).length + 0 := by simp
    rw [ed, e1, e2, vwlbLoop_skip, ih (off + m.label.length) (P ++ m.label) (by simp [hP]) (by omega) (fun x hx => hf x (by simp [hx]))]

theorem parseVwlb_encVwlb (dec : Dec) (ms : List MarkerSpec) (sf : Int) (tail : Bytes)
    (hn : ms.length < 32768) (hpool : (pool ms).length < 65536) (hf : ∀ m ∈ ms, s16 m.frame) :
    parseVwlb dec (encVwlb ms sf tail) = decodeMarkers dec ms := by
  unfold parseVwlb encVwlb
  rw [getS2_here _ _ _ (s16_ofNat _ hn)]
  simp only [bind, Except.bind, Int.toNat_natCast]
  have hm : (2 + 4 * ((ms.length : Int) + 1)).toNat = (encS Order.be 2 (ms.length : Int)).length + (4 * ms.length + 4) := by
    simp; omega
  have h2 : (2 : Nat) = (encS Order.be 2 (ms.length : Int)).length + 0 := by simp
  rw [hm]
  conv => lhs; arg 5; rw [h2]
  rw [vwlbLoop_skip]
  have := vwlbLoop_recs dec sf ms 0 [] tail rfl (by simpa using hpool) hf
  simpa using this

theorem classOf_eq_specClass (hi lo : Nat) : classOf (hi : Int) (lo : Int) = specClass hi lo := by
  have c1 : ((lo : Int) < 0xC0) ↔ lo < 0xC0 := by omega
  have c2 : ((lo : Int) < 0xC6) ↔ lo < 0xC6 := by omega
  have c3 : ((lo : Int) ≤ 0x3A) ↔ lo ≤ 0x3A := by omega
  have c4 : ((lo : Int) ≤ 0x42) ↔ lo ≤ 0x42 := by omega
  have c5 : ((lo : Int) = 0x3C) ↔ lo = 0x3C := by omega
  by_cases h4 : hi = 4
  · subst h4; simp [classOf, specClass, c1, c2]
  by_cases h5 : hi = 5
  · subst h5; simp [classOf, specClass]
  by_cases h7 : hi = 7
  · subst h7; simp [classOf, specClass, c3, c4]
  by_cases h16 : hi = 0x16
  · subst h16; simp [classOf, specClass, c5]
  have d4 : ¬ ((hi : Int) = 4) := by omega
  have d5 : ¬ ((hi : Int) = 5) := by omega
  have d7 : ¬ ((hi : Int) = 7) := by omega
  have d16 : ¬ ((hi : Int) = 0x16) := by omega
  unfold classOf specClass
  simp only [d4, d5, d7, d16, if_false, false_and]

/-- every 16-bit version word: the signed reading, arithmetic shift and masks of the code give the class of the two stored bytes -/
theorem versionClass_word (w : Nat) (h : w < 65536) : versionClass (toSigned 16 w) = specClass (w / 256) (w % 256) := by
  unfold versionClass toSigned
  rw [← classOf_eq_specClass, Int.shiftRight_eq_div_pow]
  have p15 : (2 ^ (16 - 1) : Nat) = 32768 := by decide
  have p16 : (2 ^ 16 : Nat) = 65536 := by decide
  have p8 : ((2 ^ 8 : Nat) : Int) = 256 := by decide
  rw [p15, p16, p8]
  split
  · have a : ((w : Int) / 256) % 256 = ((w / 256 : Nat) : Int) := by omega
    have b : (w : Int) % 256 = ((w % 256 : Nat) : Int) := by omega
    rw [a, b]
  · have a : (((w : Int) - (65536 : Nat)) / 256) % 256 = ((w / 256 : Nat) : Int) := by omega
    have b : ((w : Int) - (65536 : Nat)) % 256 = ((w % 256 : Nat) : Int) := by omega
    rw [a, b]


theorem lookupName_mem (l : List (Int × String)) (x : Int) (v : String) (h : lookupName l x = some v) : (x, v) ∈ l := by
  induction l with
  | nil => simp [lookupName] at h
  | cons p ps ih =>
    obtain ⟨k, w⟩ := p
    unfold lookupName at h
    by_cases hk : k = x
    · simp only [hk, if_true, Option.some.injEq] at h
      simp [hk, h]
    · simp only [hk, if_false] at h
      exact List.mem_cons_of_mem _ (ih h)

/-- two association lists that contain each other's entries (as lookups) agree on every key -/
theorem lookupName_ext (A B : List (Int × String))
    (hab : ∀ p ∈ A, lookupName B p.1 = some p.2) (hba : ∀ p ∈ B, lookupName A p.1 = some p.2) (x : Int) :
    lookupName A x = lookupName B x := by
  cases ha : lookupName A x with
  | some v => exact (hab _ (lookupName_mem A x v ha)).symm
  | none =>
    cases hb : lookupName B x with
    | none => rfl
    | some w =>
      have := hba _ (lookupName_mem B x w hb)
      simp only [ha] at this
      cases this

/-- the generated DIR_PALETTE_NAMES and the spec's table of built-in palettes name the same palettes (any order) -/
theorem paletteNames_agree :
    (∀ p ∈ Gen.IdxNames.paletteNames, lookupName builtinPalettes p.1 = some p.2) ∧
    (∀ p ∈ builtinPalettes, lookupName Gen.IdxNames.paletteNames p.1 = some p.2) := by decide

theorem paletteName_eq_spec (v : Int) : paletteName v = specPaletteName v := by
  unfold paletteName specPaletteName
  simp only [lookupName_ext _ _ paletteNames_agree.1 paletteNames_agree.2]
  rfl

theorem encVwcf_length (s : VwcfSpec) (hv : s.valid) : (encVwcf s).length = 80 + s.tail.length := by
  obtain ⟨_, _, _, _, _, _, _, _, h1, h2, _, h3, _, _⟩ := hv
  simp [encVwcf, h1, h2, h3]; omega

set_option hygiene false in
local macro "skipS" : tactic =>
  `(tactic| ((repeat (rw [getS_skip]; rotate_left; (· simp [h1, h2, h3]))); simp only [encS_length, encOrd_length, h1, h2, h3, List.length_cons, List.length_nil]))

theorem parseVwcf_encVwcf (s : VwcfSpec) (hv : s.valid) : parseVwcf (encVwcf s) = .ok s.meaning := by
  have hlen := encVwcf_length s hv
  obtain ⟨hw, htop, hleft, hbot, hright, hcs, hce, hrate, h1, h2, hp46, h3, hp4e, htail⟩ := hv
  have hcls := versionClass_word s.word hw
  have q0 : getS .be 2 (encVwcf s) 0 = .ok ((80 + s.tail.length : Nat) : Int) := by
    unfold encVwcf; exact getS2_here _ _ _ (s16_ofNat _ (by omega))
  have q1 : getS .be 2 (encVwcf s) 2 = .ok (toSigned 16 s.word) := by
    unfold encVwcf; skipS; exact getS_ord_here _ 2 _ _ (by simpa using hw)
  have q2 : getS .be 2 (encVwcf s) 4 = .ok s.top := by
    unfold encVwcf; skipS; exact getS2_here _ _ _ htop
  have q3 : getS .be 2 (encVwcf s) 6 = .ok s.left := by
    unfold encVwcf; skipS; exact getS2_here _ _ _ hleft
  have q4 : getS .be 2 (encVwcf s) 8 = .ok s.bottom := by
    unfold encVwcf; skipS; exact getS2_here _ _ _ hbot
  have q5 : getS .be 2 (encVwcf s) 10 = .ok s.right := by
    unfold encVwcf; skipS; exact getS2_here _ _ _ hright
  have q6 : getS .be 2 (encVwcf s) 12 = .ok s.castStart := by
    unfold encVwcf; skipS; exact getS2_here _ _ _ hcs
  have q7 : getS .be 2 (encVwcf s) 14 = .ok s.castEnd := by
    unfold encVwcf; skipS; exact getS2_here _ _ _ hce
  have q8 : getS .be 2 (encVwcf s) 16 = .ok s.rate := by
    unfold encVwcf; skipS; exact getS2_here _ _ _ hrate
  have q9 : byteAt (encVwcf s) 27 = .ok s.stageColor := by
    unfold encVwcf
    repeat (rw [byteAt_skip]; rotate_left; (· simp [h1]))
    simp [h1, byteAt]
  have q10 : getS .be 2 (encVwcf s) 0x46 = .ok s.pal46 := by
    unfold encVwcf; skipS; exact getS2_here _ _ _ hp46
  have q11 : getS .be 2 (encVwcf s) 0x4E = .ok s.pal4e := by
    unfold encVwcf; skipS; exact getS2_here _ _ _ hp4e
  unfold parseVwcf
  rw [q0, q1, q2, q3, q4, q5, q6, q7, q8, q9, hlen]
  simp only [bind, Except.bind, ne_eq, not_true_eq_false, if_false, VwcfSpec.meaning, hcls]
  cases hc : specClass (s.word / 256) (s.word % 256) <;> simp [paletteOffset, q10, q11, Except.map, pure, Except.pure, paletteName_eq_spec]

end Drx
