/-
  Bounds for the counting twins, part 3: condition_detect_in_statements (`condDetectDS` / `condJzsS` / `nestedSD`).

  `cond_accounting`: for EVERY input, the rounds of all loops of all invocations are at most
        (4·maxLen + 1) · (calls + ops)
  where maxLen = longest statement list an invocation was given, calls = invocations, ops = rounds of `for op in jzOperations`
  (each invocation scans its list once; each jz operation costs one round of the outer loop, two scans of the list and two
  removal loops over parts of it).  With ops ≤ n and calls ≤ 3n + 1 this is the quadratic bound of F37.
-/
import DrxProofs.LscrStepsLoop
namespace Drx.Lscr.Steps
open Drx Drx.Gen Drx.Lscr

/-! ### FS arithmetic -/

@[simp] theorem FS.add_steps (a b : FS) : (a + b).steps = a.steps + b.steps := rfl
@[simp] theorem FS.add_ops (a b : FS) : (a + b).ops = a.ops + b.ops := rfl
@[simp] theorem FS.add_calls (a b : FS) : (a + b).calls = a.calls + b.calls := rfl
@[simp] theorem FS.add_maxLen (a b : FS) : (a + b).maxLen = max a.maxLen b.maxLen := rfl

/-! ### lengths of the list rewrites -/

theorem pyRemove_length {l l' : List Node} {x : Node} (h : pyRemove l x = .ok l') : l'.length + 1 = l.length := by
  induction l generalizing l' with
  | nil => simp [pyRemove] at h
  | cons y ys ih =>
    unfold pyRemove at h
    split at h
    · cases h; simp
    · cases hr : pyRemove ys x with
      | error e => rw [hr] at h; simp [Except.map] at h
      | ok v =>
        rw [hr] at h; simp only [Except.map, Except.ok.injEq] at h
        have := ih hr
        rw [← h]; simp only [List.length_cons]; omega

theorem pyRemoveAll_length {l l' xs : List Node} (h : pyRemoveAll l xs = .ok l') : l'.length + xs.length = l.length := by
  unfold pyRemoveAll at h
  induction xs generalizing l with
  | nil => simp only [List.foldlM, pure, Except.pure, Except.ok.injEq] at h; rw [h]; simp
  | cons x xs ih =>
    simp only [List.foldlM, bind, Except.bind] at h
    cases hr : pyRemove l x with
    | error e => rw [hr] at h; cases h
    | ok v =>
      rw [hr] at h
      have a := pyRemove_length hr
      have b := ih h
      simp only [List.length_cons]; omega

theorem replaceFirstCode_length {op new : Node} {l l' : List Node} (h : replaceFirstCode op new l = .ok l') : l'.length = l.length := by
  induction l generalizing l' with
  | nil => simp only [replaceFirstCode, Except.ok.injEq] at h; rw [← h]
  | cons st rest ih =>
    unfold replaceFirstCode at h
    split at h
    · split at h
      · cases h; simp
      · cases hr : replaceFirstCode op new rest with
        | error e => rw [hr] at h; simp [Except.map] at h
        | ok v =>
          rw [hr] at h; simp only [Except.map, Except.ok.injEq] at h
          rw [← h]; simp only [List.length_cons]; rw [ih hr]
    · cases h

theorem ifScan_length {op ph : Node} {start stop : Int} {l l1 coll : List Node} (h : ifScan op ph start stop l = .ok (l1, coll)) :
    l1.length = l.length ∧ coll.length ≤ l.length := by
  induction l generalizing l1 coll with
  | nil => simp only [ifScan, Except.ok.injEq, Prod.mk.injEq] at h; simp [← h.1, ← h.2]
  | cons st rest ih =>
    unfold ifScan at h
    split at h
    · split at h
      · cases hr : ifScan op ph start stop rest with
        | error e => rw [hr] at h; simp [bind, Except.bind] at h
        | ok v =>
          obtain ⟨a, b⟩ := v
          rw [hr] at h
          simp only [bind, Except.bind, pure, Except.pure, Except.ok.injEq, Prod.mk.injEq] at h
          have := ih hr
          rw [← h.1, ← h.2]; simp only [List.length_cons]; omega
      · simp only at h
        split at h
        · simp only [Except.ok.injEq, Prod.mk.injEq] at h
          rw [← h.1, ← h.2]
          constructor
          · rfl
          · split <;> simp
        · cases hr : ifScan op ph start stop rest with
          | error e => rw [hr] at h; simp [bind, Except.bind] at h
          | ok v =>
            obtain ⟨a, b⟩ := v
            rw [hr] at h
            simp only [bind, Except.bind, pure, Except.pure, Except.ok.injEq, Prod.mk.injEq] at h
            have := ih hr
            rw [← h.1, ← h.2]
            constructor
            · simp only [List.length_cons]; omega
            · split <;> simp only [List.length_cons] <;> omega
    · cases h

theorem elseScan_length (start stop : Int) (l : List Node) : (elseScan start stop l).length ≤ l.length := by
  induction l with
  | nil => simp [elseScan]
  | cons st rest ih =>
    unfold elseScan
    simp only
    split
    · split <;> simp
    · split <;> simp only [List.length_append, List.length_cons, List.length_nil] <;> omega

theorem finalizeIf_length (opos : Int) (final : Node) (l : List Node) : (finalizeIf opos final l).length = l.length := by
  simp [finalizeIf]

theorem replaceRounds_le (op : Node) (l : List Node) : replaceRounds op l ≤ l.length := by
  induction l with
  | nil => simp [replaceRounds]
  | cons st rest ih =>
    unfold replaceRounds
    split
    · split <;> simp only [List.length_cons] <;> omega
    · simp

theorem ifScanRounds_le (op : Node) (stop : Int) (l : List Node) : ifScanRounds op stop l ≤ l.length := by
  induction l with
  | nil => simp [ifScanRounds]
  | cons st rest ih =>
    unfold ifScanRounds
    split
    · split
      · simp only [List.length_cons]; omega
      · split <;> simp only [List.length_cons] <;> omega
    · simp

theorem elseScanRounds_le (stop : Int) (l : List Node) : elseScanRounds stop l ≤ l.length := by
  induction l with
  | nil => simp [elseScanRounds]
  | cons st rest ih =>
    unfold elseScanRounds
    split <;> simp only [List.length_cons] <;> omega


/-! ### the accounting invariant -/

/-- rounds ≤ (4·M + 1)·(calls + ops) as soon as no invocation saw a list longer than `M` -/
def Acc (M : Nat) (fs : FS) : Prop := fs.maxLen ≤ M → fs.steps ≤ (4 * M + 1) * (fs.calls + fs.ops)

theorem nestedSD_acc (M d' : Nat) (hA : ∀ stmts roEnd, Acc M (condDetectDS d' stmts roEnd).1) (roEnd : Option Int) (l : List Node) :
    Acc M (nestedSD d' roEnd l).1.1 ∧ (nestedSD d' roEnd l).1.2 ≤ l.length ∧
    ∀ l', (nestedSD d' roEnd l).2 = .ok l' → l'.length = l.length := by
  induction l with
  | nil => rw [nestedSD]; simp [Acc]
  | cons st rest ih =>
    rw [nestedSD.eq_def]
    obtain ⟨ih1, ih2, ih3⟩ := ih
    simp only
    split
    · rename_i p rp re c body t s v sg vr
      have hb := hA body (some re)
      split
      · rename_i e he
        refine ⟨hb, by simp, ?_⟩
        intro l' h; cases h
      · rename_i body' hbody
        refine ⟨?_, by simp only [List.length_cons]; omega, ?_⟩
        · intro hm
          simp only [FS.add_maxLen] at hm
          have h1 := hb (by omega)
          have h2 := ih1 (by omega)
          simp only [FS.add_steps, FS.add_calls, FS.add_ops, Nat.mul_add] at h1 h2 ⊢
          omega
        · intro l' h
          cases hq : (nestedSD d' roEnd rest).2 with
          | error e => rw [hq] at h; simp [Except.map] at h
          | ok v =>
            rw [hq] at h; simp only [Except.map, Except.ok.injEq] at h
            rw [← h]; simp only [List.length_cons]; rw [ih3 v hq]
    · rename_i p tp operand inner closed
      have hb := hA inner roEnd
      split
      · rename_i e he
        refine ⟨hb, by simp, ?_⟩
        intro l' h; cases h
      · rename_i inner' hinner
        refine ⟨?_, by simp only [List.length_cons]; omega, ?_⟩
        · intro hm
          simp only [FS.add_maxLen] at hm
          have h1 := hb (by omega)
          have h2 := ih1 (by omega)
          simp only [FS.add_steps, FS.add_calls, FS.add_ops, Nat.mul_add] at h1 h2 ⊢
          omega
        · intro l' h
          cases hq : (nestedSD d' roEnd rest).2 with
          | error e => rw [hq] at h; simp [Except.map] at h
          | ok v =>
            rw [hq] at h; simp only [Except.map, Except.ok.injEq] at h
            rw [← h]; simp only [List.length_cons]; rw [ih3 v hq]
    · dsimp only
      refine ⟨ih1, by simp only [List.length_cons]; omega, ?_⟩
      intro l' h
      cases hq : (nestedSD d' roEnd rest).2 with
      | error e => rw [hq] at h; simp [Except.map] at h
      | ok v =>
        rw [hq] at h; simp only [Except.map, Except.ok.injEq] at h
        rw [← h]; simp only [List.length_cons]; rw [ih3 v hq]


theorem acc_ite {M : Nat} {c : Prop} [Decidable c] {x y : FS × R (List Node)} (h1 : c → Acc M x.1) (h2 : ¬ c → Acc M y.1) :
    Acc M (if c then x else y).1 := by
  by_cases h : c
  · simp only [h, if_true]; exact h1 h
  · simp only [h, if_false]; exact h2 h

/-- a leaf without recursive parts -/
macro "acc_leaf" : tactic =>
  `(tactic| (intro hm; simp only [FS.add_maxLen] at hm; simp only [FS.add_steps, FS.add_calls, FS.add_ops, Nat.mul_add]; omega))

theorem condJzsS_acc (M d n : Nat) (hn : n ≤ M)
    (hA : ∀ stmts roEnd, stmts.length < n → Acc M (condDetectDS d stmts roEnd).1) :
    ∀ (jzs stmts : List Node) (roEnd : Option Int), stmts.length ≤ n → Acc M (condJzsS d n jzs stmts roEnd).1 := by
  intro jzs
  induction jzs with
  | nil => intro stmts roEnd _; rw [condJzsS.eq_def]; simp [Acc]
  | cons op restJz ih =>
    intro stmts roEnd hlen
    rw [condJzsS.eq_def]
    simp only
    split
    · rename_i opos cond addr
      apply acc_ite
      · -- exit repeat in the if part
        intro hx
        have hc := replaceRounds_le (Node.jz opos cond addr) stmts
        cases hs : replaceFirstCode (Node.jz opos cond addr) (Node.ifThen opos (Node.unary (S "not") opos cond) [exitRepeatStmt opos] []) stmts with
        | error e => (try simp only); acc_leaf
        | ok stmts' =>
          try simp only
          have hl := replaceFirstCode_length hs
          have hr := ih stmts' roEnd (by omega)
          intro hm
          simp only [FS.add_maxLen] at hm
          have h1 := hr (by omega)
          simp only [FS.add_steps, FS.add_calls, FS.add_ops, Nat.mul_add] at h1 ⊢
          omega
      · intro hx
        have hc1 := ifScanRounds_le (Node.jz opos cond addr) addr stmts
        cases hs : ifScan (Node.jz opos cond addr) (Node.ifThen opos cond [] []) opos addr stmts with
        | error e => (try simp only); acc_leaf
        | ok v =>
          obtain ⟨stmts1, coll⟩ := v
          simp only
          have hl1 := ifScan_length hs
          have hc2 := removeRounds_le stmts1 coll
          cases hrm : pyRemoveAll stmts1 coll with
          | error e => (try simp only); acc_leaf
          | ok stmts2 =>
            try simp only
            have hl2 := pyRemoveAll_length hrm
            cases hbd : breakDetect coll roEnd with
            | error e => (try simp only); acc_leaf
            | ok ifl0 =>
              try simp only
              have hl3 := breakDetect_length coll roEnd ifl0 hbd
              by_cases hg : ifl0.length < n
              · simp only [hg, dite_true]
                have hri := hA ifl0 roEnd hg
                cases hci : (condDetectDS d ifl0 roEnd).2 with
                | error e =>
                  try simp only
                  intro hm
                  simp only [FS.add_maxLen] at hm
                  have h1 := hri (by omega)
                  simp only [FS.add_steps, FS.add_calls, FS.add_ops, Nat.mul_add] at h1 ⊢
                  omega
                | ok ifl =>
                  try simp only
                  -- the three continuations that do not look at an else part
                  have cont : ∀ (x : Node), Acc M
                      ({ steps := 1, ops := 1 } + { steps := ifScanRounds (Node.jz opos cond addr) addr stmts } +
                        { steps := removeRounds stmts1 coll } + (condDetectDS d ifl0 roEnd).fst +
                        (condJzsS d n restJz (finalizeIf opos x stmts2) roEnd).fst) := by
                    intro x
                    have hr := ih (finalizeIf opos x stmts2) roEnd (by rw [finalizeIf_length]; omega)
                    intro hm
                    simp only [FS.add_maxLen] at hm
                    have h1 := hri (by omega)
                    have h2 := hr (by omega)
                    simp only [FS.add_steps, FS.add_calls, FS.add_ops, Nat.mul_add] at h1 h2 ⊢
                    omega
                  by_cases hem : ifl.isEmpty = true
                  · simp only [hem, if_true]; exact cont _
                  · simp only [hem, Bool.false_eq_true, if_false]
                    cases hlast : pyGet ifl (-1) with
                    | error e =>
                      try simp only
                      intro hm
                      simp only [FS.add_maxLen] at hm
                      have h1 := hri (by omega)
                      simp only [FS.add_steps, FS.add_calls, FS.add_ops, Nat.mul_add] at h1 ⊢
                      omega
                    | ok last =>
                      try simp only
                      have errleaf : Acc M
                          ({ steps := 1, ops := 1 } + { steps := ifScanRounds (Node.jz opos cond addr) addr stmts } +
                            { steps := removeRounds stmts1 coll } + (condDetectDS d ifl0 roEnd).fst) := by
                        intro hm
                        simp only [FS.add_maxLen] at hm
                        have h1 := hri (by omega)
                        simp only [FS.add_steps, FS.add_calls, FS.add_ops, Nat.mul_add] at h1 ⊢
                        omega
                      cases last with
                      | stmt pos code =>
                        cases code with
                        | jump jpos jaddr =>
                          simp only
                          apply acc_ite
                          · intro hy; exact cont _
                          · intro hy
                            have hc3 := elseScanRounds_le jaddr stmts2
                            have hl4 := elseScan_length jpos jaddr stmts2
                            have hc4 := removeRounds_le stmts2 (elseScan jpos jaddr stmts2)
                            cases hrm2 : pyRemoveAll stmts2 (elseScan jpos jaddr stmts2) with
                            | error e =>
                              try simp only
                              intro hm
                              simp only [FS.add_maxLen] at hm
                              have h1 := hri (by omega)
                              simp only [FS.add_steps, FS.add_calls, FS.add_ops, Nat.mul_add] at h1 ⊢
                              omega
                            | ok stmts3 =>
                              try simp only
                              have hl5 := pyRemoveAll_length hrm2
                              cases hbd2 : breakDetect (elseScan jpos jaddr stmts2) roEnd with
                              | error e =>
                                try simp only
                                intro hm
                                simp only [FS.add_maxLen] at hm
                                have h1 := hri (by omega)
                                simp only [FS.add_steps, FS.add_calls, FS.add_ops, Nat.mul_add] at h1 ⊢
                                omega
                              | ok el0 =>
                                try simp only
                                by_cases hg2 : el0.length < n
                                · simp only [hg2, dite_true]
                                  have hre := hA el0 roEnd hg2
                                  cases hce : (condDetectDS d el0 roEnd).2 with
                                  | error e =>
                                    try simp only
                                    intro hm
                                    simp only [FS.add_maxLen] at hm
                                    have h1 := hri (by omega)
                                    have h2 := hre (by omega)
                                    simp only [FS.add_steps, FS.add_calls, FS.add_ops, Nat.mul_add] at h1 h2 ⊢
                                    omega
                                  | ok el =>
                                    try simp only
                                    have hr := ih (finalizeIf opos (Node.ifThen opos cond ifl.dropLast el) stmts3) roEnd
                                      (by rw [finalizeIf_length]; omega)
                                    intro hm
                                    simp only [FS.add_maxLen] at hm
                                    have h1 := hri (by omega)
                                    have h2 := hre (by omega)
                                    have h3 := hr (by omega)
                                    simp only [FS.add_steps, FS.add_calls, FS.add_ops, Nat.mul_add] at h1 h2 h3 ⊢
                                    omega
                                · simp only [hg2, dite_false]
                                  intro hm
                                  simp only [FS.add_maxLen] at hm
                                  have h1 := hri (by omega)
                                  simp only [FS.add_steps, FS.add_calls, FS.add_ops, Nat.mul_add] at h1 ⊢
                                  omega
                        | _ => simp only; exact cont _
                      | _ => simp only; exact errleaf
              · simp only [hg, dite_false]; acc_leaf
    · acc_leaf


/-- one invocation, given the invariant for shorter lists at the same depth and for everything at smaller depths -/
theorem condDetectDS_acc_step (M d : Nat)
    (hD : ∀ d', d' < d → ∀ stmts roEnd, Acc M (condDetectDS d' stmts roEnd).1)
    (stmts : List Node) (roEnd : Option Int)
    (hA : ∀ stmts' roEnd', stmts'.length < stmts.length → Acc M (condDetectDS d stmts' roEnd').1) :
    Acc M (condDetectDS d stmts roEnd).1 := by
  rw [condDetectDS.eq_def]
  simp only
  -- the first loop
  have hp1 : ∀ (p1 : (FS × Nat) × R (List Node)), Acc M p1.1.1 → p1.1.2 ≤ stmts.length →
      (∀ l', p1.2 = .ok l' → l'.length = stmts.length) →
      Acc M (match p1.2 with
        | .error e => (({ calls := 1, maxLen := stmts.length } : FS) + p1.1.1 + ({ steps := p1.1.2 } : FS), (.error e : R (List Node)))
        | .ok stmts1 =>
          match stmts1.foldlM (scanStep roEnd) {} with
          | .error e => (({ calls := 1, maxLen := stmts.length } : FS) + p1.1.1 + ({ steps := p1.1.2 } : FS), .error e)
          | .ok sc =>
            (({ calls := 1, maxLen := stmts.length } : FS) + p1.1.1 + ({ steps := p1.1.2 } : FS) +
              (condJzsS d stmts.length sc.jzs stmts1 roEnd).1, (condJzsS d stmts.length sc.jzs stmts1 roEnd).2)).1 := by
    intro p1 h1 h2 h3
    cases hp : p1.2 with
    | error e =>
      simp only
      intro hm
      simp only [FS.add_maxLen] at hm
      have a := h1 (by omega)
      simp only [FS.add_steps, FS.add_calls, FS.add_ops, Nat.mul_add] at a ⊢
      omega
    | ok stmts1 =>
      simp only
      have hl := h3 stmts1 hp
      cases hsc : stmts1.foldlM (scanStep roEnd) {} with
      | error e =>
        simp only
        intro hm
        simp only [FS.add_maxLen] at hm
        have a := h1 (by omega)
        simp only [FS.add_steps, FS.add_calls, FS.add_ops, Nat.mul_add] at a ⊢
        omega
      | ok sc =>
        simp only
        intro hm
        simp only [FS.add_maxLen] at hm
        have hn : stmts.length ≤ M := by omega
        have hr := condJzsS_acc M d stmts.length hn (fun s r hs => hA s r hs) sc.jzs stmts1 roEnd (by omega)
        have a := h1 (by omega)
        have b := hr (by omega)
        simp only [FS.add_steps, FS.add_calls, FS.add_ops, Nat.mul_add] at a b ⊢
        omega
  cases d with
  | zero =>
    simp only
    by_cases hnest : stmts.any isNestStmt = true
    · simp only [hnest, if_true]
      exact hp1 (({}, 0), .error .other) (by intro _; simp) (by simp) (by intro l' h; cases h)
    · simp only [hnest]
      exact hp1 (({}, stmts.length), .ok stmts) (by intro _; simp) (by simp) (by intro l' h; cases h; rfl)
  | succ d' =>
    simp only
    have hn := nestedSD_acc M d' (hD d' (by omega)) roEnd stmts
    exact hp1 (nestedSD d' roEnd stmts) hn.1 hn.2.1 hn.2.2

theorem condDetectDS_acc (M : Nat) : ∀ (d : Nat) (stmts : List Node) (roEnd : Option Int), Acc M (condDetectDS d stmts roEnd).1 := by
  intro d
  induction d using Nat.strongRecOn with
  | _ d ihd =>
    intro stmts
    induction hlen : stmts.length using Nat.strongRecOn generalizing stmts with
    | _ n ihn =>
      intro roEnd
      apply condDetectDS_acc_step M d ihd stmts roEnd
      intro stmts' roEnd' hlt
      exact ihn stmts'.length (by omega) stmts' rfl roEnd'

/-- **Accounting bound, every input**: the loop rounds of condition detection are at most `(4·maxLen + 1)·(calls + ops)` -/
theorem cond_accounting (d : Nat) (stmts : List Node) (roEnd : Option Int) :
    (condDetectDS d stmts roEnd).1.steps ≤
      (4 * (condDetectDS d stmts roEnd).1.maxLen + 1) * ((condDetectDS d stmts roEnd).1.calls + (condDetectDS d stmts roEnd).1.ops) :=
  condDetectDS_acc _ d stmts roEnd (Nat.le_refl _)

end Drx.Lscr.Steps
