/-
  Lemmas behind DrxProps/C05.lean.
-/
import Drx.Dir
import Drx.RiffSpec
import DrxProofs.Riff
import DrxProofs.Xtract
namespace Drx.Dir
open Drx Drx.Riff Drx.Xtract

/-- the resource table the assembly sees for a laid-out movie: entry i has the sanitised type of map entry i and,
    when the entry designates a chunk of the movie, exactly that chunk -/
def resOfPairs (cs : List SChunk) (P : Nat) (pairs : List (SEntry × Option SChunk)) : List Res :=
  pairs.map fun p => ⟨p.1.id.map sanitize,
    match p.2 with
    | some c => .ok c.view
    | none => getByOffset (cs.map SChunk.view) (p.1.offset - (P : Int))⟩

theorem resOfFile_pairs (cs : List SChunk) (P : Nat) (pairs : List (SEntry × Option SChunk))
    (h : ∀ p ∈ pairs, ∀ c, p.2 = some c → Designates cs P p.1 c) :
    resOfFile (cs.map SChunk.view) P (pairs.map fun p => p.1.view) = resOfPairs cs P pairs := by
  unfold resOfFile resOfPairs
  rw [List.map_map]
  apply List.map_congr_left
  intro p hp
  simp only [Function.comp, SEntry.view]
  cases hr : p.2 with
  | none => rfl
  | some c => rw [getByOffset_designated cs P p.1 c (h p hp c hr)]

/-! ### one cast entry per slot, in order; empty slots empty -/

theorem bind_ok {α β : Type} (x : R α) (f : α → R β) (b : β) (h : (x >>= f) = .ok b) : ∃ a, x = .ok a ∧ f a = .ok b := by
  cases x with
  | error e => simp [bind, Except.bind] at h
  | ok a => exact ⟨a, rfl, h⟩

theorem pyIndex_error (l : List α) (i : Int) (e : Err) (h : pyIndex l i = .error e) : e = .index := by
  unfold pyIndex getIdx at h
  split at h
  · split at h
    · cases h; rfl
    · split at h
      · cases h
      · cases h; rfl
  · split at h
    · cases h
    · cases h; rfl

/-- the cast loop only appends: the result is the list built so far followed by exactly one entry per remaining slot -/
theorem castLoop_appends (D : Decoders) (rs : List Res) (key : KeyData) (fm : J) (cas : List Int) (acc out : List CastData)
    (h : castLoop D rs key fm cas acc = .ok out) : ∃ tail, out = acc ++ tail ∧ tail.length = cas.length := by
  induction cas generalizing acc with
  | nil => simp [castLoop] at h; subst h; exact ⟨[], by simp, rfl⟩
  | cons ci rest ih =>
    unfold castLoop at h
    split at h
    · obtain ⟨tail, rfl, hl⟩ := ih _ h
      exact ⟨[] :: tail, by simp, by simp [hl]⟩
    · split at h
      · cases h
      · rename_i cd' _
        obtain ⟨tail, rfl, hl⟩ := ih _ h
        exact ⟨cd' :: tail, by simp, by simp [hl]⟩

/-- an empty slot (cast-table word 0) yields an empty entry at that position -/
theorem castLoop_empty_slot (D : Decoders) (rs : List Res) (key : KeyData) (fm : J) (pre post : List Int) (acc out : List CastData)
    (h : castLoop D rs key fm (pre ++ 0 :: post) acc = .ok out) : out[acc.length + pre.length]? = some [] := by
  induction pre generalizing acc with
  | nil =>
    simp only [List.nil_append] at h
    unfold castLoop at h
    simp only [if_true] at h
    obtain ⟨tail, rfl, _⟩ := castLoop_appends D rs key fm post _ out h
    simp
  | cons ci rest ih =>
    simp only [List.cons_append] at h
    unfold castLoop at h
    split at h
    · have := ih _ h
      simp only [List.length_append, List.length_cons, List.length_nil] at this ⊢
      rw [← this]; congr 1; omega
    · split at h
      · cases h
      · have := ih _ h
        simp only [List.length_append, List.length_cons, List.length_nil] at this ⊢
        rw [← this]; congr 1; omega

/-! ### a member's entry is computed from its own designated resources only -/

theorem linkLoop_congr (D : Decoders) (rs rs' : List Res) (fm : J) (cast cast' : List CastData) (refs : List Ref) (cd : CastData)
    (hrs : ∀ rf ∈ refs, pyIndex rs rf.index = pyIndex rs' rf.index)
    (hcast : ∀ i, (pyIndex cast i).map (·.get? "palette") = (pyIndex cast' i).map (·.get? "palette")) :
    linkLoop D rs fm cast refs cd = linkLoop D rs' fm cast' refs cd := by
  induction refs generalizing cd with
  | nil => simp [linkLoop]
  | cons rf rest ih =>
    have ih' := fun cd => ih cd (fun r hr => hrs r (by simp [hr]))
    unfold linkLoop
    rw [← hrs rf (by simp)]
    cases hres : pyIndex rs rf.index with
    | error e => rfl
    | ok res =>
      simp only [bind, Except.bind]
      split
      · rfl
      · cases hch : res.chunk with
        | error e => rfl
        | ok chunk =>
          simp only []
          split
          · cases D.stxt chunk.data fm with
            | error e => rfl
            | ok tf => simp only []; exact ih' _
          · split
            · cases D.snd chunk.data with
              | error e => rfl
              | ok s => simp only []; exact ih' _
            · split
              · cases D.clut chunk.data with
                | error e => rfl
                | ok p => simp only []; exact ih' _
              · split
                · exact ih' _
                · split
                  · by_cases hpos : paletteId cd > 0
                    · simp only [hpos, if_true]
                      have hc := hcast (paletteId cd - 1)
                      cases h1 : pyIndex cast (paletteId cd - 1) with
                      | error e =>
                        rw [h1] at hc
                        cases h2 : pyIndex cast' (paletteId cd - 1) with
                        | error e' =>
                          simp only [bind, Except.bind]
                          rw [pyIndex_error _ _ _ h1, pyIndex_error _ _ _ h2]
                        | ok o' => rw [h2] at hc; simp [Except.map] at hc
                      | ok owner =>
                        rw [h1] at hc
                        cases h2 : pyIndex cast' (paletteId cd - 1) with
                        | error e' => rw [h2] at hc; simp [Except.map] at hc
                        | ok owner' =>
                          rw [h2] at hc
                          simp only [Except.map, Except.ok.injEq] at hc
                          simp only [bind, Except.bind, hc]
                          cases owner'.get? "palette" with
                          | none => rfl
                          | some v =>
                            simp only [pure, Except.pure]
                            cases D.bitd cd (some v) chunk.data with
                            | error e => rfl
                            | ok bmp => simp only []; exact ih' _
                    · simp only [hpos, if_false, pure, Except.pure, bind, Except.bind]
                      cases D.bitd cd none chunk.data with
                      | error e => rfl
                      | ok bmp => simp only []; exact ih' _
                  · rfl

end Drx.Dir

namespace Drx.Dir
open Drx Drx.Riff

/-! ### scripts: the dictionary loop is a family of independent per-number folds -/

def ScrDict.lookup (d : ScrDict) (n : Int) : Option (List Char) := (d.find? (·.1 == n)).map (·.2)

theorem any_eq_lookup (d : ScrDict) (n : Int) : d.any (·.1 == n) = (d.lookup n).isSome := by
  induction d with
  | nil => rfl
  | cons p rest ih =>
    simp only [List.any_cons, ScrDict.lookup, List.find?_cons]
    by_cases h : (p.1 == n) = true
    · simp [h]
    · simp only [Bool.not_eq_true] at h
      simp only [h, Bool.false_or]
      simpa [ScrDict.lookup] using ih

theorem lookup_map_update (d : ScrDict) (k n : Int) (f : List Char → List Char) :
    ScrDict.lookup (d.map (fun p => if p.1 == k then (k, f p.2) else p)) n
      = if k = n then (d.lookup n).map f else d.lookup n := by
  induction d with
  | nil => simp [ScrDict.lookup]
  | cons p rest ih =>
    obtain ⟨pk, pv⟩ := p
    simp only [ScrDict.lookup] at ih
    by_cases hk : pk = k
    · subst hk
      by_cases hn : pk = n
      · subst hn; simp [ScrDict.lookup, List.find?_cons]
      · have h1 : (pk == n) = false := by simpa using hn
        simp only [ScrDict.lookup, List.map_cons, List.find?_cons, beq_self_eq_true, if_true, h1, hn, if_false]
        simpa [hn] using ih
    · have h0 : (pk == k) = false := by simpa using hk
      have e : (List.map (fun p : Int × List Char => if (p.1 == k) = true then (k, f p.2) else p) ((pk, pv) :: rest))
          = (pk, pv) :: List.map (fun p : Int × List Char => if (p.1 == k) = true then (k, f p.2) else p) rest := by
        simp only [List.map_cons, List.cons.injEq, and_true]
        simp [hk]
      simp only [ScrDict.lookup, e, List.find?_cons]
      by_cases hn : pk = n
      · subst hn
        have hkn : ¬ k = pk := fun e => hk e.symm
        simp [hkn]
      · have h1 : (pk == n) = false := by simpa using hn
        simp only [h1]
        exact ih

theorem find?_none_of_lookup_none (d : ScrDict) (k : Int) (h : d.lookup k = none) : d.find? (·.1 == k) = none := by
  unfold ScrDict.lookup at h
  cases hf : d.find? (·.1 == k) with
  | none => rfl
  | some v => simp [hf] at h

theorem lookup_setNew (d : ScrDict) (k n : Int) (s : List Char) :
    (d.setNew k s).lookup n = if k = n then some s else d.lookup n := by
  unfold ScrDict.setNew
  split
  · rename_i h
    have := lookup_map_update d k n (fun _ => s)
    rw [this]
    by_cases hk : k = n
    · subst hk
      rw [any_eq_lookup] at h
      simp only [if_true]
      cases hl : d.lookup k with
      | none => simp [hl] at h
      | some v => simp
    · simp [hk]
  · rename_i h
    by_cases hk : k = n
    · subst hk
      have hnone : d.lookup k = none := by
        rw [any_eq_lookup] at h; cases hl : d.lookup k <;> simp_all
      have := find?_none_of_lookup_none d k hnone
      simp [ScrDict.lookup, List.find?_append, this]
    · have h1 : (k == n) = false := by simpa using hk
      simp only [ScrDict.lookup, List.find?_append, hk, if_false]
      cases hf : d.find? (·.1 == n) with
      | some v => simp
      | none => simp [List.find?_cons, h1]

theorem lookup_append (d d' : ScrDict) (k n : Int) (s : List Char) (h : d.append k s = .ok d') :
    d'.lookup n = if k = n then (d.lookup n).map (· ++ '\n' :: s) else d.lookup n := by
  unfold ScrDict.append at h
  split at h
  · cases h
    exact lookup_map_update d k n (· ++ '\n' :: s)
  · cases h

theorem append_ok_iff (d : ScrDict) (k : Int) (s : List Char) : (∃ d', d.append k s = .ok d') ↔ (d.lookup k).isSome := by
  unfold ScrDict.append
  rw [any_eq_lookup]
  split <;> simp_all

/-- what happens to the text stored under number `n` when the decoded scripts `outs` are processed in order -/
def extendKey (sel : ScriptOut → List Char) (n : Int) : List ScriptOut → Option (List Char) → Option (List Char)
  | [], cur => cur
  | s :: rest, cur =>
    if s.contScrNum < 0 then
      (if s.scrNum = n then extendKey sel n rest (some (sel s)) else extendKey sel n rest cur)
    else if s.contScrNum = n then extendKey sel n rest (cur.map (· ++ '\n' :: sel s))
    else extendKey sel n rest cur

/-- the pure dictionary fold of the script loop (fetching and decoding factored out) -/
def foldScripts : List ScriptOut → ScrDict → ScrDict → R (ScrDict × ScrDict)
  | [], l, j => .ok (l, j)
  | s :: rest, l, j =>
    if s.contScrNum < 0 then foldScripts rest (l.setNew s.scrNum s.lingo) (j.setNew s.scrNum s.js)
    else
      match l.append s.contScrNum s.lingo with
      | .error e => .error e
      | .ok l' =>
        match j.append s.contScrNum s.js with
        | .error e => .error e
        | .ok j' => foldScripts rest l' j'

theorem foldScripts_per_key (outs : List ScriptOut) (l j l' j' : ScrDict) (h : foldScripts outs l j = .ok (l', j')) (n : Int) :
    l'.lookup n = extendKey (·.lingo) n outs (l.lookup n) ∧ j'.lookup n = extendKey (·.js) n outs (j.lookup n) := by
  induction outs generalizing l j with
  | nil => simp [foldScripts] at h; obtain ⟨rfl, rfl⟩ := h; simp [extendKey]
  | cons s rest ih =>
    unfold foldScripts at h
    unfold extendKey
    split at h
    · rename_i hneg
      have := ih _ _ h
      simp only [hneg, if_true]
      rw [lookup_setNew, lookup_setNew] at this
      by_cases hn : s.scrNum = n
      · simpa [hn] using this
      · simpa [hn] using this
    · rename_i hneg
      simp only [hneg, if_false]
      split at h
      · cases h
      · rename_i l1 hl1
        split at h
        · cases h
        · rename_i j1 hj1
          have := ih _ _ h
          rw [lookup_append l l1 _ n _ hl1, lookup_append j j1 _ n _ hj1] at this
          by_cases hn : s.contScrNum = n
          · simpa [hn] using this
          · simpa [hn] using this

/-- `outs` are the scripts the loop decodes for the references `refs` (negative references are skipped) -/
inductive Decodes (D : Decoders) (rs : List Res) (names : J) : List Int → List ScriptOut → Prop
  | nil : Decodes D rs names [] []
  | skip (idx : Int) (rest : List Int) (outs : List ScriptOut) : idx < 0 → Decodes D rs names rest outs → Decodes D rs names (idx :: rest) outs
  | step (idx : Int) (rest : List Int) (res : Res) (chunk : Chunk) (s : ScriptOut) (outs : List ScriptOut) :
      ¬ idx < 0 → pyIndex rs idx = .ok res → res.chunk = .ok chunk → D.script chunk.data names = .ok s →
      Decodes D rs names rest outs → Decodes D rs names (idx :: rest) (s :: outs)

theorem scriptLoop_eq_fold (D : Decoders) (rs : List Res) (names : J) (refs : List Int) (outs : List ScriptOut)
    (hd : Decodes D rs names refs outs) (l j : ScrDict) :
    scriptLoop D rs names refs l j = foldScripts outs l j := by
  induction hd generalizing l j with
  | nil => simp [scriptLoop, foldScripts]
  | skip idx rest outs hneg _ ih => unfold scriptLoop; simp only [hneg, if_true]; exact ih l j
  | step idx rest res chunk s outs hneg hres hch hs _ ih =>
    unfold scriptLoop foldScripts
    simp only [hneg, if_false, hres, hch, hs, bind, Except.bind]
    split
    · exact ih _ _
    · cases l.append s.contScrNum s.lingo with
      | error e => rfl
      | ok l' =>
        simp only []
        cases j.append s.contScrNum s.js with
        | error e => rfl
        | ok j' => simp only []; exact ih _ _

end Drx.Dir

namespace Drx.Dir
open Drx Drx.Riff

/-! ### Mac = PC: the only byte-order dependent step is the key table -/

def KEY : List Char := "KEY*".toList

/-- two resource tables with the same types everywhere and the same chunks everywhere except at entries of type `KEY*` -/
def AgreeOffKey : List Res → List Res → Prop
  | [], [] => True
  | r :: rs, r' :: rs' => r.chunkID = r'.chunkID ∧ (r.chunkID ≠ KEY → r = r') ∧ AgreeOffKey rs rs'
  | _, _ => False

theorem AgreeOffKey.length {rs rs' : List Res} (h : AgreeOffKey rs rs') : rs.length = rs'.length := by
  induction rs generalizing rs' with
  | nil => cases rs' with | nil => rfl | cons _ _ => exact absurd h (by simp [AgreeOffKey])
  | cons r rs ih =>
    cases rs' with
    | nil => exact absurd h (by simp [AgreeOffKey])
    | cons r' rs' => simp only [List.length_cons]; rw [ih h.2.2]

theorem existsChunk_congr {rs rs' : List Res} (h : AgreeOffKey rs rs') (id : String) : existsChunk rs id = existsChunk rs' id := by
  induction rs generalizing rs' with
  | nil => cases rs' with | nil => rfl | cons _ _ => exact absurd h (by simp [AgreeOffKey])
  | cons r rs ih =>
    cases rs' with
    | nil => exact absurd h (by simp [AgreeOffKey])
    | cons r' rs' =>
      have := ih h.2.2
      simp only [existsChunk, List.any_cons] at this ⊢
      rw [h.1, this]

theorem locateChunk_congr {rs rs' : List Res} (h : AgreeOffKey rs rs') (id : String) (hid : id.toList ≠ KEY) :
    locateChunk rs id = locateChunk rs' id := by
  induction rs generalizing rs' with
  | nil => cases rs' with | nil => rfl | cons _ _ => exact absurd h (by simp [AgreeOffKey])
  | cons r rs ih =>
    cases rs' with
    | nil => exact absurd h (by simp [AgreeOffKey])
    | cons r' rs' =>
      have ih' := ih h.2.2
      unfold locateChunk at ih' ⊢
      simp only [List.find?_cons]
      rw [← h.1]
      by_cases hr : (r.chunkID == id.toList) = true
      · have : r.chunkID = id.toList := by simpa using hr
        have hne : r.chunkID ≠ KEY := by rw [this]; exact hid
        simp only [hr]; rw [h.2.1 hne]
      · simp only [hr]; exact ih'

theorem optionalChunk_congr {rs rs' : List Res} (h : AgreeOffKey rs rs') (id : String) (hid : id.toList ≠ KEY) (dflt : J) (dec : Bytes → R J) :
    optionalChunk rs id dflt dec = optionalChunk rs' id dflt dec := by
  unfold optionalChunk
  rw [existsChunk_congr h, locateChunk_congr h id hid]

theorem getIdx_rel {rs rs' : List Res} (h : AgreeOffKey rs rs') (n : Nat) :
    (∃ r r', getIdx rs n = .ok r ∧ getIdx rs' n = .ok r' ∧ r.chunkID = r'.chunkID ∧ (r.chunkID ≠ KEY → r = r'))
    ∨ (getIdx rs n = .error .index ∧ getIdx rs' n = .error .index) := by
  induction rs generalizing rs' n with
  | nil => cases rs' with
    | nil => right; simp [getIdx]
    | cons _ _ => exact absurd h (by simp [AgreeOffKey])
  | cons r rs ih =>
    cases rs' with
    | nil => exact absurd h (by simp [AgreeOffKey])
    | cons r' rs' =>
      cases n with
      | zero => left; exact ⟨r, r', by simp [getIdx], by simp [getIdx], h.1, h.2.1⟩
      | succ n =>
        have := ih h.2.2 n
        simpa [getIdx] using this

/-- an index that does not resolve to a `KEY*` entry fetches the same resource from both tables -/
theorem pyIndex_congr {rs rs' : List Res} (h : AgreeOffKey rs rs') (i : Int)
    (hk : ∀ r, pyIndex rs i = .ok r → r.chunkID ≠ KEY) : pyIndex rs i = pyIndex rs' i := by
  have hl := h.length
  unfold pyIndex at hk ⊢
  rw [← hl]
  split
  · split
    · rfl
    · rename_i h1 h2
      simp only [h1, h2, if_true, if_false] at hk
      rcases getIdx_rel h (i + (rs.length : Int)).toNat with ⟨r, r', e1, e2, _, hrr⟩ | ⟨e1, e2⟩
      · rw [e1, e2, hrr (hk r e1)]
      · rw [e1, e2]
  · rename_i h1
    simp only [h1, if_false] at hk
    rcases getIdx_rel h i.toNat with ⟨r, r', e1, e2, _, hrr⟩ | ⟨e1, e2⟩
    · rw [e1, e2, hrr (hk r e1)]
    · rw [e1, e2]

theorem linkLoop_congr_rs (D : Decoders) (rs rs' : List Res) (fm : J) (cast : List CastData) (refs : List Ref) (cd : CastData)
    (hrs : ∀ rf ∈ refs, pyIndex rs rf.index = pyIndex rs' rf.index) :
    linkLoop D rs fm cast refs cd = linkLoop D rs' fm cast refs cd :=
  linkLoop_congr D rs rs' fm cast cast refs cd hrs (fun _ => rfl)

theorem memberEntry_congr (D : Decoders) (rs rs' : List Res) (key : KeyData) (fm : J) (cast : List CastData) (ci : Int)
    (h1 : pyIndex rs ci = pyIndex rs' ci)
    (h2 : ∀ refs, keyGet? key ci = some refs → ∀ rf ∈ refs, pyIndex rs rf.index = pyIndex rs' rf.index) :
    memberEntry D rs key fm cast ci = memberEntry D rs' key fm cast ci := by
  unfold memberEntry
  rw [← h1]
  cases pyIndex rs ci with
  | error e => rfl
  | ok res =>
    simp only []
    cases res.chunk with
    | error e => rfl
    | ok chunk =>
      simp only []
      cases D.cast chunk.data with
      | error e => rfl
      | ok cd =>
        simp only []
        cases hk : keyGet? key ci with
        | none => rfl
        | some refs => exact linkLoop_congr_rs D rs rs' fm cast refs cd (h2 refs hk)

theorem castLoop_congr (D : Decoders) (rs rs' : List Res) (key : KeyData) (fm : J) (cas : List Int) (cast : List CastData)
    (h1 : ∀ ci ∈ cas, ci ≠ 0 → pyIndex rs ci = pyIndex rs' ci)
    (h2 : ∀ ci ∈ cas, ∀ refs, keyGet? key ci = some refs → ∀ rf ∈ refs, pyIndex rs rf.index = pyIndex rs' rf.index) :
    castLoop D rs key fm cas cast = castLoop D rs' key fm cas cast := by
  induction cas generalizing cast with
  | nil => simp [castLoop]
  | cons ci rest ih =>
    have ih' := fun c => ih c (fun x hx => h1 x (by simp [hx])) (fun x hx => h2 x (by simp [hx]))
    unfold castLoop
    by_cases h0 : ci = 0
    · simp only [h0, if_true]; exact ih' _
    · simp only [h0, if_false]
      rw [memberEntry_congr D rs rs' key fm cast ci (h1 ci (by simp) h0) (h2 ci (by simp))]
      cases memberEntry D rs' key fm cast ci with
      | error e => rfl
      | ok cd => simp only []; exact ih' _

theorem scriptLoop_congr (D : Decoders) (rs rs' : List Res) (names : J) (refs : List Int) (l j : ScrDict)
    (h : ∀ i ∈ refs, ¬ i < 0 → pyIndex rs i = pyIndex rs' i) :
    scriptLoop D rs names refs l j = scriptLoop D rs' names refs l j := by
  induction refs generalizing l j with
  | nil => simp [scriptLoop]
  | cons i rest ih =>
    have ih' := fun l j => ih l j (fun x hx => h x (by simp [hx]))
    unfold scriptLoop
    by_cases hneg : i < 0
    · simp only [hneg, if_true]; exact ih' _ _
    · simp only [hneg, if_false]
      rw [← h i (by simp) hneg]
      cases pyIndex rs i with
      | error e => rfl
      | ok res =>
        simp only [bind, Except.bind]
        cases res.chunk with
        | error e => rfl
        | ok chunk =>
          simp only []
          cases D.script chunk.data names with
          | error e => rfl
          | ok s =>
            simp only []
            split
            · exact ih' _ _
            · cases l.append s.contScrNum s.lingo with
              | error e => rfl
              | ok l' =>
                simp only []
                cases j.append s.contScrNum s.js with
                | error e => rfl
                | ok j' => simp only []; exact ih' _ _

end Drx.Dir

namespace Drx.Dir
open Drx Drx.Riff

/-- the cast table does not point at a `KEY*` entry -/
def CasAvoidsKey (D : Decoders) (rs : List Res) : Prop :=
  ∀ res cc cas, locateChunk rs "CAS*" = .ok res → res.chunk = .ok cc → D.cas cc.data = .ok cas →
    ∀ ci ∈ cas, ci ≠ 0 → ∀ r, pyIndex rs ci = .ok r → r.chunkID ≠ KEY

/-- no key-table link points at a `KEY*` entry -/
def LinksAvoidKey (rs : List Res) (key : KeyData) : Prop :=
  ∀ p ∈ key, ∀ rf ∈ p.2, ∀ r, pyIndex rs rf.index = .ok r → r.chunkID ≠ KEY

/-- the script context does not point at a `KEY*` entry -/
def LctxAvoidsKey (D : Decoders) (rs : List Res) : Prop :=
  ∀ res lc refs, locateChunk rs "Lctx" = .ok res → res.chunk = .ok lc → D.lctx lc.data = .ok refs →
    ∀ i ∈ refs, ¬ i < 0 → ∀ r, pyIndex rs i = .ok r → r.chunkID ≠ KEY

theorem keyGet?_mem (key : KeyData) (ci : Int) (refs : List Ref) (h : keyGet? key ci = some refs) : ∃ p ∈ key, p.2 = refs := by
  unfold keyGet? at h
  cases hf : key.find? (·.1 == ci) with
  | none => simp [hf] at h
  | some p =>
    simp [hf] at h
    exact ⟨p, List.mem_of_find?_eq_some hf, h⟩

theorem scriptsPart_congr (D : Decoders) (rs rs' : List Res) (hag : AgreeOffKey rs rs') (hlctx : LctxAvoidsKey D rs) :
    scriptsPart D rs = scriptsPart D rs' := by
  unfold scriptsPart
  rw [← existsChunk_congr hag "Lctx", ← locateChunk_congr hag "Lctx" (by decide), ← optionalChunk_congr hag "Lnam" (by decide)]
  split
  · cases hll : locateChunk rs "Lctx" with
    | error e => rfl
    | ok lres =>
      simp only []
      cases hlc : lres.chunk with
      | error e => rfl
      | ok lc =>
        simp only []
        cases hld : D.lctx lc.data with
        | error e => rfl
        | ok refs =>
          simp only []
          cases optionalChunk rs "Lnam" (.arr []) D.lnam with
          | error e => rfl
          | ok names =>
            simp only []
            apply scriptLoop_congr
            intro i hi hneg
            exact pyIndex_congr hag i (hlctx lres lc refs hll hlc hld i hi hneg)
  · rfl

theorem assembleK_congr (D : Decoders) (rs rs' : List Res) (key : KeyData) (hag : AgreeOffKey rs rs')
    (hcas : CasAvoidsKey D rs) (hlinks : LinksAvoidKey rs key) (hlctx : LctxAvoidsKey D rs) :
    assembleK D rs key = assembleK D rs' key := by
  unfold assembleK
  rw [← locateChunk_congr hag "VWCF" (by decide), ← locateChunk_congr hag "CAS*" (by decide),
    ← scriptsPart_congr D rs rs' hag hlctx, ← optionalChunk_congr hag "VWLB" (by decide),
    ← optionalChunk_congr hag "VWSC" (by decide), ← optionalChunk_congr hag "Fmap" (by decide)]
  cases locateChunk rs "VWCF" with
  | error e => rfl
  | ok vres =>
    simp only []
    cases vres.chunk with
    | error e => rfl
    | ok vc =>
      simp only []
      cases D.vwcf vc.data with
      | error e => rfl
      | ok info =>
        simp only []
        cases hcl : locateChunk rs "CAS*" with
        | error e => rfl
        | ok cres =>
          simp only []
          cases hcc : cres.chunk with
          | error e => rfl
          | ok cc =>
            simp only []
            cases hcd : D.cas cc.data with
            | error e => rfl
            | ok cas =>
              simp only []
              have hcastLoop : ∀ fm, castLoop D rs key fm cas [] = castLoop D rs' key fm cas [] := by
                intro fm
                apply castLoop_congr
                · intro ci hci h0
                  exact pyIndex_congr hag ci (hcas cres cc cas hcl hcc hcd ci hci h0)
                · intro ci _ refs hk rf hrf
                  obtain ⟨p, hp, rfl⟩ := keyGet?_mem key ci refs hk
                  exact pyIndex_congr hag rf.index (hlinks p hp rf hrf)
              simp only [hcastLoop]

/-- Mac = PC: two resource tables that agree everywhere except in the bytes of their `KEY*` entries (the only chunk that is
    stored in the container's byte order), whose key tables decode to the same links under their respective byte orders,
    assemble to the same movie — provided no table of the movie points at the key table itself -/
theorem assemble_mac_pc (D : Decoders) (rsB rsL : List Res) (hag : AgreeOffKey rsB rsL)
    (kB kL : Chunk) (resB resL : Res)
    (hB : locateChunk rsB "KEY*" = .ok resB) (hB' : resB.chunk = .ok kB)
    (hL : locateChunk rsL "KEY*" = .ok resL) (hL' : resL.chunk = .ok kL)
    (key : KeyData) (hkB : D.key .be kB.data = .ok key) (hkL : D.key .le kL.data = .ok key)
    (hcas : CasAvoidsKey D rsB) (hlinks : LinksAvoidKey rsB key) (hlctx : LctxAvoidsKey D rsB) :
    assemble D .be rsB = assemble D .le rsL := by
  unfold assemble
  simp only [hB, hB', hL, hL', hkB, hkL, bind, Except.bind]
  exact assembleK_congr D rsB rsL key hag hcas hlinks hlctx

end Drx.Dir
