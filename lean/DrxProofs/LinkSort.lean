/-
  `sorted(f.global_vars, key=name)` (the model: stable merge sort by code points) followed by the filter against the script-level
  globals is the reference printer's insertion sort of the handler's own globals.
-/
import Drx.Link
import DrxProofs.LinkStack
import DrxProofs.LinkTables
namespace Drx.Link
open Drx Drx.Lscr Drx.Spec
set_option linter.unusedSimpArgs false
set_option linter.unusedVariables false

theorem char_lt_iff (a b : Char) : a < b ↔ a.toNat < b.toNat := by
  rw [Char.lt_def, UInt32.lt_iff_toNat_lt]; rfl

theorem char_toNat_inj (a b : Char) (h : a.toNat = b.toNat) : a = b := by
  apply Char.ext
  apply UInt32.toNat_inj.mp
  exact h

theorem strLe_refl : ∀ (a : Str), strLe a a = true
  | [] => rfl
  | c :: cs => by simp [strLe, strLe_refl cs]

theorem strLe_total : ∀ (a b : Str), (strLe a b || strLe b a) = true
  | [], _ => by simp [strLe]
  | _ :: _, [] => by simp [strLe]
  | a :: as, b :: bs => by
    have ih := strLe_total as bs
    simp only [strLe]
    by_cases h1 : a.toNat < b.toNat
    · simp [h1]
    · by_cases h2 : b.toNat < a.toNat
      · simp [h1, h2]
      · simp only [h1, h2, if_false]; exact ih

theorem strLe_trans : ∀ (a b c : Str), strLe a b = true → strLe b c = true → strLe a c = true
  | [], _, _, _, _ => by simp [strLe]
  | _ :: _, [], _, h, _ => by simp [strLe] at h
  | _ :: _, _ :: _, [], _, h => by simp [strLe] at h
  | a :: as, b :: bs, c :: cs, h1, h2 => by
    simp only [strLe] at h1 h2 ⊢
    by_cases hab : a.toNat < b.toNat
    · by_cases hbc : b.toNat < c.toNat
      · have : a.toNat < c.toNat := by omega
        simp [this]
      · by_cases hcb : c.toNat < b.toNat
        · simp [hbc, hcb] at h2
        · have : a.toNat < c.toNat := by omega
          simp [this]
    · by_cases hba : b.toNat < a.toNat
      · simp [hab, hba] at h1
      · simp only [hab, hba, if_false] at h1
        have e : a.toNat = b.toNat := by omega
        by_cases hbc : b.toNat < c.toNat
        · have : a.toNat < c.toNat := by omega
          simp [this]
        · by_cases hcb : c.toNat < b.toNat
          · simp [hbc, hcb] at h2
          · simp only [hbc, hcb, if_false] at h2
            have n1 : ¬ a.toNat < c.toNat := by omega
            have n2 : ¬ c.toNat < a.toNat := by omega
            simp only [n1, n2, if_false]
            exact strLe_trans as bs cs h1 h2

theorem strLe_antisymm : ∀ (a b : Str), strLe a b = true → strLe b a = true → a = b
  | [], [], _, _ => rfl
  | [], _ :: _, _, h => by simp [strLe] at h
  | _ :: _, [], h, _ => by simp [strLe] at h
  | a :: as, b :: bs, h1, h2 => by
    simp only [strLe] at h1 h2
    by_cases hab : a.toNat < b.toNat
    · have : ¬ b.toNat < a.toNat := by omega
      simp [hab, this] at h2
    · by_cases hba : b.toNat < a.toNat
      · simp [hab, hba] at h1
      · simp only [hab, hba, if_false] at h1 h2
        have e : a = b := char_toNat_inj a b (by omega)
        rw [e, strLe_antisymm as bs h1 h2]

theorem lt_strLe : ∀ (a b : Str), a < b → strLe a b = true
  | [], _, _ => by simp [strLe]
  | _ :: _, [], h => absurd h (List.not_lt_nil _)
  | a :: as, b :: bs, h => by
    rw [List.cons_lt_cons_iff] at h
    simp only [strLe]
    rcases h with h | ⟨rfl, h⟩
    · rw [char_lt_iff] at h; simp [h]
    · have : ¬ a.toNat < a.toNat := by omega
      simp only [this, if_false]
      exact lt_strLe as bs h

theorem not_lt_strLe : ∀ (a b : Str), ¬ a < b → strLe b a = true
  | _, [], _ => by simp [strLe]
  | [], b :: bs, h => absurd (List.nil_lt_cons b bs) h
  | a :: as, b :: bs, h => by
    rw [List.cons_lt_cons_iff, not_or, not_and] at h
    obtain ⟨h1, h2⟩ := h
    rw [char_lt_iff] at h1
    simp only [strLe]
    by_cases hba : b.toNat < a.toNat
    · simp [hba]
    · have e : a = b := char_toNat_inj a b (by omega)
      simp only [hba, h1, if_false]
      exact not_lt_strLe as bs (h2 e)

/-! ### insertion sort (reference printer) -/

theorem insertName_perm (x : Spec.Name) : ∀ (l : List Spec.Name), (insertName x l).Perm (x :: l)
  | [] => by simp [insertName]
  | y :: ys => by
    unfold insertName
    split
    · exact List.Perm.refl _
    · exact ((insertName_perm x ys).cons y).trans (List.Perm.swap x y ys)

theorem insertName_sorted (x : Spec.Name) : ∀ (l : List Spec.Name), l.Pairwise (fun a b => strLe a b = true) →
    (insertName x l).Pairwise (fun a b => strLe a b = true)
  | [], _ => by simp [insertName]
  | y :: ys, h => by
    rw [List.pairwise_cons] at h
    unfold insertName
    split
    · rename_i hlt
      rw [List.pairwise_cons]
      refine ⟨?_, List.pairwise_cons.mpr h⟩
      intro z hz
      rcases List.mem_cons.mp hz with hz | hz
      · subst hz; exact lt_strLe x z hlt
      · exact strLe_trans x y z (lt_strLe x y hlt) (h.1 z hz)
    · rename_i hlt
      rw [List.pairwise_cons]
      refine ⟨?_, insertName_sorted x ys h.2⟩
      intro z hz
      have := (insertName_perm x ys).mem_iff.mp hz
      rcases List.mem_cons.mp this with hz | hz
      · rw [hz]; exact not_lt_strLe x y hlt
      · exact h.1 z hz

theorem isort_perm : ∀ (l : List Spec.Name), (l.foldr insertName []).Perm l
  | [] => List.Perm.refl _
  | x :: xs => by
    simp only [List.foldr_cons]
    exact (insertName_perm x _).trans ((isort_perm xs).cons x)

theorem isort_sorted : ∀ (l : List Spec.Name), (l.foldr insertName []).Pairwise (fun a b => strLe a b = true)
  | [] => List.Pairwise.nil
  | x :: xs => by
    simp only [List.foldr_cons]
    exact insertName_sorted x _ (isort_sorted xs)

/-! ### the model's sorted, filtered list of global names -/

theorem leaves_gvOk (G : List Spec.Name) (ns : List Str) (l : List Node) (h : Leaves .globalVar ns l) (hG : ∀ g ∈ ns, g ∈ G) : GvOk G l := by
  induction h with
  | nil => intro x hx; cases hx
  | @cons n x ns xs hx _ ih =>
    obtain ⟨p, rfl⟩ := hx
    intro y hy
    rcases List.mem_cons.mp hy with hy | hy
    · subst hy; exact ⟨n, p, rfl, hG n (by simp)⟩
    · exact ih (fun g hg => hG g (by simp [hg])) y hy

theorem leaves_keys (ns : List Str) (l : List Node) (h : Leaves .globalVar ns l) : l.map nameKey = ns := by
  induction h with
  | nil => rfl
  | cons hx _ ih => obtain ⟨p, rfl⟩ := hx; simp [nameKey_glob, ih]

theorem leaves_distinct (ns : List Str) (l : List Node) (h : Leaves .globalVar ns l) (hn : ns.Nodup) : GvDistinct l := by
  unfold GvDistinct
  rw [leaves_keys ns l h]; exact hn

/-- the handler's final list of referenced globals: its own table first (in table order), then script-level globals in order of
    first reference; all distinct -/
def GvList (SG : List Spec.Name) (h : Handler) (gv : List Node) : Prop :=
  ∃ base ext, gv = base ++ ext ∧ Leaves .globalVar (h.globalsUsed SG) base ∧ GvOk (SG ++ h.globalsUsed SG) gv ∧ GvDistinct gv



theorem sortedByName_keys (gv : List Node) : ((sortedByName gv).map nameKey).Pairwise (fun a b => strLe a b = true) := by
  rw [List.pairwise_map]
  unfold sortedByName
  exact List.pairwise_mergeSort (le := fun a b => strLe (nameKey a) (nameKey b))
    (fun a b c h1 h2 => strLe_trans _ _ _ h1 h2) (fun a b => strLe_total _ _) gv

/-- the names `generate_lingo_code` prints `global` lines for: sorted by name, script-level ones dropped = the reference printer's
    insertion-sorted list of the handler's own globals -/
theorem shown_globals (SG : List Spec.Name) (h : Handler) (gv : List Node) (hg : GvList SG h gv) :
    ((sortedByName gv).map nameKey).filter (fun g => !SG.contains g) = (h.globalsUsed SG).foldr insertName [] := by
  obtain ⟨base, ext, rfl, hbase, hok, hdist⟩ := hg
  have hkb : base.map nameKey = h.globalsUsed SG := leaves_keys _ _ hbase
  -- both sides are sorted permutations of the handler's own globals
  have hperm1 : (((sortedByName (base ++ ext)).map nameKey).filter (fun g => !SG.contains g)).Perm (h.globalsUsed SG) := by
    have p1 : ((sortedByName (base ++ ext)).map nameKey).Perm ((base ++ ext).map nameKey) :=
      (List.mergeSort_perm _ _).map nameKey
    have p2 := p1.filter (fun g => !SG.contains g)
    refine p2.trans ?_
    rw [List.map_append, List.filter_append, hkb]
    have hfb : (h.globalsUsed SG).filter (fun g => !SG.contains g) = h.globalsUsed SG := by
      rw [List.filter_eq_self]
      intro g hgm
      unfold Handler.globalsUsed at hgm
      exact (List.mem_filter.mp hgm).2
    have hfe : (ext.map nameKey).filter (fun g => !SG.contains g) = [] := by
      rw [List.filter_eq_nil_iff]
      intro g hgm
      obtain ⟨x, hx, rfl⟩ := List.mem_map.mp hgm
      obtain ⟨g', p, rfl, hgG⟩ := hok x (List.mem_append_right _ hx)
      rw [nameKey_glob]
      rcases List.mem_append.mp hgG with hs | hu
      · simp [hs]
      · exfalso
        unfold GvDistinct at hdist
        rw [List.map_append, List.nodup_append] at hdist
        exact hdist.2.2 g' (by rw [hkb]; exact hu) g' (List.mem_map.mpr ⟨_, hx, nameKey_glob g' p⟩) rfl
    rw [hfb, hfe, List.append_nil]
  have hs1 := (sortedByName_keys (base ++ ext)).filter (fun g => !SG.contains g)
  have hs2 := isort_sorted (h.globalsUsed SG)
  exact List.Perm.eq_of_pairwise (fun a b _ _ h1 h2 => strLe_antisymm a b h1 h2) hs1 hs2
    (hperm1.trans (isort_perm _).symm)

end Drx.Link
