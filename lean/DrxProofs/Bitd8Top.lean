/-
  C06, 8 bits per pixel, end to end: `bitd2bmp` on the scan lines of an image (raw or PackBits) gives a BMP that
  reads back as the canvas.
-/
import DrxProofs.Bitd8
import DrxProofs.BitdRead
namespace Drx.Bitd
open Drx Drx.Bitd.Spec

theorem bind_ok {α β : Type} (x : W α) (f : α → W β) (b b' : Buf) (a : α) (h : x b = (b', .ok a)) : (x >>= f) b = f a b' := by
  show W.bind x f b = _
  unfold W.bind
  rw [h]

theorem fixPad_nat (h : Nat) (oy : Nat) : fixPad h (oy : Int) = (h, oy) := by
  unfold fixPad
  have : ¬ ((oy : Int) < 0) := by omega
  simp only [this, if_false, Int.toNat_natCast]

theorem fits_bounds (W H : Nat) (h : (W + 1) * (H + 1) * 4 + 2000 < 2147483648) :
    W < 2147483648 ∧ H < 2147483648 ∧ W * H * 4 + 2000 < 2147483648 := by
  have h1 : W + 1 ≤ (W + 1) * (H + 1) := Nat.le_mul_of_pos_right _ (by omega)
  have h2 : H + 1 ≤ (W + 1) * (H + 1) := Nat.le_mul_of_pos_left _ (by omega)
  have h3 : W * H ≤ (W + 1) * (H + 1) := Nat.mul_le_mul (by omega) (by omega)
  omega

/-- the 1078 bytes in front of the pixel area of an 8-bit image -/
def hdr8 (W H : Nat) : Bytes :=
  fileHdr ((W * H + 256 * 4 + 40 + 14 : Nat) : Int) ((256 * 4 + 40 + 14 : Nat) : Int)
    ++ (info40 W H 8 256 ++ sysPal 8 "systemMac")

theorem hdr8_length (W H : Nat) : (hdr8 W H).length = 1078 := by
  unfold hdr8
  simp only [List.length_append, fileHdr_length, info40_length, (writeColorPalette_8 []).2]

/-- `Decoder8b.decode` on a request with non-negative offsets and the system palette, given the pixel area -/
theorem decode8_eval (c : Call) (oy : Nat) (hoy : c.padH = (oy : Int)) (hpal : c.palette = "systemMac") (hcl : c.clut = [])
    (hW : c.width < 2147483648) (hH : c.height < 2147483648) (hsize : c.width * c.height + 1078 < 2147483648) (bmp : Bytes) (b : Buf)
    (hbmp : (if (c.fdata.length : Int) = (((c.width : Int) - c.padW) + ((c.width : Int) - c.padW) % 2) * ((c.height : Int) - oy)
      then raw8 c.fdata c.width c.height c.padW oy (stride4 c.width) (((c.width : Int) - c.padW) + ((c.width : Int) - c.padW) % 2)
      else compressed8 c.fdata c.width c.height c.padW oy (stride4 c.width)) = .ok bmp) :
    decode8 true c b = ([], .ok (hdr8 c.width c.height ++ bmp)) := by
  unfold decode8
  rw [hoy, fixPad_nat, hpal, hcl]
  dsimp only
  rw [bind_ok _ _ _ _ _ (writeBmpHeader_ok _ _ (i32_nat _ (by omega)) (i32_nat _ (by omega)) b)]
  rw [bind_ok _ _ _ _ _ (writeInfoHeader40_ok _ _ 8 256 (i32_nat _ hW) (i32_nat _ hH) (by omega) (by omega) _)]
  rw [bind_ok _ _ _ _ _ (writeColorPalette_8 _).1]
  rw [hbmp]
  unfold hdr8
  simp only [List.append_assoc]
  rfl

theorem decodeStep_snd (reset : Bool) (s : DecState) (c : Call) (cls : String) (h : lookupN c.depth Gen.BitdTables.decoders = some cls) :
    (decodeStep reset s c).2 = (decodeClass cls reset { c with palette := paletteName c } (s c.depth)).2 := by
  unfold decodeStep
  rw [h]

theorem decodeClass_8 : decodeClass "Decoder8b" = decode8 := by
  funext r c
  unfold decodeClass
  have h1 : ¬ ("Decoder8b" = "Decoder1b") := by decide
  have h2 : ¬ ("Decoder8b" = "Decoder4b") := by decide
  rw [if_neg h1, if_neg h2, if_pos rfl]

theorem lookup_8 : lookupN 8 Gen.BitdTables.decoders = some "Decoder8b" := by decide

theorem paletteName_8 (c : Call) (h : c.depth = 8) : paletteName c = c.palette := by
  unfold paletteName; rw [if_pos h]

theorem decode8_eta (c : Call) : decode8 true { c with palette := c.palette } (DecState.init c.depth) = decode8 true c [] := rfl

/-- `bitd2bmp` on an 8-bit request in a fresh process is `Decoder8b.decode` on an empty buffer -/
theorem bitd2bmp_8 (c : Call) (hd : c.depth = 8) : bitd2bmp c = (decode8 true c []).2 := by
  have hl : lookupN c.depth Gen.BitdTables.decoders = some "Decoder8b" := by rw [hd]; exact lookup_8
  unfold bitd2bmp
  rw [decodeStep_snd true _ c _ hl, decodeClass_8, paletteName_8 c hd]
  exact congrArg Prod.snd (decode8_eta c)

/-! ### reading the result back -/

theorem pixelsOf_one : ∀ (l rest : Bytes), pixelsOf 1 l.length (l ++ rest) = l.map fun v => [v] := by
  intro l
  induction l with
  | nil => intro rest; rfl
  | cons v l ih => intro rest; simp [pixelsOf, ih]

theorem flatten_replicate_zeros (n s : Nat) : (List.replicate n (zeros s)).flatten = zeros (n * s) := by
  induction n with
  | zero => simp [zeros_zero]
  | succ n ih => rw [List.replicate_succ, List.flatten_cons, ih, ← zeros_add]; congr 1; rw [Nat.add_mul]; omega

theorem map_single_zeros (n : Nat) : (zeros n).map (fun v => [v]) = List.replicate n (zeros 1) := by
  simp [zeros]

/-- the file rows of a one-byte-per-pixel canvas, bottom row first -/
def fileRows1 (stride ox w oy : Nat) (raws : List Bytes) : List Bytes :=
  raws.reverse.map (fun r => rowImg stride ox w r) ++ List.replicate oy (zeros stride)

theorem fileRows1_flatten (stride ox w oy : Nat) (raws : List Bytes) :
    (fileRows1 stride ox w oy raws).flatten = (raws.reverse.map fun r => rowImg stride ox w r).flatten ++ zeros (oy * stride) := by
  unfold fileRows1
  rw [List.flatten_append, flatten_replicate_zeros]

/-- reading the file rows of an image whose painted lines `f a` start with the `W - ox` pixel bytes `g a` of the line -/
theorem read_fileRows1 {α : Type} (stride W ox oy : Nat) (hox : ox ≤ W) (hst : W ≤ stride) (pix : List α) (f g : α → Bytes)
    (hg : ∀ a ∈ pix, (g a).length = W - ox) (hf : ∀ a ∈ pix, ∃ t, f a = g a ++ t) :
    (fileRows1 stride ox (W - ox) oy (pix.map f)).reverse.map (fun r => pixelsOf 1 W r)
      = List.replicate oy (List.replicate W (zeros 1)) ++ pix.map (fun a => List.replicate ox (zeros 1) ++ (g a).map fun v => [v]) := by
  unfold fileRows1
  rw [List.reverse_append, List.map_append, List.reverse_replicate, List.map_replicate]
  congr 1
  · congr 1
    have : zeros stride = zeros W ++ zeros (stride - W) := by rw [← zeros_add]; congr 1; omega
    rw [this]
    have := pixelsOf_one (zeros W) (zeros (stride - W))
    rw [zeros_length] at this
    rw [this, map_single_zeros]
  · rw [← List.map_reverse, List.reverse_reverse, List.map_map, List.map_map]
    apply List.map_congr_left
    intro a ha
    obtain ⟨t, ht⟩ := hf a ha
    have hr : (g a).length = W - ox := hg a ha
    simp only [Function.comp]
    unfold rowImg
    rw [ht]
    have e1 : (g a ++ t).take (W - ox) = g a := by rw [← hr]; simp
    rw [e1]
    have e3 : (zeros ox ++ g a).length = W := by simp; omega
    have := pixelsOf_one (zeros ox ++ g a) (zeros (stride - ox - min (g a ++ t).length (W - ox)))
    rw [e3] at this
    rw [this, List.map_append, map_single_zeros]

theorem evenPad_prefix (p : UInt8) (r : Bytes) : ∃ t, evenPad p r = r ++ t := by
  unfold evenPad
  split
  · exact ⟨[p], rfl⟩
  · exact ⟨[], by simp⟩

theorem evenPad_length (p : UInt8) (r : Bytes) : (evenPad p r).length = r.length + r.length % 2 := by
  unfold evenPad
  split <;> simp <;> omega

theorem fileRows1_rows (stride ox w oy : Nat) (raws : List Bytes) (hw : ox + w ≤ stride) :
    (fileRows1 stride ox w oy raws).length = raws.length + oy ∧ ∀ r ∈ fileRows1 stride ox w oy raws, r.length = stride := by
  unfold fileRows1
  constructor
  · simp
  · intro r hr
    simp only [List.mem_append, List.mem_map, List.mem_reverse, List.mem_replicate] at hr
    rcases hr with ⟨a, _, rfl⟩ | ⟨_, rfl⟩
    · exact rowImg_length _ _ _ _ hw
    · simp

theorem stride4_eq (W : Nat) : stride4 W = (W * 8 + 31) / 32 * 4 := by
  unfold stride4; split <;> omega

theorem stride4_ge (W : Nat) : W ≤ stride4 W := by
  unfold stride4; split <;> omega

/-- the BMP `hdr8 ++ file rows ++ surplus` of an 8-bit image reads back as its canvas -/
theorem read_bmp8 (W H ox oy : Nat) (hox : ox ≤ W) (hoy : oy ≤ H) (hW : W < 2147483648) (hH : H < 2147483648)
    (rows : List (List UInt8)) (hrows : rows.length = H - oy) (hpix : ∀ r ∈ rows, r.length = W - ox) (p2 : UInt8) (extra : Bytes) :
    readBmp (hdr8 W H ++ (fileRows1 (stride4 W) ox (W - ox) oy (rows.map (evenPad p2))).flatten ++ extra)
      = some (canvas ⟨W, H, ox, oy, .d8 rows⟩) := by
  have hf := hdr40_fields ((W * H + 256 * 4 + 40 + 14 : Nat) : Int) (256 * 4 + 40 + 14) W H 8 256 (sysPal 8 "systemMac")
    (by omega) hW hH (by omega)
  have hfr := fileRows1_rows (stride4 W) ox (W - ox) oy (rows.map (evenPad p2)) (by have := stride4_ge W; omega)
  have hlen : (hdr8 W H).length = 256 * 4 + 40 + 14 := hdr8_length W H
  rw [readBmp_rows (hdr8 W H) W H 8 _ extra (by rw [hlen]; omega) hf.1 (by rw [hlen]; exact hf.2.1) hf.2.2.1 hf.2.2.2.1
    hf.2.2.2.2.1 hf.2.2.2.2.2 hW hH (Or.inl rfl) (by rw [hfr.1]; simp; omega) (by intro r hr; rw [hfr.2 r hr, stride4_eq])]
  have := read_fileRows1 (stride4 W) W ox oy hox (stride4_ge W) rows (evenPad p2) id (by simpa using hpix)
    (fun a _ => evenPad_prefix p2 a)
  have e8 : (8 : Nat) / 8 = 1 := rfl
  rw [e8, this]
  unfold canvas canvasRows
  simp only [Pixels.bytesPerPixel, List.map_map, id]
  rfl

theorem rowImg_prefix (stride ox w : Nat) (r t : Bytes) (h : r.length = w) :
    rowImg stride ox w (r ++ t) = rowImg stride ox w r := by
  unfold rowImg
  have e1 : (r ++ t).take w = r := by rw [← h]; simp
  have e2 : r.take w = r := by rw [← h]; simp
  rw [e1, e2]
  congr 2
  simp; omega

theorem fileRows1_evenPad (stride ox w oy : Nat) (p : UInt8) (rows : List Bytes) (h : ∀ r ∈ rows, r.length = w) :
    fileRows1 stride ox w oy (rows.map (evenPad p)) = fileRows1 stride ox w oy rows := by
  unfold fileRows1
  congr 1
  rw [← List.map_reverse, List.map_map]
  apply List.map_congr_left
  intro r hr
  obtain ⟨t, ht⟩ := evenPad_prefix p r
  simp only [Function.comp, ht]
  exact rowImg_prefix _ _ _ _ _ (h r (by simpa using hr))

theorem raw_test_iff (W H ox oy n : Nat) (hox : ox ≤ W) (hoy : oy ≤ H) :
    ((n : Int) = (((W : Int) - ox) + ((W : Int) - ox) % 2) * ((H : Int) - oy)) ↔ n = ((W - ox) + (W - ox) % 2) * (H - oy) := by
  have e1 : ((W : Int) - ox) + ((W : Int) - ox) % 2 = (((W - ox) + (W - ox) % 2 : Nat) : Int) := by omega
  have e2 : (H : Int) - oy = ((H - oy : Nat) : Int) := by omega
  rw [e1, e2, ← Int.natCast_mul]
  exact Int.ofNat_inj

theorem length_flatten_uniform (s : Nat) : ∀ (rows : List Bytes), (∀ r ∈ rows, r.length = s) → rows.flatten.length = s * rows.length := by
  intro rows
  induction rows with
  | nil => intro _; simp
  | cons r rs ih =>
    intro h
    simp only [List.flatten_cons, List.length_append, List.length_cons]
    rw [ih (fun r' h' => h r' (by simp [h'])), h r (by simp), Nat.mul_succ]; omega

/-- the shape facts packed into `Img.wf` for an 8-bit image -/
theorem wf8 (W H ox oy : Nat) (rows : List (List UInt8)) (h : (Img.mk W H ox oy (.d8 rows)).wf = true) :
    ox ≤ W ∧ oy ≤ H ∧ rows.length = H - oy ∧ ∀ r ∈ rows, r.length = W - ox := by
  simp only [Img.wf, Pixels.shapeOk, Img.w, Img.h, Bool.and_eq_true, decide_eq_true_eq, beq_iff_eq, List.all_eq_true] at h
  exact ⟨h.1.1, h.1.2, h.2.1, h.2.2⟩

/-- 8 bit, raw storage: the output is header ++ file rows of the image, for every geometry -/
theorem bitd2bmp_8_raw (W H ox oy : Nat) (rows : List (List UInt8)) (p1 p2 : UInt8)
    (hwf : (Img.mk W H ox oy (.d8 rows)).wf = true) (hfit : fitsHeader (Img.mk W H ox oy (.d8 rows)) = true) :
    bitd2bmp (callOf ⟨W, H, ox, oy, .d8 rows⟩ (serialise ⟨W, H, ox, oy, .d8 rows⟩ p1 p2 .raw))
      = .ok (hdr8 W H ++ (fileRows1 (stride4 W) ox (W - ox) oy rows).flatten) := by
  obtain ⟨hox, hoy, hrows, hpix⟩ := wf8 W H ox oy rows hwf
  simp only [fitsHeader, decide_eq_true_eq] at hfit
  obtain ⟨hW, hH, hWH⟩ := fits_bounds W H hfit
  rw [bitd2bmp_8 _ rfl]
  have hraw : ∀ r ∈ rows.map (evenPad p2), r.length = (W - ox) + (W - ox) % 2 := by
    intro r hr
    simp only [List.mem_map] at hr
    obtain ⟨a, ha, rfl⟩ := hr
    rw [evenPad_length, hpix a ha]
  have hlen : (rows.map (evenPad p2)).flatten.length = ((W - ox) + (W - ox) % 2) * (H - oy) := by
    rw [length_flatten_uniform _ _ hraw]; simp [hrows]
  have hspec := raw8_spec W H ox oy (stride4 W) hox hoy (stride4_ge W) (rows.map (evenPad p2)) (by simp [hrows]) hraw
  have hlay : ((rows.map (evenPad p2)).reverse.map fun r => rowImg (stride4 W) ox (W - ox) r).flatten ++ zeros (oy * stride4 W)
      = (fileRows1 (stride4 W) ox (W - ox) oy rows).flatten := by
    rw [← fileRows1_evenPad (stride4 W) ox (W - ox) oy p2 rows hpix, fileRows1_flatten]
  rw [hlay] at hspec
  rw [decode8_eval (callOf ⟨W, H, ox, oy, .d8 rows⟩ (serialise ⟨W, H, ox, oy, .d8 rows⟩ p1 p2 .raw)) oy rfl rfl rfl hW hH
    (by show W * H + 1078 < 2147483648; omega)
    (fileRows1 (stride4 W) ox (W - ox) oy rows).flatten []
    (by
      show (if (((rows.map (evenPad p2)).flatten.length : Nat) : Int) = (((W : Int) - ox) + ((W : Int) - ox) % 2) * ((H : Int) - oy)
        then raw8 (rows.map (evenPad p2)).flatten W H ox oy (stride4 W) (((W : Int) - ox) + ((W : Int) - ox) % 2)
        else compressed8 (rows.map (evenPad p2)).flatten W H ox oy (stride4 W)) = _
      rw [if_pos ((raw_test_iff W H ox oy _ hox hoy).mpr hlen)]
      exact hspec)]
  rfl

theorem validRows_all_empty : ∀ (opsRows : List (List Op)) (rows : List Bytes), validRows opsRows rows = true →
    (∀ r ∈ rows, r = []) → packed opsRows.flatten = [] := by
  intro opsRows
  induction opsRows with
  | nil => intro rows _ _; rfl
  | cons ops os ih =>
    intro rows hv he
    cases rows with
    | nil => simp [validRows] at hv
    | cons r rs =>
      simp only [validRows, Bool.and_eq_true, List.all_eq_true, beq_iff_eq] at hv
      obtain ⟨⟨hvo, hun⟩, hvr⟩ := hv
      have hr : r = [] := he r (by simp)
      have : ops = [] := unpack_nil_of_valid ops hvo (by rw [hun, hr]; rfl)
      subst this
      simp only [List.flatten_cons, List.nil_append]
      exact ih rs hvr (fun r' h => he r' (by simp [h]))

/-- 8 bit, PackBits storage, every valid scan-line encoding, every geometry: the output is header ++ file rows of the
    image ++ the surplus the compressed path allocates when the even-padded line does not fit the stride -/
theorem bitd2bmp_8_packed (W H ox oy : Nat) (rows : List (List UInt8)) (p1 p2 : UInt8) (opsRows : List (List Op))
    (hwf : (Img.mk W H ox oy (.d8 rows)).wf = true) (hfit : fitsHeader (Img.mk W H ox oy (.d8 rows)) = true)
    (hv : validEnc ⟨W, H, ox, oy, .d8 rows⟩ p1 p2 (.packed opsRows) = true)
    (hne : (serialise ⟨W, H, ox, oy, .d8 rows⟩ p1 p2 (.packed opsRows)).length ≠ (serialise ⟨W, H, ox, oy, .d8 rows⟩ p1 p2 .raw).length) :
    bitd2bmp (callOf ⟨W, H, ox, oy, .d8 rows⟩ (serialise ⟨W, H, ox, oy, .d8 rows⟩ p1 p2 (.packed opsRows)))
      = .ok (hdr8 W H ++ ((fileRows1 (stride4 W) ox (W - ox) oy rows).flatten
              ++ zeros (((g8 W ox (stride4 W)).bw - stride4 W) * H))) := by
  obtain ⟨hox, hoy, hrows, hpix⟩ := wf8 W H ox oy rows hwf
  simp only [fitsHeader, decide_eq_true_eq] at hfit
  obtain ⟨hW, hH, hWH⟩ := fits_bounds W H hfit
  have hv' : validRows opsRows (rows.map (evenPad p2)) = true := hv
  have hraw : ∀ r ∈ rows.map (evenPad p2), r.length = (W - ox) + (W - ox) % 2 := by
    intro r hr
    simp only [List.mem_map] at hr
    obtain ⟨a, ha, rfl⟩ := hr
    rw [evenPad_length, hpix a ha]
  have hlen : (rows.map (evenPad p2)).flatten.length = ((W - ox) + (W - ox) % 2) * (H - oy) := by
    rw [length_flatten_uniform _ _ hraw]; simp [hrows]
  have hne' : (packed opsRows.flatten).length ≠ ((W - ox) + (W - ox) % 2) * (H - oy) := by
    rw [← hlen]; exact hne
  -- an image without pixels has the empty encoding, which has the raw length
  have hpos : 0 < W - ox ∧ oy < H := by
    refine ⟨Nat.pos_of_ne_zero ?_, Nat.lt_of_not_le ?_⟩
    · intro h0
      apply hne'
      have : packed opsRows.flatten = [] := validRows_all_empty opsRows _ hv' (by
        intro r hr
        have := hraw r hr
        rw [h0] at this
        exact List.eq_nil_of_length_eq_zero this)
      rw [this, h0]; simp
    · intro hle
      apply hne'
      have h0 : H - oy = 0 := by omega
      have : rows = [] := List.eq_nil_of_length_eq_zero (by omega)
      subst this
      have : packed opsRows.flatten = [] := validRows_all_empty opsRows _ hv' (by simp)
      rw [this, h0]; simp
  rw [bitd2bmp_8 _ rfl]
  have hspec := compressed8_spec W H ox oy (stride4 W) hox hpos.2 (stride4_ge W) opsRows (rows.map (evenPad p2)) hv'
    (by simp [hrows]) hraw hpos.1
  have hlay : ((rows.map (evenPad p2)).reverse.map fun r => rowImg (stride4 W) ox (W - ox) r).flatten ++ zeros (oy * stride4 W)
      = (fileRows1 (stride4 W) ox (W - ox) oy rows).flatten := by
    rw [← fileRows1_evenPad (stride4 W) ox (W - ox) oy p2 rows hpix, fileRows1_flatten]
  rw [hlay] at hspec
  rw [decode8_eval (callOf ⟨W, H, ox, oy, .d8 rows⟩ (serialise ⟨W, H, ox, oy, .d8 rows⟩ p1 p2 (.packed opsRows))) oy rfl rfl rfl hW hH
    (by show W * H + 1078 < 2147483648; omega)
    ((fileRows1 (stride4 W) ox (W - ox) oy rows).flatten ++ zeros (((g8 W ox (stride4 W)).bw - stride4 W) * H)) []
    (by
      show (if (((packed opsRows.flatten).length : Nat) : Int) = (((W : Int) - ox) + ((W : Int) - ox) % 2) * ((H : Int) - oy)
        then raw8 (packed opsRows.flatten) W H ox oy (stride4 W) (((W : Int) - ox) + ((W : Int) - ox) % 2)
        else compressed8 (packed opsRows.flatten) W H ox oy (stride4 W)) = _
      rw [if_neg (fun h => hne' ((raw_test_iff W H ox oy _ hox hoy).mp h))]
      exact hspec)]
  rfl

end Drx.Bitd
