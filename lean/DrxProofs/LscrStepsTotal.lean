/-
  Bounds for the counting twins, part 4: the whole chunk (`lscrStepsWith`): the container loops together, and the
  function-record loop of parse_frb.
-/
import DrxProofs.LscrSteps
namespace Drx.Lscr.Steps
open Drx Drx.Gen Drx.Lscr

@[simp] theorem Total.add_crb (a b : Total) : (a + b).crb = a.crb + b.crb := rfl
@[simp] theorem Total.add_prb (a b : Total) : (a + b).prb = a.prb + b.prb := rfl
@[simp] theorem Total.add_grb (a b : Total) : (a + b).grb = a.grb + b.grb := rfl
@[simp] theorem Total.add_fnames (a b : Total) : (a + b).fnames = a.fnames + b.fnames := rfl
@[simp] theorem Total.add_frb (a b : Total) : (a + b).frb = a.frb + b.frb := rfl
@[simp] theorem Total.add_tables (a b : Total) : (a + b).tables = a.tables + b.tables := rfl
@[simp] theorem Total.add_opcodes (a b : Total) : (a + b).opcodes = a.opcodes + b.opcodes := rfl

/-- a function record that was read completely lies inside the data: 42 bytes from `idx` -/
theorem readFrb_range {ctx : Ctx} {d : Bytes} {idx : Int} {dc : Nat} {r : FrbRec} (h : readFrb ctx d idx dc = .ok r) :
    -(d.length : Int) ≤ idx ∧ idx + 42 ≤ d.length := by
  unfold readFrb at h
  obtain ⟨v0, h0, h⟩ := bind_ok h
  have a := getSI_ok_range (by decide) h0
  obtain ⟨_, _, h⟩ := bind_ok h
  obtain ⟨_, _, h⟩ := bind_ok h
  obtain ⟨_, _, h⟩ := bind_ok h
  obtain ⟨_, _, h⟩ := bind_ok h
  obtain ⟨_, _, h⟩ := bind_ok h
  obtain ⟨_, _, h⟩ := bind_ok h
  obtain ⟨_, _, h⟩ := bind_ok h
  obtain ⟨_, _, h⟩ := bind_ok h
  obtain ⟨_, _, h⟩ := bind_ok h
  obtain ⟨_, _, h⟩ := bind_ok h
  obtain ⟨_, _, h⟩ := bind_ok h
  obtain ⟨_, _, h⟩ := bind_ok h
  obtain ⟨_, h38, h⟩ := bind_ok h
  have b := getSI_ok_range (by decide) h38
  omega

/-- the container fields of the per-function counters are zero -/
theorem parseFuncS_container (ctx : Ctx) (d : Bytes) (idx : Int) (fs : FrbState) :
    (parseFuncS ctx d idx fs).1.crb = 0 ∧ (parseFuncS ctx d idx fs).1.prb = 0 ∧ (parseFuncS ctx d idx fs).1.grb = 0 ∧
    (parseFuncS ctx d idx fs).1.fnames = 0 ∧ (parseFuncS ctx d idx fs).1.frb = 1 := by
  unfold parseFuncS
  split
  · split <;> simp
  · dsimp only
    split
    · simp
    · split
      · simp
      · split <;> simp

theorem parseFuncS_ok_range {ctx : Ctx} {d : Bytes} {idx : Int} {fs fs' : FrbState} (h : (parseFuncS ctx d idx fs).2 = .ok fs') :
    -(d.length : Int) ≤ idx ∧ idx + 42 ≤ d.length := by
  unfold parseFuncS at h
  split at h
  · cases h
  · rename_i r hr; exact readFrb_range hr

theorem parseFuncsS_container (ctx : Ctx) (d : Bytes) (k : Nat) (idx : Int) (fs : FrbState) :
    (parseFuncsS ctx d k idx fs).crb = 0 ∧ (parseFuncsS ctx d k idx fs).prb = 0 ∧ (parseFuncsS ctx d k idx fs).grb = 0 ∧
    (parseFuncsS ctx d k idx fs).fnames = 0 ∧ 42 * (parseFuncsS ctx d k idx fs).frb ≤ leftFrom d idx + 42 := by
  induction k generalizing idx fs with
  | zero => simp [parseFuncsS]
  | succ k ih =>
    unfold parseFuncsS
    have c := parseFuncS_container ctx d idx fs
    dsimp only
    split
    · refine ⟨c.1, c.2.1, c.2.2.1, c.2.2.2.1, ?_⟩; rw [c.2.2.2.2]; omega
    · rename_i fs' hok
      have r := parseFuncS_ok_range hok
      have := ih (idx + 42) fs'
      simp only [Total.add_crb, Total.add_prb, Total.add_grb, Total.add_fnames, Total.add_frb, c.1, c.2.1, c.2.2.1, c.2.2.2.1, c.2.2.2.2, this.1, this.2.1, this.2.2.1, this.2.2.2.1]
      refine ⟨trivial, trivial, trivial, trivial, ?_⟩
      have h5 := this.2.2.2.2
      unfold leftFrom at h5 ⊢
      have h1 : -(d.length : Int) ≤ idx := r.1
      have h2 : -(d.length : Int) ≤ idx + 42 := by omega
      simp only [h1, h2, if_true] at h5 ⊢
      omega


/-- **the container loops of a whole chunk are linear in its length**, whatever counts and offsets the header declares:
    constant records, property names, global names, handler names and the function-record loop itself -/
theorem lscr_container_linear (codec : Codec) (d : Bytes) (names : List Str) :
    6 * (lscrStepsWith codec d names).crb ≤ 2 * d.length + 6 ∧
    (lscrStepsWith codec d names).prb ≤ 3 * d.length + 3 ∧
    (lscrStepsWith codec d names).grb ≤ 3 * d.length + 3 ∧
    42 * (lscrStepsWith codec d names).fnames ≤ 2 * d.length + 82 ∧
    42 * (lscrStepsWith codec d names).frb ≤ 2 * d.length + 42 := by
  unfold lscrStepsWith
  split
  · simp
  · rename_i h _
    have hcrb := crbSteps_linear codec d h.conOff h.crbN.toNat { idx := h.crbOff, bpc := 6, acc := [] }
    have hprb := nameRecordsSteps_linear d h.prbOff h.grbOff
    have hgrb := nameRecordsSteps_linear d h.grbOff h.frbOff
    have hfn := funcNamesSteps_linear d h.frbN.toNat h.frbOff
    dsimp only
    split
    · simp; omega
    · split
      · simp; omega
      · split
        · simp only [Total.add_crb, Total.add_prb, Total.add_grb, Total.add_fnames, Total.add_frb]
          split <;> simp <;> omega
        · split
          · simp only [Total.add_crb, Total.add_prb, Total.add_grb, Total.add_fnames, Total.add_frb]
            split <;> split <;> simp <;> omega
          · split
            · simp only [Total.add_crb, Total.add_prb, Total.add_grb, Total.add_fnames, Total.add_frb]
              split <;> split <;> simp <;> omega
            · have hp := fun (ctx : Ctx) (fs : FrbState) => parseFuncsS_container ctx d h.frbN.toNat h.frbOff fs
              have := leftFrom_le d h.frbOff
              simp only [Total.add_crb, Total.add_prb, Total.add_grb, Total.add_fnames, Total.add_frb, fun ctx fs => (hp ctx fs).1,
                fun ctx fs => (hp ctx fs).2.1, fun ctx fs => (hp ctx fs).2.2.1, fun ctx fs => (hp ctx fs).2.2.2.1]
              have h5 := fun ctx fs => (hp ctx fs).2.2.2.2
              split <;> split <;> simp <;>
                (and_intros <;> first | omega | exact Nat.le_trans (h5 _ _) (by omega))


/-! ### with the running totals (repairs F103): name tables and bytecode of ALL handlers together fit in the data -/

theorem localNamesSteps_le (ctx : Ctx) (d : Bytes) (off : Int) (k nl : Nat) : localNamesSteps ctx d off k nl ≤ k := by
  induction k generalizing nl with
  | zero => simp [localNamesSteps]
  | succ k ih =>
    unfold localNamesSteps
    split
    · omega
    · split
      · omega
      · have := ih (nl + 1); omega

theorem paramNamesSteps_le (ctx : Ctx) (d : Bytes) (off : Int) (k nl : Nat) : paramNamesSteps ctx d off k nl ≤ k := by
  induction k generalizing nl with
  | zero => simp [paramNamesSteps]
  | succ k ih =>
    unfold paramNamesSteps
    have := ih (nl + 1)
    split
    · omega
    · split
      · split <;> omega
      · omega

theorem handlerGlobalsSteps_le (d : Bytes) (off : Int) (k nl : Nat) : handlerGlobalsSteps d off k nl ≤ k := by
  induction k generalizing nl with
  | zero => simp [handlerGlobalsSteps]
  | succ k ih =>
    unfold handlerGlobalsSteps
    have := ih (nl + 1)
    split <;> omega

/-- the name-table loops of one record run only if the record's declared bytes still fit: two bytes per round -/
theorem tablesSteps_declared (ctx : Ctx) (d : Bytes) (idx : Int) (dc : Nat) (hdc : dc ≤ d.length) :
    ∃ bl : Nat, 2 * tablesSteps ctx d idx dc + dc + bl ≤ d.length ∧
      (∀ v, getSI 4 d (idx + 4) = .ok v → tablesSteps ctx d idx dc ≠ 0 → bl = v.toNat) := by
  unfold tablesSteps
  split
  · rename_i nArg argOff nLocal localOff countC globOff bcLen _ _ _ _ _ _ hbl
    have a := localNamesSteps_le ctx d localOff nLocal.toNat 0
    have b := paramNamesSteps_le ctx d argOff nArg.toNat 0
    have c := handlerGlobalsSteps_le d globOff countC.toNat 0
    split
    · exact ⟨0, by omega, by intro v _ h; exact absurd rfl h⟩
    · refine ⟨bcLen.toNat, ?_, ?_⟩
      · dsimp only
        split
        · omega
        · split <;> omega
      · intro v hv _
        rw [hbl] at hv
        cases hv; rfl
  · exact ⟨0, by omega, by intro v _ h; exact absurd rfl h⟩


/-- a record that was read: its loops' rounds and its bytecode are paid for by the bytes it adds to the running total -/
theorem readFrb_declared {ctx : Ctx} {d : Bytes} {idx : Int} {dc : Nat} {r : FrbRec} (h : readFrb ctx d idx dc = .ok r) :
    2 * tablesSteps ctx d idx dc + dc + r.bcLen.toNat ≤ r.declared ∧ r.declared ≤ d.length := by
  unfold readFrb at h
  obtain ⟨_, _, h⟩ := bind_ok h
  obtain ⟨_, _, h⟩ := bind_ok h
  obtain ⟨bcLen, hbl, h⟩ := bind_ok h
  obtain ⟨_, _, h⟩ := bind_ok h
  obtain ⟨nArg, hna, h⟩ := bind_ok h
  obtain ⟨argOff, hao, h⟩ := bind_ok h
  obtain ⟨nLocal, hnl, h⟩ := bind_ok h
  obtain ⟨localOff, hlo, h⟩ := bind_ok h
  obtain ⟨countC, hcc, h⟩ := bind_ok h
  obtain ⟨globOff, hgo, h⟩ := bind_ok h
  obtain ⟨_, _, h⟩ := bind_ok h
  obtain ⟨_, _, h⟩ := bind_ok h
  obtain ⟨_, _, h⟩ := bind_ok h
  obtain ⟨_, _, h⟩ := bind_ok h
  try simp only at h
  split at h
  · cases h
  · rename_i hg
    obtain ⟨locals, _, h⟩ := bind_ok h
    obtain ⟨pm, _, h⟩ := bind_ok h
    try simp only at h
    obtain ⟨globals, _, h⟩ := bind_ok h
    simp only [pure, Except.pure, Except.ok.injEq] at h
    subst h
    have a := localNamesSteps_le ctx d localOff nLocal.toNat 0
    have b := paramNamesSteps_le ctx d argOff nArg.toNat 0
    have c := handlerGlobalsSteps_le d globOff countC.toNat 0
    unfold tablesSteps
    simp only [hna, hao, hnl, hlo, hcc, hgo, hbl, hg, if_false]
    refine ⟨?_, by omega⟩
    split
    · omega
    · split <;> omega

/-- one handler: rounds of its name-table loops (two bytes each) and of its opcode loop are within the bytes it declares -/
theorem parseFuncS_declared (ctx : Ctx) (d : Bytes) (idx : Int) (fs : FrbState) (hfs : fs.declared ≤ d.length) :
    (∀ fs', (parseFuncS ctx d idx fs).2 = .ok fs' →
        2 * (parseFuncS ctx d idx fs).1.tables + (parseFuncS ctx d idx fs).1.opcodes + fs.declared ≤ fs'.declared ∧ fs'.declared ≤ d.length) ∧
    2 * (parseFuncS ctx d idx fs).1.tables + (parseFuncS ctx d idx fs).1.opcodes + fs.declared ≤ d.length := by
  unfold parseFuncS
  split
  · -- the record was not read
    rename_i e he
    obtain ⟨bl, hb, _⟩ := tablesSteps_declared ctx d idx fs.declared hfs
    refine ⟨fun fs' h => (by cases h), ?_⟩
    split <;> simp <;> omega
  · rename_i r hr
    have hd := readFrb_declared hr
    have ho := opcodeLoopS_rounds_code { ctx with params := r.params, localVars := r.locals } d r.bcOff r.bcLen r.bcOff fs.regs
      { bpc := fs.bpc, tell := fs.tell, gvars := r.globals }
    have e : (r.bcLen - (r.bcOff - r.bcOff)).toNat = r.bcLen.toNat := by congr 1; omega
    rw [e] at ho
    dsimp only
    split
    · refine ⟨fun fs' h => (by cases h), ?_⟩
      simp; omega
    · split
      · refine ⟨fun fs' h => (by cases h), ?_⟩
        simp; omega
      · split
        · refine ⟨fun fs' h => (by cases h), ?_⟩
          simp; omega
        · refine ⟨fun fs' h => ?_, ?_⟩
          · simp only [Except.ok.injEq] at h
            subst h
            simp; omega
          · simp; omega

/-- **all handlers together** (any declared record count, any offsets, overlapping or not): two bytes of data per round of a
    name-table loop and one byte per instruction decoded — the repaired parse_frb is linear in the chunk length -/
theorem parseFuncsS_declared (ctx : Ctx) (d : Bytes) (k : Nat) (idx : Int) (fs : FrbState) (hfs : fs.declared ≤ d.length) :
    2 * (parseFuncsS ctx d k idx fs).tables + (parseFuncsS ctx d k idx fs).opcodes + fs.declared ≤ d.length := by
  induction k generalizing idx fs with
  | zero => simp [parseFuncsS]; exact hfs
  | succ k ih =>
    unfold parseFuncsS
    have hp := parseFuncS_declared ctx d idx fs hfs
    dsimp only
    split
    · exact hp.2
    · rename_i fs' hok
      have h1 := hp.1 fs' hok
      have h2 := ih (idx + 42) fs' h1.2
      simp only [Total.add_tables, Total.add_opcodes]
      omega

theorem lscr_handlers_linear (codec : Codec) (d : Bytes) (names : List Str) :
    2 * (lscrStepsWith codec d names).tables + (lscrStepsWith codec d names).opcodes ≤ d.length := by
  unfold lscrStepsWith
  split
  · simp
  · rename_i h _
    have hp : ∀ (ctx : Ctx) (bpc : Nat),
        2 * (parseFuncsS ctx d h.frbN.toNat h.frbOff { bpc := bpc, tell := false, regs := [], funcs := [] }).tables +
          (parseFuncsS ctx d h.frbN.toNat h.frbOff { bpc := bpc, tell := false, regs := [], funcs := [] }).opcodes ≤ d.length := by
      intro ctx bpc
      have := parseFuncsS_declared ctx d h.frbN.toNat h.frbOff { bpc := bpc, tell := false, regs := [], funcs := [] } (Nat.zero_le _)
      simpa using this
    dsimp only
    split
    · simp
    · split
      · simp
      · split
        · split <;> simp
        · split
          · split <;> split <;> simp
          · split
            · split <;> split <;> simp
            · split <;> split <;> simp <;> exact hp _ _

end Drx.Lscr.Steps
