/-
  Bounds for the counting twins, part 4: the whole chunk (`lscrStepsWith`): the container loops together, and the
  function-record loop of parse_frb.
-/
import DrxProofs.LscrSteps
namespace Drx.Lscr.Steps
open Drx Drx.Gen Drx.Lscr

@[simp] theorem Total.add_crb (a b : Total) : (a + b).crb = a.crb + b.crb := rfl
@[simp] theorem Total.add_prb (a b : Total) : (a + b).prb = a.prb + b.prb := rfl
@[simp] theorem Total.add_grb (a b : Total) : (a + b).grb = a.grb + b.grb := rfl
@[simp] theorem Total.add_fnames (a b : Total) : (a + b).fnames = a.fnames + b.fnames := rfl
@[simp] theorem Total.add_frb (a b : Total) : (a + b).frb = a.frb + b.frb := rfl

/-- a function record that was read completely lies inside the data: 42 bytes from `idx` -/
theorem readFrb_range {ctx : Ctx} {d : Bytes} {idx : Int} {r : FrbRec} (h : readFrb ctx d idx = .ok r) :
    -(d.length : Int) ≤ idx ∧ idx + 42 ≤ d.length := by
  unfold readFrb at h
  simp only [bind, Except.bind] at h
  cases h0 : getSI 2 d idx with
  | error e => rw [h0] at h; cases h
  | ok v0 =>
    have a := getSI_ok_range (by decide) h0
    rw [h0] at h
    simp only at h
    repeat (split at h; · cases h)
    have h38 : ∃ v, getSI 4 d (idx + 38) = .ok v := ⟨_, by assumption⟩
    obtain ⟨v, h38⟩ := h38
    have b := getSI_ok_range (by decide) h38
    omega

/-- the container fields of the per-function counters are zero -/
theorem parseFuncS_container (ctx : Ctx) (d : Bytes) (idx : Int) (fs : FrbState) :
    (parseFuncS ctx d idx fs).1.crb = 0 ∧ (parseFuncS ctx d idx fs).1.prb = 0 ∧ (parseFuncS ctx d idx fs).1.grb = 0 ∧
    (parseFuncS ctx d idx fs).1.fnames = 0 ∧ (parseFuncS ctx d idx fs).1.frb = 1 := by
  unfold parseFuncS
  split
  · split <;> simp
  · dsimp only
    split
    · simp
    · split
      · simp
      · split <;> simp

theorem parseFuncS_ok_range {ctx : Ctx} {d : Bytes} {idx : Int} {fs fs' : FrbState} (h : (parseFuncS ctx d idx fs).2 = .ok fs') :
    -(d.length : Int) ≤ idx ∧ idx + 42 ≤ d.length := by
  unfold parseFuncS at h
  split at h
  · cases h
  · rename_i r hr; exact readFrb_range hr

theorem parseFuncsS_container (ctx : Ctx) (d : Bytes) (k : Nat) (idx : Int) (fs : FrbState) :
    (parseFuncsS ctx d k idx fs).crb = 0 ∧ (parseFuncsS ctx d k idx fs).prb = 0 ∧ (parseFuncsS ctx d k idx fs).grb = 0 ∧
    (parseFuncsS ctx d k idx fs).fnames = 0 ∧ 42 * (parseFuncsS ctx d k idx fs).frb ≤ leftFrom d idx + 42 := by
  induction k generalizing idx fs with
  | zero => simp [parseFuncsS]
  | succ k ih =>
    unfold parseFuncsS
    have c := parseFuncS_container ctx d idx fs
    dsimp only
    split
    · refine ⟨c.1, c.2.1, c.2.2.1, c.2.2.2.1, ?_⟩; rw [c.2.2.2.2]; omega
    · rename_i fs' hok
      have r := parseFuncS_ok_range hok
      have := ih (idx + 42) fs'
      simp only [Total.add_crb, Total.add_prb, Total.add_grb, Total.add_fnames, Total.add_frb, c.1, c.2.1, c.2.2.1, c.2.2.2.1, c.2.2.2.2, this.1, this.2.1, this.2.2.1, this.2.2.2.1]
      refine ⟨trivial, trivial, trivial, trivial, ?_⟩
      have h5 := this.2.2.2.2
      unfold leftFrom at h5 ⊢
      have h1 : -(d.length : Int) ≤ idx := r.1
      have h2 : -(d.length : Int) ≤ idx + 42 := by omega
      simp only [h1, h2, if_true] at h5 ⊢
      omega


/-- **the container loops of a whole chunk are linear in its length**, whatever counts and offsets the header declares:
    constant records, property names, global names, handler names and the function-record loop itself -/
theorem lscr_container_linear (codec : Codec) (d : Bytes) (names : List Str) :
    6 * (lscrStepsWith codec d names).crb ≤ 2 * d.length + 6 ∧
    (lscrStepsWith codec d names).prb ≤ 3 * d.length + 3 ∧
    (lscrStepsWith codec d names).grb ≤ 3 * d.length + 3 ∧
    42 * (lscrStepsWith codec d names).fnames ≤ 2 * d.length + 82 ∧
    42 * (lscrStepsWith codec d names).frb ≤ 2 * d.length + 42 := by
  unfold lscrStepsWith
  split
  · simp
  · rename_i h _
    have hcrb := crbSteps_linear codec d h.conOff h.crbN.toNat { idx := h.crbOff, bpc := 6, acc := [] }
    have hprb := nameRecordsSteps_linear d h.prbOff h.grbOff
    have hgrb := nameRecordsSteps_linear d h.grbOff h.frbOff
    have hfn := funcNamesSteps_linear d h.frbN.toNat h.frbOff
    dsimp only
    split
    · simp; omega
    · split
      · simp; omega
      · split
        · simp only [Total.add_crb, Total.add_prb, Total.add_grb, Total.add_fnames, Total.add_frb]
          split <;> simp <;> omega
        · split
          · simp only [Total.add_crb, Total.add_prb, Total.add_grb, Total.add_fnames, Total.add_frb]
            split <;> split <;> simp <;> omega
          · split
            · simp only [Total.add_crb, Total.add_prb, Total.add_grb, Total.add_fnames, Total.add_frb]
              split <;> split <;> simp <;> omega
            · have hp := fun (ctx : Ctx) (fs : FrbState) => parseFuncsS_container ctx d h.frbN.toNat h.frbOff fs
              have := leftFrom_le d h.frbOff
              simp only [Total.add_crb, Total.add_prb, Total.add_grb, Total.add_fnames, Total.add_frb, fun ctx fs => (hp ctx fs).1,
                fun ctx fs => (hp ctx fs).2.1, fun ctx fs => (hp ctx fs).2.2.1, fun ctx fs => (hp ctx fs).2.2.2.1]
              have h5 := fun ctx fs => (hp ctx fs).2.2.2.2
              split <;> split <;> simp <;>
                (and_intros <;> first | omega | exact Nat.le_trans (h5 _ _) (by omega))

end Drx.Lscr.Steps
