/-
  C07, resources with several sound commands: the command table of an encoded `Multi` parses back, and running the
  commands on one shared state gives the concatenation of the parts' sample areas when all parts have one format.
-/
import DrxProofs.Snd
namespace Drx.Snd
open Drx Drx.SndSpec

def RecValid : CmdRec → Prop
  | .null ps => ps.length = 6
  | .sound _ p1 off => p1.length = 2 ∧ off < 2 ^ 31

def CmdMatches : CmdRec → Cmd → Prop
  | .null _, c => c.command = 0
  | .sound sc _ off, c => c.command = (cmdNumber sc : Int) ∧ c.param2 = (off : Int)

def CmdsMatch : List CmdRec → List Cmd → Prop
  | [], [] => True
  | r :: rs, c :: cs => CmdMatches r c ∧ CmdsMatch rs cs
  | _, _ => False

theorem encRec_length (r : CmdRec) (hv : RecValid r) : (encRec r).length = 8 := by
  cases r with
  | null ps => simp [encRec, be16, show ps.length = 6 from hv]
  | sound sc p1 off => simp [encRec, be16, be32, show p1.length = 2 from hv.1]

/-- one round of the command loop on an encoded record -/
theorem parseCmds_cons (r : CmdRec) (hv : RecValid r) (pre rest : Bytes) (n : Nat) :
    ∃ c, CmdMatches r c ∧
      parseCmds (pre ++ (encRec r ++ rest)) (n + 1) pre.length =
        (match parseCmds (pre ++ (encRec r ++ rest)) n (pre.length + 8) with
         | .ok cs => .ok (c :: cs)
         | .error e => .error e) := by
  generalize hd : pre ++ (encRec r ++ rest) = d
  have hlen : pre.length + 8 ≤ d.length := by
    rw [← hd]; simp only [List.length_append, encRec_length r hv]; omega
  cases r with
  | null ps =>
    have hps : ps.length = 6 := hv
    have e0 : d = pre ++ (be16 0 ++ (ps ++ rest)) := by simp [← hd, encRec, List.append_assoc]
    have h0 : getS .be 2 d pre.length = .ok 0 := by
      rw [e0, getS_at .be 2 pre _ _ _ rfl (by simp [be16])]
      exact unpackS_small .be 2 0 (by decide) (by decide)
    obtain ⟨v1, h1⟩ := getS_ok_of_le .be 2 d (pre.length + 2) (by omega)
    obtain ⟨v2, h2⟩ := getS_ok_of_le .be 4 d (pre.length + 4) (by omega)
    refine ⟨⟨0, v1, v2⟩, rfl, ?_⟩
    rw [parseCmds]
    simp only [h0, h1, h2, bind, Except.bind]
    cases parseCmds d n (pre.length + 8) <;> rfl
  | sound sc p1 off =>
    obtain ⟨hp1, hoff⟩ := hv
    have hcmd := cmdNumber_range sc
    have e0 : d = pre ++ (be16 (cmdNumber sc) ++ (p1 ++ be32 off ++ rest)) := by simp [← hd, encRec, List.append_assoc]
    have h0 : getS .be 2 d pre.length = .ok ((cmdNumber sc : Int) - 65536) := by
      rw [e0, getS_at .be 2 pre _ _ _ rfl (by simp [be16])]
      unfold unpackS be16
      simp only [encOrd_length, if_true]
      rw [ordNat_encOrd_of_lt _ _ _ (by omega)]
      have : ¬ (cmdNumber sc < 2 ^ (8 * 2 - 1)) := by simp; omega
      simp [toSigned, this]
    have e1 : d = (pre ++ be16 (cmdNumber sc)) ++ (p1 ++ (be32 off ++ rest)) := by simp [← hd, encRec, List.append_assoc]
    have h1 : getS .be 2 d (pre.length + 2) = .ok (toSigned 16 (ordNat .be p1)) := by
      rw [e1, getS_at .be 2 _ _ _ _ (by simp [be16]) hp1]
      simp [unpackS, hp1]
    have e2 : d = (pre ++ be16 (cmdNumber sc) ++ p1) ++ (be32 off ++ rest) := by simp [← hd, encRec, List.append_assoc]
    have h2 : getS .be 4 d (pre.length + 4) = .ok (off : Int) := by
      rw [e2, getS_at .be 4 _ _ _ _ (by simp [be16, hp1]) (by simp [be32])]
      exact unpackS_small .be 4 off (by decide) hoff
    have hneg : (cmdNumber sc : Int) - 65536 < 0 := by omega
    have hfix : (0xFFFF + ((cmdNumber sc : Int) - 65536)) + 1 = (cmdNumber sc : Int) := by omega
    refine ⟨⟨(cmdNumber sc : Int), toSigned 16 (ordNat .be p1), (off : Int)⟩, ⟨rfl, rfl⟩, ?_⟩
    rw [parseCmds]
    simp only [h0, h1, h2, bind, Except.bind, hneg, if_true, hfix]
    cases parseCmds d n (pre.length + 8) <;> rfl

/-- the command loop on any list of encoded records: unbounded induction over the table -/
theorem parseCmds_recs (recs : List CmdRec) (hv : ∀ r ∈ recs, RecValid r) (pre post : Bytes) :
    ∃ cmds, parseCmds (pre ++ ((recs.map encRec).flatten ++ post)) recs.length pre.length = .ok cmds ∧ CmdsMatch recs cmds := by
  induction recs generalizing pre with
  | nil => exact ⟨[], rfl, trivial⟩
  | cons r recs ih =>
    have hr := hv r (List.mem_cons_self)
    obtain ⟨cs, hcs, hm⟩ := ih (fun x hx => hv x (List.mem_cons_of_mem _ hx)) (pre ++ encRec r)
    obtain ⟨c, hc, hstep⟩ := parseCmds_cons r hr pre ((recs.map encRec).flatten ++ post) recs.length
    have ed : pre ++ (((r :: recs).map encRec).flatten ++ post) = pre ++ (encRec r ++ ((recs.map encRec).flatten ++ post)) := by
      simp [List.append_assoc]
    have ed2 : pre ++ (encRec r ++ ((recs.map encRec).flatten ++ post)) = (pre ++ encRec r) ++ ((recs.map encRec).flatten ++ post) := by
      simp [List.append_assoc]
    have el : (pre ++ encRec r).length = pre.length + 8 := by simp [encRec_length r hr]
    refine ⟨c :: cs, ?_, ⟨hc, hm⟩⟩
    rw [ed]
    show parseCmds _ (recs.length + 1) pre.length = _
    rw [hstep, ed2, ← el, hcs]

theorem recs_flatten_length (recs : List CmdRec) (hv : ∀ r ∈ recs, RecValid r) : ((recs.map encRec).flatten).length = 8 * recs.length := by
  have := flatten_length_const (recs.map encRec) 8 (by
    intro b hb
    obtain ⟨x, hx, rfl⟩ := List.mem_map.mp hb
    exact encRec_length x (hv x hx))
  simpa using this

theorem recsOf_length (off : Nat) (items : List Item) : (recsOf off items).length = items.length := by
  induction items generalizing off with
  | nil => rfl
  | cons i r ih => cases i <;> simp [recsOf, ih]

theorem recsOf_valid (items : List Item) (hv : ∀ i ∈ items, i.Valid) (off : Nat) (hb : off + (bodyOf items).length < 2 ^ 31) :
    ∀ r ∈ recsOf off items, RecValid r := by
  induction items generalizing off with
  | nil => intro r hr; cases hr
  | cons i rest ih =>
    have hrest := fun x hx => hv x (List.mem_cons_of_mem _ hx)
    cases i with
    | null ps =>
      intro r hr
      simp only [recsOf, List.mem_cons] at hr
      rcases hr with rfl | hr
      · exact hv (.null ps) (List.mem_cons_self)
      · exact ih hrest off (by simpa [bodyOf] using hb) r hr
    | sound p =>
      have hp : p.Valid := hv (.sound p) (List.mem_cons_self)
      intro r hr
      simp only [recsOf, List.mem_cons] at hr
      simp only [bodyOf, List.length_append] at hb
      rcases hr with rfl | hr
      · exact ⟨hp.1, by omega⟩
      · exact ih hrest (off + p.body.length) (by omega) r hr

/-! ### one part -/

/-- `_get_frames` on one part, from any incoming state that a standard header can live with (mono 8-bit) -/
theorem getFrames_part (st : St) (p : Part) (hv : p.Valid) (hst : p.header = .standard → st.channels = 1 ∧ st.bits = 8)
    (pre post : Bytes) :
    getFrames st (pre.length : Int) (pre ++ (encSoundHeader p.asSnd ++ (p.samples ++ post))) =
      .ok (⟨(p.header.channels : Int), (p.header.bits : Int), (p.rateInt : Int)⟩, p.decoded) := by
  obtain ⟨_, hr, hfr, hlo, hh⟩ := hv
  cases hhd : p.header with
  | standard =>
    rw [hhd] at hh
    have hn : p.samples.length < 2 ^ 31 := hh
    obtain ⟨hc1, hb8⟩ := hst hhd
    have hd : pre ++ (encSoundHeader p.asSnd ++ (p.samples ++ post)) =
        pre ++ ((be32 0 ++ be32 p.samples.length ++ be16 p.rateInt ++ p.rateFrac ++ p.loops ++ [0x00, 60]) ++ (p.samples ++ post)) := by
      simp [encSoundHeader, Part.asSnd, hhd, List.append_assoc]
    have hc : st.channels ≠ 0 := by omega
    have hH := soundHeader_standard st pre (p.samples ++ post) p.rateFrac p.loops p.samples.length p.rateInt hn hr hfr hlo hc
    have hd2 : pre ++ ((be32 0 ++ be32 p.samples.length ++ be16 p.rateInt ++ p.rateFrac ++ p.loops ++ [0x00, 60]) ++ (p.samples ++ post)) =
        (pre ++ (be32 0 ++ be32 p.samples.length ++ be16 p.rateInt ++ p.rateFrac ++ p.loops ++ [0x00, 60])) ++ (p.samples ++ post) := by
      simp [List.append_assoc]
    have hA := sampleArea_8 { st with rate := (p.rateInt : Int) } hb8
      (pre ++ (be32 0 ++ be32 p.samples.length ++ be16 p.rateInt ++ p.rateFrac ++ p.loops ++ [0x00, 60])) p.samples post
      ((pre.length : Int) + 22) (by simp [be32, be16, hfr, hlo]; try omega)
    rw [← hd2] at hA
    rw [hd]
    simp only [getFrames, hH, hA, bind, Except.bind]
    simp [Part.decoded, Header.channels, Header.bits, hhd, hc1, hb8]
  | extended c f b aiff ptrs future =>
    rw [hhd] at hh
    obtain ⟨hc, hf, hb, ha, hp, hfu, hlen⟩ := hh
    have hd : pre ++ (encSoundHeader p.asSnd ++ (p.samples ++ post)) =
        pre ++ ((be32 0 ++ be32 c ++ be16 p.rateInt ++ p.rateFrac ++ p.loops ++ [0xFF, 60] ++ be32 f ++ aiff ++ ptrs
        ++ be16 b ++ future) ++ (p.samples ++ post)) := by
      simp [encSoundHeader, Part.asSnd, hhd, List.append_assoc]
    have hH := soundHeader_extended st pre (p.samples ++ post) p.rateFrac p.loops aiff ptrs future c f b p.rateInt
      hc hf (by omega) hr hfr hlo ha hp hfu
    have hd2 : pre ++ ((be32 0 ++ be32 c ++ be16 p.rateInt ++ p.rateFrac ++ p.loops ++ [0xFF, 60] ++ be32 f ++ aiff ++ ptrs
        ++ be16 b ++ future) ++ (p.samples ++ post)) =
        (pre ++ (be32 0 ++ be32 c ++ be16 p.rateInt ++ p.rateFrac ++ p.loops ++ [0xFF, 60] ++ be32 f ++ aiff ++ ptrs
        ++ be16 b ++ future)) ++ (p.samples ++ post) := by simp [List.append_assoc]
    have hidx : (pre.length : Int) + 64 = ((pre ++ (be32 0 ++ be32 c ++ be16 p.rateInt ++ p.rateFrac ++ p.loops ++ [0xFF, 60] ++ be32 f
        ++ aiff ++ ptrs ++ be16 b ++ future)).length : Int) := by
      simp [be32, be16, hfr, hlo, ha, hp, hfu]; try omega
    rw [hd]
    rcases hb with hb | hb
    · subst hb
      have hl : p.samples.length = f * c := by simpa using hlen
      have hA := sampleArea_8 (⟨(c : Int), ((8 : Nat) : Int), (p.rateInt : Int)⟩ : St) rfl _ p.samples post _ hidx
      rw [← hd2, hl] at hA
      have hmul : ((f * c : Nat) : Int) = (f : Int) * (c : Int) := by simp
      rw [hmul] at hA
      simp only [getFrames, hH, hA, bind, Except.bind]
      simp [Part.decoded, Header.channels, Header.bits, hhd]
    · subst hb
      have hl : p.samples.length = 2 * (f * c) := by simp at hlen; omega
      have hA := sampleArea_16 (⟨(c : Int), ((16 : Nat) : Int), (p.rateInt : Int)⟩ : St) rfl _ p.samples post (f * c) hl _ hidx
      rw [← hd2] at hA
      have hmul : ((f * c : Nat) : Int) = (f : Int) * (c : Int) := by simp
      rw [hmul] at hA
      simp only [getFrames, hH, hA, bind, Except.bind]
      simp [Part.decoded, Header.channels, Header.bits, hhd]

/-! ### the command loop over all items -/

/-- state after the sound commands: each header overwrites the rate; an extended header also channels and width -/
def finalSt (st : St) : List Part → St
  | [] => st
  | p :: r => finalSt ⟨(p.header.channels : Int), (p.header.bits : Int), (p.rateInt : Int)⟩ r

theorem finalSt_homogeneous (parts : List Part) (c b : Nat) (hh : ∀ p ∈ parts, p.header.channels = c ∧ p.header.bits = b)
    (hne : parts ≠ []) (st : St) (dflt : Int) :
    finalSt st parts = ⟨(c : Int), (b : Int), lastRate dflt parts⟩ := by
  induction parts generalizing st dflt with
  | nil => exact absurd rfl hne
  | cons p r ih =>
    obtain ⟨hc, hb⟩ := hh p (List.mem_cons_self)
    cases r with
    | nil => simp [finalSt, lastRate, hc, hb]
    | cons q r' =>
      show finalSt ⟨(p.header.channels : Int), (p.header.bits : Int), (p.rateInt : Int)⟩ (q :: r') =
        ⟨(c : Int), (b : Int), lastRate (p.rateInt : Int) (q :: r')⟩
      exact ih (fun x hx => hh x (List.mem_cons_of_mem _ hx)) (by simp) _ _

theorem runCmds_items (items : List Item) (hvi : ∀ i ∈ items, i.Valid) (c b : Nat)
    (hh : ∀ p ∈ partsOf items, p.header.channels = c ∧ p.header.bits = b)
    (pre post : Bytes) (st : St) (cmds : List Cmd)
    (hst : ∀ p ∈ partsOf items, p.header = .standard → st.channels = 1 ∧ st.bits = 8)
    (hm : CmdsMatch (recsOf pre.length items) cmds) :
    runCmds (pre ++ (bodyOf items ++ post)) st cmds =
      .ok (finalSt st (partsOf items), ((partsOf items).map Part.decoded).flatten) := by
  induction items generalizing pre st cmds with
  | nil =>
    cases cmds with
    | nil => rfl
    | cons _ _ => exact absurd hm (by simp [recsOf, CmdsMatch])
  | cons i rest ih =>
    have hrest := fun x hx => hvi x (List.mem_cons_of_mem _ hx)
    cases i with
    | null ps =>
      cases cmds with
      | nil => exact absurd hm (by simp [recsOf, CmdsMatch])
      | cons c0 cs =>
        obtain ⟨h0, hm'⟩ := hm
        have h0' : c0.command = 0 := h0
        simp only [runCmds, h0', dispatch_null, partsOf, bodyOf]
        exact ih hrest hh pre st cs hst hm'
    | sound p =>
      cases cmds with
      | nil => exact absurd hm (by simp [recsOf, CmdsMatch])
      | cons c0 cs =>
        obtain ⟨⟨hcmd, hoff⟩, hm'⟩ := hm
        have hp : p.Valid := hvi (.sound p) (List.mem_cons_self)
        obtain ⟨hpc, hpb⟩ := hh p (by simp [partsOf])
        have ed : pre ++ (bodyOf (.sound p :: rest) ++ post) =
            pre ++ (encSoundHeader p.asSnd ++ (p.samples ++ (p.gap ++ (bodyOf rest ++ post)))) := by
          simp [bodyOf, Part.body, List.append_assoc]
        have ed2 : pre ++ (bodyOf (.sound p :: rest) ++ post) = (pre ++ p.body) ++ (bodyOf rest ++ post) := by
          simp [bodyOf, List.append_assoc]
        have hG := getFrames_part st p hp (hst p (by simp [partsOf])) pre (p.gap ++ (bodyOf rest ++ post))
        rw [← ed] at hG
        have hst' : ∀ q ∈ partsOf rest, q.header = .standard →
            (⟨(p.header.channels : Int), (p.header.bits : Int), (p.rateInt : Int)⟩ : St).channels = 1 ∧
            (⟨(p.header.channels : Int), (p.header.bits : Int), (p.rateInt : Int)⟩ : St).bits = 8 := by
          intro q hq hqs
          obtain ⟨hqc, hqb⟩ := hh q (by simp [partsOf, hq])
          rw [hqs] at hqc hqb
          simp only [Header.channels, Header.bits] at hqc hqb
          simp only
          omega
        have hm'' : CmdsMatch (recsOf (pre ++ p.body).length rest) cs := by
          simpa [List.length_append] using hm'
        have hrec := ih hrest (fun q hq => hh q (by simp [partsOf, hq])) (pre ++ p.body) _ cs hst' hm''
        rw [← ed2] at hrec
        simp only [runCmds, hcmd, dispatch_cmdNumber, hoff, hG, hrec, bind, Except.bind, partsOf, finalSt, List.map_cons, List.flatten_cons]

/-! ### the header in front of the command table -/

theorem parseSndFmt_prefix (f : Format) (hf : f.Valid) (n : Nat) (hn : n < 32768) (rest : Bytes) (cs : List Cmd)
    (hcs : parseCmds (encPrefix f ++ be16 n ++ rest) n ((encPrefix f).length + 2) = .ok cs) :
    ∃ fm, parseSndFmt (encPrefix f ++ be16 n ++ rest) = .ok fm ∧ fm.commands = cs := by
  generalize hd : encPrefix f ++ be16 n ++ rest = d at hcs
  cases f with
  | fmt2 rc =>
    have hrc : rc.length = 2 := hf
    have hpl : (encPrefix (.fmt2 rc)).length = 4 := by simp [encPrefix, be16, hrc]
    rw [hpl] at hcs
    have h0 : getS .be 2 d 0 = .ok 2 := by
      have e : d = [] ++ (be16 2 ++ (rc ++ be16 n ++ rest)) := by simp [← hd, encPrefix, List.append_assoc]
      rw [e, getS_at .be 2 [] _ _ 0 rfl (by simp [be16])]
      first | done | exact unpackS_small .be 2 2 (by decide) (by decide)
    have hlen : 6 ≤ d.length := by rw [← hd]; simp [encPrefix, be16, hrc]; omega
    obtain ⟨rcv, h2⟩ := getS_ok_of_le .be 2 d 2 (by omega)
    have h4 : getS .be 2 d 4 = .ok (n : Int) := by
      have e : d = (be16 2 ++ rc) ++ (be16 n ++ rest) := by simp [← hd, encPrefix, List.append_assoc]
      rw [e, getS_at .be 2 _ _ _ 4 (by simp [be16, hrc]) (by simp [be16])]
      exact unpackS_small .be 2 _ (by decide) (by simpa using hn)
    refine ⟨⟨2, [], rcv, cs⟩, ?_, rfl⟩
    simp only [parseSndFmt, h0, bind, Except.bind, parseSndFmt2, h2, parseSndCommands, h4, Int.toNat_natCast]
    simp only [show ((2 : Int) = 1) = False from by simp, if_false, if_true, hcs]
  | fmt1 dts =>
    have hdl : dts.length < 32768 := hf.1
    have hfl := flatten_length_const dts 6 hf.2
    have hpl : (encPrefix (.fmt1 dts)).length = 4 + 6 * dts.length := by simp [encPrefix, be16, hfl]; omega
    rw [hpl] at hcs
    have h0 : getS .be 2 d 0 = .ok 1 := by
      have e : d = [] ++ (be16 1 ++ (be16 dts.length ++ dts.flatten ++ be16 n ++ rest)) := by simp [← hd, encPrefix, List.append_assoc]
      rw [e, getS_at .be 2 [] _ _ 0 rfl (by simp [be16])]
      first | done | exact unpackS_small .be 2 1 (by decide) (by decide)
    have h2 : getS .be 2 d 2 = .ok (dts.length : Int) := by
      have e : d = be16 1 ++ (be16 dts.length ++ (dts.flatten ++ be16 n ++ rest)) := by simp [← hd, encPrefix, List.append_assoc]
      rw [e, getS_at .be 2 _ _ _ 2 (by simp [be16]) (by simp [be16])]
      exact unpackS_small .be 2 _ (by decide) (by simpa using hdl)
    have hlen : 4 + 6 * dts.length + 2 ≤ d.length := by rw [← hd]; simp [encPrefix, be16, hfl]; omega
    obtain ⟨l, hdt⟩ := parseDataTypes_ok d dts.length 4 (by omega)
    have h4 : getS .be 2 d (4 + 6 * dts.length) = .ok (n : Int) := by
      have e : d = (be16 1 ++ be16 dts.length ++ dts.flatten) ++ (be16 n ++ rest) := by simp [← hd, encPrefix, List.append_assoc]
      rw [e, getS_at .be 2 _ _ _ _ (by simp [be16, hfl]; try omega) (by simp [be16])]
      exact unpackS_small .be 2 _ (by decide) (by simpa using hn)
    refine ⟨⟨1, l, -1, cs⟩, ?_, rfl⟩
    simp only [parseSndFmt, h0, bind, Except.bind, parseSndFmt1, h2, parseSndCommands, Int.toNat_natCast, hdt, h4, if_true, hcs]

/-! ### a whole resource with several sound commands -/

theorem recsOf_encRec_length (items : List Item) (hv : ∀ i ∈ items, i.Valid) (off : Nat) :
    ∀ r ∈ recsOf off items, (encRec r).length = 8 := by
  induction items generalizing off with
  | nil => intro r hr; cases hr
  | cons i rest ih =>
    have hrest := fun x hx => hv x (List.mem_cons_of_mem _ hx)
    intro r hr
    cases i with
    | null ps =>
      simp only [recsOf, List.mem_cons] at hr
      rcases hr with rfl | hr
      · have : ps.length = 6 := hv (.null ps) (List.mem_cons_self)
        simp [encRec, be16, this]
      · exact ih hrest off r hr
    | sound p =>
      simp only [recsOf, List.mem_cons] at hr
      rcases hr with rfl | hr
      · have : p.Valid := hv (.sound p) (List.mem_cons_self)
        simp [encRec, be16, be32, this.1]
      · exact ih hrest _ r hr

theorem table_length (m : Multi) (hvi : ∀ i ∈ m.items, i.Valid) :
    (((recsOf m.tableEnd m.items).map encRec).flatten).length = 8 * m.items.length := by
  have hfl := flatten_length_const ((recsOf m.tableEnd m.items).map encRec) 8 (by
    intro x hx
    obtain ⟨r, hr, rfl⟩ := List.mem_map.mp hx
    exact recsOf_encRec_length m.items hvi m.tableEnd r hr)
  simpa [recsOf_length] using hfl

theorem decode_encodeMulti (m : Multi) (hv : m.Valid) (c b : Nat) (hh : Homogeneous m c b) (hne : partsOf m.items ≠ []) :
    sndToSampled (encodeMulti m) = .ok (expectedMulti m c b) := by
  obtain ⟨hf, hn, hvi, hsize⟩ := hv
  have hte : m.tableEnd = (encPrefix m.format).length + 2 + 8 * m.items.length := rfl
  have htl := table_length m hvi
  -- the records are well-formed: every offset lies inside the resource
  have hT : m.tableEnd + (bodyOf m.items).length < 2 ^ 31 := by
    have hlen : (encodeMulti m).length = m.tableEnd + (bodyOf m.items).length + m.trailing.length := by
      simp only [encodeMulti, List.length_append, htl, be16, encOrd_length]
      omega
    omega
  have hrv := recsOf_valid m.items hvi m.tableEnd hT
  -- the table parses back
  obtain ⟨cmds, hparse, hmatch⟩ := parseCmds_recs (recsOf m.tableEnd m.items) hrv (encPrefix m.format ++ be16 m.items.length)
    (bodyOf m.items ++ m.trailing)
  rw [recsOf_length] at hparse
  have hd : encodeMulti m = encPrefix m.format ++ be16 m.items.length ++
      (((recsOf m.tableEnd m.items).map encRec).flatten ++ (bodyOf m.items ++ m.trailing)) := by
    simp [encodeMulti, List.append_assoc]
  have hl2 : (encPrefix m.format ++ be16 m.items.length).length = (encPrefix m.format).length + 2 := by simp [be16]
  rw [hl2] at hparse
  obtain ⟨fm, hfm, hcmds⟩ := parseSndFmt_prefix m.format hf m.items.length hn _ cmds (by rw [List.append_assoc] at hparse ⊢; exact hparse)
  rw [← hd] at hfm
  -- the commands run over the parts
  have hpre : (encPrefix m.format ++ be16 m.items.length ++ ((recsOf m.tableEnd m.items).map encRec).flatten).length = m.tableEnd := by
    simp only [List.length_append, htl, be16, encOrd_length]; omega
  have hd2 : encodeMulti m = (encPrefix m.format ++ be16 m.items.length ++ ((recsOf m.tableEnd m.items).map encRec).flatten) ++
      (bodyOf m.items ++ m.trailing) := by
    simp [encodeMulti, List.append_assoc]
  have hinit : ∀ p ∈ partsOf m.items, p.header = .standard → St.init.channels = 1 ∧ St.init.bits = 8 := by
    intro _ _ _; decide
  have hrun := runCmds_items m.items hvi c b hh
    (encPrefix m.format ++ be16 m.items.length ++ ((recsOf m.tableEnd m.items).map encRec).flatten) m.trailing St.init cmds hinit
    (by rw [hpre]; exact hmatch)
  rw [← hd2] at hrun
  simp only [sndToSampled, hfm, bind, Except.bind, hcmds, hrun]
  rw [finalSt_homogeneous _ c b hh hne St.init 0]
  rfl

end Drx.Snd
