/-
  From `compile o s = .ok c` to the facts the container / machine layers need: inversion of the lowering monad at the
  handler and script level (any number of handlers), and the composition L5 ∘ L1m ∘ L2 ∘ L3 ∘ L4: the model's
  `parseScript c.lscr c.lnam` returns a tree related to `s` (`ScriptRel`).
-/
import Drx.Link
import DrxProofs.LinkContainer
import DrxProofs.LinkText
namespace Drx.Link
open Drx Drx.Lscr Drx.Gen Drx.Spec
set_option linter.unusedSimpArgs false
set_option linter.unusedVariables false

/-! ### name-index lists -/

theorem NamesAt.mono {s sF : St} {xs : List Nat} {ns : List Str} (h : NamesAt s.names xs ns) (he : Ext s sF) : NamesAt sF.names xs ns := by
  induction h with
  | nil => exact All2.nil
  | cons hx _ ih => exact All2.cons ⟨hx.1, he.name hx.2⟩ ih

theorem mapM_nameIdx_ok : ∀ (l : List Spec.Name) (s s' : St) (is : List Nat), l.mapM nameIdx s = .ok (is, s') →
    Ext s s' ∧ NamesAt s'.names is l
  | [], s, s', is, h => by
    simp only [List.mapM_nil, M_pure_ok, Prod.mk.injEq] at h
    obtain ⟨rfl, rfl⟩ := h
    exact ⟨Ext.refl _, All2.nil⟩
  | n :: l, s, s', is, h => by
    simp only [List.mapM_cons, M_bind_ok, M_pure_ok, Prod.mk.injEq] at h
    obtain ⟨i, s1, hn, is', s2, hl, rfl, rfl⟩ := h
    obtain ⟨he1, hget, hlt, _⟩ := nameIdx_ok _ _ _ _ hn
    obtain ⟨he2, hrest⟩ := mapM_nameIdx_ok l s1 _ is' hl
    exact ⟨he1.trans he2, All2.cons ⟨hlt, he2.name hget⟩ hrest⟩

/-! ### statement lists -/

theorem layout_code_cons (code : List Instr) (cs : List CStmt) : layoutStmts none (.code code :: cs) = code ++ layoutStmts none cs := by
  simp [layoutStmts, layoutStmt]

def exitNode (p q : Int) : Node := .stmt p (.callFn (.s (S "exit")) q .none true false false .none)

/-- **L3 for statement lists**: the code of a handler body appends one `Statement` per source statement -/
theorem stmts_lemma : ∀ (ss : List Stmt), FragSs ss = true → ∀ (c : Spec.Ctx) (s0 s1 : St) (cs : List CStmt),
    lowerStmts c ss s0 = .ok (cs, s1) →
    Ext s0 s1 ∧ (∀ i ∈ layoutStmts none cs, i.opc ≠ 153) ∧
    ∀ (sF : St) (ctx : Lscr.Ctx), Ext s1 sF → Rel c sF ctx → ∀ (G : List Spec.Name), (∀ g ∈ Stmt.varsList .glob ss, g ∈ G) →
      (∀ v ∈ Stmt.varsList .prop ss, ctx.props.contains v = true) →
      ∀ (a : Nat) (st : PState), st.bpc = 6 → GvOk G st.gvars →
        ∃ ns gv', EmbSs ss ns ∧ PlainStmts ns ∧ GvOk G gv' ∧
          runIs ctx a (layoutStmts none cs) st = .ok { st with stmts := st.stmts ++ ns, gvars := gv' }
  | [], _, c, s0, s1, cs, h => by
    rw [lowerStmts] at h
    simp only [M_pure_ok, Prod.mk.injEq] at h
    obtain ⟨rfl, rfl⟩ := h
    refine ⟨Ext.refl _, by simp [layoutStmts], ?_⟩
    intro sF ctx _ _ G _ _ a st _ hgv
    exact ⟨[], st.gvars, rfl, by intro x hx; cases hx, hgv, by simp [layoutStmts, runIs]⟩
  | s :: ss, hf, c, s0, s1, cs, h => by
    simp only [FragSs, Bool.and_eq_true] at hf
    rw [lowerStmts] at h
    simp only [M_bind_ok, M_pure_ok, Prod.mk.injEq] at h
    obtain ⟨c1, s', h1, c2, s'', h2, rfl, rfl⟩ := h
    obtain ⟨hext1, code, rfl, hop1, hrun1⟩ := stmt_lemma s hf.1 c s0 _ c1 h1
    obtain ⟨hext2, hop2, hrun2⟩ := stmts_lemma ss hf.2 c _ _ c2 h2
    refine ⟨hext1.trans hext2, ?_, ?_⟩
    · intro i hi
      rw [List.singleton_append, layout_code_cons] at hi
      rcases List.mem_append.mp hi with hi | hi
      · exact hop1 i hi
      · exact hop2 i hi
    intro sF ctx hF hrel G hG hP a st hb hgv
    have hG1 : ∀ g ∈ s.vars .glob, g ∈ G := fun g hg => hG g (by simp [Stmt.varsList, hg])
    have hG2 : ∀ g ∈ Stmt.varsList .glob ss, g ∈ G := fun g hg => hG g (by simp [Stmt.varsList, hg])
    have hP1 : ∀ v ∈ s.vars .prop, ctx.props.contains v = true := fun v hv => hP v (by simp [Stmt.varsList, hv])
    have hP2 : ∀ v ∈ Stmt.varsList .prop ss, ctx.props.contains v = true := fun v hv => hP v (by simp [Stmt.varsList, hv])
    obtain ⟨n, gv1, hemb, hplain, hgv1, hr1⟩ := hrun1 sF ctx (hext2.trans hF) hrel G hG1 hP1 a st hb hgv
    obtain ⟨ns, gv2, hembs, hplains, hgv2, hr2⟩ := hrun2 sF ctx hF hrel G hG2 hP2 (a + codeSize code)
      { st with stmts := st.stmts ++ [n], gvars := gv1 } hb hgv1
    refine ⟨n :: ns, gv2, ⟨n, ns, rfl, hemb, hembs⟩, ?_, hgv2, ?_⟩
    · intro x hx
      rcases List.mem_cons.mp hx with hx | hx
      · subst hx; exact hplain
      · exact hplains x hx
    · rw [List.singleton_append, layout_code_cons, runIs_append, hr1]
      simp only [Except.bind]
      rw [hr2]
      simp [List.append_assoc]

theorem exec_exit (ctx : Lscr.Ctx) (b : Nat) (hb : b = 1 ∨ b = 2) (a : Int) (st : PState) :
    execI ctx (.op1 b) a st = .ok { st with stmts := st.stmts ++ [exitNode a a] } := by
  rcases hb with rfl | rfl
  · have hl : Opcodes.opcodes.lookup 1 = some { cls := "ExitOpcode", impl := "ExitOpcode", nbytes := 1, kind := "plain", attrs := [] } := rfl
    simp only [execI, hl]
    unfold process0
    simp only [PState.addStmt, exitNode]
  · have hl : Opcodes.opcodes.lookup 2 = some { cls := "ExitFactoryMethodOpcode", impl := "ExitFactoryMethodOpcode", nbytes := 1, kind := "plain", attrs := [] } := rfl
    simp only [execI, hl]
    unfold process0
    simp only [PState.addStmt, exitNode]

/-! ### handlers -/

/-- the lowering context of a (non-method) handler -/
def hctx (hnames : List Spec.Name) (h : Handler) : Spec.Ctx :=
  { handlers := hnames, params := h.params, locals := h.locals, isMethod := h.isMethod, inTell := false }

/-- what the lowering of one handler guarantees, relative to a final lowering state `sF` -/
structure HandlerOK (hnames : List Spec.Name) (sF : St) (h : Handler) (hc : HCode) : Prop where
  ni : hc.nameIdx < 256 ∧ sF.names[hc.nameIdx]? = some h.name
  args : NamesAt sF.names hc.args h.params
  locals : NamesAt sF.names hc.locals h.locals
  globals : hc.globals = []
  code : ∃ is, hc.code = encodeInstrs is ∧ (∀ i ∈ is, GoodI i) ∧
    ∀ (ctx : Lscr.Ctx), Rel (hctx hnames h) sF ctx → (∀ v ∈ Stmt.varsList .prop h.body, ctx.props.contains v = true) →
      ∀ (G : List Spec.Name), (∀ g ∈ Stmt.varsList .glob h.body, g ∈ G) →
      ∀ (a : Nat) (st : PState), st.bpc = 6 → GvOk G st.gvars →
        ∃ ns gv' p q, EmbSs h.body ns ∧ PlainStmts ns ∧ GvOk G gv' ∧
          runIs ctx a is st = .ok { st with stmts := st.stmts ++ ns ++ [exitNode p q], gvars := gv' }

theorem lowerHandler_ok (hnames sg : List Spec.Name) (h : Handler) (hfb : FragSs h.body = true) (hm : h.isMethod = false)
    (hgl : h.globalsUsed sg = []) (s0 s1 : St) (hc : HCode)
    (hl : lowerHandler hnames sg h s0 = .ok (hc, s1)) :
    Ext s0 s1 ∧ ∀ sF, Ext s1 sF → HandlerOK hnames sF h hc := by
  unfold lowerHandler at hl
  simp only [M_bind_ok, hgl, List.mapM_nil, M_pure_ok] at hl
  obtain ⟨ni, s2, hni, args, s3, hargs, locIdx, s4, hloc, globIdx, s5, hglob, cs, s6, hcs, hfin⟩ := hl
  obtain ⟨e1, hget, hlt, _⟩ := nameIdx_ok _ _ _ _ hni
  obtain ⟨e2, hA⟩ := mapM_nameIdx_ok _ _ _ _ hargs
  obtain ⟨e3, hL⟩ := mapM_nameIdx_ok _ _ _ _ hloc
  simp only [Prod.mk.injEq] at hglob
  obtain ⟨rfl, rfl⟩ := hglob
  obtain ⟨e4, hop, hrun⟩ := stmts_lemma h.body hfb _ _ _ cs hcs
  split at hfin
  · rename_i hwf
    simp only [M_pure_ok, Prod.mk.injEq] at hfin
    obtain ⟨rfl, rfl⟩ := hfin
    refine ⟨((e1.trans e2).trans e3).trans e4, ?_⟩
    intro sF hF
    refine ⟨⟨hlt, (((e2.trans e3).trans e4).trans hF).name hget⟩, ?_, (hL.mono (e4.trans hF)), rfl, ?_⟩
    · have := hA.mono ((e3.trans e4).trans hF)
      simpa [hm] using this
    · refine ⟨_, rfl, ?_, ?_⟩
      · intro i hi
        have hw : i.WF := by
          rw [List.all_eq_true] at hwf
          simpa using hwf i hi
        refine good_of_wf i hw ?_
        rcases List.mem_append.mp hi with hi | hi
        · exact hop i hi
        · simp only [List.mem_singleton] at hi; subst hi; simp [Instr.opc, hm]
      · intro ctx hrel hP G hG a st hb hgv
        have hrel' : Rel { handlers := hnames, params := h.params, locals := h.locals, isMethod := h.isMethod, inTell := false } sF ctx := hrel
        obtain ⟨ns, gv', hemb, hplain, hgv', hr⟩ := hrun sF ctx hF hrel' G hG hP a st hb hgv
        refine ⟨ns, gv', _, _, hemb, hplain, hgv', ?_⟩
        rw [runIs_append, hr]
        simp only [Except.bind]
        rw [runIs_single, exec_exit ctx _ (by simp [hm])]
  · simp [Spec.fail] at hfin

end Drx.Link
