/-
  From `compile o s = .ok c` to the facts the container / machine layers need: inversion of the lowering monad at the
  handler and script level (any number of handlers), and the composition L5 ∘ L1m ∘ L2 ∘ L3 ∘ L4: the model's
  `parseScript c.lscr c.lnam` returns a tree related to `s` (`ScriptRel`).
-/
import Drx.Link
import DrxProofs.LinkContainer
import DrxProofs.LinkText
namespace Drx.Link
open Drx Drx.Lscr Drx.Gen Drx.Spec
set_option linter.unusedSimpArgs false
set_option linter.unusedVariables false

/-! ### name-index lists -/

theorem NamesAt.mono {s sF : St} {xs : List Nat} {ns : List Str} (h : NamesAt s.names xs ns) (he : Ext s sF) : NamesAt sF.names xs ns := by
  induction h with
  | nil => exact All2.nil
  | cons hx _ ih => exact All2.cons ⟨hx.1, he.name hx.2⟩ ih

theorem mapM_nameIdx_ok : ∀ (l : List Spec.Name) (s s' : St) (is : List Nat), l.mapM nameIdx s = .ok (is, s') →
    Ext s s' ∧ NamesAt s'.names is l
  | [], s, s', is, h => by
    simp only [List.mapM_nil, M_pure_ok, Prod.mk.injEq] at h
    obtain ⟨rfl, rfl⟩ := h
    exact ⟨Ext.refl _, All2.nil⟩
  | n :: l, s, s', is, h => by
    simp only [List.mapM_cons, M_bind_ok, M_pure_ok, Prod.mk.injEq] at h
    obtain ⟨i, s1, hn, is', s2, hl, rfl, rfl⟩ := h
    obtain ⟨he1, hget, hlt, _⟩ := nameIdx_ok _ _ _ _ hn
    obtain ⟨he2, hrest⟩ := mapM_nameIdx_ok l s1 _ is' hl
    exact ⟨he1.trans he2, All2.cons ⟨hlt, he2.name hget⟩ hrest⟩

/-! ### statement lists -/

theorem layout_code_cons (code : List Instr) (cs : List CStmt) : layoutStmts none (.code code :: cs) = code ++ layoutStmts none cs := by
  simp [layoutStmts, layoutStmt]

/-- every node of the list is a statement whose position lies in the code range `a .. a + len` -/
def PosIn (a len : Nat) (ns : List Node) : Prop := ∀ x ∈ ns, (a : Int) ≤ x.pos ∧ x.pos < ((a + len : Nat) : Int)

/-- **L3 for statement lists**: the code of a handler body appends one `Statement` per source statement -/
theorem stmts_lemma : ∀ (ss : List Stmt), FragSs ss = true → ∀ (c : Spec.Ctx), c.inTell = false → ∀ (s0 s1 : St) (cs : List CStmt),
    lowerStmts c ss s0 = .ok (cs, s1) →
    Ext s0 s1 ∧ (∀ i ∈ layoutStmts none cs, i.opc ≠ 153) ∧
    ∀ (sF : St) (ctx : Lscr.Ctx), Ext s1 sF → Rel c sF ctx → ∀ (G : List Spec.Name), (∀ g ∈ Stmt.varsList .glob ss, g ∈ G) →
      (∀ v ∈ Stmt.varsList .prop ss, ctx.props.contains v = true) →
      ∀ (a : Nat) (st : PState), st.bpc = 6 → GvOk G st.gvars →
        ∃ ns gv', EmbSsH c.handlers ss ns ∧ PlainStmts ns ∧ PosIn a (codeSize (layoutStmts none cs)) ns ∧ GvNext G st.gvars gv' ∧
          runIs ctx a (layoutStmts none cs) st = .ok { st with stmts := st.stmts ++ ns, gvars := gv' }
  | [], _, c, _, s0, s1, cs, h => by
    rw [lowerStmts] at h
    simp only [M_pure_ok, Prod.mk.injEq] at h
    obtain ⟨rfl, rfl⟩ := h
    refine ⟨Ext.refl _, by simp [layoutStmts], ?_⟩
    intro sF ctx _ _ G _ _ a st _ hgv
    exact ⟨[], st.gvars, rfl, (show PlainStmts [] from fun x hx => by cases hx), (fun x hx => by cases hx), GvNext.refl hgv, by simp [layoutStmts, runIs]⟩
  | s :: ss, hf, c, hT, s0, s1, cs, h => by
    simp only [FragSs, Bool.and_eq_true] at hf
    rw [lowerStmts] at h
    simp only [M_bind_ok, M_pure_ok, Prod.mk.injEq] at h
    obtain ⟨c1, s', h1, c2, s'', h2, rfl, rfl⟩ := h
    obtain ⟨hext1, code, rfl, hop1, hrun1⟩ := stmt_lemma s hf.1 c hT s0 _ c1 h1
    obtain ⟨hext2, hop2, hrun2⟩ := stmts_lemma ss hf.2 c hT _ _ c2 h2
    refine ⟨hext1.trans hext2, ?_, ?_⟩
    · intro i hi
      rw [List.singleton_append, layout_code_cons] at hi
      rcases List.mem_append.mp hi with hi | hi
      · exact hop1 i hi
      · exact hop2 i hi
    intro sF ctx hF hrel G hG hP a st hb hgv
    have hG1 : ∀ g ∈ s.vars .glob, g ∈ G := fun g hg => hG g (by simp [Stmt.varsList, hg])
    have hG2 : ∀ g ∈ Stmt.varsList .glob ss, g ∈ G := fun g hg => hG g (by simp [Stmt.varsList, hg])
    have hP1 : ∀ v ∈ s.vars .prop, ctx.props.contains v = true := fun v hv => hP v (by simp [Stmt.varsList, hv])
    have hP2 : ∀ v ∈ Stmt.varsList .prop ss, ctx.props.contains v = true := fun v hv => hP v (by simp [Stmt.varsList, hv])
    obtain ⟨n, gv1, hemb, hplain, hin, hgv1, hr1⟩ := hrun1 sF ctx (hext2.trans hF) hrel G hG1 hP1 a st hb hgv
    obtain ⟨ns, gv2, hembs, hplains, hpos, hgv2, hr2⟩ := hrun2 sF ctx hF hrel G hG2 hP2 (a + codeSize code)
      { st with stmts := st.stmts ++ [n], gvars := gv1 } hb hgv1.1
    refine ⟨n :: ns, gv2, ⟨n, ns, rfl, hemb, hembs⟩, ?_, ?_, hgv1.trans hgv2, ?_⟩
    · intro x hx
      rcases List.mem_cons.mp hx with hx | hx
      · subst hx; exact hplain
      · exact hplains x hx
    · intro x hx
      rw [List.singleton_append, layout_code_cons, codeSize_append]
      rcases List.mem_cons.mp hx with hx | hx
      · subst hx
        obtain ⟨p, cd, rfl, h1, h2⟩ := hin
        simp only [Node.pos]
        omega
      · have := hpos x hx
        omega
    · rw [List.singleton_append, layout_code_cons, runIs_append, hr1]
      simp only [Except.bind]
      rw [hr2]
      simp [List.append_assoc]

/-! ### handlers -/

/-- the lowering context of a (non-method) handler -/
def hctx (hnames : List Spec.Name) (h : Handler) : Spec.Ctx :=
  { handlers := hnames, params := h.params, locals := h.locals, isMethod := h.isMethod, inTell := false }

/-! The handler / script chain is parametric in the semantics of handler bodies, so that the control-flow link (C03Link) can
    reuse it: `B h a raw` = the code of `h.body`, run from address `a` on an empty statement list, leaves the raw statements `raw`;
    `F h fin` = what `condition_detect` / `loop_detect` make of them.  The link theorems of this development are the instance
    `B₀` (one plain `Statement` per source statement) / `F₀` (unchanged). -/

/-- hypothesis on the body of one handler: what `stmts_lemma` states, with an arbitrary result predicate -/
def BodyRun (B : Handler → Nat → Nat → List Node → Prop) (hnames : List Spec.Name) (h : Handler) : Prop :=
  ∀ (s0 s1 : St) (cs : List CStmt), lowerStmts (hctx hnames h) h.body s0 = .ok (cs, s1) →
    Ext s0 s1 ∧ (∀ i ∈ layoutStmts none cs, i.opc ≠ 153) ∧
    ∀ (sF : St) (ctx : Lscr.Ctx), Ext s1 sF → Rel (hctx hnames h) sF ctx → ∀ (G : List Spec.Name),
      (∀ g ∈ Stmt.varsList .glob h.body, g ∈ G) → (∀ v ∈ Stmt.varsList .prop h.body, ctx.props.contains v = true) →
      ∀ (a : Nat) (st : PState), st.bpc = 6 → GvOk G st.gvars → st.stmts = [] →
        ∃ raw gv', B h a (codeSize (layoutStmts none cs)) raw ∧ PosIn a (codeSize (layoutStmts none cs)) raw ∧ GvNext G st.gvars gv' ∧
          runIs ctx a (layoutStmts none cs) st = .ok { st with stmts := raw, gvars := gv' }

/-- hypothesis on the flow passes: they turn the raw statements (followed by the handler's final `exit`) into `fin` -/
def FlowOk (B : Handler → Nat → Nat → List Node → Prop) (F : Handler → List Node → Prop) (h : Handler) : Prop :=
  ∀ (a len : Nat) (raw : List Node), B h a len raw → PosIn a len raw →
    ∃ fin, (condDetect (raw ++ [exitNode ((a + len : Nat) : Int) ((a + len : Nat) : Int)])).bind loopDetect
        = .ok (fin ++ [exitNode ((a + len : Nat) : Int) ((a + len : Nat) : Int)]) ∧ F h fin

/-- what the lowering of one handler guarantees, relative to a final lowering state `sF` -/
structure HandlerOKg (B : Handler → Nat → Nat → List Node → Prop) (hnames sg : List Spec.Name) (sF : St) (h : Handler) (hc : HCode) : Prop where
  ni : hc.nameIdx < 256 ∧ sF.names[hc.nameIdx]? = some h.name
  args : NamesAt sF.names hc.args h.params
  locals : NamesAt sF.names hc.locals h.locals
  globals : NamesAt sF.names hc.globals (h.globalsUsed sg)
  code : ∃ is, hc.code = encodeInstrs is ∧ (∀ i ∈ is, GoodI i) ∧
    ∀ (ctx : Lscr.Ctx), Rel (hctx hnames h) sF ctx → (∀ v ∈ Stmt.varsList .prop h.body, ctx.props.contains v = true) →
      ∀ (G : List Spec.Name), (∀ g ∈ Stmt.varsList .glob h.body, g ∈ G) →
      ∀ (a : Nat) (st : PState), st.bpc = 6 → GvOk G st.gvars → st.stmts = [] →
        ∃ raw gv' len, B h a len raw ∧ PosIn a len raw ∧ GvNext G st.gvars gv' ∧
          runIs ctx a is st = .ok { st with stmts := raw ++ [exitNode ((a + len : Nat) : Int) ((a + len : Nat) : Int)], gvars := gv' }

theorem lowerHandler_okg (B : Handler → Nat → Nat → List Node → Prop) (hnames sg : List Spec.Name) (h : Handler)
    (hbody : BodyRun B hnames h) (hm : h.isMethod = false)
    (s0 s1 : St) (hc : HCode)
    (hl : lowerHandler hnames sg h s0 = .ok (hc, s1)) :
    Ext s0 s1 ∧ ∀ sF, Ext s1 sF → HandlerOKg B hnames sg sF h hc := by
  unfold lowerHandler at hl
  simp only [M_bind_ok, M_pure_ok] at hl
  obtain ⟨ni, s2, hni, args, s3, hargs, locIdx, s4, hloc, globIdx, s5, hglob, cs, s6, hcs, hfin⟩ := hl
  obtain ⟨e1, hget, hlt, _⟩ := nameIdx_ok _ _ _ _ hni
  obtain ⟨e2, hA⟩ := mapM_nameIdx_ok _ _ _ _ hargs
  obtain ⟨e3, hL⟩ := mapM_nameIdx_ok _ _ _ _ hloc
  obtain ⟨e3', hGl⟩ := mapM_nameIdx_ok _ _ _ _ hglob
  obtain ⟨e4, hop, hrun⟩ := hbody _ _ cs hcs
  by_cases hwf : ((layoutStmts none cs ++ [Instr.op1 (if h.isMethod = true then 2 else 1)]).all fun i => decide i.WF) = true
  · rw [if_pos hwf] at hfin
    simp only [M_pure_ok, Prod.mk.injEq] at hfin
    obtain ⟨rfl, rfl⟩ := hfin
    refine ⟨(((e1.trans e2).trans e3).trans e3').trans e4, ?_⟩
    intro sF hF
    refine ⟨⟨hlt, ((((e2.trans e3).trans e3').trans e4).trans hF).name hget⟩, ?_, (hL.mono ((e3'.trans e4).trans hF)), hGl.mono (e4.trans hF), ?_⟩
    · have := hA.mono (((e3.trans e3').trans e4).trans hF)
      simpa [hm] using this
    · refine ⟨_, rfl, ?_, ?_⟩
      · intro i hi
        have hw : i.WF := by
          rw [List.all_eq_true] at hwf
          simpa using hwf i hi
        refine good_of_wf i hw ?_
        rcases List.mem_append.mp hi with hi | hi
        · exact hop i hi
        · simp only [List.mem_singleton] at hi; subst hi; simp [Instr.opc, hm]
      · intro ctx hrel hP G hG a st hb hgv hst
        obtain ⟨raw, gv', hB, hpos, hgv', hr⟩ := hrun sF ctx hF hrel G hG hP a st hb hgv hst
        refine ⟨raw, gv', codeSize (layoutStmts none cs), hB, hpos, hgv', ?_⟩
        rw [runIs_append, hr]
        simp only [Except.bind]
        rw [runIs_single, exec_exit ctx _ (by simp [hm])]
  · rw [if_neg hwf] at hfin
    simp [Spec.fail] at hfin

theorem lowerHandlers_okg (B : Handler → Nat → Nat → List Node → Prop) (hnames sg : List Spec.Name) : ∀ (hs : List Handler),
    (∀ h ∈ hs, BodyRun B hnames h ∧ h.isMethod = false) → ∀ (s0 s1 : St) (hcs : List HCode),
    lowerHandlers hnames sg hs s0 = .ok (hcs, s1) →
    Ext s0 s1 ∧ ∀ sF, Ext s1 sF → All2 (HandlerOKg B hnames sg sF) hs hcs
  | [], _, s0, s1, hcs, h => by
    rw [lowerHandlers] at h
    simp only [M_pure_ok, Prod.mk.injEq] at h
    obtain ⟨rfl, rfl⟩ := h
    exact ⟨Ext.refl _, fun _ _ => All2.nil⟩
  | x :: xs, hf, s0, s1, hcs, h => by
    rw [lowerHandlers] at h
    simp only [M_bind_ok, M_pure_ok, Prod.mk.injEq] at h
    obtain ⟨c, s', hc, cs, s'', hcs', rfl, rfl⟩ := h
    obtain ⟨hb, hm⟩ := hf x (by simp)
    obtain ⟨e1, h1⟩ := lowerHandler_okg B hnames sg x hb hm s0 _ c hc
    obtain ⟨e2, h2⟩ := lowerHandlers_okg B hnames sg xs (fun y hy => hf y (by simp [hy])) _ _ cs hcs'
    exact ⟨e1.trans e2, fun sF hF => All2.cons (h1 sF (e2.trans hF)) (h2 sF hF)⟩

/-- the instance of this development: one plain `Statement` per source statement, untouched by the flow passes -/
def B₀ (hs : List Spec.Name) (h : Handler) (_a _len : Nat) (raw : List Node) : Prop := EmbSsH hs h.body raw ∧ PlainStmts raw
def F₀ (hs : List Spec.Name) (h : Handler) (fin : List Node) : Prop := EmbSsH hs h.body fin

theorem plain_exit (p q : Int) : PlainStmt (exitNode p q) := PlainStmt.call _ _ _ _ _ _ _ _

theorem bodyRun₀ (hnames : List Spec.Name) (h : Handler) (hfb : FragSs h.body = true) : BodyRun (B₀ hnames) hnames h := by
  intro s0 s1 cs hcs
  obtain ⟨e, hop, hrun⟩ := stmts_lemma h.body hfb (hctx hnames h) rfl s0 s1 cs hcs
  refine ⟨e, hop, ?_⟩
  intro sF ctx hF hrel G hG hP a st hb hgv hst
  obtain ⟨ns, gv', hemb, hplain, hpos, hgv', hr⟩ := hrun sF ctx hF hrel G hG hP a st hb hgv
  refine ⟨ns, gv', ⟨hemb, hplain⟩, hpos, hgv', ?_⟩
  rw [hr, hst, List.nil_append]

theorem flowOk₀ (hs : List Spec.Name) (h : Handler) : FlowOk (B₀ hs) (F₀ hs) h := by
  intro a len raw hB _
  have hplains : PlainStmts (raw ++ [exitNode ((a + len : Nat) : Int) ((a + len : Nat) : Int)]) := by
    intro x hx
    rcases List.mem_append.mp hx with hx | hx
    · exact hB.2 x hx
    · simp only [List.mem_singleton] at hx; subst hx; exact plain_exit _ _
  exact ⟨raw, by simp only [condDetect_plain hplains, Except.bind, loopDetect_plain hplains], hB.1⟩

/-! ### the handler's table of globals -/

theorem dedup_spec : ∀ (l acc : List Spec.Name), acc.Nodup → (dedup l acc).Nodup ∧ ∀ g, g ∈ dedup l acc ↔ g ∈ l ∨ g ∈ acc
  | [], acc, h => by
    simp only [dedup, List.mem_reverse]
    exact ⟨(List.reverse_perm acc).nodup_iff.mpr h, fun g => by simp⟩
  | x :: xs, acc, h => by
    unfold dedup
    split
    · rename_i hx
      obtain ⟨h1, h2⟩ := dedup_spec xs acc h
      refine ⟨h1, fun g => ?_⟩
      rw [h2 g]
      have hxm : x ∈ acc := List.contains_iff_mem.mp hx
      constructor
      · rintro (hg | hg)
        · exact Or.inl (by simp [hg])
        · exact Or.inr hg
      · rintro (hg | hg)
        · rcases List.mem_cons.mp hg with hg | hg
          · subst hg; exact Or.inr hxm
          · exact Or.inl hg
        · exact Or.inr hg
    · rename_i hx
      have hxm : x ∉ acc := fun hm => hx (List.contains_iff_mem.mpr hm)
      obtain ⟨h1, h2⟩ := dedup_spec xs (x :: acc) (List.nodup_cons.mpr ⟨hxm, h⟩)
      refine ⟨h1, fun g => ?_⟩
      rw [h2 g]
      simp only [List.mem_cons]
      constructor
      · rintro (hg | hg | hg)
        · exact Or.inl (Or.inr hg)
        · exact Or.inl (Or.inl hg)
        · exact Or.inr hg
      · rintro ((hg | hg) | hg)
        · exact Or.inr (Or.inl hg)
        · exact Or.inl hg
        · exact Or.inr (Or.inr hg)

theorem globalsUsed_nodup (h : Handler) (sg : List Spec.Name) : (h.globalsUsed sg).Nodup := by
  unfold Handler.globalsUsed
  exact ((dedup_spec _ [] List.nodup_nil).1).filter _

/-- every global the body mentions is declared at script level or in the handler's own table -/
theorem glob_in_G (h : Handler) (sg : List Spec.Name) : ∀ g ∈ Stmt.varsList .glob h.body, g ∈ sg ++ h.globalsUsed sg := by
  intro g hg
  by_cases hs : g ∈ sg
  · exact List.mem_append_left _ hs
  · refine List.mem_append_right _ ?_
    unfold Handler.globalsUsed
    rw [List.mem_filter]
    exact ⟨((dedup_spec _ [] List.nodup_nil).2 g).mpr (Or.inl hg), by simpa using hs⟩

/-! ### one parsed handler -/

theorem padEven_prefix (b : Bytes) : ∃ t, padEven b = b ++ t := by
  unfold padEven; split
  · exact ⟨[0], rfl⟩
  · exact ⟨[], by simp⟩

/-- a handler record and its block sit in `d`: record at `frb`, block at some `off` -/
def Placed (d : Bytes) (frb : Nat) (hc : HCode) : Prop :=
  ∃ off, CodeAt d frb (encFs (recFields hc off)) ∧ CodeAt d off (blockBytes hc) ∧ off + (blockBytes hc).length < 32768

/-- the same with a lower bound for the block's address (the bytes declared by the records before it, F103) -/
def PlacedLo (d : Bytes) (frb : Nat) (hc : HCode) (lo : Nat) : Prop :=
  ∃ off, lo ≤ off ∧ CodeAt d frb (encFs (recFields hc off)) ∧ CodeAt d off (blockBytes hc) ∧ off + (blockBytes hc).length < 32768

/-- the model context before the function records are read -/
structure Ctx0 (ctx0 : Lscr.Ctx) (sF : St) (hnames : List Spec.Name) : Prop where
  names : ctx0.names = sF.names
  consts : ctx0.constants = sF.consts.map constName
  lfn : ctx0.localFuncs = hnames

theorem leaves_get {cls : Leaf} {ns : List Str} {l : List Node} (h : Leaves cls ns l) (j : Nat) (v : Str) (hj : ns[j]? = some v) :
    ∃ p, l[j]? = some (.leaf cls (.s v) p) := by
  obtain ⟨x, hx, p, rfl⟩ := All2.get h j v hj
  exact ⟨p, hx⟩

theorem rel_of_ctx0 (ctx0 : Lscr.Ctx) (sF : St) (hnames : List Spec.Name) (h : Handler) (hm : h.isMethod = false)
    (h0 : Ctx0 ctx0 sF hnames) (locals params : List Node) (hl : Leaves .localVar h.locals locals) (hp : Leaves .paramName h.params params) :
    Rel (hctx hnames h) sF { ctx0 with params := params, localVars := locals } := by
  refine ⟨h0.names, ?_, ?_, ?_, ?_⟩
  · intro k cst hk
    show ctx0.constants[k]? = _
    rw [h0.consts, List.getElem?_map, hk]; rfl
  · intro v j hj
    have := (idxOf_get v _ 0 j hj).2
    exact leaves_get hl j v (by simpa [hctx] using this)
  · intro v o ho
    simp only [hctx, Spec.Ctx.paramOff, hm, Bool.false_eq_true, if_false] at ho
    cases hi : idxOf v h.params 0 with
    | none => rw [hi] at ho; cases ho
    | some i =>
      rw [hi] at ho
      simp only [Option.map_some, Option.some.injEq] at ho
      have := (idxOf_get v _ 0 i hi).2
      obtain ⟨p, hp'⟩ := leaves_get hp i v (by simpa using this)
      exact ⟨i, p, ho.symm, hp'⟩
  · intro f k hk
    show ctx0.localFuncs[k]? = _
    rw [h0.lfn]
    have := (idxOf_get f _ 0 k hk).2
    simpa [hctx] using this

/-- one parsed handler, with the flow passes' result described by `F` -/
structure FuncRelg (F : Handler → List Node → Prop) (SG : List Spec.Name) (h : Handler) (f : FuncDef) : Prop where
  name : f.name = h.name
  params : Leaves .paramName h.params f.params
  locals : Leaves .localVar h.locals f.localVars
  isMethod : f.isMethod = false
  gvars : GvList SG h f.globalVars
  stmts : ∃ fin p q, f.stmts = fin ++ [exitNode p q] ∧ F h fin

theorem FuncRelg.toFuncRel {hs G : List Spec.Name} {h : Handler} {f : FuncDef} (r : FuncRelg (F₀ hs) G h f) : FuncRel hs G h f := by
  obtain ⟨fin, p, q, hs, hf⟩ := r.stmts
  exact ⟨r.name, r.params, r.locals, r.isMethod, r.gvars, fin, p, q, hs, hf⟩

theorem parseFunc_okg (B : Handler → Nat → Nat → List Node → Prop) (F : Handler → List Node → Prop)
    (ctx0 : Lscr.Ctx) (d : Bytes) (frb : Nat) (h : Handler) (hc : HCode) (sF : St) (hnames G : List Spec.Name)
    (h0 : Ctx0 ctx0 sF hnames) (hok : HandlerOKg B hnames G sF h hc) (hflow : FlowOk B F h) (hm : h.isMethod = false) (dcl : Nat) (hpl : PlacedLo d frb hc dcl)
    (hP : ∀ v ∈ Stmt.varsList .prop h.body, ctx0.props.contains v = true)
    (regs : Regs) (Fs : List FuncDef) :
    ∃ regs' f, parseFunc ctx0 d (frb : Int) { bpc := 6, tell := false, regs := regs, funcs := Fs, declared := dcl }
        = .ok { bpc := 6, tell := false, regs := regs', funcs := Fs ++ [f], declared := dcl + hw hc } ∧ FuncRelg F G h f := by
  obtain ⟨off, hlo, hrec, hblk, hsz⟩ := hpl
  obtain ⟨locals, params, globals, hfrb, hL, hPm, hGm⟩ := readFrb_ok ctx0 d frb off hc h.name h.params h.locals (h.globalsUsed G) hrec hblk hsz
    (by have := hok.ni.1; omega) (by rw [h0.names]; exact hok.ni.2) (by rw [h0.names]; exact hok.args) (by rw [h0.names]; exact hok.locals)
    (by rw [h0.names]; exact hok.globals) (globalsUsed_nodup h G) dcl hlo
  obtain ⟨is, hcode, hgood, hrun⟩ := hok.code
  have hrel := rel_of_ctx0 ctx0 sF hnames h hm h0 locals params hL hPm
  have hbase : GvOk (G ++ h.globalsUsed G) globals := leaves_gvOk _ _ _ hGm (fun g hg => List.mem_append_right _ hg)
  obtain ⟨raw, gv', len, hB, hpos, hgv', hr⟩ := hrun _ hrel hP (G ++ h.globalsUsed G) (glob_in_G h G) off
    { bpc := 6, tell := false, gvars := globals } rfl hbase rfl
  obtain ⟨fin, hfl, hF⟩ := hflow off len raw hB hpos
  have hcat : CodeAt d off (encodeInstrs is) := by
    obtain ⟨t, ht⟩ := padEven_prefix hc.code
    have : CodeAt d off (hc.code ++ (t ++ hc.args.flatMap be16 ++ hc.locals.flatMap be16 ++ hc.globals.flatMap be16)) := by
      simpa [blockBytes, ht, List.append_assoc] using hblk
    rw [← hcode]; exact this.left
  have hlen : hc.code.length = codeSize is := by rw [hcode, encodeInstrs_length]
  obtain ⟨regs1, hloop⟩ := opcodeLoop_run { ctx0 with params := params, localVars := locals } d off hc.code.length is off regs
    { bpc := 6, tell := false, gvars := globals } _ hgood hcat (Nat.le_refl _) (by omega) hr
  obtain ⟨hgok, ⟨ext, hext⟩, hdist⟩ := hgv'
  refine ⟨regs1, { name := h.name, pos := (frb : Int) + 42, params := params, localVars := locals, globalVars := gv', stmts := fin ++ [exitNode ((off + len : Nat) : Int) ((off + len : Nat) : Int)], isMethod := false }, ?_,
    ⟨rfl, hPm, hL, rfl, ⟨globals, ext, hext, hGm, hgok, hdist (leaves_distinct _ _ hGm (globalsUsed_nodup h G))⟩, fin, _, _, rfl, hF⟩⟩
  unfold parseFunc
  simp only [hfrb, bind, Except.bind, parseOpcodes]
  rw [hloop, ← hlen, opcodeLoop_end]
  simp only [Except.bind] at hfl
  cases hcd : condDetect (raw ++ [exitNode ((off + len : Nat) : Int) ((off + len : Nat) : Int)]) with
  | error e => rw [hcd] at hfl; cases hfl
  | ok l1 =>
    rw [hcd] at hfl
    simp only at hfl
    simp only [hcd, hfl, pure, Except.pure]

theorem parseFuncs_okg (B : Handler → Nat → Nat → List Node → Prop) (F : Handler → List Node → Prop)
    (ctx0 : Lscr.Ctx) (d : Bytes) (frb : Nat) (sF : St) (hnames G : List Spec.Name) (h0 : Ctx0 ctx0 sF hnames) :
    ∀ (hs : List Handler) (hcs : List HCode), All2 (HandlerOKg B hnames G sF) hs hcs →
    (∀ h ∈ hs, FlowOk B F h ∧ h.isMethod = false ∧ (∀ v ∈ Stmt.varsList .prop h.body, ctx0.props.contains v = true)) →
    ∀ (k dcl : Nat), (∀ j hc, hcs[j]? = some hc → PlacedLo d (frb + 42 * (k + j)) hc (dcl + wsum hcs j)) → ∀ (regs : Regs) (Fs : List FuncDef),
    ∃ regs' fs dcl', parseFuncs ctx0 d hs.length ((frb + 42 * k : Nat) : Int) { bpc := 6, tell := false, regs := regs, funcs := Fs, declared := dcl }
        = .ok { bpc := 6, tell := false, regs := regs', funcs := Fs ++ fs, declared := dcl' } ∧ All2 (FuncRelg F G) hs fs := by
  intro hs hcs hall
  induction hall with
  | nil =>
    intro _ k dcl _ regs Fs
    exact ⟨regs, [], dcl, by simp [parseFuncs], All2.nil⟩
  | @cons h hc hs hcs hok _ ih =>
    intro hfr k dcl hpl regs Fs
    obtain ⟨hfl, hm, hP⟩ := hfr h (by simp)
    obtain ⟨regs1, f, hpf, hrel⟩ := parseFunc_okg B F ctx0 d (frb + 42 * k) h hc sF hnames G h0 hok hfl hm dcl
      (by simpa [wsum] using hpl 0 hc rfl) hP regs Fs
    obtain ⟨regs2, fs, dcl', hpfs, hrels⟩ := ih (fun x hx => hfr x (by simp [hx])) (k + 1) (dcl + hw hc)
      (fun j c hj => by
        have := hpl (j + 1) c (by simpa using hj)
        have e : k + (j + 1) = k + 1 + j := by omega
        have e2 : dcl + wsum (hc :: hcs) (j + 1) = dcl + hw hc + wsum hcs j := by
          simp only [wsum, List.take_succ_cons, List.map_cons, List.sum_cons]; omega
        rwa [e, e2] at this) regs1 (Fs ++ [f])
    refine ⟨regs2, f :: fs, dcl', ?_, All2.cons hrel hrels⟩
    simp only [List.length_cons, parseFuncs, hpf, bind, Except.bind]
    have e : ((frb + 42 * k : Nat) : Int) + 42 = ((frb + 42 * (k + 1) : Nat) : Int) := by omega
    rw [e, hpfs]
    simp [List.append_assoc]

/-! ### the script level -/

theorem dedup_mem : ∀ (l acc : List Spec.Name) (g : Spec.Name), g ∈ dedup l acc → g ∈ l ∨ g ∈ acc
  | [], acc, g, h => by simp [dedup] at h; exact Or.inr h
  | x :: xs, acc, g, h => by
    unfold dedup at h
    split at h
    · rcases dedup_mem xs acc g h with h | h
      · exact Or.inl (by simp [h])
      · exact Or.inr h
    · rcases dedup_mem xs (x :: acc) g h with h | h
      · exact Or.inl (by simp [h])
      · rcases List.mem_cons.mp h with h | h
        · exact Or.inl (by simp [h])
        · exact Or.inr h

theorem globalsUsed_nil (h : Handler) (sg : List Spec.Name) (hall : ∀ g ∈ Stmt.varsList .glob h.body, g ∈ sg) : h.globalsUsed sg = [] := by
  unfold Handler.globalsUsed
  rw [List.filter_eq_nil_iff]
  intro g hg
  rcases dedup_mem _ _ g hg with hg | hg
  · simp [hall g hg]
  · cases hg

theorem fragH_spec (s : Spec.Script) (h : Handler) (hf : FragH s h = true) :
    h.isMethod = false ∧ idOk h.name = true ∧ (∀ v ∈ h.params, idOk v = true) ∧ FragSs h.body = true ∧
      (∀ v ∈ Stmt.varsList .prop h.body, v ∈ s.props) ∧ (∀ g ∈ h.globalsUsed s.globals, idOk g = true) := by
  simp only [FragH, Bool.and_eq_true, Bool.not_eq_true', List.all_eq_true, List.contains_iff_mem] at hf
  obtain ⟨⟨⟨⟨⟨h1, h2⟩, h3⟩, h4⟩, h6⟩, h7⟩ := hf
  exact ⟨h1, h2, h3, h4, h6, h7⟩

/-- **inversion of `compile`** on the fragment: the container is the pure layout of its parts, and the parts satisfy what the
    lower layers need -/
theorem compile_invg (B : Handler → Nat → Nat → List Node → Prop) (o : Options) (s : Spec.Script) (c : Compiled) (hfac : s.factory = [])
    (hH : ∀ h ∈ s.handlers, BodyRun B (s.handlers.map (·.name)) h ∧ h.isMethod = false)
    (h : compile o s = .ok c) :
    ∃ (propIdx globIdx : List Nat) (hcs : List HCode) (sF : St),
      c.lscr = (Lay.mk (o.scrNum % 65536) 0xffff propIdx globIdx hcs sF.consts).bytes ∧ c.lnam = lnamBytes sF.names ∧ c.names = sF.names ∧
      NamesAt sF.names propIdx s.props ∧ NamesAt sF.names globIdx s.globals ∧
      All2 (HandlerOKg B (s.handlers.map (·.name)) s.globals sF) s.handlers hcs ∧ (∀ k ∈ sF.consts, GoodConst k) ∧
      (Lay.mk (o.scrNum % 65536) 0xffff propIdx globIdx hcs sF.consts).size < 32768 ∧ (∀ n ∈ sF.names, n.length < 256) := by
  unfold compile at h
  cases hc : compileM s o.scrNum { names := o.pre, consts := [] } with
  | error e => rw [hc] at h; cases h
  | ok r =>
    obtain ⟨c', st1⟩ := r
    rw [hc] at h
    simp only [Except.ok.injEq] at h
    subst h
    unfold compileM at hc
    simp only [M_bind_ok, hfac, if_true, M_pure_ok, Prod.mk.injEq] at hc
    obtain ⟨fi, s1, ⟨rfl, rfl⟩, propIdx, s2, hp, globIdx, s3, hg, mi, s4, ⟨rfl, rfl⟩, hcs, s5, hl, st, s6, hget, hfin⟩ := hc
    simp only [get, getThe, MonadStateOf.get, StateT.get, pure, Except.pure, Except.ok.injEq, Prod.mk.injEq] at hget
    obtain ⟨rfl, rfl⟩ := hget
    obtain ⟨e1, hP⟩ := mapM_nameIdx_ok _ _ _ _ hp
    obtain ⟨e2, hG⟩ := mapM_nameIdx_ok _ _ _ _ hg
    obtain ⟨e3, hHs⟩ := lowerHandlers_okg B (s.handlers.map (·.name)) s.globals s.handlers hH _ _ hcs hl
    have hgood : ∀ k ∈ s5.consts, GoodConst k := ((e1.trans e2).trans e3).good (by simp)
    have hlen : s.handlers.length = hcs.length := (hHs s5 (Ext.refl _)).length_eq
    refine ⟨propIdx, globIdx, hcs, s5, ?_⟩
    by_cases hsz : (Lay.mk (o.scrNum % 65536) 0xffff propIdx globIdx hcs s5.consts).size ≥ 32768
    · exfalso
      have : (92 + (handlerBlocks hcs 92).fst.length + 2 * ([] ++ propIdx).length + 2 * globIdx.length + (handlerBlocks hcs 92).snd.length
          + 6 * s5.consts.length + (constRecords s5.consts 0).snd.length ≥ 32768) := by
        simpa [Lay.size, Lay.conOff, Lay.crbOff, Lay.frbOff, Lay.grbOff, Lay.prbOff, Lay.blocks, Lay.records, Lay.cdata] using hsz
      rw [if_pos this] at hfin
      simp [Spec.fail] at hfin
    · have hn : ¬ (92 + (handlerBlocks hcs 92).fst.length + 2 * ([] ++ propIdx).length + 2 * globIdx.length + (handlerBlocks hcs 92).snd.length
          + 6 * s5.consts.length + (constRecords s5.consts 0).snd.length ≥ 32768) := by
        simpa [Lay.size, Lay.conOff, Lay.crbOff, Lay.frbOff, Lay.grbOff, Lay.prbOff, Lay.blocks, Lay.records, Lay.cdata] using hsz
      rw [if_neg hn] at hfin
      split at hfin
      · simp [Spec.fail] at hfin
      · split at hfin
        · simp [Spec.fail] at hfin
        · simp only [M_pure_ok, Prod.mk.injEq] at hfin
          obtain ⟨rfl, _⟩ := hfin
          rename_i _ hnl _
          refine ⟨?_, rfl, rfl, hP.mono (e2.trans e3), hG.mono e3, hHs s5 (Ext.refl _), hgood, by omega, ?_⟩
          rotate_left
          · intro n hn'
            rcases Nat.lt_or_ge n.length 256 with hh | hh
            · exact hh
            · exfalso; apply hnl
              rw [List.any_eq_true]
              exact ⟨n, hn', by simpa using hh⟩
          have hmod : be16 (o.scrNum % 65536) = be16 o.scrNum := by
            simp only [be16, List.cons.injEq, and_true]
            constructor
            · apply UInt8.toNat_inj.mp
              simp only [UInt8.toNat_ofNat']
              omega
            · apply UInt8.toNat_inj.mp
              simp only [UInt8.toNat_ofNat']
              omega
          simp only [Lay.bytes, Lay.fields, hdrFields, encFs, encF, Lay.size, Lay.conOff, Lay.crbOff, Lay.frbOff, Lay.grbOff, Lay.prbOff,
            Lay.blocks, Lay.records, Lay.cdata, Lay.crecs, hlen, List.nil_append]
          have e2 : ∀ v, encF (2, v) = be16 v := fun _ => rfl
          have e4 : ∀ v, encF (4, v) = be32 v := fun _ => rfl
          simp [List.append_assoc, e2, e4, hmod]

theorem compile_inv (o : Options) (s : Spec.Script) (c : Compiled) (hf : FragScript s = true) (h : compile o s = .ok c) :
    ∃ (propIdx globIdx : List Nat) (hcs : List HCode) (sF : St),
      c.lscr = (Lay.mk (o.scrNum % 65536) 0xffff propIdx globIdx hcs sF.consts).bytes ∧ c.lnam = lnamBytes sF.names ∧ c.names = sF.names ∧
      NamesAt sF.names propIdx s.props ∧ NamesAt sF.names globIdx s.globals ∧
      All2 (HandlerOKg (B₀ (s.handlers.map (·.name))) (s.handlers.map (·.name)) s.globals sF) s.handlers hcs ∧ (∀ k ∈ sF.consts, GoodConst k) ∧
      (Lay.mk (o.scrNum % 65536) 0xffff propIdx globIdx hcs sF.consts).size < 32768 ∧ (∀ n ∈ sF.names, n.length < 256) := by
  simp only [FragScript, Bool.and_eq_true, List.all_eq_true, List.isEmpty_iff] at hf
  obtain ⟨⟨⟨hfac, _⟩, _⟩, hH⟩ := hf
  refine compile_invg (B₀ (s.handlers.map (·.name))) o s c hfac ?_ h
  intro x hx
  obtain ⟨h1, _, _, h4, _, _⟩ := fragH_spec s x (hH x hx)
  exact ⟨bodyRun₀ _ x h4, h1⟩

end Drx.Link
