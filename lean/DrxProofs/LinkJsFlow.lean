/-
  The structured stack lemma of agent-link-flow (DrxProofs/LinkFlow2{Run,Struct,With}.lean) with `CallFunction.with_result`
  TRACKED.  Their chain weakens agent-link's `EmbSH` (with_result = "the name is a handler of the script") to `EmbS` right at the
  simple-statement case (`stmtPos`), because the Lingo generator never reads the field; the JavaScript generator does
  (`fn_call(...)`).  This file repeats the induction with the simple case kept at `EmbSH` (`EmbSrc1H` / `EmbSrcH`, which weaken to
  their `EmbSrc1` / `EmbSrc`, so every lemma of theirs about skeletons, classes and the flow passes is used as it is).
  The proofs of `structs_consH`, `struct_ifH`, `struct_whileH`, `struct_withH`, `struct1_allH`, `structs_allH` are theirs,
  transcribed mechanically (only the names of the relation and of the induction predicates differ).
  Then: the image of a tracked skeleton after the flow passes is the tracked tree `EmbSsJ` (`embSsJ_tgtL`), and the
  composition with agent-link's parametric container chain (`parse_linkg`) for scripts whose handlers are flat or structured.
-/
import DrxProofs.LinkFlow2Link
import DrxProofs.LinkMixed
import DrxProofs.LinkJsCompose
namespace Drx.LinkFlowH
open Drx Drx.Lscr Drx.Spec Drx.Link Drx.LinkFlow
set_option linter.unusedSimpArgs false
set_option linter.unusedVariables false

mutual
/-- `LinkFlow.EmbSrc1` with `with_result` of the simple statements tracked (`hs` = the script's handler names) -/
def EmbSrc1H (hs : List Spec.Name) : Stmt → Src → Prop
  | .ifThen c t e, x => ∃ csz cn t' e', x = .ifThen csz cn t' e' ∧ Emb c cn ∧ EmbSrcH hs t t' ∧ EmbSrcH hs e e'
  | .repeatWhile c b, x => ∃ csz cn b', x = .loop .while_ csz cn b' ∧ Emb c cn ∧ EmbSrcH hs b b'
  | .repeatWith (.var .loc v) a b down body, x =>
    ∃ (pre incr : Smp) (csz : Nat) (body' : List Src) (p1 p2 p3 p4 p5 pv1 pv2 pv3 pv4 : Int) (ra rb : Node),
      x = .loop (.with_ pre incr) csz (.binary (cmpName down) p1 (.leaf .localVar (.s v) pv1) rb) body' ∧
      pre.off < pre.sz ∧ incr.off < incr.sz ∧
      pre.code = .binary (S "assign") p2 (.leaf .localVar (.s v) pv2) ra ∧
      incr.code = .binary (S "assign") p3 (.leaf .localVar (.s v) pv3)
        (.binary (S "add") p4 (.leaf .const (.s (stepStr down)) p5) (.leaf .localVar (.s v) pv4)) ∧
      Emb a ra ∧ Emb b rb ∧ EmbSrcH hs body body'
  | .repeatIn (.var .loc v) l body, x =>
    ∃ (presz : Nat) (bp : Smp) (incrsz postsz csz : Nat) (body' : List Src) (pb pk pc pl ps pg pl2 pv : Int) (ln : Node),
      x = .loop (.in_ presz bp incrsz postsz) csz
        (.binary (S "lte") pb (.leaf .const (.s (S "1")) pk) (.callFn (.s (S "count")) pc (.loadList (S "<load_list>") pl [ln]) true false false .none)) body' ∧
      bp.off < bp.sz ∧
      bp.code = .binary (S "assign") ps (.leaf .localVar (.s v) pv)
        (.callFn (.s (S "getAt")) pg (.loadList (S "<load_list>") pl2 [.leaf .const (.s (S "1")) pk, ln]) true false false .none) ∧
      Emb l ln ∧ EmbSrcH hs body body'
  | s, x => ∃ (sm : Smp) (p : Int), x = .simple sm ∧ sm.off < sm.sz ∧ EmbSH hs s (.stmt p sm.code) ∧ PlainStmt (.stmt p sm.code)
def EmbSrcH (hs : List Spec.Name) : List Stmt → List Src → Prop
  | [], xs => xs = []
  | s :: ss, xs => ∃ y ys, xs = y :: ys ∧ EmbSrc1H hs s y ∧ EmbSrcH hs ss ys
end

mutual
theorem EmbSrc1H.weaken (hs : List Spec.Name) : (s : Stmt) → (x : Src) → EmbSrc1H hs s x → EmbSrc1 s x
  | .ifThen c t e, x, h => by
    obtain ⟨csz, cn, t', e', rfl, hc, ht, he⟩ := h
    exact ⟨csz, cn, t', e', rfl, hc, EmbSrcH.weaken hs t t' ht, EmbSrcH.weaken hs e e' he⟩
  | .repeatWhile c b, x, h => by
    obtain ⟨csz, cn, b', rfl, hc, hb⟩ := h
    exact ⟨csz, cn, b', rfl, hc, EmbSrcH.weaken hs b b' hb⟩
  | .repeatWith (.var .loc v) a b down body, x, h => by
    obtain ⟨pre, incr, csz, body', p1, p2, p3, p4, p5, pv1, pv2, pv3, pv4, ra, rb, rfl, ho1, ho2, hc1, hc2, ha, hb, hbody⟩ := h
    exact ⟨pre, incr, csz, body', p1, p2, p3, p4, p5, pv1, pv2, pv3, pv4, ra, rb, rfl, ho1, ho2, hc1, hc2, ha, hb, EmbSrcH.weaken hs body body' hbody⟩
  | .set lv v, x, h => by obtain ⟨sm, p, rfl, ho, he, hp⟩ := h; exact ⟨sm, p, rfl, ho, EmbSH.toEmbS _ _ _ he, hp⟩
  | .call f as, x, h => by obtain ⟨sm, p, rfl, ho, he, hp⟩ := h; exact ⟨sm, p, rfl, ho, EmbSH.toEmbS _ _ _ he, hp⟩
  | .exit, x, h => by obtain ⟨sm, p, rfl, ho, he, hp⟩ := h; exact ⟨sm, p, rfl, ho, EmbSH.toEmbS _ _ _ he, hp⟩
  | .put .., x, h => by obtain ⟨sm, p, rfl, ho, he, hp⟩ := h; exact ⟨sm, p, rfl, ho, EmbSH.toEmbS _ _ _ he, hp⟩
  | .delete .., x, h => by obtain ⟨sm, p, rfl, ho, he, hp⟩ := h; exact ⟨sm, p, rfl, ho, EmbSH.toEmbS _ _ _ he, hp⟩
  | .hilite .., x, h => by obtain ⟨sm, p, rfl, ho, he, hp⟩ := h; exact ⟨sm, p, rfl, ho, EmbSH.toEmbS _ _ _ he, hp⟩
  | .mcall .., x, h => by obtain ⟨sm, p, rfl, ho, he, hp⟩ := h; exact ⟨sm, p, rfl, ho, EmbSH.toEmbS _ _ _ he, hp⟩
  | .tell .., x, h => by obtain ⟨sm, p, rfl, ho, he, hp⟩ := h; exact ⟨sm, p, rfl, ho, EmbSH.toEmbS _ _ _ he, hp⟩
  | .repeatIn (.var .loc v) l body, x, h => by
    obtain ⟨presz, bp, incrsz, postsz, csz, body', pb, pk, pc, pl, ps, pg, pl2, pv, ln, rfl, ho, hc, hl, hb⟩ := h
    exact ⟨presz, bp, incrsz, postsz, csz, body', pb, pk, pc, pl, ps, pg, pl2, pv, ln, rfl, ho, hc, hl, EmbSrcH.weaken hs body body' hb⟩
  | .repeatIn (.int _) .., x, h => by obtain ⟨sm, p, rfl, ho, he, hp⟩ := h; exact ⟨sm, p, rfl, ho, EmbSH.toEmbS _ _ _ he, hp⟩
  | .exitRepeat, x, h => by obtain ⟨sm, p, rfl, ho, he, hp⟩ := h; exact ⟨sm, p, rfl, ho, EmbSH.toEmbS _ _ _ he, hp⟩
  | .repeatWith (.int _) .., x, h => by obtain ⟨sm, p, rfl, ho, he, hp⟩ := h; exact ⟨sm, p, rfl, ho, EmbSH.toEmbS _ _ _ he, hp⟩
theorem EmbSrcH.weaken (hs : List Spec.Name) : (ss : List Stmt) → (xs : List Src) → EmbSrcH hs ss xs → EmbSrc ss xs
  | [], xs, h => h
  | s :: ss, xs, h => by
    obtain ⟨y, ys, rfl, h1, h2⟩ := h
    exact ⟨y, ys, rfl, EmbSrc1H.weaken hs s y h1, EmbSrcH.weaken hs ss ys h2⟩
end

/-- the simple-statement case: agent-link's `stmt_lemma` WITHOUT the weakening of `LinkFlow.stmtPos` -/
theorem struct_simpleH (s : Stmt) (hf : FragS s = true) (h1 : ∀ c t e, s ≠ .ifThen c t e) (h2 : ∀ c b, s ≠ .repeatWhile c b)
    (h3 : ∀ v a b d body, s ≠ .repeatWith v a b d body) (h4 : ∀ v l body, s ≠ .repeatIn v l body)
    (c : Spec.Ctx) (hT : c.inTell = false) (s0 s1 : St) (cs : List CStmt) (h : lowerStmt c s s0 = .ok (cs, s1)) :
    Ext s0 s1 ∧ cs ≠ [] ∧ (∀ te, ∀ i ∈ layoutStmts te cs, i.opc ≠ 153) ∧
    ∀ (sF : St) (ctx : Lscr.Ctx), Ext s1 sF → Rel c sF ctx → ∀ (G : List Spec.Name), (∀ g ∈ s.vars .glob, g ∈ G) →
      (∀ v ∈ s.vars .prop, ctx.props.contains v = true) →
      ∀ (te : Option Nat) (a : Nat) (st : PState), st.bpc = 6 → GvOk G st.gvars → AllS (fun p _ => p < (a : Int)) st.stmts →
        ∃ x, EmbSrc1H c.handlers s x ∧ x.size = CStmt.sizes cs ∧ RunsAs G ctx (layoutStmts te cs) a st (lower1 x) := by
  obtain ⟨hext, code, rfl, hop, hrun⟩ := stmt_lemma s hf c hT s0 s1 cs h
  refine ⟨hext, by simp, ?_, ?_⟩
  · intro te i hi
    simp only [layoutStmts, layoutStmt, List.append_nil] at hi
    exact hop i hi
  intro sF ctx hF hrel G hG hP te a st hb hgv _
  obtain ⟨n, gv', hemb, hplain, ⟨p, cd, rfl, hp1, hp2⟩, hgv', hr⟩ := hrun sF ctx hF hrel G hG hP a st hb hgv
  have hoff : ((p - (a : Int)).toNat : Int) = p - a := by omega
  have hshape : EmbSrc1H c.handlers s (.simple ⟨codeSize code, (p - (a : Int)).toNat, cd⟩) := by
    have hx : ∃ (sm : Smp) (q : Int), Src.simple ⟨codeSize code, (p - (a : Int)).toNat, cd⟩ = .simple sm ∧ sm.off < sm.sz ∧
        EmbSH c.handlers s (.stmt q sm.code) ∧ PlainStmt (.stmt q sm.code) := ⟨_, p, rfl, by simp only; omega, hemb, hplain⟩
    cases s with
    | ifThen c t e => exact absurd rfl (h1 c t e)
    | repeatWhile c b => exact absurd rfl (h2 c b)
    | repeatWith v a b d body => exact absurd rfl (h3 v a b d body)
    | repeatIn v l body => exact absurd rfl (h4 v l body)
    | _ => simp only [EmbSrc1H]; exact hx
  refine ⟨_, hshape, ?_, gv', hgv', ?_⟩
  · simp [Src.size, lower1, P.sizes, P.size, CStmt.sizes, CStmt.size]
  · simp only [layoutStmts, layoutStmt, List.append_nil, lower1, emit, emit1, hoff]
    rw [hr]
    have e : (a : Int) + (p - (a : Int)) = p := by omega
    rw [e]

/-- what the structured stack lemma says about one statement -/
def Struct1H (s : Stmt) : Prop :=
  ∀ (c : Spec.Ctx), c.inTell = false → ∀ (s0 s1 : St) (cs : List CStmt), lowerStmt c s s0 = .ok (cs, s1) →
    Ext s0 s1 ∧ cs ≠ [] ∧ (∀ te, ∀ i ∈ layoutStmts te cs, i.opc ≠ 153) ∧
    ∀ (sF : St) (ctx : Lscr.Ctx), Ext s1 sF → Rel c sF ctx → ∀ (G : List Spec.Name), (∀ g ∈ s.vars .glob, g ∈ G) →
      (∀ v ∈ s.vars .prop, ctx.props.contains v = true) →
      ∀ (te : Option Nat) (a : Nat) (st : PState), st.bpc = 6 → GvOk G st.gvars → AllS (fun p _ => p < (a : Int)) st.stmts →
        ∃ x, EmbSrc1H c.handlers s x ∧ x.size = CStmt.sizes cs ∧ RunsAs G ctx (layoutStmts te cs) a st (lower1 x)

/-- … and about a statement list -/
def StructsH (ss : List Stmt) : Prop :=
  ∀ (c : Spec.Ctx), c.inTell = false → ∀ (s0 s1 : St) (cs : List CStmt), lowerStmts c ss s0 = .ok (cs, s1) →
    Ext s0 s1 ∧ cs.isEmpty = ss.isEmpty ∧ (∀ te, ∀ i ∈ layoutStmts te cs, i.opc ≠ 153) ∧
    ∀ (sF : St) (ctx : Lscr.Ctx), Ext s1 sF → Rel c sF ctx → ∀ (G : List Spec.Name), (∀ g ∈ Stmt.varsList .glob ss, g ∈ G) →
      (∀ v ∈ Stmt.varsList .prop ss, ctx.props.contains v = true) →
      ∀ (te : Option Nat) (a : Nat) (st : PState), st.bpc = 6 → GvOk G st.gvars → AllS (fun p _ => p < (a : Int)) st.stmts →
        ∃ xs, EmbSrcH c.handlers ss xs ∧ P.sizes (lower xs) = CStmt.sizes cs ∧ RunsAs G ctx (layoutStmts te cs) a st (lower xs)

/-- lists, given the heads -/
theorem structs_consH (s : Stmt) (ss : List Stmt) (h1 : Struct1H s) (h2 : StructsH ss) : StructsH (s :: ss) := by
  intro c hT s0 s1 cs h
  rw [lowerStmts] at h
  simp only [M_bind_ok, M_pure_ok, Prod.mk.injEq] at h
  obtain ⟨c1, sA, hc1, c2, sB, hc2, rfl, rfl⟩ := h
  obtain ⟨e1, hne1, hop1, hrun1⟩ := h1 c hT s0 sA c1 hc1
  obtain ⟨e2, _, hop2, hrun2⟩ := h2 c hT sA _ c2 hc2
  refine ⟨e1.trans e2, ?_, ?_, ?_⟩
  · cases c1 with
    | nil => exact absurd rfl hne1
    | cons y ys => rfl
  · intro te i hi
    rw [layoutStmts_append] at hi
    rcases List.mem_append.mp hi with hi | hi
    · exact hop1 _ i hi
    · exact hop2 _ i hi
  intro sF ctx hF hrel G hG hP te a st hb hgv hpos
  have hG1 : ∀ g ∈ s.vars .glob, g ∈ G := fun g hg => hG g (by simp [Stmt.varsList, hg])
  have hG2 : ∀ g ∈ Stmt.varsList .glob ss, g ∈ G := fun g hg => hG g (by simp [Stmt.varsList, hg])
  have hP1 : ∀ v ∈ s.vars .prop, ctx.props.contains v = true := fun v hv => hP v (by simp [Stmt.varsList, hv])
  have hP2 : ∀ v ∈ Stmt.varsList .prop ss, ctx.props.contains v = true := fun v hv => hP v (by simp [Stmt.varsList, hv])
  obtain ⟨x, hx, hsz1, gv1, hgv1, hr1⟩ := hrun1 sF ctx (e2.trans hF) hrel G hG1 hP1 (te.map (· + CStmt.sizes c2)) a st hb hgv hpos
  have hwf1 := (embSrc1_wf s x (EmbSrc1H.weaken _ _ _ hx)).1
  have inv1 := emit_inv false (a : Int) (lower1 x) hwf1
  have hcs1 : codeSize (layoutStmts (te.map (· + CStmt.sizes c2)) c1) = CStmt.sizes c1 := layoutStmts_size _ _
  have hpos2 : AllS (fun p _ => p < ((a + CStmt.sizes c1 : Nat) : Int)) (st.stmts ++ emit false (a : Int) (lower1 x)) :=
    AllS.append (AllS.mono hpos fun _ _ hh => by push_cast; omega)
      (AllS.mono inv1 fun _ _ hh => by have := hh.2.1; rw [← hsz1, Src.size_eq]; push_cast; omega)
  obtain ⟨xs, hxs, hsz2, gv2, hgv2, hr2⟩ := hrun2 sF ctx hF hrel G hG2 hP2 te (a + CStmt.sizes c1)
    { st with stmts := st.stmts ++ emit false (a : Int) (lower1 x), gvars := gv1 } hb hgv1.1 hpos2
  refine ⟨x :: xs, ⟨x, xs, rfl, hx, hxs⟩, ?_, gv2, hgv1.trans hgv2, ?_⟩
  · rw [lower_cons', Drx.LinkFlow.sizes_append, Spec.sizes_append, hsz2, ← hsz1, Src.size_eq]
  · rw [layoutStmts_append, runIs_bind_ok hr1, hcs1, hr2, lower_cons', emit_append, ← Src.size_eq, hsz1]
    simp [List.append_assoc]

/-- `if c then t [else e] end if` -/
theorem struct_ifH (cd : Expr) (t e : List Stmt) (hfc : FragE cd = true) (ht : StructsH t) (he : StructsH e) :
    Struct1H (.ifThen cd t e) := by
  intro c hT s0 s1 cs h
  rw [lowerStmt] at h
  simp only [M_bind_ok, M_pure_ok, Prod.mk.injEq] at h
  obtain ⟨cc, sA, hcc, ct, sB, hct, ce, sC, hce, rfl, rfl⟩ := h
  obtain ⟨e1, hop1, hrun1⟩ := stack_lemma cd hfc c s0 sA cc hcc
  obtain ⟨e2, _, hop2, hrun2⟩ := ht c hT sA sB ct hct
  obtain ⟨e3, hemp3, hop3, hrun3⟩ := he c hT sB _ ce hce
  refine ⟨(e1.trans e2).trans e3, by simp, ?_, ?_⟩
  · intro te i hi
    rw [layoutStmts_single] at hi
    by_cases hE : ce.isEmpty = true
    · rw [layoutStmt_if_empty _ _ _ _ hE] at hi
      simp only [List.mem_append, List.mem_singleton] at hi
      rcases hi with (hi | hi) | hi
      · exact hop1 i hi
      · subst hi; simp [Instr.opc]
      · exact hop2 _ i hi
    · have hE' : ce.isEmpty = false := by simpa using hE
      rw [layoutStmt_if_else _ _ _ _ hE'] at hi
      simp only [List.mem_append, List.mem_singleton] at hi
      rcases hi with (((hi | hi) | hi) | hi) | hi
      · exact hop1 i hi
      · subst hi; simp [Instr.opc]
      · exact hop2 _ i hi
      · subst hi; simp [Instr.opc]
      · exact hop3 _ i hi
  intro sF ctx hF hrel G hG hP te a st hb hgv hpos
  have hG0 : ∀ g ∈ cd.vars .glob, g ∈ G := fun g hg => hG g (by simp [Stmt.vars, hg])
  have hG1 : ∀ g ∈ Stmt.varsList .glob t, g ∈ G := fun g hg => hG g (by simp [Stmt.vars, hg])
  have hG2 : ∀ g ∈ Stmt.varsList .glob e, g ∈ G := fun g hg => hG g (by simp [Stmt.vars, hg])
  have hP1 : ∀ v ∈ Stmt.varsList .prop t, ctx.props.contains v = true := fun v hv => hP v (by simp [Stmt.vars, hv])
  have hP2 : ∀ v ∈ Stmt.varsList .prop e, ctx.props.contains v = true := fun v hv => hP v (by simp [Stmt.vars, hv])
  obtain ⟨n, gv0, hembH, hgv0, hr0⟩ := hrun1 sF ctx ((e2.trans e3).trans hF) hrel G hG0 a st hb hgv
  have hemb := EmbH.toEmb _ _ _ hembH
  rw [layoutStmts_single]
  generalize Option.map (fun x => x + CStmt.sizes []) te = te'
  by_cases hE : ce.isEmpty = true
  · -- no else
    have hee : e = [] := by
      have : e.isEmpty = true := by rw [← hemp3]; exact hE
      simpa using this
    subst hee
    have hjz := run_jz ctx a cc (3 + CStmt.sizes ct) st n gv0 hr0
    have hpos1 : AllS (fun p _ => p < ((a + codeSize cc + 3 : Nat) : Int))
        (st.stmts ++ [jzStmt ((a + codeSize cc : Nat) : Int) n (((a + codeSize cc : Nat) : Int) + ((3 + CStmt.sizes ct : Nat) : Int))]) :=
      AllS.append (AllS.mono hpos fun _ _ hh => by push_cast; omega) (allS_jz _ _ _ (by push_cast; omega))
    obtain ⟨t', hembt, hszt, gv1, hgv1, hr1⟩ := hrun2 sF ctx (e3.trans hF) hrel G hG1 hP1 te' (a + codeSize cc + 3)
      { st with gvars := gv0, stmts := st.stmts ++ [jzStmt ((a + codeSize cc : Nat) : Int) n (((a + codeSize cc : Nat) : Int) + ((3 + CStmt.sizes ct : Nat) : Int))] }
      hb hgv0.1 hpos1
    refine ⟨.ifThen (codeSize cc) n t' [], ⟨_, _, _, _, rfl, hemb, hembt, rfl⟩, ?_, gv1, hgv0.trans hgv1, ?_⟩
    · have : ce = [] := by simpa using hE
      subst this
      simp [Src.size, lower1, lower, P.sizes, P.size, CStmt.sizes, CStmt.size, hszt]
    · rw [layoutStmt_if_empty _ _ _ _ hE, runIs_bind_ok hjz]
      have hc : codeSize (cc ++ [Instr.op3 0x95 (3 + CStmt.sizes ct)]) = codeSize cc + 3 := by
        simp [codeSize_append, codeSize, Instr.size]
      rw [hc, ← Nat.add_assoc, hr1]
      simp only [lower1, lower, emit, List.append_nil, emit1_if_noelse, List.append_assoc, List.cons_append, List.nil_append, hszt]
      exact stmts_congr st gv1 (cons_congr (jzStmt_congr n (by omega) (by omega)) (emit_congr _ _ (by omega)))
  · -- with else
    have hE' : ce.isEmpty = false := by simpa using hE
    have hjz := run_jz ctx a cc (3 + CStmt.sizes ct + 3) st n gv0 hr0
    have hpos1 : AllS (fun p _ => p < ((a + codeSize cc + 3 : Nat) : Int))
        (st.stmts ++ [jzStmt ((a + codeSize cc : Nat) : Int) n (((a + codeSize cc : Nat) : Int) + ((3 + CStmt.sizes ct + 3 : Nat) : Int))]) :=
      AllS.append (AllS.mono hpos fun _ _ hh => by push_cast; omega) (allS_jz _ _ _ (by push_cast; omega))
    obtain ⟨t', hembt, hszt, gv1, hgv1, hr1⟩ := hrun2 sF ctx (e3.trans hF) hrel G hG1 hP1 (te'.map (· + 3 + CStmt.sizes ce))
      (a + codeSize cc + 3)
      { st with gvars := gv0, stmts := st.stmts ++ [jzStmt ((a + codeSize cc : Nat) : Int) n (((a + codeSize cc : Nat) : Int) + ((3 + CStmt.sizes ct + 3 : Nat) : Int))] }
      hb hgv0.1 hpos1
    have hwft := (embSrc_wf t t' (EmbSrcH.weaken _ _ _ hembt)).1
    have invt := emit_inv false ((a + codeSize cc + 3 : Nat) : Int) (lower t') hwft
    have hpos2 : AllS (fun p _ => p < ((a + codeSize cc + 3 + CStmt.sizes ct + 3 : Nat) : Int))
        ((st.stmts ++ [jzStmt ((a + codeSize cc : Nat) : Int) n (((a + codeSize cc : Nat) : Int) + ((3 + CStmt.sizes ct + 3 : Nat) : Int))]
          ++ emit false ((a + codeSize cc + 3 : Nat) : Int) (lower t')) ++
          [jumpStmt ((a + codeSize cc + 3 + CStmt.sizes ct : Nat) : Int)
            (((a + codeSize cc + 3 + CStmt.sizes ct : Nat) : Int) + ((3 + CStmt.sizes ce : Nat) : Int))]) :=
      AllS.append (AllS.append (AllS.mono hpos1 fun _ _ hh => by push_cast at *; omega)
        (AllS.mono invt fun _ _ hh => by have := hh.2.1; rw [hszt] at this; push_cast at *; omega))
        (allS_jump _ _ (by push_cast; omega))
    obtain ⟨e', hembe, hsze, gv2, hgv2, hr2⟩ := hrun3 sF ctx hF hrel G hG2 hP2 te' (a + codeSize cc + 3 + CStmt.sizes ct + 3)
      { st with gvars := gv1, stmts := (st.stmts ++ [jzStmt ((a + codeSize cc : Nat) : Int) n (((a + codeSize cc : Nat) : Int) + ((3 + CStmt.sizes ct + 3 : Nat) : Int))]
          ++ emit false ((a + codeSize cc + 3 : Nat) : Int) (lower t')) ++
          [jumpStmt ((a + codeSize cc + 3 + CStmt.sizes ct : Nat) : Int)
            (((a + codeSize cc + 3 + CStmt.sizes ct : Nat) : Int) + ((3 + CStmt.sizes ce : Nat) : Int))] }
      hb hgv1.1 hpos2
    have hne : e' ≠ [] := by
      intro h0
      have hl := (embSrc_wf e e' (EmbSrcH.weaken _ _ _ hembe)).2
      rw [h0] at hl
      have : e = [] := by cases e with | nil => rfl | cons _ _ => simp at hl
      rw [this] at hemp3
      simp [hE'] at hemp3
    have hlne : lower e' ≠ [] := fun h0 => hne ((lower_eq_nil e').1 h0)
    refine ⟨.ifThen (codeSize cc) n t' e', ⟨_, _, _, _, rfl, hemb, hembt, hembe⟩, ?_, gv2, (hgv0.trans hgv1).trans hgv2, ?_⟩
    · have hie : (lower e').isEmpty = false := by cases hh : lower e' with | nil => exact absurd hh hlne | cons _ _ => rfl
      simp [Src.size, lower1, P.sizes, P.size, CStmt.sizes, CStmt.size, hszt, hsze, hie, hE']
    · rw [layoutStmt_if_else _ _ _ _ hE']
      have hc1 : codeSize (cc ++ [Instr.op3 0x95 (3 + CStmt.sizes ct + 3)]) = codeSize cc + 3 := by
        simp [codeSize_append, codeSize, Instr.size]
      have hc2 : codeSize (layoutStmts (te'.map (· + 3 + CStmt.sizes ce)) ct) = CStmt.sizes ct := layoutStmts_size _ _
      have hc3 : codeSize [Instr.op3 0x93 (3 + CStmt.sizes ce)] = 3 := by simp [codeSize, Instr.size]
      rw [List.append_assoc, List.append_assoc, List.append_assoc, ← List.append_assoc cc, runIs_bind_ok hjz, hc1, ← Nat.add_assoc,
        runIs_bind_ok hr1, hc2, runIs_bind_ok (run_jump ctx _ _ _), hc3, hr2]
      simp only [lower1, emit, List.append_nil, emit1_if_else _ _ _ _ _ _ hlne, List.append_assoc, List.cons_append, List.nil_append,
        hszt, hsze]
      exact stmts_congr st gv2 (cons_congr (jzStmt_congr n (by omega) (by omega)) (append_congr (emit_congr _ _ (by omega))
        (cons_congr (jumpStmt_congr (by omega) (by omega)) (emit_congr _ _ (by omega)))))

/-- `repeat while c … end repeat` -/
theorem struct_whileH (cd : Expr) (body : List Stmt) (hfc : FragE cd = true) (hb : StructsH body) : Struct1H (.repeatWhile cd body) := by
  intro c hT s0 s1 cs h
  rw [lowerStmt] at h
  simp only [M_bind_ok, M_pure_ok, Prod.mk.injEq] at h
  obtain ⟨cc, sA, hcc, cb, sB, hcb, rfl, rfl⟩ := h
  obtain ⟨e1, hop1, hrun1⟩ := stack_lemma cd hfc c s0 sA cc hcc
  obtain ⟨e2, _, hop2, hrun2⟩ := hb c hT sA _ cb hcb
  refine ⟨e1.trans e2, by simp, ?_, ?_⟩
  · intro te i hi
    rw [layoutStmts_single, layoutStmt_while] at hi
    simp only [List.mem_append, List.mem_singleton] at hi
    rcases hi with ((hi | hi) | hi) | hi
    · exact hop1 i hi
    · subst hi; simp [Instr.opc]
    · exact hop2 _ i hi
    · subst hi; simp [Instr.opc]
  intro sF ctx hF hrel G hG hP te a st hb' hgv hpos
  have hG0 : ∀ g ∈ cd.vars .glob, g ∈ G := fun g hg => hG g (by simp [Stmt.vars, hg])
  have hG1 : ∀ g ∈ Stmt.varsList .glob body, g ∈ G := fun g hg => hG g (by simp [Stmt.vars, hg])
  have hP1 : ∀ v ∈ Stmt.varsList .prop body, ctx.props.contains v = true := fun v hv => hP v (by simp [Stmt.vars, hv])
  obtain ⟨n, gv0, hembH, hgv0, hr0⟩ := hrun1 sF ctx (e2.trans hF) hrel G hG0 a st hb' hgv
  have hemb := EmbH.toEmb _ _ _ hembH
  rw [layoutStmts_single, layoutStmt_while]
  have hjz := run_jz ctx a cc (3 + CStmt.sizes cb + 2) st n gv0 hr0
  have hpos1 : AllS (fun p _ => p < ((a + codeSize cc + 3 : Nat) : Int))
      (st.stmts ++ [jzStmt ((a + codeSize cc : Nat) : Int) n (((a + codeSize cc : Nat) : Int) + ((3 + CStmt.sizes cb + 2 : Nat) : Int))]) :=
    AllS.append (AllS.mono hpos fun _ _ hh => by push_cast; omega) (allS_jz _ _ _ (by push_cast; omega))
  obtain ⟨b', hembb, hszb, gv1, hgv1, hr1⟩ := hrun2 sF ctx hF hrel G hG1 hP1 (some 2) (a + codeSize cc + 3)
    { st with gvars := gv0, stmts := st.stmts ++ [jzStmt ((a + codeSize cc : Nat) : Int) n (((a + codeSize cc : Nat) : Int) + ((3 + CStmt.sizes cb + 2 : Nat) : Int))] }
    hb' hgv0.1 hpos1
  have hwfb := (embSrc_wf body b' (EmbSrcH.weaken _ _ _ hembb)).1
  have invb := emit_inv false ((a + codeSize cc + 3 : Nat) : Int) (lower b') hwfb
  have hc1 : codeSize (cc ++ [Instr.op3 0x95 (3 + CStmt.sizes cb + 2)]) = codeSize cc + 3 := by
    simp [codeSize_append, codeSize, Instr.size]
  have hc2 : codeSize (layoutStmts (some 2) cb) = CStmt.sizes cb := layoutStmts_size _ _
  have hbk := run_back ctx (a + codeSize cc + 3 + CStmt.sizes cb) (codeSize cc + 3 + CStmt.sizes cb)
    { st with gvars := gv1, stmts := ((st.stmts ++ [jzStmt ((a + codeSize cc : Nat) : Int) n (((a + codeSize cc : Nat) : Int) + ((3 + CStmt.sizes cb + 2 : Nat) : Int))]) ++ emit false ((a + codeSize cc + 3 : Nat) : Int) (lower b')) }
    st.stmts (jzStmt ((a + codeSize cc : Nat) : Int) n (((a + codeSize cc : Nat) : Int) + ((3 + CStmt.sizes cb + 2 : Nat) : Int))
      :: emit false ((a + codeSize cc + 3 : Nat) : Int) (lower b')) (a : Int) (by simp [List.append_assoc]) (by push_cast; omega) hpos
    (AllS.append (allS_jz _ _ _ (by push_cast; omega)) (AllS.mono invb fun _ _ hh => by have := hh.1; push_cast at *; omega))
  refine ⟨.loop .while_ (codeSize cc) n b', ⟨_, _, _, rfl, hemb, hembb⟩, ?_, gv1, hgv0.trans hgv1, ?_⟩
  · simp [Src.size, lower1, P.sizes, P.size, CStmt.sizes, CStmt.size, hszb, codeSize]
  · rw [List.append_assoc, List.append_assoc, ← List.append_assoc cc, runIs_bind_ok hjz, hc1, ← Nat.add_assoc, runIs_bind_ok hr1, hc2, hbk]
    simp only [lower1, emit, List.append_nil, emit1_loop_raw, hszb]
    exact stmts_congr st gv1 (cons_congr (rawLoop_congr rfl (by push_cast; omega)
      (cons_congr (jzStmt_congr n (by push_cast; omega) (by push_cast; omega)) (emit_congr _ _ (by push_cast; omega)))) rfl)


/-- `repeat with v = a [down] to b … end repeat`, `v` a local variable -/
theorem struct_withH (n : Spec.Name) (ea eb : Expr) (down : Bool) (body : List Stmt) (hfa : FragE ea = true) (hfb : FragE eb = true)
    (hbody : StructsH body) : Struct1H (.repeatWith (.var .loc n) ea eb down body) := by
  intro c hT s0 s1 cs h
  rw [lowerStmt] at h
  simp only [M_bind_ok, M_pure_ok, Prod.mk.injEq, lowerSet, lowerGet] at h
  obtain ⟨ca, sA, hca, setv, sB, hset, getv, sC, hget, cb, sD, hcb, cbody, sE, hcbody, rfl, rfl⟩ := h
  rw [lowerExpr] at hget
  cases ho : c.localOff n with
  | none => rw [ho] at hset; simp [Spec.fail] at hset
  | some o =>
    rw [ho] at hset hget
    simp only [M_bind_ok, M_pure_ok, Prod.mk.injEq] at hset
    obtain ⟨c2, s2, hop2, rfl, rfl⟩ := hset
    obtain ⟨rfl, rfl, _⟩ := op2c_ok _ _ _ _ _ hop2
    obtain ⟨rfl, rfl, _⟩ := op2c_ok _ _ _ _ _ hget
    obtain ⟨j, hj, rfl⟩ := localOff_spec c n o ho
    obtain ⟨e1, hopA, hrunA⟩ := stack_lemma ea hfa c s0 _ ca hca
    obtain ⟨e2, hopB, hrunB⟩ := stack_lemma eb hfb c _ _ cb hcb
    obtain ⟨e3, _, hopC, hrunC⟩ := hbody c hT _ _ cbody hcbody
    -- the skeleton's pieces
    have hcs : ([CStmt.loop (ca ++ [Instr.op2 0x52 (6 * j)]) ([Instr.op2 0x4c (6 * j)] ++ cb ++ [Instr.op1 (if down = true then 0x11 else 0x0d)]) [] cbody
        ([if down = true then Instr.op2 0x41 0xff else Instr.op2 0x41 0x01] ++ [Instr.op2 0x4c (6 * j)] ++ [Instr.op1 0x05] ++ [Instr.op2 0x52 (6 * j)]) []] : List CStmt) =
        [CStmt.loop (ca ++ [Instr.op2 0x52 (6 * j)]) (Instr.op2 0x4c (6 * j) :: (cb ++ [Instr.op1 (if down then BinOp.ge else BinOp.le).code])) [] cbody
          [if down then Instr.op2 0x41 0xff else Instr.op2 0x41 0x01, Instr.op2 0x4c (6 * j), Instr.op1 0x05, Instr.op2 0x52 (6 * j)] []] := by
      cases down <;> simp [BinOp.code]
    rw [hcs]
    have hsi : codeSize [if down then Instr.op2 0x41 0xff else Instr.op2 0x41 0x01, Instr.op2 0x4c (6 * j), Instr.op1 0x05, Instr.op2 0x52 (6 * j)] = 7 := by
      cases down <;> simp [codeSize, Instr.size]
    have hsc : codeSize (Instr.op2 0x4c (6 * j) :: (cb ++ [Instr.op1 (if down then BinOp.ge else BinOp.le).code])) = 2 + codeSize cb + 1 := by
      simp [codeSize, codeSize_append, Instr.size]; omega
    have hsp : codeSize (ca ++ [Instr.op2 0x52 (6 * j)]) = codeSize ca + 2 := by simp [codeSize_append, codeSize, Instr.size]
    refine ⟨(e1.trans e2).trans e3, by simp, ?_, ?_⟩
    · intro te i hi
      rw [layoutStmts_single, layoutStmt_with] at hi
      simp only [List.mem_append, List.mem_cons, List.not_mem_nil, or_false] at hi
      rcases hi with (((((hi | hi) | hi | hi | hi) | hi) | hi) | hi | hi | hi | hi) | hi
      · exact hopA i hi
      · subst hi; simp [Instr.opc]
      · subst hi; simp [Instr.opc]
      · exact hopB i hi
      · subst hi; cases down <;> simp [Instr.opc, BinOp.code]
      · subst hi; simp [Instr.opc]
      · exact hopC _ i hi
      · subst hi; cases down <;> simp [Instr.opc]
      · subst hi; simp [Instr.opc]
      · subst hi; simp [Instr.opc]
      · subst hi; simp [Instr.opc]
      · subst hi; simp [Instr.opc]
    intro sF ctx hF hrel G hG hP te a st hb hgv hpos
    have hGa : ∀ g ∈ ea.vars .glob, g ∈ G := fun g hg => hG g (by simp [Stmt.vars, hg])
    have hGb : ∀ g ∈ eb.vars .glob, g ∈ G := fun g hg => hG g (by simp [Stmt.vars, hg])
    have hGc : ∀ g ∈ Stmt.varsList .glob body, g ∈ G := fun g hg => hG g (by simp [Stmt.vars, hg])
    have hPc : ∀ v ∈ Stmt.varsList .prop body, ctx.props.contains v = true := fun v hv => hP v (by simp [Stmt.vars, hv])
    obtain ⟨pv, hlv⟩ := hrel.locals n j hj
    -- pre
    obtain ⟨ra, gv0, hembA, hgv0, hrA⟩ := hrunA sF ctx ((e2.trans e3).trans hF) hrel G hGa a st hb hgv
    have hpre := run_pre ctx a j ca st _ ra gv0 hb hlv hrA
    -- condition
    obtain ⟨rb, gv1, hembB, hgv1, hrB⟩ := hrunB sF ctx (e3.trans hF) hrel G hGb (a + (codeSize ca + 2) + 2)
      { st with gvars := gv0, stmts := st.stmts ++ [.stmt ((a + codeSize ca : Nat) : Int) (.binary (S "assign") ((a + codeSize ca : Nat) : Int) (.leaf .localVar (.s n) pv) ra)],
                stack := .leaf .localVar (.s n) pv :: st.stack } hb hgv0.1
    have hcnd := run_cnd ctx (a + (codeSize ca + 2)) j cb (if down then BinOp.ge else BinOp.le)
      { st with gvars := gv0, stmts := st.stmts ++ [.stmt ((a + codeSize ca : Nat) : Int) (.binary (S "assign") ((a + codeSize ca : Nat) : Int) (.leaf .localVar (.s n) pv) ra)] }
      (.leaf .localVar (.s n) pv) rb gv1 hb hlv hrB
    have hbn : binName (if down then BinOp.ge else BinOp.le) = cmpName down := by cases down <;> rfl
    rw [hbn] at hcnd
    -- conditional jump
    have hjz := run_jz ctx (a + (codeSize ca + 2)) _ (3 + (CStmt.sizes cbody + 7) + 2) _ _ gv1 hcnd
    rw [hsc] at hjz
    -- body
    have hpos1 : AllS (fun p _ => p < ((a + (codeSize ca + 2) + (2 + codeSize cb + 1) + 3 : Nat) : Int))
        ((st.stmts ++ [.stmt ((a + codeSize ca : Nat) : Int) (.binary (S "assign") ((a + codeSize ca : Nat) : Int) (.leaf .localVar (.s n) pv) ra)]) ++
          [jzStmt ((a + (codeSize ca + 2) + (2 + codeSize cb + 1) : Nat) : Int)
            (.binary (cmpName down) ((a + (codeSize ca + 2) + 2 + codeSize cb : Nat) : Int) (.leaf .localVar (.s n) pv) rb)
            (((a + (codeSize ca + 2) + (2 + codeSize cb + 1) : Nat) : Int) + ((3 + (CStmt.sizes cbody + 7) + 2 : Nat) : Int))]) :=
      AllS.append (AllS.append (AllS.mono hpos fun _ _ hh => by push_cast; omega) (AllS.cons (by push_cast; omega) AllS.nil))
        (allS_jz _ _ _ (by push_cast; omega))
    obtain ⟨b', hembb, hszb, gv2, hgv2, hr2⟩ := hrunC sF ctx hF hrel G hGc hPc (some (7 + 2)) (a + (codeSize ca + 2) + (2 + codeSize cb + 1) + 3)
      { st with gvars := gv1, stmts := ((st.stmts ++ [.stmt ((a + codeSize ca : Nat) : Int) (.binary (S "assign") ((a + codeSize ca : Nat) : Int) (.leaf .localVar (.s n) pv) ra)]) ++
          [jzStmt ((a + (codeSize ca + 2) + (2 + codeSize cb + 1) : Nat) : Int)
            (.binary (cmpName down) ((a + (codeSize ca + 2) + 2 + codeSize cb : Nat) : Int) (.leaf .localVar (.s n) pv) rb)
            (((a + (codeSize ca + 2) + (2 + codeSize cb + 1) : Nat) : Int) + ((3 + (CStmt.sizes cbody + 7) + 2 : Nat) : Int))]) }
      hb hgv1.1 hpos1
    have hwfb := (embSrc_wf body b' (EmbSrcH.weaken _ _ _ hembb)).1
    have invb := emit_inv false ((a + (codeSize ca + 2) + (2 + codeSize cb + 1) + 3 : Nat) : Int) (lower b') hwfb
    -- step
    have hinc := run_incr ctx (a + (codeSize ca + 2) + (2 + codeSize cb + 1) + 3 + CStmt.sizes cbody) j down
      { st with gvars := gv2, stmts := (((st.stmts ++ [.stmt ((a + codeSize ca : Nat) : Int) (.binary (S "assign") ((a + codeSize ca : Nat) : Int) (.leaf .localVar (.s n) pv) ra)]) ++
          [jzStmt ((a + (codeSize ca + 2) + (2 + codeSize cb + 1) : Nat) : Int)
            (.binary (cmpName down) ((a + (codeSize ca + 2) + 2 + codeSize cb : Nat) : Int) (.leaf .localVar (.s n) pv) rb)
            (((a + (codeSize ca + 2) + (2 + codeSize cb + 1) : Nat) : Int) + ((3 + (CStmt.sizes cbody + 7) + 2 : Nat) : Int))]) ++
          emit false ((a + (codeSize ca + 2) + (2 + codeSize cb + 1) + 3 : Nat) : Int) (lower b')) }
      (.leaf .localVar (.s n) pv) hb hlv
    -- back jump
    have hbk := run_back ctx (a + (codeSize ca + 2) + (2 + codeSize cb + 1) + 3 + CStmt.sizes cbody + 7) ((2 + codeSize cb + 1) + 3 + (CStmt.sizes cbody + 7))
      { st with gvars := gv2, stmts := ((((st.stmts ++ [.stmt ((a + codeSize ca : Nat) : Int) (.binary (S "assign") ((a + codeSize ca : Nat) : Int) (.leaf .localVar (.s n) pv) ra)]) ++
          [jzStmt ((a + (codeSize ca + 2) + (2 + codeSize cb + 1) : Nat) : Int)
            (.binary (cmpName down) ((a + (codeSize ca + 2) + 2 + codeSize cb : Nat) : Int) (.leaf .localVar (.s n) pv) rb)
            (((a + (codeSize ca + 2) + (2 + codeSize cb + 1) : Nat) : Int) + ((3 + (CStmt.sizes cbody + 7) + 2 : Nat) : Int))]) ++
          emit false ((a + (codeSize ca + 2) + (2 + codeSize cb + 1) + 3 : Nat) : Int) (lower b')) ++
          [.stmt ((a + (codeSize ca + 2) + (2 + codeSize cb + 1) + 3 + CStmt.sizes cbody + 5 : Nat) : Int)
            (.binary (S "assign") ((a + (codeSize ca + 2) + (2 + codeSize cb + 1) + 3 + CStmt.sizes cbody + 5 : Nat) : Int) (.leaf .localVar (.s n) pv)
              (.binary (S "add") ((a + (codeSize ca + 2) + (2 + codeSize cb + 1) + 3 + CStmt.sizes cbody + 4 : Nat) : Int)
                (.leaf .const (.s (stepStr down)) ((a + (codeSize ca + 2) + (2 + codeSize cb + 1) + 3 + CStmt.sizes cbody : Nat) : Int)) (.leaf .localVar (.s n) pv)))]) }
      (st.stmts ++ [.stmt ((a + codeSize ca : Nat) : Int) (.binary (S "assign") ((a + codeSize ca : Nat) : Int) (.leaf .localVar (.s n) pv) ra)])
      (jzStmt ((a + (codeSize ca + 2) + (2 + codeSize cb + 1) : Nat) : Int)
            (.binary (cmpName down) ((a + (codeSize ca + 2) + 2 + codeSize cb : Nat) : Int) (.leaf .localVar (.s n) pv) rb)
            (((a + (codeSize ca + 2) + (2 + codeSize cb + 1) : Nat) : Int) + ((3 + (CStmt.sizes cbody + 7) + 2 : Nat) : Int)) ::
          (emit false ((a + (codeSize ca + 2) + (2 + codeSize cb + 1) + 3 : Nat) : Int) (lower b') ++
          [.stmt ((a + (codeSize ca + 2) + (2 + codeSize cb + 1) + 3 + CStmt.sizes cbody + 5 : Nat) : Int)
            (.binary (S "assign") ((a + (codeSize ca + 2) + (2 + codeSize cb + 1) + 3 + CStmt.sizes cbody + 5 : Nat) : Int) (.leaf .localVar (.s n) pv)
              (.binary (S "add") ((a + (codeSize ca + 2) + (2 + codeSize cb + 1) + 3 + CStmt.sizes cbody + 4 : Nat) : Int)
                (.leaf .const (.s (stepStr down)) ((a + (codeSize ca + 2) + (2 + codeSize cb + 1) + 3 + CStmt.sizes cbody : Nat) : Int)) (.leaf .localVar (.s n) pv)))]))
      ((a + (codeSize ca + 2) : Nat) : Int) (by simp [List.append_assoc]) (by push_cast; omega)
      (AllS.append (AllS.mono hpos fun _ _ hh => by push_cast; omega) (AllS.cons (by push_cast; omega) AllS.nil))
      (AllS.append (allS_jz _ _ _ (by push_cast; omega)) (AllS.append (AllS.mono invb fun _ _ hh => by have := hh.1; push_cast at *; omega)
        (AllS.cons (by push_cast; omega) AllS.nil)))
    refine ⟨.loop (.with_ ⟨codeSize ca + 2, codeSize ca, .binary (S "assign") ((a + codeSize ca : Nat) : Int) (.leaf .localVar (.s n) pv) ra⟩
        ⟨7, 5, .binary (S "assign") ((a + (codeSize ca + 2) + (2 + codeSize cb + 1) + 3 + CStmt.sizes cbody + 5 : Nat) : Int) (.leaf .localVar (.s n) pv)
              (.binary (S "add") ((a + (codeSize ca + 2) + (2 + codeSize cb + 1) + 3 + CStmt.sizes cbody + 4 : Nat) : Int)
                (.leaf .const (.s (stepStr down)) ((a + (codeSize ca + 2) + (2 + codeSize cb + 1) + 3 + CStmt.sizes cbody : Nat) : Int)) (.leaf .localVar (.s n) pv))⟩)
        (2 + codeSize cb + 1) (.binary (cmpName down) ((a + (codeSize ca + 2) + 2 + codeSize cb : Nat) : Int) (.leaf .localVar (.s n) pv) rb) b',
      ⟨_, _, _, _, _, _, _, _, _, _, _, _, _, _, _, rfl, by simp only; omega, by simp only; omega, rfl, rfl,
        EmbH.toEmb _ _ _ hembA, EmbH.toEmb _ _ _ hembB, hembb⟩, ?_, gv2, (hgv0.trans hgv1).trans hgv2, ?_⟩
    · rw [size_with]
      simp only [CStmt.sizes, CStmt.size, hsi, hsc, hsp, hszb, codeSize_nil]
      omega
    · rw [layoutStmts_single, layoutStmt_with, hsi, hsc]
      rw [List.append_assoc _ _ [Instr.op2 0x54 _], List.append_assoc _ (layoutStmts _ cbody) _, List.append_assoc _ [Instr.op3 0x95 _] _,
        List.append_assoc (ca ++ [Instr.op2 0x52 (6 * j)])]
      have hc95 : codeSize (Instr.op2 0x4c (6 * j) :: (cb ++ [Instr.op1 (if down then BinOp.ge else BinOp.le).code]) ++
            [Instr.op3 0x95 (3 + (CStmt.sizes cbody + 7) + 2)]) = (2 + codeSize cb + 1) + 3 := by
        rw [codeSize_append, hsc]; simp [codeSize, Instr.size]
      have hcb2 : codeSize (layoutStmts (some (7 + 2)) cbody) = CStmt.sizes cbody := layoutStmts_size _ _
      dsimp only at hpre hjz hr2 hinc hbk
      rw [runIs_bind_ok hpre, hsp, ← List.append_assoc _ [Instr.op3 0x95 _], runIs_bind_ok hjz, hc95, ← Nat.add_assoc,
        runIs_bind_ok hr2, hcb2, runIs_bind_ok hinc, hsi, hbk]
      simp only [lower1, emit, emit1_simple, emit1_loop_raw, emit_append, List.append_nil, List.append_assoc, List.cons_append,
        List.nil_append, P.sizes, P.size, Drx.LinkFlow.sizes_append, hszb]
      exact stmts_congr st gv2 (cons_congr (stmt_congr _ (by push_cast; omega)) (cons_congr (rawLoop_congr (by push_cast; omega)
        (by push_cast; omega) (cons_congr (jzStmt_congr _ (by push_cast; omega) (by push_cast; omega))
          (append_congr (emit_congr _ _ (by push_cast; omega)) (cons_congr (stmt_congr _ (by push_cast; omega)) rfl)))) rfl))

/-! ### `repeat with v in l`: the peek protocol (list, count, counter on the stack) -/


/-- `repeat with v in l … end repeat`, `v` a local variable -/
theorem struct_inH (n : Spec.Name) (el : Expr) (body : List Stmt) (hfl : FragE el = true) (hbody : StructsH body) :
    Struct1H (.repeatIn (.var .loc n) el body) := by
  intro c hT s0 s1 cs h
  rw [lowerStmt] at h
  simp only [M_bind_ok, M_pure_ok, Prod.mk.injEq, lowerSet] at h
  obtain ⟨cl, sA, hcl, ic, sB, hic, cnt, sB', hcnt, ig, sC, hig, gat, sC', hgat, setv, sD, hset, cbody, sE, hcbody, rfl, rfl⟩ := h
  cases ho : c.localOff n with
  | none => rw [ho] at hset; simp [Spec.fail] at hset
  | some o =>
    rw [ho] at hset
    simp only [M_bind_ok, M_pure_ok, Prod.mk.injEq] at hset
    obtain ⟨c2, s2, hop2, rfl, rfl⟩ := hset
    obtain ⟨rfl, rfl, _⟩ := op2c_ok _ _ _ _ _ hop2
    obtain ⟨rfl, rfl, _⟩ := op2c_ok _ _ _ _ _ hcnt
    obtain ⟨rfl, rfl, _⟩ := op2c_ok _ _ _ _ _ hgat
    obtain ⟨j, hj, rfl⟩ := localOff_spec' c n o ho
    obtain ⟨eic, hgetc, _, _⟩ := nameIdx_ok _ _ _ _ hic
    obtain ⟨eig, hgetg, _, _⟩ := nameIdx_ok _ _ _ _ hig
    obtain ⟨e1, hopA, hrunA⟩ := stack_lemma el hfl c s0 _ cl hcl
    obtain ⟨e3, _, hopC, hrunC⟩ := hbody c hT _ _ cbody hcbody
    have hcs : ([CStmt.loop (cl ++ [Instr.op2 0x64 0, Instr.op2 0x43 1] ++ [Instr.op2 0x57 ic] ++ [Instr.op2 0x41 1])
        [Instr.op2 0x64 0, Instr.op2 0x64 2, Instr.op1 0x0d]
        ([Instr.op2 0x64 2, Instr.op2 0x64 1, Instr.op2 0x43 2] ++ [Instr.op2 0x57 ig] ++ [Instr.op2 0x52 (6 * j)]) cbody
        [Instr.op2 0x41 1, Instr.op1 0x05] [Instr.op2 0x65 3]] : List CStmt) =
        [CStmt.loop (cl ++ [Instr.op2 0x64 0, Instr.op2 0x43 1, Instr.op2 0x57 ic, Instr.op2 0x41 1])
          [Instr.op2 0x64 0, Instr.op2 0x64 2, Instr.op1 0x0d]
          [Instr.op2 0x64 2, Instr.op2 0x64 1, Instr.op2 0x43 2, Instr.op2 0x57 ig, Instr.op2 0x52 (6 * j)] cbody
          [Instr.op2 0x41 1, Instr.op1 0x05] [Instr.op2 0x65 3]] := by simp
    rw [hcs]
    have hsp : codeSize (cl ++ [Instr.op2 0x64 0, Instr.op2 0x43 1, Instr.op2 0x57 ic, Instr.op2 0x41 1]) = codeSize cl + 8 := by
      simp [codeSize_append, codeSize, Instr.size]
    have hsc : codeSize [Instr.op2 0x64 0, Instr.op2 0x64 2, Instr.op1 0x0d] = 5 := by simp [codeSize, Instr.size]
    have hsb : codeSize [Instr.op2 0x64 2, Instr.op2 0x64 1, Instr.op2 0x43 2, Instr.op2 0x57 ig, Instr.op2 0x52 (6 * j)] = 10 := by
      simp [codeSize, Instr.size]
    have hsi : codeSize [Instr.op2 0x41 1, Instr.op1 0x05] = 3 := by simp [codeSize, Instr.size]
    refine ⟨(((e1.trans eic).trans eig).trans e3), by simp, ?_, ?_⟩
    · intro te i hi
      rw [layoutStmts_single, layoutStmt_in] at hi
      simp only [List.mem_append, List.mem_cons, List.not_mem_nil, or_false] at hi
      rcases hi with ((((((((hi | hi | hi | hi | hi) | hi | hi | hi) | hi) | hi | hi | hi | hi | hi) | hi) | hi | hi) | hi) | hi)
      · exact hopA i hi
      all_goals first | exact hopC _ i hi | (subst hi; simp [Instr.opc])
    intro sF ctx hF hrel G hG hP te a st hb hgv hpos
    have hGa : ∀ g ∈ el.vars .glob, g ∈ G := fun g hg => hG g (by simp [Stmt.vars, Expr.vars, hg])
    have hGc : ∀ g ∈ Stmt.varsList .glob body, g ∈ G := fun g hg => hG g (by simp [Stmt.vars, hg])
    have hPc : ∀ v ∈ Stmt.varsList .prop body, ctx.props.contains v = true := fun v hv => hP v (by simp [Stmt.vars, hv])
    obtain ⟨pv, hlv⟩ := hrel.locals n j hj
    have hnc : ctx.names[ic]? = some (S "count") := by rw [hrel.names]; exact ((eig.trans e3).trans hF).name hgetc
    have hng : ctx.names[ig]? = some (S "getAt") := by rw [hrel.names]; exact (e3.trans hF).name hgetg
    -- prologue
    obtain ⟨ln, gv0, hembL, hgv0, hrL⟩ := hrunA sF ctx (((eic.trans eig).trans e3).trans hF) hrel G hGa a st hb hgv
    have hpre := run_in_pre ctx a ic cl st ln gv0 hnc hrL
    -- abbreviations for the protocol nodes
    generalize hK : Node.leaf .const (.s (S "1")) ((a + codeSize cl + 6 : Nat) : Int) = kn at hpre
    generalize hC : Node.callFn (.s (S "count")) ((a + codeSize cl + 4 : Nat) : Int) (.loadList (S "<load_list>") ((a + codeSize cl + 2 : Nat) : Int) [ln]) true false false .none = cn at hpre
    -- condition
    have hcnd := run_in_cnd ctx (a + (codeSize cl + 8)) { st with gvars := gv0, stack := (kn :: cn :: ln :: st.stack) } kn cn ln st.stack rfl
    have hjz := run_jz ctx (a + (codeSize cl + 8)) _ (3 + (10 + CStmt.sizes cbody + 3) + 2) _ _ gv0 hcnd
    rw [hsc] at hjz
    -- first statement of the body
    have hbp := run_in_bp ctx (a + (codeSize cl + 8) + 5 + 3) ig j
      { st with gvars := gv0, stack := (kn :: cn :: ln :: st.stack), stmts := (st.stmts ++
          [jzStmt ((a + (codeSize cl + 8) + 5 : Nat) : Int) (.binary (S "lte") ((a + (codeSize cl + 8) + 4 : Nat) : Int) kn cn)
            (((a + (codeSize cl + 8) + 5 : Nat) : Int) + ((3 + (10 + CStmt.sizes cbody + 3) + 2 : Nat) : Int))]) }
      hb (.leaf .localVar (.s n) pv) kn cn ln st.stack hng hlv rfl
    -- body
    have hpos1 : AllS (fun p _ => p < ((a + (codeSize cl + 8) + 5 + 3 + 10 : Nat) : Int))
        ((st.stmts ++ [jzStmt ((a + (codeSize cl + 8) + 5 : Nat) : Int) (.binary (S "lte") ((a + (codeSize cl + 8) + 4 : Nat) : Int) kn cn)
            (((a + (codeSize cl + 8) + 5 : Nat) : Int) + ((3 + (10 + CStmt.sizes cbody + 3) + 2 : Nat) : Int))]) ++
          [.stmt ((a + (codeSize cl + 8) + 5 + 3 + 8 : Nat) : Int) (.binary (S "assign") ((a + (codeSize cl + 8) + 5 + 3 + 8 : Nat) : Int) (.leaf .localVar (.s n) pv)
            (.callFn (.s (S "getAt")) ((a + (codeSize cl + 8) + 5 + 3 + 6 : Nat) : Int) (.loadList (S "<load_list>") ((a + (codeSize cl + 8) + 5 + 3 + 4 : Nat) : Int) [kn, ln]) true false false .none))]) :=
      AllS.append (AllS.append (AllS.mono hpos fun _ _ hh => by push_cast; omega) (allS_jz _ _ _ (by push_cast; omega)))
        (AllS.cons (by push_cast; omega) AllS.nil)
    obtain ⟨b', hembb, hszb, gv2, hgv2, hr2⟩ := hrunC sF ctx hF hrel G hGc hPc (some (3 + 2)) (a + (codeSize cl + 8) + 5 + 3 + 10)
      { st with gvars := gv0, stack := (kn :: cn :: ln :: st.stack), stmts := ((st.stmts ++
          [jzStmt ((a + (codeSize cl + 8) + 5 : Nat) : Int) (.binary (S "lte") ((a + (codeSize cl + 8) + 4 : Nat) : Int) kn cn)
            (((a + (codeSize cl + 8) + 5 : Nat) : Int) + ((3 + (10 + CStmt.sizes cbody + 3) + 2 : Nat) : Int))]) ++
          [.stmt ((a + (codeSize cl + 8) + 5 + 3 + 8 : Nat) : Int) (.binary (S "assign") ((a + (codeSize cl + 8) + 5 + 3 + 8 : Nat) : Int) (.leaf .localVar (.s n) pv)
            (.callFn (.s (S "getAt")) ((a + (codeSize cl + 8) + 5 + 3 + 6 : Nat) : Int) (.loadList (S "<load_list>") ((a + (codeSize cl + 8) + 5 + 3 + 4 : Nat) : Int) [kn, ln]) true false false .none))]) }
      hb hgv0.1 hpos1
    have hwfb := (embSrc_wf body b' (EmbSrcH.weaken _ _ _ hembb)).1
    have invb := emit_inv false ((a + (codeSize cl + 8) + 5 + 3 + 10 : Nat) : Int) (lower b') hwfb
    -- step
    have hinc := run_in_incr ctx (a + (codeSize cl + 8) + 5 + 3 + 10 + CStmt.sizes cbody)
      { st with gvars := gv2, stack := (kn :: cn :: ln :: st.stack), stmts := (((st.stmts ++
          [jzStmt ((a + (codeSize cl + 8) + 5 : Nat) : Int) (.binary (S "lte") ((a + (codeSize cl + 8) + 4 : Nat) : Int) kn cn)
            (((a + (codeSize cl + 8) + 5 : Nat) : Int) + ((3 + (10 + CStmt.sizes cbody + 3) + 2 : Nat) : Int))]) ++
          [.stmt ((a + (codeSize cl + 8) + 5 + 3 + 8 : Nat) : Int) (.binary (S "assign") ((a + (codeSize cl + 8) + 5 + 3 + 8 : Nat) : Int) (.leaf .localVar (.s n) pv)
            (.callFn (.s (S "getAt")) ((a + (codeSize cl + 8) + 5 + 3 + 6 : Nat) : Int) (.loadList (S "<load_list>") ((a + (codeSize cl + 8) + 5 + 3 + 4 : Nat) : Int) [kn, ln]) true false false .none))]) ++
          emit false ((a + (codeSize cl + 8) + 5 + 3 + 10 : Nat) : Int) (lower b')) }
      kn (cn :: ln :: st.stack) rfl
    -- back jump
    have hbk := run_back ctx (a + (codeSize cl + 8) + 5 + 3 + 10 + CStmt.sizes cbody + 3) (5 + 3 + (10 + CStmt.sizes cbody + 3))
      { st with gvars := gv2, stack := (.binary (S "add") ((a + (codeSize cl + 8) + 5 + 3 + 10 + CStmt.sizes cbody + 2 : Nat) : Int) kn
            (.leaf .const (.s (S "1")) ((a + (codeSize cl + 8) + 5 + 3 + 10 + CStmt.sizes cbody : Nat) : Int)) :: cn :: ln :: st.stack), stmts := (((st.stmts ++
          [jzStmt ((a + (codeSize cl + 8) + 5 : Nat) : Int) (.binary (S "lte") ((a + (codeSize cl + 8) + 4 : Nat) : Int) kn cn)
            (((a + (codeSize cl + 8) + 5 : Nat) : Int) + ((3 + (10 + CStmt.sizes cbody + 3) + 2 : Nat) : Int))]) ++
          [.stmt ((a + (codeSize cl + 8) + 5 + 3 + 8 : Nat) : Int) (.binary (S "assign") ((a + (codeSize cl + 8) + 5 + 3 + 8 : Nat) : Int) (.leaf .localVar (.s n) pv)
            (.callFn (.s (S "getAt")) ((a + (codeSize cl + 8) + 5 + 3 + 6 : Nat) : Int) (.loadList (S "<load_list>") ((a + (codeSize cl + 8) + 5 + 3 + 4 : Nat) : Int) [kn, ln]) true false false .none))]) ++
          emit false ((a + (codeSize cl + 8) + 5 + 3 + 10 : Nat) : Int) (lower b')) }
      st.stmts
      (jzStmt ((a + (codeSize cl + 8) + 5 : Nat) : Int) (.binary (S "lte") ((a + (codeSize cl + 8) + 4 : Nat) : Int) kn cn)
            (((a + (codeSize cl + 8) + 5 : Nat) : Int) + ((3 + (10 + CStmt.sizes cbody + 3) + 2 : Nat) : Int)) ::
        (.stmt ((a + (codeSize cl + 8) + 5 + 3 + 8 : Nat) : Int) (.binary (S "assign") ((a + (codeSize cl + 8) + 5 + 3 + 8 : Nat) : Int) (.leaf .localVar (.s n) pv)
            (.callFn (.s (S "getAt")) ((a + (codeSize cl + 8) + 5 + 3 + 6 : Nat) : Int) (.loadList (S "<load_list>") ((a + (codeSize cl + 8) + 5 + 3 + 4 : Nat) : Int) [kn, ln]) true false false .none)) ::
          emit false ((a + (codeSize cl + 8) + 5 + 3 + 10 : Nat) : Int) (lower b')))
      ((a + (codeSize cl + 8) : Nat) : Int) (by simp [List.append_assoc]) (by push_cast; omega)
      (AllS.mono hpos fun _ _ hh => by push_cast; omega)
      (AllS.append (allS_jz _ _ _ (by push_cast; omega)) (AllS.cons (by push_cast; omega)
        (AllS.mono invb fun _ _ hh => by have := hh.1; push_cast at *; omega)))
    -- epilogue
    have hpost := run_in_post ctx (a + (codeSize cl + 8) + 5 + 3 + 10 + CStmt.sizes cbody + 3 + 2)
      { st with gvars := gv2, stack := (.binary (S "add") ((a + (codeSize cl + 8) + 5 + 3 + 10 + CStmt.sizes cbody + 2 : Nat) : Int) kn
            (.leaf .const (.s (S "1")) ((a + (codeSize cl + 8) + 5 + 3 + 10 + CStmt.sizes cbody : Nat) : Int)) :: cn :: ln :: st.stack), stmts := (st.stmts ++ [.stmt ((a + (codeSize cl + 8) + 5 + 3 + 10 + CStmt.sizes cbody + 3 : Nat) : Int)
            (rawLoop ((a + (codeSize cl + 8) : Nat) : Int) ((a + (codeSize cl + 8) + 5 + 3 + 10 + CStmt.sizes cbody + 3 : Nat) : Int)
              (jzStmt ((a + (codeSize cl + 8) + 5 : Nat) : Int) (.binary (S "lte") ((a + (codeSize cl + 8) + 4 : Nat) : Int) kn cn)
                (((a + (codeSize cl + 8) + 5 : Nat) : Int) + ((3 + (10 + CStmt.sizes cbody + 3) + 2 : Nat) : Int)) ::
              (.stmt ((a + (codeSize cl + 8) + 5 + 3 + 8 : Nat) : Int) (.binary (S "assign") ((a + (codeSize cl + 8) + 5 + 3 + 8 : Nat) : Int) (.leaf .localVar (.s n) pv)
                (.callFn (.s (S "getAt")) ((a + (codeSize cl + 8) + 5 + 3 + 6 : Nat) : Int) (.loadList (S "<load_list>") ((a + (codeSize cl + 8) + 5 + 3 + 4 : Nat) : Int) [kn, ln]) true false false .none)) ::
              emit false ((a + (codeSize cl + 8) + 5 + 3 + 10 : Nat) : Int) (lower b'))))]) }
      _ cn ln st.stack rfl
    subst hK hC
    refine ⟨.loop (.in_ (codeSize cl + 8)
        ⟨10, 8, .binary (S "assign") ((a + (codeSize cl + 8) + 5 + 3 + 8 : Nat) : Int) (.leaf .localVar (.s n) pv)
            (.callFn (.s (S "getAt")) ((a + (codeSize cl + 8) + 5 + 3 + 6 : Nat) : Int) (.loadList (S "<load_list>") ((a + (codeSize cl + 8) + 5 + 3 + 4 : Nat) : Int)
              [.leaf .const (.s (S "1")) ((a + codeSize cl + 6 : Nat) : Int), ln]) true false false .none)⟩ 3 2) 5
        (.binary (S "lte") ((a + (codeSize cl + 8) + 4 : Nat) : Int) (.leaf .const (.s (S "1")) ((a + codeSize cl + 6 : Nat) : Int))
          (.callFn (.s (S "count")) ((a + codeSize cl + 4 : Nat) : Int) (.loadList (S "<load_list>") ((a + codeSize cl + 2 : Nat) : Int) [ln]) true false false .none)) b',
      ⟨_, _, _, _, _, _, _, _, _, _, _, _, _, _, _, rfl, by simp only; omega, rfl, EmbH.toEmb _ _ _ hembL, hembb⟩, ?_, gv2, hgv0.trans hgv2, ?_⟩
    · rw [size_in]
      simp only [CStmt.sizes, CStmt.size, hsi, hsc, hsp, hsb, hszb]
      simp [codeSize, Instr.size]
      omega
    · rw [layoutStmts_single, layoutStmt_in, hsb, hsi, hsc]
      have hc95 : codeSize ([Instr.op2 0x64 0, Instr.op2 0x64 2, Instr.op1 0x0d] ++ [Instr.op3 0x95 (3 + (10 + CStmt.sizes cbody + 3) + 2)]) = 5 + 3 := by
        simp [codeSize, Instr.size]
      have hcb2 : codeSize (layoutStmts (some (3 + 2)) cbody) = CStmt.sizes cbody := layoutStmts_size _ _
      have hc54 : codeSize [Instr.op2 0x54 (5 + 3 + (10 + CStmt.sizes cbody + 3))] = 2 := by simp [codeSize, Instr.size]
      have hcode : cl ++ [Instr.op2 0x64 0, Instr.op2 0x43 1, Instr.op2 0x57 ic, Instr.op2 0x41 1] ++ [Instr.op2 0x64 0, Instr.op2 0x64 2, Instr.op1 0x0d] ++
            [Instr.op3 0x95 (3 + (10 + CStmt.sizes cbody + 3) + 2)] ++
            [Instr.op2 0x64 2, Instr.op2 0x64 1, Instr.op2 0x43 2, Instr.op2 0x57 ig, Instr.op2 0x52 (6 * j)] ++ layoutStmts (some (3 + 2)) cbody ++
            [Instr.op2 0x41 1, Instr.op1 0x05] ++ [Instr.op2 0x54 (5 + 3 + (10 + CStmt.sizes cbody + 3))] ++ [Instr.op2 0x65 3] =
          (cl ++ [Instr.op2 0x64 0, Instr.op2 0x43 1, Instr.op2 0x57 ic, Instr.op2 0x41 1]) ++
            (([Instr.op2 0x64 0, Instr.op2 0x64 2, Instr.op1 0x0d] ++ [Instr.op3 0x95 (3 + (10 + CStmt.sizes cbody + 3) + 2)]) ++
              ([Instr.op2 0x64 2, Instr.op2 0x64 1, Instr.op2 0x43 2, Instr.op2 0x57 ig, Instr.op2 0x52 (6 * j)] ++
                (layoutStmts (some (3 + 2)) cbody ++ ([Instr.op2 0x41 1, Instr.op1 0x05] ++
                  ([Instr.op2 0x54 (5 + 3 + (10 + CStmt.sizes cbody + 3))] ++ [Instr.op2 0x65 3]))))) := by
        simp only [List.append_assoc]
      rw [hcode]
      dsimp only at hpre hjz hbp hr2 hinc hbk hpost
      rw [runIs_bind_ok hpre, hsp, runIs_bind_ok hjz, hc95, ← Nat.add_assoc, runIs_bind_ok hbp, hsb, runIs_bind_ok hr2, hcb2,
        runIs_bind_ok hinc, hsi, runIs_bind_ok hbk, hc54, hpost]
      simp only [lower1, emit, emit1, emit1_simple, emit1_loop_raw, emit_append, List.append_nil, List.nil_append, List.append_assoc, List.cons_append,
        P.sizes, P.size, Drx.LinkFlow.sizes_append, hszb, Bool.false_eq_true, if_false]
      exact stmts_congr st gv2 (cons_congr (rawLoop_congr (by push_cast; omega) (by push_cast; omega)
        (cons_congr (jzStmt_congr _ (by push_cast; omega) (by push_cast; omega))
          (cons_congr (stmt_congr' _ (by push_cast; omega)) (emit_congr _ _ (by push_cast; omega))))) rfl)



/-! ### all structured statements of the fragment -/

theorem structs_nilH : StructsH [] := by
  intro c hT s0 s1 cs h
  rw [lowerStmts] at h
  simp only [M_pure_ok, Prod.mk.injEq] at h
  obtain ⟨rfl, rfl⟩ := h
  refine ⟨Ext.refl _, rfl, by simp [layoutStmts], ?_⟩
  intro sF ctx _ _ G _ _ te a st _ hgv _
  exact ⟨[], rfl, by simp [lower, P.sizes, CStmt.sizes], st.gvars, GvNext.refl hgv, by simp [layoutStmts, runIs, lower, emit]⟩

theorem struct1_simpleH (s : Stmt) (hf : FragS s = true) (h1 : ∀ c t e, s ≠ .ifThen c t e) (h2 : ∀ c b, s ≠ .repeatWhile c b)
    (h3 : ∀ v a b d body, s ≠ .repeatWith v a b d body) (h4 : ∀ v l body, s ≠ .repeatIn v l body) : Struct1H s :=
  fun c hT s0 s1 cs h => struct_simpleH s hf h1 h2 h3 h4 c hT s0 s1 cs h

mutual
/-- **the structured stack lemma**, for every statement of the fragment -/
theorem struct1_allH : (s : Stmt) → FragT s = true → Struct1H s
  | .ifThen c t e, h => by
    simp only [FragT, Bool.and_eq_true] at h
    exact struct_ifH c t e h.1.1 (structs_allH t h.1.2) (structs_allH e h.2)
  | .repeatWhile c b, h => by
    simp only [FragT, Bool.and_eq_true] at h
    exact struct_whileH c b h.1.1 (structs_allH b h.2)
  | .repeatWith (.var .loc v) a b down body, h => by
    simp only [FragT, Bool.and_eq_true] at h
    exact struct_withH v a b down body h.1.1.2 h.1.2 (structs_allH body h.2)
  | .set lv v, h => struct1_simpleH _ (by simp only [FragT, Bool.and_eq_true] at h; exact h.1) (by intros; simp) (by intros; simp) (by intros; simp) (by intros; simp)
  | .call f as, h => struct1_simpleH _ (by simpa [FragT] using h) (by intros; simp) (by intros; simp) (by intros; simp) (by intros; simp)
  | .exit, _ => struct1_simpleH _ rfl (by intros; simp) (by intros; simp) (by intros; simp) (by intros; simp)
  | .put m v lv, h => struct1_simpleH _ (by simpa [FragT] using h) (by intros; simp) (by intros; simp) (by intros; simp) (by intros; simp)
  | .delete t, h => struct1_simpleH _ (by simpa [FragT] using h) (by intros; simp) (by intros; simp) (by intros; simp) (by intros; simp)
  | .hilite t, h => struct1_simpleH _ (by simpa [FragT] using h) (by intros; simp) (by intros; simp) (by intros; simp) (by intros; simp)
  | .mcall o m as, h => struct1_simpleH _ (by simpa [FragT] using h) (by intros; simp) (by intros; simp) (by intros; simp) (by intros; simp)
  | .tell .., h => by
    first
      | (simp [FragT] at h; done)
      | exact struct1_simpleH _ (by simpa [FragT] using h) (by intros; simp) (by intros; simp) (by intros; simp) (by intros; simp)
  | .repeatIn (.var .loc v) l body, h => by
    simp only [FragT, Bool.and_eq_true] at h
    exact struct_inH v l body h.1.2 (structs_allH body h.2)
  | .repeatIn (.int _) .., h => by simp [FragT] at h
  | .exitRepeat, h => by
    first
      | (simp [FragT] at h; done)
      | exact struct1_simpleH _ (by simpa [FragT] using h) (by intros; simp) (by intros; simp) (by intros; simp) (by intros; simp)
  | .repeatWith (.int _) .., h => by simp [FragT] at h
theorem structs_allH : (ss : List Stmt) → FragTs ss = true → StructsH ss
  | [], _ => structs_nilH
  | s :: ss, h => by
    simp only [FragTs, Bool.and_eq_true] at h
    exact structs_consH s ss (struct1_allH s h.1) (structs_allH ss h.2)
end



/-! ### bytes → the TRACKED nested tree -/

open Drx.LinkJs in
/-- a simple statement at another position -/
theorem embSJ_pos (hs : List Spec.Name) (s : Stmt) (hf : JsOkS s = true) (p p' : Int) (c : Node) (h : EmbSH hs s (.stmt p c)) :
    EmbSJ hs s (.stmt p' c) := by
  cases s with
  | set lv v =>
    obtain ⟨p0, q, l, r, he, h1, h2⟩ := h
    cases he
    simp only [EmbSJ]
    exact ⟨p', q, l, r, rfl, h1, EmbH.toEmb hs v r h2⟩
  | call f as =>
    obtain ⟨p0, q, q', ops, he, h1⟩ := h
    cases he
    simp only [EmbSJ]
    exact ⟨p', q, q', ops, rfl, EmbLH.toEmbL hs as ops h1⟩
  | exit =>
    obtain ⟨p0, q, he⟩ := h
    cases he
    simp only [EmbSJ]
    exact ⟨p', q, rfl⟩
  | put m v lv =>
    obtain ⟨p0, q, l, r, he, h1, h2⟩ := h
    cases he
    simp only [EmbSJ]
    exact ⟨p', q, l, r, rfl, h1, EmbH.toEmb hs v r h2⟩
  | mcall o m as =>
    obtain ⟨p0, q, q', ps, rc, ops, nm, hnm, he, h1, h2⟩ := h
    cases he
    simp only [EmbSJ]
    exact ⟨p', q, q', ps, rc, ops, nm, hnm, rfl, EmbLH.toEmbL hs as ops h1, h2⟩
  | delete t =>
    obtain ⟨p0, q, l, he, h1⟩ := h
    cases he
    simp only [EmbSJ, EmbSH]
    exact ⟨p', q, l, rfl, h1⟩
  | hilite t =>
    obtain ⟨p0, q, l, he, h1⟩ := h
    cases he
    simp only [EmbSJ, EmbSH]
    exact ⟨p', q, l, rfl, h1⟩
  | _ => simp [JsOkS] at hf

open Drx.LinkJs in
mutual
/-- the final tree of a tracked skeleton is the tracked image `EmbSJ` of the source statement (cf. `LinkFlow.embT_tgtL1`) -/
theorem embSJ_tgtL1 (hs : List Spec.Name) : (s : Stmt) → JsOkT s = true → (x : Src) → EmbSrc1H hs s x → ∀ (o : Int),
    ∃ n, tgtL1 o x = [n] ∧ EmbSJ hs s n
  | .ifThen c t e, hf, x, h, o => by
    obtain ⟨csz, cn, t', e', rfl, hc, ht, he⟩ := h
    simp only [JsOkT, Bool.and_eq_true] at hf
    refine ⟨_, rfl, ?_⟩
    simp only [EmbSJ]
    exact ⟨_, _, _, _, _, rfl, hc, embSsJ_tgtL hs t hf.1.2 t' ht _, embSsJ_tgtL hs e hf.2 e' he _⟩
  | .repeatWhile c b, hf, x, h, o => by
    obtain ⟨csz, cn, b', rfl, hc, hb⟩ := h
    simp only [JsOkT, Bool.and_eq_true] at hf
    refine ⟨_, rfl, ?_⟩
    simp only [EmbSJ]
    exact ⟨_, _, _, _, _, rfl, hc, embSsJ_tgtL hs b hf.2 b' hb _⟩
  | .repeatWith (.var .loc v) a b down body, hf, x, h, o => by
    obtain ⟨pre, incr, csz, body', p1, p2, p3, p4, p5, pv1, pv2, pv3, pv4, ra, rb, rfl, ho1, ho2, hc1, hc2, ha, hb, hbody⟩ := h
    simp only [JsOkT, Bool.and_eq_true] at hf
    have hparts := withParts_emb v down p1 p2 p3 p4 p5 pv1 pv2 pv3 pv4 ra rb
    rw [← hc1, ← hc2] at hparts
    simp only [tgtL1, hparts]
    simp only [cmpName]
    refine ⟨_, rfl, ?_⟩
    simp only [EmbSJ]
    exact ⟨_, _, _, _, _, _, _, _, _, rfl, ha, hb, embSsJ_tgtL hs body hf.2 body' hbody _⟩
  | .set lv v, hf, x, h, o => by
    obtain ⟨sm, p, rfl, _, he, _⟩ := h
    simp only [JsOkT] at hf
    exact ⟨_, rfl, embSJ_pos hs _ hf p _ _ he⟩
  | .call f as, hf, x, h, o => by
    obtain ⟨sm, p, rfl, _, he, _⟩ := h
    simp only [JsOkT] at hf
    exact ⟨_, rfl, embSJ_pos hs _ hf p _ _ he⟩
  | .exit, hf, x, h, o => by
    obtain ⟨sm, p, rfl, _, he, _⟩ := h
    exact ⟨_, rfl, embSJ_pos hs _ rfl p _ _ he⟩
  | .put m v lv, hf, x, h, o => by
    obtain ⟨sm, p, rfl, _, he, _⟩ := h
    simp only [JsOkT] at hf
    exact ⟨_, rfl, embSJ_pos hs _ hf p _ _ he⟩
  | .delete t, hf, x, h, o => by
    obtain ⟨sm, p, rfl, _, he, _⟩ := h
    simp only [JsOkT] at hf
    exact ⟨_, rfl, embSJ_pos hs _ hf p _ _ he⟩
  | .hilite t, hf, x, h, o => by
    obtain ⟨sm, p, rfl, _, he, _⟩ := h
    simp only [JsOkT] at hf
    exact ⟨_, rfl, embSJ_pos hs _ hf p _ _ he⟩
  | .mcall om m as, hf, x, h, o => by
    obtain ⟨sm, p, rfl, _, he, _⟩ := h
    simp only [JsOkT] at hf
    exact ⟨_, rfl, embSJ_pos hs _ hf p _ _ he⟩
  | .tell .., hf, _, _, _ => by simp [JsOkT] at hf
  | .repeatIn (.var .loc v) l body, hf, x, h, o => by
    obtain ⟨presz, bp, incrsz, postsz, csz, body', pb, pk, pc, pl, ps, pg, pl2, pv, ln, rfl, ho, hc, hl, hb⟩ := h
    simp only [JsOkT, Bool.and_eq_true] at hf
    have hparts := inParts_emb l ln hl v pb pk pc pl ps pg pl2 pv
    rw [← hc] at hparts
    simp only [tgtL1, hparts]
    refine ⟨_, rfl, ?_⟩
    simp only [EmbSJ]
    exact ⟨_, _, _, _, _, _, _, _, _, _, rfl, hl, embSsJ_tgtL hs body hf.2 body' hb _⟩
  | .repeatIn (.int _) .., hf, _, _, _ => by simp [JsOkT] at hf
  | .exitRepeat, hf, _, _, _ => by simp [JsOkT] at hf
  | .repeatWith (.int _) .., hf, _, _, _ => by simp [JsOkT] at hf
theorem embSsJ_tgtL (hs : List Spec.Name) : (ss : List Stmt) → JsOkTs ss = true → (xs : List Src) → EmbSrcH hs ss xs → ∀ (o : Int),
    EmbSsJ hs ss (tgtL o xs)
  | [], _, xs, h, o => by
    have : xs = [] := h
    subst this
    simp [tgtL, EmbSsJ]
  | s :: ss, hf, xs, h, o => by
    obtain ⟨y, ys, rfl, h1, h2⟩ := h
    simp only [JsOkTs, Bool.and_eq_true] at hf
    obtain ⟨n, hn, hT⟩ := embSJ_tgtL1 hs s hf.1 y h1 o
    rw [tgtL_cons, hn]
    simp only [EmbSsJ]
    exact ⟨n, _, rfl, hT, embSsJ_tgtL hs ss hf.2 ys h2 _⟩
end

/-- raw statements of a structured handler body, tracked -/
def BsrcH (hs : List Spec.Name) (h : Handler) (a len : Nat) (raw : List Node) : Prop :=
  ∃ src, EmbSrcH hs h.body src ∧ P.sizes (lower src) = len ∧ raw = emit false (a : Int) (lower src)

/-- final statements of a handler: the tracked image of its (flat or structured) body -/
def FJ (hs : List Spec.Name) (h : Handler) (fin : List Node) : Prop := Drx.LinkJs.EmbSsJ hs h.body fin

theorem bodyRun_srcH (hnames : List Spec.Name) (h : Handler) (hf : FragTs h.body = true) : BodyRun (BsrcH hnames) hnames h := by
  intro s0 s1 cs hcs
  obtain ⟨e, _, hop, hrun⟩ := structs_allH h.body hf (hctx hnames h) rfl s0 s1 cs hcs
  refine ⟨e, hop none, ?_⟩
  intro sF ctx hF hrel G hG hP a st hb hgv hst
  obtain ⟨src, hemb, hsz, gv', hgv', hr⟩ := hrun sF ctx hF hrel G hG hP none a st hb hgv (by rw [hst]; exact AllS.nil)
  have hlen : codeSize (layoutStmts none cs) = CStmt.sizes cs := layoutStmts_size _ _
  refine ⟨emit false (a : Int) (lower src), gv', ⟨src, hemb, by rw [hsz, hlen], rfl⟩, ?_, hgv', ?_⟩
  · intro x hx
    obtain ⟨p, c, rfl, hp⟩ := emit_inv false (a : Int) (lower src) (embSrc_wf h.body src (EmbSrcH.weaken _ _ _ hemb)).1 x hx
    have h1 := hp.1; have h2 := hp.2.1
    rw [hlen, ← hsz]
    simp only [Node.pos]
    constructor
    · exact h1
    · push_cast; exact h2
  · rw [hr, hst, List.nil_append]

theorem flowOk_srcH (hs : List Spec.Name) (h : Handler) (hfr : FragTs h.body = true) (hok : okAmbs false h.body = true)
    (hj : Drx.LinkJs.JsOkTs h.body = true) : FlowOk (BsrcH hs) (FJ hs) h := by
  intro a len raw hB _
  obtain ⟨src, hemb, hsz, rfl⟩ := hB
  have := flow_core h.body src hfr (EmbSrcH.weaken _ _ _ hemb) hok a ((a : Int) + (P.sizes (lower src) : Int))
  have e : ((a + len : Nat) : Int) = (a : Int) + (P.sizes (lower src) : Int) := by rw [hsz]; push_cast; rfl
  rw [e]
  exact ⟨tgtL (a : Int) src, this, embSsJ_tgtL hs h.body hj src hemb _⟩

/-! ### whole scripts: every handler flat or structured -/

/-- a handler of the composed JavaScript theorem (byte level): an `on` handler whose body is flat (agent-link's `FragSs`) or
    structured (agent-link-flow's `FragTs` without the one ambiguity `okAmbs`), properties declared at script level -/
def FragHJ (s : Spec.Script) (h : Handler) : Bool :=
  !h.isMethod && (FragSs h.body || (FragTs h.body && okAmbs false h.body)) &&
    (Stmt.varsList .prop h.body).all (fun v => s.props.contains v)

/-- the mixed body semantics, tracked -/
def BmixH (hs : List Spec.Name) (h : Handler) (a len : Nat) (raw : List Node) : Prop :=
  if FragSs h.body = true then B₀ hs h a len raw else BsrcH hs h a len raw

theorem bodyRun_mixH (hnames : List Spec.Name) (h : Handler) (hf : FragSs h.body = true ∨ FragTs h.body = true) :
    BodyRun (BmixH hnames) hnames h := by
  by_cases hb : FragSs h.body = true
  · have := bodyRun₀ hnames h hb
    intro s0 s1 cs hcs
    obtain ⟨e, hop, hrun⟩ := this s0 s1 cs hcs
    refine ⟨e, hop, ?_⟩
    intro sF ctx hF hrel G hG hP a st hb' hgv hst
    obtain ⟨raw, gv', hB, hpos, hgv', hr⟩ := hrun sF ctx hF hrel G hG hP a st hb' hgv hst
    exact ⟨raw, gv', by simp only [BmixH, hb, if_true]; exact hB, hpos, hgv', hr⟩
  · have hT : FragTs h.body = true := by rcases hf with hf | hf; exact absurd hf hb; exact hf
    have := bodyRun_srcH hnames h hT
    intro s0 s1 cs hcs
    obtain ⟨e, hop, hrun⟩ := this s0 s1 cs hcs
    refine ⟨e, hop, ?_⟩
    intro sF ctx hF hrel G hG hP a st hb' hgv hst
    obtain ⟨raw, gv', hB, hpos, hgv', hr⟩ := hrun sF ctx hF hrel G hG hP a st hb' hgv hst
    exact ⟨raw, gv', by simp only [BmixH, hb, if_false]; exact hB, hpos, hgv', hr⟩

theorem flowOk_mixH (hs : List Spec.Name) (h : Handler)
    (hf : FragSs h.body = true ∨ (FragTs h.body = true ∧ okAmbs false h.body = true)) (hj : Drx.LinkJs.JsOkTs h.body = true) :
    FlowOk (BmixH hs) (FJ hs) h := by
  by_cases hb : FragSs h.body = true
  · intro a len raw hB hpos
    simp only [BmixH, hb, if_true] at hB
    obtain ⟨fin, hfl, hF⟩ := flowOk₀ hs h a len raw hB hpos
    exact ⟨fin, hfl, Drx.LinkJs.embSsH_J hs h.body fin hF⟩
  · have hT : FragTs h.body = true ∧ okAmbs false h.body = true := by rcases hf with hf | hf; exact absurd hf hb; exact hf
    intro a len raw hB hpos
    simp only [BmixH, hb, if_false] at hB
    exact flowOk_srcH hs h hT.1 hT.2 hj a len raw hB hpos

theorem fragHJ_spec (s : Spec.Script) (h : Handler) (hf : FragHJ s h = true) :
    h.isMethod = false ∧ (FragSs h.body = true ∨ (FragTs h.body = true ∧ okAmbs false h.body = true)) ∧
      ∀ v ∈ Stmt.varsList .prop h.body, v ∈ s.props := by
  simp only [FragHJ, Bool.and_eq_true, Bool.or_eq_true, Bool.not_eq_true', List.all_eq_true, List.contains_iff_mem] at hf
  exact ⟨hf.1.1, hf.1.2, hf.2⟩

open Drx.LinkJs in
/-- **bytes → tracked tree** for scripts whose handlers are flat or structured: `parseScript` on the compiled chunks succeeds and
    the tree is related to the source by the relation the JavaScript wrappers read (`ScriptRelJ`: names, parameters, locals, and
    every handler's statements = the tracked image `EmbSsJ` of its body followed by the final `exit`) -/
theorem parse_mixedJ (o : Options) (s : Spec.Script) (c : Compiled) (hfac : s.factory = [])
    (hH : ∀ h ∈ s.handlers, FragHJ s h = true ∧ JsOkTs h.body = true) (hcmp : compile o s = .ok c)
    (hasc : ∀ n ∈ c.names, asciiName n = true) (hlen : c.names.length < 32768) :
    ∃ t, Lscr.parseScript c.lscr c.lnam = .ok t ∧ ScriptRelJ s t ∧ t.scrNum = toSigned 16 (o.scrNum % 65536) := by
  obtain ⟨t, ht, hrel, hnum⟩ := parse_linkg (BmixH (s.handlers.map (·.name))) (FJ (s.handlers.map (·.name))) o s c hfac (fun h hh => by
    obtain ⟨hm, hor, hp⟩ := fragHJ_spec s h (hH h hh).1
    exact ⟨bodyRun_mixH _ h (hor.imp id (·.1)), flowOk_mixH _ h hor (hH h hh).2, hm, hp⟩) hcmp hasc hlen
  refine ⟨t, ht, ⟨hrel.props, hrel.fac, ?_⟩, hnum⟩
  have := hrel.funcs
  generalize s.handlers.map (·.name) = hn at this
  generalize s.handlers = hl at this
  generalize t.functions = fs at this
  induction this with
  | nil => exact Rel2.nil
  | cons hr _ ih =>
    obtain ⟨fin, p, q, hst, hF⟩ := hr.stmts
    exact Rel2.cons ⟨hr.name, leaves_bridge hr.params, leaves_bridge hr.locals, fin, p, q, hst, hF⟩ ih

end Drx.LinkFlowH

namespace Drx.LinkJs
open Drx Drx.Lscr Drx.Spec Drx.Link Drx.LinkFlow Drx.LinkFlowH

/-- scripts of the composed theorem for flat AND structured handler bodies (decidable): no factory, every handler in `FragHJ`
    (byte level) and in `JsOkH` (JavaScript level) -/
def JsLinkScriptT (s : Spec.Script) : Bool := s.factory.isEmpty && s.handlers.all (FragHJ s) && JsOkHs s.handlers

theorem jsOkHs_mem : ∀ (l : List Handler), JsOkHs l = true → ∀ x ∈ l, JsOkH x = true := by
  intro l; induction l with
  | nil => intro _ x hx; cases hx
  | cons a as ih =>
    intro hl x hx
    simp only [JsOkHs, Bool.and_eq_true] at hl
    rcases List.mem_cons.mp hx with rfl | hx
    · exact hl.1
    · exact ih hl.2 x hx

/-- **C04 on the structured fragment, model-instantiated**: flat and structured handlers, plain and property scripts -/
theorem js_link_all (o : Options) (s : Spec.Script) (c : Compiled) (hf : JsLinkScriptT s = true) (hnum : o.scrNum < 32768)
    (hcmp : compile o s = .ok c) (hasc : ∀ n ∈ c.names, asciiName n = true) (hlen : c.names.length < 32768) :
    ∃ text, modelGenJs c.lscr c.lnam = some text ∧ readJs text = some (toJs o.scrNum s) := by
  simp only [JsLinkScriptT, Bool.and_eq_true, List.all_eq_true, List.isEmpty_iff] at hf
  obtain ⟨⟨hfac, hfrag⟩, hok⟩ := hf
  obtain ⟨t, hp, hr, hsn⟩ := parse_mixedJ o s c hfac (fun h hh => ⟨hfrag h hh, by
    have := jsOkHs_mem _ hok h hh
    simp only [JsOkH, Bool.and_eq_true] at this
    exact this.2⟩) hcmp hasc hlen
  have hres : ∃ text, jsText t = .ok text ∧ readJs text = some (toJs o.scrNum s) := by
    by_cases hprops : s.props = []
    · exact jsText_plain o.scrNum s t hr hfac hprops hok
    · exact jsText_class o.scrNum s t hr hfac hprops hok (by rw [hsn, toSigned16_small _ hnum])
  obtain ⟨text, h1, h2⟩ := hres
  refine ⟨text, ?_, h2⟩
  simp only [modelGenJs, hp, genJs, h1]

/-- the flat fragment of `C04_link` lies inside -/
theorem jsLinkScript_T (s : Spec.Script) (hf : JsLinkScript s = true) : JsLinkScriptT s = true := by
  simp only [JsLinkScript, Bool.and_eq_true] at hf
  obtain ⟨hfrag, hok⟩ := hf
  simp only [FragScript, Bool.and_eq_true, List.all_eq_true, List.isEmpty_iff] at hfrag
  simp only [JsLinkScriptT, Bool.and_eq_true, List.all_eq_true, List.isEmpty_iff]
  refine ⟨⟨hfrag.1.1.1, ?_⟩, hok⟩
  intro h hh
  have := hfrag.2 h hh
  simp only [FragH, Bool.and_eq_true, Bool.not_eq_true', List.all_eq_true] at this
  simp only [FragHJ, Bool.and_eq_true, Bool.or_eq_true, Bool.not_eq_true', List.all_eq_true]
  exact ⟨⟨this.1.1.1.1.1, Or.inl this.1.1.2⟩, this.1.2⟩

end Drx.LinkJs
