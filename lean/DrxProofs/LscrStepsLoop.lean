/-
  Bounds for the counting twins, part 2: loop_detect_in_statements (Drx/Lscr/Steps.lean `loopDetectS`/`loopWalkS`).
  The pass is LINEAR in rounds: every statement of the tree is visited once, every loop removes at most one statement.
-/
import DrxProofs.LscrSteps
namespace Drx.Lscr.Steps
open Drx Drx.Gen Drx.Lscr

theorem removeRounds_le (l xs : List Node) : removeRounds l xs ≤ xs.length := by
  induction xs generalizing l with
  | nil => simp [removeRounds]
  | cons x xs ih =>
    unfold removeRounds
    split
    · simp
    · rename_i l' _; have := ih l'; simp only [List.length_cons]; omega

theorem weightList_length_le (l : List Node) : l.length ≤ weightList l := by
  induction l with
  | nil => simp [weightList]
  | cons x xs ih => have := Node.weight_pos x; simp only [List.length_cons, weightList]; omega

/-- motive for `loopWalkS`: rounds + list length ≤ 2·weight, and at most one statement per element is scheduled for removal -/
def WalkOk (stmts : List Node) (prev : Option Node) : Prop :=
  (loopWalkS stmts prev).1 + stmts.length ≤ 2 * weightList stmts ∧
  ∀ l rem, (loopWalkS stmts prev).2 = .ok (l, rem) → rem.length ≤ stmts.length

theorem loop_bounds : (∀ stmts, (loopDetectS stmts).1 ≤ 2 * weightList stmts) ∧ (∀ stmts prev, WalkOk stmts prev) := by
  apply loopDetectS.mutual_induct (motive1 := fun stmts => (loopDetectS stmts).1 ≤ 2 * weightList stmts)
    (motive2 := fun stmts prev => WalkOk stmts prev)
  · -- loopDetectS, walk failed
    intro stmts w e he ih
    rw [loopDetectS]
    simp only [show loopWalkS stmts none = w from rfl, he]
    have := ih.1
    have e1 : w.1 = (loopWalkS stmts none).1 := rfl
    omega
  · intro stmts w l rem hw ih
    rw [loopDetectS]
    simp only [show loopWalkS stmts none = w from rfl, hw]
    have h1 := ih.1
    have h2 := ih.2 l rem hw
    have := removeRounds_le l rem
    have e1 : w.1 = (loopWalkS stmts none).1 := rfl
    omega
  · intro prev
    constructor
    · rw [loopWalkS]; simp [weightList]
    · intro l rem h; rw [loopWalkS] at h; simp at h; simp [h.2.symm]
  · -- repeat, rewrite failed
    intro prev rest p rp re c body t s v sg vr e he
    have hw := Node.weight_pos (Node.stmt p (Node.repeat_ rp re c body t s v sg vr))
    have hl := weightList_length_le rest
    constructor
    · rw [loopWalkS]; simp only [he, weightList, List.length_cons]; omega
    · intro l rem h; rw [loopWalkS] at h; simp only [he] at h; cases h
  · -- repeat, nested loopDetect failed
    intro prev rest p rp re c body t s v sg vr r rm he hle b a hb ih
    have hl := weightList_length_le rest
    constructor
    · rw [loopWalkS]
      simp only [he, hle, dite_true, show loopDetectS r.stmts = b from rfl, hb, weightList, Node.weight, List.length_cons]
      have : b.1 ≤ 2 * weightList r.stmts := ih
      omega
    · intro l rem h; rw [loopWalkS] at h
      simp only [he, hle, dite_true, show loopDetectS r.stmts = b from rfl, hb] at h; cases h
  · -- repeat, ok
    intro prev rest p rp re c body t s v sg vr r rm he hle b l' hb st' ih1 ih2
    constructor
    · rw [loopWalkS]
      simp only [he, hle, dite_true, show loopDetectS r.stmts = b from rfl, hb, weightList, Node.weight, List.length_cons]
      have : b.1 ≤ 2 * weightList r.stmts := ih1
      have := ih2.1
      have e1 : (loopWalkS rest (some st')).1 = (loopWalkS rest (some (Node.stmt p ({ r with stmts := l' } : Ro).toNode))).1 := rfl
      omega
    · intro l rem h; rw [loopWalkS] at h
      simp only [he, hle, dite_true, show loopDetectS r.stmts = b from rfl, hb] at h
      cases hw : (loopWalkS rest (some st')).2 with
      | error e => rw [show (loopWalkS rest (some (Node.stmt p ({ r with stmts := l' } : Ro).toNode))).2 = _ from hw] at h; simp [Except.map] at h
      | ok v =>
        obtain ⟨l2, rem2⟩ := v
        rw [show (loopWalkS rest (some (Node.stmt p ({ r with stmts := l' } : Ro).toNode))).2 = _ from hw] at h
        simp only [Except.map, Except.ok.injEq, Prod.mk.injEq] at h
        have := ih2.2 l2 rem2 hw
        obtain ⟨_, hr⟩ := h
        rw [← hr]
        simp only [List.length_append, List.length_cons]
        split <;> simp <;> omega
  · -- guard false
    intro prev rest p rp re c body t s v sg vr r rm he hle
    have hl := weightList_length_le rest
    constructor
    · rw [loopWalkS]; simp only [he, hle, dite_false, weightList, Node.weight, List.length_cons]; omega
    · intro l rem h; rw [loopWalkS] at h; simp only [he, hle, dite_false] at h; cases h
  · -- if, first nested failed
    intro prev rest p ip c ifs elses a e ha ih
    have hl := weightList_length_le rest
    constructor
    · rw [loopWalkS]
      simp only [show loopDetectS ifs = a from rfl, ha, weightList, Node.weight, List.length_cons]
      have : a.1 ≤ 2 * weightList ifs := ih
      omega
    · intro l rem h; rw [loopWalkS] at h; simp only [show loopDetectS ifs = a from rfl, ha] at h; cases h
  · -- if, second nested failed
    intro prev rest p ip c ifs elses a l' ha b e hb ih1 ih2
    have hl := weightList_length_le rest
    constructor
    · rw [loopWalkS]
      simp only [show loopDetectS ifs = a from rfl, ha, show loopDetectS elses = b from rfl, hb, weightList, Node.weight, List.length_cons]
      have : a.1 ≤ 2 * weightList ifs := ih1
      have : b.1 ≤ 2 * weightList elses := ih2
      omega
    · intro l rem h; rw [loopWalkS] at h
      simp only [show loopDetectS ifs = a from rfl, ha, show loopDetectS elses = b from rfl, hb] at h; cases h
  · -- if, ok
    intro prev rest p ip c ifs elses a l' ha b l'' hb st' ih1 ih2 ih3
    constructor
    · rw [loopWalkS]
      simp only [show loopDetectS ifs = a from rfl, ha, show loopDetectS elses = b from rfl, hb, weightList, Node.weight, List.length_cons]
      have : a.1 ≤ 2 * weightList ifs := ih1
      have : b.1 ≤ 2 * weightList elses := ih2
      have := ih3.1
      have e1 : (loopWalkS rest (some st')).1 = (loopWalkS rest (some (Node.stmt p (Node.ifThen ip c l' l'')))).1 := rfl
      omega
    · intro l rem h; rw [loopWalkS] at h
      simp only [show loopDetectS ifs = a from rfl, ha, show loopDetectS elses = b from rfl, hb] at h
      cases hw : (loopWalkS rest (some st')).2 with
      | error e => rw [show (loopWalkS rest (some (Node.stmt p (Node.ifThen ip c l' l'')))).2 = _ from hw] at h; simp [Except.map] at h
      | ok v =>
        obtain ⟨l2, rem2⟩ := v
        rw [show (loopWalkS rest (some (Node.stmt p (Node.ifThen ip c l' l'')))).2 = _ from hw] at h
        simp only [Except.map, Except.ok.injEq, Prod.mk.injEq] at h
        have := ih3.2 l2 rem2 hw
        obtain ⟨_, hr⟩ := h
        rw [← hr]; simp only [List.length_cons]; omega
  · -- tell, nested failed
    intro prev rest p tp operand inner closed a e ha ih
    have hl := weightList_length_le rest
    constructor
    · rw [loopWalkS]
      simp only [show loopDetectS inner = a from rfl, ha, weightList, Node.weight, List.length_cons]
      have : a.1 ≤ 2 * weightList inner := ih
      omega
    · intro l rem h; rw [loopWalkS] at h; simp only [show loopDetectS inner = a from rfl, ha] at h; cases h
  · -- tell ok
    intro prev rest p tp operand inner closed a l' ha st' ih1 ih2
    constructor
    · rw [loopWalkS]
      simp only [show loopDetectS inner = a from rfl, ha, weightList, Node.weight, List.length_cons]
      have : a.1 ≤ 2 * weightList inner := ih1
      have := ih2.1
      have e1 : (loopWalkS rest (some st')).1 = (loopWalkS rest (some (Node.stmt p (Node.tell tp operand l' closed)))).1 := rfl
      omega
    · intro l rem h; rw [loopWalkS] at h
      simp only [show loopDetectS inner = a from rfl, ha] at h
      cases hw : (loopWalkS rest (some st')).2 with
      | error e => rw [show (loopWalkS rest (some (Node.stmt p (Node.tell tp operand l' closed)))).2 = _ from hw] at h; simp [Except.map] at h
      | ok v =>
        obtain ⟨l2, rem2⟩ := v
        rw [show (loopWalkS rest (some (Node.stmt p (Node.tell tp operand l' closed)))).2 = _ from hw] at h
        simp only [Except.map, Except.ok.injEq, Prod.mk.injEq] at h
        have := ih2.2 l2 rem2 hw
        obtain ⟨_, hr⟩ := h
        rw [← hr]; simp only [List.length_cons]; omega
  · -- other statement
    intro prev rest pos code h1 h2 h3 ih
    have hw := Node.weight_pos code
    constructor
    · rw [loopWalkS]
      · simp only [weightList, Node.weight, List.length_cons]; have := ih.1; omega
      · exact h1
      · exact h2
      · exact h3
    · intro l rem h
      rw [loopWalkS] at h
      · cases hw : (loopWalkS rest (some (Node.stmt pos code))).2 with
        | error e => rw [hw] at h; simp [Except.map] at h
        | ok v =>
          obtain ⟨l2, rem2⟩ := v
          rw [hw] at h
          simp only [Except.map, Except.ok.injEq, Prod.mk.injEq] at h
          have := ih.2 l2 rem2 hw
          obtain ⟨_, hr⟩ := h
          rw [← hr]; simp only [List.length_cons]; omega
      · exact h1
      · exact h2
      · exact h3
  · -- not a statement
    intro prev st rest h1 h2 h3 h4
    have hw := Node.weight_pos st
    have hl := weightList_length_le rest
    constructor
    · rw [loopWalkS]
      · simp only [weightList, List.length_cons]; omega
      · exact h1
      · exact h2
      · exact h3
      · exact h4
    · intro l rem h
      rw [loopWalkS] at h
      · cases h
      · exact h1
      · exact h2
      · exact h3
      · exact h4

/-- loop detection makes at most two rounds per node of the statement tree (it is linear; the quadratic cost of the real code
    in this pass is inside `list.remove`, not in its loops) -/
theorem loopDetectS_linear (stmts : List Node) : (loopDetectS stmts).1 ≤ 2 * weightList stmts := loop_bounds.1 stmts


/-- the twin's result is the model's loop detection -/
theorem loop_results : (∀ stmts, (loopDetectS stmts).2 = loopDetect stmts) ∧
    (∀ stmts prev, (loopWalkS stmts prev).2 = loopWalk stmts prev) := by
  apply loopDetectS.mutual_induct (motive1 := fun stmts => (loopDetectS stmts).2 = loopDetect stmts)
    (motive2 := fun stmts prev => (loopWalkS stmts prev).2 = loopWalk stmts prev)
  · intro stmts w e he ih
    rw [loopDetectS, loopDetect]
    simp only [show loopWalkS stmts none = w from rfl, he]
    rw [← ih, show (loopWalkS stmts none).2 = w.2 from rfl, he]
    rfl
  · intro stmts w l rem hw ih
    rw [loopDetectS, loopDetect]
    simp only [show loopWalkS stmts none = w from rfl, hw]
    rw [← ih, show (loopWalkS stmts none).2 = w.2 from rfl, hw]
    rfl
  · intro prev; rw [loopWalkS, loopWalk]
  · intro prev rest p rp re c body t s v sg vr e he
    rw [loopWalkS, loopWalk]; simp only [he, bind, Except.bind]
  · intro prev rest p rp re c body t s v sg vr r rm he hle b a hb ih
    rw [loopWalkS, loopWalk]
    simp only [he, hle, dite_true, bind, Except.bind, show loopDetectS r.stmts = b from rfl, hb]
    rw [← ih, show (loopDetectS r.stmts).2 = b.2 from rfl, hb]
  · intro prev rest p rp re c body t s v sg vr r rm he hle b l' hb st' ih1 ih2
    rw [loopWalkS, loopWalk]
    simp only [he, hle, dite_true, bind, Except.bind, show loopDetectS r.stmts = b from rfl, hb]
    rw [← ih1, show (loopDetectS r.stmts).2 = b.2 from rfl, hb]
    simp only
    rw [← show (loopWalkS rest (some st')).2 = loopWalk rest (some (Node.stmt p ({ r with stmts := l' } : Ro).toNode)) from ih2]
    cases (loopWalkS rest (some st')).2 with
    | error e => rfl
    | ok v => rfl
  · intro prev rest p rp re c body t s v sg vr r rm he hle
    rw [loopWalkS, loopWalk]; simp only [he, hle, dite_false, bind, Except.bind]
  · intro prev rest p ip c ifs elses a e ha ih
    rw [loopWalkS, loopWalk]
    simp only [bind, Except.bind, show loopDetectS ifs = a from rfl, ha]
    rw [← ih, show (loopDetectS ifs).2 = a.2 from rfl, ha]
  · intro prev rest p ip c ifs elses a l' ha b e hb ih1 ih2
    rw [loopWalkS, loopWalk]
    simp only [bind, Except.bind, show loopDetectS ifs = a from rfl, ha, show loopDetectS elses = b from rfl, hb]
    rw [← ih1, show (loopDetectS ifs).2 = a.2 from rfl, ha]
    simp only
    rw [← ih2, show (loopDetectS elses).2 = b.2 from rfl, hb]
  · intro prev rest p ip c ifs elses a l' ha b l'' hb st' ih1 ih2 ih3
    rw [loopWalkS, loopWalk]
    simp only [bind, Except.bind, show loopDetectS ifs = a from rfl, ha, show loopDetectS elses = b from rfl, hb]
    rw [← ih1, show (loopDetectS ifs).2 = a.2 from rfl, ha]
    simp only
    rw [← ih2, show (loopDetectS elses).2 = b.2 from rfl, hb]
    simp only
    rw [← show (loopWalkS rest (some st')).2 = loopWalk rest (some (Node.stmt p (Node.ifThen ip c l' l''))) from ih3]
    cases (loopWalkS rest (some st')).2 with
    | error e => rfl
    | ok v => rfl
  · intro prev rest p tp operand inner closed a e ha ih
    rw [loopWalkS, loopWalk]
    simp only [bind, Except.bind, show loopDetectS inner = a from rfl, ha]
    rw [← ih, show (loopDetectS inner).2 = a.2 from rfl, ha]
  · intro prev rest p tp operand inner closed a l' ha st' ih1 ih2
    rw [loopWalkS, loopWalk]
    simp only [bind, Except.bind, show loopDetectS inner = a from rfl, ha]
    rw [← ih1, show (loopDetectS inner).2 = a.2 from rfl, ha]
    simp only
    rw [← show (loopWalkS rest (some st')).2 = loopWalk rest (some (Node.stmt p (Node.tell tp operand l' closed))) from ih2]
    cases (loopWalkS rest (some st')).2 with
    | error e => rfl
    | ok v => rfl
  · intro prev rest pos code h1 h2 h3 ih
    rw [loopWalkS, loopWalk]
    · simp only [bind, Except.bind]
      rw [← ih]
      cases (loopWalkS rest (some (Node.stmt pos code))).2 with
      | error e => rfl
      | ok v => rfl
    · exact h1
    · exact h2
    · exact h3
    · exact h1
    · exact h2
    · exact h3
  · intro prev st rest h1 h2 h3 h4
    rw [loopWalkS, loopWalk]
    · exact h1
    · exact h2
    · exact h3
    · exact h4
    · exact h1
    · exact h2
    · exact h3
    · exact h4

theorem loopDetectS_result (stmts : List Node) : (loopDetectS stmts).2 = loopDetect stmts := loop_results.1 stmts

end Drx.Lscr.Steps
