/-
  C03 link, layer F1a: facts about the model's list primitives (`Node.pyEq`, `pyRemove`, `pyRemoveAll`, `pyGet`) and about the
  individual passes of `condition_detect_in_statements` (`scanStep`, `ifScan`, `elseScan`, `breakDetect`, `finalizeIf`,
  `replaceFirstCode`) on statement lists described by POSITION RANGES.  Nothing here mentions compiled programs.
-/
import Drx.LinkFlow
namespace Drx.LinkFlow
open Drx Drx.Lscr

/-! ### `Node.__eq__` -/

theorem pyEq_stmt (p p' : Int) (c c' : Node) : (Node.stmt p c).pyEq (.stmt p' c') = (p == p') := by
  simp [Node.pyEq, Node.cls, Node.name, Node.pos]

theorem pyEq_of_cls_ne {a b : Node} (h : a.cls ≠ b.cls) : a.pyEq b = false := by
  unfold Node.pyEq
  split
  · exact absurd rfl h
  · rfl
  · rfl
  · simp [h]

theorem pyEq_jz (p p' : Int) (c c' : Node) (a a' : Int) : (Node.jz p c a).pyEq (.jz p' c' a') = (p == p') := by
  simp [Node.pyEq, Node.cls, Node.name, Node.pos]

/-- every element is a statement whose position and code satisfy `φ` -/
def AllS (φ : Int → Node → Prop) (l : List Node) : Prop := ∀ st ∈ l, ∃ p c, st = Node.stmt p c ∧ φ p c

theorem AllS.nil {φ} : AllS φ [] := by intro st h; cases h

theorem AllS.cons {φ} {p : Int} {c : Node} {l : List Node} (h : φ p c) (hl : AllS φ l) : AllS φ (.stmt p c :: l) := by
  intro st hst
  rcases List.mem_cons.1 hst with rfl | h'
  · exact ⟨p, c, rfl, h⟩
  · exact hl st h'

theorem AllS.append {φ} {l₁ l₂ : List Node} (h₁ : AllS φ l₁) (h₂ : AllS φ l₂) : AllS φ (l₁ ++ l₂) := by
  intro st hst
  rcases List.mem_append.1 hst with h | h
  · exact h₁ st h
  · exact h₂ st h

theorem AllS.left {φ} {l₁ l₂ : List Node} (h : AllS φ (l₁ ++ l₂)) : AllS φ l₁ :=
  fun st hst => h st (List.mem_append.2 (Or.inl hst))

theorem AllS.right {φ} {l₁ l₂ : List Node} (h : AllS φ (l₁ ++ l₂)) : AllS φ l₂ :=
  fun st hst => h st (List.mem_append.2 (Or.inr hst))

theorem AllS.tail {φ} {x : Node} {l : List Node} (h : AllS φ (x :: l)) : AllS φ l :=
  fun st hst => h st (List.mem_cons_of_mem _ hst)

theorem AllS.head {φ} {x : Node} {l : List Node} (h : AllS φ (x :: l)) : ∃ p c, x = Node.stmt p c ∧ φ p c :=
  h x (List.mem_cons_self)

theorem AllS.mono {φ ψ : Int → Node → Prop} {l : List Node} (h : AllS φ l) (hi : ∀ p c, φ p c → ψ p c) : AllS ψ l := by
  intro st hst
  obtain ⟨p, c, e, hp⟩ := h st hst
  exact ⟨p, c, e, hi p c hp⟩

/-! ### `list.remove` -/

theorem pyRemove_append (A : List Node) (x : Node) (rest : List Node) (hA : ∀ a ∈ A, a.pyEq x = false) (hx : x.pyEq x = true) :
    pyRemove (A ++ x :: rest) x = .ok (A ++ rest) := by
  induction A with
  | nil => simp [pyRemove, hx]
  | cons a A ih =>
    have h1 : a.pyEq x = false := hA a (List.mem_cons_self)
    have h2 := ih (fun b hb => hA b (List.mem_cons_of_mem _ hb))
    simp only [List.cons_append, pyRemove, h1, h2]
    rfl

theorem pyRemoveAll_nil (l : List Node) : pyRemoveAll l [] = .ok l := rfl

theorem pyRemoveAll_cons (l : List Node) (x : Node) (xs : List Node) :
    pyRemoveAll l (x :: xs) = (pyRemove l x).bind fun l' => pyRemoveAll l' xs := by
  simp only [pyRemoveAll, List.foldlM_cons]; rfl

/-- removing a block of statements `X` by position equality, when no statement before the block has one of its positions -/
theorem pyRemoveAll_block (A X R : List Node) (hA : AllS (fun _ _ => True) A) (hX : AllS (fun _ _ => True) X)
    (hne : ∀ a ∈ A, ∀ x ∈ X, a.pos ≠ x.pos) : pyRemoveAll (A ++ X ++ R) X = .ok (A ++ R) := by
  induction X with
  | nil => simp [pyRemoveAll_nil]
  | cons x X ih =>
    rw [pyRemoveAll_cons]
    obtain ⟨px, cx, rfl, _⟩ := hX.head
    have h1 : pyRemove (A ++ (Node.stmt px cx :: X) ++ R) (Node.stmt px cx) = .ok (A ++ (X ++ R)) := by
      rw [List.append_assoc, List.cons_append]
      apply pyRemove_append
      · intro a ha
        obtain ⟨pa, ca, rfl, _⟩ := hA a ha
        rw [pyEq_stmt]
        have := hne _ ha _ (List.mem_cons_self)
        simpa [Node.pos] using this
      · rw [pyEq_stmt]; simp
    rw [h1]
    show pyRemoveAll (A ++ (X ++ R)) X = _
    rw [← List.append_assoc]
    exact ih hX.tail (fun a ha x hx => hne a ha x (List.mem_cons_of_mem _ hx))

/-! ### `l[-1]` -/

theorem pyGet_last (l : List Node) (x : Node) : pyGet (l ++ [x]) (-1) = .ok x := by
  unfold pyGet
  simp only [List.length_append, List.length_cons, List.length_nil]
  have h1 : ((-1 : Int) < 0) := by omega
  simp only [h1, if_true]
  have h2 : ¬ ((-1 : Int) + ((l.length + (0 + 1) : Nat) : Int) < 0) := by omega
  simp only [h2, if_false]
  have h3 : ((-1 : Int) + ((l.length + (0 + 1) : Nat) : Int)).toNat = l.length := by omega
  rw [h3]
  simp

theorem pyGet_nil_last : pyGet ([] : List Node) (-1) = .error .index := by
  simp [pyGet]

/-! ### the scanning pass (`address`, `previous_st`, `in_else`) -/

/-- the state after `if in_else: previous_st = None; address = None; in_else = False` -/
def resetSt (s : ScanSt) : ScanSt := if s.inElse then { s with prev := none, address := none, inElse := false } else s

/-- `previous_st` is not a jump statement -/
def PrevOK : Option Node → Prop
  | none => True
  | some (.stmt _ c) => c.cls ≠ .jump
  | some _ => False

/-- the state in which the scan reaches a statement at or after address `o` of the list level it is scanning:
    no pending skip target beyond `o`, and the last skipped statement is not a jump (or `in_else` is about to reset it) -/
def Neutral (s : ScanSt) (o : Int) : Prop := (∀ a, s.address = some a → a ≤ o) ∧ PrevOK (resetSt s).prev

theorem resetSt_idem (s : ScanSt) : resetSt (resetSt s) = resetSt s := by
  cases s with
  | mk a p ie j => cases ie <;> simp [resetSt]

theorem Neutral.mono {s : ScanSt} {o o' : Int} (h : Neutral s o) (ho : o ≤ o') : Neutral s o' :=
  ⟨fun a ha => Int.le_trans (h.1 a ha) ho, h.2⟩

theorem Neutral.init (o : Int) (j : List Node) : Neutral { jzs := j } o := by
  constructor
  · intro a ha; cases ha
  · simp [resetSt, PrevOK]

theorem resetSt_address_le {s : ScanSt} {o : Int} (h : ∀ a, s.address = some a → a ≤ o) :
    ∀ a, (resetSt s).address = some a → a ≤ o := by
  cases s with
  | mk a p ie j =>
    cases ie
    · simpa [resetSt] using h
    · simp [resetSt]

theorem resetSt_jzs (s : ScanSt) : (resetSt s).jzs = s.jzs := by
  cases s with
  | mk a p ie j => cases ie <;> simp [resetSt]

theorem resetSt_inElse (s : ScanSt) : (resetSt s).inElse = false := by
  cases s with
  | mk a p ie j => cases ie <;> simp [resetSt]

/-- a statement below the pending address is skipped and remembered as `previous_st` -/
theorem scanStep_skip (r : Option Int) (s : ScanSt) (a pos : Int) (code : Node) (ha : s.address = some a) (hp : pos < a) :
    scanStep r s (.stmt pos code) = .ok { s with prev := some (.stmt pos code) } := by
  simp [scanStep, ha, hp]

theorem lastOr_append_singleton (l : List Node) (x : Node) (d : Option Node) : lastOr (l ++ [x]) d = some x := by
  induction l generalizing d with
  | nil => rfl
  | cons y l ih => simp [lastOr, ih]

theorem scan_skip (r : Option Int) (a : Int) (l : List Node) (hl : AllS (fun p _ => p < a) l) :
    ∀ (s : ScanSt), s.address = some a → l.foldlM (scanStep r) s = .ok { s with prev := lastOr l s.prev } := by
  induction l with
  | nil => intro s _; rfl
  | cons x l ih =>
    intro s ha
    obtain ⟨p, c, rfl, hp⟩ := hl.head
    rw [List.foldlM_cons, scanStep_skip r s a p c ha hp]
    show List.foldlM (scanStep r) _ l = _
    rw [ih hl.tail { s with prev := some (.stmt p c) } ha]
    rfl

theorem prevOK_elim {α : Prop} {o : Option Node} (h : PrevOK o) (k1 : o = none → α)
    (k2 : ∀ p c, o = some (.stmt p c) → c.cls ≠ .jump → α) : α := by
  match o, h with
  | none, _ => exact k1 rfl
  | some (.stmt p c), h => exact k2 p c rfl h

/-- what `scanStep` does with a statement it does not skip, as a function of the state after the `in_else` reset -/
def scanExam (r : Option Int) (s : ScanSt) (code : Node) : R ScanSt :=
  match s.prev with
  | some (.stmt _ (.jump _ addr)) => .ok { s with address := some addr, inElse := true }
  | some (.stmt _ _) | none =>
    match code with
    | .jz _ _ addr =>
      let address := match r with
        | some e => if e < addr then none else some addr
        | none => some addr
      .ok { s with address := address, jzs := s.jzs ++ [code] }
    | _ => .ok s
  | some _ => .error .type

theorem scanStep_examine (r : Option Int) (s : ScanSt) (pos : Int) (code : Node) (ha : ∀ a, s.address = some a → a ≤ pos) :
    scanStep r s (.stmt pos code) = scanExam r (resetSt s) code := by
  cases s with
  | mk a p ie j =>
    cases a with
    | none => cases ie <;> rfl
    | some a =>
      have h : ¬ pos < a := by have := ha a rfl; omega
      cases ie <;> simp [scanStep, h, resetSt, scanExam] <;> rfl

/-- a statement that is examined (not skipped), whose `previous_st` is not a jump and whose code is not a jz: nothing happens
    except the `in_else` reset -/
theorem scanStep_plain (r : Option Int) (s : ScanSt) (pos : Int) (code : Node)
    (ha : ∀ a, s.address = some a → a ≤ pos) (hp : PrevOK (resetSt s).prev) (hc : code.cls ≠ .jz) :
    scanStep r s (.stmt pos code) = .ok (resetSt s) := by
  rw [scanStep_examine r s pos code ha]
  unfold scanExam
  apply prevOK_elim hp
  · intro h; rw [h]
    cases code <;> first | (exact absurd rfl hc) | rfl
  · intro p c h hcj; rw [h]
    cases c <;> first | (exact absurd rfl hcj) | (cases code <;> first | (exact absurd rfl hc) | rfl)

/-- `address = jzop.address`, reset to None when the jz leaves the enclosing loop -/
def selAddr (r : Option Int) (addr : Int) : Option Int :=
  match r with
  | some e => if e < addr then none else some addr
  | none => some addr

/-- … and if its code is a jz, the jz is recorded and its address becomes the skip target unless it leaves the loop -/
theorem scanStep_jz (r : Option Int) (s : ScanSt) (pos : Int) (jp : Int) (cond : Node) (addr : Int)
    (ha : ∀ a, s.address = some a → a ≤ pos) (hp : PrevOK (resetSt s).prev) :
    scanStep r s (.stmt pos (.jz jp cond addr)) =
      .ok ⟨selAddr r addr, (resetSt s).prev, false, s.jzs ++ [.jz jp cond addr]⟩ := by
  rw [scanStep_examine r s pos _ ha]
  unfold scanExam
  have hie := resetSt_inElse s
  have hj := resetSt_jzs s
  generalize resetSt s = s' at *
  cases s' with
  | mk a' p' ie' j' =>
    simp only at hie hj hp
    subst hie hj
    apply prevOK_elim hp
    · intro h; subst h; rfl
    · intro p c h hcj; subst h
      cases c <;> first | (exact absurd rfl hcj) | rfl

/-- the first statement after a skipped range that ended with a jump: it is the head of an else part, which is skipped -/
theorem scanStep_afterJump (r : Option Int) (s : ScanSt) (pos : Int) (code : Node) (q jq b : Int)
    (ha : ∀ a, s.address = some a → a ≤ pos) (hie : s.inElse = false) (hp : s.prev = some (.stmt q (.jump jq b))) :
    scanStep r s (.stmt pos code) = .ok { s with address := some b, inElse := true } := by
  rw [scanStep_examine r s pos _ ha]
  have : resetSt s = s := by simp [resetSt, hie]
  rw [this]
  unfold scanExam
  rw [hp]

end Drx.LinkFlow
