/-
  Decimal numbers: the model's `str(n)` is the reference printer's digit string, and the model's `int(str(n))` is `n`
  (the built-in property opcodes pop the property number as a literal and convert its text back).
-/
import Drx.Link
import DrxProofs.SpecLex
import DrxProofs.LscrConst
namespace Drx.Link
open Drx Drx.Lscr Drx.Spec
set_option linter.unusedSimpArgs false
set_option linter.unusedVariables false

/-! ### decimal digits: the model's `str(n)` is the reference printer's digit string -/

theorem digitChar_eq (n : Nat) : Lscr.digitChar n = Spec.digitChar (n % 10) := rfl

theorem natDigits_eq : ∀ (fuel n : Nat) (acc : Str), n < 10 ^ (fuel + 1) → Lscr.natDigits (fuel + 1) n acc = Spec.natDigits n ++ acc
  | 0, n, acc, h => by
    have h10 : n < 10 := by simpa using h
    rw [Spec.natDigits]
    simp only [Lscr.natDigits, h10, if_true, dite_true, digitChar_eq, Nat.mod_eq_of_lt h10, List.singleton_append]
  | f + 1, n, acc, h => by
    rw [Spec.natDigits]
    by_cases h10 : n < 10
    · simp only [Lscr.natDigits, h10, if_true, dite_true, digitChar_eq, Nat.mod_eq_of_lt h10, List.singleton_append]
    · have hlt : n / 10 < 10 ^ (f + 1) := by
        rw [Nat.pow_succ] at h
        omega
      have ih := natDigits_eq f (n / 10) (Lscr.digitChar n :: acc) hlt
      rw [Lscr.natDigits]
      simp only [h10, if_false, dite_false]
      rw [ih, digitChar_eq]
      simp

theorem natStr_eq (n : Nat) : Lscr.natStr n = Spec.natDigits n := by
  unfold Lscr.natStr
  rw [natDigits_eq n n [] (lt_ten_pow_succ n)]
  simp


theorem isAsciiDigit_of_isDigit (c : Char) (h : c.isDigit = true) : isAsciiDigit c = true := by
  simp only [Char.isDigit, Bool.and_eq_true, decide_eq_true_eq] at h
  simp only [isAsciiDigit, Bool.and_eq_true, decide_eq_true_eq]
  exact ⟨h.1, h.2⟩

theorem intDigits_digits : ∀ (l : List Char) (b : Bool) (acc : Nat), l.all Char.isDigit = true → (l ≠ [] ∨ b = true) →
    intDigits l b acc = some (l.foldl (fun n c => n * 10 + (c.toNat - 48)) acc)
  | [], b, acc, _, h => by
    rcases h with h | h
    · exact absurd rfl h
    · simp [intDigits, h]
  | c :: cs, b, acc, hall, _ => by
    simp only [List.all_cons, Bool.and_eq_true] at hall
    have hd := isAsciiDigit_of_isDigit c hall.1
    simp only [intDigits, hd, if_true, List.foldl_cons]
    exact intDigits_digits cs true _ hall.2 (Or.inr rfl)

theorem digit_not_space (c : Char) (h : c.isDigit = true) : isPySpace c = false := by
  simp only [Char.isDigit, Bool.and_eq_true, decide_eq_true_eq, ge_iff_le, UInt32.le_iff_toNat_le] at h
  have e0 : '0'.val.toNat = 48 := rfl
  have e9 : '9'.val.toNat = 57 := rfl
  have hn : c.toNat = c.val.toNat := rfl
  unfold isPySpace
  simp only [Bool.or_eq_false_iff, Bool.and_eq_false_iff, decide_eq_false_iff_not, beq_eq_false_iff_ne, ne_eq]
  omega

theorem stripLeft_digit (c : Char) (cs : List Char) (h : c.isDigit = true) : stripLeft (c :: cs) = c :: cs := by
  simp [stripLeft, digit_not_space c h]

theorem strip_digits (l : List Char) (h : l.all Char.isDigit = true) : strip l = l := by
  cases l with
  | nil => rfl
  | cons c cs =>
    simp only [List.all_cons, Bool.and_eq_true] at h
    unfold strip rstrip
    rw [stripLeft_digit c cs h.1]
    have hall : (c :: cs).reverse.all Char.isDigit = true := by simp [List.all_reverse, h.1, h.2]
    cases hr : (c :: cs).reverse with
    | nil => simp at hr
    | cons d ds =>
      rw [hr] at hall
      simp only [List.all_cons, Bool.and_eq_true] at hall
      rw [stripLeft_digit d ds hall.1, ← hr, List.reverse_reverse]

/-- `int(str(n)) = n` in the model -/
theorem pyIntOfStr_natStr (k : Nat) : pyIntOfStr (Lscr.natStr k) = .ok (k : Int) := by
  rw [natStr_eq]
  have hall := natDigits_all k
  have hval := natDigits_val k
  unfold pyIntOfStr
  rw [strip_digits _ hall]
  cases hd : Spec.natDigits k with
  | nil => exact absurd hd (natDigits_ne_nil k)
  | cons c cs =>
    rw [hd] at hall hval
    have hc : c.isDigit = true := by simp only [List.all_cons, Bool.and_eq_true] at hall; exact hall.1
    have n1 : c ≠ '-' := fun e => by subst e; simp at hc
    have n2 : c ≠ '+' := fun e => by subst e; simp at hc
    have hv : List.foldl (fun n c => n * 10 + (c.toNat - 48)) 0 (c :: cs) = k := hval
    have hi := intDigits_digits (c :: cs) false 0 hall (Or.inl (by simp))
    rw [hv] at hi
    dsimp only
    have hdig : c = '0' ∨ c = '1' ∨ c = '2' ∨ c = '3' ∨ c = '4' ∨ c = '5' ∨ c = '6' ∨ c = '7' ∨ c = '8' ∨ c = '9' := by
      have h := hc
      simp only [Char.isDigit, Bool.and_eq_true, decide_eq_true_eq, ge_iff_le, UInt32.le_iff_toNat_le] at h
      have e0 : '0'.val.toNat = 48 := rfl
      have e9 : '9'.val.toNat = 57 := rfl
      have inj : ∀ d : Char, c.val.toNat = d.val.toNat → c = d := fun d hd => Char.ext (UInt32.toNat_inj.mp hd)
      have : c.val.toNat = 48 ∨ c.val.toNat = 49 ∨ c.val.toNat = 50 ∨ c.val.toNat = 51 ∨ c.val.toNat = 52 ∨ c.val.toNat = 53
          ∨ c.val.toNat = 54 ∨ c.val.toNat = 55 ∨ c.val.toNat = 56 ∨ c.val.toNat = 57 := by omega
      rcases this with h | h | h | h | h | h | h | h | h | h
      · exact Or.inl (inj '0' h)
      · exact Or.inr (Or.inl (inj '1' h))
      · exact Or.inr (Or.inr (Or.inl (inj '2' h)))
      · exact Or.inr (Or.inr (Or.inr (Or.inl (inj '3' h))))
      · exact Or.inr (Or.inr (Or.inr (Or.inr (Or.inl (inj '4' h)))))
      · exact Or.inr (Or.inr (Or.inr (Or.inr (Or.inr (Or.inl (inj '5' h))))))
      · exact Or.inr (Or.inr (Or.inr (Or.inr (Or.inr (Or.inr (Or.inl (inj '6' h)))))))
      · exact Or.inr (Or.inr (Or.inr (Or.inr (Or.inr (Or.inr (Or.inr (Or.inl (inj '7' h))))))))
      · exact Or.inr (Or.inr (Or.inr (Or.inr (Or.inr (Or.inr (Or.inr (Or.inr (Or.inl (inj '8' h)))))))))
      · exact Or.inr (Or.inr (Or.inr (Or.inr (Or.inr (Or.inr (Or.inr (Or.inr (Or.inr (inj '9' h)))))))))
    rcases hdig with h | h | h | h | h | h | h | h | h | h <;> subst h <;> simp [isAsciiDigit, hi]

end Drx.Link
