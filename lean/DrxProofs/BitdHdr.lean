/-
  C06: what the header and palette writers put in front of the pixel area, and what a BMP reader gets out of it.
-/
import DrxProofs.BitdRows
import DrxProofs.Bitd
import DrxProofs.Py
namespace Drx.Bitd
open Drx Drx.Bitd.Spec

def fileHdr (size off : Int) : Bytes :=
  [0x42, 0x4D] ++ (encS .le 4 size ++ encS .le 2 0 ++ encS .le 2 0 ++ encS .le 4 off)

def I32 (v : Int) : Prop := -(2147483648 : Int) ≤ v ∧ v < 2147483648

def I16 (v : Int) : Prop := -(32768 : Int) ≤ v ∧ v < 32768

theorem packI32_ok (v : Int) (h : I32 v) : packI32 v = .ok (encS .le 4 v) := by
  unfold packI32; unfold I32 at h; rw [if_pos h]

theorem packI16_ok (v : Int) (h : I16 v) : packI16 v = .ok (encS .le 2 v) := by
  unfold packI16; unfold I16 at h; rw [if_pos h]

theorem i32_nat (n : Nat) (h : n < 2147483648) : I32 (n : Int) := by unfold I32; omega
theorem i16_nat (n : Nat) (h : n < 32768) : I16 (n : Int) := by unfold I16; omega

theorem i16_zero : I16 0 := by unfold I16; omega

theorem writeBmpHeader_ok' (size off : Int) (hs : I32 size) (ho : I32 off) (b : Buf) :
    writeBmpHeader true size off b
      = ([0x42, 0x4D] ++ (encS .le 4 size ++ encS .le 2 0 ++ encS .le 2 0 ++ encS .le 4 off), .ok ()) := by
  unfold writeBmpHeader
  simp only [bind, W.bind, write, liftR, packI32_ok _ hs, packI32_ok _ ho, packI16_ok _ i16_zero]
  simp

theorem writeBmpHeader_ok (size off : Int) (hs : I32 size) (ho : I32 off) (b : Buf) :
    writeBmpHeader true size off b = (fileHdr size off, .ok ()) := by
  rw [writeBmpHeader_ok' size off hs ho b]; rfl

def info40 (wd ht : Int) (bpp nc : Nat) : Bytes :=
  encS .le 4 40 ++ (encS .le 4 wd ++ (encS .le 4 ht ++ [])) ++ (encS .le 2 1 ++ (encS .le 2 (bpp : Int) ++ []))
    ++ (encS .le 4 0 ++ (encS .le 4 0 ++ (encS .le 4 0 ++ (encS .le 4 0 ++ (encS .le 4 (nc : Int) ++ (encS .le 4 (nc : Int) ++ []))))))

theorem c40 : I32 40 := by unfold I32; omega
theorem c0 : I32 0 := by unfold I32; omega
theorem c1 : I16 1 := by unfold I16; omega

theorem packAll_cons {α : Type} (f : α → R Bytes) (a : α) (as : List α) (x y : Bytes) (ha : f a = .ok x) (hs : packAll f as = .ok y) :
    packAll f (a :: as) = .ok (x ++ y) := by
  unfold packAll; rw [ha, hs]; rfl

theorem packAll_nil {α : Type} (f : α → R Bytes) : packAll f [] = .ok [] := rfl

theorem info40_p1 (wd ht : Int) (hW : I32 wd) (hH : I32 ht) :
   packAll packI32 [40, wd, ht] = .ok (encS .le 4 40 ++ (encS .le 4 wd ++ (encS .le 4 ht ++ []))) :=
  packAll_cons _ _ _ _ _ (packI32_ok _ c40) (packAll_cons _ _ _ _ _ (packI32_ok _ hW) (packAll_cons _ _ _ _ _ (packI32_ok _ hH) (packAll_nil _)))

theorem info40_p2 (bpp : Nat) (hb : bpp < 32768) :
   packAll packI16 [1, (bpp : Int)] = .ok (encS .le 2 1 ++ (encS .le 2 (bpp : Int) ++ [])) :=
  packAll_cons _ _ _ _ _ (packI16_ok _ c1) (packAll_cons _ _ _ _ _ (packI16_ok _ (i16_nat _ hb)) (packAll_nil _))

theorem info40_p3 (nc : Nat) (hn : nc < 32768) :
   packAll packI32 [0, 0, 0, 0, (nc : Int), (nc : Int)] = .ok (encS .le 4 0 ++ (encS .le 4 0 ++ (encS .le 4 0 ++ (encS .le 4 0 ++ (encS .le 4 (nc : Int) ++ (encS .le 4 (nc : Int) ++ [])))))) := by
  have cn : I32 (nc : Int) := i32_nat _ (by omega)
  exact packAll_cons _ _ _ _ _ (packI32_ok _ c0) (packAll_cons _ _ _ _ _ (packI32_ok _ c0) (packAll_cons _ _ _ _ _ (packI32_ok _ c0) (packAll_cons _ _ _ _ _ (packI32_ok _ c0)
    (packAll_cons _ _ _ _ _ (packI32_ok _ cn) (packAll_cons _ _ _ _ _ (packI32_ok _ cn) (packAll_nil _))))))

theorem writeInfoHeader40_ok (wd ht : Int) (bpp nc : Nat) (hW : I32 wd) (hH : I32 ht) (hb : bpp < 32768) (hn : nc < 32768) (b : Buf) :
    writeInfoHeader40 wd ht bpp nc b = (b ++ info40 wd ht bpp nc, .ok ()) := by
  unfold writeInfoHeader40
  rw [info40_p1 _ _ hW hH, info40_p2 _ hb, info40_p3 _ hn]
  rfl

theorem info40_length (wd ht : Int) (bpp nc : Nat) : (info40 wd ht bpp nc).length = 40 := by
  simp [info40]

theorem fileHdr_length (size off : Int) : (fileHdr size off).length = 14 := by
  simp [fileHdr]

/-- the system palette `bitd2bmp` is asked for in the C06 theorems (any table of the right size would do) -/
def sysPal (nbits : Nat) (name : String) : Bytes :=
  match lookupN nbits Gen.BitdTables.palettes with
  | none => []
  | some tbl => match lookupS name tbl with
    | some vals => vals.map UInt8.ofNat
    | none => []

theorem writeColorPalette_sys (nbits nc : Nat) (name : String) (tbl : List (String × List Nat)) (vals : List Nat) (p : Bytes)
    (h1 : lookupN nbits Gen.BitdTables.palettes = some tbl) (h2 : lookupS name tbl = some vals)
    (h3 : packPalette (nc * 4) vals = .ok p) (b : Buf) :
    writeColorPalette nbits nc name [] b = (b ++ p, .ok ()) := by
  unfold writeColorPalette
  have h0 : ¬ (([] : Bytes).length > 0) := by simp
  simp only [h0, if_false, h1, h2, h3]
  rfl

theorem writeColorPalette_8 (b : Buf) :
    writeColorPalette 8 256 "systemMac" [] b = (b ++ sysPal 8 "systemMac", .ok ()) ∧ (sysPal 8 "systemMac").length = 1024 := by
  constructor
  · have h1 : lookupN 8 Gen.BitdTables.palettes = some (match lookupN 8 Gen.BitdTables.palettes with | some t => t | none => []) := by
      decide +kernel
    have h2 : lookupS "systemMac" (match lookupN 8 Gen.BitdTables.palettes with | some t => t | none => []) = some Gen.BitdTables.pal_8_systemMac := by
      decide +kernel
    have h3 : packPalette (256 * 4) Gen.BitdTables.pal_8_systemMac = .ok (sysPal 8 "systemMac") := by
      decide +kernel
    exact writeColorPalette_sys 8 256 "systemMac" _ _ _ h1 h2 h3 b
  · decide +kernel

theorem writeColorPalette_1 (b : Buf) :
    writeColorPalette 1 2 "black and white" [] b = (b ++ sysPal 1 "black and white", .ok ()) ∧ (sysPal 1 "black and white").length = 8 := by
  constructor
  · have h1 : lookupN 1 Gen.BitdTables.palettes = some (match lookupN 1 Gen.BitdTables.palettes with | some t => t | none => []) := by
      decide +kernel
    have h2 : lookupS "black and white" (match lookupN 1 Gen.BitdTables.palettes with | some t => t | none => []) = some Gen.BitdTables.pal_1_black_and_white := by
      decide +kernel
    have h3 : packPalette (2 * 4) Gen.BitdTables.pal_1_black_and_white = .ok (sysPal 1 "black and white") := by
      decide +kernel
    exact writeColorPalette_sys 1 2 "black and white" _ _ _ h1 h2 h3 b
  · decide +kernel

end Drx.Bitd
