/-
  C06: what the header and palette writers put in front of the pixel area, and what a BMP reader gets out of it.
-/
import DrxProofs.BitdRows
import DrxProofs.Bitd
import DrxProofs.Py
namespace Drx.Bitd
open Drx Drx.Bitd.Spec

def fileHdr (size off : Int) : Bytes :=
  [0x42, 0x4D] ++ (encS .le 4 size ++ encS .le 2 0 ++ encS .le 2 0 ++ encS .le 4 off)

def I32 (v : Int) : Prop := -(2147483648 : Int) ≤ v ∧ v < 2147483648

def I16 (v : Int) : Prop := -(32768 : Int) ≤ v ∧ v < 32768

theorem packI32_ok (v : Int) (h : I32 v) : packI32 v = .ok (encS .le 4 v) := by
  unfold packI32; unfold I32 at h; rw [if_pos h]

theorem packI16_ok (v : Int) (h : I16 v) : packI16 v = .ok (encS .le 2 v) := by
  unfold packI16; unfold I16 at h; rw [if_pos h]

theorem i32_nat (n : Nat) (h : n < 2147483648) : I32 (n : Int) := by unfold I32; omega
theorem i16_nat (n : Nat) (h : n < 32768) : I16 (n : Int) := by unfold I16; omega

theorem i16_zero : I16 0 := by unfold I16; omega

theorem writeBmpHeader_ok' (size off : Int) (hs : I32 size) (ho : I32 off) (b : Buf) :
    writeBmpHeader true size off b
      = ([0x42, 0x4D] ++ (encS .le 4 size ++ encS .le 2 0 ++ encS .le 2 0 ++ encS .le 4 off), .ok ()) := by
  unfold writeBmpHeader
  simp only [bind, W.bind, write, liftR, packI32_ok _ hs, packI32_ok _ ho, packI16_ok _ i16_zero]
  simp

theorem writeBmpHeader_ok (size off : Int) (hs : I32 size) (ho : I32 off) (b : Buf) :
    writeBmpHeader true size off b = (fileHdr size off, .ok ()) := by
  rw [writeBmpHeader_ok' size off hs ho b]; rfl

def info40 (wd ht : Int) (bpp nc : Nat) : Bytes :=
  encS .le 4 40 ++ (encS .le 4 wd ++ (encS .le 4 ht ++ [])) ++ (encS .le 2 1 ++ (encS .le 2 (bpp : Int) ++ []))
    ++ (encS .le 4 0 ++ (encS .le 4 0 ++ (encS .le 4 0 ++ (encS .le 4 0 ++ (encS .le 4 (nc : Int) ++ (encS .le 4 (nc : Int) ++ []))))))

end Drx.Bitd
