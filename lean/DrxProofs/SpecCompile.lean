/-
  Helper lemmas about the spec-layer compile scheme (lean/Drx/Spec/Compile.lean): instruction encoding round trip,
  sizes, and the nesting invariant of the structured layout.
-/
import Drx.Spec.Compile
namespace Drx.Spec

theorem u8_toNat_ofNat_lt {n : Nat} (h : n < 256) : (UInt8.ofNat n).toNat = n := by
  simp [UInt8.toNat_ofNat', Nat.mod_eq_of_lt h]

theorem decode_encode_cons (i : Instr) (h : i.WF) (rest : Bytes) :
    decodeInstrs (i.encode ++ rest) = (decodeInstrs rest).map (i :: ·) := by
  cases i with
  | op1 b =>
    have hb : b < 0x40 := h
    have e : (UInt8.ofNat b).toNat = b := u8_toNat_ofNat_lt (by omega)
    simp only [Instr.encode, List.cons_append, List.nil_append]
    rw [decodeInstrs.eq_def]
    simp only [e, hb, if_true]
    cases decodeInstrs rest <;> simp
  | op2 b x =>
    obtain ⟨h1, h2, h3⟩ : 0x40 ≤ b ∧ b < 0x80 ∧ x < 256 := h
    have e : (UInt8.ofNat b).toNat = b := u8_toNat_ofNat_lt (by omega)
    have ex : (UInt8.ofNat x).toNat = x := u8_toNat_ofNat_lt h3
    simp only [Instr.encode, List.cons_append, List.nil_append]
    rw [decodeInstrs.eq_def]
    have n1 : ¬ b < 0x40 := by omega
    simp only [e, ex, n1, h2, if_true, if_false]
    cases decodeInstrs rest <;> simp
  | op3 b x =>
    obtain ⟨h1, h2, h3⟩ : 0x80 ≤ b ∧ b < 0x100 ∧ x < 65536 := h
    have e : (UInt8.ofNat b).toNat = b := u8_toNat_ofNat_lt (by omega)
    have ex : (UInt8.ofNat (x / 256)).toNat = x / 256 := u8_toNat_ofNat_lt (by omega)
    have ey : (UInt8.ofNat (x % 256)).toNat = x % 256 := u8_toNat_ofNat_lt (by omega)
    simp only [Instr.encode, List.cons_append, List.nil_append]
    rw [decodeInstrs.eq_def]
    have n1 : ¬ b < 0x40 := by omega
    have n2 : ¬ b < 0x80 := by omega
    have r : x / 256 * 256 + x % 256 = x := by omega
    simp only [e, ex, ey, n1, n2, if_false, r]
    cases decodeInstrs rest <;> simp

/-- 7(a): the instruction decoder inverts the scheme's instruction encoder on every well-formed instruction list -/
theorem decode_encode (is : List Instr) (h : ∀ i ∈ is, i.WF) : decodeInstrs (encodeInstrs is) = some is := by
  induction is with
  | nil => simp [encodeInstrs, decodeInstrs]
  | cons i is ih =>
    have hi : i.WF := h i (by simp)
    have hr : ∀ j ∈ is, j.WF := fun j hj => h j (by simp [hj])
    simp only [encodeInstrs]
    rw [decode_encode_cons i hi, ih hr]
    rfl

theorem encode_length (i : Instr) : i.encode.length = i.size := by
  cases i <;> simp [Instr.encode, Instr.size]

theorem encodeInstrs_length (is : List Instr) : (encodeInstrs is).length = codeSize is := by
  induction is with
  | nil => simp [encodeInstrs, codeSize]
  | cons i is ih => simp [encodeInstrs, codeSize, encode_length, ih]

theorem codeSize_append (a b : List Instr) : codeSize (a ++ b) = codeSize a + codeSize b := by
  induction a with
  | nil => simp [codeSize]
  | cons i a ih => simp [codeSize, ih]; omega

end Drx.Spec
