/-
  The lexer of the JavaScript-subset reader (`Spec.lexJsAux`) on the text `txJ e`: it produces exactly the tokens `prJ e` of the
  reference printer.  Token by token, then by induction on the tree.
-/
import Drx.LinkJs
import DrxProofs.LscrConst
import DrxProofs.SpecJs
import DrxProofs.LinkJsThe
namespace Drx.LinkJs
open Drx Drx.Lscr Drx.Spec
set_option linter.unusedSimpArgs false
set_option linter.unusedVariables false

/-- lexing the text `t` (followed by `rest`) appends the tokens `toks` and continues with `rest`; `n` = iterations used -/
def LexesTo (t : Str) (toks : List JTok) (rest : Str) : Prop :=
  ∃ n, n ≤ t.length ∧ ∀ (g : Nat) (acc : List JTok), t.length + rest.length + 1 ≤ g + n →
    lexJsAux (g + n) (t ++ rest) acc = lexJsAux g rest (toks.reverse ++ acc)

theorem LexesTo.nil (rest : Str) : LexesTo [] [] rest := ⟨0, Nat.le_refl _, fun g acc _ => by simp⟩

theorem LexesTo.append {t1 t2 : Str} {k1 k2 : List JTok} {rest : Str} (h1 : LexesTo t1 k1 (t2 ++ rest)) (h2 : LexesTo t2 k2 rest) :
    LexesTo (t1 ++ t2) (k1 ++ k2) rest := by
  obtain ⟨n1, hn1, e1⟩ := h1
  obtain ⟨n2, hn2, e2⟩ := h2
  refine ⟨n2 + n1, by simp only [List.length_append]; omega, ?_⟩
  intro g acc hg
  simp only [List.length_append] at hg
  rw [List.append_assoc, ← Nat.add_assoc, e1 (g + n2) acc (by simp only [List.length_append]; omega), e2 g _ (by omega)]
  simp [List.reverse_append, List.append_assoc]

/-- the whole text -/
theorem LexesTo.whole {t : Str} {toks : List JTok} (h : LexesTo t toks []) : lexJs t = some toks := by
  obtain ⟨n, hn, e⟩ := h
  have := e (t.length + 1 - n) [] (by simp; omega)
  have hfe : t.length + 1 - n + n = t.length + 1 := by omega
  rw [hfe, List.append_nil] at this
  unfold lexJs
  rw [this]
  obtain ⟨k, hk⟩ : ∃ k, t.length + 1 - n = k + 1 := ⟨t.length - n, by omega⟩
  rw [hk]
  simp [lexJsAux]

/-- a text whose characters are consumed one iteration each -/
theorem LexesTo.of_step1 (c : Char) (toks : List JTok) (rest : Str)
    (h : ∀ (g : Nat) (acc : List JTok), lexJsAux (g + 1) (c :: rest) acc = lexJsAux g rest (toks.reverse ++ acc)) : LexesTo [c] toks rest :=
  ⟨1, by simp, fun g acc _ => by simpa using h g acc⟩

/-! ### white space and punctuation -/

theorem lex_space (rest : Str) : LexesTo (S " ") [] rest := LexesTo.of_step1 ' ' [] rest (fun g acc => by simp [lexJsAux])
theorem lex_nl (rest : Str) : LexesTo (S "\n") [] rest := LexesTo.of_step1 '\n' [] rest (fun g acc => by simp [lexJsAux])

theorem lex_spaces (k : Nat) (rest : Str) : LexesTo (List.replicate k ' ') [] rest := by
  induction k with
  | zero => exact LexesTo.nil rest
  | succ k ih =>
    have := LexesTo.append (t1 := S " ") (t2 := List.replicate k ' ') (k1 := []) (k2 := []) (rest := rest) (lex_space _) ih
    simpa [List.replicate_succ, S] using this

theorem indentOf_eq (k : Nat) : indentOf k = List.replicate (4 * k) ' ' := by
  induction k with
  | zero => rfl
  | succ k ih =>
    unfold indentOf at ih ⊢
    rw [List.replicate_succ, List.flatten_cons, ih]
    have : 4 * (k + 1) = 4 + 4 * k := by omega
    rw [this, ← List.replicate_append_replicate]
    rfl

theorem lex_indent (k : Nat) (rest : Str) : LexesTo (indentOf k) [] rest := by
  rw [indentOf_eq]; exact lex_spaces _ rest

theorem lex_lp (rest : Str) : LexesTo (S "(") [.p .lp] rest := LexesTo.of_step1 '(' _ rest (fun g acc => by simp [lexJsAux, isJsIdStart])
theorem lex_rp (rest : Str) : LexesTo (S ")") [.p .rp] rest := LexesTo.of_step1 ')' _ rest (fun g acc => by simp [lexJsAux, isJsIdStart])
theorem lex_lc (rest : Str) : LexesTo (S "{") [.p .lc] rest := LexesTo.of_step1 '{' _ rest (fun g acc => by simp [lexJsAux, isJsIdStart])
theorem lex_rc (rest : Str) : LexesTo (S "}") [.p .rc] rest := LexesTo.of_step1 '}' _ rest (fun g acc => by simp [lexJsAux, isJsIdStart])
theorem lex_lb (rest : Str) : LexesTo (S "[") [.p .lb] rest := LexesTo.of_step1 '[' _ rest (fun g acc => by simp [lexJsAux, isJsIdStart])
theorem lex_rb (rest : Str) : LexesTo (S "]") [.p .rb] rest := LexesTo.of_step1 ']' _ rest (fun g acc => by simp [lexJsAux, isJsIdStart])
theorem lex_comma (rest : Str) : LexesTo (S ",") [.p .comma] rest := LexesTo.of_step1 ',' _ rest (fun g acc => by simp [lexJsAux, isJsIdStart])
theorem lex_semi (rest : Str) : LexesTo (S ";") [.p .semi] rest := LexesTo.of_step1 ';' _ rest (fun g acc => by simp [lexJsAux, isJsIdStart])

/-- first character of what follows -/
def HeadIs (P : Char → Prop) (rest : Str) : Prop := ∀ c r, rest = c :: r → P c

theorem HeadIs.cons {P : Char → Prop} {c : Char} {r : Str} (h : P c) : HeadIs P (c :: r) := by
  intro c' r' e; cases e; exact h

theorem HeadIs.nil {P : Char → Prop} : HeadIs P [] := by intro c r e; cases e

theorem lex_dot (rest : Str) (h : HeadIs (· ≠ '.') rest) : LexesTo (S ".") [.p .dot] rest :=
  LexesTo.of_step1 '.' _ rest (fun g acc => by
    cases rest with
    | nil => simp [lexJsAux, isJsIdStart]
    | cons c r => have := h c r rfl; simp [lexJsAux, isJsIdStart, this])

theorem lex_minus (rest : Str) (h : HeadIs (· ≠ '-') rest) : LexesTo (S "-") [.p .minus] rest :=
  LexesTo.of_step1 '-' _ rest (fun g acc => by
    cases rest with
    | nil => simp [lexJsAux, isJsIdStart]
    | cons c r => have := h c r rfl; simp [lexJsAux, isJsIdStart, this])

theorem lex_bang (rest : Str) (h : HeadIs (· ≠ '=') rest) : LexesTo (S "!") [.p .bang] rest :=
  LexesTo.of_step1 '!' _ rest (fun g acc => by
    cases rest with
    | nil => simp [lexJsAux, isJsIdStart]
    | cons c r => have := h c r rfl; simp [lexJsAux, isJsIdStart, this])

/-- `...` of a rest parameter / spread argument -/
theorem lex_dots (rest : Str) : LexesTo (S "...") [.p .dots] rest :=
  ⟨1, by decide, fun g acc _ => by simp [S, lexJsAux, isJsIdStart]⟩

/-- ` = ` of an assignment -/
theorem lex_assign (rest : Str) : LexesTo (S " = ") [.p .assign] rest :=
  ⟨3, by decide, fun g acc _ => by simp [S, lexJsAux, isJsIdStart]⟩

/-- `, ` between arguments -/
theorem lex_commasp (rest : Str) : LexesTo (S ", ") [.p .comma] rest :=
  ⟨2, by decide, fun g acc _ => by simp [S, lexJsAux, isJsIdStart]⟩

/-- the 13 infix operators, written between two spaces -/
theorem lex_infix : ∀ x ∈ jsOps, ∀ rest : Str, LexesTo (S " " ++ x.1 ++ S " ") [x.2.1] rest := by
  intro x hx rest
  simp only [jsOps, List.mem_cons, List.mem_nil_iff, or_false] at hx
  rcases hx with rfl | rfl | rfl | rfl | rfl | rfl | rfl | rfl | rfl | rfl | rfl | rfl | rfl
  all_goals first
    | exact ⟨3, by decide, fun g acc _ => by simp [S, lexJsAux, isJsIdStart]⟩

/-! ### identifiers -/

theorem spanC_all (p : Char → Bool) (a rest : Str) (ha : a.all p = true) (hr : HeadIs (fun c => p c = false) rest) :
    spanC p (a ++ rest) = (a, rest) := by
  induction a with
  | nil =>
    cases rest with
    | nil => simp [spanC]
    | cons c r => simp [spanC, hr c r rfl]
  | cons x xs ih =>
    simp only [List.all_cons, Bool.and_eq_true] at ha
    simp [spanC, ha.1, ih ha.2]

theorem jsIdStart_range (c : Char) (h : isJsIdStart c = true) :
    c.val.toNat = 36 ∨ c.val.toNat = 95 ∨ (65 ≤ c.val.toNat ∧ c.val.toNat ≤ 90) ∨ (97 ≤ c.val.toNat ∧ c.val.toNat ≤ 122) := by
  simp only [isJsIdStart, Char.isAlpha, Char.isUpper, Char.isLower, Bool.or_eq_true, Bool.and_eq_true, decide_eq_true_eq, beq_iff_eq,
    ge_iff_le, UInt32.le_iff_toNat_le] at h
  have eA : 'A'.val.toNat = 65 := rfl
  have eZ : 'Z'.val.toNat = 90 := rfl
  have ea : 'a'.val.toNat = 97 := rfl
  have ez : 'z'.val.toNat = 122 := rfl
  rcases h with ((h | h) | h) | h
  · omega
  · omega
  · subst h; exact Or.inr (Or.inl rfl)
  · subst h; exact Or.inl rfl

theorem jsIdStart_ne (c l : Char) (h : isJsIdStart c = true) (hl : isJsIdStart l = false) : (c == l) = false := by
  cases hc : c == l with
  | false => rfl
  | true => have := eq_of_beq hc; subst this; rw [h] at hl; cases hl

theorem jsIdStart_not_digit (c : Char) (h : isJsIdStart c = true) : c.isDigit = false := by
  have hr := jsIdStart_range c h
  simp only [Char.isDigit, Bool.and_eq_false_iff, decide_eq_false_iff_not, ge_iff_le, UInt32.le_iff_toNat_le]
  have e0 : '0'.val.toNat = 48 := rfl
  have e9 : '9'.val.toNat = 57 := rfl
  omega

theorem jsIdStart_idChar (c : Char) (h : isJsIdStart c = true) : isJsIdChar c = true := by
  simp only [isJsIdStart, Bool.or_eq_true] at h
  simp only [isJsIdChar, Char.isAlphanum, Bool.or_eq_true]
  rcases h with (h | h) | h
  · exact Or.inl (Or.inl (Or.inl h))
  · exact Or.inl (Or.inr h)
  · exact Or.inr h

/-- an identifier followed by something that is not an identifier character -/
theorem lex_id (n : Spec.Name) (h : jsIdLex n = true) (rest : Str) (hr : HeadIs (fun c => isJsIdChar c = false) rest) :
    LexesTo n [.id n] rest := by
  cases n with
  | nil => simp [jsIdLex] at h
  | cons c cs =>
    simp only [jsIdLex, Bool.and_eq_true] at h
    have hall : (c :: cs).all isJsIdChar = true := by simp [jsIdStart_idChar c h.1, h.2]
    have hsp := spanC_all isJsIdChar (c :: cs) rest hall hr
    have n1 := jsIdStart_ne c ' ' h.1 (by decide)
    have n2 := jsIdStart_ne c '\t' h.1 (by decide)
    have n3 := jsIdStart_ne c '\n' h.1 (by decide)
    have n4 := jsIdStart_ne c '\r' h.1 (by decide)
    have n5 := jsIdStart_ne c '"' h.1 (by decide)
    have n6 := jsIdStart_ne c '\'' h.1 (by decide)
    have nd := jsIdStart_not_digit c h.1
    refine ⟨1, by simp, fun g acc _ => ?_⟩
    rw [List.cons_append] at hsp ⊢
    simp only [lexJsAux, n1, n2, n3, n4, n5, n6, nd, h.1, hsp, Bool.or_self, Bool.false_eq_true, if_false, if_true, List.reverse_cons,
      List.reverse_nil, List.nil_append, List.singleton_append]

/-! ### numbers -/

theorem asciiDigit_isDigit (c : Char) : isAsciiDigit c = c.isDigit := by
  simp only [isAsciiDigit, Char.isDigit, Char.le_def, ge_iff_le]

theorem digits_bridge : ∀ (s : Str) (a v : Nat), Lscr.digitsVal s a = some v →
    s.foldl (fun n c => n * 10 + (c.toNat - 48)) a = v ∧ s.all Char.isDigit = true
  | [], a, v, h => by simp [Lscr.digitsVal] at h; simp [h]
  | c :: cs, a, v, h => by
    unfold Lscr.digitsVal at h
    split at h
    · rename_i hc
      obtain ⟨h1, h2⟩ := digits_bridge cs _ v h
      rw [asciiDigit_isDigit] at hc
      exact ⟨by simpa using h1, by simp [hc, h2]⟩
    · cases h

theorem natStr_digits (k : Nat) : Spec.digitsVal (natStr k) = k ∧ (natStr k).all Char.isDigit = true := by
  have := digits_bridge (natStr k) 0 k (digitsVal_natStr k)
  exact ⟨by simpa [Spec.digitsVal] using this.1, this.2⟩

theorem digit_ne (c l : Char) (h : c.isDigit = true) (hl : l.isDigit = false) : (c == l) = false := by
  cases hc : c == l with
  | false => rfl
  | true => have := eq_of_beq hc; subst this; rw [h] at hl; cases hl

theorem idChar_of_digit (c : Char) (h : c.isDigit = true) : isJsIdChar c = true := by
  simp [isJsIdChar, Char.isAlphanum, h]

/-- a decimal integer followed by something that is neither an identifier character nor a point -/
theorem lex_num (k : Nat) (rest : Str) (hr : HeadIs (fun c => isJsIdChar c = false ∧ c ≠ '.') rest) :
    LexesTo (natStr k) [.num k 0] rest := by
  obtain ⟨hval, hall⟩ := natStr_digits k
  cases hd : natStr k with
  | nil => obtain ⟨c, r, e, _⟩ := natStr_head k; rw [hd] at e; cases e
  | cons c cs =>
    rw [hd] at hval hall
    have hc : c.isDigit = true := by simp only [List.all_cons, Bool.and_eq_true] at hall; exact hall.1
    have n1 := digit_ne c ' ' hc (by decide)
    have n2 := digit_ne c '\t' hc (by decide)
    have n3 := digit_ne c '\n' hc (by decide)
    have n4 := digit_ne c '\r' hc (by decide)
    have n5 := digit_ne c '"' hc (by decide)
    have n6 := digit_ne c '\'' hc (by decide)
    have hsp := spanC_all Char.isDigit (c :: cs) rest hall (by
      intro x r e
      cases hx : x.isDigit with
      | false => rfl
      | true => have := (hr x r e).1; rw [idChar_of_digit x hx] at this; cases this)
    refine ⟨1, by simp, fun g acc _ => ?_⟩
    rw [List.cons_append] at hsp ⊢
    cases rest with
    | nil =>
      simp only [lexJsAux, n1, n2, n3, n4, n5, n6, hc, hsp, hval, Bool.or_self, Bool.false_eq_true, if_false, if_true, List.reverse_cons,
        List.reverse_nil, List.nil_append, List.singleton_append]
    | cons x r =>
      obtain ⟨hx1, hx2⟩ := hr x r rfl
      have hx3 : isJsIdStart x = false := by
        cases hs : isJsIdStart x with
        | false => rfl
        | true => rw [jsIdStart_idChar x hs] at hx1; cases hx1
      simp [lexJsAux, n1, n2, n3, n4, n5, n6, hc, hsp, hval, hx2, hx3]

/-! ### string literals -/

theorem jsStr_plain (q c : Char) (F : Nat) (rest acc : Str) (h1 : c ≠ '\\') (h2 : c ≠ q) (h3 : c ≠ '\n') :
    jsStr q (F + 1) (c :: rest) acc = jsStr q F rest (c :: acc) := by
  rw [jsStr.eq_def]; simp [h1, h2, h3]

theorem jsStr_close (q : Char) (F : Nat) (rest acc : Str) (h1 : q ≠ '\\') :
    jsStr q (F + 1) (q :: rest) acc = some (acc.reverse, rest) := by
  rw [jsStr.eq_def]; simp [h1]

theorem jsStr_x (q : Char) (F : Nat) (a b : Char) (n : Nat) (rest acc : Str) (h : Spec.hex2 a b = some n) :
    jsStr q (F + 1) ('\\' :: 'x' :: a :: b :: rest) acc = jsStr q F rest (Char.ofNat n :: acc) := by
  rw [jsStr.eq_def]; simp [h]

theorem jsStr_u (q : Char) (F : Nat) (a b c d : Char) (n m : Nat) (rest acc : Str) (h : Spec.hex2 a b = some n) (h' : Spec.hex2 c d = some m) :
    jsStr q (F + 1) ('\\' :: 'u' :: a :: b :: c :: d :: rest) acc = jsStr q F rest (Char.ofNat (256 * n + m) :: acc) := by
  rw [jsStr.eq_def]; simp [h, h']

/-- body of a single-quoted literal without quote, backslash or line end -/
theorem jsStr_plain_s (s rest : Str) (h : sstrOk s = true) : ∀ (F : Nat) (acc : Str), s.length + 1 ≤ F →
    jsStr '\'' F (s ++ '\'' :: rest) acc = some (acc.reverse ++ s, rest) := by
  induction s with
  | nil =>
    intro F acc hF
    obtain ⟨f, rfl⟩ : ∃ f, F = f + 1 := ⟨F - 1, by simp at hF; omega⟩
    rw [List.nil_append, jsStr_close _ _ _ _ (by decide)]; simp
  | cons c cs ih =>
    intro F acc hF
    simp only [sstrOk, List.all_cons, Bool.and_eq_true, bne_iff_ne, ne_eq] at h
    obtain ⟨⟨⟨h1, h2⟩, h3⟩, hcs⟩ := h
    obtain ⟨f, rfl⟩ : ∃ f, F = f + 1 := ⟨F - 1, by simp at hF; omega⟩
    have := ih (by simpa [sstrOk] using hcs) f (c :: acc) (by simp at hF; omega)
    rw [List.cons_append, jsStr_plain _ c f _ acc h2 h1 h3, this]
    simp

theorem lex_sstr (s : Spec.Name) (h : sstrOk s = true) (rest : Str) : LexesTo (S "'" ++ s ++ S "'") [.sstr s] rest := by
  refine ⟨1, by simp [S], fun g acc hg => ?_⟩
  have e : S "'" ++ s ++ S "'" ++ rest = '\'' :: (s ++ '\'' :: rest) := by simp [S]
  rw [e]
  have := jsStr_plain_s s rest h (s.length + (rest.length + 1) + 1) [] (by omega)
  simp only [List.reverse_nil, List.nil_append] at this
  simp [lexJsAux, this]

theorem spec_hexVal_hexDigit : ∀ d, d < 16 → Spec.hexVal (hexDigit d) = some d := by decide

theorem spec_hex2 (n : Nat) (h : n < 256) : Spec.hex2 (hexDigit (n / 16 % 16)) (hexDigit (n % 16)) = some n := by
  have h1 := spec_hexVal_hexDigit (n / 16 % 16) (Nat.mod_lt _ (by omega))
  have h2 := spec_hexVal_hexDigit (n % 16) (Nat.mod_lt _ (by omega))
  simp only [Spec.hex2, h1, h2, Option.bind_eq_bind, Option.bind_some, Option.pure_def, bind, pure]
  congr 1
  omega

/-- one character of the text, as the translator writes it inside the double quotes, is read back as that character -/
theorem jsStr_char (c : Char) (hc : c.toNat < 65536) (rest : Str) (F : Nat) (acc : Str) :
    jsStr '"' (F + 1) ((unicodeEscapeChar c).flatMap jsQuote ++ rest) acc = jsStr '"' F rest (c :: acc) := by
  unfold unicodeEscapeChar
  by_cases h1 : c = '\\'
  · subst h1; simp only [if_true]; rw [jsStr.eq_def]; simp [jsQuote]
  · by_cases h2 : c = '\t'
    · subst h2; simp only [h1, if_false, if_true]; rw [jsStr.eq_def]; simp [jsQuote]
    · by_cases h3 : c = '\n'
      · subst h3; simp only [h1, h2, if_false, if_true]; rw [jsStr.eq_def]; simp [jsQuote]
      · by_cases h4 : c = '\r'
        · subst h4; simp only [h1, h2, h3, if_false, if_true]; rw [jsStr.eq_def]; simp [jsQuote]
        · simp only [h1, h2, h3, h4, if_false]
          by_cases hp : 32 ≤ c.toNat ∧ c.toNat < 127
          · simp only [hp, and_self, if_true]
            by_cases hq : c = '"'
            · subst hq; rw [jsStr.eq_def]; simp [jsQuote]
            · simp only [List.flatMap_cons, List.flatMap_nil, jsQuote, hq, if_false, List.append_nil, List.cons_append, List.nil_append]
              exact jsStr_plain _ c F rest acc h1 hq h3
          · simp only [hp, if_false]
            by_cases h8 : c.toNat < 256
            · simp only [h8, if_true, Lscr.hex2]
              have e1 := jsQuote_hexDigit (c.toNat / 16 % 16) (Nat.mod_lt _ (by omega))
              have e2 := jsQuote_hexDigit (c.toNat % 16) (Nat.mod_lt _ (by omega))
              have q1 : jsQuote '\\' = ['\\'] := by decide
              have q2 : jsQuote 'x' = ['x'] := by decide
              simp only [List.flatMap_cons, List.flatMap_nil, q1, q2, e1, e2, List.append_nil, List.cons_append, List.nil_append]
              rw [jsStr_x _ F _ _ c.toNat rest acc (spec_hex2 c.toNat h8), Char.ofNat_toNat]
            · have hlt : c.toNat < 65536 := hc
              simp only [h8, hlt, if_false, if_true, hex4l]
              have e1 := jsQuote_hexDigit (c.toNat / 4096 % 16) (Nat.mod_lt _ (by omega))
              have e2 := jsQuote_hexDigit (c.toNat / 256 % 16) (Nat.mod_lt _ (by omega))
              have e3 := jsQuote_hexDigit (c.toNat / 16 % 16) (Nat.mod_lt _ (by omega))
              have e4 := jsQuote_hexDigit (c.toNat % 16) (Nat.mod_lt _ (by omega))
              have q1 : jsQuote '\\' = ['\\'] := by decide
              have q2 : jsQuote 'u' = ['u'] := by decide
              simp only [List.flatMap_cons, List.flatMap_nil, q1, q2, e1, e2, e3, e4, List.append_nil, List.cons_append, List.nil_append]
              have g1 : Spec.hex2 (hexDigit (c.toNat / 4096 % 16)) (hexDigit (c.toNat / 256 % 16)) = some (c.toNat / 256) := by
                have := spec_hex2 (c.toNat / 256) (by omega)
                have ea : c.toNat / 256 / 16 % 16 = c.toNat / 4096 % 16 := by omega
                rw [ea] at this; exact this
              have g2 : Spec.hex2 (hexDigit (c.toNat / 16 % 16)) (hexDigit (c.toNat % 16)) = some (c.toNat % 256) := by
                have := spec_hex2 (c.toNat % 256) (by omega)
                have ea : c.toNat % 256 / 16 % 16 = c.toNat / 16 % 16 := by omega
                have eb : c.toNat % 256 % 16 = c.toNat % 16 := by omega
                rw [ea, eb] at this; exact this
              have g3 : 256 * (c.toNat / 256) + c.toNat % 256 = c.toNat := by omega
              rw [jsStr_u _ F _ _ _ _ _ _ rest acc g1 g2, g3, Char.ofNat_toNat]

theorem escQ_eq (s : Str) : escQ s = (unicodeEscape s).flatMap jsQuote := by
  unfold escQ; exact replaceAll_quote _

theorem jsStr_escQ (s rest : Str) (hs : strOk s = true) : ∀ (F : Nat) (acc : Str), s.length + 1 ≤ F →
    jsStr '"' F (escQ s ++ '"' :: rest) acc = some (acc.reverse ++ s, rest) := by
  rw [escQ_eq]
  induction s with
  | nil =>
    intro F acc hF
    obtain ⟨f, rfl⟩ : ∃ f, F = f + 1 := ⟨F - 1, by simp at hF; omega⟩
    simp only [unicodeEscape, List.flatMap_nil, List.nil_append]
    rw [jsStr_close _ _ _ _ (by decide)]; simp
  | cons c cs ih =>
    intro F acc hF
    simp only [strOk, List.all_cons, Bool.and_eq_true, decide_eq_true_eq] at hs
    obtain ⟨f, rfl⟩ : ∃ f, F = f + 1 := ⟨F - 1, by simp at hF; omega⟩
    have := ih (by simpa [strOk] using hs.2) f (c :: acc) (by simp at hF; omega)
    simp only [unicodeEscape, List.flatMap_cons, List.flatMap_append, List.append_assoc] at this ⊢
    rw [jsStr_char c hs.1, this]
    simp

theorem length_le_escQ (s : Str) : s.length ≤ (escQ s).length := by
  rw [escQ_eq]
  induction s with
  | nil => simp
  | cons c cs ih =>
    have h1 : 1 ≤ ((unicodeEscapeChar c).flatMap jsQuote).length := by
      have hne : unicodeEscapeChar c ≠ [] := by
        unfold unicodeEscapeChar
        repeat (first | split | simp)
      cases hu : unicodeEscapeChar c with
      | nil => exact absurd hu hne
      | cons x xs =>
        simp only [List.flatMap_cons, List.length_append]
        have : 1 ≤ (jsQuote x).length := by unfold jsQuote; split <;> simp
        omega
    simp only [unicodeEscape, List.flatMap_cons, List.flatMap_append, List.length_append, List.length_cons] at ih ⊢
    omega

theorem lex_dstr (s : Spec.Name) (h : strOk s = true) (rest : Str) : LexesTo (S "\"" ++ escQ s ++ S "\"") [.dstr s] rest := by
  refine ⟨1, by simp [S], fun g acc hg => ?_⟩
  have e : S "\"" ++ escQ s ++ S "\"" ++ rest = '"' :: (escQ s ++ '"' :: rest) := by simp [S]
  rw [e]
  have hl := length_le_escQ s
  have := jsStr_escQ s rest h ((escQ s).length + (rest.length + 1) + 1) [] (by omega)
  simp only [List.reverse_nil, List.nil_append] at this
  simp [lexJsAux, this]

/-! ### expression trees -/

mutual
/-- trees whose leaves are lexically well formed (identifiers are identifiers, strings are escapable, integers only) -/
def LexOK : JE → Prop
  | .num _ s => s = 0
  | .lstr s => strOk s = true
  | .dstr s => strOk s = true
  | .sstr s => sstrOk s = true
  | .id n => jsIdLex n = true
  | .mem o n => LexOK o ∧ jsIdLex n = true
  | .idx o i => LexOK o ∧ LexOK i
  | .call f as => LexOK f ∧ LexOKL as
  | .newLS e => LexOK e
  | .un op a => (op = "-".toList ∨ op = "!".toList) ∧ LexOK a
  | .bin op a b => (jsOpInfo op).isSome = true ∧ LexOK a ∧ LexOK b
  | .spread n => jsIdLex n = true
def LexOKL : List JE → Prop
  | [] => True
  | e :: es => LexOK e ∧ LexOKL es
end

def isNum : JE → Bool
  | .num _ _ => true
  | _ => false

/-- what may follow the text of `e`: nothing that continues an identifier or a number -/
def Sep (e : JE) (rest : Str) : Prop := HeadIs (fun c => isJsIdChar c = false ∧ (isNum e = true → c ≠ '.')) rest

/-- the strong form, good after every tree -/
def SepAll (rest : Str) : Prop := HeadIs (fun c => isJsIdChar c = false ∧ c ≠ '.') rest

theorem SepAll.sep {rest : Str} (h : SepAll rest) (e : JE) : Sep e rest := fun c r e' => ⟨(h c r e').1, fun _ => (h c r e').2⟩

theorem Sep.idc {e : JE} {rest : Str} (h : Sep e rest) : HeadIs (fun c => isJsIdChar c = false) rest := fun c r e' => (h c r e').1

/-- `HeadIs P (literal ++ …)` by looking at the literal's first character -/
macro "headis" : tactic =>
  `(tactic| (intro c r e; simp [S] at e; have hc := e.1; subst hc; first | decide | (constructor <;> (try intro _) <;> decide)))

theorem sepAll_of_cons (c : Char) (r : Str) (h1 : isJsIdChar c = false) (h2 : c ≠ '.') : SepAll (c :: r) := HeadIs.cons ⟨h1, h2⟩

theorem jsIdLex_headNe (n rest : Str) (h : jsIdLex n = true) (x : Char) (hx : isJsIdStart x = false) : HeadIs (· ≠ x) (n ++ rest) := by
  cases n with
  | nil => simp [jsIdLex] at h
  | cons c cs =>
    simp only [jsIdLex, Bool.and_eq_true] at h
    intro c' r' e
    simp only [List.cons_append, List.cons.injEq] at e
    obtain ⟨rfl, _⟩ := e
    intro e2; subst e2; rw [h.1] at hx; cases hx

theorem isNum_needsParen (o : JE) (h : o.needsParen = false) : isNum o = false := by
  cases o <;> simp_all [isNum, JE.needsParen]

/-- the receiver position: parenthesised when `needsParen` -/
theorem lex_recv (o : JE) (ih : ∀ rest, Sep o rest → LexesTo (txJ o) (prJ o) rest) (rest : Str)
    (hr : HeadIs (fun c => isJsIdChar c = false) rest) :
    LexesTo (if o.needsParen then S "(" ++ txJ o ++ S ")" else txJ o) (wrapRecv o (prJ o)) rest := by
  cases hp : o.needsParen with
  | true =>
    have h2 := ih (S ")" ++ rest) (by headis)
    have := (lex_lp _).append (h2.append (lex_rp rest))
    simpa [wrapRecv, hp, S] using this
  | false =>
    have hn := isNum_needsParen o hp
    have := ih rest (fun c r e => ⟨hr c r e, fun h => by rw [hn] at h; cases h⟩)
    simpa [wrapRecv, hp] using this

theorem jsOpInfo_lex (op : Spec.Name) (h : (jsOpInfo op).isSome = true) :
    ∃ x ∈ jsOps, x.1 = op ∧ (jsOpTok op).getD (.p .plus) = x.2.1 := by
  obtain ⟨y, hy⟩ := Option.isSome_iff_exists.mp h
  obtain ⟨hy1, hy2⟩ := jsOpInfo_spec op y hy
  refine ⟨y, hy1, hy2, ?_⟩
  have := jsOps_tok y hy1
  rw [hy2] at this; simp [this]

mutual
/-- **lexing**: the text of a tree lexes to the tokens of the reference printer -/
theorem lexE : ∀ (e : JE), LexOK e → ∀ (rest : Str), Sep e rest → LexesTo (txJ e) (prJ e) rest
  | .num d s, h, rest, hs => by
    have : s = 0 := h
    subst this
    simpa [txJ, prJ] using lex_num d rest (fun c r e => ⟨(hs c r e).1, (hs c r e).2 rfl⟩)
  | .lstr s, h, rest, hs => by
    have := (lex_id (S "new") (by decide) _ (by headis)).append ((lex_space _).append
      ((lex_id (S "LingoString") (by decide) _ (by headis)).append ((lex_lp _).append ((lex_dstr s h _).append (lex_rp rest)))))
    simpa [txJ, prJ, S] using this
  | .dstr s, h, rest, hs => by simpa [txJ, prJ] using lex_dstr s h rest
  | .sstr s, h, rest, hs => by simpa [txJ, prJ] using lex_sstr s h rest
  | .id n, h, rest, hs => by simpa [txJ, prJ] using lex_id n h rest hs.idc
  | .mem o n, h, rest, hs => by
    obtain ⟨ho, hn⟩ : LexOK o ∧ jsIdLex n = true := h
    have := (lex_recv o (fun r hr => lexE o ho r hr) _ (by headis)).append
      ((lex_dot _ (jsIdLex_headNe n rest hn '.' (by decide))).append (lex_id n hn rest hs.idc))
    simpa [txJ, prJ, S] using this
  | .idx o i, h, rest, hs => by
    obtain ⟨ho, hi⟩ : LexOK o ∧ LexOK i := h
    have := (lex_recv o (fun r hr => lexE o ho r hr) _ (by headis)).append
      ((lex_lb _).append ((lexE i hi _ (by headis)).append (lex_rb rest)))
    simpa [txJ, prJ, S] using this
  | .call g as, h, rest, hs => by
    obtain ⟨hg, has⟩ : LexOK g ∧ LexOKL as := h
    have := (lex_recv g (fun r hr => lexE g hg r hr) _ (by headis)).append
      ((lex_lp _).append ((lexArgs as has _ (by headis)).append (lex_rp rest)))
    simpa [txJ, prJ, S] using this
  | .newLS e, h, rest, hs => by
    have he : LexOK e := h
    have := (lex_id (S "new") (by decide) _ (by headis)).append ((lex_space _).append
      ((lex_id (S "LingoString") (by decide) _ (by headis)).append ((lex_lp _).append ((lexE e he _ (by headis)).append (lex_rp rest)))))
    simpa [txJ, prJ, S] using this
  | .un op a, h, rest, hs => by
    obtain ⟨hop, ha⟩ : (op = "-".toList ∨ op = "!".toList) ∧ LexOK a := h
    rcases hop with rfl | rfl
    · have := (lex_minus _ (by headis)).append ((lex_lp _).append ((lexE a ha _ (by headis)).append (lex_rp rest)))
      have ht : (jsUnTok ['-']).getD (.p .bang) = .p .minus := by decide
      simpa [txJ, prJ, S, ht] using this
    · have := (lex_bang _ (by headis)).append ((lex_lp _).append ((lexE a ha _ (by headis)).append (lex_rp rest)))
      have ht : (jsUnTok ['!']).getD (.p .bang) = .p .bang := by decide
      simpa [txJ, prJ, S, ht] using this
  | .bin op a b, h, rest, hs => by
    obtain ⟨hop, ha, hb⟩ : (jsOpInfo op).isSome = true ∧ LexOK a ∧ LexOK b := h
    obtain ⟨x, hx, rfl, htok⟩ := jsOpInfo_lex op hop
    have := (lex_lp _).append ((lexE a ha _ (by headis)).append ((lex_infix x hx _).append
      ((lexE b hb _ (by headis)).append (lex_rp rest))))
    simpa [txJ, prJ, S, htok] using this
  | .spread n, h, rest, hs => by
    have hn : jsIdLex n = true := h
    have := (lex_dots _).append (lex_id n hn rest hs.idc)
    simpa [txJ, prJ, S] using this
/-- argument lists, separated by `, ` -/
theorem lexArgs : ∀ (es : List JE), LexOKL es → ∀ (rest : Str), SepAll rest → LexesTo (txArgs es) (prJArgs es) rest
  | [], _, rest, _ => by simpa [txArgs, prJArgs] using LexesTo.nil rest
  | [e], h, rest, hs => by
    obtain ⟨he, _⟩ : LexOK e ∧ LexOKL [] := h
    simpa [txArgs, prJArgs] using lexE e he rest (hs.sep e)
  | e :: e2 :: es, h, rest, hs => by
    obtain ⟨he, hes⟩ : LexOK e ∧ LexOKL (e2 :: es) := h
    have := (lexE e he _ (by headis)).append ((lex_commasp _).append (lexArgs (e2 :: es) hes rest hs))
    simpa [txArgs, prJArgs, S] using this
end

/-! ### the translation of a fragment expression is lexically well formed and lies in the reader's fragment -/

theorem lexok_jid (x : String) (h : jsIdLex x.toList = true) : LexOK (jid x) := by
  simp only [jid, LexOK]; exact h

theorem jsBinOp_info' (op : BinOp) (o : String) (h : jsBinOp op = some o) : (jsOpInfo o.toList).isSome = true := jsBinOp_info op o h

theorem jsMethodOp_lex (op : BinOp) (m : String) (h : jsMethodOp op = some m) : jsIdLex m.toList = true := by
  cases op <;> simp [jsMethodOp] at h <;> subst h <;> decide

/-- an index of `idxJsOk` is an expression of the fragment -/
theorem idxJsOk_ok (e : Expr) (h : idxJsOk e = true) : JsOkE e = true := by
  cases e with
  | int k => rfl
  | var kd v =>
    cases kd with
    | loc => simp only [idxJsOk, Bool.and_eq_true] at h; simp only [JsOkE, Bool.or_eq_true]; exact Or.inr h.1
    | param => simp only [idxJsOk, Bool.and_eq_true] at h; simp only [JsOkE, Bool.or_eq_true]; exact Or.inr h.1
    | _ => simp [idxJsOk] at h
  | _ => simp [idxJsOk] at h

/-- the property name `toJs` takes from a table is an identifier when all names of the table are -/
theorem prop_lex (tb : List (Nat × String)) (htb : (tb.all fun x => jsIdLex x.2.toList) = true) (k : Nat) :
    jsIdLex ((tblLookupIdx tb k).getD "UNKNOWN".toList) = true := by
  unfold tblLookupIdx
  cases hf : tb.find? (fun x => x.1 == k) with
  | none => decide
  | some x =>
    rw [List.all_eq_true] at htb
    simpa using htb x (List.mem_of_find?_eq_some hf)

theorem chunkTy_lex (r : Nat) (ty : Str) (h : Link.chunkTy r = some ty) : jsIdLex ty = true := by
  unfold Link.chunkTy at h
  cases ho : ChunkKind.ofRank r with
  | none => rw [ho] at h; simp at h
  | some ck =>
    rw [ho] at h
    simp only [Option.map_some, Option.some.injEq] at h
    subst h
    cases ck <;> decide

theorem jsIdOk_lex' (n : Spec.Name) (h : jsIdOk n = true) : jsIdLex n = true := by
  simp only [jsIdOk, Bool.and_eq_true] at h; exact h.1

mutual
theorem toJsE_lexok (c : JCtx) : ∀ (e : Expr), JsOkE e = true → LexOK (toJsE c e)
  | .int _, _ => by simp [toJsE, LexOK]
  | .str s, h => by simpa [toJsE, LexOK, JsOkE] using h
  | .sym n, h => by
    have hs : jsIdLex "symbol".toList = true := by decide
    have h' : sstrOk n = true := by simpa [JsOkE] using h
    simp only [toJsE, jcall, LexOK, LexOKL]; exact ⟨hs, h', trivial⟩
  | .var .loc n, h => by
    simp only [JsOkE, Bool.or_eq_true, beq_iff_eq] at h
    by_cases hm : n = "me".toList
    · simp only [toJsE, hm, if_true]; exact lexok_jid "this" (by decide)
    · rcases h with h | h
      · exact absurd h hm
      · simp only [toJsE, hm, if_false, LexOK]
        simp only [jsIdOk, Bool.and_eq_true] at h; exact h.1
  | .var .param n, h => by
    simp only [JsOkE, Bool.or_eq_true, beq_iff_eq] at h
    by_cases hm : n = "me".toList
    · simp only [toJsE, hm, if_true]; exact lexok_jid "this" (by decide)
    · rcases h with h | h
      · exact absurd h hm
      · simp only [toJsE, hm, if_false, LexOK]
        simp only [jsIdOk, Bool.and_eq_true] at h; exact h.1
  | .var .glob n, h => by
    have h' : jsIdLex n = true := by simpa [JsOkE] using h
    simp only [toJsE, LexOK]; exact ⟨lexok_jid "_global" (by decide), h'⟩
  | .var .prop n, h => by
    have h' : jsIdLex n = true := by simpa [JsOkE] using h
    simp only [toJsE, LexOK]; exact ⟨lexok_jid "this" (by decide), h'⟩
  | .un .neg a, h => by
    have := toJsE_lexok c a (by simpa [JsOkE] using h)
    simp only [toJsE, LexOK]; exact ⟨Or.inl trivial, this⟩
  | .un .not a, h => by
    have := toJsE_lexok c a (by simpa [JsOkE] using h)
    simp only [toJsE, LexOK]; exact ⟨Or.inr trivial, this⟩
  | .field a, h => by
    have := toJsE_lexok c a (by simpa [JsOkE] using h)
    have hf : jsIdLex "field".toList = true := by decide
    simp only [toJsE, jcall, LexOK, LexOKL]; exact ⟨hf, this, trivial⟩
  | .bin op a b, h => by
    simp only [JsOkE, Bool.and_eq_true] at h
    have fa := toJsE_lexok c a h.1
    have fb := toJsE_lexok c b h.2
    have hs : jsIdLex "sprite".toList = true := by decide
    cases hop : jsBinOp op with
    | some o =>
      simp only [toJsE, hop, LexOK]
      exact ⟨jsBinOp_info' op o hop, fa, fb⟩
    | none =>
      cases hm : jsMethodOp op with
      | some m => simp only [toJsE, hop, hm, jmem, LexOK, LexOKL]; exact ⟨⟨fa, jsMethodOp_lex op m hm⟩, fb, trivial⟩
      | none =>
        simp only [toJsE, hop, hm, jmem, jcall, LexOK, LexOKL]
        refine ⟨⟨⟨hs, fa, trivial⟩, ?_⟩, ⟨hs, fb, trivial⟩, trivial⟩
        split <;> decide
  | .call f as, h => by
    simp only [JsOkE, Bool.and_eq_true, Bool.not_eq_true'] at h
    obtain ⟨⟨⟨hid, hsp⟩, _⟩, has⟩ := h
    have hnew : f ≠ S "new" := by
      intro e; simp only [jsIdOk, Bool.and_eq_true, Bool.not_eq_true'] at hid
      rw [e] at hid; exact absurd hid.2 (by decide)
    have hsp' : f ≠ S "birth" ∧ f ≠ S "go" ∧ f ≠ S "cast" ∧ f ≠ S "continue" := by
      simp only [specialCall, Bool.or_eq_false_iff, beq_eq_false_iff_ne, ne_eq] at hsp
      exact ⟨hsp.1.1.1.1, hsp.1.1.1.2, hsp.1.1.2, hsp.1.2⟩
    have h1' : ¬ f = "birth".toList := hsp'.1
    have h2' : ¬ f = "new".toList := hnew
    have h3' : ¬ f = "go".toList := hsp'.2.1
    have h4' : ¬ f = "cast".toList := hsp'.2.2.1
    have h5' : ¬ f = "continue".toList := hsp'.2.2.2
    have fas := toJsEs_lexok c as has
    simp only [toJsE, toJsCall, h1', h2', h3', h4', h5', if_false, LexOK]
    simp only [jsIdOk, Bool.and_eq_true] at hid
    exact ⟨hid.1, fas⟩
  | .list as, h => by
    have fas := toJsEs_lexok c as (by simpa [JsOkE] using h)
    have hl : jsIdLex "list".toList = true := by decide
    simp only [toJsE, jcall, LexOK]; exact ⟨hl, fas⟩
  | .float _ _, h => by simp [JsOkE] at h
  | .me, h => by simp [JsOkE] at h
  | .mcall o m as, h => by
    simp only [JsOkE, Bool.and_eq_true] at h
    obtain ⟨⟨hro, hm⟩, has⟩ := h
    obtain ⟨x, ⟨hx1, _, _, _⟩, hte, _, _⟩ := recvJsOk_spec c o m as hro
    rw [hte]
    simp only [jcall, LexOK, LexOKL]
    exact ⟨jsIdOk_lex' x hx1, ⟨by decide, hm, trivial⟩, toJsEs_lexok c as has⟩
  | .plist as, h => by
    have fas := toJsEs_lexok c as (by simpa [JsOkE] using h)
    have hl : jsIdLex "propList".toList = true := by decide
    simp only [toJsE, jcall, LexOK]; exact ⟨hl, fas⟩
  | .oprop v o, h => by
    simp only [JsOkE, Bool.and_eq_true] at h
    simp only [toJsE, LexOK]; exact ⟨toJsE_lexok c o h.2, h.1⟩
  | .chunk k a b d, h => by
    simp only [JsOkE, Bool.and_eq_true] at h
    have fa := toJsE_lexok c a h.1.1
    have fb := toJsE_lexok c b h.1.2
    have fd := toJsE_lexok c d h.2
    have hr : jsIdLex "range".toList = true := by decide
    have hk : jsIdLex k.tag.toList = true := by cases k <;> decide
    simp only [toJsE, jmem, LexOK]
    refine ⟨⟨fd, hk⟩, ?_⟩
    split
    · exact fa
    · simp only [jcall, LexOK, LexOKL]; exact ⟨hr, fa, fb, trivial⟩
  | .the t k as, h => by
    match as, h with
    | [e], h =>
      rcases jsOkE_the t k e h with ⟨h1, h2⟩ | ⟨op, r, ty, hs, hty, _, _, he⟩ | ⟨rfl, he⟩
      · have fe := toJsE_lexok c e (idxJsOk_ok e h2)
        cases t with
        | sound =>
          simp only [toJsE, toJsEs, toJsThe, jcall, LexOK, LexOKL]
          exact ⟨⟨by decide, fe, trivial⟩, prop_lex tblSound (by decide) k⟩
        | sprite =>
          simp only [toJsE, toJsEs, toJsThe, jcall, LexOK, LexOKL]
          exact ⟨⟨by decide, fe, trivial⟩, prop_lex tblSprite (by decide) k⟩
        | cast =>
          simp only [toJsE, toJsEs, toJsThe, jcall, LexOK, LexOKL]
          exact ⟨⟨by decide, fe, trivial⟩, prop_lex tblCast (by decide) k⟩
        | video =>
          simp only [toJsE, toJsEs, toJsThe, jcall, LexOK, LexOKL]
          exact ⟨⟨by decide, fe, trivial⟩, prop_lex tblVideo (by decide) k⟩
        | _ => simp [Link.theTbl] at h1
      · have fe := toJsE_lexok c e he
        have hty' : jsIdLex ty = true := chunkTy_lex r ty hty
        rcases toJsE_strThe c t k e op r ty hs hty with ⟨_, e1⟩ | ⟨_, e1⟩
        · rw [e1]; simp only [LexOK]; exact ⟨⟨fe, hty'⟩, by decide⟩
        · rw [e1]; simp only [jmem, LexOK]; exact ⟨⟨fe, hty'⟩, by decide⟩
      · have fe := toJsE_lexok c e he
        rw [toJsE_fieldThe]
        simp only [jcall, LexOK, LexOKL]
        exact ⟨⟨by decide, fe, trivial⟩, prop_lex tblCast (by decide) k⟩
    | [], h =>
      cases t with
      | special =>
        have hk : k < 6 := by simpa [JsOkE] using h
        simp only [toJsE, toJsEs, toJsThe, hk, if_true, LexOK]
        exact ⟨lexok_jid "_system" (by decide), (special_owner k hk).2⟩
      | _ => simp [JsOkE] at h
    | _ :: _ :: _, h => simp [JsOkE] at h
  | .key v, h => by
    have hv : jsIdLex v = true := by simpa [JsOkE] using h
    by_cases hd : v = "date".toList ∨ v = "time".toList
    · simp only [toJsE, hd, if_true, jmem, LexOK, LexOKL]
      refine ⟨⟨lexok_jid "_system" (by decide), by decide⟩, ?_, trivial⟩
      rcases hd with rfl | rfl <;> decide
    · simp only [toJsE, hd, if_false, LexOK]
      exact ⟨lexok_jid _ (key_owner_lex v), hv⟩
  | .movie _, h => by simp [JsOkE] at h
theorem toJsEs_lexok (c : JCtx) : ∀ (es : List Expr), JsOkL es = true → LexOKL (toJsEs c es)
  | [], _ => by simp [toJsEs, LexOKL]
  | e :: es, h => by
    simp only [JsOkL, Bool.and_eq_true] at h
    simp only [toJsEs, LexOKL]
    exact ⟨toJsE_lexok c e h.1, toJsEs_lexok c es h.2⟩
end

theorem jsIdOk_okId (n : Spec.Name) (h : jsIdOk n = true) : OkId n := by
  simp only [jsIdOk, Bool.and_eq_true, Bool.not_eq_true'] at h
  refine ⟨h.2, ?_⟩
  intro e; rw [e] at h; exact absurd h.2 (by decide)

theorem okId_of (x : String) (h : (isJsKeyword x.toList = false ∧ x.toList ≠ "new".toList)) : JFrag (jid x) := by
  simp only [jid, JFrag]; exact h

mutual
/-- the translation of a fragment expression lies in the fragment of the reader theorem (`JFrag`: every identifier is a
    non-reserved word, operators are the thirteen infix ones) — agent-lspec's `toJsE_frag`, re-proved on `JsOkE` because their source
    fragment `JsSrc` leaves out the built-in `the … of <object>` tables -/
theorem toJsE_fragJ (c : JCtx) : ∀ (e : Expr), JsOkE e = true → JFrag (toJsE c e)
  | .int _, _ => by simp [toJsE, JFrag]
  | .str _, _ => by simp [toJsE, JFrag]
  | .sym n, _ => by
    simp only [toJsE, jcall, JFrag, JFragL]; exact ⟨by decide, trivial, trivial⟩
  | .var .loc n, h => by
    simp only [JsOkE, Bool.or_eq_true, beq_iff_eq] at h
    by_cases hm : n = "me".toList
    · simp only [toJsE, hm, if_true]; exact okId_of "this" (by decide)
    · rcases h with h | h
      · exact absurd h hm
      · simp only [toJsE, hm, if_false, JFrag]; exact jsIdOk_okId n h
  | .var .param n, h => by
    simp only [JsOkE, Bool.or_eq_true, beq_iff_eq] at h
    by_cases hm : n = "me".toList
    · simp only [toJsE, hm, if_true]; exact okId_of "this" (by decide)
    · rcases h with h | h
      · exact absurd h hm
      · simp only [toJsE, hm, if_false, JFrag]; exact jsIdOk_okId n h
  | .var .glob n, _ => by simp only [toJsE, JFrag]; exact okId_of "_global" (by decide)
  | .var .prop n, _ => by simp only [toJsE, JFrag]; exact okId_of "this" (by decide)
  | .un .neg a, h => by
    have := toJsE_fragJ c a (by simpa [JsOkE] using h)
    simp only [toJsE, JFrag]; exact ⟨Or.inl trivial, this⟩
  | .un .not a, h => by
    have := toJsE_fragJ c a (by simpa [JsOkE] using h)
    simp only [toJsE, JFrag]; exact ⟨Or.inr trivial, this⟩
  | .field a, h => by
    have := toJsE_fragJ c a (by simpa [JsOkE] using h)
    simp only [toJsE, jcall, JFrag, JFragL]; exact ⟨by decide, this, trivial⟩
  | .bin op a b, h => by
    simp only [JsOkE, Bool.and_eq_true] at h
    have fa := toJsE_fragJ c a h.1
    have fb := toJsE_fragJ c b h.2
    have hs : isJsKeyword "sprite".toList = false ∧ "sprite".toList ≠ "new".toList := by decide
    cases hop : jsBinOp op with
    | some o =>
      simp only [toJsE, hop, JFrag]
      exact ⟨jsBinOp_info' op o hop, fa, fb⟩
    | none =>
      cases hm : jsMethodOp op with
      | some m => simp only [toJsE, hop, hm, jmem, JFrag, JFragL]; exact ⟨fa, fb, trivial⟩
      | none =>
        simp only [toJsE, hop, hm, jmem, jcall, JFrag, JFragL]
        exact ⟨⟨hs, fa, trivial⟩, ⟨hs, fb, trivial⟩, trivial⟩
  | .call f as, h => by
    simp only [JsOkE, Bool.and_eq_true, Bool.not_eq_true'] at h
    obtain ⟨⟨⟨hid, hsp⟩, _⟩, has⟩ := h
    have hok := jsIdOk_okId f hid
    have hnew : f ≠ "new".toList := hok.2
    simp only [specialCall, Bool.or_eq_false_iff, beq_eq_false_iff_ne, ne_eq] at hsp
    have h1 : ¬ f = "birth".toList := hsp.1.1.1.1
    have h2 : ¬ f = "go".toList := hsp.1.1.1.2
    have h3 : ¬ f = "cast".toList := hsp.1.1.2
    have h4 : ¬ f = "continue".toList := hsp.1.2
    have fas := toJsEs_fragJ c as has
    simp only [toJsE, toJsCall, h1, hnew, h2, h3, h4, if_false, JFrag]
    exact ⟨hok, fas⟩
  | .list as, h => by
    have fas := toJsEs_fragJ c as (by simpa [JsOkE] using h)
    simp only [toJsE, jcall, JFrag]; exact ⟨by decide, fas⟩
  | .plist as, h => by
    have fas := toJsEs_fragJ c as (by simpa [JsOkE] using h)
    simp only [toJsE, jcall, JFrag]; exact ⟨by decide, fas⟩
  | .oprop v o, h => by
    simp only [JsOkE, Bool.and_eq_true] at h
    simp only [toJsE, JFrag]; exact toJsE_fragJ c o h.2
  | .chunk k a b d, h => by
    simp only [JsOkE, Bool.and_eq_true] at h
    have fa := toJsE_fragJ c a h.1.1
    have fb := toJsE_fragJ c b h.1.2
    have fd := toJsE_fragJ c d h.2
    simp only [toJsE, jmem, JFrag]
    refine ⟨fd, ?_⟩
    split
    · exact fa
    · simp only [jcall, JFrag, JFragL]; exact ⟨by decide, fa, fb, trivial⟩
  | .the t k as, h => by
    match as, h with
    | [e], h =>
      rcases jsOkE_the t k e h with ⟨h1, h2⟩ | ⟨op, r, ty, hs, hty, _, _, he⟩ | ⟨rfl, he⟩
      · have fe := toJsE_fragJ c e (idxJsOk_ok e h2)
        cases t with
        | sound => simp only [toJsE, toJsEs, toJsThe, jcall, JFrag, JFragL]; exact ⟨by decide, fe, trivial⟩
        | sprite => simp only [toJsE, toJsEs, toJsThe, jcall, JFrag, JFragL]; exact ⟨by decide, fe, trivial⟩
        | cast => simp only [toJsE, toJsEs, toJsThe, jcall, JFrag, JFragL]; exact ⟨by decide, fe, trivial⟩
        | video => simp only [toJsE, toJsEs, toJsThe, jcall, JFrag, JFragL]; exact ⟨by decide, fe, trivial⟩
        | _ => simp [Link.theTbl] at h1
      · have fe := toJsE_fragJ c e he
        rcases toJsE_strThe c t k e op r ty hs hty with ⟨_, e1⟩ | ⟨_, e1⟩
        · rw [e1]; simp only [JFrag]; exact ⟨fe, trivial⟩
        · rw [e1]; simp only [jmem, JFrag]; exact fe
      · have fe := toJsE_fragJ c e he
        rw [toJsE_fieldThe]
        simp only [jcall, JFrag, JFragL]
        exact ⟨by decide, fe, trivial⟩
    | [], h =>
      cases t with
      | special =>
        have hk : k < 6 := by simpa [JsOkE] using h
        simp only [toJsE, toJsEs, toJsThe, hk, if_true, JFrag]
        exact okId_of "_system" (by decide)
      | _ => simp [JsOkE] at h
    | _ :: _ :: _, h => simp [JsOkE] at h
  | .key v, _ => toJsE_frag c (.key v) trivial
  | .float _ _, h => by simp [JsOkE] at h
  | .me, h => by simp [JsOkE] at h
  | .mcall o m as, h => by
    simp only [JsOkE, Bool.and_eq_true] at h
    obtain ⟨⟨hro, hm⟩, has⟩ := h
    obtain ⟨x, ⟨hx1, _, _, _⟩, hte, _, _⟩ := recvJsOk_spec c o m as hro
    rw [hte]
    simp only [jcall, JFrag, JFragL]
    exact ⟨jsIdOk_okId x hx1, ⟨by decide, trivial, trivial⟩, toJsEs_fragJ c as has⟩
  | .movie _, h => by simp [JsOkE] at h
theorem toJsEs_fragJ (c : JCtx) : ∀ (es : List Expr), JsOkL es = true → JFragL (toJsEs c es)
  | [], _ => by simp [toJsEs, JFragL]
  | e :: es, h => by
    simp only [JsOkL, Bool.and_eq_true] at h
    simp only [toJsEs, JFragL]
    exact ⟨toJsE_fragJ c e h.1, toJsEs_fragJ c es h.2⟩
end

/-- **lexing the translation**: the text of `toJs e` lexes to the reference printer's tokens -/
theorem lex_toJsE (c : JCtx) (e : Expr) (h : JsOkE e = true) : lexJs (txJ (toJsE c e)) = some (prJ (toJsE c e)) :=
  (lexE (toJsE c e) (toJsE_lexok c e h) [] HeadIs.nil).whole

end Drx.LinkJs
