/-
  The lexer of the JavaScript-subset reader (`Spec.lexJsAux`) on the text `txJ e`: it produces exactly the tokens `prJ e` of the
  reference printer.  Token by token, then by induction on the tree.
-/
import Drx.LinkJs
import DrxProofs.LscrConst
import DrxProofs.SpecJs
namespace Drx.LinkJs
open Drx Drx.Lscr Drx.Spec
set_option linter.unusedSimpArgs false
set_option linter.unusedVariables false

/-- lexing the text `t` (followed by `rest`) appends the tokens `toks` and continues with `rest`; `n` = iterations used -/
def LexesTo (t : Str) (toks : List JTok) (rest : Str) : Prop :=
  ∃ n, n ≤ t.length ∧ ∀ (g : Nat) (acc : List JTok), t.length + rest.length + 1 ≤ g + n →
    lexJsAux (g + n) (t ++ rest) acc = lexJsAux g rest (toks.reverse ++ acc)

theorem LexesTo.nil (rest : Str) : LexesTo [] [] rest := ⟨0, Nat.le_refl _, fun g acc _ => by simp⟩

theorem LexesTo.append {t1 t2 : Str} {k1 k2 : List JTok} {rest : Str} (h1 : LexesTo t1 k1 (t2 ++ rest)) (h2 : LexesTo t2 k2 rest) :
    LexesTo (t1 ++ t2) (k1 ++ k2) rest := by
  obtain ⟨n1, hn1, e1⟩ := h1
  obtain ⟨n2, hn2, e2⟩ := h2
  refine ⟨n2 + n1, by simp only [List.length_append]; omega, ?_⟩
  intro g acc hg
  simp only [List.length_append] at hg
  rw [List.append_assoc, ← Nat.add_assoc, e1 (g + n2) acc (by simp only [List.length_append]; omega), e2 g _ (by omega)]
  simp [List.reverse_append, List.append_assoc]

/-- the whole text -/
theorem LexesTo.whole {t : Str} {toks : List JTok} (h : LexesTo t toks []) : lexJs t = some toks := by
  obtain ⟨n, hn, e⟩ := h
  have := e (t.length + 1 - n) [] (by simp; omega)
  have hfe : t.length + 1 - n + n = t.length + 1 := by omega
  rw [hfe, List.append_nil] at this
  unfold lexJs
  rw [this]
  obtain ⟨k, hk⟩ : ∃ k, t.length + 1 - n = k + 1 := ⟨t.length - n, by omega⟩
  rw [hk]
  simp [lexJsAux]

/-- a text whose characters are consumed one iteration each -/
theorem LexesTo.of_step1 (c : Char) (toks : List JTok) (rest : Str)
    (h : ∀ (g : Nat) (acc : List JTok), lexJsAux (g + 1) (c :: rest) acc = lexJsAux g rest (toks.reverse ++ acc)) : LexesTo [c] toks rest :=
  ⟨1, by simp, fun g acc _ => by simpa using h g acc⟩

/-! ### white space and punctuation -/

theorem lex_space (rest : Str) : LexesTo (S " ") [] rest := LexesTo.of_step1 ' ' [] rest (fun g acc => by simp [lexJsAux])
theorem lex_nl (rest : Str) : LexesTo (S "\n") [] rest := LexesTo.of_step1 '\n' [] rest (fun g acc => by simp [lexJsAux])

theorem lex_spaces (k : Nat) (rest : Str) : LexesTo (List.replicate k ' ') [] rest := by
  induction k with
  | zero => exact LexesTo.nil rest
  | succ k ih =>
    have := LexesTo.append (t1 := S " ") (t2 := List.replicate k ' ') (k1 := []) (k2 := []) (rest := rest) (lex_space _) ih
    simpa [List.replicate_succ, S] using this

theorem indentOf_eq (k : Nat) : indentOf k = List.replicate (4 * k) ' ' := by
  induction k with
  | zero => rfl
  | succ k ih =>
    unfold indentOf at ih ⊢
    rw [List.replicate_succ, List.flatten_cons, ih]
    have : 4 * (k + 1) = 4 + 4 * k := by omega
    rw [this, ← List.replicate_append_replicate]
    rfl

theorem lex_indent (k : Nat) (rest : Str) : LexesTo (indentOf k) [] rest := by
  rw [indentOf_eq]; exact lex_spaces _ rest

theorem lex_lp (rest : Str) : LexesTo (S "(") [.p .lp] rest := LexesTo.of_step1 '(' _ rest (fun g acc => by simp [lexJsAux, isJsIdStart])
theorem lex_rp (rest : Str) : LexesTo (S ")") [.p .rp] rest := LexesTo.of_step1 ')' _ rest (fun g acc => by simp [lexJsAux, isJsIdStart])
theorem lex_lc (rest : Str) : LexesTo (S "{") [.p .lc] rest := LexesTo.of_step1 '{' _ rest (fun g acc => by simp [lexJsAux, isJsIdStart])
theorem lex_rc (rest : Str) : LexesTo (S "}") [.p .rc] rest := LexesTo.of_step1 '}' _ rest (fun g acc => by simp [lexJsAux, isJsIdStart])
theorem lex_lb (rest : Str) : LexesTo (S "[") [.p .lb] rest := LexesTo.of_step1 '[' _ rest (fun g acc => by simp [lexJsAux, isJsIdStart])
theorem lex_rb (rest : Str) : LexesTo (S "]") [.p .rb] rest := LexesTo.of_step1 ']' _ rest (fun g acc => by simp [lexJsAux, isJsIdStart])
theorem lex_comma (rest : Str) : LexesTo (S ",") [.p .comma] rest := LexesTo.of_step1 ',' _ rest (fun g acc => by simp [lexJsAux, isJsIdStart])
theorem lex_semi (rest : Str) : LexesTo (S ";") [.p .semi] rest := LexesTo.of_step1 ';' _ rest (fun g acc => by simp [lexJsAux, isJsIdStart])

/-- first character of what follows -/
def HeadIs (P : Char → Prop) (rest : Str) : Prop := ∀ c r, rest = c :: r → P c

theorem HeadIs.cons {P : Char → Prop} {c : Char} {r : Str} (h : P c) : HeadIs P (c :: r) := by
  intro c' r' e; cases e; exact h

theorem HeadIs.nil {P : Char → Prop} : HeadIs P [] := by intro c r e; cases e

theorem lex_dot (rest : Str) (h : HeadIs (· ≠ '.') rest) : LexesTo (S ".") [.p .dot] rest :=
  LexesTo.of_step1 '.' _ rest (fun g acc => by
    cases rest with
    | nil => simp [lexJsAux, isJsIdStart]
    | cons c r => have := h c r rfl; simp [lexJsAux, isJsIdStart, this])

theorem lex_minus (rest : Str) (h : HeadIs (· ≠ '-') rest) : LexesTo (S "-") [.p .minus] rest :=
  LexesTo.of_step1 '-' _ rest (fun g acc => by
    cases rest with
    | nil => simp [lexJsAux, isJsIdStart]
    | cons c r => have := h c r rfl; simp [lexJsAux, isJsIdStart, this])

theorem lex_bang (rest : Str) (h : HeadIs (· ≠ '=') rest) : LexesTo (S "!") [.p .bang] rest :=
  LexesTo.of_step1 '!' _ rest (fun g acc => by
    cases rest with
    | nil => simp [lexJsAux, isJsIdStart]
    | cons c r => have := h c r rfl; simp [lexJsAux, isJsIdStart, this])

/-- ` = ` of an assignment -/
theorem lex_assign (rest : Str) : LexesTo (S " = ") [.p .assign] rest :=
  ⟨3, by decide, fun g acc _ => by simp [S, lexJsAux, isJsIdStart]⟩

/-- `, ` between arguments -/
theorem lex_commasp (rest : Str) : LexesTo (S ", ") [.p .comma] rest :=
  ⟨2, by decide, fun g acc _ => by simp [S, lexJsAux, isJsIdStart]⟩

/-- the 13 infix operators, written between two spaces -/
theorem lex_infix : ∀ x ∈ jsOps, ∀ rest : Str, LexesTo (S " " ++ x.1 ++ S " ") [x.2.1] rest := by
  intro x hx rest
  simp only [jsOps, List.mem_cons, List.mem_nil_iff, or_false] at hx
  rcases hx with rfl | rfl | rfl | rfl | rfl | rfl | rfl | rfl | rfl | rfl | rfl | rfl | rfl
  all_goals first
    | exact ⟨3, by decide, fun g acc _ => by simp [S, lexJsAux, isJsIdStart]⟩

/-! ### identifiers -/

theorem spanC_all (p : Char → Bool) (a rest : Str) (ha : a.all p = true) (hr : HeadIs (fun c => p c = false) rest) :
    spanC p (a ++ rest) = (a, rest) := by
  induction a with
  | nil =>
    cases rest with
    | nil => simp [spanC]
    | cons c r => simp [spanC, hr c r rfl]
  | cons x xs ih =>
    simp only [List.all_cons, Bool.and_eq_true] at ha
    simp [spanC, ha.1, ih ha.2]

theorem jsIdStart_range (c : Char) (h : isJsIdStart c = true) :
    c.val.toNat = 36 ∨ c.val.toNat = 95 ∨ (65 ≤ c.val.toNat ∧ c.val.toNat ≤ 90) ∨ (97 ≤ c.val.toNat ∧ c.val.toNat ≤ 122) := by
  simp only [isJsIdStart, Char.isAlpha, Char.isUpper, Char.isLower, Bool.or_eq_true, Bool.and_eq_true, decide_eq_true_eq, beq_iff_eq,
    ge_iff_le, UInt32.le_iff_toNat_le] at h
  have eA : 'A'.val.toNat = 65 := rfl
  have eZ : 'Z'.val.toNat = 90 := rfl
  have ea : 'a'.val.toNat = 97 := rfl
  have ez : 'z'.val.toNat = 122 := rfl
  rcases h with ((h | h) | h) | h
  · omega
  · omega
  · subst h; exact Or.inr (Or.inl rfl)
  · subst h; exact Or.inl rfl

theorem jsIdStart_ne (c l : Char) (h : isJsIdStart c = true) (hl : isJsIdStart l = false) : (c == l) = false := by
  cases hc : c == l with
  | false => rfl
  | true => have := eq_of_beq hc; subst this; rw [h] at hl; cases hl

theorem jsIdStart_not_digit (c : Char) (h : isJsIdStart c = true) : c.isDigit = false := by
  have hr := jsIdStart_range c h
  simp only [Char.isDigit, Bool.and_eq_false_iff, decide_eq_false_iff_not, ge_iff_le, UInt32.le_iff_toNat_le]
  have e0 : '0'.val.toNat = 48 := rfl
  have e9 : '9'.val.toNat = 57 := rfl
  omega

theorem jsIdStart_idChar (c : Char) (h : isJsIdStart c = true) : isJsIdChar c = true := by
  simp only [isJsIdStart, Bool.or_eq_true] at h
  simp only [isJsIdChar, Char.isAlphanum, Bool.or_eq_true]
  rcases h with (h | h) | h
  · exact Or.inl (Or.inl (Or.inl h))
  · exact Or.inl (Or.inr h)
  · exact Or.inr h

/-- an identifier followed by something that is not an identifier character -/
theorem lex_id (n : Spec.Name) (h : jsIdLex n = true) (rest : Str) (hr : HeadIs (fun c => isJsIdChar c = false) rest) :
    LexesTo n [.id n] rest := by
  cases n with
  | nil => simp [jsIdLex] at h
  | cons c cs =>
    simp only [jsIdLex, Bool.and_eq_true] at h
    have hall : (c :: cs).all isJsIdChar = true := by simp [jsIdStart_idChar c h.1, h.2]
    have hsp := spanC_all isJsIdChar (c :: cs) rest hall hr
    have n1 := jsIdStart_ne c ' ' h.1 (by decide)
    have n2 := jsIdStart_ne c '\t' h.1 (by decide)
    have n3 := jsIdStart_ne c '\n' h.1 (by decide)
    have n4 := jsIdStart_ne c '\r' h.1 (by decide)
    have n5 := jsIdStart_ne c '"' h.1 (by decide)
    have n6 := jsIdStart_ne c '\'' h.1 (by decide)
    have nd := jsIdStart_not_digit c h.1
    refine ⟨1, by simp, fun g acc _ => ?_⟩
    rw [List.cons_append] at hsp ⊢
    simp only [lexJsAux, n1, n2, n3, n4, n5, n6, nd, h.1, hsp, Bool.or_self, Bool.false_eq_true, if_false, if_true, List.reverse_cons,
      List.reverse_nil, List.nil_append, List.singleton_append]

/-! ### numbers -/

theorem asciiDigit_isDigit (c : Char) : isAsciiDigit c = c.isDigit := by
  simp only [isAsciiDigit, Char.isDigit, Char.le_def, ge_iff_le]

theorem digits_bridge : ∀ (s : Str) (a v : Nat), Lscr.digitsVal s a = some v →
    s.foldl (fun n c => n * 10 + (c.toNat - 48)) a = v ∧ s.all Char.isDigit = true
  | [], a, v, h => by simp [Lscr.digitsVal] at h; simp [h]
  | c :: cs, a, v, h => by
    unfold Lscr.digitsVal at h
    split at h
    · rename_i hc
      obtain ⟨h1, h2⟩ := digits_bridge cs _ v h
      rw [asciiDigit_isDigit] at hc
      exact ⟨by simpa using h1, by simp [hc, h2]⟩
    · cases h

theorem natStr_digits (k : Nat) : Spec.digitsVal (natStr k) = k ∧ (natStr k).all Char.isDigit = true := by
  have := digits_bridge (natStr k) 0 k (digitsVal_natStr k)
  exact ⟨by simpa [Spec.digitsVal] using this.1, this.2⟩

theorem digit_ne (c l : Char) (h : c.isDigit = true) (hl : l.isDigit = false) : (c == l) = false := by
  cases hc : c == l with
  | false => rfl
  | true => have := eq_of_beq hc; subst this; rw [h] at hl; cases hl

theorem idChar_of_digit (c : Char) (h : c.isDigit = true) : isJsIdChar c = true := by
  simp [isJsIdChar, Char.isAlphanum, h]

/-- a decimal integer followed by something that is neither an identifier character nor a point -/
theorem lex_num (k : Nat) (rest : Str) (hr : HeadIs (fun c => isJsIdChar c = false ∧ c ≠ '.') rest) :
    LexesTo (natStr k) [.num k 0] rest := by
  obtain ⟨hval, hall⟩ := natStr_digits k
  cases hd : natStr k with
  | nil => obtain ⟨c, r, e, _⟩ := natStr_head k; rw [hd] at e; cases e
  | cons c cs =>
    rw [hd] at hval hall
    have hc : c.isDigit = true := by simp only [List.all_cons, Bool.and_eq_true] at hall; exact hall.1
    have n1 := digit_ne c ' ' hc (by decide)
    have n2 := digit_ne c '\t' hc (by decide)
    have n3 := digit_ne c '\n' hc (by decide)
    have n4 := digit_ne c '\r' hc (by decide)
    have n5 := digit_ne c '"' hc (by decide)
    have n6 := digit_ne c '\'' hc (by decide)
    have hsp := spanC_all Char.isDigit (c :: cs) rest hall (by
      intro x r e
      cases hx : x.isDigit with
      | false => rfl
      | true => have := (hr x r e).1; rw [idChar_of_digit x hx] at this; cases this)
    refine ⟨1, by simp, fun g acc _ => ?_⟩
    rw [List.cons_append] at hsp ⊢
    cases rest with
    | nil =>
      simp only [lexJsAux, n1, n2, n3, n4, n5, n6, hc, hsp, hval, Bool.or_self, Bool.false_eq_true, if_false, if_true, List.reverse_cons,
        List.reverse_nil, List.nil_append, List.singleton_append]
    | cons x r =>
      obtain ⟨hx1, hx2⟩ := hr x r rfl
      have hx3 : isJsIdStart x = false := by
        cases hs : isJsIdStart x with
        | false => rfl
        | true => rw [jsIdStart_idChar x hs] at hx1; cases hx1
      simp [lexJsAux, n1, n2, n3, n4, n5, n6, hc, hsp, hval, hx2, hx3]

/-! ### string literals -/

theorem jsStr_plain (q c : Char) (F : Nat) (rest acc : Str) (h1 : c ≠ '\\') (h2 : c ≠ q) (h3 : c ≠ '\n') :
    jsStr q (F + 1) (c :: rest) acc = jsStr q F rest (c :: acc) := by
  rw [jsStr.eq_def]; simp [h1, h2, h3]

theorem jsStr_close (q : Char) (F : Nat) (rest acc : Str) (h1 : q ≠ '\\') :
    jsStr q (F + 1) (q :: rest) acc = some (acc.reverse, rest) := by
  rw [jsStr.eq_def]; simp [h1]

theorem jsStr_x (q : Char) (F : Nat) (a b : Char) (n : Nat) (rest acc : Str) (h : Spec.hex2 a b = some n) :
    jsStr q (F + 1) ('\\' :: 'x' :: a :: b :: rest) acc = jsStr q F rest (Char.ofNat n :: acc) := by
  rw [jsStr.eq_def]; simp [h]

theorem jsStr_u (q : Char) (F : Nat) (a b c d : Char) (n m : Nat) (rest acc : Str) (h : Spec.hex2 a b = some n) (h' : Spec.hex2 c d = some m) :
    jsStr q (F + 1) ('\\' :: 'u' :: a :: b :: c :: d :: rest) acc = jsStr q F rest (Char.ofNat (256 * n + m) :: acc) := by
  rw [jsStr.eq_def]; simp [h, h']

/-- body of a single-quoted literal without quote, backslash or line end -/
theorem jsStr_plain_s (s rest : Str) (h : sstrOk s = true) : ∀ (F : Nat) (acc : Str), s.length + 1 ≤ F →
    jsStr '\'' F (s ++ '\'' :: rest) acc = some (acc.reverse ++ s, rest) := by
  induction s with
  | nil =>
    intro F acc hF
    obtain ⟨f, rfl⟩ : ∃ f, F = f + 1 := ⟨F - 1, by simp at hF; omega⟩
    rw [List.nil_append, jsStr_close _ _ _ _ (by decide)]; simp
  | cons c cs ih =>
    intro F acc hF
    simp only [sstrOk, List.all_cons, Bool.and_eq_true, bne_iff_ne, ne_eq] at h
    obtain ⟨⟨⟨h1, h2⟩, h3⟩, hcs⟩ := h
    obtain ⟨f, rfl⟩ : ∃ f, F = f + 1 := ⟨F - 1, by simp at hF; omega⟩
    have := ih (by simpa [sstrOk] using hcs) f (c :: acc) (by simp at hF; omega)
    rw [List.cons_append, jsStr_plain _ c f _ acc h2 h1 h3, this]
    simp

theorem lex_sstr (s : Spec.Name) (h : sstrOk s = true) (rest : Str) : LexesTo (S "'" ++ s ++ S "'") [.sstr s] rest := by
  refine ⟨1, by simp [S], fun g acc hg => ?_⟩
  have e : S "'" ++ s ++ S "'" ++ rest = '\'' :: (s ++ '\'' :: rest) := by simp [S]
  rw [e]
  have := jsStr_plain_s s rest h (s.length + (rest.length + 1) + 1) [] (by omega)
  simp only [List.reverse_nil, List.nil_append] at this
  simp [lexJsAux, this]

theorem spec_hexVal_hexDigit : ∀ d, d < 16 → Spec.hexVal (hexDigit d) = some d := by decide

theorem spec_hex2 (n : Nat) (h : n < 256) : Spec.hex2 (hexDigit (n / 16 % 16)) (hexDigit (n % 16)) = some n := by
  have h1 := spec_hexVal_hexDigit (n / 16 % 16) (Nat.mod_lt _ (by omega))
  have h2 := spec_hexVal_hexDigit (n % 16) (Nat.mod_lt _ (by omega))
  simp only [Spec.hex2, h1, h2, Option.bind_eq_bind, Option.bind_some, Option.pure_def, bind, pure]
  congr 1
  omega

/-- one character of the text, as the translator writes it inside the double quotes, is read back as that character -/
theorem jsStr_char (c : Char) (hc : c.toNat < 65536) (rest : Str) (F : Nat) (acc : Str) :
    jsStr '"' (F + 1) ((unicodeEscapeChar c).flatMap jsQuote ++ rest) acc = jsStr '"' F rest (c :: acc) := by
  unfold unicodeEscapeChar
  by_cases h1 : c = '\\'
  · subst h1; simp only [if_true]; rw [jsStr.eq_def]; simp [jsQuote]
  · by_cases h2 : c = '\t'
    · subst h2; simp only [h1, if_false, if_true]; rw [jsStr.eq_def]; simp [jsQuote]
    · by_cases h3 : c = '\n'
      · subst h3; simp only [h1, h2, if_false, if_true]; rw [jsStr.eq_def]; simp [jsQuote]
      · by_cases h4 : c = '\r'
        · subst h4; simp only [h1, h2, h3, if_false, if_true]; rw [jsStr.eq_def]; simp [jsQuote]
        · simp only [h1, h2, h3, h4, if_false]
          by_cases hp : 32 ≤ c.toNat ∧ c.toNat < 127
          · simp only [hp, and_self, if_true]
            by_cases hq : c = '"'
            · subst hq; rw [jsStr.eq_def]; simp [jsQuote]
            · simp only [List.flatMap_cons, List.flatMap_nil, jsQuote, hq, if_false, List.append_nil, List.cons_append, List.nil_append]
              exact jsStr_plain _ c F rest acc h1 hq h3
          · simp only [hp, if_false]
            by_cases h8 : c.toNat < 256
            · simp only [h8, if_true, Lscr.hex2]
              have e1 := jsQuote_hexDigit (c.toNat / 16 % 16) (Nat.mod_lt _ (by omega))
              have e2 := jsQuote_hexDigit (c.toNat % 16) (Nat.mod_lt _ (by omega))
              have q1 : jsQuote '\\' = ['\\'] := by decide
              have q2 : jsQuote 'x' = ['x'] := by decide
              simp only [List.flatMap_cons, List.flatMap_nil, q1, q2, e1, e2, List.append_nil, List.cons_append, List.nil_append]
              rw [jsStr_x _ F _ _ c.toNat rest acc (spec_hex2 c.toNat h8), Char.ofNat_toNat]
            · have hlt : c.toNat < 65536 := hc
              simp only [h8, hlt, if_false, if_true, hex4l]
              have e1 := jsQuote_hexDigit (c.toNat / 4096 % 16) (Nat.mod_lt _ (by omega))
              have e2 := jsQuote_hexDigit (c.toNat / 256 % 16) (Nat.mod_lt _ (by omega))
              have e3 := jsQuote_hexDigit (c.toNat / 16 % 16) (Nat.mod_lt _ (by omega))
              have e4 := jsQuote_hexDigit (c.toNat % 16) (Nat.mod_lt _ (by omega))
              have q1 : jsQuote '\\' = ['\\'] := by decide
              have q2 : jsQuote 'u' = ['u'] := by decide
              simp only [List.flatMap_cons, List.flatMap_nil, q1, q2, e1, e2, e3, e4, List.append_nil, List.cons_append, List.nil_append]
              have g1 : Spec.hex2 (hexDigit (c.toNat / 4096 % 16)) (hexDigit (c.toNat / 256 % 16)) = some (c.toNat / 256) := by
                have := spec_hex2 (c.toNat / 256) (by omega)
                have ea : c.toNat / 256 / 16 % 16 = c.toNat / 4096 % 16 := by omega
                rw [ea] at this; exact this
              have g2 : Spec.hex2 (hexDigit (c.toNat / 16 % 16)) (hexDigit (c.toNat % 16)) = some (c.toNat % 256) := by
                have := spec_hex2 (c.toNat % 256) (by omega)
                have ea : c.toNat % 256 / 16 % 16 = c.toNat / 16 % 16 := by omega
                have eb : c.toNat % 256 % 16 = c.toNat % 16 := by omega
                rw [ea, eb] at this; exact this
              have g3 : 256 * (c.toNat / 256) + c.toNat % 256 = c.toNat := by omega
              rw [jsStr_u _ F _ _ _ _ _ _ rest acc g1 g2, g3, Char.ofNat_toNat]

theorem escQ_eq (s : Str) : escQ s = (unicodeEscape s).flatMap jsQuote := by
  unfold escQ; exact replaceAll_quote _

theorem jsStr_escQ (s rest : Str) (hs : strOk s = true) : ∀ (F : Nat) (acc : Str), s.length + 1 ≤ F →
    jsStr '"' F (escQ s ++ '"' :: rest) acc = some (acc.reverse ++ s, rest) := by
  rw [escQ_eq]
  induction s with
  | nil =>
    intro F acc hF
    obtain ⟨f, rfl⟩ : ∃ f, F = f + 1 := ⟨F - 1, by simp at hF; omega⟩
    simp only [unicodeEscape, List.flatMap_nil, List.nil_append]
    rw [jsStr_close _ _ _ _ (by decide)]; simp
  | cons c cs ih =>
    intro F acc hF
    simp only [strOk, List.all_cons, Bool.and_eq_true, decide_eq_true_eq] at hs
    obtain ⟨f, rfl⟩ : ∃ f, F = f + 1 := ⟨F - 1, by simp at hF; omega⟩
    have := ih (by simpa [strOk] using hs.2) f (c :: acc) (by simp at hF; omega)
    simp only [unicodeEscape, List.flatMap_cons, List.flatMap_append, List.append_assoc] at this ⊢
    rw [jsStr_char c hs.1, this]
    simp

theorem length_le_escQ (s : Str) : s.length ≤ (escQ s).length := by
  rw [escQ_eq]
  induction s with
  | nil => simp
  | cons c cs ih =>
    have h1 : 1 ≤ ((unicodeEscapeChar c).flatMap jsQuote).length := by
      have hne : unicodeEscapeChar c ≠ [] := by
        unfold unicodeEscapeChar
        repeat (first | split | simp)
      cases hu : unicodeEscapeChar c with
      | nil => exact absurd hu hne
      | cons x xs =>
        simp only [List.flatMap_cons, List.length_append]
        have : 1 ≤ (jsQuote x).length := by unfold jsQuote; split <;> simp
        omega
    simp only [unicodeEscape, List.flatMap_cons, List.flatMap_append, List.length_append, List.length_cons] at ih ⊢
    omega

theorem lex_dstr (s : Spec.Name) (h : strOk s = true) (rest : Str) : LexesTo (S "\"" ++ escQ s ++ S "\"") [.dstr s] rest := by
  refine ⟨1, by simp [S], fun g acc hg => ?_⟩
  have e : S "\"" ++ escQ s ++ S "\"" ++ rest = '"' :: (escQ s ++ '"' :: rest) := by simp [S]
  rw [e]
  have hl := length_le_escQ s
  have := jsStr_escQ s rest h ((escQ s).length + (rest.length + 1) + 1) [] (by omega)
  simp only [List.reverse_nil, List.nil_append] at this
  simp [lexJsAux, this]

end Drx.LinkJs
