/-
  Reading the scheme's big-endian fields with the model's readers: `Lscr.getSI k d off` on a byte string that holds
  `be16 v` / `be32 v` at address `off`; fixed record layouts as field lists; tables of 16-bit name indices.
-/
import Drx.Link
import DrxProofs.LinkExec
import DrxProofs.Py
namespace Drx.Link
open Drx Drx.Lscr Drx.Spec
set_option linter.unusedSimpArgs false
set_option linter.unusedVariables false

theorem CodeAt.intro (pre bs post : Bytes) : CodeAt (pre ++ bs ++ post) pre.length bs := ⟨pre, post, rfl, rfl⟩

theorem CodeAt.intro' (pre bs post : Bytes) (a : Nat) (h : pre.length = a) : CodeAt (pre ++ bs ++ post) a bs := ⟨pre, post, rfl, h⟩

/-- a sub-block of a block -/
theorem CodeAt.sub {d : Bytes} {a : Nat} {x y z : Bytes} (h : CodeAt d a (x ++ y ++ z)) : CodeAt d (a + x.length) y := by
  have h1 : CodeAt d a (x ++ (y ++ z)) := by simpa [List.append_assoc] using h
  exact h1.right.left

theorem CodeAt.slice {d : Bytes} {a : Nat} {bs : Bytes} (h : CodeAt d a bs) : Drx.slice d a (a + bs.length) = bs := by
  obtain ⟨pre, post, hd, hl⟩ := h
  subst hd; subst hl
  simp [Drx.slice]

theorem CodeAt.le {d : Bytes} {a : Nat} {bs : Bytes} (h : CodeAt d a bs) : a + bs.length ≤ d.length := by
  obtain ⟨pre, post, hd, hl⟩ := h
  subst hd; subst hl
  simp

theorem getSI_at (d : Bytes) (a k : Nat) (bs : Bytes) (h : CodeAt d a bs) (hk : bs.length = k) :
    Lscr.getSI k d (a : Int) = unpackS .be k bs := by
  unfold Lscr.getSI
  have e : (a : Int) + (k : Int) = ((a + k : Nat) : Int) := by omega
  rw [e, pySlice_nat, ← hk, h.slice]

theorem be16_length (v : Nat) : (be16 v).length = 2 := rfl
theorem be32_length (v : Nat) : (be32 v).length = 4 := rfl

theorem beNat_be16 (v : Nat) (h : v < 65536) : beNat (be16 v) = v := by
  simp [beNat, be16, UInt8.toNat_ofNat']
  omega

theorem beNat_be32 (v : Nat) (h : v < 4294967296) : beNat (be32 v) = v := by
  simp [beNat, be32, UInt8.toNat_ofNat']
  omega

theorem getSI_be16 (d : Bytes) (a v : Nat) (h : CodeAt d a (be16 v)) (hv : v < 65536) :
    Lscr.getSI 2 d (a : Int) = .ok (toSigned 16 v) := by
  rw [getSI_at d a 2 _ h rfl]
  simp only [unpackS, be16_length, if_true, ordNat, beNat_be16 v hv]

theorem getSI_be32 (d : Bytes) (a v : Nat) (h : CodeAt d a (be32 v)) (hv : v < 4294967296) :
    Lscr.getSI 4 d (a : Int) = .ok (toSigned 32 v) := by
  rw [getSI_at d a 4 _ h rfl]
  simp only [unpackS, be32_length, if_true, ordNat, beNat_be32 v hv]

theorem toSigned16_small (v : Nat) (h : v < 32768) : toSigned 16 v = (v : Int) := by
  unfold toSigned
  have : v < 2 ^ (16 - 1) := by simpa using h
  simp only [this, if_true]

theorem toSigned32_small (v : Nat) (h : v < 2147483648) : toSigned 32 v = (v : Int) := by
  unfold toSigned
  have : v < 2 ^ (32 - 1) := by simpa using h
  simp only [this, if_true]

theorem toSigned16_ffff : toSigned 16 0xffff = -1 := by decide

/-! ### fixed layouts as field lists -/

/-- a field: width in bytes (2 or 4) and value -/
def encF : Nat × Nat → Bytes
  | (w, v) => if w = 2 then be16 v else be32 v

def encFs (fs : List (Nat × Nat)) : Bytes := fs.flatMap encF

def widths (fs : List (Nat × Nat)) : Nat := (fs.map fun f => if f.1 = 2 then 2 else 4).sum

def FieldOk (f : Nat × Nat) : Prop := (f.1 = 2 ∧ f.2 < 65536) ∨ (f.1 = 4 ∧ f.2 < 4294967296)

theorem encF_length (f : Nat × Nat) : (encF f).length = if f.1 = 2 then 2 else 4 := by
  obtain ⟨w, v⟩ := f
  simp only [encF]
  by_cases h : w = 2 <;> simp [h, be16_length, be32_length]

theorem encFs_length (fs : List (Nat × Nat)) : (encFs fs).length = widths fs := by
  induction fs with
  | nil => rfl
  | cons f fs ih =>
    simp only [encFs, List.flatMap_cons, List.length_append, widths, List.map_cons, List.sum_cons] at ih ⊢
    rw [ih, encF_length]

theorem encFs_append (a b : List (Nat × Nat)) : encFs (a ++ b) = encFs a ++ encFs b := by
  simp [encFs]

/-- the `i`-th field of a record that sits at address `a` -/
theorem field_codeAt (d : Bytes) (a : Nat) (fs : List (Nat × Nat)) (h : CodeAt d a (encFs fs)) (i : Nat) (f : Nat × Nat)
    (hi : fs[i]? = some f) : CodeAt d (a + widths (fs.take i)) (encF f) := by
  have hlt : i < fs.length := by
    rcases Nat.lt_or_ge i fs.length with hh | hh
    · exact hh
    · rw [List.getElem?_eq_none_iff.mpr hh] at hi; cases hi
  have hsplit : fs = fs.take i ++ [f] ++ fs.drop (i + 1) := by
    have hf : fs[i] = f := by
      rw [List.getElem?_eq_getElem hlt] at hi
      exact Option.some.inj hi
    have h1 : fs.drop i = f :: fs.drop (i + 1) := by rw [← hf]; exact List.drop_eq_getElem_cons hlt
    have h2 := (List.take_append_drop i fs).symm
    rw [h1] at h2
    simpa using h2
  have hb : encFs fs = encFs (fs.take i) ++ encF f ++ encFs (fs.drop (i + 1)) := by
    have e := congrArg encFs hsplit
    rw [encFs_append, encFs_append] at e
    rw [e]
    simp [encFs]
  rw [hb] at h
  have := h.sub
  rwa [encFs_length] at this

/-- reading field `i` (width `w`, value `v`) of a record at address `a`; `off` is the address the model computes -/
theorem field_read (d : Bytes) (a : Nat) (fs : List (Nat × Nat)) (h : CodeAt d a (encFs fs)) (i w v : Nat)
    (hi : fs[i]? = some (w, v)) (hok : FieldOk (w, v)) (off : Int) (hoff : ((a + widths (fs.take i) : Nat) : Int) = off) :
    Lscr.getSI w d off = .ok (toSigned (8 * w) v) := by
  have hc := field_codeAt d a fs h i (w, v) hi
  subst hoff
  rcases hok with ⟨hw, hv⟩ | ⟨hw, hv⟩
  · simp only at hw hv
    subst hw
    simp only [encF, if_true] at hc
    exact getSI_be16 d _ v hc hv
  · simp only at hw hv
    subst hw
    have : ¬ (4 = 2) := by omega
    simp only [encF, this, if_false] at hc
    exact getSI_be32 d _ v hc hv

/-! ### tables of 16-bit entries -/

theorem flatMap_be16_length (xs : List Nat) : (xs.flatMap be16).length = 2 * xs.length := by
  induction xs with
  | nil => rfl
  | cons x xs ih => simp only [List.flatMap_cons, List.length_append, be16_length, ih, List.length_cons]; omega

/-- entry `i` of a table of 16-bit values at address `a` -/
theorem table_codeAt (d : Bytes) (a : Nat) (xs : List Nat) (h : CodeAt d a (xs.flatMap be16)) (i : Nat) (x : Nat)
    (hi : xs[i]? = some x) : CodeAt d (a + 2 * i) (be16 x) := by
  induction xs generalizing a i with
  | nil => simp at hi
  | cons y ys ih =>
    simp only [List.flatMap_cons] at h
    cases i with
    | zero =>
      simp only [List.getElem?_cons_zero, Option.some.injEq] at hi
      subst hi
      simpa using h.left
    | succ j =>
      simp only [List.getElem?_cons_succ] at hi
      have := ih (a + 2) (by simpa [be16_length] using h.right) j hi
      have e : a + 2 + 2 * j = a + 2 * (j + 1) := by omega
      rwa [e] at this

theorem table_read (d : Bytes) (a : Nat) (xs : List Nat) (h : CodeAt d a (xs.flatMap be16)) (i : Nat) (x : Nat)
    (hi : xs[i]? = some x) (hx : x < 65536) (off : Int) (hoff : ((a + 2 * i : Nat) : Int) = off) :
    Lscr.getSI 2 d off = .ok (toSigned 16 x) := by
  subst hoff
  exact getSI_be16 d _ x (table_codeAt d a xs h i x hi) hx

end Drx.Link
