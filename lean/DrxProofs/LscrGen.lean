/-
  Helper lemmas for property C12: the generators' texts do not change when they are applied to a tree that a
  generator has already walked (`lingo ∘ afterLingo = lingo`, `js ∘ afterLingo = js`, `afterJs = id`), for every node,
  by mutual structural induction over the AST.
-/
import Drx.Lscr
namespace Drx.Lscr
open Drx

-- the kernel cannot unfold structural recursion over the nested inductive `Node` by computation; keep the unifier from
-- relying on it (all rewriting goes through the equation lemmas)
attribute [local irreducible] lingo lingoRight lingoStrs lingoStrsButLast lingoStmts lingoPairs afterLingo afterLingoList afterLingoButLast
  js jsStrs jsStmts afterJs afterJsList

/-! ### afterJs is the identity -/

mutual
  theorem afterJs_id : ∀ n : Node, afterJs n = n
    | .none => by simp [afterJs]
    | .leaf .. => by simp [afterJs]
    | .sym .. => by simp [afterJs]
    | .unary _ _ x => by simp [afterJs, afterJs_id x]
    | .binary _ _ l r => by simp [afterJs, afterJs_id l, afterJs_id r]
    | .spAssign _ l r _ => by simp [afterJs, afterJs_id l, afterJs_id r]
    | .strOp _ _ a b c => by simp [afterJs, afterJs_id a, afterJs_id b, afterJs_id c]
    | .unaryStr _ _ _ x => by simp [afterJs, afterJs_id x]
    | .propAcc _ o _ _ => by simp [afterJs, afterJs_id o]
    | .keyAcc .. => by simp [afterJs]
    | .menuItemAcc _ m i => by simp [afterJs, afterJs_id m, afterJs_id i]
    | .menuItemsAcc _ m => by simp [afterJs, afterJs_id m]
    | .loadList _ _ ops => by simp [afterJs, afterJsList_id ops]
    | .toList _ x => by simp [afterJs, afterJs_id x]
    | .toDict _ x => by simp [afterJs, afterJs_id x]
    | .stmt _ c => by simp [afterJs, afterJs_id c]
    | .callFn name p params up it wr rc => by
      cases params with
      | loadList ln lp ops => simp [afterJs, afterJsList_id ops]
      | _ => simp [afterJs]
    | .callMethod _ _ o ps => by simp [afterJs, afterJs_id o, afterJs_id ps]
    | .repeat_ _ _ c l t s _ _ _ => by simp [afterJs, afterJs_id c, afterJsList_id l, afterJs_id s]
    | .ifThen _ c a b => by simp [afterJs, afterJs_id c, afterJsList_id a, afterJsList_id b]
    | .jump .. => by simp [afterJs]
    | .jz .. => by simp [afterJs]
    | .tell _ o l _ => by simp [afterJs, afterJs_id o, afterJsList_id l]
  theorem afterJsList_id : ∀ l : List Node, afterJsList l = l
    | [] => by simp [afterJsList]
    | x :: r => by simp [afterJsList, afterJs_id x, afterJsList_id r]
end

/-! ### list facts about the after-functions -/

theorem afterLingoList_isEmpty (l : List Node) : (afterLingoList l).isEmpty = l.isEmpty := by
  cases l <;> simp [afterLingoList]

theorem afterLingoButLast_isEmpty (l : List Node) : (afterLingoButLast l).isEmpty = l.isEmpty := by
  match l with
  | [] => simp [afterLingoButLast]
  | [x] => simp [afterLingoButLast]
  | x :: y :: r => simp [afterLingoButLast]

theorem afterLingoButLast_length (l : List Node) : (afterLingoButLast l).length = l.length := by
  match l with
  | [] => simp [afterLingoButLast]
  | [x] => simp [afterLingoButLast]
  | x :: y :: r => simp [afterLingoButLast, afterLingoButLast_length (y :: r)]

theorem afterLingoButLast_getLast (l : List Node) : (afterLingoButLast l).getLast? = l.getLast? := by
  match l with
  | [] => simp [afterLingoButLast]
  | [x] => simp [afterLingoButLast]
  | x :: y :: r =>
    have ih := afterLingoButLast_getLast (y :: r)
    have hne : afterLingoButLast (y :: r) ≠ [] := by
      intro h; have := congrArg List.length h; simp [afterLingoButLast_length] at this
    simp only [afterLingoButLast]
    rw [List.getLast?_cons_cons]
    cases h : afterLingoButLast (y :: r) with
    | nil => exact absurd h hne
    | cons a b => rw [List.getLast?_cons_cons, ← h, ih]

theorem pyGet_neg_one (l : List α) : pyGet l (-1) = match l.getLast? with | some x => .ok x | none => .error .index := by
  unfold pyGet
  cases l with
  | nil => simp
  | cons a t =>
    have h1 : ((-1 : Int) < 0) := by omega
    have h2 : ¬ ((-1 : Int) + ((a :: t).length : Int) < 0) := by simp; omega
    simp only [h1, if_true, h2, if_false]
    have h3 : ((-1 : Int) + ((a :: t).length : Int)).toNat = (a :: t).length - 1 := by simp; omega
    rw [h3, List.getLast?_eq_getElem?]
    rfl

theorem pyGet_afterLingoButLast (l : List Node) : pyGet (afterLingoButLast l) (-1) = pyGet l (-1) := by
  rw [pyGet_neg_one, pyGet_neg_one, afterLingoButLast_getLast]

theorem lastNameGv_afterLingoButLast (gv : Bool) (l : List Node) : lastNameGv gv (afterLingoButLast l) = lastNameGv gv l := by
  simp [lastNameGv, pyGet_afterLingoButLast]

theorem afterLingo_isNone (x : Node) : (afterLingo x).isNone = x.isNone := by
  cases x <;> simp [afterLingo, Node.isNone]
  rename_i n p ps up it wr rc
  cases ps <;> simp [afterLingo, Node.isNone]

theorem afterLingo_symName (x : Node) : (afterLingo x).symName? = x.symName? := by
  cases x <;> simp [afterLingo, Node.symName?]
  rename_i n p ps up it wr rc
  cases ps <;> simp [afterLingo, Node.symName?]

theorem afterLingo_cls (x : Node) : (afterLingo x).cls = x.cls := by
  cases x <;> simp [afterLingo, Node.cls]
  rename_i n p ps up it wr rc
  cases ps <;> simp [afterLingo, Node.cls]

theorem goWord_afterLingoList (l : List Node) : goWord (afterLingoList l) = goWord l := by
  match l with
  | [] => simp [afterLingoList]
  | [x] =>
    cases x <;> simp [afterLingoList, afterLingo, goWord]
    rename_i n p ps up it wr rc
    cases ps <;> simp [afterLingo, goWord]
  | x :: y :: r => simp [afterLingoList, goWord]

theorem lingoStrsButLast_cons (x : Node) (l : List Node) (ind : Nat) :
    lingoStrsButLast (x :: l) ind = (if l.isEmpty then .ok [] else do
      let t ← lingo false x ind
      let ts ← lingoStrsButLast l ind
      pure (t.str :: ts)) := by
  cases l <;> simp [lingoStrsButLast]

theorem afterLingoButLast_cons (x : Node) (l : List Node) :
    afterLingoButLast (x :: l) = if l.isEmpty then [x] else afterLingo x :: afterLingoButLast l := by
  cases l <;> simp [afterLingoButLast]

theorem clearParen_lingo_true (x : Node) (ind : Nat) : lingo true (clearParen x) ind = lingo true x ind := by
  cases x <;> simp [clearParen]
  rename_i name pos params up it wr rc
  cases params <;> simp [lingo]

/-! ### Lingo after Lingo -/

mutual
  theorem lingo_afterLingo : ∀ (n : Node) (np : Bool) (ind : Nat), lingo np (afterLingo n) ind = lingo np n ind
    | .none, np, ind => by simp [afterLingo]
    | .leaf .., np, ind => by simp [afterLingo]
    | .sym name p uh, np, ind => by simp [afterLingo]
    | .unary op p x, np, ind => by simp [afterLingo, lingo, lingo_afterLingo x]
    | .binary op p l r, np, ind => by simp [afterLingo, lingo, lingo_afterLingo l, lingo_afterLingo r]
    | .spAssign p l r m, np, ind => by simp [afterLingo, lingo, lingo_afterLingo l, lingo_afterLingo r]
    | .strOp k p a b c, np, ind => by
      simp [afterLingo, lingo, lingo_afterLingo a, lingo_afterLingo b, lingo_afterLingo c, afterLingo_isNone]
    | .unaryStr op p t x, np, ind => by simp [afterLingo, lingo, lingo_afterLingo x]
    | .propAcc p o pr ex, np, ind => by simp [afterLingo, lingo, lingo_afterLingo o, afterLingo_cls]
    | .keyAcc .., np, ind => by simp [afterLingo]
    | .menuItemAcc p m i, np, ind => by simp [afterLingo, lingo, lingo_afterLingo m, lingo_afterLingo i]
    | .menuItemsAcc p m, np, ind => by simp [afterLingo, lingo, lingo_afterLingo m]
    | .loadList n p ops, np, ind => by simp [afterLingo, lingo, lingoStrs_afterLingoList ops]
    | .toList p x, np, ind => by
      cases x with
      | loadList ln lp ops => simp [afterLingo, lingo, lingoStrs_afterLingoList ops]
      | callFn _ _ ps _ _ _ _ => cases ps <;> simp [afterLingo, lingo]
      | _ => simp [afterLingo, lingo]
    | .toDict p x, np, ind => by
      cases x with
      | loadList ln lp ops => simp [afterLingo, lingo, lingoPairs_afterLingoList ops]
      | callFn _ _ ps _ _ _ _ => cases ps <;> simp [afterLingo, lingo]
      | _ => simp [afterLingo, lingo]
    | .stmt p c, np, ind => by
      simp [afterLingo, lingo, clearParen_lingo_true, lingo_afterLingo c]
    | .callFn name p params up it wr rc, np, ind => by
      cases params with
      | loadList ln lp ops =>
        simp only [afterLingo, lingo]
        by_cases hs : (name == Name.s (S "sound")) = true
        · simp only [hs, if_true, afterLingoButLast_isEmpty, lastNameGv_afterLingoButLast, lingoStrsButLast_afterLingoButLast ops]
        · simp only [hs, Bool.false_eq_true, if_false, afterLingoList_isEmpty, lingoStrs_afterLingoList ops, goWord_afterLingoList]
      | _ => simp [afterLingo, lingo]
    | .callMethod n p o ps, np, ind => by simp [afterLingo, lingo, lingo_afterLingo o, lingo_afterLingo ps]
    | .repeat_ p e c l t s v sg vr, np, ind => by
      simp only [afterLingo, lingo, lingo_afterLingo c, lingoStmts_afterLingoList l, lingoRight_afterLingo c]
      by_cases ht : t = S "while"
      · simp [ht]
      · simp [ht, lingo_afterLingo s]
    | .ifThen p c a b, np, ind => by
      simp [afterLingo, lingo, lingo_afterLingo c, lingoStmts_afterLingoList a, lingoStmts_afterLingoList b, afterLingoList_isEmpty]
    | .jump .., np, ind => by simp [afterLingo]
    | .jz .., np, ind => by simp [afterLingo, lingo]
    | .tell p o l cl, np, ind => by simp [afterLingo, lingo, lingo_afterLingo o, lingoStmts_afterLingoList l]
  theorem lingoStrs_afterLingoList : ∀ (l : List Node) (gv : Bool) (ind : Nat), lingoStrs gv (afterLingoList l) ind = lingoStrs gv l ind
    | [], gv, ind => by simp [afterLingoList]
    | [x], gv, ind => by
      simp [afterLingoList, lingoStrs, lingo_afterLingo x, afterLingo_symName]
    | x :: y :: r, gv, ind => by
      have := lingoStrs_afterLingoList (y :: r) gv ind
      simp only [afterLingoList] at *
      simp [lingoStrs, lingo_afterLingo x, this]
  theorem lingoStrsButLast_afterLingoButLast : ∀ (l : List Node) (ind : Nat), lingoStrsButLast (afterLingoButLast l) ind = lingoStrsButLast l ind
    | [], ind => by simp [afterLingoButLast]
    | [x], ind => by simp [afterLingoButLast, lingoStrsButLast]
    | x :: y :: r, ind => by
      have ih := lingoStrsButLast_afterLingoButLast (y :: r) ind
      rw [afterLingoButLast_cons, lingoStrsButLast_cons x]
      simp only [List.isEmpty_cons, Bool.false_eq_true, if_false]
      rw [lingoStrsButLast_cons, afterLingoButLast_isEmpty, ih, lingo_afterLingo x]
      simp
  theorem lingoRight_afterLingo : ∀ (c : Node), lingoRight (afterLingo c) = lingoRight c
    | .binary op p l r => by simp [afterLingo, lingoRight, lingo_afterLingo r]
    | .callFn name p params up it wr rc => by cases params <;> simp [afterLingo, lingoRight]
    | .none => by simp [afterLingo, lingoRight]
    | .leaf .. => by simp [afterLingo, lingoRight]
    | .sym .. => by simp [afterLingo, lingoRight]
    | .unary .. => by simp [afterLingo, lingoRight]
    | .spAssign .. => by simp [afterLingo, lingoRight]
    | .strOp .. => by simp [afterLingo, lingoRight]
    | .unaryStr .. => by simp [afterLingo, lingoRight]
    | .propAcc .. => by simp [afterLingo, lingoRight]
    | .keyAcc .. => by simp [afterLingo, lingoRight]
    | .menuItemAcc .. => by simp [afterLingo, lingoRight]
    | .menuItemsAcc .. => by simp [afterLingo, lingoRight]
    | .loadList .. => by simp [afterLingo, lingoRight]
    | .toList .. => by simp [afterLingo, lingoRight]
    | .toDict .. => by simp [afterLingo, lingoRight]
    | .stmt .. => by simp [afterLingo, lingoRight]
    | .callMethod .. => by simp [afterLingo, lingoRight]
    | .repeat_ .. => by simp [afterLingo, lingoRight]
    | .ifThen .. => by simp [afterLingo, lingoRight]
    | .jump .. => by simp [afterLingo, lingoRight]
    | .jz .. => by simp [afterLingo, lingoRight]
    | .tell .. => by simp [afterLingo, lingoRight]
  theorem lingoStmts_afterLingoList : ∀ (l : List Node) (ind : Nat), lingoStmts (afterLingoList l) ind = lingoStmts l ind
    | [], ind => by simp [afterLingoList]
    | x :: r, ind => by simp [afterLingoList, lingoStmts, lingo_afterLingo x, lingoStmts_afterLingoList r]
  theorem lingoPairs_afterLingoList : ∀ (l : List Node) (ind : Nat), lingoPairs (afterLingoList l) ind = lingoPairs l ind
    | [], ind => by simp [afterLingoList]
    | [x], ind => by simp [afterLingoList, lingoPairs]
    | v :: k :: r, ind => by simp [afterLingoList, lingoPairs, lingo_afterLingo v, lingo_afterLingo k, lingoPairs_afterLingoList r]
end

/-! ### JavaScript after Lingo -/

theorem afterLingo_name (x : Node) : (afterLingo x).name = x.name := by
  cases x <;> simp [afterLingo, Node.name]
  rename_i n p ps up it wr rc
  cases ps <;> simp [afterLingo, Node.name]

theorem afterLingo_withResult (x : Node) : (afterLingo x).withResult = x.withResult := by
  cases x <;> simp [afterLingo, Node.withResult]
  rename_i n p ps up it wr rc
  cases ps <;> simp [afterLingo, Node.withResult]

theorem afterLingo_isMenusVar (x : Node) : (afterLingo x).isMenusVar = x.isMenusVar := by
  cases x <;> simp [afterLingo, Node.isMenusVar]
  rename_i n p ps up it wr rc
  cases ps <;> simp [afterLingo, Node.isMenusVar]

theorem symToGv_afterLingo_name (x : Node) : (symToGv (afterLingo x)).name = (symToGv x).name := by
  cases x <;> simp [afterLingo, symToGv, Node.name]
  rename_i n p ps up it wr rc
  cases ps <;> simp [afterLingo, symToGv, Node.name]

theorem clearParen_withResult (x : Node) : (clearParen x).withResult = x.withResult := by
  cases x <;> simp [clearParen, Node.withResult]

theorem clearParen_js (fm tgt : Bool) (x : Node) (ind : Nat) : js fm tgt (clearParen x) ind = js fm tgt x ind := by
  cases x <;> simp [clearParen]
  rename_i name pos params up it wr rc
  cases params <;> simp [js]

theorem jsNames_afterLingoList (l : List Node) : jsNames (afterLingoList l) = jsNames l := by
  induction l with
  | nil => simp [afterLingoList]
  | cons x r ih => simp [afterLingoList, jsNames, afterLingo_name, ih]

theorem jsNames_afterLingoButLast (l : List Node) : jsNames (afterLingoButLast l) = jsNames l := by
  match l with
  | [] => simp [afterLingoButLast]
  | [x] => simp [afterLingoButLast]
  | x :: y :: r => simp [afterLingoButLast, jsNames, afterLingo_name, jsNames_afterLingoButLast (y :: r)]

theorem afterLingoList_length (l : List Node) : (afterLingoList l).length = l.length := by
  induction l with
  | nil => simp [afterLingoList]
  | cons x r ih => simp [afterLingoList, ih]

theorem afterLingoList_getLast (l : List Node) : (afterLingoList l).getLast? = l.getLast?.map afterLingo := by
  induction l with
  | nil => simp [afterLingoList]
  | cons x r ih =>
    cases r with
    | nil => simp [afterLingoList]
    | cons y r' =>
      simp only [afterLingoList] at ih ⊢
      rw [List.getLast?_cons_cons, List.getLast?_cons_cons, ih]

theorem lastNameGv_afterLingoList (gv : Bool) (l : List Node) : lastNameGv gv (afterLingoList l) = lastNameGv gv l := by
  simp only [lastNameGv, pyGet_neg_one, afterLingoList_getLast]
  cases l.getLast? with
  | none => simp
  | some x => cases gv <;> simp [Bind.bind, Except.bind, afterLingo_name, symToGv_afterLingo_name]

theorem jsStrs_cons (fm gv : Bool) (x : Node) (l : List Node) (ind : Nat) :
    jsStrs fm gv (x :: l) ind = (if l.isEmpty then
      (match (if gv then x.symName? else none) with
       | some n => .ok [S "_global." ++ n.str]
       | none => do let t ← js fm false x ind; pure [t.str])
    else do
      let t ← js fm false x ind
      let ts ← jsStrs fm gv l ind
      pure (t.str :: ts)) := by
  cases l <;> simp [jsStrs] <;> rfl

mutual
  theorem js_afterLingo : ∀ (n : Node) (fm tgt : Bool) (ind : Nat), js fm tgt (afterLingo n) ind = js fm tgt n ind
    | .none, fm, tgt, ind => by simp [afterLingo]
    | .leaf .., fm, tgt, ind => by simp [afterLingo]
    | .sym name p uh, fm, tgt, ind => by simp [afterLingo, js]
    | .unary op p x, fm, tgt, ind => by simp [afterLingo, js, js_afterLingo x]
    | .binary op p l r, fm, tgt, ind => by simp [afterLingo, js, js_afterLingo l, js_afterLingo r]
    | .spAssign p l r m, fm, tgt, ind => by simp [afterLingo, js, js_afterLingo l, js_afterLingo r]
    | .strOp k p a b c, fm, tgt, ind => by
      simp [afterLingo, js, js_afterLingo a, js_afterLingo b, js_afterLingo c, afterLingo_isNone]
    | .unaryStr op p t x, fm, tgt, ind => by simp [afterLingo, js, js_afterLingo x, afterLingo_isMenusVar]
    | .propAcc p o pr ex, fm, tgt, ind => by simp [afterLingo, js, js_afterLingo o]
    | .keyAcc .., fm, tgt, ind => by simp [afterLingo]
    | .menuItemAcc p m i, fm, tgt, ind => by simp [afterLingo, js, js_afterLingo m, js_afterLingo i]
    | .menuItemsAcc p m, fm, tgt, ind => by simp [afterLingo, js, js_afterLingo m]
    | .loadList n p ops, fm, tgt, ind => by simp [afterLingo, js, jsStrs_afterLingoList ops]
    | .toList p x, fm, tgt, ind => by
      cases x with
      | loadList ln lp ops => simp [afterLingo, js, jsStrs_afterLingoList ops]
      | callFn _ _ ps _ _ _ _ => cases ps <;> simp [afterLingo, js]
      | _ => simp [afterLingo, js]
    | .toDict p x, fm, tgt, ind => by
      cases x with
      | loadList ln lp ops => simp [afterLingo, js, jsStrs_afterLingoList ops]
      | callFn _ _ ps _ _ _ _ => cases ps <;> simp [afterLingo, js]
      | _ => simp [afterLingo, js]
    | .stmt p c, fm, tgt, ind => by
      simp [afterLingo, js, clearParen_js, clearParen_withResult, afterLingo_withResult, js_afterLingo c]
    | .callFn name p params up it wr rc, fm, tgt, ind => by
      cases params with
      | loadList ln lp ops =>
        simp only [afterLingo, js]
        by_cases hs : (name == Name.s (S "sound")) = true
        · simp only [hs, if_true, afterLingoButLast_isEmpty, lastNameGv_afterLingoButLast, jsStrs_afterLingoButLast ops,
            jsNames_afterLingoButLast]
        · simp only [hs, Bool.false_eq_true, if_false, afterLingoList_isEmpty, jsStrs_afterLingoList ops, jsNames_afterLingoList,
            lastNameGv_afterLingoList]
      | _ => simp [afterLingo, js]
    | .callMethod n p o ps, fm, tgt, ind => by simp [afterLingo, js, js_afterLingo o, js_afterLingo ps]
    | .repeat_ p e c l t s v sg vr, fm, tgt, ind => by
      simp only [afterLingo, js, js_afterLingo c, jsStmts_afterLingoList l]
      by_cases ht : t = S "while"
      · simp [ht]
      · simp [ht, js_afterLingo s]
    | .ifThen p c a b, fm, tgt, ind => by
      simp [afterLingo, js, js_afterLingo c, jsStmts_afterLingoList a, jsStmts_afterLingoList b, afterLingoList_isEmpty]
    | .jump .., fm, tgt, ind => by simp [afterLingo]
    | .jz .., fm, tgt, ind => by simp [afterLingo, js]
    | .tell p o l cl, fm, tgt, ind => by simp [afterLingo, js, js_afterLingo o, jsStmts_afterLingoList l]
  theorem jsStrs_afterLingoList : ∀ (l : List Node) (fm gv : Bool) (ind : Nat), jsStrs fm gv (afterLingoList l) ind = jsStrs fm gv l ind
    | [], fm, gv, ind => by simp [afterLingoList]
    | [x], fm, gv, ind => by simp [afterLingoList, jsStrs, js_afterLingo x, afterLingo_symName]
    | x :: y :: r, fm, gv, ind => by
      have := jsStrs_afterLingoList (y :: r) fm gv ind
      simp only [afterLingoList] at *
      simp [jsStrs, js_afterLingo x, this]
  theorem jsStrs_afterLingoButLast : ∀ (l : List Node) (fm gv : Bool) (ind : Nat), jsStrs fm gv (afterLingoButLast l) ind = jsStrs fm gv l ind
    | [], fm, gv, ind => by simp [afterLingoButLast]
    | [x], fm, gv, ind => by simp [afterLingoButLast]
    | x :: y :: r, fm, gv, ind => by
      have ih := jsStrs_afterLingoButLast (y :: r) fm gv ind
      rw [afterLingoButLast_cons, jsStrs_cons fm gv x]
      simp only [List.isEmpty_cons, Bool.false_eq_true, if_false]
      rw [jsStrs_cons, afterLingoButLast_isEmpty, ih, js_afterLingo x]
      simp
  theorem jsStmts_afterLingoList : ∀ (l : List Node) (fm : Bool) (ind : Nat), jsStmts fm (afterLingoList l) ind = jsStmts fm l ind
    | [], fm, ind => by simp [afterLingoList]
    | x :: r, fm, ind => by simp [afterLingoList, jsStmts, js_afterLingo x, jsStmts_afterLingoList r]
end

/-! ### script level -/

theorem strLe_refl (a : Str) : strLe a a = true := by
  induction a with
  | nil => simp [strLe]
  | cons x xs ih => simp [strLe, ih]

theorem strLe_total (a b : Str) : (strLe a b || strLe b a) = true := by
  induction a generalizing b with
  | nil => simp [strLe]
  | cons x xs ih =>
    cases b with
    | nil => simp [strLe]
    | cons y ys =>
      simp only [strLe]
      by_cases h1 : x.toNat < y.toNat
      · simp [h1]
      · by_cases h2 : y.toNat < x.toNat
        · simp [h1, h2]
        · simp [h1, h2, ih ys]

theorem strLe_trans (a b c : Str) : strLe a b = true → strLe b c = true → strLe a c = true := by
  induction a generalizing b c with
  | nil => simp [strLe]
  | cons x xs ih =>
    cases b with
    | nil => simp [strLe]
    | cons y ys =>
      cases c with
      | nil => simp [strLe]
      | cons z zs =>
        simp only [strLe]
        intro h1 h2
        by_cases hxy : x.toNat < y.toNat
        · by_cases hyz : y.toNat < z.toNat
          · have : x.toNat < z.toNat := by omega
            simp [this]
          · by_cases hzy : z.toNat < y.toNat
            · simp [hyz, hzy] at h2
            · have : x.toNat < z.toNat := by omega
              simp [this]
        · by_cases hyx : y.toNat < x.toNat
          · simp [hxy, hyx] at h1
          · simp only [hxy, hyx, if_false] at h1
            by_cases hyz : y.toNat < z.toNat
            · have : x.toNat < z.toNat := by omega
              simp [this]
            · by_cases hzy : z.toNat < y.toNat
              · simp [hyz, hzy] at h2
              · simp only [hyz, hzy, if_false] at h2
                have e1 : ¬ x.toNat < z.toNat := by omega
                have e2 : ¬ z.toNat < x.toNat := by omega
                simp only [e1, e2, if_false]
                exact ih ys zs h1 h2

/-- sorting the global variables of a handler twice is sorting them once -/
theorem sortedByName_idem (l : List Node) : sortedByName (sortedByName l) = sortedByName l := by
  unfold sortedByName
  apply List.mergeSort_of_pairwise
  apply List.pairwise_mergeSort
  · intro a b c; exact strLe_trans _ _ _
  · intro a b; exact strLe_total _ _

theorem clearParen_name (x : Node) : (clearParen x).name = x.name := by
  cases x <;> simp [clearParen, Node.name]

/-- what `endsWithExit` looks at in the last statement is unchanged by a generator walk -/
def exitView : Node → R Bool
  | .stmt _ code => (code.name).map fun n => n == Name.s (S "exit")
  | _ => .error .type

theorem endsWithExit_eq (l : List Node) : endsWithExit l = match l.getLast? with | none => .ok false | some x => exitView x := by
  unfold endsWithExit
  cases l.getLast? with
  | none => rfl
  | some x => cases x <;> rfl

theorem exitView_afterLingo (x : Node) : exitView (afterLingo x) = exitView x := by
  cases x <;> simp [afterLingo, exitView, clearParen_name, afterLingo_name]
  rename_i n p ps up it wr rc
  cases ps <;> simp [afterLingo, exitView]

theorem endsWithExit_afterLingoList (l : List Node) : endsWithExit (afterLingoList l) = endsWithExit l := by
  rw [endsWithExit_eq, endsWithExit_eq, afterLingoList_getLast]
  cases l.getLast? with
  | none => rfl
  | some x => simp [exitView_afterLingo]

theorem endsWithExit_append_last (a b : List Node) (h : b ≠ []) : endsWithExit (a ++ b) = endsWithExit b := by
  rw [endsWithExit_eq, endsWithExit_eq, List.getLast?_append]
  cases hb : b.getLast? with
  | none => simp [List.getLast?_eq_none_iff] at hb; exact absurd hb h
  | some x => simp

theorem dropLast_append_drop (l : List Node) : l.dropLast ++ l.drop (l.length - 1) = l := by
  rw [List.dropLast_eq_take, List.take_append_drop]

theorem drop_last_length (l : List Node) (h : l ≠ []) : (l.drop (l.length - 1)).length = 1 := by
  have : 0 < l.length := List.length_pos_iff.mpr h
  simp [List.length_drop]; omega

theorem drop_last_ne_nil (l : List Node) (h : l ≠ []) : l.drop (l.length - 1) ≠ [] := by
  intro e; have := drop_last_length l h; rw [e] at this; simp at this

theorem dropLast_of_length_one (b : List Node) (h : b.length = 1) : b.dropLast = [] := by
  match b, h with
  | [x], _ => rfl

theorem dropLast_append_last (a l : List Node) (h : l ≠ []) :
    (a ++ l.drop (l.length - 1)).dropLast = a := by
  rw [List.dropLast_append_of_ne_nil (drop_last_ne_nil l h), dropLast_of_length_one _ (drop_last_length l h)]
  simp

/-- a handler body after a Lingo generation prints the same Lingo -/
theorem body_lingo_afterLingo (stmts : List Node) (ind : Nat) :
    (bodyStmts (afterLingoBody stmts)).bind (fun b => lingoStmts b ind) = (bodyStmts stmts).bind (fun b => lingoStmts b ind) := by
  unfold afterLingoBody
  cases he : endsWithExit stmts with
  | error e => rfl
  | ok e =>
    cases e with
    | false =>
      simp only [bodyStmts, endsWithExit_afterLingoList, he]
      simp [Bind.bind, Except.bind, pure, Except.pure, lingoStmts_afterLingoList]
    | true =>
      have hne : stmts ≠ [] := by
        intro h; subst h; simp [endsWithExit] at he
      have hl := drop_last_ne_nil stmts hne
      have e1 : endsWithExit (afterLingoList stmts.dropLast ++ stmts.drop (stmts.length - 1)) = .ok true := by
        rw [endsWithExit_append_last _ _ hl, ← he]
        conv => rhs; rw [← dropLast_append_drop stmts]
        rw [endsWithExit_append_last _ _ hl]
      have e2 : (afterLingoList stmts.dropLast ++ stmts.drop (stmts.length - 1)).dropLast = afterLingoList stmts.dropLast :=
        dropLast_append_last _ _ hne
      simp only [bodyStmts, e1, he]
      simp [Bind.bind, Except.bind, pure, Except.pure, e2, lingoStmts_afterLingoList]

/-- … and the same JavaScript -/
theorem body_js_afterLingo (stmts : List Node) (fm : Bool) (ind : Nat) :
    (bodyStmts (afterLingoBody stmts)).bind (fun b => jsStmts fm b ind) = (bodyStmts stmts).bind (fun b => jsStmts fm b ind) := by
  unfold afterLingoBody
  cases he : endsWithExit stmts with
  | error e => rfl
  | ok e =>
    cases e with
    | false =>
      simp only [bodyStmts, endsWithExit_afterLingoList, he]
      simp [Bind.bind, Except.bind, pure, Except.pure, jsStmts_afterLingoList]
    | true =>
      have hne : stmts ≠ [] := by
        intro h; subst h; simp [endsWithExit] at he
      have hl := drop_last_ne_nil stmts hne
      have e1 : endsWithExit (afterLingoList stmts.dropLast ++ stmts.drop (stmts.length - 1)) = .ok true := by
        rw [endsWithExit_append_last _ _ hl, ← he]
        conv => rhs; rw [← dropLast_append_drop stmts]
        rw [endsWithExit_append_last _ _ hl]
      have e2 : (afterLingoList stmts.dropLast ++ stmts.drop (stmts.length - 1)).dropLast = afterLingoList stmts.dropLast :=
        dropLast_append_last _ _ hne
      simp only [bodyStmts, e1, he]
      simp [Bind.bind, Except.bind, pure, Except.pure, e2, jsStmts_afterLingoList]

theorem afterJsBody_id (stmts : List Node) : afterJsBody stmts = stmts := by
  unfold afterJsBody
  cases he : endsWithExit stmts with
  | error e => rfl
  | ok e =>
    cases e with
    | false => simp [afterJsList_id]
    | true =>
      have hne : stmts ≠ [] := by
        intro h; subst h; simp [endsWithExit] at he
      simp [afterJsList_id, dropLast_append_drop stmts]

theorem afterJsScript_id (s : Script) : afterJsScript s = s := by
  unfold afterJsScript
  have : (s.functions.map fun f => { f with stmts := afterJsBody f.stmts }) = s.functions := by
    induction s.functions with
    | nil => rfl
    | cons f fs ih => simp [afterJsBody_id, ih]
  rw [this]

theorem bodyLingo_afterLingoBody (stmts : List Node) (ind : Nat) : bodyLingo (afterLingoBody stmts) ind = bodyLingo stmts ind :=
  body_lingo_afterLingo stmts ind

theorem bodyJs_afterLingoBody (stmts : List Node) (ind : Nat) : bodyJs (afterLingoBody stmts) ind = bodyJs stmts ind :=
  body_js_afterLingo stmts true ind

theorem funcLingo_afterLingoFunc (s s' : Script) (f : FuncDef) (hp : s'.properties = s.properties) (hg : s'.globalVars = s.globalVars) :
    funcLingo s' (afterLingoFunc f) = funcLingo s f := by
  simp only [funcLingo, afterLingoFunc, sortedByName_idem, bodyLingo_afterLingoBody, hp, hg]
  try rfl

theorem funcsLingo_afterLingo (s s' : Script) (hp : s'.properties = s.properties) (hg : s'.globalVars = s.globalVars) :
    ∀ (fs : List FuncDef) (first : Bool), funcsLingo s' (fs.map afterLingoFunc) first = funcsLingo s fs first
  | [], first => by simp [funcsLingo]
  | f :: fs, first => by
    simp [funcsLingo, funcLingo_afterLingoFunc s s' f hp hg, funcsLingo_afterLingo s s' hp hg fs false]

/-- Lingo after Lingo: the second text is the first -/
theorem lingoText_afterLingoScript (s : Script) : lingoText (afterLingoScript s) = lingoText s := by
  simp only [lingoText, afterLingoScript]
  rw [funcsLingo_afterLingo s { s with functions := s.functions.map afterLingoFunc } rfl rfl]
  try rfl

theorem jsParams_afterLingoFunc (f : FuncDef) (b : Bool) : jsParams (afterLingoFunc f) b = jsParams f b := by
  simp [jsParams, afterLingoFunc]

theorem jsLocals_afterLingoFunc (f : FuncDef) (n : Nat) : jsLocals (afterLingoFunc f) n = jsLocals f n := by
  simp [jsLocals, afterLingoFunc]

theorem jsMethod_afterLingoFunc (f : FuncDef) : jsMethod (afterLingoFunc f) = jsMethod f := by
  simp only [jsMethod, jsParams_afterLingoFunc, jsLocals_afterLingoFunc]
  simp [afterLingoFunc, bodyJs_afterLingoBody]
  try rfl

theorem jsMethods_afterLingo : ∀ fs : List FuncDef, jsMethods (fs.map afterLingoFunc) = jsMethods fs
  | [] => by simp [jsMethods]
  | f :: fs => by simp [jsMethods, jsMethod_afterLingoFunc, jsMethods_afterLingo fs]

theorem commonFuncJs_afterLingoFunc (f : FuncDef) : commonFuncJs (afterLingoFunc f) = commonFuncJs f := by
  simp only [commonFuncJs, jsParams_afterLingoFunc, jsLocals_afterLingoFunc]
  simp [afterLingoFunc, bodyJs_afterLingoBody]
  try rfl

theorem commonFuncsJs_afterLingo : ∀ (fs : List FuncDef) (first : Bool), commonFuncsJs (fs.map afterLingoFunc) first = commonFuncsJs fs first
  | [], first => by simp [commonFuncsJs]
  | f :: fs, first => by simp [commonFuncsJs, commonFuncJs_afterLingoFunc, commonFuncsJs_afterLingo fs false]

theorem map_afterLingoFunc_name (g : Str → Str) (fs : List FuncDef) :
    ((fs.map afterLingoFunc).map fun f => g f.name) = fs.map fun f => g f.name := by
  induction fs with
  | nil => rfl
  | cons f fs ih => simp [afterLingoFunc]

/-- JavaScript after Lingo is the JavaScript of the fresh tree -/
theorem jsText_afterLingoScript (s : Script) : jsText (afterLingoScript s) = jsText s := by
  have hw := map_afterLingoFunc_name (fun n => if inBirth n then [] else
      S "function " ++ n ++ S "(obj, ...args) {\n" ++ indentOf 1 ++ S "return obj." ++ n ++ S "(...args);\n" ++ S "}\n") s.functions
  simp only [jsText, afterLingoScript, classJs, factoryJs, jsMethods_afterLingo, commonFuncsJs_afterLingo]
  simp only [hw]

end Drx.Lscr
