import Drx.Lscr
namespace Drx.Lscr
open Drx

mutual
  theorem afterJs_id : ∀ n : Node, afterJs n = n
    | .none => by simp [afterJs]
    | .leaf .. => by simp [afterJs]
    | .sym .. => by simp [afterJs]
    | .unary _ _ x => by simp [afterJs, afterJs_id x]
    | .binary _ _ l r => by simp [afterJs, afterJs_id l, afterJs_id r]
    | .spAssign _ l r _ => by simp [afterJs, afterJs_id l, afterJs_id r]
    | .strOp _ _ a b c => by simp [afterJs, afterJs_id a, afterJs_id b, afterJs_id c]
    | .unaryStr _ _ _ x => by simp [afterJs, afterJs_id x]
    | .propAcc _ o _ => by simp [afterJs, afterJs_id o]
    | .keyAcc .. => by simp [afterJs]
    | .menuItemAcc _ m i => by simp [afterJs, afterJs_id m, afterJs_id i]
    | .menuItemsAcc _ m => by simp [afterJs, afterJs_id m]
    | .loadList _ _ ops => by simp [afterJs, afterJsList_id ops]
    | .toList _ x => by simp [afterJs, afterJs_id x]
    | .toDict _ x => by simp [afterJs, afterJs_id x]
    | .stmt _ c => by simp [afterJs, afterJs_id c]
    | .callFn name p params up it wr => by
      cases params with
      | loadList ln lp ops => simp [afterJs, afterJsList_id ops]
      | _ => simp [afterJs]
    | .callMethod _ _ o ps => by simp [afterJs, afterJs_id o, afterJs_id ps]
    | .repeat_ _ _ c l t s _ _ => by
      simp [afterJs, afterJs_id c, afterJsList_id l, afterJs_id s]
    | .ifThen _ c a b => by simp [afterJs, afterJs_id c, afterJsList_id a, afterJsList_id b]
    | .jump .. => by simp [afterJs]
    | .jz .. => by simp [afterJs]
    | .tell _ o l => by simp [afterJs, afterJs_id o, afterJsList_id l]
  theorem afterJsList_id : ∀ l : List Node, afterJsList l = l
    | [] => by simp [afterJsList]
    | x :: r => by simp [afterJsList, afterJs_id x, afterJsList_id r]
end

end Drx.Lscr
