/-
  Helper lemmas for C08: closed form of the byte-copy loop, the inner delta loop and the record loop run on the
  serialisation of an arbitrary valid encoding, header and wrapper parsing of serialised files.
-/
import Drx.Vwsc
import Drx.VwscSpec
import DrxProofs.Py
namespace Drx.Vwsc
open Drx Drx.Vwsc.Spec

/-! ### integers in 16/32 bits -/

theorem in16_b {i : Int} (h : In16 i) : -((2 ^ (8 * 2 - 1) : Nat) : Int) ≤ i ∧ i < ((2 ^ (8 * 2 - 1) : Nat) : Int) := by
  unfold In16 at h; constructor <;> simp <;> omega

theorem in32_b {i : Int} (h : In32 i) : -((2 ^ (8 * 4 - 1) : Nat) : Int) ≤ i ∧ i < ((2 ^ (8 * 4 - 1) : Nat) : Int) := by
  unfold In32 at h; constructor <;> simp <;> omega

theorem in16_nat {n : Nat} (h : n ≤ 32767) : In16 (n : Int) := by unfold In16; omega
theorem in32_nat {n : Nat} (h : n ≤ 2147483647) : In32 (n : Int) := by unfold In32; omega

theorem slice_mid (a b c : List α) (i j : Nat) (hi : i = a.length) (hj : j = a.length + b.length) :
    slice (a ++ (b ++ c)) i j = b := by
  subst hi hj; simp [slice]

/-- a 16-bit field written at the end of `a` reads back -/
theorem getS2_at (a c : Bytes) (v : Int) (h : In16 v) (i : Nat) (hi : i = a.length) :
    getS .be 2 (a ++ (encS .be 2 v ++ c)) i = .ok v := by
  unfold getS
  rw [slice_mid a _ c i (i + 2) hi (by simp [hi])]
  exact unpackS_encS .be 2 (by decide) v (in16_b h).1 (in16_b h).2

theorem getS4_at (a c : Bytes) (v : Int) (h : In32 v) (i : Nat) (hi : i = a.length) :
    getS .be 4 (a ++ (encS .be 4 v ++ c)) i = .ok v := by
  unfold getS
  rw [slice_mid a _ c i (i + 4) hi (by simp [hi])]
  exact unpackS_encS .be 4 (by decide) v (in32_b h).1 (in32_b h).2

/-! ### the byte-copy loop -/

theorem applyDelta_length (buf : Bytes) (off : Nat) (bs : Bytes) (h : off + bs.length ≤ buf.length) :
    (applyDelta buf off bs).length = buf.length := by
  simp [applyDelta]; omega

theorem patch_split (pre mid post data : Bytes) (h : mid.length = data.length) :
    patch (pre ++ (mid ++ post)) pre.length data.length data = .ok (pre ++ (data ++ post)) := by
  induction data generalizing pre mid with
  | nil =>
    have : mid = [] := List.eq_nil_of_length_eq_zero h
    subst this; simp [patch]
  | cons b bs ih =>
    match mid, h with
    | m :: ms, h =>
      have hlt : pre.length < (pre ++ (m :: ms ++ post)).length := by simp
      simp only [List.length_cons, patch, hlt, if_true]
      have hset : (pre ++ (m :: ms ++ post)).set pre.length b = (pre ++ [b]) ++ (ms ++ post) := by
        simp [List.set_append]
      rw [hset]
      have := ih (pre ++ [b]) ms (by simpa using h)
      simp only [List.length_append, List.length_singleton] at this
      rw [this]; simp

/-- `for i in range(n): buf[p+i] = data[i]` overwrites exactly `[p, p+n)` -/
theorem patch_eq (buf : Bytes) (p n : Nat) (data : Bytes) (hd : data.length = n) (hp : p + n ≤ buf.length) :
    patch buf p n data = .ok (applyDelta buf p data) := by
  subst hd
  have hb : buf = buf.take p ++ ((buf.drop p).take data.length ++ buf.drop (p + data.length)) := by
    rw [← List.drop_drop, List.take_append_drop, List.take_append_drop]
  have hl : (buf.take p).length = p := by simp; omega
  have := patch_split (buf.take p) ((buf.drop p).take data.length) (buf.drop (p + data.length)) data (by simp; omega)
  rw [← hb, hl] at this
  rw [this]; simp [applyDelta]

/-! ### the inner delta loop on serialised ranges -/

theorem encDeltas_length (ds : List (Nat × Bytes)) : (encDeltas ds).length = deltasSize ds := by
  induction ds with
  | nil => rfl
  | cons x ds ih => simp [encDeltas, encDelta, deltasSize, ih]; omega

/-- number of bytes an encoding's ranges copy -/
def copiedOf : List (Nat × Bytes) → Nat
  | [] => 0
  | x :: ds => x.2.length + copiedOf ds

theorem applyDeltas_length (buf : Bytes) (ds : List (Nat × Bytes)) (hok : ds.all (deltaOk buf.length) = true) :
    (applyDeltas buf ds).length = buf.length := by
  induction ds generalizing buf with
  | nil => rfl
  | cons x ds ih =>
    obtain ⟨off, bs⟩ := x
    simp only [List.all_cons, Bool.and_eq_true, deltaOk, decide_eq_true_eq] at hok
    have hl := applyDelta_length buf off bs hok.1.2
    simp only [applyDeltas]
    rw [ih _ (by rw [hl]; exact hok.2), hl]

theorem deltaLoop_enc (pre post : Bytes) (ds : List (Nat × Bytes)) (buf : Bytes)
    (hok : ds.all (deltaOk buf.length) = true) (hn : buf.length ≤ 32768) (hsize : deltasSize ds ≤ 32765) (it cp : Nat) :
    deltaLoop (pre ++ (encDeltas ds ++ post)) buf pre.length ((deltasSize ds : Nat) : Int) it cp
      = .ok ⟨pre.length + deltasSize ds, 0, applyDeltas buf ds, it + ds.length, cp + copiedOf ds⟩ := by
  induction ds generalizing pre buf it cp with
  | nil =>
    rw [deltaLoop]; simp [deltasSize, applyDeltas, copiedOf]
  | cons x ds ih =>
    obtain ⟨off, bs⟩ := x
    simp only [List.all_cons, Bool.and_eq_true, deltaOk, decide_eq_true_eq] at hok
    obtain ⟨⟨hpos, hfit⟩, hrest⟩ := hok
    simp only [deltasSize] at hsize ⊢
    generalize hD : pre ++ (encDeltas ((off, bs) :: ds) ++ post) = D
    have hD1 : D = pre ++ (encS .be 2 (bs.length : Int) ++ (encS .be 2 (off : Int) ++ (bs ++ (encDeltas ds ++ post)))) := by
      rw [← hD]; simp [encDeltas, encDelta, List.append_assoc]
    have hD2 : D = (pre ++ encS .be 2 (bs.length : Int)) ++ (encS .be 2 (off : Int) ++ (bs ++ (encDeltas ds ++ post))) := by
      rw [hD1]; simp [List.append_assoc]
    have hD3 : D = (pre ++ encS .be 2 (bs.length : Int) ++ encS .be 2 (off : Int)) ++ (bs ++ (encDeltas ds ++ post)) := by
      rw [hD1]; simp [List.append_assoc]
    have hD4 : D = (pre ++ encDelta (off, bs)) ++ (encDeltas ds ++ post) := by
      rw [hD1]; simp [encDelta, List.append_assoc]
    have g1 : getS .be 2 D pre.length = .ok (bs.length : Int) := by
      rw [hD1]; exact getS2_at pre _ _ (in16_nat (by omega)) _ rfl
    have g2 : getS .be 2 D (pre.length + 2) = .ok (off : Int) := by
      rw [hD2]; exact getS2_at _ _ _ (in16_nat (by omega)) _ (by simp)
    have g3 : slice D (pre.length + 4) (pre.length + 4 + bs.length) = bs := by
      rw [hD3]; exact slice_mid _ _ _ _ _ (by simp) (by simp)
    have hcs : (((4 + bs.length + deltasSize ds : Nat) : Int)) > 0 := by omega
    have hbr : ¬ (((bs.length : Nat) : Int) > ((4 + bs.length + deltasSize ds : Nat) : Int) ∨ ((bs.length : Nat) : Int) ≤ 0) := by omega
    have hoff : ¬ ((off : Int) < 0) := by omega
    rw [deltaLoop]
    simp only [hcs, dite_true, g1, hbr, if_false, g2, hoff, Int.toNat_natCast, g3]
    rw [patch_eq buf off bs.length bs rfl hfit]
    simp only
    have hl := applyDelta_length buf off bs hfit
    have e1 : (((4 + bs.length + deltasSize ds : Nat) : Int)) - 4 - ((bs.length : Nat) : Int) = ((deltasSize ds : Nat) : Int) := by
      push_cast; omega
    have e2 : pre.length + 4 + bs.length = (pre ++ encDelta (off, bs)).length := by
      simp [encDelta]; omega
    rw [e1, e2, hD4]
    rw [ih (pre ++ encDelta (off, bs)) (applyDelta buf off bs) (by rw [hl]; exact hrest) (by rw [hl]; exact hn) (by omega)]
    simp only [applyDeltas, copiedOf, List.length_cons, Except.ok.injEq, DState.mk.injEq, true_and]
    refine ⟨?_, ?_, ?_⟩
    · rw [← e2]; omega
    · omega
    · omega

/-! ### the record loop on serialised records -/

/-- decode each successive channel state; the first failing state fails the whole decode -/
def framesOf (lay : Layout) (buf : Bytes) : List Rec → R (List Frame)
  | [] => .ok []
  | r :: rs =>
    match parseChannels lay (applyRec buf r) with
    | .error e => .error e
    | .ok f =>
      match framesOf lay (applyRec buf r) rs with
      | .error e => .error e
      | .ok fs => .ok (f :: fs)

theorem framesOf_eq_expected (lay : Layout) (buf : Bytes) (recs : List Rec) :
    framesOf lay buf recs = expectedFrames lay buf recs := by
  unfold expectedFrames
  induction recs generalizing buf with
  | nil => simp [framesOf, states, pure, Except.pure]
  | cons r rs ih =>
    simp only [framesOf, states, List.mapM_cons, ih]
    cases parseChannels lay (applyRec buf r) <;> simp [bind, Except.bind]
    cases List.mapM (parseChannels lay) (states (applyRec buf r) rs) <;> simp [pure, Except.pure]

theorem encRec_length (r : Rec) : (encRec r).length = recSize r := by
  cases r <;> simp [encRec, recSize, encDeltas_length]

theorem applyRec_length (buf : Bytes) (r : Rec) (h : recOk buf.length r = true) : (applyRec buf r).length = buf.length := by
  cases r with
  | same => rfl
  | deltas ds =>
    simp only [recOk, Bool.and_eq_true] at h
    exact applyDeltas_length buf ds h.1

theorem deltasSize_pos_of_ne_nil (ds : List (Nat × Bytes)) (h : ds ≠ []) : 4 ≤ deltasSize ds := by
  cases ds with
  | nil => exact absurd rfl h
  | cons x ds => simp [deltasSize]; omega

theorem lastOr_eq (prev : Option Frame) (x : R Frame) (hprev : ∀ f, prev = some f → x = .ok f) :
    lastOr prev (fun _ => x) = x := by
  cases prev with
  | none => rfl
  | some f => simp [lastOr, hprev f rfl]

theorem recLoop_enc (lay : Layout) (pre : Bytes) (recs : List Rec) (buf : Bytes) (prev : Option Frame)
    (hprev : ∀ f, prev = some f → parseChannels lay buf = .ok f)
    (hok : recsOk buf.length recs = true) (hn : buf.length ≤ 32768) :
    recLoop lay (pre ++ encRecs recs) buf pre.length prev = framesOf lay buf recs := by
  induction recs generalizing pre buf prev with
  | nil => rw [recLoop.eq_def]; simp [encRecs, framesOf]
  | cons r rs ih =>
    simp only [recsOk, List.all_cons, Bool.and_eq_true] at hok
    obtain ⟨hr, hrs⟩ := hok
    have hlt : pre.length < (pre ++ encRecs (r :: rs)).length := by
      simp only [encRecs, List.length_append, encRec_length]
      cases r <;> simp [recSize] <;> omega
    have hD : pre ++ encRecs (r :: rs) = (pre ++ encRec r) ++ encRecs rs := by simp [encRecs]
    -- the two ways a record of size 2 arises: `same`, or an empty range list
    have same_case : ∀ (hsz : encRec r = encS .be 2 2) (hap : applyRec buf r = buf),
        recLoop lay (pre ++ encRecs (r :: rs)) buf pre.length prev = framesOf lay buf (r :: rs) := by
      intro hsz hap
      have g : getS .be 2 (pre ++ encRecs (r :: rs)) pre.length = .ok 2 := by
        simp only [encRecs, hsz]; exact getS2_at pre _ 2 (by decide) _ rfl
      rw [recLoop.eq_def]
      simp only [hlt, dite_true, g]
      simp only [show ¬ ((2 : Int) < 2) by decide, if_false, if_true, lastOr_eq prev _ hprev]
      simp only [framesOf, hap]
      cases hpc : parseChannels lay buf with
      | error e => simp
      | ok f =>
        simp only
        have e2 : pre.length + 2 = (pre ++ encRec r).length := by simp [hsz]
        rw [e2, hD, ih (pre ++ encRec r) buf (some f) (by intro f' hf'; cases hf'; exact hpc) hrs hn]
        cases framesOf lay buf rs <;> rfl
    cases r with
    | same => exact same_case rfl rfl
    | deltas ds =>
      by_cases hnil : ds = []
      · subst hnil; exact same_case (by simp [encRec, deltasSize, encDeltas]) rfl
      · simp only [recOk, Bool.and_eq_true, decide_eq_true_eq] at hr
        obtain ⟨hds, hsz⟩ := hr
        have h4 := deltasSize_pos_of_ne_nil ds hnil
        have hDa : pre ++ encRecs (Rec.deltas ds :: rs) = pre ++ (encS .be 2 ((2 + deltasSize ds : Nat) : Int) ++ (encDeltas ds ++ encRecs rs)) := by
          simp [encRecs, encRec, List.append_assoc]
        have hDb : pre ++ encRecs (Rec.deltas ds :: rs) = (pre ++ encS .be 2 ((2 + deltasSize ds : Nat) : Int)) ++ (encDeltas ds ++ encRecs rs) := by
          rw [hDa]; simp [List.append_assoc]
        have g : getS .be 2 (pre ++ encRecs (Rec.deltas ds :: rs)) pre.length = .ok ((2 + deltasSize ds : Nat) : Int) := by
          rw [hDa]; exact getS2_at pre _ _ (in16_nat hsz) _ rfl
        have hDL : deltaLoop (pre ++ encRecs (Rec.deltas ds :: rs)) buf (pre.length + 2) (((2 + deltasSize ds : Nat) : Int) - 2) 0 0
            = .ok ⟨pre.length + 2 + deltasSize ds, 0, applyDeltas buf ds, 0 + ds.length, 0 + copiedOf ds⟩ := by
          have e : (((2 + deltasSize ds : Nat) : Int) - 2) = ((deltasSize ds : Nat) : Int) := by push_cast; omega
          have := deltaLoop_enc (pre ++ encS .be 2 ((2 + deltasSize ds : Nat) : Int)) (encRecs rs) ds buf hds hn (by omega) 0 0
          simp only [List.length_append, encS_length] at this
          rw [e, hDb]; exact this
        rw [recLoop.eq_def]
        simp only [hlt, dite_true, g]
        have c1 : ¬ (((2 + deltasSize ds : Nat) : Int) < 2) := by omega
        have c2 : ¬ (((2 + deltasSize ds : Nat) : Int) = 2) := by omega
        simp only [c1, c2, if_false]
        split
        · rename_i e heq; rw [hDL] at heq; cases heq
        · rename_i s heq
          rw [hDL] at heq
          cases heq
          simp only [framesOf, applyRec]
          cases hpc : parseChannels lay (applyDeltas buf ds) with
          | error e => simp
          | ok f =>
            simp only
            have e2 : (((pre.length + 2 + deltasSize ds : Nat) : Int) + 0).toNat = (pre ++ encRec (Rec.deltas ds)).length := by
              simp [encRec, encDeltas_length]; omega
            have hl := applyDeltas_length buf ds hds
            rw [e2, hD, ih (pre ++ encRec (Rec.deltas ds)) (applyDeltas buf ds) (some f)
              (by intro f' hf'; cases hf'; exact hpc) (by rw [hl]; exact hrs) (by rw [hl]; exact hn)]
            cases framesOf lay (applyDeltas buf ds) rs <;> rfl

/-! ### header -/

theorem lookupParser_frameSize (lay : Layout) : lookupParser ((lay.frameSize : Nat) : Int) = .ok lay := by
  cases lay <;> rfl

theorem encRecs_length_eq (f : ScoreFile) : (serialise f).length = 20 + (encRecs f.recs).length := by
  simp [serialise]; omega

theorem frameSize_le (lay : Layout) : lay.frameSize ≤ 24 := by cases lay <;> decide

theorem parseHeader_serialise (f : ScoreFile) (h : f.Valid) :
    parseHeader (serialise f) = .ok ⟨f.lay, f.frameCount, (f.lay.frameSize : Nat), (f.channelCount : Nat)⟩ := by
  obtain ⟨_, _, hcc, htot, hfc, hu1, hu2⟩ := h
  have hlen := encRecs_length_eq f
  generalize hS : serialise f = S at hlen
  have hfs := frameSize_le f.lay
  have r0 : getS .be 4 S 0 = .ok ((20 + (encRecs f.recs).length : Nat) : Int) := by
    have : S = [] ++ (encS .be 4 ((20 + (encRecs f.recs).length : Nat) : Int) ++ (encS .be 4 0x14 ++ (encS .be 4 f.frameCount ++
        (encS .be 2 f.unknown01 ++ (encS .be 2 (f.lay.frameSize : Nat) ++ (encS .be 2 (f.channelCount : Nat) ++ (encS .be 2 f.unknown02 ++ encRecs f.recs))))))) := by
      rw [← hS]; simp [serialise, List.append_assoc]
    rw [this]; exact getS4_at [] _ _ (in32_nat htot) _ rfl
  have r4 : getS .be 4 S 4 = .ok 0x14 := by
    have : S = encS .be 4 ((20 + (encRecs f.recs).length : Nat) : Int) ++ (encS .be 4 0x14 ++ (encS .be 4 f.frameCount ++
        (encS .be 2 f.unknown01 ++ (encS .be 2 (f.lay.frameSize : Nat) ++ (encS .be 2 (f.channelCount : Nat) ++ (encS .be 2 f.unknown02 ++ encRecs f.recs)))))) := by
      rw [← hS]; simp [serialise, List.append_assoc]
    rw [this]; exact getS4_at _ _ _ (by decide) _ (by simp)
  have r8 : getS .be 4 S 8 = .ok f.frameCount := by
    have : S = (encS .be 4 ((20 + (encRecs f.recs).length : Nat) : Int) ++ encS .be 4 0x14) ++ (encS .be 4 f.frameCount ++
        (encS .be 2 f.unknown01 ++ (encS .be 2 (f.lay.frameSize : Nat) ++ (encS .be 2 (f.channelCount : Nat) ++ (encS .be 2 f.unknown02 ++ encRecs f.recs))))) := by
      rw [← hS]; simp [serialise, List.append_assoc]
    rw [this]; exact getS4_at _ _ _ hfc _ (by simp)
  have r12 : getS .be 2 S 12 = .ok f.unknown01 := by
    have : S = (encS .be 4 ((20 + (encRecs f.recs).length : Nat) : Int) ++ encS .be 4 0x14 ++ encS .be 4 f.frameCount) ++
        (encS .be 2 f.unknown01 ++ (encS .be 2 (f.lay.frameSize : Nat) ++ (encS .be 2 (f.channelCount : Nat) ++ (encS .be 2 f.unknown02 ++ encRecs f.recs)))) := by
      rw [← hS]; simp [serialise, List.append_assoc]
    rw [this]; exact getS2_at _ _ _ hu1 _ (by simp)
  have r14 : getS .be 2 S 14 = .ok ((f.lay.frameSize : Nat) : Int) := by
    have : S = (encS .be 4 ((20 + (encRecs f.recs).length : Nat) : Int) ++ encS .be 4 0x14 ++ encS .be 4 f.frameCount ++ encS .be 2 f.unknown01) ++
        (encS .be 2 (f.lay.frameSize : Nat) ++ (encS .be 2 (f.channelCount : Nat) ++ (encS .be 2 f.unknown02 ++ encRecs f.recs))) := by
      rw [← hS]; simp [serialise, List.append_assoc]
    rw [this]; exact getS2_at _ _ _ (in16_nat (by omega)) _ (by simp)
  have r16 : getS .be 2 S 16 = .ok ((f.channelCount : Nat) : Int) := by
    have : S = (encS .be 4 ((20 + (encRecs f.recs).length : Nat) : Int) ++ encS .be 4 0x14 ++ encS .be 4 f.frameCount ++ encS .be 2 f.unknown01 ++
        encS .be 2 (f.lay.frameSize : Nat)) ++ (encS .be 2 (f.channelCount : Nat) ++ (encS .be 2 f.unknown02 ++ encRecs f.recs)) := by
      rw [← hS]; simp [serialise, List.append_assoc]
    rw [this]; exact getS2_at _ _ _ (in16_nat hcc) _ (by simp)
  have r18 : getS .be 2 S 18 = .ok f.unknown02 := by
    have : S = (encS .be 4 ((20 + (encRecs f.recs).length : Nat) : Int) ++ encS .be 4 0x14 ++ encS .be 4 f.frameCount ++ encS .be 2 f.unknown01 ++
        encS .be 2 (f.lay.frameSize : Nat) ++ encS .be 2 (f.channelCount : Nat)) ++ (encS .be 2 f.unknown02 ++ encRecs f.recs) := by
      rw [← hS]; simp [serialise, List.append_assoc]
    rw [this]; exact getS2_at _ _ _ hu2 _ (by simp)
  have hneg : ¬ (((f.channelCount : Nat) : Int) * ((f.lay.frameSize : Nat) : Int) < 0) := by
    have := Int.mul_nonneg (Int.natCast_nonneg f.channelCount) (Int.natCast_nonneg f.lay.frameSize)
    omega
  simp [parseHeader, r0, r4, r8, r12, r14, r16, r18, hlen, lookupParser_frameSize, hneg, bind, Except.bind, pure, Except.pure]

theorem zeros_length (n : Nat) : (zeros n).length = n := by simp [zeros]

/-- the data block: header, then the record loop from offset 20 on the zero buffer -/
theorem parseVwsc_serialise (f : ScoreFile) (h : f.Valid) :
    parseVwsc (serialise f) = expectedFrames f.lay (zeros f.bufSize) f.recs := by
  have hh := parseHeader_serialise f h
  obtain ⟨hrecs, hbuf, _, _, _, _, _⟩ := h
  unfold parseVwsc
  rw [hh]
  simp only [bind, Except.bind]
  have hS : serialise f = (encS .be 4 ((20 + (encRecs f.recs).length : Nat) : Int) ++ encS .be 4 0x14 ++ encS .be 4 f.frameCount ++
      encS .be 2 f.unknown01 ++ encS .be 2 (f.lay.frameSize : Nat) ++ encS .be 2 (f.channelCount : Nat) ++ encS .be 2 f.unknown02) ++ encRecs f.recs := by
    simp [serialise]
  have hn : (((f.channelCount : Nat) : Int) * ((f.lay.frameSize : Nat) : Int)).toNat = f.bufSize := by
    rw [show ((f.channelCount : Nat) : Int) * ((f.lay.frameSize : Nat) : Int) = ((f.channelCount * f.lay.frameSize : Nat) : Int) by push_cast; rfl]
    exact Int.toNat_natCast _
  rw [hn, hS, ← framesOf_eq_expected]
  have := recLoop_enc f.lay (encS .be 4 ((20 + (encRecs f.recs).length : Nat) : Int) ++ encS .be 4 0x14 ++ encS .be 4 f.frameCount ++
      encS .be 2 f.unknown01 ++ encS .be 2 (f.lay.frameSize : Nat) ++ encS .be 2 (f.channelCount : Nat) ++ encS .be 2 f.unknown02)
      f.recs (zeros f.bufSize) none (by intro f' hf'; cases hf') (by rw [zeros_length]; exact hrecs) (by rw [zeros_length]; exact hbuf)
  simp only [List.length_append, encS_length] at this
  exact this

/-! ### parse_vwsc_file_data: unwrapped (DRX) and wrapped (DIR) files -/

theorem encWords_length (ws : List Int) : (encWords ws).length = 4 * ws.length := by
  induction ws with
  | nil => rfl
  | cons w ws ih => simp [encWords, ih]; omega

theorem serialise_shape (f : ScoreFile) : ∃ rest, serialise f =
    encS .be 4 ((20 + (encRecs f.recs).length : Nat) : Int) ++ (encS .be 4 0x14 ++ rest) ∧ (serialise f).length = 20 + (encRecs f.recs).length :=
  ⟨encS .be 4 f.frameCount ++ (encS .be 2 f.unknown01 ++ (encS .be 2 (f.lay.frameSize : Nat) ++ (encS .be 2 (f.channelCount : Nat) ++
      (encS .be 2 f.unknown02 ++ encRecs f.recs)))), by simp [serialise, List.append_assoc], encRecs_length_eq f⟩

/-- a data block followed by arbitrary bytes is decoded as the data block -/
theorem parseVwscFile_unwrapped (f : ScoreFile) (h : f.Valid) (trailing : Bytes) :
    parseVwscFile (serialise f ++ trailing) = parseVwsc (serialise f) := by
  obtain ⟨rest, hS, hlen⟩ := serialise_shape f
  have htot := h.2.2.2.1
  generalize serialise f = S at hS hlen
  have r0 : getS .be 4 (S ++ trailing) 0 = .ok ((20 + (encRecs f.recs).length : Nat) : Int) := by
    have : S ++ trailing = [] ++ (encS .be 4 ((20 + (encRecs f.recs).length : Nat) : Int) ++ ((encS .be 4 0x14 ++ rest) ++ trailing)) := by
      rw [hS]; simp [List.append_assoc]
    rw [this]; exact getS4_at [] _ _ (in32_nat htot) _ rfl
  have r4 : getS .be 4 (S ++ trailing) 4 = .ok 0x14 := by
    have : S ++ trailing = encS .be 4 ((20 + (encRecs f.recs).length : Nat) : Int) ++ (encS .be 4 0x14 ++ (rest ++ trailing)) := by
      rw [hS]; simp [List.append_assoc]
    rw [this]; exact getS4_at _ _ _ (by decide) _ (by simp)
  simp [parseVwscFile, r0, r4, bind, Except.bind, pure, Except.pure]
  congr 1
  have e : (20 : Int) + ((encRecs f.recs).length : Int) = ((S.length : Nat) : Int) := by rw [hlen]; push_cast; rfl
  rw [e]
  show pySlice (S ++ trailing) ((0 : Nat) : Int) ((S.length : Nat) : Int) = S
  rw [pySlice_nat]; exact slice_append_left S trailing _ rfl

/-- the wrapper block, given what its fixed words and the two words of the inner block read as -/
theorem skipWrapper_eq (W : Bytes) (T : Nat) (k n : Nat) (u1 nm last : Int)
    (hTT : ¬ (((W.length : Nat) : Int) ≠ (T : Int)))
    (r8 : getS .be 4 W 8 = .ok u1) (r12 : getS .be 4 W 12 = .ok nm) (r16 : getS .be 4 W 16 = .ok ((k : Nat) : Int)) (r20 : getS .be 4 W 20 = .ok last)
    (q0 : getSI W 4 ((24 : Int) + ((k : Nat) : Int) * 4) = .ok ((n : Nat) : Int))
    (q4 : getSI W 4 ((24 : Int) + ((k : Nat) : Int) * 4 + 4) = .ok 0x14) :
    skipWrapper W (T : Int) = .ok ((24 : Int) + ((k : Nat) : Int) * 4 + 8, ((n : Nat) : Int), 0x14) := by
  unfold skipWrapper
  rw [if_neg hTT]
  simp only [bind, Except.bind, pure, Except.pure]
  rw [r8]; simp only []
  rw [r12]; simp only []
  rw [r16]; simp only []
  rw [r20]; simp only []
  rw [q0]; simp only []
  rw [q4]

/-- the wrapper of DIR files is skipped, whatever its marker table and trailing bytes are -/
theorem parseVwscFile_wrapped (f : ScoreFile) (h : f.Valid) (w : Wrapper) (hw : w.Valid (serialise f)) :
    parseVwscFile (wrap w (serialise f)) = parseVwsc (serialise f) := by
  obtain ⟨rest, hS, hlen⟩ := serialise_shape f
  have htot := h.2.2.2.1
  obtain ⟨hm14, hm, hu, hnm, hlast, hT⟩ := hw
  generalize serialise f = S at hS hlen hT
  have hml := encWords_length w.markers
  generalize hT' : (24 + (encWords w.markers).length + S.length + w.trailing.length : Nat) = T
  have hTb : T ≤ 2147483647 := by omega
  generalize hW : wrap w S = W
  have hWlen : W.length = T := by rw [← hW, ← hT']; simp [wrap]; omega
  have r0 : getS .be 4 W 0 = .ok (T : Int) := by
    have : W = [] ++ (encS .be 4 (T : Int) ++ (encS .be 4 w.marker ++ encS .be 4 w.unknown01 ++ encS .be 4 w.nmarkers ++
        encS .be 4 ((w.markers.length : Nat) : Int) ++ encS .be 4 w.lastMarker ++ encWords w.markers ++ S ++ w.trailing)) := by
      rw [← hW, ← hT']; simp [wrap, List.append_assoc]
    rw [this]; exact getS4_at [] _ _ (in32_nat hTb) _ rfl
  have r4 : getS .be 4 W 4 = .ok w.marker := by
    have : W = encS .be 4 (T : Int) ++ (encS .be 4 w.marker ++ (encS .be 4 w.unknown01 ++ encS .be 4 w.nmarkers ++
        encS .be 4 ((w.markers.length : Nat) : Int) ++ encS .be 4 w.lastMarker ++ encWords w.markers ++ S ++ w.trailing)) := by
      rw [← hW, ← hT']; simp [wrap, List.append_assoc]
    rw [this]; exact getS4_at _ _ _ hm _ (by simp)
  have r8 : getS .be 4 W 8 = .ok w.unknown01 := by
    have : W = (encS .be 4 (T : Int) ++ encS .be 4 w.marker) ++ (encS .be 4 w.unknown01 ++ (encS .be 4 w.nmarkers ++
        encS .be 4 ((w.markers.length : Nat) : Int) ++ encS .be 4 w.lastMarker ++ encWords w.markers ++ S ++ w.trailing)) := by
      rw [← hW, ← hT']; simp [wrap, List.append_assoc]
    rw [this]; exact getS4_at _ _ _ hu _ (by simp)
  have r12 : getS .be 4 W 12 = .ok w.nmarkers := by
    have : W = (encS .be 4 (T : Int) ++ encS .be 4 w.marker ++ encS .be 4 w.unknown01) ++ (encS .be 4 w.nmarkers ++
        (encS .be 4 ((w.markers.length : Nat) : Int) ++ encS .be 4 w.lastMarker ++ encWords w.markers ++ S ++ w.trailing)) := by
      rw [← hW, ← hT']; simp [wrap, List.append_assoc]
    rw [this]; exact getS4_at _ _ _ hnm _ (by simp)
  have r16 : getS .be 4 W 16 = .ok ((w.markers.length : Nat) : Int) := by
    have : W = (encS .be 4 (T : Int) ++ encS .be 4 w.marker ++ encS .be 4 w.unknown01 ++ encS .be 4 w.nmarkers) ++
        (encS .be 4 ((w.markers.length : Nat) : Int) ++ (encS .be 4 w.lastMarker ++ encWords w.markers ++ S ++ w.trailing)) := by
      rw [← hW, ← hT']; simp [wrap, List.append_assoc]
    rw [this]; exact getS4_at _ _ _ (in32_nat (by omega)) _ (by simp)
  have r20 : getS .be 4 W 20 = .ok w.lastMarker := by
    have : W = (encS .be 4 (T : Int) ++ encS .be 4 w.marker ++ encS .be 4 w.unknown01 ++ encS .be 4 w.nmarkers ++
        encS .be 4 ((w.markers.length : Nat) : Int)) ++ (encS .be 4 w.lastMarker ++ (encWords w.markers ++ S ++ w.trailing)) := by
      rw [← hW, ← hT']; simp [wrap, List.append_assoc]
    rw [this]; exact getS4_at _ _ _ hlast _ (by simp)
  -- the inner block starts at 24 + 4 * nmarkers1
  generalize hP : encS .be 4 (T : Int) ++ encS .be 4 w.marker ++ encS .be 4 w.unknown01 ++ encS .be 4 w.nmarkers ++
        encS .be 4 ((w.markers.length : Nat) : Int) ++ encS .be 4 w.lastMarker ++ encWords w.markers = P
  have hPlen : P.length = 24 + 4 * w.markers.length := by rw [← hP]; simp [hml]; omega
  have hWP : W = P ++ (S ++ w.trailing) := by rw [← hW, ← hP, ← hT']; simp [wrap, List.append_assoc]
  have hidx : (24 : Int) + ((w.markers.length : Nat) : Int) * 4 = ((P.length : Nat) : Int) := by rw [hPlen]; omega
  have q0 : getSI W 4 ((24 : Int) + ((w.markers.length : Nat) : Int) * 4) = .ok ((20 + (encRecs f.recs).length : Nat) : Int) := by
    unfold getSI
    have e : ((P.length : Nat) : Int) + ((4 : Nat) : Int) = ((P.length + 4 : Nat) : Int) := by omega
    rw [hidx, e, pySlice_nat]
    have : W = P ++ (encS .be 4 ((20 + (encRecs f.recs).length : Nat) : Int) ++ ((encS .be 4 0x14 ++ rest) ++ w.trailing)) := by
      rw [hWP, hS]; simp [List.append_assoc]
    have g := getS4_at P ((encS .be 4 0x14 ++ rest) ++ w.trailing) _ (in32_nat htot) P.length rfl
    unfold getS at g
    rw [this]; exact g
  have q4 : getSI W 4 ((24 : Int) + ((w.markers.length : Nat) : Int) * 4 + 4) = .ok 0x14 := by
    unfold getSI
    have e1 : (24 : Int) + ((w.markers.length : Nat) : Int) * 4 + 4 = ((P.length + 4 : Nat) : Int) := by rw [hPlen]; omega
    have e : ((P.length + 4 : Nat) : Int) + ((4 : Nat) : Int) = ((P.length + 4 + 4 : Nat) : Int) := by omega
    rw [e1, e, pySlice_nat]
    have : W = (P ++ encS .be 4 ((20 + (encRecs f.recs).length : Nat) : Int)) ++ (encS .be 4 0x14 ++ (rest ++ w.trailing)) := by
      rw [hWP, hS]; simp [List.append_assoc]
    have g := getS4_at (P ++ encS .be 4 ((20 + (encRecs f.recs).length : Nat) : Int)) (rest ++ w.trailing) 0x14 (by decide) (P.length + 4) (by simp)
    unfold getS at g
    rw [this]; exact g
  have hTT : ¬ (((W.length : Nat) : Int) ≠ (T : Int)) := by rw [hWlen]; simp
  have hskip : skipWrapper W (T : Int) = .ok ((24 : Int) + ((w.markers.length : Nat) : Int) * 4 + 8, ((20 + (encRecs f.recs).length : Nat) : Int), 0x14) := by
    exact skipWrapper_eq W T _ _ _ _ _ hTT r8 r12 r16 r20 q0 q4
  simp only [parseVwscFile, r0, r4, hm14, hskip, bind, Except.bind, ne_eq, not_false_eq_true, if_true, not_true_eq_false, if_false]
  congr 1
  have e1 : (24 : Int) + ((w.markers.length : Nat) : Int) * 4 + 8 - 8 = ((P.length : Nat) : Int) := by rw [← hidx]; omega
  have e2 : ((P.length : Nat) : Int) + ((20 + (encRecs f.recs).length : Nat) : Int) = ((P.length + S.length : Nat) : Int) := by
    rw [hlen]; push_cast; rfl
  rw [e1, e2, pySlice_nat, hWP]
  exact slice_mid P S w.trailing _ _ rfl rfl

theorem parseVwscFile_container (c : Container) (f : ScoreFile) (h : f.Valid) (hc : c.Valid (serialise f)) :
    parseVwscFile (c.apply (serialise f)) = expectedFrames f.lay (zeros f.bufSize) f.recs := by
  cases c with
  | bare t => simp only [Container.apply]; rw [parseVwscFile_unwrapped f h t, parseVwsc_serialise f h]
  | wrapped w => simp only [Container.apply]; rw [parseVwscFile_wrapped f h w hc, parseVwsc_serialise f h]

/-! ### frame k -/

theorem states_length (buf : Bytes) (recs : List Rec) : (states buf recs).length = recs.length := by
  induction recs generalizing buf with
  | nil => rfl
  | cons r rs ih => simp [states, ih]

theorem states_getElem? (buf : Bytes) (recs : List Rec) (k : Nat) (hk : k < recs.length) :
    (states buf recs)[k]? = some (applyAll buf (recs.take (k + 1))) := by
  induction recs generalizing buf k with
  | nil => simp at hk
  | cons r rs ih =>
    cases k with
    | zero => simp [states, applyAll]
    | succ k =>
      simp only [states, List.getElem?_cons_succ, List.take_succ_cons, applyAll, List.foldl_cons]
      exact ih (applyRec buf r) k (by simpa using hk)

theorem framesOf_getElem? (lay : Layout) (buf : Bytes) (recs : List Rec) (fs : List Frame) (h : framesOf lay buf recs = .ok fs)
    (k : Nat) (hk : k < recs.length) :
    ∃ f, fs[k]? = some f ∧ parseChannels lay (applyAll buf (recs.take (k + 1))) = .ok f := by
  induction recs generalizing buf fs k with
  | nil => simp at hk
  | cons r rs ih =>
    simp only [framesOf] at h
    cases hp : parseChannels lay (applyRec buf r) with
    | error e => simp [hp] at h
    | ok f =>
      simp only [hp] at h
      cases hr : framesOf lay (applyRec buf r) rs with
      | error e => simp [hr] at h
      | ok fs' =>
        simp only [hr, Except.ok.injEq] at h
        subst h
        cases k with
        | zero => exact ⟨f, by simp, by simpa [applyAll] using hp⟩
        | succ k =>
          obtain ⟨g, hg1, hg2⟩ := ih (applyRec buf r) fs' hr k (by simpa using hk)
          exact ⟨g, by simpa using hg1, by simpa [applyAll] using hg2⟩

theorem framesOf_length (lay : Layout) (buf : Bytes) (recs : List Rec) (fs : List Frame) (h : framesOf lay buf recs = .ok fs) :
    fs.length = recs.length := by
  induction recs generalizing buf fs with
  | nil => simp [framesOf] at h; subst h; rfl
  | cons r rs ih =>
    simp only [framesOf] at h
    cases hp : parseChannels lay (applyRec buf r) with
    | error e => simp [hp] at h
    | ok f =>
      simp only [hp] at h
      cases hr : framesOf lay (applyRec buf r) rs with
      | error e => simp [hr] at h
      | ok fs' =>
        simp only [hr, Except.ok.injEq] at h
        subst h
        simp [ih _ _ hr]

/-- if every channel state decodes, the whole sequence decodes to the list of those results -/
theorem framesOf_of_all_ok (lay : Layout) (buf : Bytes) (recs : List Rec) (g : Bytes → Frame)
    (h : ∀ b ∈ states buf recs, parseChannels lay b = .ok (g b)) :
    framesOf lay buf recs = .ok ((states buf recs).map g) := by
  induction recs generalizing buf with
  | nil => rfl
  | cons r rs ih =>
    simp only [states, List.mem_cons, forall_eq_or_imp] at h
    simp only [framesOf, h.1, states, List.map_cons]
    rw [ih _ h.2]

end Drx.Vwsc
