/-
  C03 link, byte level (part 8): composition with agent-link's parametric container chain (`parse_linkg`): for every script whose
  handler bodies are structured statements of the fragment, the model parses the compiled bytes into the NESTED tree of the source.
-/
import DrxProofs.LinkFlow2Flow
import DrxProofs.LinkParse
namespace Drx.LinkFlow
open Drx Drx.Lscr Drx.Spec Drx.Link

/-- raw statements of a handler body: the event-stream list of a source skeleton embedded from the body -/
def Bsrc (h : Handler) (a len : Nat) (raw : List Node) : Prop :=
  ∃ src, EmbSrc h.body src ∧ P.sizes (lower src) = len ∧ raw = emit false (a : Int) (lower src)

/-- final statements of a handler: the image of its structured body in the model's AST -/
def Fsrc (h : Handler) (fin : List Node) : Prop := EmbTs h.body fin

theorem bodyRun_src (hnames : List Spec.Name) (h : Handler) (hf : FragTs h.body = true) : BodyRun Bsrc hnames h := by
  intro s0 s1 cs hcs
  obtain ⟨e, _, hop, hrun⟩ := structs_all h.body hf (hctx hnames h) rfl s0 s1 cs hcs
  refine ⟨e, hop none, ?_⟩
  intro sF ctx hF hrel G hG hP a st hb hgv hst
  obtain ⟨src, hemb, hsz, gv', hgv', hr⟩ := hrun sF ctx hF hrel G hG hP none a st hb hgv (by rw [hst]; exact AllS.nil)
  have hlen : codeSize (layoutStmts none cs) = CStmt.sizes cs := layoutStmts_size _ _
  refine ⟨emit false (a : Int) (lower src), gv', ⟨src, hemb, by rw [hsz, hlen], rfl⟩, ?_, hgv', ?_⟩
  · intro x hx
    obtain ⟨p, c, rfl, hp⟩ := emit_inv false (a : Int) (lower src) (embSrc_wf h.body src hemb).1 x hx
    have h1 := hp.1; have h2 := hp.2.1
    rw [hlen, ← hsz]
    simp only [Node.pos]
    constructor
    · exact h1
    · push_cast; exact h2
  · rw [hr, hst, List.nil_append]

theorem flowOk_src (h : Handler) (hfr : FragTs h.body = true) (hok : okAmbs false h.body = true) : FlowOk Bsrc Fsrc h := by
  intro a len raw hB _
  obtain ⟨src, hemb, hsz, rfl⟩ := hB
  have := flow_core h.body src hfr hemb hok a ((a : Int) + (P.sizes (lower src) : Int))
  have e : ((a + len : Nat) : Int) = (a : Int) + (P.sizes (lower src) : Int) := by rw [hsz]; push_cast; rfl
  rw [e]
  exact ⟨tgtL (a : Int) src, this, embT_tgtL h.body src hemb _⟩

/-- the structured fragment at script level: plain script, `on` handlers, structured bodies without the one ambiguity, properties
    declared at script level -/
def FragScriptT (s : Spec.Script) : Bool :=
  s.factory.isEmpty && s.handlers.all fun h =>
    !h.isMethod && FragTs h.body && okAmbs false h.body && (Stmt.varsList .prop h.body).all (fun v => s.props.contains v)

/-- **bytes → nested tree.** For every script of the structured fragment that the scheme compiles, the model's
    `parseScript` on the compiled chunks succeeds and every handler's statement list is the image of its structured source body
    (`EmbTs`: if-then nodes with both branches, `repeat while` / `repeat with` nodes with their headers, simple statements once
    and in order) followed by the final `exit`. -/
theorem parse_structured (o : Options) (s : Spec.Script) (c : Compiled) (hf : FragScriptT s = true) (hcmp : compile o s = .ok c)
    (hasc : ∀ n ∈ c.names, asciiName n = true) (hlen : c.names.length < 32768) :
    ∃ t, Lscr.parseScript c.lscr c.lnam = .ok t ∧ ScriptRelg Fsrc s t := by
  simp only [FragScriptT, Bool.and_eq_true, List.all_eq_true, List.isEmpty_iff, Bool.not_eq_true', List.contains_iff_mem] at hf
  obtain ⟨hfac, hH⟩ := hf
  obtain ⟨t, ht, hrel, _⟩ := parse_linkg Bsrc Fsrc o s c hfac (fun h hh => by
    obtain ⟨⟨⟨h1, h2⟩, h3⟩, h4⟩ := hH h hh
    exact ⟨bodyRun_src _ h h2, flowOk_src h h2 h3, h1, h4⟩) hcmp hasc hlen
  exact ⟨t, ht, hrel⟩

end Drx.LinkFlow
