/-
  J6 — property scripts: `class Object__<n> extends ObjectBase { methods }` + one wrapper function per handler except `birth`.
-/
import DrxProofs.LinkJsWrap
namespace Drx.LinkJs
open Drx Drx.Lscr Drx.Gen Drx.Spec Drx.Link
set_option linter.unusedSimpArgs false
set_option linter.unusedVariables false

/-! ### text -/

/-- one method of the class -/
theorem jsMethod_rel (hs : List Spec.Name) (hret : hs.contains (S "return") = false) (h : Handler) (f : FuncDef)
    (hr : FuncRelJ hs h f) (hok : JsOkH h = true) : jsMethod f = .ok (txMethod (toJsFunc hs true h)) := by
  simp only [JsOkH, Bool.and_eq_true] at hok
  obtain ⟨⟨⟨hname, _⟩, _⟩, hbody⟩ := hok
  obtain ⟨ns, p, q, hst, hemb⟩ := hr.stmts
  have hnew' : ¬ (h.name = "new".toList ∧ (!true) = true) := fun e => by simp at e
  have hb := js_trees hs hret h.body hbody ns hemb 2
  have hj := jsParams_rel f h.params hr.params true
  simp only [if_true] at hj
  unfold jsMethod
  simp only [hj, jsLocals_rel f h.locals hr.locals 2, hst, bodyJs_exit, hb, hr.name, bind, Except.bind, pure, Except.pure,
    leaves_isEmpty hr.params]
  have hgoal : ∀ (X Y : Str → R Str), (∀ z, X z = Y z) →
      (if h.params.isEmpty = true then X [] else Y (joinWith (S ", ") (h.params.filter (· ≠ "me".toList)))) =
        Y (joinWith (S ", ") (h.params.filter (· ≠ "me".toList))) := by
    intro X Y hxy
    cases hp : h.params with
    | nil => simp [hxy]; rfl
    | cons a as => rfl
  rw [hgoal (fun z => Except.ok (S "\n" ++ indentOf 1 ++ h.name ++ S "(" ++ z ++ S ") {\n" ++
      (txBody 2 (List.map JS.var h.locals) ++ if h.locals.isEmpty = true then [] else S "\n") ++
      txBody 2 (toJsSs { handlers := hs, inTell := false } h.body) ++ indentOf 1 ++ S "}\n")) _ (fun z => rfl)]
  simp only [txMethod, toJsFunc, hnew', if_false, if_true, txArgs_ids,
    txFuncBody_vars 2 h.locals _ (toJsSs_head_noVar _ h.body hbody)]
  simp [S, List.append_assoc]

theorem jsMethods_rel (hs : List Spec.Name) (hret : hs.contains (S "return") = false) : ∀ (hl : List Handler) (fs : List FuncDef),
    Rel2 (FuncRelJ hs) hl fs → JsOkHs hl = true →
    jsMethods fs = .ok ((hl.map fun h => txMethod (toJsFunc hs true h)).flatten)
  | [], _, h, _ => by cases h; rfl
  | x :: xs, _, h, hok => by
    cases h with
    | cons hx hxs =>
      simp only [JsOkHs, Bool.and_eq_true] at hok
      have e1 := jsMethod_rel hs hret x _ hx hok.1
      have e2 := jsMethods_rel hs hret xs _ hxs hok.2
      simp only [jsMethods, e1, e2, bind, Except.bind, pure, Except.pure, List.map_cons, List.flatten_cons]

theorem txFunc_wrapper (name : Spec.Name) :
    txFunc (wrapperFunc name) =
      S "function " ++ name ++ S "(obj, ...args) {\n" ++ indentOf 1 ++ S "return obj." ++ name ++ S "(...args);\n" ++ S "}\n" := by
  simp [txFunc, wrapperFunc, txFuncBody, varCount, txBody, txT, txS, txJ, txArgs, jid, JE.needsParen, S, List.append_assoc]

/-- the wrapper functions, in handler order, `birth` skipped -/
theorem wrappers_rel (hs : List Spec.Name) : ∀ (hl : List Handler) (fs : List FuncDef), Rel2 (FuncRelJ hs) hl fs →
    (fs.map fun f => if inBirth f.name then [] else
      S "function " ++ f.name ++ S "(obj, ...args) {\n" ++ indentOf 1 ++ S "return obj." ++ f.name ++ S "(...args);\n" ++ S "}\n").flatten
    = (((hl.filter (·.name ≠ "birth".toList)).map fun h => wrapperFunc h.name).map txFunc).flatten
  | [], _, h => by cases h; rfl
  | x :: xs, _, h => by
    cases h with
    | cons hx hxs =>
      have ih := wrappers_rel hs xs _ hxs
      simp only [List.map_cons, List.flatten_cons, ih, hx.name]
      by_cases hb : x.name = "birth".toList
      · have hbb : inBirth "birth".toList = true := by decide
        simp only [hb, hbb, if_true, List.nil_append, List.filter_cons, ne_eq, not_true_eq_false, decide_false, Bool.false_eq_true, if_false]
      · have : inBirth x.name = false := by
          simp only [inBirth, beq_eq_false_iff_ne, ne_eq]; exact hb
        simp only [this, Bool.false_eq_true, if_false, List.filter_cons, ne_eq, hb, not_false_eq_true, decide_true, if_true, List.map_cons,
          List.flatten_cons, txFunc_wrapper]

/-- **J6 (text, property scripts)** -/
theorem classJs_rel (s : Spec.Script) (t : Lscr.Script) (hfuncs : Rel2 (FuncRelJ (s.handlers.map (·.name))) s.handlers t.functions)
    (hok : JsOkHs s.handlers = true) :
    classJs t = .ok (txClassProg (S "Object__" ++ intStr t.scrNum) (S "ObjectBase")
      (s.handlers.map (toJsFunc (s.handlers.map (·.name)) true))
      ((s.handlers.filter (·.name ≠ "birth".toList)).map fun h => wrapperFunc h.name)) := by
  have hret := names_no_return s.handlers hok
  have hm := jsMethods_rel _ hret s.handlers t.functions hfuncs hok
  unfold classJs
  simp only [hm, bind, Except.bind, pure, Except.pure, wrappers_rel _ s.handlers t.functions hfuncs]
  simp [txClassProg, txClass, S, List.append_assoc, List.map_map, Function.comp_def]

/-! ### lexing -/

theorem lexMethod (f : JFunc) (h : LexOKF f) (rest : Str) : LexesTo (txMethod f) (prMethod f) rest := by
  have := (lex_nl _).append ((lex_indent 1 _).append ((lex_id f.name h.name _ (by headis)).append
    ((lex_lp _).append ((lexArgs f.params h.params _ (by headis)).append ((lex_rp _).append ((lex_space _).append ((lex_lc _).append
    ((lex_nl _).append ((lexFuncBody 2 f.body h.body _).append ((lex_indent 1 _).append ((lex_rc _).append (lex_nl rest))))))))))))
  simpa [txMethod, prMethod, S, List.append_assoc] using this

theorem lexMethods : ∀ (ms : List JFunc), (∀ f ∈ ms, LexOKF f) → ∀ (rest : Str),
    LexesTo (ms.map txMethod).flatten (ms.map prMethod).flatten rest
  | [], _, rest => by simpa using LexesTo.nil rest
  | f :: fs, h, rest => by
    have := (lexMethod f (h f (by simp)) _).append (lexMethods fs (fun g hg => h g (by simp [hg])) rest)
    simpa using this

theorem lexClass (cname base : Spec.Name) (ms : List JFunc) (hc : jsIdLex cname = true) (hb : jsIdLex base = true)
    (hm : ∀ f ∈ ms, LexOKF f) (rest : Str) : LexesTo (txClass cname base ms) (prTop (.cls cname base ms)) rest := by
  have := (lex_id (S "class") (by decide) _ (by headis)).append ((lex_space _).append ((lex_id cname hc _ (by headis)).append
    ((lex_space _).append ((lex_id (S "extends") (by decide) _ (by headis)).append ((lex_space _).append ((lex_id base hb _ (by headis)).append
    ((lex_space _).append ((lex_lc _).append ((lexMethods ms hm _).append ((lex_rc _).append ((lex_nl _).append (lex_nl rest))))))))))))
  simpa [txClass, prTop, S, List.append_assoc] using this

theorem lexFuncsFlat : ∀ (fs : List JFunc), (∀ f ∈ fs, LexOKF f) → ∀ (rest : Str),
    LexesTo (fs.map txFunc).flatten (prProg (fs.map JTop.func)) rest
  | [], _, rest => by simpa [prProg] using LexesTo.nil rest
  | f :: fs, h, rest => by
    have := (lexFunc f (h f (by simp)) _).append (lexFuncsFlat fs (fun g hg => h g (by simp [hg])) rest)
    simpa [prProg] using this

theorem lexClassProg (cname base : Spec.Name) (ms ws : List JFunc) (hc : jsIdLex cname = true) (hb : jsIdLex base = true)
    (hm : ∀ f ∈ ms, LexOKF f) (hw : ∀ f ∈ ws, LexOKF f) :
    lexJs (txClassProg cname base ms ws) = some (prProg (.cls cname base ms :: ws.map JTop.func)) := by
  have := ((lexClass cname base ms hc hb hm _).append (lexFuncsFlat ws hw [])).whole
  simpa [txClassProg, prProg] using this

/-! ### reading -/

theorem jU_spread (f : Nat) (n : Spec.Name) (R : List JTok) (hR : NoPost R) :
    jUnary (f + 2) (.p .dots :: .id n :: R) = some (.spread n, R) := by
  have := jPostfix_stop f (.spread n) R hR
  simp [jUnary, jPrimary, this]

/-- `obj.name(...args)` -/
def wrapCall (name : Spec.Name) : JE := .call (.mem (jid "obj") name) [.spread "args".toList]

theorem retOK_wrapCall (name : Spec.Name) : RetOK (wrapCall name) := by
  refine ⟨⟨.id "obj".toList, [.p .dot, .id name, .p .lp, .p .dots, .id "args".toList, .p .rp],
    by simp [wrapCall, prJ, prJArgs, jid, wrapRecv, JE.needsParen], by simp⟩, ?_⟩
  intro rest F hF
  have hlen : (prJ (wrapCall name)).length = 7 := by simp [wrapCall, prJ, prJArgs, jid, wrapRecv, JE.needsParen]
  rw [hlen] at hF
  have hpr : prJ (wrapCall name) ++ .p .semi :: rest =
      .id "obj".toList :: .p .dot :: .id name :: .p .lp :: .p .dots :: .id "args".toList :: .p .rp :: .p .semi :: rest := by
    simp [wrapCall, prJ, prJArgs, jid, wrapRecv, JE.needsParen]
  rw [hpr]
  have hsemi : JCloser (.p .semi) := Or.inr (Or.inr (Or.inr rfl))
  -- the argument list
  have hA : ∀ F', 12 ≤ F' → jArgs F' (.p .dots :: .id "args".toList :: .p .rp :: .p .semi :: rest) = some ([.spread "args".toList], .p .semi :: rest) := by
    intro F' hF'
    obtain ⟨f', rfl⟩ : ∃ f', F' = f' + 1 := ⟨F' - 1, by omega⟩
    refine jArgs_one f' _ _ _ _ (by simp) ?_
    exact jclimb _ _ (.spread "args".toList) 2 (fun F'' hF'' => by
      obtain ⟨g, rfl⟩ : ∃ g, F'' = g + 2 := ⟨F'' - 2, by omega⟩
      exact jU_spread g _ _ (nopost_closer _ _ (Or.inl rfl))) 6 1 (by omega) (by omega) (jfollow_closer _ _ _ (Or.inl rfl)) f' (by omega)
  -- the postfix chain from `obj`
  have hU : ∀ F', 20 ≤ F' → jUnary F' (.id "obj".toList :: .p .dot :: .id name :: .p .lp :: .p .dots :: .id "args".toList :: .p .rp :: .p .semi :: rest)
      = some (wrapCall name, .p .semi :: rest) := by
    intro F' hF'
    obtain ⟨g, rfl⟩ : ∃ g, F' = g + 4 := ⟨F' - 4, by omega⟩
    refine jU_id (g + 2) _ _ _ (by decide) (by decide) ?_
    refine jP_mem (g + 2) _ _ _ _ ?_
    refine jP_call (g + 1) _ [.spread "args".toList] _ (.p .semi :: rest) _ (hA (g + 1) (by omega)) ?_
    obtain ⟨g', rfl⟩ : ∃ g', g = g' + 1 := ⟨g - 1, by omega⟩
    exact jPostfix_stop (g' + 1) _ _ (nopost_closer _ _ hsemi)
  exact jclimb _ _ (wrapCall name) 20 hU 6 1 (by omega) (by omega) (jfollow_closer _ _ _ hsemi) F (by omega)

theorem jParams_id_spread (a b : Spec.Name) (r : List JTok) :
    jParams (.id a :: .p .comma :: .p .dots :: .id b :: .p .rp :: r) = some ([.id a, .spread b], r) := by
  have e2 : jParams (.p .dots :: .id b :: .p .rp :: r) = some ([.spread b], r) := by
    rw [jParams.eq_def]
  rw [jParams.eq_def]
  simp only [e2]
  rfl

theorem readOKF_wrapper (name : Spec.Name) (hk : isJsKeyword name = false) : ReadOKF (wrapperFunc name) := by
  refine ⟨hk, ?_, ?_⟩
  · intro r
    simp only [wrapperFunc, jid, prJArgs, prJ, List.singleton_append, List.cons_append, List.nil_append]
    exact jParams_id_spread _ _ r
  · exact ⟨retOK_wrapCall name, trivial⟩

theorem lexOKF_wrapper (name : Spec.Name) (hk : jsIdLex name = true) : LexOKF (wrapperFunc name) := by
  refine ⟨hk, ?_, ?_⟩
  · exact ⟨(by decide : jsIdLex "obj".toList = true), (by decide : jsIdLex "args".toList = true), trivial⟩
  · exact ⟨⟨⟨(by decide : jsIdLex "obj".toList = true), hk⟩, (by decide : jsIdLex "args".toList = true), trivial⟩, trivial⟩

mutual
theorem hasWith_false : ∀ (s : JS), ReadOKS s → s.hasWith = false
  | .ifs c t e, h => by
    simp only [ReadOKS] at h
    simp [JS.hasWith, hasWithL_false t h.2.1, hasWithL_false e h.2.2]
  | .while c b, h => by
    simp only [ReadOKS] at h
    simp [JS.hasWith, hasWithL_false b h.2]
  | .for3 v a c d b, h => by
    simp only [ReadOKS] at h
    simp [JS.hasWith, hasWithL_false b h.2.2.2]
  | .expr _, _ => rfl
  | .assign _ _, _ => rfl
  | .ret _, _ => rfl
  | .var _, _ => rfl
  | .brk, _ => rfl
  | .forOf v l b, h => by
    simp only [ReadOKS] at h
    simp [JS.hasWith, hasWithL_false b h.2.2]
  | .with _ _, h => absurd h (by simp [ReadOKS])
theorem hasWithL_false : ∀ (b : List JS), ReadOKSs b → JS.hasWithL b = false
  | [], _ => rfl
  | s :: ss, h => by
    simp only [ReadOKSs] at h
    simp [JS.hasWithL, hasWith_false s h.1, hasWithL_false ss h.2]
end

theorem prMethod_length (f : JFunc) : 1 ≤ (prMethod f).length := by simp [prMethod]

theorem jMethods_pr (F : Nat) : ∀ (ms : List JFunc), (∀ m ∈ ms, ReadOKF m ∧ ssW m.body + 2 ≤ F) → ∀ (r : List JTok) (k : Nat),
    ms.length + 1 ≤ k → jMethods F k ((ms.map prMethod).flatten ++ .p .rc :: r) = some (ms, r)
  | [], _, r, k, hk => by
    obtain ⟨k', rfl⟩ : ∃ k', k = k' + 1 := ⟨k - 1, by simp at hk; omega⟩
    simp [jMethods]
  | m :: ms, h, r, k, hk => by
    obtain ⟨k', rfl⟩ : ∃ k', k = k' + 1 := ⟨k - 1, by simp at hk; omega⟩
    obtain ⟨h1, h2⟩ := h m (by simp)
    have e1 := jMethod_prMethod m h1 ((ms.map prMethod).flatten ++ .p .rc :: r) F h2
    have e2 := jMethods_pr F ms (fun x hx => h x (by simp [hx])) r k' (by simp at hk; omega)
    have hts : ((m :: ms).map prMethod).flatten ++ .p .rc :: r =
        .id m.name :: (.p .lp :: prJArgs m.params ++ .p .rp :: .p .lc :: prBody m.body ++ [.p .rc] ++ ((ms.map prMethod).flatten ++ .p .rc :: r)) := by
      simp [prMethod, List.append_assoc]
    have e1' : jMethod F (.id m.name :: (.p .lp :: prJArgs m.params ++ .p .rp :: .p .lc :: prBody m.body ++ [.p .rc] ++ ((ms.map prMethod).flatten ++ .p .rc :: r)))
        = some (m, (ms.map prMethod).flatten ++ .p .rc :: r) := by
      rw [← e1]; simp [prMethod, List.append_assoc]
    rw [hts]
    rw [jMethods.eq_def]
    simp only [e1', e2, Option.map_some]

theorem flatten_length_ge (ms : List JFunc) : ms.length ≤ ((ms.map prMethod).flatten).length := by
  induction ms with
  | nil => simp
  | cons m ms ih =>
    have := prMethod_length m
    simp only [List.map_cons, List.flatten_cons, List.length_append, List.length_cons]; omega

/-- what a top-level item needs to be read back -/
def ReadOKT (F : Nat) : JTop → Prop
  | .func f => ReadOKF f ∧ ssW f.body + 2 ≤ F
  | .cls _ _ ms => ∀ m ∈ ms, ReadOKF m ∧ ssW m.body + 2 ≤ F

theorem any_hasWith_false (ms : List JFunc) (h : ∀ m ∈ ms, ReadOKF m) : (ms.any fun m => JS.hasWithL m.body) = false := by
  rw [List.any_eq_false]
  intro m hm
  simp [hasWithL_false m.body (h m hm).body]

/-- **J6 (reading)**: a program of functions and classes -/
theorem jTops_prog (F : Nat) : ∀ (tops : List JTop), (∀ t ∈ tops, ReadOKT F t) → ∀ (k : Nat), tops.length + 1 ≤ k →
    jTops F k (prProg tops) = some tops
  | [], _, k, hk => by
    obtain ⟨k', rfl⟩ : ∃ k', k = k' + 1 := ⟨k - 1, by simp at hk; omega⟩
    simp [prProg, jTops]
  | .func f :: tops, h, k, hk => by
    obtain ⟨k', rfl⟩ : ∃ k', k = k' + 1 := ⟨k - 1, by simp at hk; omega⟩
    obtain ⟨h1, h2⟩ : ReadOKF f ∧ ssW f.body + 2 ≤ F := h (.func f) (by simp)
    have e1 := jMethod_prMethod f h1 (prProg tops) F h2
    have e2 := jTops_prog F tops (fun g hg => h g (by simp [hg])) k' (by simp at hk; omega)
    have : prProg (.func f :: tops) = .id "function".toList :: (prMethod f ++ prProg tops) := by simp [prProg, prTop]
    rw [this]
    simp only [jTops, if_true, e1, e2, Option.map_some]
  | .cls n b ms :: tops, h, k, hk => by
    obtain ⟨k', rfl⟩ : ∃ k', k = k' + 1 := ⟨k - 1, by simp at hk; omega⟩
    have hm : ∀ m ∈ ms, ReadOKF m ∧ ssW m.body + 2 ≤ F := h (.cls n b ms) (by simp)
    have hlen := flatten_length_ge ms
    have e1 := jMethods_pr F ms hm (prProg tops) (((ms.map prMethod).flatten ++ .p .rc :: prProg tops).length + 1)
      (by simp only [List.length_append, List.length_cons]; omega)
    have e2 := jTops_prog F tops (fun g hg => h g (by simp [hg])) k' (by simp at hk; omega)
    have hw := any_hasWith_false ms (fun m hm' => (hm m hm').1)
    have : prProg (.cls n b ms :: tops) =
        .id "class".toList :: .id n :: .id "extends".toList :: .id b :: .p .lc :: ((ms.map prMethod).flatten ++ .p .rc :: prProg tops) := by
      simp [prProg, prTop, List.append_assoc]
    rw [this]
    have hne : ¬ ("class".toList = "function".toList) := by decide
    simp only [jTops, hne, if_false, if_true, e1, hw, Bool.false_eq_true, e2, Option.map_some]

/-! ### sizes: the fuel `parseJsProg` passes covers every body -/

/-- a top-level item whose methods are readable (no fuel bound) -/
def ReadOKT0 : JTop → Prop
  | .func f => ReadOKF f
  | .cls _ _ ms => ∀ m ∈ ms, ReadOKF m

theorem prMethod_body_len (m : JFunc) (h : ReadOKF m) : ssW m.body + 1 ≤ (prMethod m).length := by
  have := prBody_length m.body h.body
  simp only [prMethod, List.length_cons, List.length_append, List.length_nil]; omega

theorem mem_flatten_len {ms : List JFunc} {m : JFunc} (hm : m ∈ ms) : (prMethod m).length ≤ ((ms.map prMethod).flatten).length := by
  induction ms with
  | nil => cases hm
  | cons x xs ih =>
    simp only [List.map_cons, List.flatten_cons, List.length_append]
    rcases List.mem_cons.mp hm with rfl | hm
    · omega
    · have := ih hm; omega

theorem readOKT_of_len (t : JTop) (h : ReadOKT0 t) (F : Nat) (hF : (prTop t).length + 2 ≤ F) : ReadOKT F t := by
  cases t with
  | func f =>
    have h' : ReadOKF f := h
    have := prMethod_body_len f h'
    refine ⟨h', ?_⟩
    simp only [prTop, List.length_cons] at hF; omega
  | cls n b ms =>
    intro m hm
    have h' : ReadOKF m := h m hm
    have h1 := prMethod_body_len m h'
    have h2 := mem_flatten_len hm
    refine ⟨h', ?_⟩
    simp only [prTop, List.length_cons, List.length_append, List.length_nil] at hF; omega

theorem prTop_length (t : JTop) : 1 ≤ (prTop t).length := by cases t <;> simp [prTop]

theorem prProg_mem_len : ∀ (tops : List JTop), tops.length ≤ (prProg tops).length ∧ ∀ t ∈ tops, (prTop t).length ≤ (prProg tops).length
  | [] => by simp [prProg]
  | x :: xs => by
    obtain ⟨i1, i2⟩ := prProg_mem_len xs
    have hx := prTop_length x
    have e : prProg (x :: xs) = prTop x ++ prProg xs := by simp [prProg]
    rw [e]
    refine ⟨by simp only [List.length_cons, List.length_append]; omega, ?_⟩
    intro t ht
    rcases List.mem_cons.mp ht with rfl | ht
    · simp only [List.length_append]; omega
    · have := i2 t ht; simp only [List.length_append]; omega

/-- the program parser on the printed tokens of readable items -/
theorem parseJsProg_prProg (tops : List JTop) (h : ∀ t ∈ tops, ReadOKT0 t) : parseJsProg (prProg tops) = some tops := by
  obtain ⟨l1, l2⟩ := prProg_mem_len tops
  unfold parseJsProg
  exact jTops_prog _ tops (fun t ht => readOKT_of_len t (h t ht) _ (by have := l2 t ht; omega)) _ (by omega)

/-! ### `str(n)` -/

theorem digitChar_eq : ∀ k, k < 10 → Nat.digitChar k = Lscr.digitChar k := by decide

theorem toDigitsCore_eq : ∀ (fuel n : Nat) (ds : List Char), Nat.toDigitsCore 10 fuel n ds = Lscr.natDigits fuel n ds
  | 0, _, _ => rfl
  | fuel + 1, n, ds => by
    have hd : Nat.digitChar (n % 10) = Lscr.digitChar n := by
      rw [digitChar_eq _ (Nat.mod_lt _ (by omega))]; simp [Lscr.digitChar]
    have ih := toDigitsCore_eq fuel (n / 10) (Lscr.digitChar n :: ds)
    by_cases h : n < 10
    · have : n / 10 = 0 := by omega
      simp [Nat.toDigitsCore, Lscr.natDigits, hd, h, this]
    · have : ¬ n / 10 = 0 := by omega
      simp only [Nat.toDigitsCore, Lscr.natDigits, hd, h, this, if_false, ih]

/-- Lean's `toString` on naturals is the model's `str(n)` -/
theorem toString_natStr (n : Nat) : (toString n).toList = natStr n := by
  have : (toString n).toList = Nat.toDigits 10 n := by simp [toString, Nat.repr]
  rw [this, Nat.toDigits, toDigitsCore_eq]; rfl

theorem jsIdLex_object (k : Nat) : jsIdLex (S "Object__" ++ natStr k) = true := by
  have hd := (natStr_digits k).2
  have : (natStr k).all isJsIdChar = true := by
    rw [List.all_eq_true] at hd ⊢
    intro c hc; exact idChar_of_digit c (hd c hc)
  simp [jsIdLex, S, isJsIdStart, isJsIdChar, this]

/-! ### property scripts -/

/-- **J6, property scripts**: class + wrapper functions; `n` = the script number (`t.scrNum` read from the header) -/
theorem jsText_class (n : Nat) (s : Spec.Script) (t : Lscr.Script) (hr : ScriptRelJ s t) (hfac : s.factory = []) (hprops : s.props ≠ [])
    (hok : JsOkHs s.handlers = true) (hnum : t.scrNum = (n : Int)) :
    ∃ text, jsText t = .ok text ∧ readJs text = some (toJs n s) := by
  have hall : ∀ h ∈ s.handlers, JsOkH h = true := by
    have : ∀ (l : List Handler), JsOkHs l = true → ∀ x ∈ l, JsOkH x = true := by
      intro l; induction l with
      | nil => intro _ x hx; cases hx
      | cons a as ih =>
        intro hl x hx
        simp only [JsOkHs, Bool.and_eq_true] at hl
        rcases List.mem_cons.mp hx with rfl | hx
        · exact hl.1
        · exact ih hl.2 x hx
    exact this _ hok
  have hname : ∀ h ∈ s.handlers, jsIdOk h.name = true := by
    intro h hh
    have := hall h hh; simp only [JsOkH, Bool.and_eq_true] at this; exact this.1.1.1
  have htext := classJs_rel s t hr.funcs hok
  have hcn : S "Object__" ++ intStr t.scrNum = "Object__".toList ++ (toString n).toList := by
    rw [hnum, toString_natStr]; rfl
  rw [hcn] at htext
  refine ⟨txClassProg ("Object__".toList ++ (toString n).toList) (S "ObjectBase")
      (s.handlers.map (toJsFunc (s.handlers.map (·.name)) true))
      ((s.handlers.filter (·.name ≠ "birth".toList)).map fun h => wrapperFunc h.name), ?_, ?_⟩
  · unfold jsText
    have hp : t.properties.length > 0 := by
      rw [hr.props]; cases hs : s.props with
      | nil => exact absurd hs hprops
      | cons a as => simp
    have hf : ¬ t.factoryName.length > 0 := by rw [hr.fac]; simp
    simp only [hf, hp, if_false, if_true]
    exact htext
  · have hms : ∀ f ∈ s.handlers.map (toJsFunc (s.handlers.map (·.name)) true), LexOKF f ∧ ReadOKF f := by
      intro f hf
      obtain ⟨h, hh, rfl⟩ := List.mem_map.mp hf
      exact toJsFunc_ok_c _ h (hall h hh)
    have hws : ∀ f ∈ (s.handlers.filter (·.name ≠ "birth".toList)).map (fun h => wrapperFunc h.name), LexOKF f ∧ ReadOKF f := by
      intro f hf
      obtain ⟨h, hh, rfl⟩ := List.mem_map.mp hf
      have hn := hname h (List.mem_filter.mp hh).1
      exact ⟨lexOKF_wrapper _ (jsIdOk_lex _ hn), readOKF_wrapper _ (jsIdOk_nonkw _ hn)⟩
    have hlex := lexClassProg ("Object__".toList ++ (toString n).toList) (S "ObjectBase") _ _
      (by rw [toString_natStr]; exact jsIdLex_object n) (by decide) (fun f hf => (hms f hf).1) (fun f hf => (hws f hf).1)
    unfold readJs
    rw [hlex]
    simp only [Option.bind_some]
    rw [parseJsProg_prProg]
    · have hf' : ¬ s.factory ≠ [] := by simp [hfac]
      simp only [toJs, hf', hprops, if_false, if_true, ne_eq, not_false_eq_true, List.map_map, Function.comp_def, wrapperFunc]
      rfl
    · intro t' ht'
      rcases List.mem_cons.mp ht' with rfl | ht'
      · exact fun m hm => (hms m hm).2
      · obtain ⟨f, hf, rfl⟩ := List.mem_map.mp ht'
        exact (hws f hf).2

/-! ### factories -/

/-- what the container layer would establish about a parsed factory script: methods carry the receiver `me` as first parameter -/
structure FuncRelF (hs : List Spec.Name) (h : Handler) (f : FuncDef) : Prop where
  name : f.name = h.name
  params : Leaves .paramName ("me".toList :: h.params) f.params
  locals : Leaves .localVar h.locals f.localVars
  stmts : ∃ ns p q, f.stmts = ns ++ [exitStmt p q] ∧ EmbSsJ hs h.body ns

/-- one method of a factory class (same generator as for property scripts; the explicit receiver is dropped) -/
theorem jsMethod_relF (hs : List Spec.Name) (hret : hs.contains (S "return") = false) (h : Handler) (f : FuncDef)
    (hr : FuncRelF hs h f) (hok : JsOkH h = true) : jsMethod f = .ok (txMethod (toJsFunc hs true h)) := by
  simp only [JsOkH, Bool.and_eq_true] at hok
  obtain ⟨⟨⟨hname, _⟩, _⟩, hbody⟩ := hok
  obtain ⟨ns, p, q, hst, hemb⟩ := hr.stmts
  have hnew' : ¬ (h.name = "new".toList ∧ (!true) = true) := fun e => by simp at e
  have hb := js_trees hs hret h.body hbody ns hemb 2
  have hj := jsParams_rel f _ hr.params true
  have hfil : ("me".toList :: h.params).filter (· ≠ "me".toList) = h.params.filter (· ≠ "me".toList) := by simp
  simp only [if_true, hfil] at hj
  have hne : f.params.isEmpty = false := by rw [leaves_isEmpty hr.params]; rfl
  unfold jsMethod
  simp only [hj, jsLocals_rel f h.locals hr.locals 2, hst, bodyJs_exit, hb, hr.name, bind, Except.bind, pure, Except.pure, hne,
    Bool.false_eq_true, if_false]
  simp only [txMethod, toJsFunc, hnew', if_false, if_true, txArgs_ids,
    txFuncBody_vars 2 h.locals _ (toJsSs_head_noVar _ h.body hbody)]
  simp [S, List.append_assoc]

theorem jsMethods_relF (hs : List Spec.Name) (hret : hs.contains (S "return") = false) : ∀ (hl : List Handler) (fs : List FuncDef),
    Rel2 (FuncRelF hs) hl fs → JsOkHs hl = true →
    jsMethods fs = .ok ((hl.map fun h => txMethod (toJsFunc hs true h)).flatten)
  | [], _, h, _ => by cases h; rfl
  | x :: xs, _, h, hok => by
    cases h with
    | cons hx hxs =>
      simp only [JsOkHs, Bool.and_eq_true] at hok
      have e1 := jsMethod_relF hs hret x _ hx hok.1
      have e2 := jsMethods_relF hs hret xs _ hxs hok.2
      simp only [jsMethods, e1, e2, bind, Except.bind, pure, Except.pure, List.map_cons, List.flatten_cons]

theorem txFunc_factory (name : Spec.Name) :
    txFunc (factoryFunc name) =
      S "function " ++ name ++ S "(methodName, ...args) {\n" ++ indentOf 1 ++ S "return factoryCall('" ++ name ++
        S "', methodName, args);\n" ++ S "}\n" := by
  simp [txFunc, factoryFunc, txFuncBody, varCount, txBody, txT, txS, txJ, txArgs, jid, jcall, JE.needsParen, S, List.append_assoc]

structure ScriptRelF (s : Spec.Script) (t : Lscr.Script) : Prop where
  fac : t.factoryName = s.factory
  funcs : Rel2 (FuncRelF (s.handlers.map (·.name))) s.handlers t.functions

theorem readOKF_factory (name : Spec.Name) (hk : isJsKeyword name = false) : ReadOKF (factoryFunc name) := by
  refine ⟨hk, ?_, ?_⟩
  · intro r
    simp only [factoryFunc, jid, prJArgs, prJ, List.singleton_append, List.cons_append, List.nil_append]
    exact jParams_id_spread _ _ r
  · have h1 : OkId "factoryCall".toList := by decide +kernel
    have h2 : OkId "methodName".toList := by decide +kernel
    have h3 : OkId "args".toList := by decide +kernel
    have hfr : JFrag (jcall "factoryCall" [.sstr name, jid "methodName", jid "args"]) := by
      simp only [jcall, jid, JFrag, JFragL]
      exact ⟨h1, trivial, h2, h3, trivial⟩
    exact ⟨retOK_frag _ hfr, trivial⟩

theorem lexOKF_factory (name : Spec.Name) (hk : jsIdLex name = true) (hs : sstrOk name = true) : LexOKF (factoryFunc name) := by
  refine ⟨hk, ?_, ?_⟩
  · exact ⟨(by decide : jsIdLex "methodName".toList = true), (by decide : jsIdLex "args".toList = true), trivial⟩
  · exact ⟨⟨(by decide : jsIdLex "factoryCall".toList = true), hs, (by decide : jsIdLex "methodName".toList = true),
      (by decide : jsIdLex "args".toList = true), trivial⟩, trivial⟩

theorem jsIdLex_sstrOk (n : Spec.Name) (h : jsIdLex n = true) : sstrOk n = true := by
  obtain ⟨_, hall⟩ := jsIdLex_all n h
  simp only [sstrOk, List.all_eq_true, Bool.and_eq_true, bne_iff_ne, ne_eq]
  intro c hc
  have := hall c hc
  refine ⟨⟨?_, ?_⟩, ?_⟩ <;> (intro e; subst e; exact absurd this (by decide))

theorem jsIdLex_append (a b : Spec.Name) (ha : jsIdLex a = true) (hb : jsIdLex b = true) : jsIdLex (a ++ b) = true := by
  cases a with
  | nil => simp [jsIdLex] at ha
  | cons c cs =>
    simp only [jsIdLex, Bool.and_eq_true] at ha
    obtain ⟨_, hball⟩ := jsIdLex_all b hb
    simp only [List.cons_append, jsIdLex, ha.1, Bool.true_and, List.all_append, ha.2]
    rw [List.all_eq_true]; exact hball

/-- **J6, factories**: `class Factory__<name> extends FactoryBase` + the dispatcher function -/
theorem jsText_factory (n : Nat) (s : Spec.Script) (t : Lscr.Script) (hr : ScriptRelF s t) (hfac : jsIdOk s.factory = true)
    (hok : JsOkHs s.handlers = true) :
    ∃ text, jsText t = .ok text ∧ readJs text = some (toJs n s) := by
  have hall : ∀ h ∈ s.handlers, JsOkH h = true := by
    have : ∀ (l : List Handler), JsOkHs l = true → ∀ x ∈ l, JsOkH x = true := by
      intro l; induction l with
      | nil => intro _ x hx; cases hx
      | cons a as ih =>
        intro hl x hx
        simp only [JsOkHs, Bool.and_eq_true] at hl
        rcases List.mem_cons.mp hx with rfl | hx
        · exact hl.1
        · exact ih hl.2 x hx
    exact this _ hok
  have hret := names_no_return s.handlers hok
  have hne : s.factory ≠ [] := by intro e; rw [e] at hfac; exact absurd hfac (by decide)
  have hm := jsMethods_relF _ hret s.handlers t.functions hr.funcs hok
  refine ⟨txClassProg ("Factory__".toList ++ s.factory) (S "FactoryBase")
      (s.handlers.map (toJsFunc (s.handlers.map (·.name)) true)) [factoryFunc s.factory], ?_, ?_⟩
  · unfold jsText
    have hf : t.factoryName.length > 0 := by
      rw [hr.fac]; cases hs : s.factory with
      | nil => exact absurd hs hne
      | cons a as => simp
    simp only [hf, if_true]
    unfold factoryJs
    simp only [hm, bind, Except.bind, pure, Except.pure, hr.fac]
    simp [txClassProg, txClass, txFunc_factory, S, List.append_assoc, List.map_map, Function.comp_def]
  · have hms : ∀ f ∈ s.handlers.map (toJsFunc (s.handlers.map (·.name)) true), LexOKF f ∧ ReadOKF f := by
      intro f hf
      obtain ⟨h, hh, rfl⟩ := List.mem_map.mp hf
      exact toJsFunc_ok_c _ h (hall h hh)
    have hlexn := jsIdOk_lex _ hfac
    have hlex := lexClassProg ("Factory__".toList ++ s.factory) (S "FactoryBase") _ [factoryFunc s.factory]
      (jsIdLex_append _ _ (by decide) hlexn) (by decide) (fun f hf => (hms f hf).1)
      (fun f hf => by
        simp only [List.mem_singleton] at hf; subst hf
        exact lexOKF_factory _ hlexn (jsIdLex_sstrOk _ hlexn))
    unfold readJs
    rw [hlex]
    simp only [Option.bind_some]
    rw [parseJsProg_prProg]
    · simp only [toJs, hne, ne_eq, not_false_eq_true, if_true, List.map_cons, List.map_nil, factoryFunc]
      rfl
    · intro t' ht'
      rcases List.mem_cons.mp ht' with rfl | ht'
      · exact fun m hm => (hms m hm).2
      · simp only [List.map_cons, List.map_nil, List.mem_singleton] at ht'
        subst ht'
        exact readOKF_factory _ (jsIdOk_nonkw _ hfac)

end Drx.LinkJs
