/-
  Helper lemmas shared by C17 and C16: reading a field that sits behind a prefix (`…_skip`), reading the field at the
  head of a concatenation (`…_here`).  No model imports, so that the text proofs do not depend on the index tables.
-/
import Drx.Py
import Drx.PyI
import DrxProofs.Py
namespace Drx

/-! ### slices and fields behind a prefix -/

theorem slice_skip (pre rest : List α) (a b : Nat) (h : pre.length ≤ a) :
    slice (pre ++ rest) a b = slice rest (a - pre.length) (b - pre.length) := by
  unfold slice
  rw [List.drop_append, List.drop_of_length_le h, List.nil_append]
  congr 1
  omega

theorem slice_zero_append (x post : List α) (n : Nat) (h : n = x.length) : slice (x ++ post) 0 n = x := by
  subst h; simp [slice]

theorem getS_skip (o : Order) (k : Nat) (pre rest : Bytes) (off : Nat) (h : pre.length ≤ off) :
    getS o k (pre ++ rest) off = getS o k rest (off - pre.length) := by
  unfold getS
  rw [slice_skip _ _ _ _ h]
  have : off + k - pre.length = off - pre.length + k := by omega
  rw [this]

theorem getU_skip (o : Order) (k : Nat) (pre rest : Bytes) (off : Nat) (h : pre.length ≤ off) :
    getU o k (pre ++ rest) off = getU o k rest (off - pre.length) := by
  unfold getU
  rw [slice_skip _ _ _ _ h]
  have : off + k - pre.length = off - pre.length + k := by omega
  rw [this]

theorem byteAt_skip (pre rest : Bytes) (i : Nat) (h : pre.length ≤ i) :
    byteAt (pre ++ rest) i = byteAt rest (i - pre.length) := by
  unfold byteAt
  rw [List.getElem?_append_right h]

theorem byteAt_here (b : UInt8) (post : Bytes) : byteAt (b :: post) 0 = .ok b := by
  simp [byteAt]

theorem s32_range {i : Int} (h : s32 i) : -((2 ^ (8 * 4 - 1) : Nat) : Int) ≤ i ∧ i < ((2 ^ (8 * 4 - 1) : Nat) : Int) := by
  unfold s32 at h
  have : (2 ^ (8 * 4 - 1) : Nat) = 2147483648 := by decide
  rw [this]; omega

theorem s16_range {i : Int} (h : s16 i) : -((2 ^ (8 * 2 - 1) : Nat) : Int) ≤ i ∧ i < ((2 ^ (8 * 2 - 1) : Nat) : Int) := by
  unfold s16 at h
  have : (2 ^ (8 * 2 - 1) : Nat) = 32768 := by decide
  rw [this]; omega

theorem getS4_here (o : Order) (v : Int) (post : Bytes) (h : s32 v) : getS o 4 (encS o 4 v ++ post) 0 = .ok v := by
  unfold getS
  rw [slice_zero_append _ _ _ (by simp)]
  exact unpackS_encS o 4 (by decide) v (s32_range h).1 (s32_range h).2

theorem getS2_here (o : Order) (v : Int) (post : Bytes) (h : s16 v) : getS o 2 (encS o 2 v ++ post) 0 = .ok v := by
  unfold getS
  rw [slice_zero_append _ _ _ (by simp)]
  exact unpackS_encS o 2 (by decide) v (s16_range h).1 (s16_range h).2

theorem getU_here (o : Order) (k n : Nat) (post : Bytes) (h : n < 256 ^ k) : getU o k (encOrd o k n ++ post) 0 = .ok n := by
  unfold getU
  rw [slice_zero_append _ _ _ (by simp)]
  exact unpackU_encOrd o k n h

theorem s32_ofNat (n : Nat) (h : n < 2147483648) : s32 (n : Int) := by unfold s32; omega
theorem s16_ofNat (n : Nat) (h : n < 32768) : s16 (n : Int) := by unfold s16; omega

theorem getS_ord_here (o : Order) (k n : Nat) (post : Bytes) (h : n < 256 ^ k) :
    getS o k (encOrd o k n ++ post) 0 = .ok (toSigned (8 * k) n) := by
  unfold getS unpackS
  rw [slice_zero_append _ _ _ (by simp)]
  simp [ordNat_encOrd_of_lt o k n h]

end Drx
