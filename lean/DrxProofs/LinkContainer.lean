/-
  L5, part 2 — the container: header, handler records and blocks, constant records, as `compile` lays them out,
  read back by the model (`parseHeader`, `readContainer`, `readFrb`).
-/
import Drx.Link
import DrxProofs.LinkTables
namespace Drx.Link
open Drx Drx.Lscr Drx.Spec
set_option linter.unusedSimpArgs false
set_option linter.unusedVariables false

theorem field_read' (d : Bytes) (a : Nat) (fs : List (Nat × Nat)) (h : CodeAt d a (encFs fs)) (i w v : Nat)
    (hi : fs[i]? = some (w, v)) (hok : FieldOk (w, v)) (wd : Nat) (hwd : widths (fs.take i) = wd) (off : Int)
    (hoff : (a : Int) + (wd : Int) = off) : Lscr.getSI w d off = .ok (toSigned (8 * w) v) :=
  field_read d a fs h i w v hi hok off (by rw [hwd]; omega)

/-! ### header -/

def hdrFields (size scrNum facIdx prbOff nglob grbOff nh frbOff nc crbOff clen conOff : Nat) : List (Nat × Nat) :=
  [(4, 0), (4, 1), (4, size), (4, size), (2, 92), (2, scrNum), (2, 2), (2, 0xffff), (4, 0xffff0000), (4, 0), (4, 0), (4, 0), (4, 0),
   (4, 1), (2, facIdx), (2, 0), (4, 0), (4, 0), (4, 0), (2, prbOff), (2, nglob), (2, 0), (2, grbOff), (2, nh), (2, 0), (2, frbOff),
   (2, nc), (2, 0), (2, crbOff), (2, 0), (2, clen), (2, 0), (2, conOff)]

/-- `parse_lrcr_file_header` on a byte string that starts with the scheme's 92-byte header and has the declared size -/
theorem parseHeader_ok (d : Bytes) (size scrNum facIdx prbOff nglob grbOff nh frbOff nc crbOff clen conOff : Nat)
    (hc : CodeAt d 0 (encFs (hdrFields size scrNum facIdx prbOff nglob grbOff nh frbOff nc crbOff clen conOff)))
    (hok : ∀ f ∈ hdrFields size scrNum facIdx prbOff nglob grbOff nh frbOff nc crbOff clen conOff, FieldOk f)
    (hsize : d.length = size) (hs31 : size < 2147483648) :
    parseHeader d = .ok { scrNum := toSigned 16 scrNum, contScrNum := toSigned 16 0xffff, factoryNameIdx := toSigned 16 facIdx, prbOff := toSigned 16 prbOff, grbN := toSigned 16 nglob, grbOff := toSigned 16 grbOff, frbN := toSigned 16 nh, frbOff := toSigned 16 frbOff, crbN := toSigned 16 nc, crbOff := toSigned 16 crbOff, conOff := toSigned 16 conOff } := by
  have r0 := field_read' d 0 _ hc 0 4 (0) rfl (hok _ (by simp [hdrFields])) 0 (by simp [widths, hdrFields]) 0 rfl
  have r1 := field_read' d 0 _ hc 1 4 (1) rfl (hok _ (by simp [hdrFields])) 4 (by simp [widths, hdrFields]) 4 rfl
  have r2 := field_read' d 0 _ hc 2 4 (size) rfl (hok _ (by simp [hdrFields])) 8 (by simp [widths, hdrFields]) 8 rfl
  have r3 := field_read' d 0 _ hc 3 4 (size) rfl (hok _ (by simp [hdrFields])) 12 (by simp [widths, hdrFields]) 12 rfl
  have r4 := field_read' d 0 _ hc 4 2 (92) rfl (hok _ (by simp [hdrFields])) 16 (by simp [widths, hdrFields]) 16 rfl
  have r5 := field_read' d 0 _ hc 5 2 (scrNum) rfl (hok _ (by simp [hdrFields])) 18 (by simp [widths, hdrFields]) 18 rfl
  have r6 := field_read' d 0 _ hc 6 2 (2) rfl (hok _ (by simp [hdrFields])) 20 (by simp [widths, hdrFields]) 20 rfl
  have r7 := field_read' d 0 _ hc 7 2 (0xffff) rfl (hok _ (by simp [hdrFields])) 22 (by simp [widths, hdrFields]) 22 rfl
  have r8 := field_read' d 0 _ hc 8 4 (0xffff0000) rfl (hok _ (by simp [hdrFields])) 24 (by simp [widths, hdrFields]) 24 rfl
  have r9 := field_read' d 0 _ hc 9 4 (0) rfl (hok _ (by simp [hdrFields])) 28 (by simp [widths, hdrFields]) 28 rfl
  have r10 := field_read' d 0 _ hc 10 4 (0) rfl (hok _ (by simp [hdrFields])) 32 (by simp [widths, hdrFields]) 32 rfl
  have r11 := field_read' d 0 _ hc 11 4 (0) rfl (hok _ (by simp [hdrFields])) 36 (by simp [widths, hdrFields]) 36 rfl
  have r12 := field_read' d 0 _ hc 12 4 (0) rfl (hok _ (by simp [hdrFields])) 40 (by simp [widths, hdrFields]) 40 rfl
  have r13 := field_read' d 0 _ hc 13 4 (1) rfl (hok _ (by simp [hdrFields])) 44 (by simp [widths, hdrFields]) 44 rfl
  have r14 := field_read' d 0 _ hc 14 2 (facIdx) rfl (hok _ (by simp [hdrFields])) 48 (by simp [widths, hdrFields]) 48 rfl
  have r15 := field_read' d 0 _ hc 15 2 (0) rfl (hok _ (by simp [hdrFields])) 50 (by simp [widths, hdrFields]) 50 rfl
  have r16 := field_read' d 0 _ hc 16 4 (0) rfl (hok _ (by simp [hdrFields])) 52 (by simp [widths, hdrFields]) 52 rfl
  have r17 := field_read' d 0 _ hc 17 4 (0) rfl (hok _ (by simp [hdrFields])) 56 (by simp [widths, hdrFields]) 56 rfl
  have r18 := field_read' d 0 _ hc 18 4 (0) rfl (hok _ (by simp [hdrFields])) 60 (by simp [widths, hdrFields]) 60 rfl
  have r19 := field_read' d 0 _ hc 19 2 (prbOff) rfl (hok _ (by simp [hdrFields])) 64 (by simp [widths, hdrFields]) 64 rfl
  have r20 := field_read' d 0 _ hc 20 2 (nglob) rfl (hok _ (by simp [hdrFields])) 66 (by simp [widths, hdrFields]) 66 rfl
  have r21 := field_read' d 0 _ hc 21 2 (0) rfl (hok _ (by simp [hdrFields])) 68 (by simp [widths, hdrFields]) 68 rfl
  have r22 := field_read' d 0 _ hc 22 2 (grbOff) rfl (hok _ (by simp [hdrFields])) 70 (by simp [widths, hdrFields]) 70 rfl
  have r23 := field_read' d 0 _ hc 23 2 (nh) rfl (hok _ (by simp [hdrFields])) 72 (by simp [widths, hdrFields]) 72 rfl
  have r24 := field_read' d 0 _ hc 24 2 (0) rfl (hok _ (by simp [hdrFields])) 74 (by simp [widths, hdrFields]) 74 rfl
  have r25 := field_read' d 0 _ hc 25 2 (frbOff) rfl (hok _ (by simp [hdrFields])) 76 (by simp [widths, hdrFields]) 76 rfl
  have r26 := field_read' d 0 _ hc 26 2 (nc) rfl (hok _ (by simp [hdrFields])) 78 (by simp [widths, hdrFields]) 78 rfl
  have r27 := field_read' d 0 _ hc 27 2 (0) rfl (hok _ (by simp [hdrFields])) 80 (by simp [widths, hdrFields]) 80 rfl
  have r28 := field_read' d 0 _ hc 28 2 (crbOff) rfl (hok _ (by simp [hdrFields])) 82 (by simp [widths, hdrFields]) 82 rfl
  have r29 := field_read' d 0 _ hc 29 2 (0) rfl (hok _ (by simp [hdrFields])) 84 (by simp [widths, hdrFields]) 84 rfl
  have r30 := field_read' d 0 _ hc 30 2 (clen) rfl (hok _ (by simp [hdrFields])) 86 (by simp [widths, hdrFields]) 86 rfl
  have r31 := field_read' d 0 _ hc 31 2 (0) rfl (hok _ (by simp [hdrFields])) 88 (by simp [widths, hdrFields]) 88 rfl
  have r32 := field_read' d 0 _ hc 32 2 (conOff) rfl (hok _ (by simp [hdrFields])) 90 (by simp [widths, hdrFields]) 90 rfl
  unfold parseHeader
  simp only [r0, r1, r2, r3, r4, r5, r6, r7, r8, r9, r10, r11, r12, r13, r14, r15, r16, r17, r18, r19, r20, r21, r22, r23, r24, r25, r26, r27, r28, r29, r30, r31, r32, bind, Except.bind, pure, Except.pure]
  have hsz : toSigned 32 size = (size : Int) := toSigned32_small size hs31
  have hne : ¬ (toSigned (8 * 4) size ≠ toSigned (8 * 4) size ∨ toSigned (8 * 4) size ≠ (d.length : Int)) := by
    rw [show (8 * 4 : Nat) = 32 from rfl, hsz, hsize]; simp
  simp only [hne, if_false]

/-! ### the layout `compile` produces, as a pure function of its parts -/

structure Lay where
  scrNum : Nat
  facIdx : Nat
  props : List Nat      -- property table (a factory's three fixed slots included)
  globs : List Nat
  hs : List HCode
  consts : List Spec.Const

def Lay.blocks (L : Lay) : Bytes := (handlerBlocks L.hs 92).1
def Lay.records (L : Lay) : Bytes := (handlerBlocks L.hs 92).2
def Lay.prbOff (L : Lay) : Nat := 92 + L.blocks.length
def Lay.grbOff (L : Lay) : Nat := L.prbOff + 2 * L.props.length
def Lay.frbOff (L : Lay) : Nat := L.grbOff + 2 * L.globs.length
def Lay.crbOff (L : Lay) : Nat := L.frbOff + L.records.length
def Lay.conOff (L : Lay) : Nat := L.crbOff + 6 * L.consts.length
def Lay.crecs (L : Lay) : Bytes := (constRecords L.consts 0).1
def Lay.cdata (L : Lay) : Bytes := (constRecords L.consts 0).2
def Lay.size (L : Lay) : Nat := L.conOff + L.cdata.length
def Lay.fields (L : Lay) : List (Nat × Nat) :=
  hdrFields L.size L.scrNum L.facIdx L.prbOff L.globs.length L.grbOff L.hs.length L.frbOff L.consts.length L.crbOff L.cdata.length L.conOff
def Lay.bytes (L : Lay) : Bytes :=
  encFs L.fields ++ L.blocks ++ L.props.flatMap be16 ++ L.globs.flatMap be16 ++ L.records ++ L.crecs ++ L.cdata

theorem hdr_length (L : Lay) : (encFs L.fields).length = 92 := by
  rw [encFs_length]; simp [widths, Lay.fields, hdrFields]

theorem constRecords_fst_length : ∀ (cs : List Spec.Const) (off : Nat), (constRecords cs off).1.length = 6 * cs.length
  | [], _ => rfl
  | c :: cs, off => by
    simp only [constRecords, List.length_append, constRecords_fst_length cs, List.length_cons]
    cases c <;> simp [Const.record, be16_length, be32_length] <;> omega

theorem Lay.bytes_length (L : Lay) : L.bytes.length = L.size := by
  simp only [Lay.bytes, List.length_append, hdr_length, flatMap_be16_length, Lay.size, Lay.conOff, Lay.crbOff, Lay.frbOff, Lay.grbOff,
    Lay.prbOff, Lay.crecs, constRecords_fst_length]

theorem Lay.at_header (L : Lay) : CodeAt L.bytes 0 (encFs L.fields) :=
  ⟨[], L.blocks ++ L.props.flatMap be16 ++ L.globs.flatMap be16 ++ L.records ++ L.crecs ++ L.cdata, by simp [Lay.bytes], rfl⟩

theorem Lay.at_blocks (L : Lay) : CodeAt L.bytes 92 L.blocks :=
  ⟨encFs L.fields, L.props.flatMap be16 ++ L.globs.flatMap be16 ++ L.records ++ L.crecs ++ L.cdata, by simp [Lay.bytes], hdr_length L⟩

theorem Lay.at_props (L : Lay) : CodeAt L.bytes L.prbOff (L.props.flatMap be16) :=
  ⟨encFs L.fields ++ L.blocks, L.globs.flatMap be16 ++ L.records ++ L.crecs ++ L.cdata, by simp [Lay.bytes],
    by simp [hdr_length, Lay.prbOff]⟩

theorem Lay.at_globs (L : Lay) : CodeAt L.bytes L.grbOff (L.globs.flatMap be16) :=
  ⟨encFs L.fields ++ L.blocks ++ L.props.flatMap be16, L.records ++ L.crecs ++ L.cdata, by simp [Lay.bytes],
    by simp only [List.length_append, hdr_length, flatMap_be16_length, Lay.prbOff, Lay.grbOff]⟩

theorem Lay.at_records (L : Lay) : CodeAt L.bytes L.frbOff L.records :=
  ⟨encFs L.fields ++ L.blocks ++ L.props.flatMap be16 ++ L.globs.flatMap be16, L.crecs ++ L.cdata, by simp [Lay.bytes],
    by simp only [List.length_append, hdr_length, flatMap_be16_length, Lay.prbOff, Lay.grbOff, Lay.frbOff]⟩

theorem Lay.at_crecs (L : Lay) : CodeAt L.bytes L.crbOff L.crecs :=
  ⟨encFs L.fields ++ L.blocks ++ L.props.flatMap be16 ++ L.globs.flatMap be16 ++ L.records, L.cdata, by simp [Lay.bytes],
    by simp only [List.length_append, hdr_length, flatMap_be16_length, Lay.prbOff, Lay.grbOff, Lay.frbOff, Lay.crbOff]⟩

/-! ### handler blocks and records -/

def blockBytes (h : HCode) : Bytes := padEven h.code ++ h.args.flatMap be16 ++ h.locals.flatMap be16 ++ h.globals.flatMap be16

def recFields (h : HCode) (off : Nat) : List (Nat × Nat) :=
  [(2, h.nameIdx), (2, 0xffff), (4, h.code.length), (4, off), (2, h.args.length), (4, off + (padEven h.code).length),
   (2, h.locals.length), (4, off + (padEven h.code).length + 2 * h.args.length), (2, h.globals.length),
   (4, off + (padEven h.code).length + 2 * h.args.length + 2 * h.locals.length), (4, 0), (2, 0), (2, 0),
   (4, off + (padEven h.code).length + 2 * h.args.length + 2 * h.locals.length + 2 * h.globals.length)]

theorem handlerBlock_eq (h : HCode) (off : Nat) : handlerBlock h off = (blockBytes h, encFs (recFields h off)) := by
  simp [handlerBlock, blockBytes, recFields, encFs, encF]

theorem recFields_length (h : HCode) (off : Nat) : (encFs (recFields h off)).length = 42 := by
  rw [encFs_length]; simp [widths, recFields]

/-- start address of the `k`-th handler block -/
def blockOff (hs : List HCode) (off0 k : Nat) : Nat := off0 + ((hs.take k).map fun h => (blockBytes h).length).sum

theorem handlerBlocks_at : ∀ (hs : List HCode) (off0 k : Nat) (h : HCode), hs[k]? = some h →
    ∃ preB postB preR postR, (handlerBlocks hs off0).1 = preB ++ blockBytes h ++ postB ∧ off0 + preB.length = blockOff hs off0 k ∧
      (handlerBlocks hs off0).2 = preR ++ encFs (recFields h (blockOff hs off0 k)) ++ postR ∧ preR.length = 42 * k
  | [], _, k, _, hk => by simp at hk
  | x :: xs, off0, 0, h, hk => by
    simp only [List.getElem?_cons_zero, Option.some.injEq] at hk
    subst hk
    refine ⟨[], (handlerBlocks xs (off0 + (blockBytes x).length)).1, [], (handlerBlocks xs (off0 + (blockBytes x).length)).2, ?_, ?_, ?_, rfl⟩
    · simp [handlerBlocks, handlerBlock_eq]
    · simp [blockOff]
    · simp [handlerBlocks, handlerBlock_eq, blockOff]
  | x :: xs, off0, k + 1, h, hk => by
    simp only [List.getElem?_cons_succ] at hk
    obtain ⟨preB, postB, preR, postR, h1, h2, h3, h4⟩ := handlerBlocks_at xs (off0 + (blockBytes x).length) k h hk
    have hoff : blockOff (x :: xs) off0 (k + 1) = blockOff xs (off0 + (blockBytes x).length) k := by
      simp [blockOff]; omega
    refine ⟨blockBytes x ++ preB, postB, encFs (recFields x off0) ++ preR, postR, ?_, ?_, ?_, ?_⟩
    · simp [handlerBlocks, handlerBlock_eq, h1]
    · rw [hoff, ← h2]; simp; omega
    · rw [hoff]; simp [handlerBlocks, handlerBlock_eq, h3]
    · simp [recFields_length, h4]; omega

theorem handlerBlocks_snd_length : ∀ (hs : List HCode) (off0 : Nat), (handlerBlocks hs off0).2.length = 42 * hs.length
  | [], _ => rfl
  | x :: xs, off0 => by
    simp [handlerBlocks, handlerBlock_eq, recFields_length, handlerBlocks_snd_length xs]; omega

theorem Lay.at_block (L : Lay) (k : Nat) (h : HCode) (hk : L.hs[k]? = some h) : CodeAt L.bytes (blockOff L.hs 92 k) (blockBytes h) := by
  obtain ⟨preB, postB, preR, postR, h1, h2, h3, h4⟩ := handlerBlocks_at L.hs 92 k h hk
  have := L.at_blocks
  unfold Lay.blocks at this
  rw [h1] at this
  have := this.sub
  rwa [h2] at this

theorem Lay.at_record (L : Lay) (k : Nat) (h : HCode) (hk : L.hs[k]? = some h) :
    CodeAt L.bytes (L.frbOff + 42 * k) (encFs (recFields h (blockOff L.hs 92 k))) := by
  obtain ⟨preB, postB, preR, postR, h1, h2, h3, h4⟩ := handlerBlocks_at L.hs 92 k h hk
  have := L.at_records
  unfold Lay.records at this
  rw [h3] at this
  have := this.sub
  rwa [h4] at this

theorem padEven_length_le (b : Bytes) : b.length ≤ (padEven b).length := by
  unfold padEven; split <;> simp

/-- what one function record declares (F103's running total): its bytecode and two bytes per name-table entry -/
def hw (h : HCode) : Nat := h.code.length + 2 * (h.locals.length + h.args.length + h.globals.length)

theorem hw_le_block (h : HCode) : hw h ≤ (blockBytes h).length := by
  have := padEven_length_le h.code
  simp only [hw, blockBytes, List.length_append, flatMap_be16_length]
  omega

/-- declared bytes of the first `j` handlers -/
def wsum (hs : List HCode) (j : Nat) : Nat := ((hs.take j).map hw).sum

theorem wsum_le_blockOff : ∀ (hs : List HCode) (off0 j : Nat), off0 + wsum hs j ≤ blockOff hs off0 j
  | [], off0, j => by simp [wsum, blockOff]
  | x :: xs, off0, 0 => by simp [wsum, blockOff]
  | x :: xs, off0, j + 1 => by
    have ih := wsum_le_blockOff xs off0 j
    have := hw_le_block x
    simp only [wsum, blockOff, List.take_succ_cons, List.map_cons, List.sum_cons] at ih ⊢
    omega

/-- one function record block: the fields the model uses and the three name tables of the handler's block; `dcl0` = the bytes
    declared by the records before this one, which lie before this handler's block -/
theorem readFrb_ok (ctx0 : Lscr.Ctx) (d : Bytes) (frb off : Nat) (h : HCode) (fname : Str) (pnames lnames gnames : List Str)
    (hrec : CodeAt d frb (encFs (recFields h off))) (hblk : CodeAt d off (blockBytes h))
    (hsz : off + (blockBytes h).length < 32768) (hni : h.nameIdx < 32768) (hname : ctx0.names[h.nameIdx]? = some fname)
    (hargs : NamesAt ctx0.names h.args pnames) (hlocs : NamesAt ctx0.names h.locals lnames)
    (hglob : NamesAt ctx0.names h.globals gnames) (hgnd : gnames.Nodup) (dcl0 : Nat) (hdcl : dcl0 ≤ off) :
    ∃ locals params globals, readFrb ctx0 d (frb : Int) dcl0 = .ok { fname := fname, bcLen := (h.code.length : Int), bcOff := (off : Int), locals := locals, params := params, isMethod := false, globals := globals, declared := dcl0 + hw h } ∧
      Leaves .localVar lnames locals ∧ Leaves .paramName pnames params ∧ Leaves .globalVar gnames globals := by
  have hlen : (blockBytes h).length = (padEven h.code).length + 2 * h.args.length + 2 * h.locals.length + 2 * h.globals.length := by
    simp only [blockBytes, List.length_append, flatMap_be16_length]
  have hpad := padEven_length_le h.code
  have hok : ∀ f ∈ recFields h off, FieldOk f := by
    intro f hf
    simp only [recFields, List.mem_cons, List.mem_nil_iff, or_false] at hf
    rcases hf with hf | hf | hf | hf | hf | hf | hf | hf | hf | hf | hf | hf | hf | hf <;> subst hf <;>
      first | (left; refine ⟨rfl, ?_⟩; simp only; omega) | (right; refine ⟨rfl, ?_⟩; simp only; omega)
  have r0 := field_read' d frb _ hrec 0 2 (h.nameIdx) rfl (hok _ (by simp [recFields])) 0 (by simp [widths, recFields]) ((frb : Int) + 0) rfl
  have r1 := field_read' d frb _ hrec 1 2 (0xffff) rfl (hok _ (by simp [recFields])) 2 (by simp [widths, recFields]) ((frb : Int) + 2) rfl
  have r2 := field_read' d frb _ hrec 2 4 (h.code.length) rfl (hok _ (by simp [recFields])) 4 (by simp [widths, recFields]) ((frb : Int) + 4) rfl
  have r3 := field_read' d frb _ hrec 3 4 (off) rfl (hok _ (by simp [recFields])) 8 (by simp [widths, recFields]) ((frb : Int) + 8) rfl
  have r4 := field_read' d frb _ hrec 4 2 (h.args.length) rfl (hok _ (by simp [recFields])) 12 (by simp [widths, recFields]) ((frb : Int) + 12) rfl
  have r5 := field_read' d frb _ hrec 5 4 (off + (padEven h.code).length) rfl (hok _ (by simp [recFields])) 14 (by simp [widths, recFields]) ((frb : Int) + 14) rfl
  have r6 := field_read' d frb _ hrec 6 2 (h.locals.length) rfl (hok _ (by simp [recFields])) 18 (by simp [widths, recFields]) ((frb : Int) + 18) rfl
  have r7 := field_read' d frb _ hrec 7 4 (off + (padEven h.code).length + 2 * h.args.length) rfl (hok _ (by simp [recFields])) 20 (by simp [widths, recFields]) ((frb : Int) + 20) rfl
  have r8 := field_read' d frb _ hrec 8 2 (h.globals.length) rfl (hok _ (by simp [recFields])) 24 (by simp [widths, recFields]) ((frb : Int) + 24) rfl
  have r9 := field_read' d frb _ hrec 9 4 (off + (padEven h.code).length + 2 * h.args.length + 2 * h.locals.length) rfl (hok _ (by simp [recFields])) 26 (by simp [widths, recFields]) ((frb : Int) + 26) rfl
  have r10 := field_read' d frb _ hrec 10 4 (0) rfl (hok _ (by simp [recFields])) 30 (by simp [widths, recFields]) ((frb : Int) + 30) rfl
  have r11 := field_read' d frb _ hrec 11 2 (0) rfl (hok _ (by simp [recFields])) 34 (by simp [widths, recFields]) ((frb : Int) + 34) rfl
  have r12 := field_read' d frb _ hrec 12 2 (0) rfl (hok _ (by simp [recFields])) 36 (by simp [widths, recFields]) ((frb : Int) + 36) rfl
  have r13 := field_read' d frb _ hrec 13 4 (off + (padEven h.code).length + 2 * h.args.length + 2 * h.locals.length + 2 * h.globals.length) rfl (hok _ (by simp [recFields])) 38 (by simp [widths, recFields]) ((frb : Int) + 38) rfl
  have e0 : (frb : Int) + 0 = (frb : Int) := by omega
  rw [e0] at r0
  have hb1 : CodeAt d (off + (padEven h.code).length) (h.args.flatMap be16) := by
    have : CodeAt d off (padEven h.code ++ h.args.flatMap be16 ++ (h.locals.flatMap be16 ++ h.globals.flatMap be16)) := by
      simpa [blockBytes, List.append_assoc] using hblk
    exact this.sub
  have hb2 : CodeAt d (off + (padEven h.code).length + 2 * h.args.length) (h.locals.flatMap be16) := by
    have : CodeAt d off ((padEven h.code ++ h.args.flatMap be16) ++ h.locals.flatMap be16 ++ h.globals.flatMap be16) := by
      simpa [blockBytes, List.append_assoc] using hblk
    have := this.sub
    rw [List.length_append, flatMap_be16_length, ← Nat.add_assoc] at this
    exact this
  obtain ⟨locals, hl, hleavesL⟩ := localNames_ok ctx0 d (off + (padEven h.code).length + 2 * h.args.length) h.locals lnames 0 hlocs (by simpa using hb2)
  obtain ⟨params, hp, hleavesP⟩ := paramNames_ok ctx0 d (off + (padEven h.code).length) h.args pnames 0 hargs (by simpa using hb1)
  have hb3 : CodeAt d (off + (padEven h.code).length + 2 * h.args.length + 2 * h.locals.length) (h.globals.flatMap be16) := by
    have hb : CodeAt d off ((padEven h.code ++ h.args.flatMap be16 ++ h.locals.flatMap be16) ++ h.globals.flatMap be16) := hblk
    have := hb.right
    rw [List.length_append, List.length_append, flatMap_be16_length, flatMap_be16_length] at this
    simpa [Nat.add_assoc] using this
  obtain ⟨globals, hg, hleavesG⟩ := handlerGlobals_ok ctx0 d (off + (padEven h.code).length + 2 * h.args.length + 2 * h.locals.length)
    h.globals gnames 0 [] [] hglob (by simpa using hgnd) All2.nil (by simpa using hb3)
  refine ⟨locals, params, globals, ?_, hleavesL, hleavesP, hleavesG⟩
  unfold readFrb
  simp only [r0, r1, r2, r3, r4, r5, r6, r7, r8, r9, r10, r11, r12, r13, bind, Except.bind, pure, Except.pure]
  have t1 : toSigned (8 * 2) h.locals.length = (h.locals.length : Int) := toSigned16_small _ (by omega)
  have t2 : toSigned (8 * 2) h.args.length = (h.args.length : Int) := toSigned16_small _ (by omega)
  have t3 : toSigned (8 * 2) h.globals.length = (h.globals.length : Int) := toSigned16_small _ (by omega)
  have t9 : toSigned (8 * 4) (off + (padEven h.code).length + 2 * h.args.length + 2 * h.locals.length) = ((off + (padEven h.code).length + 2 * h.args.length + 2 * h.locals.length : Nat) : Int) :=
    toSigned32_small _ (by omega)
  have t4 : toSigned (8 * 4) (off + (padEven h.code).length + 2 * h.args.length) = ((off + (padEven h.code).length + 2 * h.args.length : Nat) : Int) :=
    toSigned32_small _ (by omega)
  have t5 : toSigned (8 * 4) (off + (padEven h.code).length) = ((off + (padEven h.code).length : Nat) : Int) := toSigned32_small _ (by omega)
  have t6 : toSigned (8 * 2) h.nameIdx = (h.nameIdx : Int) := toSigned16_small _ hni
  have t7 : toSigned (8 * 4) h.code.length = (h.code.length : Int) := toSigned32_small _ (by omega)
  have t8 : toSigned (8 * 4) off = (off : Int) := toSigned32_small _ (by omega)
  have hguard : ¬ (dcl0 + (h.code.length + 2 * (h.locals.length + h.args.length + h.globals.length)) > d.length) := by
    have := hblk.le
    have := hw_le_block h
    simp only [hw] at this
    omega
  simp only [t1, t2, t3, t4, t5, t6, t7, t8, t9, Int.toNat_natCast, hguard, if_false, hl, hp, hg, List.nil_append, nameOr_some _ _ _ hname, hw]

/-! ### constant records -/

theorem Lay.at_cdata (L : Lay) : CodeAt L.bytes L.conOff L.cdata :=
  ⟨encFs L.fields ++ L.blocks ++ L.props.flatMap be16 ++ L.globs.flatMap be16 ++ L.records ++ L.crecs, [], by simp [Lay.bytes],
    by simp only [List.length_append, hdr_length, flatMap_be16_length, Lay.prbOff, Lay.grbOff, Lay.frbOff, Lay.crbOff, Lay.conOff,
      Lay.crecs, constRecords_fst_length]⟩

theorem plainStr_spec (s : Spec.Name) (h : plainStrB s = true) : s ≠ [] ∧ ∀ c ∈ s, plainCharB c = true := by
  simp only [plainStrB, Bool.and_eq_true, Bool.not_eq_true', List.all_eq_true] at h
  refine ⟨?_, h.2⟩
  intro e; subst e; simp at h

theorem plain_ascii (s : Spec.Name) (h : ∀ c ∈ s, plainCharB c = true) : asciiName s = true := by
  simp only [asciiName, List.all_eq_true, decide_eq_true_eq]
  intro c hc
  have := h c hc
  simp only [plainCharB, Bool.and_eq_true, decide_eq_true_eq] at this
  omega

theorem padEven_length (b : Bytes) : (padEven b).length = b.length + b.length % 2 := by
  unfold padEven; split <;> simp <;> omega

/-- `parse_lrcr_crb` over the records of covered constants: record table at `a`, out-of-line data (strings) at `conOff + off` -/
theorem crbLoop_good (d : Bytes) (conOff : Nat) : ∀ (cs : List Spec.Const) (a off : Nat) (acc : List Lscr.Name) (dcl : Nat),
    (∀ c ∈ cs, GoodConst c) →
    CodeAt d a (constRecords cs off).1 → CodeAt d (conOff + off) (constRecords cs off).2 → d.length < 32768 → dcl ≤ off →
    ∃ dcl', crbLoop .macRoman d (conOff : Int) cs.length { idx := (a : Int), bpc := 6, acc := acc, declared := dcl }
      = .ok { idx := ((a + 6 * cs.length : Nat) : Int), bpc := 6, acc := acc ++ cs.map constName, declared := dcl' }
  | [], a, off, acc, dcl, _, _, _, _, _ => ⟨dcl, by simp [crbLoop]⟩
  | c :: cs, a, off, acc, dcl, h, hc, hdat, hsz, hdcl => by
    have hg := h c (by simp)
    have n8 : ¬ (6 = 8) := by omega
    have e6 : (a : Int) + 2 + 4 = ((a + 6 : Nat) : Int) := by omega
    have e7 : a + 6 + 6 * cs.length = a + 6 * (cs.length + 1) := by omega
    cases c with
    | float x y => exact absurd hg (by simp [GoodConst])
    | int n =>
      have hn : n < 2147483648 := hg
      have e1 : (Spec.Const.int n).data = [] := rfl
      simp only [constRecords, e1, List.nil_append, List.length_nil, Nat.add_zero, Const.record] at hc hdat
      have h1 : CodeAt d a (be16 4) := by
        have : CodeAt d a (be16 4 ++ (be32 n ++ (constRecords cs off).1)) := by rw [← List.append_assoc]; exact hc
        exact this.left
      have h2 : CodeAt d (a + 2) (be32 n) := by
        have := hc.sub
        rwa [be16_length] at this
      have h3 : CodeAt d (a + 6) (constRecords cs off).1 := by
        have := hc.right
        rwa [List.length_append, be16_length, be32_length] at this
      have r1 : Lscr.getSI 2 d (a : Int) = .ok 4 := by rw [getSI_be16 d a 4 h1 (by omega)]; rfl
      have r2 : Lscr.getSI 4 d ((a : Int) + 2) = .ok (n : Int) := by
        have e : (a : Int) + 2 = ((a + 2 : Nat) : Int) := by omega
        rw [e, getSI_be32 d (a + 2) n h2 (by omega), toSigned32_small n hn]
      obtain ⟨dcl', ih⟩ := crbLoop_good d conOff cs (a + 6) off (acc ++ [constName (.int n)]) dcl (fun x hx => h x (by simp [hx])) h3 hdat hsz hdcl
      refine ⟨dcl', ?_⟩
      simp only [List.length_cons, crbLoop, crbStep]
      have n0 : ¬ ((4 : Int) = 0) := by omega
      have n1 : ¬ ((4 : Int) = 1) := by omega
      simp only [n8, if_false, r1, bind, Except.bind, n0, pure, Except.pure, r2, n1, if_true]
      rw [e6]
      have : intStr ((n : Nat) : Int) = natStr n := rfl
      simp only [this]
      rw [show (Lscr.Name.s (natStr n)) = constName (.int n) from rfl, ih]
      simp only [e7, List.map_cons, List.append_assoc, List.singleton_append]
    | str v =>
      obtain ⟨hne, hpl⟩ := plainStr_spec v hg
      obtain ⟨D, hD⟩ : ∃ D, D = (Spec.Const.str v).data := ⟨_, rfl⟩
      have hDl : D = be32 (v.length + 1) ++ padEven (nameBytes v ++ [0]) := hD
      simp only [constRecords, Const.record, ← hD] at hc hdat
      have hle := hdat.left.le
      have hnb : (nameBytes v).length = v.length := by simp [nameBytes]
      have hoff : off < 32768 := by omega
      have h1 : CodeAt d a (be16 1) := by
        have : CodeAt d a (be16 1 ++ (be32 off ++ (constRecords cs (off + D.length)).1)) := by
          rw [← List.append_assoc]; exact hc
        exact this.left
      have h2 : CodeAt d (a + 2) (be32 off) := by
        have := hc.sub
        rwa [be16_length] at this
      have h3 : CodeAt d (a + 6) (constRecords cs (off + D.length)).1 := by
        have := hc.right
        rwa [List.length_append, be16_length, be32_length] at this
      have hdD : CodeAt d (conOff + off) (be32 (v.length + 1) ++ padEven (nameBytes v ++ [0])) := by
        have := hdat.left
        rwa [hDl] at this
      have hd1 : CodeAt d (conOff + off) (be32 (v.length + 1)) := hdD.left
      obtain ⟨t, ht⟩ : ∃ t, padEven (nameBytes v ++ [0]) = nameBytes v ++ t := by
        unfold padEven; split
        · exact ⟨[0, 0], by simp⟩
        · exact ⟨[0], rfl⟩
      have hd2 : CodeAt d (conOff + off + 4) (nameBytes v) := by
        have : CodeAt d (conOff + off) (be32 (v.length + 1) ++ nameBytes v ++ t) := by
          rw [ht, ← List.append_assoc] at hdD; exact hdD
        have := this.sub
        rwa [be32_length] at this
      have hd3 : CodeAt d (conOff + (off + D.length)) (constRecords cs (off + D.length)).2 := by
        have := hdat.right
        rwa [Nat.add_assoc] at this
      have r1 : Lscr.getSI 2 d (a : Int) = .ok 1 := by rw [getSI_be16 d a 1 h1 (by omega)]; rfl
      have r2 : Lscr.getSI 4 d ((a : Int) + 2) = .ok (off : Int) := by
        have e : (a : Int) + 2 = ((a + 2 : Nat) : Int) := by omega
        rw [e, getSI_be32 d (a + 2) off h2 (by omega), toSigned32_small off (by omega)]
      have hvl : v.length + 1 < 32768 := by
        rw [hDl] at hle
        simp only [List.length_append, be32_length, padEven_length, List.length_cons, List.length_nil, hnb] at hle
        omega
      have r3 : Lscr.getSI 4 d ((conOff : Int) + (off : Int)) = .ok ((v.length + 1 : Nat) : Int) := by
        have e : (conOff : Int) + (off : Int) = ((conOff + off : Nat) : Int) := by omega
        rw [e, getSI_be32 d _ _ hd1 (by omega), toSigned32_small _ (by omega)]
      have r4 : pySlice d ((conOff : Int) + (off : Int) + 4) ((conOff : Int) + (off : Int) + 4 + (((v.length + 1 : Nat) : Int) - 1)) = nameBytes v := by
        have eb : (conOff : Int) + (off : Int) + 4 + (((v.length + 1 : Nat) : Int) - 1) = ((conOff + off + 4 + v.length : Nat) : Int) := by omega
        have ea : (conOff : Int) + (off : Int) + 4 = ((conOff + off + 4 : Nat) : Int) := by omega
        rw [eb, ea, pySlice_nat, ← hnb]
        exact hd2.slice
      have hDlen : 4 + v.length ≤ D.length := by
        rw [hDl]
        simp only [List.length_append, be32_length, padEven_length, List.length_cons, List.length_nil, hnb]
        omega
      have hguard : ¬ (dcl + (4 + (nameBytes v).length) > d.length) := by
        rw [hnb]
        omega
      obtain ⟨dcl', ih⟩ := crbLoop_good d conOff cs (a + 6) (off + D.length) (acc ++ [constName (.str v)])
        (dcl + (4 + (nameBytes v).length))
        (fun x hx => h x (by simp [hx])) h3 hd3 hsz (by
          rw [hnb]; omega)
      refine ⟨dcl', ?_⟩
      simp only [List.length_cons, crbLoop, crbStep]
      have n0 : ¬ ((1 : Int) = 0) := by omega
      simp only [n8, if_false, r1, bind, Except.bind, n0, pure, Except.pure, r2, if_true, r3, hguard, r4, decodeText_ascii v (plain_ascii v hpl)]
      rw [e6, show (Lscr.Name.s (escapeString v)) = constName (.str v) from rfl, ih]
      simp only [e7, List.map_cons, List.append_assoc, List.singleton_append]

theorem parseCrb_good (d : Bytes) (cs : List Spec.Const) (a conOff : Nat) (h : ∀ c ∈ cs, GoodConst c)
    (hc : CodeAt d a (constRecords cs 0).1) (hdat : CodeAt d conOff (constRecords cs 0).2) (hsz : d.length < 32768) :
    parseCrb .macRoman d (a : Int) (conOff : Int) (cs.length : Int) = .ok (cs.map constName, 6) := by
  unfold parseCrb
  obtain ⟨dcl', hl⟩ := crbLoop_good d conOff cs a 0 [] 0 h hc (by simpa using hdat) hsz (Nat.le_refl 0)
  simp only [Int.toNat_natCast, hl, bind, Except.bind, pure, Except.pure, List.nil_append]

/-! ### the name table chunk -/

theorem lnamLoop_ok (d : Bytes) : ∀ (ns : List Spec.Name) (a : Nat), (∀ n ∈ ns, asciiName n = true ∧ n.length < 256) →
    CodeAt d a (ns.flatMap fun n => UInt8.ofNat n.length :: nameBytes n) → lnamLoop .macRoman d ns.length a = .ok ns
  | [], _, _, _ => rfl
  | n :: ns, a, h, hc => by
    obtain ⟨hasc, hlen⟩ := h n (by simp)
    simp only [List.flatMap_cons] at hc
    have hb : Lscr.byteAtI d (a : Int) = .ok n.length := by
      have : CodeAt d a (UInt8.ofNat n.length :: (nameBytes n ++ (ns.flatMap fun n => UInt8.ofNat n.length :: nameBytes n))) := by
        simpa using hc
      have := this.byte
      simpa [UInt8.toNat_ofNat', Nat.mod_eq_of_lt hlen] using this
    have hnb : (nameBytes n).length = n.length := by simp [nameBytes]
    have hs : Drx.slice d (a + 1) (a + 1 + n.length) = nameBytes n := by
      have : CodeAt d a ([UInt8.ofNat n.length] ++ nameBytes n ++ (ns.flatMap fun n => UInt8.ofNat n.length :: nameBytes n)) := by
        simpa using hc
      have := this.sub.slice
      simpa [hnb] using this
    have hrest : CodeAt d (a + 1 + n.length) (ns.flatMap fun n => UInt8.ofNat n.length :: nameBytes n) := by
      have := hc.right
      rw [List.length_cons, hnb] at this
      have e : a + (n.length + 1) = a + 1 + n.length := by omega
      rwa [e] at this
    have ih := lnamLoop_ok d ns (a + 1 + n.length) (fun x hx => h x (by simp [hx])) hrest
    simp only [List.length_cons, lnamLoop, hb, bind, Except.bind, hs, decodeText_ascii n hasc, ih, pure, Except.pure]

theorem parseLnam_ok (names : List Spec.Name) (hn : ∀ n ∈ names, asciiName n = true ∧ n.length < 256) (hl : names.length < 32768)
    (hsz : 20 + (names.flatMap fun n => UInt8.ofNat n.length :: nameBytes n).length < 2147483648) :
    parseLnam .macRoman (lnamBytes names) = .ok names := by
  let body := names.flatMap fun n => UInt8.ofNat n.length :: nameBytes n
  let size := 20 + body.length
  let fs : List (Nat × Nat) := [(4, 0), (4, 0), (4, size), (4, size), (2, 0x14), (2, names.length)]
  have hd : lnamBytes names = encFs fs ++ body := by simp [lnamBytes, encFs, encF, fs, body, size]
  have hc : CodeAt (lnamBytes names) 0 (encFs fs) := ⟨[], body, by simp [hd], rfl⟩
  have hok : ∀ f ∈ fs, FieldOk f := by
    intro f hf
    simp only [fs, List.mem_cons, List.mem_nil_iff, or_false] at hf
    rcases hf with hf | hf | hf | hf | hf | hf <;> subst hf <;>
      first | (left; refine ⟨rfl, ?_⟩; simp only; omega) | (right; refine ⟨rfl, ?_⟩; simp only [size, body]; omega)
  have r0 := field_read' _ 0 _ hc 0 4 0 rfl (hok _ (by simp [fs])) 0 (by simp [widths, fs]) 0 rfl
  have r1 := field_read' _ 0 _ hc 1 4 0 rfl (hok _ (by simp [fs])) 4 (by simp [widths, fs]) 4 rfl
  have r2 := field_read' _ 0 _ hc 2 4 size rfl (hok _ (by simp [fs])) 8 (by simp [widths, fs]) 8 rfl
  have r3 := field_read' _ 0 _ hc 3 4 size rfl (hok _ (by simp [fs])) 12 (by simp [widths, fs]) 12 rfl
  have r4 := field_read' _ 0 _ hc 4 2 0x14 rfl (hok _ (by simp [fs])) 16 (by simp [widths, fs]) 16 rfl
  have r5 := field_read' _ 0 _ hc 5 2 names.length rfl (hok _ (by simp [fs])) 18 (by simp [widths, fs]) 18 rfl
  have hbody : CodeAt (lnamBytes names) 20 body := ⟨encFs fs, [], by simp [hd], by rw [encFs_length]; simp [widths, fs]⟩
  unfold parseLnam
  simp only [r0, r1, r2, r3, r4, r5, bind, Except.bind, pure, Except.pure]
  have hne : ¬ (toSigned (8 * 4) size ≠ toSigned (8 * 4) size) := by simp
  have t : toSigned (8 * 2) names.length = (names.length : Int) := toSigned16_small _ hl
  simp only [hne, if_false, t, Int.toNat_natCast]
  exact lnamLoop_ok _ names 20 hn hbody

end Drx.Link
