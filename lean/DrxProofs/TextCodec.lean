/-
  Facts about the generated codec tables (lean/Drx/Gen/Codecs.lean, dumped from CPython every run) used by C16/C17:
  complete 256-entry tables by `decide +kernel`, and "one character per byte" for the table codecs.
-/
import Drx.Codec
import DrxProofs.Py
namespace Drx

theorem latin1_table : ∀ n : Nat, n < 256 → decodeByte .latin1 (UInt8.ofNat n) = some (Char.ofNat n) := by decide +kernel

theorem ascii_table : ∀ n : Nat, n < 256 →
    decodeByte .ascii (UInt8.ofNat n) = if n < 128 then some (Char.ofNat n) else none := by decide +kernel

theorem low_half_table : ∀ n : Nat, n < 128 →
    decodeByte .macRoman (UInt8.ofNat n) = some (Char.ofNat n) ∧ decodeByte .cp1252 (UInt8.ofNat n) = some (Char.ofNat n) := by decide +kernel

theorem macRoman_total_table : ∀ n : Nat, n < 256 → (decodeByte .macRoman (UInt8.ofNat n)).isSome = true := by decide +kernel

set_option maxRecDepth 8000 in
theorem decodeText_table_length (c : Codec) (hc : c ≠ .utf8) (bs : Bytes) (t : List Char) (h : decodeText c bs = .ok t) :
    t.length = bs.length := by
  have : decodeText c bs = bs.mapM fun b => match decodeByte c b with | some ch => Except.ok ch | none => Except.error Err.unicode := by
    cases c <;> first | (exact absurd rfl hc) | (simp only [decodeText]; rfl)
  rw [this] at h
  clear this
  induction bs generalizing t with
  | nil => simp [List.mapM_nil, pure, Except.pure] at h; subst h; rfl
  | cons b bs ih =>
    rw [List.mapM_cons] at h
    cases hb : decodeByte c b with
    | none => simp [hb, bind, Except.bind] at h
    | some ch =>
      simp only [hb, bind, Except.bind] at h
      cases hr : List.mapM (fun b => match decodeByte c b with | some ch => Except.ok ch | none => Except.error Err.unicode) bs with
      | error e => simp [hr] at h
      | ok r =>
        simp only [hr, pure, Except.pure, Except.ok.injEq] at h
        subst h
        simp [ih r hr]

end Drx
