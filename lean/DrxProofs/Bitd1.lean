/-
  C06, 1 bit per pixel: bits of a byte, the PackBits loop and the raw loop of decoder1b.py.
-/
import DrxProofs.Bitd8Top
namespace Drx.Bitd
open Drx Drx.Bitd.Spec

/-- the eight pixel bytes a data byte is painted as, most significant bit first -/
def bitsOf (v : UInt8) : Bytes := [bitOf v 0, bitOf v 1, bitOf v 2, bitOf v 3, bitOf v 4, bitOf v 5, bitOf v 6, bitOf v 7]

def bitsOfBytes (bs : Bytes) : Bytes := bs.flatMap bitsOf

@[simp] theorem bitsOf_length (v : UInt8) : (bitsOf v).length = 8 := rfl

theorem bitsOfBytes_length (bs : Bytes) : (bitsOfBytes bs).length = 8 * bs.length := by
  induction bs with
  | nil => rfl
  | cons v bs ih => simp [bitsOfBytes, List.flatMap_cons] at ih ⊢; omega

theorem bitsOfBytes_cons (v : UInt8) (bs : Bytes) : bitsOfBytes (v :: bs) = bitsOf v ++ bitsOfBytes bs := by
  simp [bitsOfBytes]

theorem bitsOfBytes_append (a b : Bytes) : bitsOfBytes (a ++ b) = bitsOfBytes a ++ bitsOfBytes b := by
  simp [bitsOfBytes]

/-- the pixel byte of a source pixel -/
def pxByte (b : Bool) : UInt8 := UInt8.ofNat (bit b)

def byteOf8 (c0 c1 c2 c3 c4 c5 c6 c7 : Bool) : UInt8 :=
  UInt8.ofNat (((((((((0 * 2 + bit c0) * 2 + bit c1) * 2 + bit c2) * 2 + bit c3) * 2 + bit c4) * 2 + bit c5) * 2 + bit c6) * 2 + bit c7))

theorem bitsOf_byteOf8 (c0 c1 c2 c3 c4 c5 c6 c7 : Bool) :
    bitsOf (byteOf8 c0 c1 c2 c3 c4 c5 c6 c7) = [pxByte c0, pxByte c1, pxByte c2, pxByte c3, pxByte c4, pxByte c5, pxByte c6, pxByte c7] := by
  cases c0 <;> cases c1 <;> cases c2 <;> cases c3 <;> cases c4 <;> cases c5 <;> cases c6 <;> cases c7 <;> decide

theorem byteOfBits_eq (p : UInt8) (bs : List Bool) :
    byteOfBits p bs = byteOf8 (bs.getD 0 (padBit p 0)) (bs.getD 1 (padBit p 1)) (bs.getD 2 (padBit p 2)) (bs.getD 3 (padBit p 3))
      (bs.getD 4 (padBit p 4)) (bs.getD 5 (padBit p 5)) (bs.getD 6 (padBit p 6)) (bs.getD 7 (padBit p 7)) := by
  unfold byteOfBits byteOf8
  simp [List.range, List.range.loop]

theorem packRow1_prefix (p : UInt8) (r : List Bool) : ∃ t, bitsOfBytes (packRow1 p r) = r.map pxByte ++ t := by
  induction r using packRow1.induct with
  | case1 b0 b1 b2 b3 b4 b5 b6 b7 rest ih =>
    obtain ⟨t, ht⟩ := ih
    refine ⟨t, ?_⟩
    rw [packRow1, bitsOfBytes_cons, ht, byteOfBits_eq, bitsOf_byteOf8]
    simp
  | case2 => exact ⟨[], rfl⟩
  | case3 bs h1 h2 =>
    have hp : packRow1 p bs = [byteOfBits p bs] := by
      rw [packRow1]
      · intro b0 b1 b2 b3 b4 b5 b6 b7 rest h; exact h1 _ _ _ _ _ _ _ _ _ h
      · intro h; exact h2 h
    rw [hp, bitsOfBytes_cons, byteOfBits_eq, bitsOf_byteOf8]
    rcases bs with _ | ⟨a0, _ | ⟨a1, _ | ⟨a2, _ | ⟨a3, _ | ⟨a4, _ | ⟨a5, _ | ⟨a6, _ | ⟨a7, rest⟩⟩⟩⟩⟩⟩⟩⟩
    · exact absurd rfl h2
    all_goals first
      | exact absurd rfl (h1 _ _ _ _ _ _ _ _ _)
      | exact ⟨_, by simp [bitsOfBytes]; rfl⟩

theorem packRow1_length (p : UInt8) (r : List Bool) : (packRow1 p r).length = (r.length + 7) / 8 := by
  induction r using packRow1.induct with
  | case1 b0 b1 b2 b3 b4 b5 b6 b7 rest ih =>
    rw [packRow1]; simp only [List.length_cons, ih]; omega
  | case2 => rfl
  | case3 bs h1 h2 =>
    have hp : packRow1 p bs = [byteOfBits p bs] := by
      rw [packRow1]
      · intro b0 b1 b2 b3 b4 b5 b6 b7 rest h; exact h1 _ _ _ _ _ _ _ _ _ h
      · intro h; exact h2 h
    rw [hp]
    rcases bs with _ | ⟨a0, _ | ⟨a1, _ | ⟨a2, _ | ⟨a3, _ | ⟨a4, _ | ⟨a5, _ | ⟨a6, _ | ⟨a7, rest⟩⟩⟩⟩⟩⟩⟩⟩
    · exact absurd rfl h2
    all_goals first
      | exact absurd rfl (h1 _ _ _ _ _ _ _ _ _)
      | simp

/-! ### painting -/

def buf1 (g : G1) (A B p : Bytes) : Bytes := A ++ rowImg g.stride g.padW g.wImg p ++ B

/-- `for j in range(j, 8)`: the remaining `k` bits of a byte -/
theorem paintBits1_spec (g : G1) (y : Nat) (v : UInt8) (A B : Bytes)
    (hA : A.length = y * g.stride) (hw : g.padW + g.wImg ≤ g.stride) :
    ∀ (k j : Nat) (p : Bytes), j + k = 8 → p.length + k ≤ g.w →
      paintBits1 g y v k j (buf1 g A B p) p.length = .ok (buf1 g A B (p ++ (bitsOf v).drop j), p.length + k) := by
  intro k
  induction k with
  | zero =>
    intro j p hj _
    have : (bitsOf v).drop j = [] := by rw [List.drop_of_length_le]; simp; omega
    simp [paintBits1, this]
  | succ k ih =>
    intro j p hj hp
    unfold paintBits1
    have h1 : ¬ (p.length ≥ g.w) := by omega
    simp only [h1, if_false]
    have hdrop : (bitsOf v).drop j = bitOf v j :: (bitsOf v).drop (j + 1) := by
      have : j = 0 ∨ j = 1 ∨ j = 2 ∨ j = 3 ∨ j = 4 ∨ j = 5 ∨ j = 6 ∨ j = 7 := by omega
      rcases this with rfl | rfl | rfl | rfl | rfl | rfl | rfl | rfl <;> rfl
    have hfin : buf1 g A B (p ++ [bitOf v j] ++ (bitsOf v).drop (j + 1)) = buf1 g A B (p ++ (bitsOf v).drop j) := by
      rw [hdrop]; simp
    by_cases hx : p.length < g.wImg
    · simp only [hx, if_true]
      have e : y * g.stride + p.length + g.padW = A.length + p.length + g.padW := by omega
      rw [e]
      unfold buf1
      rw [setAt_rowImg A B g.stride g.padW g.wImg p (bitOf v j) hx hw]
      have := ih (j + 1) (p ++ [bitOf v j]) (by omega) (by simp; omega)
      unfold buf1 at this hfin
      simp only [List.length_append, List.length_singleton] at this
      simp only [this, hfin]
      simp [Nat.add_assoc, Nat.add_comm 1]
    · simp only [hx, if_false]
      have := ih (j + 1) (p ++ [bitOf v j]) (by omega) (by simp; omega)
      unfold buf1 at this hfin ⊢
      rw [rowImg_snoc_ge _ _ _ _ _ (by omega)] at this
      simp only [List.length_append, List.length_singleton] at this
      simp only [this, hfin]
      simp [Nat.add_assoc, Nat.add_comm 1]

/-- one whole byte -/
theorem paintByte1_spec (g : G1) (y : Nat) (v : UInt8) (A B : Bytes)
    (hA : A.length = y * g.stride) (hw : g.padW + g.wImg ≤ g.stride) (p : Bytes) (hp : p.length + 8 ≤ g.w) :
    paintBits1 g y v 8 0 (buf1 g A B p) p.length = .ok (buf1 g A B (p ++ bitsOf v), p.length + 8) := by
  have := paintBits1_spec g y v A B hA hw 8 0 p rfl hp
  simpa using this

theorem paintRun1_spec (g : G1) (y : Nat) (v : UInt8) (A B : Bytes)
    (hA : A.length = y * g.stride) (hw : g.padW + g.wImg ≤ g.stride) :
    ∀ (n : Nat) (p : Bytes), p.length + 8 * n ≤ g.w →
      paintRun1 g y v n (buf1 g A B p) p.length = .ok (buf1 g A B (p ++ bitsOfBytes (List.replicate n v)), p.length + 8 * n) := by
  intro n
  induction n with
  | zero => intro p _; simp [paintRun1, bitsOfBytes]
  | succ n ih =>
    intro p hp
    unfold paintRun1
    rw [paintByte1_spec g y v A B hA hw p (by omega)]
    simp only
    have := ih (p ++ bitsOf v) (by simp; omega)
    simp only [List.length_append, bitsOf_length] at this
    rw [this]
    simp only [List.replicate_succ, bitsOfBytes_cons, List.append_assoc]
    congr 2; omega

theorem paintLit1_spec (g : G1) (y : Nat) (A B : Bytes)
    (hA : A.length = y * g.stride) (hw : g.padW + g.wImg ≤ g.stride) :
    ∀ (bs p rest : Bytes), p.length + 8 * bs.length ≤ g.w →
      paintLit1 g y bs.length (bs ++ rest) (buf1 g A B p) p.length
        = .ok (buf1 g A B (p ++ bitsOfBytes bs), p.length + 8 * bs.length, rest) := by
  intro bs
  induction bs with
  | nil => intro p rest _; simp [paintLit1, bitsOfBytes]
  | cons v bs ih =>
    intro p rest hp
    simp only [List.length_cons] at hp ⊢
    unfold paintLit1
    simp only [List.cons_append]
    rw [paintByte1_spec g y v A B hA hw p (by omega)]
    simp only
    have := ih (p ++ bitsOf v) rest (by simp; omega)
    simp only [List.length_append, bitsOf_length] at this
    rw [this]
    simp only [bitsOfBytes_cons, List.append_assoc]
    congr 2; congr 1; omega

/-! ### the PackBits loop -/

def next1 (g : G1) (rest data : Bytes) (x y : Nat) : R Bytes :=
  if x ≥ g.w then (if y = 0 then .ok data else loop1 g rest data 0 (y - 1)) else loop1 g rest data x y

theorem loop1_run (g : G1) (n : Nat) (v : UInt8) (rest data : Bytes) (x y : Nat) (h2 : 2 ≤ n) (h128 : n ≤ 128) :
    loop1 g ((Op.run n v).bytes ++ rest) data x y =
      match paintRun1 g y v n data x with
      | .error e => .error e
      | .ok (data, x) => next1 g rest data x y := by
  have e1 : (UInt8.ofNat (257 - n)).toNat = 257 - n := by
    simp only [UInt8.toNat_ofNat']; omega
  simp only [Op.bytes, List.cons_append, List.nil_append]
  rw [loop1]
  have e2 : (257 - n ≥ 128) := by omega
  have e3 : 257 - (257 - n) = n := by omega
  simp only [e1, e2, e3, if_true, next1]
  cases paintRun1 g y v n data x <;> rfl

theorem loop1_lit (g : G1) (bs : Bytes) (rest data : Bytes) (x y : Nat) (h1 : 1 ≤ bs.length) (h128 : bs.length ≤ 128) :
    loop1 g ((Op.lit bs).bytes ++ rest) data x y =
      match paintLit1 g y bs.length (bs ++ rest) data x with
      | .error e => .error e
      | .ok (data, x, r2) => next1 g r2 data x y := by
  have e1 : (UInt8.ofNat (bs.length - 1)).toNat = bs.length - 1 := by
    simp only [UInt8.toNat_ofNat']; omega
  simp only [Op.bytes, List.cons_append]
  rw [loop1.eq_def]
  have e2 : ¬ (bs.length - 1 ≥ 128) := by omega
  have e3 : bs.length - 1 + 1 = bs.length := by omega
  have e4 : ¬ (bs.length > (bs ++ rest).length) := by simp
  simp only [e1, e2, e3, e4, if_false, next1]
  split <;> rename_i heq <;> rw [e1, e3] at heq <;> simp only [heq]

theorem loop1_op (g : G1) (y : Nat) (A B : Bytes) (hA : A.length = y * g.stride) (hw : g.padW + g.wImg ≤ g.stride)
    (o : Op) (hv : o.valid = true) (p rest : Bytes) (hp : p.length + 8 * o.expand.length ≤ g.w) :
    loop1 g (o.bytes ++ rest) (buf1 g A B p) p.length y
      = next1 g rest (buf1 g A B (p ++ bitsOfBytes o.expand)) (p.length + 8 * o.expand.length) y := by
  cases o with
  | lit bs =>
    simp only [Op.valid, Bool.and_eq_true, decide_eq_true_eq] at hv
    rw [loop1_lit g bs rest _ _ _ hv.1 hv.2]
    simp only [Op.expand] at hp ⊢
    rw [paintLit1_spec g y A B hA hw bs p rest hp]
  | run n v =>
    simp only [Op.valid, Bool.and_eq_true, decide_eq_true_eq] at hv
    rw [loop1_run g n v rest _ _ _ hv.1 hv.2]
    simp only [Op.expand, List.length_replicate] at hp ⊢
    rw [paintRun1_spec g y v A B hA hw n p hp]

theorem loop1_ops (g : G1) (y : Nat) (A B : Bytes) (hA : A.length = y * g.stride) (hw : g.padW + g.wImg ≤ g.stride) (rest : Bytes) :
    ∀ (ops : List Op) (p : Bytes), (∀ o ∈ ops, o.valid = true) → ops ≠ [] → p.length + 8 * (unpack ops).length = g.w →
      loop1 g (packed ops ++ rest) (buf1 g A B p) p.length y =
        (if y = 0 then .ok (buf1 g A B (p ++ bitsOfBytes (unpack ops)))
         else loop1 g rest (buf1 g A B (p ++ bitsOfBytes (unpack ops))) 0 (y - 1)) := by
  intro ops
  induction ops with
  | nil => intro p _ h; exact absurd rfl h
  | cons o os ih =>
    intro p hv _ hlen
    have hvo := hv o (by simp)
    have hvos : ∀ o' ∈ os, o'.valid = true := fun o' h => hv o' (by simp [h])
    simp only [unpack, packed, List.flatMap_cons, List.length_append, List.append_assoc] at hlen ⊢
    rw [loop1_op g y A B hA hw o hvo p _ (by omega)]
    have hpos := expand_length_pos o hvo
    cases os with
    | nil =>
      simp only [List.flatMap_nil, List.length_nil, Nat.add_zero, List.nil_append, List.append_nil] at hlen ⊢
      unfold next1
      have : p.length + 8 * o.expand.length ≥ g.w := by omega
      simp only [this, if_true]
    | cons o2 os2 =>
      have hpos2 := expand_length_pos o2 (hvos o2 (by simp))
      have hlt : ¬ (p.length + 8 * o.expand.length ≥ g.w) := by
        simp only [List.flatMap_cons, List.length_append] at hlen; omega
      unfold next1
      simp only [hlt, if_false]
      have := ih (p ++ bitsOfBytes o.expand) hvos (by simp) (by
        simp only [unpack, List.length_append, bitsOfBytes_length]; omega)
      simp only [List.length_append, bitsOfBytes_length, unpack, packed] at this
      rw [this]
      simp [List.append_assoc, bitsOfBytes_append]

theorem loop1_rows (g : G1) (hw : g.padW + g.wImg ≤ g.stride) (hpos : 0 < g.w) (rest : Bytes) :
    ∀ (opsRows : List (List Op)) (rows : List Bytes) (y : Nat) (B : Bytes),
      validRows opsRows rows = true → rows.length = y + 1 → (∀ r ∈ rows, 8 * r.length = g.w) →
      loop1 g (packed opsRows.flatten ++ rest) (zeros ((y + 1) * g.stride) ++ B) 0 y
        = .ok ((rows.reverse.map fun r => rowImg g.stride g.padW g.wImg (bitsOfBytes r)).flatten ++ B) := by
  intro opsRows
  induction opsRows with
  | nil =>
    intro rows y B hv hl _
    cases rows with
    | nil => simp at hl
    | cons r rs => simp [validRows] at hv
  | cons ops os ih =>
    intro rows y B hv hl hlen
    cases rows with
    | nil => simp [validRows] at hv
    | cons r rs =>
      simp only [validRows, Bool.and_eq_true, List.all_eq_true, beq_iff_eq] at hv
      obtain ⟨⟨hvo, hun⟩, hvr⟩ := hv
      have hr : 8 * r.length = g.w := hlen r (by simp)
      have hne : ops ≠ [] := by
        intro h; subst h; simp [unpack] at hun; subst hun; simp at hr; omega
      have hz : zeros ((y + 1) * g.stride) = zeros (y * g.stride) ++ rowImg g.stride g.padW g.wImg [] := by
        rw [rowImg_nil _ _ _ (by omega), ← zeros_add]; congr 1; rw [Nat.add_mul]; simp
      have hstep := loop1_ops g y (zeros (y * g.stride)) B (by simp) hw (packed os.flatten ++ rest) ops []
        hvo hne (by simp [hun, hr])
      simp only [buf1, List.nil_append, List.length_nil] at hstep
      simp only [List.flatten_cons, packed, List.flatMap_append, List.append_assoc] at hstep ⊢
      rw [hz]
      simp only [List.append_assoc]
      rw [hstep, hun]
      by_cases hy : y = 0
      · subst hy
        have : rs = [] := by
          simp at hl; exact hl
        subst this
        simp [zeros_zero]
      · simp only [hy, if_false]
        obtain ⟨y', rfl⟩ : ∃ y', y = y' + 1 := ⟨y - 1, by omega⟩
        have hl' : rs.length = y' + 1 := by simp at hl; omega
        have := ih rs y' (rowImg g.stride g.padW g.wImg (bitsOfBytes r) ++ B) hvr hl' (fun r' h => hlen r' (by simp [h]))
        simp only [packed, Nat.add_sub_cancel] at this ⊢
        rw [this]
        simp [List.append_assoc]

/-! ### the raw path -/

theorem bitsOf_getElem (v : UInt8) (j : Nat) (h : j < 8) : (bitsOf v)[j]'(by simpa using h) = bitOf v j := by
  have : j = 0 ∨ j = 1 ∨ j = 2 ∨ j = 3 ∨ j = 4 ∨ j = 5 ∨ j = 6 ∨ j = 7 := by omega
  rcases this with rfl | rfl | rfl | rfl | rfl | rfl | rfl | rfl <;> rfl

theorem copyBits1_spec (fdata A B : Bytes) (stride ox w : Nat) (hw : ox + w ≤ stride) :
    ∀ (n j : Nat) (p : Bytes) (idx : Nat), j < 8 → j + n ≤ 8 * (fdata.length - idx) → p.length + n ≤ w →
      copyBits1 fdata n j (A ++ rowImg stride ox w p ++ B) (A.length + ox + p.length) idx
        = .ok (A ++ rowImg stride ox w (p ++ ((bitsOfBytes (fdata.drop idx)).drop j).take n) ++ B, A.length + ox + (p.length + n)) := by
  intro n
  induction n with
  | zero => intro j p idx _ _ _; simp [copyBits1]
  | succ n ih =>
    intro j p idx hj hlen hp
    have hidx : idx < fdata.length := by omega
    obtain ⟨v, t, hvt⟩ : ∃ v t, fdata.drop idx = v :: t := by
      cases h : fdata.drop idx with
      | nil => have := congrArg List.length h; simp at this; omega
      | cons v t => exact ⟨v, t, rfl⟩
    unfold copyBits1
    rw [byteAt_of_drop fdata idx v t hvt]
    have e : A.length + ox + p.length = A.length + p.length + ox := by omega
    simp only [e]
    rw [setAt_rowImg A B stride ox w p (bitOf v j) (by omega) hw]
    simp only
    have hstream : ((bitsOfBytes (fdata.drop idx)).drop j).take (n + 1)
        = bitOf v j :: ((bitsOfBytes (fdata.drop idx)).drop (j + 1)).take n := by
      rw [hvt, bitsOfBytes_cons]
      have hjl : j < (bitsOf v ++ bitsOfBytes t).length := by simp; omega
      rw [List.drop_eq_getElem_cons hjl, List.take_succ_cons]
      congr 1
      rw [List.getElem_append_left (by simpa using hj)]
      exact bitsOf_getElem v j hj
    have e2 : A.length + p.length + ox + 1 = A.length + ox + (p ++ [bitOf v j]).length := by simp; omega
    by_cases h7 : j = 7
    · subst h7
      simp only [if_true]
      rw [e2, ih 0 (p ++ [bitOf v 7]) (idx + 1) (by omega) (by omega) (by simp; omega)]
      rw [hstream]
      have hd : (bitsOfBytes (fdata.drop idx)).drop (7 + 1) = bitsOfBytes (fdata.drop (idx + 1)) := by
        rw [hvt, bitsOfBytes_cons, drop_succ_of_drop fdata idx v t hvt]
        rw [List.drop_append]; simp
      rw [hd]
      simp [List.append_assoc, Nat.add_assoc, Nat.add_comm 1]
    · simp only [h7, if_false]
      rw [e2, ih (j + 1) (p ++ [bitOf v j]) idx (by omega) (by omega) (by simp; omega)]
      rw [hstream]
      simp [List.append_assoc, Nat.add_assoc, Nat.add_comm 1]

theorem rawLoop1_spec (rows : List Bytes) (stride ox w wSize : Nat) (hw : ox + w ≤ stride) (hws : w ≤ 8 * wSize)
    (hl : ∀ r ∈ rows, r.length = wSize) (Z : Bytes) :
    ∀ (n : Nat) (done : Bytes), n ≤ rows.length →
      rawLoop1 rows.flatten w wSize ox (stride - w - ox) n (done ++ zeros (n * stride) ++ Z) done.length
        = .ok (done ++ (((rows.take n).reverse.map fun r => rowImg stride ox w (bitsOfBytes r)).flatten ++ Z)) := by
  intro n
  induction n with
  | zero => intro done _; simp [rawLoop1, zeros_zero]
  | succ y ih =>
    intro done hn
    unfold rawLoop1
    have hy : y < rows.length := by omega
    have hr : rows[y].length = wSize := hl _ (List.getElem_mem hy)
    have hz : zeros ((y + 1) * stride) = rowImg stride ox w [] ++ zeros (y * stride) := by
      rw [rowImg_nil _ _ _ (by omega), ← zeros_add]; congr 1; rw [Nat.add_mul]; omega
    have hd := drop_flatten_uniform wSize rows y hl hy
    have hflen : rows.flatten.length = wSize * rows.length := length_flatten_uniform wSize rows hl
    have hbound : 0 + w ≤ 8 * (rows.flatten.length - y * wSize) := by
      rw [hflen]
      have : wSize * rows.length - y * wSize ≥ wSize := by
        have : wSize * rows.length ≥ wSize * (y + 1) := Nat.mul_le_mul_left _ hn
        rw [Nat.mul_succ, Nat.mul_comm wSize y] at this
        omega
      omega
    have hc := copyBits1_spec rows.flatten done (zeros (y * stride) ++ Z) stride ox w hw w 0 [] (y * wSize) (by omega) hbound (by simp)
    simp only [List.length_nil, Nat.add_zero, Nat.zero_add, List.nil_append, List.drop_zero] at hc
    rw [hz]
    simp only [List.append_assoc] at hc ⊢
    rw [hc]
    simp only
    have hstream : (bitsOfBytes (rows.flatten.drop (y * wSize))).take w = (bitsOfBytes rows[y]).take w := by
      rw [hd, bitsOfBytes_append, List.take_append_of_le_length (by rw [bitsOfBytes_length, hr]; exact hws)]
    rw [hstream, rowImg_take _ _ _ _ (by rw [bitsOfBytes_length, hr]; exact hws)]
    have hdi : done.length + ox + w + (stride - w - ox) = (done ++ rowImg stride ox w (bitsOfBytes rows[y])).length := by
      simp only [List.length_append, rowImg_length _ _ _ _ hw]; omega
    rw [hdi]
    have := ih (done ++ rowImg stride ox w (bitsOfBytes rows[y])) (by omega)
    simp only [List.append_assoc] at this
    rw [this]
    have ht : rows.take (y + 1) = rows.take y ++ [rows[y]] := by
      rw [List.take_add_one]; simp [List.getElem?_eq_getElem hy]
    rw [ht]
    simp only [List.reverse_append, List.reverse_cons, List.reverse_nil, List.nil_append, List.cons_append,
      List.map_cons, List.flatten_cons, List.append_assoc]

end Drx.Bitd
