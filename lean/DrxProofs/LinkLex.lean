/-
  Lexing the model's text.  The text is described as a list of ITEMS (a token or one blank); the reference lexer reads the
  rendering of an item list back as its tokens provided every item is followed by a character that cannot extend it
  (`Chain`): identifiers / numbers by a non-identifier character other than '.', `-` not by `-` (comment), `&` `<` `>` not by the
  second character of a two-character operator.
-/
import Drx.Link
import DrxProofs.SpecLex
import DrxProofs.LscrConst
import DrxProofs.LinkText
import DrxProofs.LinkNum
namespace Drx.Link
open Drx Drx.Lscr Drx.Spec
set_option linter.unusedSimpArgs false
set_option linter.unusedVariables false

/-! ### items -/

inductive Item where
  | tk (t : Tok)
  | sp
  deriving Repr, Inhabited

def Item.text : Item → Str
  | .sp => [' ']
  | .tk (.id s) => s
  | .tk (.num n) => Lscr.natStr n
  | .tk (.p x) => x.text.toList
  | .tk .nl => ['\n']
  | .tk (.str s) => '"' :: s ++ ['"']
  | .tk (.flt _ _) => []

def render (l : List Item) : Str := l.flatMap Item.text

def itoks : List Item → List Tok
  | [] => []
  | .tk t :: l => t :: itoks l
  | .sp :: l => itoks l

/-- may the text `next` follow the item without changing how the item is read? -/
def okNext : Item → List Char → Bool
  | .sp, _ => true
  | .tk .nl, _ => true
  | .tk (.id s), c :: _ => idOk s && !isIdChar c
  | .tk (.num _), c :: _ => !isIdChar c && c != '.'
  | .tk (.p .minus), c :: _ => c != '-'
  | .tk (.p .amp), c :: _ => c != '&'
  | .tk (.p .lt), c :: _ => c != '=' && c != '>'
  | .tk (.p .gt), c :: _ => c != '='
  | .tk (.p _), _ => true
  | .tk (.str s), _ => safeStr s
  | _, _ => false

def Chain : List Item → List Char → Bool
  | [], _ => true
  | it :: its, rest => okNext it (render its ++ rest) && Chain its rest

theorem render_append (a b : List Item) : render (a ++ b) = render a ++ render b := by simp [render]

theorem render_cons (a : Item) (b : List Item) : render (a :: b) = a.text ++ render b := by simp [render]

theorem itoks_append (a b : List Item) : itoks (a ++ b) = itoks a ++ itoks b := by
  induction a with
  | nil => rfl
  | cons x xs ih => cases x <;> simp [itoks, ih]

theorem chain_append (a b : List Item) (rest : List Char) : Chain (a ++ b) rest = (Chain a (render b ++ rest) && Chain b rest) := by
  induction a with
  | nil => simp [Chain]
  | cons x xs ih =>
    simp only [List.cons_append, Chain, ih, render_append, List.append_assoc, Bool.and_assoc]

/-! ### one item -/

theorem isIdChar_false_digit (c : Char) (h : isIdChar c = false) : c.isDigit = false := by
  simp only [isIdChar, Char.isAlphanum, Bool.or_eq_false_iff] at h
  exact h.1.2

theorem isIdChar_false_start (c : Char) (h : isIdChar c = false) : isIdStart c = false := by
  cases hs : isIdStart c with
  | false => rfl
  | true => rw [idStart_idChar c hs] at h; cases h

theorem lex_item_id (f : Nat) (s : Spec.Name) (c : Char) (r : List Char) (acc : List Tok) (hs : idOk s = true) (hc : isIdChar c = false) :
    lexAux (f + 1) (s ++ c :: r) acc = lexAux f (c :: r) (.id s :: acc) := by
  cases s with
  | nil => simp [idOk] at hs
  | cons a as =>
    simp only [idOk, Bool.and_eq_true] at hs
    obtain ⟨h1, h2⟩ := hs
    have n1 := idStart_ne a ' ' h1 (by decide)
    have n2 := idStart_ne a '\t' h1 (by decide)
    have n3 := idStart_ne a '\n' h1 (by decide)
    have n4 := idStart_ne a '\r' h1 (by decide)
    have n5 := idStart_ne a '-' h1 (by decide)
    have n6 := idStart_ne a '"' h1 (by decide)
    have n7 := idStart_not_digit a h1
    have hall : (a :: as).all isIdChar = true := by simp [idStart_idChar a h1, h2]
    have hsp := spanC_append isIdChar (a :: as) c r hall hc
    rw [List.cons_append] at hsp ⊢
    rw [lexAux.eq_def]
    simp only [n1, n2, n3, n4, n5, n6, n7, h1, hsp, Bool.or_self, Bool.false_eq_true, if_false, if_true]

theorem lex_item_num (f : Nat) (n : Nat) (c : Char) (r : List Char) (acc : List Tok) (hc : isIdChar c = false) (hd : c ≠ '.') :
    lexAux (f + 1) (Lscr.natStr n ++ c :: r) acc = lexAux f (c :: r) (.num n :: acc) := by
  rw [natStr_eq]
  have hall := natDigits_all n
  have hval := natDigits_val n
  cases hdg : Spec.natDigits n with
  | nil => exact absurd hdg (natDigits_ne_nil n)
  | cons a as =>
    rw [hdg] at hall hval
    have ha : a.isDigit = true := by simp only [List.all_cons, Bool.and_eq_true] at hall; exact hall.1
    have n1 := digit_ne a ' ' ha (by decide)
    have n2 := digit_ne a '\t' ha (by decide)
    have n3 := digit_ne a '\n' ha (by decide)
    have n4 := digit_ne a '\r' ha (by decide)
    have n5 := digit_ne a '-' ha (by decide)
    have n6 := digit_ne a '"' ha (by decide)
    have hsp := spanC_append Char.isDigit (a :: as) c r hall (isIdChar_false_digit c hc)
    rw [List.cons_append] at hsp ⊢
    rw [lexAux.eq_def]
    simp only [n1, n2, n3, n4, n5, n6, ha, hsp, Bool.or_self, Bool.false_eq_true, if_false, if_true, hval]
    split
    · rename_i heq
      simp only [List.cons.injEq] at heq
      exact absurd heq.1 hd
    · rfl

theorem lex_item_str (f : Nat) (s : Spec.Name) (next : List Char) (acc : List Tok) (h : safeStr s = true) :
    lexAux (f + 1) (('"' :: s ++ ['"']) ++ next) acc = lexAux f next (.str s :: acc) := by
  have hsp := spanC_append (fun x => x != '"' && x != '\n' && x != '\r') s '"' next h (by decide)
  have e : ('"' :: s ++ ['"']) ++ next = '"' :: (s ++ '"' :: next) := by simp
  rw [e, lexAux.eq_def]
  simp only [hsp]
  simp

theorem lex_item_punct (f : Nat) (x : P) (next : List Char) (acc : List Tok) (h : okNext (.tk (.p x)) next = true) :
    lexAux (f + 1) (x.text.toList ++ next) acc = lexAux f next (.p x :: acc) := by
  cases x <;>
  first
  | (cases next with
     | nil => simp [P.text, lexAux, pc_s0, pc_d0, pc_s1, pc_d1, pc_s2, pc_d2, pc_s3, pc_d3, pc_s4, pc_d4, pc_s5, pc_d5, pc_s6, pc_d6, pc_s7, pc_d7, pc_s8, pc_d8, pc_s9, pc_d9, pc_s10, pc_d10, pc_s11, pc_d11, pc_s12, pc_d12, pc_s13, pc_d13, pc_s14, pc_d14, pc_s15, pc_d15]
     | cons c r =>
       simp only [okNext, bne_iff_ne, ne_eq, Bool.and_eq_true, decide_eq_true_eq] at h
       simp [P.text, lexAux, pc_s0, pc_d0, pc_s1, pc_d1, pc_s2, pc_d2, pc_s3, pc_d3, pc_s4, pc_d4, pc_s5, pc_d5, pc_s6, pc_d6, pc_s7, pc_d7, pc_s8, pc_d8, pc_s9, pc_d9, pc_s10, pc_d10, pc_s11, pc_d11, pc_s12, pc_d12, pc_s13, pc_d13, pc_s14, pc_d14, pc_s15, pc_d15, h])

theorem lex_item (f : Nat) (it : Item) (next : List Char) (acc : List Tok) (h : okNext it next = true) :
    lexAux (f + 1) (it.text ++ next) acc = lexAux f next (itoks [it] ++ acc |>.reverse.reverse) := by
  simp only [List.reverse_reverse]
  cases it with
  | sp => simpa [Item.text, itoks] using lex_space f next acc
  | tk t =>
    cases t with
    | nl => simpa [Item.text, itoks] using lex_nl f next acc
    | id s =>
      cases next with
      | nil => simp [okNext] at h
      | cons c r =>
        simp only [okNext, Bool.and_eq_true, Bool.not_eq_true'] at h
        simpa [Item.text, itoks] using lex_item_id f s c r acc h.1 h.2
    | num n =>
      cases next with
      | nil => simp [okNext] at h
      | cons c r =>
        simp only [okNext, Bool.and_eq_true, Bool.not_eq_true', bne_iff_ne, ne_eq] at h
        simpa [Item.text, itoks] using lex_item_num f n c r acc h.1 h.2
    | p x => simpa [Item.text, itoks] using lex_item_punct f x next acc h
    | str s =>
      have hs : safeStr s = true := by cases next <;> simpa [okNext] using h
      simpa [Item.text, itoks] using lex_item_str f s next acc hs
    | flt a b => simp [okNext] at h

/-- **rendering then lexing** an item list whose items are properly delimited -/
theorem lex_items : ∀ (l : List Item) (rest : List Char) (f : Nat) (acc : List Tok), Chain l rest = true →
    lexAux (f + l.length) (render l ++ rest) acc = lexAux f rest ((itoks l).reverse ++ acc)
  | [], rest, f, acc, _ => by simp [render, itoks]
  | it :: l, rest, f, acc, h => by
    simp only [Chain, Bool.and_eq_true] at h
    have e : f + (it :: l).length = (f + l.length) + 1 := by simp only [List.length_cons]; omega
    rw [e, render_cons, List.append_assoc, lex_item _ it _ _ h.1]
    simp only [List.reverse_reverse]
    rw [lex_items l rest f _ h.2]
    cases it <;> simp [itoks]

theorem render_length_ge : ∀ (l : List Item) (rest : List Char), Chain l rest = true → l.length ≤ (render l).length
  | [], _, _ => by simp
  | it :: l, rest, h => by
    simp only [Chain, Bool.and_eq_true] at h
    have ih := render_length_ge l rest h.2
    have h1 : 1 ≤ it.text.length := by
      cases it with
      | sp => simp [Item.text]
      | tk t =>
        cases t with
        | nl => simp [Item.text]
        | id s =>
          cases s with
          | nil =>
            cases hn : render l ++ rest with
            | nil => rw [hn] at h; simp [okNext] at h
            | cons c r => rw [hn] at h; simp [okNext, idOk] at h
          | cons a as => simp [Item.text]
        | num n =>
          have := natDigits_len n
          simp only [Item.text, natStr_eq]; exact this
        | p x => cases x <;> simp [Item.text, P.text]
        | str s => simp [Item.text]
        | flt a b =>
          cases hn : render l ++ rest <;> rw [hn] at h <;> simp [okNext] at h
    simp only [render_cons, List.length_append, List.length_cons]
    omega

/-- the whole text -/
theorem lex_render_items (l : List Item) (h : Chain l [] = true) : lex (render l) = some (itoks l) := by
  have hlen := render_length_ge l [] h
  have := lex_items l [] ((render l).length + 1 - l.length) [] h
  have e : (render l).length + 1 - l.length + l.length = (render l).length + 1 := by omega
  rw [e, List.append_nil] at this
  unfold lex
  rw [this]
  obtain ⟨g, hg⟩ : ∃ g, (render l).length + 1 - l.length = g + 1 := ⟨(render l).length - l.length, by omega⟩
  rw [hg]
  simp [lexAux]

end Drx.Link
