/-
  The fragments `Frag` / `FragS` depend on the environment only through `resolve`, `resolveVar`, `isVar` and `isMethod`:
  two environments that agree on these accept the same trees.  Plus: where the names of `assignedNames` come from.
-/
import DrxProofs.SpecScript
namespace Drx.Spec
set_option linter.unusedSimpArgs false
set_option linter.unusedVariables false

/-- two environments classify every identifier alike -/
def EnvEq (a b : Env) : Prop :=
  a.isMethod = b.isMethod ∧ ∀ n, a.resolve n = b.resolve n ∧ a.resolveVar n = b.resolveVar n ∧ a.isVar n = b.isVar n

theorem resolvesTo_congr {a b : Env} (h : EnvEq a b) (n : Name) (k : VarKind) : resolvesTo a n k = resolvesTo b n k := by
  unfold resolvesTo; rw [(h.2 n).1]

theorem recvOk_congr {a b : Env} (h : EnvEq a b) (o : Expr) (hr : RecvOk a o) : RecvOk b o := by
  obtain ⟨s, h1, h2, h3, h4⟩ := hr
  exact ⟨s, h1, h2, by rw [← (h.2 s).2.2]; exact h3, by rw [← (h.2 s).2.1]; exact h4⟩

mutual
theorem frag_congr {a b : Env} (h : EnvEq a b) : ∀ (e : Expr), Frag a e → Frag b e
  | .int _, _ => trivial
  | .str _, _ => trivial
  | .float _ _, _ => trivial
  | .sym _, _ => trivial
  | .var k n, hf => by
    obtain ⟨h1, h2⟩ : PlainId n ∧ resolvesTo a n k = true := hf
    exact ⟨h1, by rw [← resolvesTo_congr h]; exact h2⟩
  | .me, hf => by
    have : a.isMethod = true := hf
    show b.isMethod = true
    rw [← h.1]; exact this
  | .un _ x, hf => frag_congr h x hf
  | .bin _ x y, hf => by
    obtain ⟨h1, h2⟩ : Frag a x ∧ Frag a y := hf
    exact ⟨frag_congr h x h1, frag_congr h y h2⟩
  | .field x, hf => frag_congr h x hf
  | .call f as, hf => by
    obtain ⟨h1, h2, h3⟩ : PlainId f ∧ a.isVar f = false ∧ FragL a as := hf
    exact ⟨h1, by rw [← (h.2 f).2.2]; exact h2, fragL_congr h as h3⟩
  | .mcall o _ as, hf => by
    obtain ⟨h1, h2⟩ : RecvOk a o ∧ FragL a as := hf
    exact ⟨recvOk_congr h o h1, fragL_congr h as h2⟩
  | .list as, hf => fragL_congr h as hf
  | .plist as, hf => by
    obtain ⟨h1, h2⟩ : as.length % 2 = 0 ∧ FragL a as := hf
    exact ⟨h1, fragL_congr h as h2⟩
  | .the t k as, hf => by
    obtain ⟨h1, h2⟩ : TheOk t k as.length = true ∧ FragL a as := hf
    exact ⟨h1, fragL_congr h as h2⟩
  | .key _, hf => hf
  | .movie _, hf => hf
  | .oprop n o, hf => by
    obtain ⟨h1, h2, h3, h4⟩ : PlainThe n ∧ isObjectless n = false ∧ headNotObj (prE o) = true ∧ Frag a o := hf
    exact ⟨h1, h2, h3, frag_congr h o h4⟩
  | .chunk _ x y z, hf => by
    obtain ⟨h1, h2, h3⟩ : Frag a x ∧ Frag a y ∧ Frag a z := hf
    exact ⟨frag_congr h x h1, frag_congr h y h2, frag_congr h z h3⟩
theorem fragL_congr {a b : Env} (h : EnvEq a b) : ∀ (es : List Expr), FragL a es → FragL b es
  | [], _ => trivial
  | e :: es, hf => by
    obtain ⟨h1, h2⟩ : Frag a e ∧ FragL a es := hf
    exact ⟨frag_congr h e h1, fragL_congr h es h2⟩
end

theorem lvOk_congr {a b : Env} (h : EnvEq a b) (lv : Expr) (hl : LvOk a lv) : LvOk b lv := by
  rcases hl with ⟨s, h1, h2, h3⟩ | ⟨h1, h2⟩
  · exact Or.inl ⟨s, h1, h2, by rw [← (h.2 s).2.1]; exact h3⟩
  · exact Or.inr ⟨h1, frag_congr h lv h2⟩

theorem varOk_congr {a b : Env} (h : EnvEq a b) (v : Expr) (hv : VarOk a v) : VarOk b v := by
  obtain ⟨s, h1, h2⟩ := hv
  exact ⟨s, h1, by rw [← (h.2 s).2.1]; exact h2⟩

theorem callOk_congr {a b : Env} (h : EnvEq a b) (f : Name) (as : List Expr) (hc : CallOk a f as) : CallOk b f as := by
  rcases hc with h1 | h1 | ⟨h1, h2, h3⟩ | ⟨h1, h2, h3, h4⟩
  · exact Or.inl h1
  · exact Or.inr (Or.inl h1)
  · exact Or.inr (Or.inr (Or.inl ⟨h1, by rw [← (h.2 f).2.2]; exact h2, h3⟩))
  · exact Or.inr (Or.inr (Or.inr ⟨h1, h2, h3, by rw [← (h.2 f).2.2]; exact h4⟩))

theorem recvStmtOk_congr {a b : Env} (h : EnvEq a b) (o : Expr) (hr : RecvStmtOk a o) : RecvStmtOk b o := by
  obtain ⟨s, h1, h2, h3, h4, h5⟩ := hr
  exact ⟨s, h1, h2, h3, by rw [← (h.2 s).2.2]; exact h4, by rw [← (h.2 s).2.1]; exact h5⟩

mutual
theorem fragS_congr {a b : Env} (h : EnvEq a b) : ∀ (s : Stmt), FragS a s → FragS b s
  | .set lv v, hf => by
    obtain ⟨h1, h2⟩ : LvOk a lv ∧ Frag a v := hf
    exact ⟨lvOk_congr h lv h1, frag_congr h v h2⟩
  | .put md v lv, hf => by
    obtain ⟨h1, h2, h3⟩ : Frag a v ∧ LvOk a lv ∧ (md = .into → lvKind lv = true) := hf
    exact ⟨frag_congr h v h1, lvOk_congr h lv h2, h3⟩
  | .delete t, hf => lvOk_congr h t hf
  | .hilite t, hf => lvOk_congr h t hf
  | .call f as, hf => by
    obtain ⟨h1, h2⟩ : CallOk a f as ∧ FragL a as := hf
    exact ⟨callOk_congr h f as h1, fragL_congr h as h2⟩
  | .mcall o _ as, hf => by
    obtain ⟨h1, h2⟩ : RecvStmtOk a o ∧ FragL a as := hf
    exact ⟨recvStmtOk_congr h o h1, fragL_congr h as h2⟩
  | .exit, _ => trivial
  | .exitRepeat, _ => trivial
  | .tell o body, hf => by
    obtain ⟨h1, h2⟩ : Frag a o ∧ FragSs a body := hf
    exact ⟨frag_congr h o h1, fragSs_congr h body h2⟩
  | .ifThen c t e, hf => by
    obtain ⟨h1, h2, h3⟩ : Frag a c ∧ FragSs a t ∧ FragSs a e := hf
    exact ⟨frag_congr h c h1, fragSs_congr h t h2, fragSs_congr h e h3⟩
  | .repeatWhile c body, hf => by
    obtain ⟨h1, h2⟩ : Frag a c ∧ FragSs a body := hf
    exact ⟨frag_congr h c h1, fragSs_congr h body h2⟩
  | .repeatWith v x y _ body, hf => by
    obtain ⟨h1, h2, h3, h4⟩ : VarOk a v ∧ Frag a x ∧ Frag a y ∧ FragSs a body := hf
    exact ⟨varOk_congr h v h1, frag_congr h x h2, frag_congr h y h3, fragSs_congr h body h4⟩
  | .repeatIn v l body, hf => by
    obtain ⟨h1, h2, h3⟩ : VarOk a v ∧ Frag a l ∧ FragSs a body := hf
    exact ⟨varOk_congr h v h1, frag_congr h l h2, fragSs_congr h body h3⟩
theorem fragSs_congr {a b : Env} (h : EnvEq a b) : ∀ (ss : List Stmt), FragSs a ss → FragSs b ss
  | [], _ => trivial
  | s :: ss, hf => by
    obtain ⟨h1, h2⟩ : FragS a s ∧ FragSs a ss := hf
    exact ⟨fragS_congr h s h1, fragSs_congr h ss h2⟩
end

/-- environments with the same parameter list, the same `me` status and the same MEMBERS of the global / property / handler /
    assigned lists classify alike (the lists are only consulted through `contains`) -/
theorem envEq_of_mem (a b : Env) (hp : a.params = b.params) (hm : a.isMethod = b.isMethod)
    (hg : ∀ n, a.globals.contains n = b.globals.contains n) (hr : ∀ n, a.props.contains n = b.props.contains n)
    (hh : ∀ n, a.handlers.contains n = b.handlers.contains n) (ha : ∀ n, a.assigned.contains n = b.assigned.contains n) : EnvEq a b := by
  refine ⟨hm, fun n => ⟨?_, ?_, ?_⟩⟩
  · simp only [Env.resolve, hp, hm, hg n, hr n, hh n, ha n]
  · simp only [Env.resolveVar, hp, hm, hg n, hr n]
  · simp only [Env.isVar, hp, hm, hg n, ha n]

theorem assignedNames_skip (t u : Tok) (r : List Tok) (hu : ∀ y, u ≠ .id y) : assignedNames (t :: u :: r) = assignedNames (u :: r) := by
  cases u <;> first | exact absurd rfl (hu _) | simp [assignedNames]

/-- every name `assignedNames` reports stands directly after one of the five assignment words -/
theorem mem_assignedNames : ∀ (ts : List Tok) (x : Name), x ∈ assignedNames ts →
    ∃ (pre : List Tok) (t : Tok) (post : List Tok), ts = pre ++ t :: .id x :: post ∧
      (t.kw "set" || t.kw "with" || t.kw "into" || t.kw "after" || t.kw "before") = true
  | [], x, h => by simp [assignedNames] at h
  | [t], x, h => by cases t <;> simp [assignedNames] at h
  | t :: u :: r, x, h => by
    by_cases hu : ∃ y, u = .id y
    · obtain ⟨y, rfl⟩ := hu
      by_cases hk : (t.kw "set" || t.kw "with" || t.kw "into" || t.kw "after" || t.kw "before") = true
      · simp only [assignedNames, hk, if_true, List.mem_cons] at h
        rcases h with h | h
        · subst h; exact ⟨[], t, r, rfl, hk⟩
        · obtain ⟨pre, t', post, h1, h2⟩ := mem_assignedNames r x h
          exact ⟨t :: .id y :: pre, t', post, by simp [h1], h2⟩
      · simp only [assignedNames, hk, if_false, Bool.false_eq_true] at h
        obtain ⟨pre, t', post, h1, h2⟩ := mem_assignedNames (.id y :: r) x h
        exact ⟨t :: pre, t', post, by simp [h1], h2⟩
    · have hu' : ∀ y, u ≠ .id y := fun y hy => hu ⟨y, hy⟩
      rw [assignedNames_skip t u r hu'] at h
      obtain ⟨pre, t', post, h1, h2⟩ := mem_assignedNames (u :: r) x h
      exact ⟨t :: pre, t', post, by simp [h1], h2⟩

end Drx.Spec
