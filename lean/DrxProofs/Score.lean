/-
  Helper lemmas for C09: the generic run-length builder keeps `IsRunView` (induction over the frames), the sprite and
  sound loops of `vwsc_to_score` are instances of it, the nested frame/channel loop is the per-column fold.
-/
import Drx.Score
import Drx.ScoreSpec
namespace Drx.Score
open Drx Drx.Vwsc Drx.Score.Spec

/-! ### generic builder -/

section Generic
set_option linter.unusedSectionVars false
variable {κ : Type} [DecidableEq κ]

theorem maxAsc_append_single (l : List (Run κ)) (x : Run κ) :
    MaxAsc (l ++ [x]) ↔ MaxAsc l ∧ ∀ y, l.getLast? = some y → (y.stop + 1 = x.start → y.key ≠ x.key) := by
  induction l with
  | nil => simp [MaxAsc]
  | cons a l ih =>
    cases l with
    | nil => simp [MaxAsc]
    | cons b l =>
      simp only [List.cons_append, MaxAsc] at ih ⊢
      rw [ih]
      simp [List.getLast?_cons_cons, and_assoc]

theorem filter_covers_eq_nil (rs : List (Run κ)) (f : Nat) (h : ∀ r ∈ rs, r.stop < f) : rs.filter (·.covers f) = [] := by
  rw [List.filter_eq_nil_iff]
  intro r hr
  have := h r hr
  simp [Run.covers]; omega

theorem view_none (col : List (Option κ)) (rs : List (Run κ)) (h : IsRunView col rs) : IsRunView (col ++ [none]) rs := by
  refine ⟨h.ordered, ?_, ?_, h.maximal⟩
  · intro r hr; have := h.bounds r hr; simp; omega
  · intro k c hk
    by_cases hlt : k < col.length
    · rw [List.getElem?_append_left hlt] at hk; exact h.cover k c hk
    · have hk' : k = col.length := by
        have : k < (col ++ [none]).length := by
          rcases Nat.lt_or_ge k (col ++ [none]).length with h1 | h1
          · exact h1
          · rw [List.getElem?_eq_none h1] at hk; cases hk
        simp at this; omega
      subst hk'
      simp at hk; subst hk
      rw [filter_covers_eq_nil rs _ (fun r hr => by have := h.bounds r hr; omega)]; rfl

theorem view_append_new (col : List (Option κ)) (rs : List (Run κ)) (key : κ) (h : IsRunView col rs)
    (hne : ∀ p, rs.getLast? = some p → ¬ (p.stop = col.length ∧ p.key = key)) :
    IsRunView (col ++ [some key]) (rs ++ [⟨col.length + 1, col.length + 1, key⟩]) := by
  refine ⟨?_, ?_, ?_, ?_⟩
  · rw [List.pairwise_append]
    refine ⟨h.ordered, by simp, ?_⟩
    intro a ha b hb
    simp only [List.mem_singleton] at hb; subst hb
    have := h.bounds a ha; simp; omega
  · intro r hr
    simp only [List.mem_append, List.mem_singleton] at hr
    rcases hr with hr | rfl
    · have := h.bounds r hr; simp; omega
    · simp
  · intro k c hk
    by_cases hlt : k < col.length
    · rw [List.getElem?_append_left hlt] at hk
      rw [List.filter_append, List.map_append, h.cover k c hk]
      have : ([(⟨col.length + 1, col.length + 1, key⟩ : Run κ)].filter (·.covers (k + 1))) = [] := by
        simp [Run.covers]; omega
      rw [this]; simp
    · have hk' : k = col.length := by
        have : k < (col ++ [some key]).length := by
          rcases Nat.lt_or_ge k (col ++ [some key]).length with h1 | h1
          · exact h1
          · rw [List.getElem?_eq_none h1] at hk; cases hk
        simp at this; omega
      subst hk'
      simp at hk; subst hk
      rw [List.filter_append, filter_covers_eq_nil rs _ (fun r hr => by have := h.bounds r hr; omega)]
      simp [Run.covers]
  · rw [maxAsc_append_single]
    refine ⟨h.maximal, ?_⟩
    intro y hy hadj heq
    have hb : y ∈ rs := List.mem_of_getLast? hy
    exact hne y hy ⟨by simp at hadj; omega, heq⟩

theorem view_extend (col : List (Option κ)) (init : List (Run κ)) (p : Run κ) (key : κ) (h : IsRunView col (init ++ [p]))
    (hs : p.stop = col.length) (hk : p.key = key) :
    IsRunView (col ++ [some key]) (init ++ [{ p with stop := col.length + 1 }]) := by
  have hord := h.ordered
  rw [List.pairwise_append] at hord
  obtain ⟨hinit, _, hcross⟩ := hord
  have hpb := h.bounds p (by simp)
  have hib : ∀ a ∈ init, a.stop < p.start := fun a ha => hcross a ha p (by simp)
  refine ⟨?_, ?_, ?_, ?_⟩
  · rw [List.pairwise_append]
    refine ⟨hinit, by simp, ?_⟩
    intro a ha b hb
    simp only [List.mem_singleton] at hb; subst hb
    exact hib a ha
  · intro r hr
    simp only [List.mem_append, List.mem_singleton] at hr
    rcases hr with hr | rfl
    · have := h.bounds r (by simp [hr]); simp; omega
    · simp; omega
  · intro k c hkc
    by_cases hlt : k < col.length
    · rw [List.getElem?_append_left hlt] at hkc
      have := h.cover k c hkc
      rw [List.filter_append, List.map_append] at this ⊢
      rw [← this]
      congr 1
      have e : (({ p with stop := col.length + 1 } : Run κ).covers (k + 1)) = p.covers (k + 1) := by
        have h1 : k + 1 ≤ col.length + 1 := by omega
        have h2 : k + 1 ≤ p.stop := by omega
        simp [Run.covers, h1, h2]
      simp [List.filter_cons, e]
      split <;> simp
    · have hk' : k = col.length := by
        have : k < (col ++ [some key]).length := by
          rcases Nat.lt_or_ge k (col ++ [some key]).length with h1 | h1
          · exact h1
          · rw [List.getElem?_eq_none h1] at hkc; cases hkc
        simp at this; omega
      subst hk'
      simp at hkc; subst hkc
      rw [List.filter_append, filter_covers_eq_nil init _ (fun r hr => by have := hib r hr; omega)]
      have h1 : p.start ≤ col.length + 1 := by omega
      simp [Run.covers, hk, h1]
  · have hm := h.maximal
    rw [maxAsc_append_single] at hm ⊢
    exact ⟨hm.1, fun y hy => by simpa using hm.2 y hy⟩

/-- one step of the builder keeps the view -/
theorem stepRun_view (col : List (Option κ)) (rs : List (Run κ)) (c : Option κ) (h : IsRunView col rs) :
    IsRunView (col ++ [c]) (stepRun col.length rs c) := by
  cases c with
  | none => exact view_none col rs h
  | some key =>
    rcases List.eq_nil_or_concat rs with hnil | ⟨init, p, hrs⟩
    · subst hnil
      simpa [stepRun] using view_append_new col [] key h (by simp)
    · rw [List.concat_eq_append] at hrs
      subst hrs
      simp only [stepRun, List.getLast?_append, List.getLast?_singleton, Option.some_or, List.dropLast_concat]
      split
      · rename_i hc; exact view_extend col init p key h hc.1 hc.2
      · rename_i hc
        exact view_append_new col (init ++ [p]) key h (by
          intro q hq; simp at hq; subst hq; exact hc)

theorem foldRuns_view (pre col : List (Option κ)) (rs : List (Run κ)) (h : IsRunView pre rs) :
    IsRunView (pre ++ col) (foldRuns pre.length col rs) := by
  induction col generalizing pre rs with
  | nil => simpa [foldRuns] using h
  | cons c cs ih =>
    have := ih (pre ++ [c]) (stepRun pre.length rs c) (stepRun_view pre rs c h)
    simpa [foldRuns] using this

theorem view_nil : IsRunView ([] : List (Option κ)) ([] : List (Run κ)) :=
  ⟨by simp, by simp, by simp, trivial⟩

/-- **the generic theorem**: folding the builder over a column from the empty list yields its run-length view -/
theorem foldRuns_spec (col : List (Option κ)) : IsRunView col (foldRuns 0 col []) := by
  simpa using foldRuns_view [] col [] view_nil

end Generic

/-! ### the sprite loop is an instance -/

theorem sameAttrs_iff (prev : Span) (s : Sprite) : sameAttrs prev s = true ↔ spanAttrs prev = spriteAttrs s := by
  simp only [sameAttrs, spanAttrs, spriteAttrs, Bool.and_eq_true, beq_iff_eq, Attrs.mk.injEq]
  constructor
  · rintro ⟨⟨⟨⟨⟨⟨⟨⟨⟨⟨⟨⟨h1, _⟩, h2⟩, h3⟩, h4⟩, h5⟩, h6⟩, h7⟩, h8⟩, h9⟩, h10⟩, h11⟩, h12⟩
    exact ⟨h1, h2, h3, h4, h5, h6, h7, h8, h9, h10, h11, h12⟩
  · rintro ⟨h1, h2, h3, h4, h5, h6, h7, h8, h9, h10, h11, h12⟩
    exact ⟨⟨⟨⟨⟨⟨⟨⟨⟨⟨⟨⟨h1, h1⟩, h2⟩, h3⟩, h4⟩, h5⟩, h6⟩, h7⟩, h8⟩, h9⟩, h10⟩, h11⟩, h12⟩

theorem spanRun_newSpan (i j : Nat) (s : Sprite) : spanRun (newSpan i j s) = ⟨i + 1, i + 1, spriteAttrs s⟩ := rfl

/-- one cell step, seen through `spanRun`, is one step of the generic builder -/
theorem stepCell_run (i j : Nat) (S : List Span) (c : Option Sprite) :
    (stepCell i j S c).map spanRun = stepRun i (S.map spanRun) (c.map spriteAttrs) := by
  cases c with
  | none => rfl
  | some s =>
    rcases List.eq_nil_or_concat S with hnil | ⟨init, p, hS⟩
    · subst hnil; simp [stepCell, stepRun, spanRun_newSpan]
    · rw [List.concat_eq_append] at hS
      subst hS
      simp only [stepCell, stepRun, Option.map_some, List.map_append, List.map_cons, List.map_nil, List.getLast?_append,
        List.getLast?_singleton, Option.some_or, List.dropLast_concat]
      have hk : (p.endFrame = i ∧ sameAttrs p s = true) ↔ ((spanRun p).stop = i ∧ (spanRun p).key = spriteAttrs s) := by
        rw [sameAttrs_iff]; rfl
      by_cases hc : p.endFrame = i ∧ sameAttrs p s = true
      · rw [if_pos hc, if_pos (hk.mp hc)]
        simp [spanRun, spanAttrs]
      · rw [if_neg hc, if_neg (fun h => hc (hk.mpr h))]
        simp [spanRun_newSpan]

theorem rectOk_newSpan (i j : Nat) (s : Sprite) : RectOk j (newSpan i j s) := by
  refine ⟨?_, ?_, rfl, rfl, rfl⟩ <;> simp only [newSpan] <;> omega

/-- every span a cell step leaves in the list has a consistent rectangle and the channel's `locZ` -/
theorem stepCell_rect (i j : Nat) (S : List Span) (c : Option Sprite) (h : ∀ sp ∈ S, RectOk j sp) :
    ∀ sp ∈ stepCell i j S c, RectOk j sp := by
  cases c with
  | none => exact h
  | some s =>
    rcases List.eq_nil_or_concat S with hnil | ⟨init, p, hS⟩
    · subst hnil; intro sp hsp; simp [stepCell] at hsp; subst hsp; exact rectOk_newSpan i j s
    · rw [List.concat_eq_append] at hS
      subst hS
      intro sp hsp
      simp only [stepCell, List.getLast?_append, List.getLast?_singleton, Option.some_or, List.dropLast_concat] at hsp
      split at hsp
      · simp only [List.mem_append, List.mem_singleton] at hsp
        rcases hsp with hsp | rfl
        · exact h sp (by simp [hsp])
        · exact h p (by simp)
      · simp only [List.mem_append, List.mem_singleton] at hsp
        rcases hsp with hsp | rfl
        · exact h sp (by simpa using hsp)
        · exact rectOk_newSpan i j s

/-- the per-channel fold the nested loop amounts to -/
def chanFold (j : Nat) : Nat → List (Option Sprite) → List Span → List Span
  | _, [], S => S
  | i, c :: cs, S => chanFold j (i + 1) cs (stepCell i j S c)

theorem chanFold_run (j i : Nat) (col : List (Option Sprite)) (S : List Span) :
    (chanFold j i col S).map spanRun = foldRuns i (col.map (Option.map spriteAttrs)) (S.map spanRun) := by
  induction col generalizing i S with
  | nil => rfl
  | cons c cs ih => simp only [chanFold, List.map_cons, foldRuns, ih, stepCell_run]

theorem chanFold_rect (j i : Nat) (col : List (Option Sprite)) (S : List Span) (h : ∀ sp ∈ S, RectOk j sp) :
    ∀ sp ∈ chanFold j i col S, RectOk j sp := by
  induction col generalizing i S with
  | nil => exact h
  | cons c cs ih => exact ih (i + 1) _ (stepCell_rect i j S c h)

/-! ### the nested loop is the per-column fold -/

theorem stepFrame_spec (i : Nat) (j0 : Nat) (sps : List (List Span)) (cells : List (Option Sprite)) (h : sps.length ≤ cells.length) :
    ∃ out, stepFrame i j0 sps cells = .ok out ∧ out.length = sps.length ∧
      ∀ k sp, sps[k]? = some sp → out[k]? = some (stepCell i (j0 + k) sp (cells[k]?).join) := by
  induction sps generalizing j0 cells with
  | nil => exact ⟨[], rfl, rfl, by simp⟩
  | cons sp sps ih =>
    cases cells with
    | nil => simp at h
    | cons c cs =>
      obtain ⟨out, h1, h2, h3⟩ := ih (j0 + 1) cs (by simpa using h)
      refine ⟨stepCell i j0 sp c :: out, by simp [stepFrame, h1], by simp [h2], ?_⟩
      intro k sp' hk
      cases k with
      | zero => simp at hk; subst hk; simp
      | succ k =>
        simp only [List.getElem?_cons_succ] at hk ⊢
        have := h3 k sp' hk
        rw [this]; congr 2; omega

theorem pass2_spec (i : Nat) (frames : List Frame) (sps : List (List Span)) (h : ∀ f ∈ frames, sps.length ≤ f.score.length) :
    ∃ out, pass2 i frames sps = .ok out ∧ out.length = sps.length ∧
      ∀ k sp, sps[k]? = some sp → out[k]? = some (chanFold k i (column frames k) sp) := by
  induction frames generalizing i sps with
  | nil => exact ⟨sps, rfl, rfl, by intro k sp hk; simpa [column, chanFold] using hk⟩
  | cons f fs ih =>
    obtain ⟨mid, h1, h2, h3⟩ := stepFrame_spec i 0 sps f.score (h f (by simp))
    obtain ⟨out, g1, g2, g3⟩ := ih (i + 1) mid (by intro f' hf'; rw [h2]; exact h f' (by simp [hf']))
    refine ⟨out, by simp [pass2, h1, g1], by rw [g2, h2], ?_⟩
    intro k sp hk
    have := h3 k sp hk
    rw [g3 k _ this]
    simp [column, chanFold]

/-! ### first pass -/

theorem sndStep_run (i : Nat) (l : List Snd) (c : Int) : (sndStep i l c).map sndRun = stepRun i (l.map sndRun) (some c) := by
  rcases List.eq_nil_or_concat l with hnil | ⟨init, p, hl⟩
  · subst hnil; simp [sndStep, stepRun, sndRun]
  · rw [List.concat_eq_append] at hl
    subst hl
    simp only [sndStep, stepRun, List.map_append, List.map_cons, List.map_nil, List.getLast?_append, List.getLast?_singleton,
      Option.some_or, List.dropLast_concat]
    by_cases hc : p.endFrame = i ∧ p.castId = c
    · rw [if_pos hc, if_pos (show (sndRun p).stop = i ∧ (sndRun p).key = c from hc)]; simp [sndRun]
    · rw [if_neg hc, if_neg (show ¬ ((sndRun p).stop = i ∧ (sndRun p).key = c) from hc)]; simp [sndRun]

theorem eventStep_tempo (i : Nat) (f : Frame) (e : Events) : (eventStep i f e).tempo = e.tempo ++ (tempoOf i f).toList := by
  unfold eventStep tempoOf
  cases f.main <;> cases f.palette <;> simp
  all_goals (repeat' split) <;> simp_all

theorem eventStep_script (i : Nat) (f : Frame) (e : Events) : (eventStep i f e).script = e.script ++ (scriptOf i f).toList := by
  unfold eventStep scriptOf
  cases f.main <;> cases f.palette <;> simp
  all_goals (repeat' split) <;> simp_all

theorem eventStep_palette (i : Nat) (f : Frame) (e : Events) : (eventStep i f e).palette = e.palette ++ (paletteOf i f).toList := by
  unfold eventStep paletteOf
  cases f.main <;> cases f.palette <;> simp
  all_goals (repeat' split) <;> simp_all

theorem eventStep_transition (i : Nat) (f : Frame) (e : Events) :
    (eventStep i f e).transition = e.transition ++ (transitionOf i f).toList := by
  unfold eventStep transitionOf
  cases f.main <;> cases f.palette <;> simp
  all_goals (repeat' split) <;> simp_all

theorem eventStep_sound1 (i : Nat) (f : Frame) (e : Events) :
    (eventStep i f e).sound1 = match sound1Of f with | some c => sndStep i e.sound1 c | none => e.sound1 := by
  unfold eventStep sound1Of
  cases f.main <;> cases f.palette <;> simp
  all_goals (repeat' split) <;> simp_all

theorem eventStep_sound2 (i : Nat) (f : Frame) (e : Events) :
    (eventStep i f e).sound2 = match sound2Of f with | some c => sndStep i e.sound2 c | none => e.sound2 := by
  unfold eventStep sound2Of
  cases f.main <;> cases f.palette <;> simp
  all_goals (repeat' split) <;> simp_all

theorem pass1_tempo (i : Nat) (frames : List Frame) (e : Events) : (pass1 i frames e).tempo = e.tempo ++ eventsFrom tempoOf i frames := by
  induction frames generalizing i e with
  | nil => simp [pass1, eventsFrom]
  | cons f fs ih => simp [pass1, eventsFrom, ih, eventStep_tempo]

theorem pass1_script (i : Nat) (frames : List Frame) (e : Events) : (pass1 i frames e).script = e.script ++ eventsFrom scriptOf i frames := by
  induction frames generalizing i e with
  | nil => simp [pass1, eventsFrom]
  | cons f fs ih => simp [pass1, eventsFrom, ih, eventStep_script]

theorem pass1_palette (i : Nat) (frames : List Frame) (e : Events) : (pass1 i frames e).palette = e.palette ++ eventsFrom paletteOf i frames := by
  induction frames generalizing i e with
  | nil => simp [pass1, eventsFrom]
  | cons f fs ih => simp [pass1, eventsFrom, ih, eventStep_palette]

theorem pass1_transition (i : Nat) (frames : List Frame) (e : Events) :
    (pass1 i frames e).transition = e.transition ++ eventsFrom transitionOf i frames := by
  induction frames generalizing i e with
  | nil => simp [pass1, eventsFrom]
  | cons f fs ih => simp [pass1, eventsFrom, ih, eventStep_transition]

theorem pass1_sound1 (i : Nat) (frames : List Frame) (e : Events) :
    (pass1 i frames e).sound1.map sndRun = foldRuns i (frames.map sound1Of) (e.sound1.map sndRun) := by
  induction frames generalizing i e with
  | nil => rfl
  | cons f fs ih =>
    simp only [pass1, List.map_cons, foldRuns, ih, eventStep_sound1]
    cases sound1Of f with
    | none => rfl
    | some c => simp only [sndStep_run]

theorem pass1_sound2 (i : Nat) (frames : List Frame) (e : Events) :
    (pass1 i frames e).sound2.map sndRun = foldRuns i (frames.map sound2Of) (e.sound2.map sndRun) := by
  induction frames generalizing i e with
  | nil => rfl
  | cons f fs ih =>
    simp only [pass1, List.map_cons, foldRuns, ih, eventStep_sound2]
    cases sound2Of f with
    | none => rfl
    | some c => simp only [sndStep_run]

/-! ### glue -/

theorem vwscToScore_eq (frames : List Frame) :
    vwscToScore frames =
      match pass2 0 frames (List.replicate (channelsOf frames) []) with
      | .error e => .error e
      | .ok sprite => .ok ⟨channelsOf frames, frames.length, pass1 0 frames {}, sprite⟩ := by
  cases frames <;> rfl

theorem maxAsc_index {κ : Type} (l : List (Run κ)) (hm : MaxAsc l) (k : Nat) (a b : Run κ)
    (ha : l[k]? = some a) (hb : l[k + 1]? = some b) (hadj : a.stop + 1 = b.start) : a.key ≠ b.key := by
  induction l generalizing k with
  | nil => simp at ha
  | cons x l ih =>
    cases l with
    | nil => simp at hb
    | cons y l =>
      cases k with
      | zero =>
        simp at ha hb; subst ha hb
        exact hm.1 hadj
      | succ k =>
        simp only [List.getElem?_cons_succ] at ha hb
        exact ih hm.2 k ha (by simpa using hb)

end Drx.Score
