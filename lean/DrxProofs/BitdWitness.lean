/-
  C06: concrete inputs of the excluded classes evaluated on the model (each is replayed on the real code by
  corpus/C06/open_*.json).
-/
import DrxProofs.Bitd24Top
namespace Drx.Bitd
open Drx Drx.Bitd.Spec

/-- F34: a raw 16-bit image raises NotImplementedError -/
theorem w_f34 : bitd2bmp (callOf ⟨1, 1, 0, 0, .d16 [[(1, 2)]]⟩ (serialise ⟨1, 1, 0, 0, .d16 [[(1, 2)]]⟩ 0 0 .raw)) = .error .notImpl := by
  decide +kernel

/-- F34: a 32-bit stream of exactly 2·w·h bytes (two runs of four) is taken for raw data -/
theorem w_f34b : bitd2bmp (callOf ⟨2, 1, 0, 0, .d32 [[(7, 7, 7, 7), (7, 7, 7, 7)]]⟩
    (serialise ⟨2, 1, 0, 0, .d32 [[(7, 7, 7, 7), (7, 7, 7, 7)]]⟩ 0 0 (.packed [[.run 4 7, .run 4 7]]))) = .error .notImpl := by
  decide +kernel

/-! F90: a literal that spans both byte planes of a one-pixel-wide 16-bit image -/

def img90 : Img := ⟨1, 2, 0, 0, .d16 [[(1, 2)], [(3, 4)]]⟩
def enc90 : Enc := .packed [[.lit [1, 2]], [.lit [3, 4]]]

theorem w_f90_loop : loop16 1 2 [1, 1, 2, 1, 3, 4] [0, 0, 0, 0] 0 1 = .ok [1, 2, 0, 0] := by
  rw [loop16]
  simp [jump16, paintLit16, setAtI, setAt]
  rw [loop16]
  simp

theorem w_f90_c : compressed16 [1, 1, 2, 1, 3, 4] 1 2 = .ok [2, 1, 0, 0, 0, 0, 0, 0] := by
  unfold compressed16
  have : loop16 1 (2 * 1) [1, 1, 2, 1, 3, 4] (zeros (2 * 1 * 2)) 0 (((2 : Nat) : Int) - 1) = .ok [1, 2, 0, 0] := w_f90_loop
  rw [this]
  decide

theorem w_f90 : bitd2bmp (callOf img90 (serialise img90 0 0 enc90)) = .ok (hdr16 1 2 ++ [2, 1, 0, 0, 0, 0, 0, 0]) := by
  rw [bitd2bmp_16 _ rfl]
  rw [decode16_eval { callOf img90 (serialise img90 0 0 enc90) with palette := paletteName (callOf img90 (serialise img90 0 0 enc90)) } 0 rfl
    (by decide) (by decide) (by decide) [2, 1, 0, 0, 0, 0, 0, 0] []
    (by
      show (if (((6 : Nat) : Int)) = (((1 : Nat) : Int) - ((0 : Nat) : Int)) * 2 * (((2 : Nat) : Int) - ((0 : Nat) : Int)) then (.error .notImpl : R Bytes)
        else compressed16 [1, 1, 2, 1, 3, 4] 1 2) = _
      rw [if_neg (by decide)]
      exact w_f90_c)]
  rfl

theorem w_f90_read : readBmp (hdr16 1 2 ++ [2, 1, 0, 0, 0, 0, 0, 0]) ≠ some (canvas img90) := by
  decide +kernel

/-! F91: a 16-bit image with a left offset -/

def img91 : Img := ⟨2, 1, 1, 0, .d16 [[(1, 2)]]⟩
def enc91 : Enc := .packed [[.lit [1], .lit [2]]]

theorem w_f91_loop : loop16 2 4 [0, 1, 0, 2] [0, 0, 0, 0] 0 0 = .ok [1, 2, 0, 0] := by
  rw [loop16]
  simp [jump16, paintLit16, setAtI, setAt]
  rw [loop16]
  simp [jump16, paintLit16, setAtI, setAt]
  rw [loop16]
  simp

theorem w_f91_c : compressed16 [0, 1, 0, 2] 2 1 = .ok [0, 1, 0, 2] := by
  unfold compressed16
  have : loop16 2 (2 * 2) [0, 1, 0, 2] (zeros (2 * 2 * 1)) 0 (((1 : Nat) : Int) - 1) = .ok [1, 2, 0, 0] := w_f91_loop
  rw [this]
  decide

theorem w_f91 : bitd2bmp (callOf img91 (serialise img91 0 0 enc91)) = .ok (hdr16 2 1 ++ [0, 1, 0, 2]) := by
  rw [bitd2bmp_16 _ rfl]
  rw [decode16_eval { callOf img91 (serialise img91 0 0 enc91) with palette := paletteName (callOf img91 (serialise img91 0 0 enc91)) } 0 rfl
    (by decide) (by decide) (by decide) [0, 1, 0, 2] []
    (by
      show (if (((4 : Nat) : Int)) = (((2 : Nat) : Int) - ((1 : Nat) : Int)) * 2 * (((1 : Nat) : Int) - ((0 : Nat) : Int)) then (.error .notImpl : R Bytes)
        else compressed16 [0, 1, 0, 2] 2 1) = _
      rw [if_neg (by decide)]
      exact w_f91_c)]
  rfl

theorem w_f91_read : readBmp (hdr16 2 1 ++ [0, 1, 0, 2]) ≠ some (canvas img91) := by
  decide +kernel

/-! F92: a 32-bit image with a left offset -/

def img92 : Img := ⟨2, 1, 1, 0, .d32 [[(9, 1, 2, 3)]]⟩
def enc92 : Enc := .packed [[.lit [9, 1, 2, 3]]]

theorem w_f92_loop : loop24 8 [3, 9, 1, 2, 3] [0, 0, 0, 0, 0, 0, 0, 0] 0 0 = .ok [9, 1, 2, 3, 0, 0, 0, 0] := by
  rw [loop24]
  simp [paintLit24, put24, setAtI, setAt]
  rw [loop24]
  simp

theorem w_f92_c : compressed24 [3, 9, 1, 2, 3] 2 1 = .ok [0, 0, 2, 0, 0, 3, 0, 0] := by
  unfold compressed24
  have : loop24 (4 * 2) [3, 9, 1, 2, 3] (zeros (4 * 2 * 1)) 0 (((1 : Nat) : Int) - 1) = .ok [9, 1, 2, 3, 0, 0, 0, 0] := w_f92_loop
  rw [this]
  decide

theorem w_f92 : bitd2bmp (callOf img92 (serialise img92 0 0 enc92)) = .ok (hdr24 2 1 ++ [0, 0, 2, 0, 0, 3, 0, 0]) := by
  rw [bitd2bmp_32 _ rfl]
  rw [decode24_eval { callOf img92 (serialise img92 0 0 enc92) with palette := paletteName (callOf img92 (serialise img92 0 0 enc92)) } 0 rfl
    (by decide) (by decide) (by decide) [0, 0, 2, 0, 0, 3, 0, 0] []
    (by
      show (if (((5 : Nat) : Int)) = (((2 : Nat) : Int) - ((1 : Nat) : Int)) * 2 * (((1 : Nat) : Int) - ((0 : Nat) : Int)) then (.error .notImpl : R Bytes)
        else compressed24 [3, 9, 1, 2, 3] 2 1) = _
      rw [if_neg (by decide)]
      exact w_f92_c)]
  rfl

theorem w_f92_read : readBmp (hdr24 2 1 ++ [0, 0, 2, 0, 0, 3, 0, 0]) ≠ some (canvas img92) := by
  decide +kernel

end Drx.Bitd

namespace Drx.Bitd
open Drx Drx.Bitd.Spec

/-! ### what `supportedB` says per depth -/

theorem supportedB_d16_raw (W H ox oy : Nat) (rows : List (List (UInt8 × UInt8))) :
    supportedB ⟨W, H, ox, oy, .d16 rows⟩ .raw = false := by
  unfold supportedB; exact Bool.and_false _

theorem supportedB_d32_raw (W H ox oy : Nat) (rows : List (List Px32)) :
    supportedB ⟨W, H, ox, oy, .d32 rows⟩ .raw = false := by
  unfold supportedB; exact Bool.and_false _

theorem supportedB_d16_packed (W H ox oy : Nat) (rows : List (List (UInt8 × UInt8))) (opsRows : List (List Op))
    (h : supportedB ⟨W, H, ox, oy, .d16 rows⟩ (.packed opsRows) = true) :
    ox = 0 ∧ oy = 0 ∧ ∀ ops ∈ opsRows, straddles (W - ox) 0 ops = false := by
  unfold supportedB at h
  rw [Bool.and_eq_true] at h
  have h2 := h.2
  simp only [Img.w, Bool.and_eq_true, beq_iff_eq, List.all_eq_true, Bool.not_eq_true'] at h2
  exact ⟨h2.1.1, h2.1.2, h2.2⟩

theorem supportedB_d32_packed (W H ox oy : Nat) (rows : List (List Px32)) (opsRows : List (List Op))
    (h : supportedB ⟨W, H, ox, oy, .d32 rows⟩ (.packed opsRows) = true) :
    ox = 0 ∧ oy = 0 ∧ (packed opsRows.flatten).length ≠ 2 * (W - ox) * (H - oy) := by
  unfold supportedB at h
  rw [Bool.and_eq_true] at h
  have h2 := h.2
  simp only [Img.w, Img.h, Bool.and_eq_true, beq_iff_eq, bne_iff_ne, ne_eq] at h2
  exact ⟨h2.1.1, h2.1.2, h2.2⟩

end Drx.Bitd
