/-
  C06: concrete inputs of the excluded class evaluated on the model (replayed on the real code by
  corpus/C06/open_*.json), and what `supportedB` says per depth.
-/
import DrxProofs.Bitd24Top
namespace Drx.Bitd
open Drx Drx.Bitd.Spec

/-- F34: a raw 16-bit image raises NotImplementedError -/
theorem w_f34 : bitd2bmp (callOf ⟨1, 1, 0, 0, .d16 [[(1, 2)]]⟩ (serialise ⟨1, 1, 0, 0, .d16 [[(1, 2)]]⟩ 0 0 .raw)) = .error .notImpl := by
  decide +kernel

/-- F34: a raw 32-bit image raises NotImplementedError -/
theorem w_f34_32 : bitd2bmp (callOf ⟨1, 1, 0, 0, .d32 [[(9, 1, 2, 3)]]⟩ (serialise ⟨1, 1, 0, 0, .d32 [[(9, 1, 2, 3)]]⟩ 0 0 .raw)) = .error .notImpl := by
  decide +kernel

theorem supportedB_d16_raw (W H ox oy : Nat) (rows : List (List (UInt8 × UInt8))) :
    supportedB ⟨W, H, ox, oy, .d16 rows⟩ .raw = false := by
  unfold supportedB; exact Bool.and_false _

theorem supportedB_d32_raw (W H ox oy : Nat) (rows : List (List Px32)) :
    supportedB ⟨W, H, ox, oy, .d32 rows⟩ .raw = false := by
  unfold supportedB; exact Bool.and_false _

end Drx.Bitd
