/-
  C06: concrete inputs of the excluded class evaluated on the model (replayed on the real code by
  corpus/C06/open_*.json), and what `supportedB` says per depth.
-/
import DrxProofs.Bitd24Top
namespace Drx.Bitd
open Drx Drx.Bitd.Spec

/-- F34: a raw 16-bit image raises NotImplementedError -/
theorem w_f34 : bitd2bmp (callOf ⟨1, 1, 0, 0, .d16 [[(1, 2)]]⟩ (serialise ⟨1, 1, 0, 0, .d16 [[(1, 2)]]⟩ 0 0 .raw)) = .error .notImpl := by
  decide +kernel

/-- F34: a raw 32-bit image raises NotImplementedError -/
theorem w_f34_32 : bitd2bmp (callOf ⟨1, 1, 0, 0, .d32 [[(9, 1, 2, 3)]]⟩ (serialise ⟨1, 1, 0, 0, .d32 [[(9, 1, 2, 3)]]⟩ 0 0 .raw)) = .error .notImpl := by
  decide +kernel

theorem supportedB_d16_raw (W H ox oy : Nat) (rows : List (List (UInt8 × UInt8))) :
    supportedB ⟨W, H, ox, oy, .d16 rows⟩ .raw = false := by
  unfold supportedB; exact Bool.and_false _

theorem supportedB_d32_raw (W H ox oy : Nat) (rows : List (List Px32)) :
    supportedB ⟨W, H, ox, oy, .d32 rows⟩ .raw = false := by
  unfold supportedB; exact Bool.and_false _

end Drx.Bitd

namespace Drx.Bitd
open Drx Drx.Bitd.Spec

/-! ### a decoder looks at height and top offset only through `fixPad` -/

theorem decode8_fixPad (r : Bool) (c : Call) (h' : Nat) (p' : Int) (hfp : fixPad c.height c.padH = fixPad h' p') :
    decode8 r c = decode8 r { c with height := h', padH := p' } := by
  unfold decode8; rw [hfp]

theorem decode1_fixPad (r : Bool) (c : Call) (h' : Nat) (p' : Int) (hfp : fixPad c.height c.padH = fixPad h' p') :
    decode1 r c = decode1 r { c with height := h', padH := p' } := by
  unfold decode1; rw [hfp]

theorem decode4_fixPad (r : Bool) (c : Call) (h' : Nat) (p' : Int) (hfp : fixPad c.height c.padH = fixPad h' p') :
    decode4 r c = decode4 r { c with height := h', padH := p' } := by
  unfold decode4; rw [hfp]

theorem decode16_fixPad (r : Bool) (c : Call) (h' : Nat) (p' : Int) (hfp : fixPad c.height c.padH = fixPad h' p') :
    decode16 r c = decode16 r { c with height := h', padH := p' } := by
  unfold decode16; rw [hfp]

theorem decode24_fixPad (r : Bool) (c : Call) (h' : Nat) (p' : Int) (hfp : fixPad c.height c.padH = fixPad h' p') :
    decode24 r c = decode24 r { c with height := h', padH := p' } := by
  unfold decode24; rw [hfp]

theorem decodeClass_fixPad (cls : String) (r : Bool) (c : Call) (h' : Nat) (p' : Int) (hfp : fixPad c.height c.padH = fixPad h' p') :
    decodeClass cls r c = decodeClass cls r { c with height := h', padH := p' } := by
  unfold decodeClass
  split
  · exact decode1_fixPad r c h' p' hfp
  split
  · exact decode4_fixPad r c h' p' hfp
  split
  · exact decode8_fixPad r c h' p' hfp
  split
  · exact decode16_fixPad r c h' p' hfp
  split
  · exact decode24_fixPad r c h' p' hfp
  · rfl

/-- `bitd2bmp` too: two requests that differ only in (height, top offset) and have the same `fixPad` decode alike -/
theorem bitd2bmp_fixPad (c : Call) (h' : Nat) (p' : Int) (hfp : fixPad c.height c.padH = fixPad h' p') :
    bitd2bmp c = bitd2bmp { c with height := h', padH := p' } := by
  unfold bitd2bmp decodeStep
  cases hl : lookupN c.depth Gen.BitdTables.decoders with
  | none => rfl
  | some cls =>
    have := decodeClass_fixPad cls true { c with palette := paletteName c } h' p' hfp
    simp only
    have e : paletteName { c with height := h', padH := p' } = paletteName c := rfl
    rw [e]
    exact congrArg (fun f => (f (DecState.init c.depth)).2) this

theorem fixPad_neg (H k : Nat) (hk : k ≤ H) : fixPad (H - k) (-(k : Int)) = fixPad H 0 := by
  unfold fixPad
  by_cases h0 : k = 0
  · subst h0; simp
  · have : -(k : Int) < 0 := by omega
    simp only [this, if_true, Int.lt_irrefl, if_false, Int.toNat_zero]
    congr 1
    omega

end Drx.Bitd
