/-
  Every `process` appends at most ONE statement (or rebuilds the list into a shorter one): `process_stmts`.
  With it the jump pass has an unconditional quadratic bound in the number of instructions (`jump_pass_quadratic`).
-/
import DrxProofs.LscrStepsCond
namespace Drx.Lscr.Steps
open Drx Drx.Gen Drx.Lscr

/-! ### the state-threading helpers keep the statement list -/

theorem pop_bind {β} (st : PState) (f : Node × PState → R β) :
    (st.pop >>= f) = match st.stack with | [] => .error .index | x :: r => f (x, { st with stack := r }) := by
  unfold PState.pop
  cases st.stack <;> rfl

theorem popInt_bind {β} (st : PState) (f : Int × PState → R β) :
    (popInt st >>= f) = match st.stack with
      | [] => .error .index
      | x :: r => x.name >>= fun n => n.toInt >>= fun v => f (v, { st with stack := r }) := by
  unfold popInt
  simp only [bind_assoc, pure_bind]
  rw [pop_bind]

theorem popName_bind {β} (st : PState) (f : Name × PState → R β) :
    (popName st >>= f) = match st.stack with
      | [] => .error .index
      | x :: r => x.name >>= fun n => f (n, { st with stack := r }) := by
  unfold popName
  simp only [bind_assoc, pure_bind]
  rw [pop_bind]

/-- the closing tactic for a do-block that only pops, pushes and appends one statement -/
macro "stmts_auto" h:ident : tactic => `(tactic| (
  try simp only [bind_assoc, pure_bind] at $h:ident
  try simp only [popInt_bind, popName_bind, pop_bind, bind_assoc, pure_bind, PState.push, PState.addStmt, recIndex] at $h:ident
  try simp only [bind, Except.bind, pure, Except.pure, throw, throwThe, MonadExceptOf.throw] at $h:ident
  repeat (any_goals (split at $h:ident))
  all_goals first
    | (cases $h:ident; done)
    | (cases $h:ident; simp; done)
    | (cases $h:ident; split <;> simp; done)
    | (cases $h:ident; simp [apply_ite PState.stmts]; done)
    | (simp only [Except.ok.injEq] at $h:ident; subst $h:ident; simp; done)))

macro "keeps_auto" h:ident : tactic => `(tactic| (
  try simp only [bind_assoc, pure_bind] at $h:ident
  try simp only [popInt_bind, popName_bind, pop_bind, bind_assoc, pure_bind, PState.push, PState.addStmt, recIndex] at $h:ident
  try simp only [bind, Except.bind, pure, Except.pure, throw, throwThe, MonadExceptOf.throw] at $h:ident
  repeat (any_goals (split at $h:ident))
  all_goals first
    | (cases $h:ident; done)
    | (cases $h:ident; rfl)
    | (cases $h:ident; simp; done)))

theorem findVarName_stmts {ctx : Ctx} {vt : Nat} {st st' : PState} {n : Name} (h : findVarName ctx vt st = .ok (n, st')) :
    st'.stmts = st.stmts := by
  unfold findVarName at h
  split at h
  · keeps_auto h
  · split at h
    · keeps_auto h
    · split at h
      · keeps_auto h
      · cases h

theorem specialProps_stmts {st st' : PState} {index : Int} (h : specialProps st index = .ok st') : st'.stmts = st.stmts := by
  unfold specialProps at h
  keeps_auto h

theorem systemProps_stmts {st st' : PState} {index : Int} (h : systemProps st index = .ok st') : st'.stmts = st.stmts := by
  unfold systemProps at h
  keeps_auto h

theorem objProp_stmts {cls : Leaf} {tbl : List String} {st st' : PState} {index : Int} (h : objProp cls tbl st index = .ok st') :
    st'.stmts = st.stmts := by
  unfold objProp at h
  keeps_auto h

theorem assignTop_stmts {st st' : PState} {index : Int} (h : assignTop st index = .ok st') :
    st'.stmts.length = st.stmts.length + 1 := by
  unfold assignTop at h
  stmts_auto h

theorem assignObjProp_stmts {cls : Leaf} {tbl : List String} {st st' : PState} {index : Int}
    (h : assignObjProp cls tbl st index = .ok st') : st'.stmts.length ≤ st.stmts.length + 1 := by
  unfold assignObjProp at h
  stmts_auto h

theorem addModifiers_stmts {op op' : Node} {st st' : PState} {index : Int} (h : addModifiers op st index = .ok (op', st')) :
    st'.stmts = st.stmts := by
  unfold addModifiers at h
  keeps_auto h


theorem pushOrStmt_stmts {st st' : PState} {index : Int} {op ps : Node} (h : pushOrStmt st index op ps = .ok st') :
    st'.stmts.length ≤ st.stmts.length + 1 := by
  unfold pushOrStmt at h
  stmts_auto h

theorem pop_stmts {st : PState} {v : Node × PState} (h : st.pop = .ok v) : v.2.stmts = st.stmts := by
  unfold PState.pop at h
  split at h
  · cases h
  · cases h; rfl

theorem popInt_stmts {st : PState} {v : Int × PState} (h : popInt st = .ok v) : v.2.stmts = st.stmts := by
  unfold popInt at h
  obtain ⟨a, h1, h⟩ := bind_ok h
  have := pop_stmts h1
  simp only at h
  obtain ⟨n, _, h⟩ := bind_ok h
  obtain ⟨w, _, h⟩ := bind_ok h
  cases h
  exact this

theorem addModifiers_stmts' {op : Node} {st : PState} {index : Int} {v : Node × PState} (h : addModifiers op st index = .ok v) :
    v.2.stmts = st.stmts := addModifiers_stmts (op' := v.1) (st' := v.2) h

/-- the common tail of the put-chunk opcodes -/
theorem putTail_stmts {lval : Node} {st st' : PState} {index : Int} {mode : Str}
    (h : (do
        let (lval, st) ← addModifiers lval st index
        let (r, st) ← st.pop
        pure (st.addStmt index (.spAssign index lval r mode)) : R PState) = .ok st') :
    st'.stmts.length = st.stmts.length + 1 := by
  obtain ⟨v, h1, h⟩ := bind_ok h
  have e1 := addModifiers_stmts' h1
  simp only at h
  obtain ⟨w, h2, h⟩ := bind_ok h
  have e2 := pop_stmts h2
  simp only [pure, Except.pure, Except.ok.injEq] at h
  subst h
  simp [PState.addStmt, e1, e2]

theorem deleteTail_stmts {lval : Node} {st st' : PState} {index : Int}
    (h : (do
        let (lval, st) ← addModifiers lval st index
        pure (st.addStmt index (.unary (S "delete") index lval)) : R PState) = .ok st') :
    st'.stmts.length = st.stmts.length + 1 := by
  obtain ⟨v, h1, h⟩ := bind_ok h
  have e1 := addModifiers_stmts' h1
  simp only [pure, Except.pure, Except.ok.injEq] at h
  subst h
  simp [PState.addStmt, e1]

theorem putChunk_stmts {ctx : Ctx} {target : String} {mode : Str} {st st' : PState} {index : Int}
    (h : putChunk ctx target mode st index = .ok st') : st'.stmts.length ≤ st.stmts.length + 1 := by
  unfold putChunk at h
  simp only at h
  by_cases t1 : target = "field"
  · simp only [t1, if_true] at h
    obtain ⟨v, h1, h⟩ := bind_ok h
    have e1 := pop_stmts h1
    simp only [pure_bind] at h
    have := putTail_stmts h
    have := congrArg List.length e1
    omega
  · simp only [t1, if_false] at h
    by_cases t2 : target = "list"
    · simp only [t2, if_true] at h
      obtain ⟨v, h1, h⟩ := bind_ok h
      have e1 := pop_stmts h1
      have := putTail_stmts h
      have := congrArg List.length e1
      omega
    · simp only [t2, if_false] at h
      obtain ⟨v, h1, h⟩ := bind_ok h
      have e1 := popInt_stmts h1
      simp only [recIndex] at h
      obtain ⟨lv, _, h⟩ := bind_ok h
      simp only [pure_bind] at h
      have := putTail_stmts h
      have := congrArg List.length e1
      simp only at *
      omega

theorem deleteChunk_stmts {ctx : Ctx} {target : String} {st st' : PState} {index : Int}
    (h : deleteChunk ctx target st index = .ok st') : st'.stmts.length ≤ st.stmts.length + 1 := by
  unfold deleteChunk at h
  simp only at h
  by_cases t1 : target = "field"
  · simp only [t1, if_true] at h
    obtain ⟨v, h1, h⟩ := bind_ok h
    have e1 := pop_stmts h1
    simp only [pure_bind] at h
    have := deleteTail_stmts h
    have := congrArg List.length e1
    omega
  · simp only [t1, if_false] at h
    by_cases t2 : target = "list"
    · simp only [t2, if_true] at h
      obtain ⟨v, h1, h⟩ := bind_ok h
      have e1 := pop_stmts h1
      have := deleteTail_stmts h
      have := congrArg List.length e1
      omega
    · simp only [t2, if_false] at h
      obtain ⟨v, h1, h⟩ := bind_ok h
      have e1 := popInt_stmts h1
      simp only [recIndex] at h
      obtain ⟨lv, _, h⟩ := bind_ok h
      simp only [pure_bind] at h
      have := deleteTail_stmts h
      have := congrArg List.length e1
      simp only at *
      omega

theorem jumpBack_len {stmts s' : List Node} {index : Int} {k : Nat} (h : jumpBack stmts index k = .ok s') :
    s'.length ≤ stmts.length + 1 := by
  unfold jumpBack at h
  simp only [bind, Except.bind, pure, Except.pure] at h
  split at h
  · cases h
  · rename_i rest hr
    have := pyRemoveAll_length hr
    cases h
    simp only [List.length_append, List.length_cons, List.length_nil]
    omega

theorem splitLastTell_eq {l before after : List Node} {t : Node} (h : splitLastTell l = some (before, t, after)) :
    l = before ++ [t] ++ after := by
  induction l generalizing before after t with
  | nil => simp [splitLastTell] at h
  | cons x r ih =>
    unfold splitLastTell at h
    split at h
    · rename_i b t' a hr
      simp only [Option.some.injEq, Prod.mk.injEq] at h
      obtain ⟨h1, h2, h3⟩ := h
      subst h1; subst h2; subst h3
      rw [ih hr]; simp
    · split at h
      · simp only [Option.some.injEq, Prod.mk.injEq] at h
        obtain ⟨h1, h2, h3⟩ := h
        subst h1; subst h2; subst h3
        simp
      · cases h

theorem tellEnd_len {stmts s' : List Node} {b : Bool} (h : tellEnd stmts = .ok (s', b)) : s'.length ≤ stmts.length := by
  unfold tellEnd at h
  obtain ⟨_, _, h⟩ := bind_ok h
  simp only at h
  split at h
  · obtain ⟨v, hv, h⟩ := bind_ok h
    simp only [pure, Except.pure, Except.ok.injEq, Prod.mk.injEq] at h
    obtain ⟨h1, _⟩ := h
    subst h1
    have := pyRemoveAll_length hv; omega
  · rename_i before tp p operand inner closed after hs
    have e := splitLastTell_eq hs
    obtain ⟨v, hv, h⟩ := bind_ok h
    simp only [pure, Except.pure, Except.ok.injEq, Prod.mk.injEq] at h
    obtain ⟨h1, _⟩ := h
    subst h1
    have := pyRemoveAll_length hv
    rw [e]
    simp only [List.length_append, List.length_cons, List.length_nil] at this ⊢
    omega
  · obtain ⟨v, hv, h⟩ := bind_ok h
    cases hv


/-! ### process -/

theorem ite_stmts_len {c : Prop} [Decidable c] {a b : PState} {n : Nat} (ha : a.stmts.length ≤ n) (hb : b.stmts.length ≤ n) :
    (if c then a else b).stmts.length ≤ n := by
  split <;> assumption

theorem process2_stmts {ctx : Ctx} {info : Opcodes.OpInfo} {p1 p2 : Nat} {index : Int} {st st' : PState}
    (h : process2 ctx info p1 p2 index st = .ok st') : st'.stmts.length ≤ st.stmts.length + 1 := by
  unfold process2 at h
  stmts_auto h

theorem process1_stmts {ctx : Ctx} {info : Opcodes.OpInfo} {p1 : Nat} {index : Int} {st st' : PState}
    (h : process1 ctx info p1 index st = .ok st') : st'.stmts.length ≤ st.stmts.length + 1 := by
  unfold process1 at h
  split at h
  all_goals first
    | (stmts_auto h; done)
    | (simp only [pushOrStmt] at h; stmts_auto h; done)
    | (obtain ⟨s', hj, h⟩ := bind_ok h; have := jumpBack_len hj; cases h; simp only; omega)
    | skip
  · -- GlobalVariableOpcode
    obtain ⟨n, _, h⟩ := bind_ok h
    simp only [pure, Except.pure, Except.ok.injEq] at h
    subst h
    apply ite_stmts_len <;> simp [PState.push]
  · -- AssignGlobalVariableOpcode
    obtain ⟨n, _, h⟩ := bind_ok h
    simp only at h
    obtain ⟨w, h2, h⟩ := bind_ok h
    have e2 := congrArg List.length (pop_stmts h2)
    simp only [pure, Except.pure, Except.ok.injEq] at h
    subst h
    apply ite_stmts_len <;> simp [PState.addStmt] <;> omega
  · -- CallObjectMethodOpcode: findVarName is a helper that returns the state
    obtain ⟨v, h1, h⟩ := bind_ok h
    have e1 := congrArg List.length (findVarName_stmts (n := v.1) (st' := v.2) h1)
    simp only at h
    obtain ⟨w, h2, h⟩ := bind_ok h
    have e2 := congrArg List.length (pop_stmts h2)
    try simp only at h
    split at h
    · simp only [pure, Except.pure, Except.ok.injEq] at h
      subst h
      apply ite_stmts_len <;> simp [PState.push, PState.addStmt] <;> omega
    · cases h

theorem process0_stmts {ctx : Ctx} {info : Opcodes.OpInfo} {index : Int} {st st' : PState}
    (h : process0 ctx info index st = .ok st') : st'.stmts.length ≤ st.stmts.length + 1 := by
  unfold process0 at h
  split at h
  all_goals first
    | (stmts_auto h; done)
    | (have := putChunk_stmts h; omega)
    | (have := deleteChunk_stmts h; omega)
    | (have := congrArg List.length (specialProps_stmts h); omega)
    | (have := congrArg List.length (systemProps_stmts h); omega)
    | (have := congrArg List.length (objProp_stmts h); omega)
    | (have := assignObjProp_stmts h; omega)
    | (obtain ⟨s1, h1, h⟩ := bind_ok h; have := congrArg List.length (specialProps_stmts h1); have := assignTop_stmts h; omega)
    | (obtain ⟨s1, h1, h⟩ := bind_ok h; have := congrArg List.length (systemProps_stmts h1); have := assignTop_stmts h; omega)
    | skip
  · -- WindowTellEndOpcode
    obtain ⟨v, h1, h⟩ := bind_ok h
    have := tellEnd_len (s' := v.1) (b := v.2) h1
    simp only [pure, Except.pure, Except.ok.injEq] at h
    subst h
    simp only
    omega
  · -- StringOperationOpcode
    obtain ⟨v, h1, h⟩ := bind_ok h
    have e1 := congrArg List.length (pop_stmts h1)
    simp only at h
    obtain ⟨w, h2, h⟩ := bind_ok h
    have e2 := congrArg List.length (addModifiers_stmts' h2)
    simp only [pure, Except.pure, Except.ok.injEq] at h
    subst h
    simp only [PState.push]
    omega
  · -- HiliteOpcode
    obtain ⟨v, h1, h⟩ := bind_ok h
    have e1 := congrArg List.length (pop_stmts h1)
    simp only at h
    obtain ⟨w, h2, h⟩ := bind_ok h
    have e2 := congrArg List.length (addModifiers_stmts' h2)
    simp only [pure, Except.pure, Except.ok.injEq] at h
    subst h
    simp only [PState.addStmt, List.length_append, List.length_cons, List.length_nil]
    omega

/-- every opcode appends at most one statement -/
theorem process_stmts {ctx : Ctx} {info : Opcodes.OpInfo} {p1 p2 : Nat} {index : Int} {st st' : PState}
    (h : process ctx info p1 p2 index st = .ok st') : st'.stmts.length ≤ st.stmts.length + 1 := by
  unfold process at h
  split at h
  · exact process2_stmts h
  · split at h
    · exact process1_stmts h
    · exact process0_stmts h

theorem stepOpcode_stmts {ctx : Ctx} {d : Bytes} {idxc index : Int} {regs : Regs} {st : PState} {r : Int × Regs × PState}
    (h : stepOpcode ctx d idxc index regs st = .ok r) : r.2.2.stmts.length ≤ st.stmts.length + 1 := by
  unfold stepOpcode at h
  obtain ⟨opcode, _, h⟩ := bind_ok h
  split at h
  · cases h
  · split at h
    · -- two bytes
      unfold step2 at h
      obtain ⟨o2, _, h⟩ := bind_ok h
      split at h
      · split at h
        · cases h
        · obtain ⟨s1, h1, h⟩ := bind_ok h
          simp only [pure, Except.pure, Except.ok.injEq] at h
          subst h
          exact process_stmts h1
      · obtain ⟨s1, h1, h⟩ := bind_ok h
        simp only [pure, Except.pure, Except.ok.injEq] at h
        subst h
        exact process_stmts h1
    · split at h
      · unfold step3 at h
        obtain ⟨o2, _, h⟩ := bind_ok h
        obtain ⟨o3, _, h⟩ := bind_ok h
        split at h
        · split at h
          · cases h
          · obtain ⟨s1, h1, h⟩ := bind_ok h
            simp only [pure, Except.pure, Except.ok.injEq] at h
            subst h
            exact process_stmts h1
        · obtain ⟨s1, h1, h⟩ := bind_ok h
          simp only [pure, Except.pure, Except.ok.injEq] at h
          subst h
          exact process_stmts h1
      · unfold step1 at h
        obtain ⟨s1, h1, h⟩ := bind_ok h
        simp only [pure, Except.pure, Except.ok.injEq] at h
        subst h
        exact process_stmts h1

/-- **the jump pass is at most quadratic in the number of instructions, for every input**: the rounds of
    `JumpOpcode.process` over a whole opcode loop are at most `2 · rounds · (statements at the start + rounds)` -/
theorem jump_pass_quadratic (ctx : Ctx) (d : Bytes) (bcOff bcLen idxc : Int) (regs : Regs) (st : PState) :
    (opcodeLoopS ctx d bcOff bcLen idxc regs st).1.jump ≤
      2 * (opcodeLoopS ctx d bcOff bcLen idxc regs st).1.rounds *
        (st.stmts.length + (opcodeLoopS ctx d bcOff bcLen idxc regs st).1.rounds) := by
  fun_induction opcodeLoopS ctx d bcOff bcLen idxc regs st with
  | case1 idxc regs st hlt e he =>
    have := jumpRounds_le d idxc st
    simp only [Nat.mul_one, Nat.mul_add]
    omega
  | case2 idxc regs st hlt r hr rest ih =>
    have hj := jumpRounds_le d idxc st
    have hs := stepOpcode_stmts hr
    have hrest : rest = opcodeLoopS ctx d bcOff bcLen r.1 r.2.1 r.2.2 := rfl
    rw [← hrest] at ih
    simp only
    -- J ≤ 2·L + 2·R·(L + 1 + R)  ≤  2·(1+R)·(L + 1 + R)
    have h1 : 2 * rest.1.rounds * (r.2.2.stmts.length + rest.1.rounds) ≤ 2 * rest.1.rounds * (st.stmts.length + 1 + rest.1.rounds) :=
      Nat.mul_le_mul_left _ (by omega)
    have e : 2 * (1 + rest.1.rounds) * (st.stmts.length + (1 + rest.1.rounds)) =
        2 * (st.stmts.length + (1 + rest.1.rounds)) + 2 * rest.1.rounds * (st.stmts.length + 1 + rest.1.rounds) := by
      rw [Nat.mul_add 2 1, Nat.add_mul]
      congr 2
      omega
    rw [e]
    omega
  | case3 idxc regs st hlt => simp

end Drx.Lscr.Steps
