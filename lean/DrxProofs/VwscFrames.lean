/-
  C08 fields_roundtrip at the level of a whole channel buffer: `parse_vwsc_channels` run on main ++ palette ++ sprites
  returns the views of the records, for both layouts and any number of sprite channels.
-/
import DrxProofs.VwscFields
namespace Drx.Vwsc
open Drx Drx.Vwsc.Spec

theorem spriteLoop_nil (lay : Layout) : spriteLoop lay [] = .ok [] := by rw [spriteLoop.eq_def]

theorem spriteLoop_ne (lay : Layout) (rest : Bytes) (h : rest ≠ []) :
    spriteLoop lay rest =
      match readSprite lay (rest.take lay.frameSize) with
      | .error e => .error e
      | .ok s =>
        match spriteLoop lay (rest.drop lay.frameSize) with
        | .error e => .error e
        | .ok ss => .ok (s :: ss) := by
  cases rest with
  | nil => exact absurd rfl h
  | cons b bs =>
    rw [spriteLoop.eq_def]
    cases readSprite lay (List.take lay.frameSize (b :: bs)) <;> simp only []
    cases spriteLoop lay (List.drop lay.frameSize (b :: bs)) <;> rfl

theorem ne_nil_of_length {l : Bytes} {n : Nat} (h : l.length = n + 1) : l ≠ [] := by
  intro e; subst e; simp at h

theorem spriteLoop_d4 (ss : List RawSpriteD4) (h : ∀ s ∈ ss, s.Valid) :
    spriteLoop .d4 (encSpritesD4 ss) = .ok (ss.map viewSpriteD4) := by
  induction ss with
  | nil => exact spriteLoop_nil _
  | cons s ss ih =>
    have hs := h s (by simp)
    have hl := encSpriteD4_length s hs
    have hne : encSpritesD4 (s :: ss) ≠ [] := by
      apply ne_nil_of_length (n := 19 + (encSpritesD4 ss).length); simp [encSpritesD4, hl]; omega
    rw [spriteLoop_ne _ _ hne]
    have ht : (encSpritesD4 (s :: ss)).take Layout.d4.frameSize = encSpriteD4 s := by
      simp [encSpritesD4, Layout.frameSize, hl]
    have hd : (encSpritesD4 (s :: ss)).drop Layout.d4.frameSize = encSpritesD4 ss := by
      simp only [encSpritesD4, Layout.frameSize]; rw [← hl, List.drop_left]
    rw [ht, hd, ih (fun s' hs' => h s' (by simp [hs']))]
    simp [readSprite, d4ReadSprite_enc s hs]

theorem spriteLoop_d5 (ss : List RawSpriteD5) (h : ∀ s ∈ ss, s.Valid) :
    spriteLoop .d5 (encSpritesD5 ss) = .ok (ss.map viewSpriteD5) := by
  induction ss with
  | nil => exact spriteLoop_nil _
  | cons s ss ih =>
    have hs := h s (by simp)
    have hl := encSpriteD5_length s hs
    have hne : encSpritesD5 (s :: ss) ≠ [] := by
      apply ne_nil_of_length (n := 23 + (encSpritesD5 ss).length); simp [encSpritesD5, hl]; omega
    rw [spriteLoop_ne _ _ hne]
    have ht : (encSpritesD5 (s :: ss)).take Layout.d5.frameSize = encSpriteD5 s := by
      simp [encSpritesD5, Layout.frameSize, hl]
    have hd : (encSpritesD5 (s :: ss)).drop Layout.d5.frameSize = encSpritesD5 ss := by
      simp only [encSpritesD5, Layout.frameSize]; rw [← hl, List.drop_left]
    rw [ht, hd, ih (fun s' hs' => h s' (by simp [hs']))]
    simp [readSprite, d5ReadSprite_enc s hs]

theorem parseChannels_d4 (f : RawFrameD4) (h : f.Valid) : parseChannels .d4 (encFrameD4 f) = .ok (viewFrameD4 f) := by
  obtain ⟨hm, hp, hs⟩ := h
  have lm := encMainD4_length f.main hm
  have lp := encPalD4_length f.pal hp
  have e1 : slice (encFrameD4 f) 0 Layout.d4.frameSize = encMainD4 f.main := by
    simp only [encFrameD4, Layout.frameSize, List.append_assoc]
    exact slice_append_left _ _ _ lm.symm
  have e2 : slice (encFrameD4 f) Layout.d4.frameSize (Layout.d4.frameSize + Layout.d4.frameSize) = encPalD4 f.pal := by
    simp only [encFrameD4, Layout.frameSize, List.append_assoc]
    exact slice_mid _ _ _ _ _ lm.symm (by rw [lm, lp])
  have e3 : (encFrameD4 f).drop (Layout.d4.frameSize + Layout.d4.frameSize) = encSpritesD4 f.sprites := by
    simp only [encFrameD4, Layout.frameSize]
    have : (encMainD4 f.main ++ encPalD4 f.pal).length = 20 + 20 := by simp [lm, lp]
    rw [← this, List.drop_left]
  simp only [parseChannels, e1, e2, e3, readMain, readPalette, d4ReadMain_enc f.main hm, d4ReadPalette_enc f.pal hp, spriteLoop_d4 f.sprites hs,
    bind, Except.bind, pure, Except.pure, viewFrameD4]

theorem parseChannels_d5 (f : RawFrameD5) (h : f.Valid) : parseChannels .d5 (encFrameD5 f) = .ok (viewFrameD5 f) := by
  obtain ⟨hm, hp, hs⟩ := h
  have lm := encMainD5_length f.main hm
  have lp := encPalD5_length f.pal hp
  have e1 : slice (encFrameD5 f) 0 Layout.d5.frameSize = encMainD5 f.main := by
    simp only [encFrameD5, Layout.frameSize, List.append_assoc]
    exact slice_append_left _ _ _ lm.symm
  have e2 : slice (encFrameD5 f) Layout.d5.frameSize (Layout.d5.frameSize + Layout.d5.frameSize) = encPalD5 f.pal := by
    simp only [encFrameD5, Layout.frameSize, List.append_assoc]
    exact slice_mid _ _ _ _ _ lm.symm (by rw [lm, lp])
  have e3 : (encFrameD5 f).drop (Layout.d5.frameSize + Layout.d5.frameSize) = encSpritesD5 f.sprites := by
    simp only [encFrameD5, Layout.frameSize]
    have : (encMainD5 f.main ++ encPalD5 f.pal).length = 24 + 24 := by simp [lm, lp]
    rw [← this, List.drop_left]
  simp only [parseChannels, e1, e2, e3, readMain, readPalette, d5ReadMain_enc f.main hm, d5ReadPalette_enc f.pal hp, spriteLoop_d5 f.sprites hs,
    bind, Except.bind, pure, Except.pure, viewFrameD5]

end Drx.Vwsc
