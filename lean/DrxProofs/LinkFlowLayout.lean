/-
  C03 link: the positions and jump addresses of the event stream `rawEv` are those of the spec layer's structured layout
  `Spec.layoutStmts` (lean/Drx/Spec/Compile.lean).  `Abs cs ps` relates a jump-free, exit-free control skeleton `cs : List CStmt` to
  a statement-level skeleton `ps : List P` with the same fragment sizes; then the forward jumps of the laid-out code (own address,
  target) are exactly the jz / jump statements of `rawEv`, and its back jumps exactly the `back` events.
-/
import DrxProofs.LinkFlowParse
import DrxProofs.SpecLayout
namespace Drx.LinkFlow
open Drx Drx.Lscr

/-- a piece of a straight-line fragment: one simple statement or statement-less code -/
def IsLeaf : P → Prop
  | .simple s => simpleCode s.code = true
  | .skip _ => True
  | _ => False

/-- a jump-free instruction list and the statement-level pieces it is cut into (any number, sizes add up) -/
def Frag (is : List Spec.Instr) (fs : List P) : Prop :=
  Spec.NoJump is ∧ P.sizes fs = Spec.codeSize is ∧ ∀ x ∈ fs, IsLeaf x

/-- `ps` is a statement-level view of the (exit-free) control skeleton `cs` -/
inductive Abs : List Spec.CStmt → List P → Prop
  | nil : Abs [] []
  | code (is : List Spec.Instr) (fs : List P) (cs : List Spec.CStmt) (ps : List P) :
      Frag is fs → fs ≠ [] → Abs cs ps → Abs (.code is :: cs) (fs ++ ps)
  | ifThen (c : List Spec.Instr) (cond : Node) (t e : List Spec.CStmt) (t' e' : List P) (cs : List Spec.CStmt) (ps : List P) :
      Spec.NoJump c → Abs t t' → Abs e e' → Abs cs ps →
      Abs (.ifThen c t e :: cs) (.ifThen (Spec.codeSize c) cond t' e' :: ps)
  | loop (pre c bp : List Spec.Instr) (body : List Spec.CStmt) (incr post : List Spec.Instr) (cond : Node)
      (fpre fbp body' fincr fpost : List P) (cs : List Spec.CStmt) (ps : List P) :
      Frag pre fpre → Spec.NoJump c → Frag bp fbp → Abs body body' → Frag incr fincr → Frag post fpost → Abs cs ps →
      Abs (.loop pre c bp body incr post :: cs) (fpre ++ .loop (Spec.codeSize c) cond (fbp ++ (body' ++ fincr)) :: (fpost ++ ps))

/-- forward jumps of an event list: (position, address) of the jz / jump statements -/
def evFwd : List Ev → List (Int × Int)
  | [] => []
  | .st (.stmt p (.jz _ _ a)) :: es => (p, a) :: evFwd es
  | .st (.stmt p (.jump _ a)) :: es => (p, a) :: evFwd es
  | _ :: es => evFwd es

/-- back jumps of an event list: (position, target) -/
def evBack : List Ev → List (Int × Int)
  | [] => []
  | .back i k :: es => (i, i - k) :: evBack es
  | _ :: es => evBack es

def castP (p : Nat × Nat) : Int × Int := ((p.1 : Int), (p.2 : Int))

theorem evFwd_append (a b : List Ev) : evFwd (a ++ b) = evFwd a ++ evFwd b := by
  induction a with
  | nil => rfl
  | cons x a ih =>
    cases x with
    | back i k => simp [evFwd, ih]
    | st n =>
      cases n with
      | stmt p c => cases c <;> simp [evFwd, ih]
      | _ => simp [evFwd, ih]

theorem evBack_append (a b : List Ev) : evBack (a ++ b) = evBack a ++ evBack b := by
  induction a with
  | nil => rfl
  | cons x a ih => cases x <;> simp [evBack, ih]

theorem rawEv_append (o : Int) (a b : List P) : rawEv o (a ++ b) = rawEv o a ++ rawEv (o + P.sizes a) b := by
  induction a generalizing o with
  | nil => simp [rawEv, P.sizes]
  | cons x a ih =>
    have e : o + (x.size : Int) + (P.sizes a : Int) = o + ((x.size + P.sizes a : Nat) : Int) := by push_cast; omega
    simp only [List.cons_append, rawEv, P.sizes, ih, List.append_assoc, e]

theorem evFwd_st_simple (p : Int) (c : Node) (h : simpleCode c = true) (es : List Ev) : evFwd (.st (.stmt p c) :: es) = evFwd es := by
  obtain ⟨h1, h2, _, _, _⟩ := simpleCode_spec h
  cases c <;> first | (exact absurd rfl h1) | (exact absurd rfl h2) | rfl

/-- straight-line pieces contribute no jump and no back jump -/
theorem leaf_events (fs : List P) (h : ∀ x ∈ fs, IsLeaf x) : ∀ o, evFwd (rawEv o fs) = [] ∧ evBack (rawEv o fs) = [] := by
  induction fs with
  | nil => intro o; simp [rawEv, evFwd, evBack]
  | cons x fs ih =>
    intro o
    have hx := h x List.mem_cons_self
    have ih' := ih (fun y hy => h y (List.mem_cons_of_mem _ hy)) (o + x.size)
    cases x with
    | simple s =>
      simp only [rawEv, rawEv1, List.cons_append, List.nil_append]
      exact ⟨by rw [evFwd_st_simple _ _ hx]; exact ih'.1, by simp only [evBack]; exact ih'.2⟩
    | skip n => simpa [rawEv, rawEv1] using ih'
    | ifThen csz cond t e => exact absurd hx (by simp [IsLeaf])
    | loop csz cond b => exact absurd hx (by simp [IsLeaf])
    | loopX csz cond b1 csz2 cond2 t b2 => exact absurd hx (by simp [IsLeaf])

theorem abs_nil_iff {cs : List Spec.CStmt} {ps : List P} (h : Abs cs ps) : cs = [] ↔ ps = [] := by
  cases h with
  | nil => simp
  | code is fs cs ps hf hne _ => simp [hne]
  | ifThen => simp
  | loop => simp

theorem abs_isEmpty {cs : List Spec.CStmt} {ps : List P} (h : Abs cs ps) : cs.isEmpty = ps.isEmpty := by
  have := abs_nil_iff h
  cases cs <;> cases ps <;> simp_all

/-- same total size -/
theorem abs_sizes {cs : List Spec.CStmt} {ps : List P} (h : Abs cs ps) : Spec.CStmt.sizes cs = P.sizes ps := by
  induction h with
  | nil => simp [Spec.CStmt.sizes, P.sizes]
  | code is fs cs ps hf _ _ ih =>
    simp only [Spec.CStmt.sizes, Spec.CStmt.size, sizes_append, ih, hf.2.1]
  | ifThen c cond t e t' e' cs ps _ ht he _ iht ihe ih =>
    simp only [Spec.CStmt.sizes, Spec.CStmt.size, P.sizes, P.size, iht, ihe, ih, abs_isEmpty he]
  | loop pre c bp body incr post cond fpre fbp body' fincr fpost cs ps hpre _ hbp _ hincr hpost _ ihb ih =>
    simp only [Spec.CStmt.sizes, Spec.CStmt.size, sizes_append, P.sizes, P.size, ihb, ih, hpre.2.1, hbp.2.1, hincr.2.1, hpost.2.1]
    omega

theorem cons_congr {α : Type} {a b : α} {l m : List α} (h1 : a = b) (h2 : l = m) : a :: l = b :: m := by rw [h1, h2]

theorem append_congr {α : Type} {a b c d : List α} (h1 : a = b) (h2 : c = d) : a ++ c = b ++ d := by rw [h1, h2]

theorem evFwd_rawEv_congr {a b : Int} (h : a = b) (ps : List P) : evFwd (rawEv a ps) = evFwd (rawEv b ps) := by rw [h]
theorem evBack_rawEv_congr {a b : Int} (h : a = b) (ps : List P) : evBack (rawEv a ps) = evBack (rawEv b ps) := by rw [h]

theorem layoutStmts_cons (te : Option Nat) (s : Spec.CStmt) (ss : List Spec.CStmt) :
    Spec.layoutStmts te (s :: ss) = Spec.layoutStmt (te.map (· + Spec.CStmt.sizes ss)) s ++ Spec.layoutStmts te ss := by
  simp only [Spec.layoutStmts]

theorem rawEv_cons (o : Int) (x : P) (ps : List P) : rawEv o (x :: ps) = rawEv1 o x ++ rawEv (o + x.size) ps := by
  simp only [rawEv]

/-- **forward jumps**: the conditional and unconditional forward jumps of the laid-out code, with their own addresses and their
    targets, are exactly the jz / jump statements of the event stream (in order) -/
theorem abs_fwdJumps {cs : List Spec.CStmt} {ps : List P} (h : Abs cs ps) :
    ∀ (te : Option Nat) (o : Nat), (Spec.fwdJumps (Spec.layoutStmts te cs) o).map castP = evFwd (rawEv (o : Int) ps) := by
  induction h with
  | nil => intro te o; simp [Spec.layoutStmts, Spec.fwdJumps, rawEv, evFwd]
  | code is fs cs ps hf _ _ ih =>
    intro te o
    rw [layoutStmts_cons, Spec.fwdJumps_append, Spec.layoutStmt_size, rawEv_append, evFwd_append, (leaf_events fs hf.2.2 _).1]
    simp only [Spec.layoutStmt, Spec.fwdJumps_noJump is o hf.1, List.nil_append, Spec.CStmt.size]
    rw [ih te (o + Spec.codeSize is), hf.2.1]
    push_cast; rfl
  | ifThen c cond t e t' e' cs ps hc ht he _ iht ihe ih =>
    intro te o
    have st := abs_sizes ht
    have se := abs_sizes he
    rw [layoutStmts_cons, Spec.fwdJumps_append, Spec.layoutStmt_size, rawEv_cons, evFwd_append, List.map_append, ih te _]
    congr 1
    · by_cases hemp : e' = []
      · subst hemp
        have hE : e.isEmpty = true := by rw [abs_isEmpty he]; rfl
        rw [Spec.fwdJumps_if1 _ c t e o hc hE, rawEv1_if_noelse, List.map_cons, iht _ _]
        simp only [evFwd, jzStmt, castP, st]
        congr 2 <;> (try (push_cast; omega))
      · have hE : e.isEmpty = false := by rw [abs_isEmpty he]; cases e' <;> simp_all
        rw [Spec.fwdJumps_if2 _ c t e o hc hE, rawEv1_if_else _ _ _ _ _ hemp, List.map_cons, List.map_append, List.map_cons,
          iht _ _, ihe _ _]
        simp only [evFwd, jzStmt, jumpStmt, evFwd_append, castP, st, se]
        congr 2 <;> (try (push_cast; omega))
        exact cons_congr (Prod.ext (by push_cast; omega) (by push_cast; omega))
          (evFwd_rawEv_congr (by push_cast; omega) _)
    · congr 2
      simp only [Spec.CStmt.size, P.size, st, se, abs_isEmpty he]
      push_cast; rfl
  | loop pre c bp body incr post cond fpre fbp body' fincr fpost cs ps hpre hc hbp hb hincr hpost _ ihb ih =>
    intro te o
    have sb := abs_sizes hb
    rw [layoutStmts_cons, Spec.fwdJumps_append, Spec.layoutStmt_size, List.map_append, ih te _,
      Spec.fwdJumps_loop _ pre c bp body incr post o hpre.1 hc hbp.1 hincr.1 hpost.1, List.map_cons, ihb _ _]
    rw [rawEv_append, evFwd_append, (leaf_events fpre hpre.2.2 _).1, List.nil_append, rawEv_cons, evFwd_append, rawEv_append,
      evFwd_append, (leaf_events fpost hpost.2.2 _).1, List.nil_append, rawEv1_loop]
    simp only [evFwd, jzStmt, List.cons_append, evFwd_append, rawEv_append, (leaf_events fbp hbp.2.2 _).1, (leaf_events fincr hincr.2.2 _).1,
      List.nil_append, List.append_nil, castP, sizes_append, hpre.2.1, hbp.2.1, hincr.2.1, hpost.2.1, sb, Spec.CStmt.size, P.size,
      List.append_assoc]
    congr 2 <;> (try (push_cast; omega))
    exact evFwd_rawEv_congr (by push_cast; omega) _

/-! ### back jumps -/

theorem backJumps_append (a b : List Spec.Instr) (o : Nat) :
    Spec.backJumps (a ++ b) o = Spec.backJumps a o ++ Spec.backJumps b (o + Spec.codeSize a) := by
  induction a generalizing o with
  | nil => simp [Spec.backJumps, Spec.codeSize]
  | cons i a ih =>
    cases i with
    | op1 x => simp [Spec.backJumps, Spec.codeSize, Spec.Instr.size, ih, Nat.add_assoc]
    | op2 x y => simp [Spec.backJumps, Spec.codeSize, Spec.Instr.size, ih, Nat.add_assoc]
    | op3 x y => simp [Spec.backJumps, Spec.codeSize, Spec.Instr.size, ih, Nat.add_assoc]

theorem backJumps_noJump (is : List Spec.Instr) (o : Nat) (h : Spec.NoJump is) : Spec.backJumps is o = [] := by
  induction is generalizing o with
  | nil => rfl
  | cons i is ih =>
    have hi : i.isJump = false := h i (by simp)
    have hr : Spec.NoJump is := fun j hj => h j (by simp [hj])
    cases i with
    | op1 x => simp [Spec.backJumps, ih _ hr]
    | op3 x y => simp [Spec.backJumps, ih _ hr]
    | op2 x y =>
      have : ¬ (x = 0x54) := by
        intro hx
        simp [Spec.Instr.isJump, hx] at hi
      simp [Spec.backJumps, this, ih _ hr]

theorem backJumps_op3 (b x : Nat) (o : Nat) : Spec.backJumps [.op3 b x] o = [] := by simp [Spec.backJumps]

/-- **back jumps**: the `54` instructions of the laid-out code, with their own addresses and targets, are exactly the `back`
    events (in order) -/
theorem abs_backJumps {cs : List Spec.CStmt} {ps : List P} (h : Abs cs ps) :
    ∀ (te : Option Nat) (o : Nat), (Spec.backJumps (Spec.layoutStmts te cs) o).map castP = evBack (rawEv (o : Int) ps) := by
  induction h with
  | nil => intro te o; simp [Spec.layoutStmts, Spec.backJumps, rawEv, evBack]
  | code is fs cs ps hf _ _ ih =>
    intro te o
    rw [layoutStmts_cons, backJumps_append, Spec.layoutStmt_size, rawEv_append, evBack_append, (leaf_events fs hf.2.2 _).2]
    simp only [Spec.layoutStmt, backJumps_noJump is o hf.1, List.nil_append, Spec.CStmt.size]
    rw [ih te (o + Spec.codeSize is), hf.2.1]
    push_cast; rfl
  | ifThen c cond t e t' e' cs ps hc ht he _ iht ihe ih =>
    intro te o
    have st := abs_sizes ht
    have se := abs_sizes he
    rw [layoutStmts_cons, backJumps_append, Spec.layoutStmt_size, rawEv_cons, evBack_append, List.map_append, ih te _]
    congr 1
    · by_cases hemp : e' = []
      · subst hemp
        have hE : e.isEmpty = true := by rw [abs_isEmpty he]; rfl
        simp only [Spec.layoutStmt, hE, if_true, List.append_assoc, List.cons_append, List.nil_append]
        rw [backJumps_append, backJumps_noJump c o hc, List.nil_append]
        simp only [Spec.backJumps, Spec.Instr.size]
        rw [iht _ _, rawEv1_if_noelse]
        simp only [evBack]
        exact evBack_rawEv_congr (by push_cast; omega) _
      · have hE : e.isEmpty = false := by rw [abs_isEmpty he]; cases e' <;> simp_all
        have hE' : ¬ e.isEmpty = true := by simp [hE]
        simp only [Spec.layoutStmt, if_neg hE', List.append_assoc, List.cons_append, List.nil_append]
        rw [backJumps_append, backJumps_noJump c o hc, List.nil_append]
        simp only [Spec.backJumps, Spec.Instr.size]
        rw [backJumps_append, Spec.layoutStmts_size]
        simp only [Spec.backJumps, Spec.Instr.size]
        rw [List.map_append, iht _ _, ihe _ _, rawEv1_if_else _ _ _ _ _ hemp]
        simp only [evBack, evBack_append, st]
        exact append_congr (evBack_rawEv_congr (by push_cast; omega) _) (evBack_rawEv_congr (by push_cast; omega) _)
    · refine evBack_rawEv_congr ?_ _
      simp only [Spec.CStmt.size, P.size, st, se, abs_isEmpty he]
      push_cast; rfl
  | loop pre c bp body incr post cond fpre fbp body' fincr fpost cs ps hpre hc hbp hb hincr hpost _ ihb ih =>
    intro te o
    have sb := abs_sizes hb
    rw [layoutStmts_cons, backJumps_append, Spec.layoutStmt_size, List.map_append, ih te _]
    simp only [Spec.layoutStmt, List.append_assoc, List.cons_append, List.nil_append]
    rw [backJumps_append, backJumps_noJump pre o hpre.1, List.nil_append, backJumps_append, backJumps_noJump c _ hc, List.nil_append]
    simp only [Spec.backJumps, Spec.Instr.size]
    rw [backJumps_append, backJumps_noJump bp _ hbp.1, List.nil_append, backJumps_append, backJumps_append,
      backJumps_noJump incr _ hincr.1, List.nil_append, Spec.layoutStmts_size]
    simp only [Spec.backJumps, if_true, backJumps_noJump post _ hpost.1, List.append_nil,
      List.map_append, List.map_cons, List.map_nil]
    rw [ihb _ _]
    rw [rawEv_append, evBack_append, (leaf_events fpre hpre.2.2 _).2, List.nil_append, rawEv_cons, evBack_append, rawEv_append,
      evBack_append, (leaf_events fpost hpost.2.2 _).2, List.nil_append, rawEv1_loop]
    simp only [evBack, List.cons_append, evBack_append, rawEv_append, (leaf_events fbp hbp.2.2 _).2, (leaf_events fincr hincr.2.2 _).2,
      List.nil_append, castP, sizes_append, hpre.2.1, hbp.2.1, hincr.2.1, hpost.2.1, sb, Spec.CStmt.size, P.size,
      List.append_assoc]
    exact append_congr (evBack_rawEv_congr (by push_cast; omega) _)
      (cons_congr (Prod.ext (by push_cast; omega) (by simp only []; omega)) (evBack_rawEv_congr (by push_cast; omega) _))

end Drx.LinkFlow
