/-
  L5 ∘ L1m ∘ L2 ∘ L3 ∘ L4 composed: for every script of the fragment, the model's `parseScript` applied to the two chunks
  `compile` produces returns a tree related to the source script (`ScriptRel`).
-/
import Drx.Link
import DrxProofs.LinkCompile
namespace Drx.Link
open Drx Drx.Lscr Drx.Gen Drx.Spec
set_option linter.unusedSimpArgs false
set_option linter.unusedVariables false

theorem names_of_tables (d : Bytes) (names : List Str) (xs : List Nat) (ns : List Str) (a b : Nat) (h : NamesAt names xs ns)
    (hc : CodeAt d a (xs.flatMap be16)) (hb : b = a + 2 * xs.length) :
    (if (b : Int) ≠ (a : Int) then nameRecords d names (a : Int) (b : Int) else pure []) = .ok ns := by
  subst hb
  cases h with
  | nil => simp [pure, Except.pure]
  | @cons x n xs ns' hx hr =>
    have hne : ((a + 2 * (x :: xs).length : Nat) : Int) ≠ (a : Int) := by simp only [List.length_cons]; omega
    rw [if_pos hne]
    exact nameRecords_ok d names _ _ a (All2.cons hx hr) hc

theorem flatMap_len_le {α : Type} (f : α → Bytes) (l : List α) (k : Nat) (h : ∀ x ∈ l, (f x).length ≤ k) : (l.flatMap f).length ≤ l.length * k := by
  induction l with
  | nil => simp
  | cons x xs ih =>
    have h1 := h x (by simp)
    have h2 := ih (fun y hy => h y (by simp [hy]))
    simp only [List.flatMap_cons, List.length_append, List.length_cons, Nat.add_mul]
    omega

theorem fragScript_spec' (s : Spec.Script) (hf : FragScript s = true) : s.factory = [] ∧ ∀ h ∈ s.handlers, FragH s h = true := by
  simp only [FragScript, Bool.and_eq_true, List.all_eq_true, List.isEmpty_iff] at hf
  exact ⟨hf.1.1.1, hf.2⟩

theorem handler_names {B : Handler → Nat → Nat → List Node → Prop} {hn sg : List Spec.Name} {sF : St} {hs : List Handler} {hcs : List HCode}
    (h : All2 (HandlerOKg B hn sg sF) hs hcs) :
    NamesAt sF.names (hcs.map (·.nameIdx)) (hs.map (·.name)) := by
  induction h with
  | nil => exact All2.nil
  | cons hx _ ih => exact All2.cons hx.ni ih

/-- the parsed script, with the flow passes' result described by `F` -/
structure ScriptRelg (F : Handler → List Node → Prop) (s : Spec.Script) (t : Lscr.Script) : Prop where
  props : t.properties = s.props
  globs : t.globalVars = s.globals
  fac : t.factoryName = []
  funcs : All2 (FuncRelg F s.globals) s.handlers t.functions

theorem ScriptRelg.toScriptRel {s : Spec.Script} {t : Lscr.Script} (r : ScriptRelg (F₀ (s.handlers.map (·.name))) s t) : ScriptRel s t := by
  refine ⟨r.props, r.globs, r.fac, ?_⟩
  have := r.funcs
  generalize s.handlers.map (·.name) = hn at this
  generalize s.handlers = hs at this
  generalize t.functions = fs at this
  induction this with
  | nil => exact All2.nil
  | cons hr _ ih => exact All2.cons hr.toFuncRel ih

/-- **bytes → tree**, parametric in the semantics of handler bodies (`BodyRun`) and of the flow passes (`FlowOk`): plain scripts
    whose handlers are `on` handlers using only script-level globals / properties -/
theorem parse_linkg (B : Handler → Nat → Nat → List Node → Prop) (F : Handler → List Node → Prop)
    (o : Options) (s : Spec.Script) (c : Compiled) (hfac : s.factory = [])
    (hHs : ∀ h ∈ s.handlers, BodyRun B (s.handlers.map (·.name)) h ∧ FlowOk B F h ∧ h.isMethod = false ∧
      (∀ v ∈ Stmt.varsList .prop h.body, v ∈ s.props))
    (hcmp : compile o s = .ok c)
    (hasc : ∀ n ∈ c.names, asciiName n = true) (hlen : c.names.length < 32768) :
    ∃ t, Lscr.parseScript c.lscr c.lnam = .ok t ∧ ScriptRelg F s t ∧ t.scrNum = toSigned 16 (o.scrNum % 65536) := by
  obtain ⟨propIdx, globIdx, hcs, sF, hlscr, hlnam, hnames, hP, hG, hH, hgood, hsz, hnl⟩ := compile_invg B o s c hfac
    (fun h hh => ⟨(hHs h hh).1, (hHs h hh).2.2.1⟩) hcmp
  let L : Lay := Lay.mk (o.scrNum % 65536) 0xffff propIdx globIdx hcs sF.consts
  have hL : L = Lay.mk (o.scrNum % 65536) 0xffff propIdx globIdx hcs sF.consts := rfl
  rw [← hL] at hlscr hsz
  rw [hnames] at hasc hlen
  -- the name table
  have hlnamOk : parseLnam .macRoman c.lnam = .ok sF.names := by
    rw [hlnam]
    refine parseLnam_ok sF.names (fun n hn => ⟨hasc n hn, hnl n hn⟩) hlen ?_
    have := flatMap_len_le (fun n : Spec.Name => UInt8.ofNat n.length :: nameBytes n) sF.names 256 (by
      intro n hn
      have := hnl n hn
      simp [nameBytes]; omega)
    have h2 : sF.names.length * 256 < 32768 * 256 := Nat.mul_lt_mul_of_pos_right hlen (by omega)
    omega
  -- sizes
  have hsize : L.bytes.length = L.size := L.bytes_length
  have hrl : L.records.length = 42 * hcs.length := handlerBlocks_snd_length hcs 92
  have hcl : L.crecs.length = 6 * sF.consts.length := constRecords_fst_length _ _
  have hszs : L.size = L.conOff + L.cdata.length := rfl
  have hconOff : L.conOff = L.crbOff + 6 * sF.consts.length := rfl
  have hcrbOff : L.crbOff = L.frbOff + L.records.length := rfl
  have hfrbOff : L.frbOff = L.grbOff + 2 * globIdx.length := rfl
  have hgrbOff : L.grbOff = L.prbOff + 2 * propIdx.length := rfl
  have hprbOff : L.prbOff = 92 + L.blocks.length := rfl
  have hLf : L.facIdx = 65535 := rfl
  have hLg : L.globs = globIdx := rfl
  have hLh : L.hs = hcs := rfl
  have hLc : L.consts = sF.consts := rfl
  -- header
  have hok : ∀ f ∈ L.fields, FieldOk f := by
    intro f hfm
    simp only [Lay.fields, hdrFields, List.mem_cons, List.mem_nil_iff, or_false] at hfm
    have hm : o.scrNum % 65536 < 65536 := Nat.mod_lt _ (by omega)
    rcases hfm with hfm | hfm | hfm | hfm | hfm | hfm | hfm | hfm | hfm | hfm | hfm | hfm | hfm | hfm | hfm | hfm | hfm | hfm | hfm | hfm
      | hfm | hfm | hfm | hfm | hfm | hfm | hfm | hfm | hfm | hfm | hfm | hfm | hfm <;> subst hfm <;>
      first | (left; refine ⟨rfl, ?_⟩; simp only [hLf, hLg, hLh, hLc]; omega) | (right; refine ⟨rfl, ?_⟩; simp only; omega)
  have hhdr := parseHeader_ok L.bytes L.size (o.scrNum % 65536) 0xffff L.prbOff globIdx.length L.grbOff hcs.length L.frbOff
    sF.consts.length L.crbOff L.cdata.length L.conOff L.at_header hok hsize (by omega)
  have t1 : toSigned 16 L.prbOff = (L.prbOff : Int) := toSigned16_small _ (by omega)
  have t2 : toSigned 16 L.grbOff = (L.grbOff : Int) := toSigned16_small _ (by omega)
  have t3 : toSigned 16 L.frbOff = (L.frbOff : Int) := toSigned16_small _ (by omega)
  have t4 : toSigned 16 L.crbOff = (L.crbOff : Int) := toSigned16_small _ (by omega)
  have t5 : toSigned 16 L.conOff = (L.conOff : Int) := toSigned16_small _ (by omega)
  have t6 : toSigned 16 hcs.length = (hcs.length : Int) := toSigned16_small _ (by omega)
  have t7 : toSigned 16 sF.consts.length = (sF.consts.length : Int) := toSigned16_small _ (by omega)
  have t8 : toSigned 16 0xffff = -1 := by decide
  -- constants, names tables, handler names
  have hcrb := parseCrb_good L.bytes sF.consts L.crbOff L.conOff hgood L.at_crecs L.at_cdata (by omega)
  have hprops := names_of_tables L.bytes sF.names propIdx s.props L.prbOff L.grbOff hP L.at_props hgrbOff
  have hglobs := names_of_tables L.bytes sF.names globIdx s.globals L.grbOff L.frbOff hG L.at_globs hfrbOff
  have hnmAt : NamesAt sF.names (hcs.map (·.nameIdx)) (s.handlers.map (·.name)) := handler_names hH
  have hlfn := funcNames_ok L.bytes sF.names (hcs.map (·.nameIdx)) (s.handlers.map (·.name)) L.frbOff hnmAt (by
    intro j x hj
    rw [List.getElem?_map] at hj
    cases hhc : hcs[j]? with
    | none => rw [hhc] at hj; cases hj
    | some hc =>
      rw [hhc] at hj
      simp only [Option.map_some, Option.some.injEq] at hj
      subst hj
      have := L.at_record j hc hhc
      exact ⟨_, by simpa [recFields, encFs, encF] using this⟩)
  rw [List.length_map] at hlfn
  -- the container
  have hcont : readContainer .macRoman L.bytes sF.names = .ok { h := { scrNum := toSigned 16 (o.scrNum % 65536), contScrNum := toSigned 16 0xffff, factoryNameIdx := -1, prbOff := L.prbOff, grbN := toSigned 16 globIdx.length, grbOff := L.grbOff, frbN := hcs.length, frbOff := L.frbOff, crbN := sF.consts.length, crbOff := L.crbOff, conOff := L.conOff }, constants := sF.consts.map constName, bpc := 6, factoryName := [], props := s.props, globs := s.globals, lfn := s.handlers.map (·.name) } := by
    have hm1 : ¬ ((-1 : Int) ≥ 0) := by omega
    unfold readContainer
    by_cases hp0 : (L.grbOff : Int) ≠ (L.prbOff : Int) <;> by_cases hg0 : (L.frbOff : Int) ≠ (L.grbOff : Int)
    · rw [if_pos hp0] at hprops; rw [if_pos hg0] at hglobs
      simp only [hhdr, t1, t2, t3, t4, t5, t6, t7, t8, bind, Except.bind, hcrb, hp0, hg0, hprops, hglobs, Int.toNat_natCast, hlfn, pure,
        Except.pure, hm1, if_false, if_true, ne_eq, not_false_eq_true]
    · rw [if_pos hp0] at hprops; rw [if_neg hg0] at hglobs
      simp only [pure, Except.pure, Except.ok.injEq] at hglobs
      simp only [hhdr, t1, t2, t3, t4, t5, t6, t7, t8, bind, Except.bind, hcrb, hp0, hg0, hprops, ← hglobs, Int.toNat_natCast, hlfn, pure,
        Except.pure, hm1, if_false, if_true, ne_eq, not_false_eq_true]
    · rw [if_neg hp0] at hprops; rw [if_pos hg0] at hglobs
      simp only [pure, Except.pure, Except.ok.injEq] at hprops
      simp only [hhdr, t1, t2, t3, t4, t5, t6, t7, t8, bind, Except.bind, hcrb, hp0, hg0, ← hprops, hglobs, Int.toNat_natCast, hlfn, pure,
        Except.pure, hm1, if_false, if_true, ne_eq, not_false_eq_true]
    · rw [if_neg hp0] at hprops; rw [if_neg hg0] at hglobs
      simp only [pure, Except.pure, Except.ok.injEq] at hprops hglobs
      simp only [hhdr, t1, t2, t3, t4, t5, t6, t7, t8, bind, Except.bind, hcrb, hp0, hg0, ← hprops, ← hglobs, Int.toNat_natCast, hlfn, pure,
        Except.pure, hm1, if_false, if_true, ne_eq, not_false_eq_true]
  -- the function records
  obtain ⟨ctx0, hctx0⟩ : ∃ x : Lscr.Ctx, x = { names := sF.names, constants := sF.consts.map constName, localFuncs := s.handlers.map (·.name), props := s.props, scriptGlobals := s.globals, params := [], localVars := [] } := ⟨_, rfl⟩
  have h0 : Ctx0 ctx0 sF (s.handlers.map (·.name)) := ⟨by rw [hctx0], by rw [hctx0], by rw [hctx0]⟩
  have hfragH : ∀ h ∈ s.handlers, FlowOk B F h ∧ h.isMethod = false ∧ (∀ v ∈ Stmt.varsList .prop h.body, ctx0.props.contains v = true) := by
    intro h hh
    obtain ⟨_, h0', h1, h6⟩ := hHs h hh
    exact ⟨h0', h1, fun v hv => by simpa [hctx0] using h6 v hv⟩
  obtain ⟨regs', fs, dcl', hpf, hrels⟩ := parseFuncs_okg B F ctx0 L.bytes L.frbOff sF (s.handlers.map (·.name)) s.globals h0 s.handlers hcs hH hfragH 0 0
    (by
      intro j hc hj
      refine ⟨blockOff hcs 92 j, by have := wsum_le_blockOff hcs 92 j; omega, by simpa using L.at_record j hc hj, L.at_block j hc hj, ?_⟩
      have := (L.at_block j hc hj).le
      rw [hsize] at this
      have e : blockOff L.hs 92 j = blockOff hcs 92 j := rfl
      rw [e] at this
      omega) [] []
  have hfl : s.handlers.length = hcs.length := hH.length_eq
  refine ⟨{ properties := s.props, globalVars := s.globals, functions := fs, scrNum := toSigned 16 (o.scrNum % 65536), contScrNum := toSigned 16 0xffff, factoryName := [] }, ?_, ⟨rfl, rfl, rfl, hrels⟩, rfl⟩
  subst hctx0
  unfold Lscr.parseScript parseScriptWith
  simp only [hlnamOk, bind, Except.bind, parseLscrWith, hlscr, hcont, Int.toNat_natCast]
  rw [← hfl]
  have e0 : ((L.frbOff + 42 * 0 : Nat) : Int) = (L.frbOff : Int) := by simp
  rw [e0] at hpf
  simp only [hpf, List.nil_append, pure, Except.pure, Except.map]

/-- **bytes → tree** on the fragment `FragScript` -/
theorem parse_link (o : Options) (s : Spec.Script) (c : Compiled) (hf : FragScript s = true) (hcmp : compile o s = .ok c)
    (hasc : ∀ n ∈ c.names, asciiName n = true) (hlen : c.names.length < 32768) :
    ∃ t, Lscr.parseScript c.lscr c.lnam = .ok t ∧ ScriptRel s t ∧ t.scrNum = toSigned 16 (o.scrNum % 65536) := by
  have hfac : s.factory = [] := (fragScript_spec' s hf).1
  obtain ⟨t, h1, h2, h3⟩ := parse_linkg (B₀ (s.handlers.map (·.name))) (F₀ (s.handlers.map (·.name))) o s c hfac (by
    intro h hh
    obtain ⟨hm, _, _, hb, hp, _⟩ := fragH_spec s h ((fragScript_spec' s hf).2 h hh)
    exact ⟨bodyRun₀ _ h hb, flowOk₀ _ h, hm, hp⟩) hcmp hasc hlen
  exact ⟨t, h1, h2.toScriptRel, h3⟩

end Drx.Link
