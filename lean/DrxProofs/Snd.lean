/-
  Helper lemmas for property C07 (sound): reads inside concatenations of blocks, the loops of the
  'snd ' parser on encoded resources, the 16-bit swap loop, the WAV writer/reader round trip.
-/
import Drx.Snd
import Drx.SndSpec
import DrxProofs.Py
namespace Drx.Snd
open Drx Drx.SndSpec

/-! ### integer-offset reads at non-negative offsets -/

theorem getSI_nat (k : Nat) (d : Bytes) (n : Nat) : getSI k d (n : Int) = getS .be k d n := by
  unfold getSI getS
  have : ((n : Int) + (k : Int)) = ((n + k : Nat) : Int) := by omega
  rw [this, pySlice_nat]

theorem getUI_nat (k : Nat) (d : Bytes) (n : Nat) : getUI k d (n : Int) = getU .be k d n := by
  unfold getUI getU
  have : ((n : Int) + (k : Int)) = ((n + k : Nat) : Int) := by omega
  rw [this, pySlice_nat]

theorem pyIndex_nat (d : Bytes) (n : Nat) : pyIndex d (n : Int) = byteAt d n := by
  unfold pyIndex
  have h0 : (0 : Int) ≤ (n : Int) := by omega
  simp only [h0, if_true, Int.toNat_natCast]
  by_cases h : n < d.length
  · have : ((n : Int) < (d.length : Int)) := by omega
    simp [this]
  · have : ¬ ((n : Int) < (d.length : Int)) := by omega
    simp only [this, if_false]
    unfold byteAt
    have : d[n]? = none := by simp; omega
    simp [this]

/-! ### reads inside `pre ++ x ++ post` -/

theorem getS_at (o : Order) (k : Nat) (pre x post : Bytes) (off : Nat) (hoff : off = pre.length) (hx : x.length = k) :
    getS o k (pre ++ (x ++ post)) off = unpackS o k x := by
  unfold getS
  rw [slice_at' pre x post off (off + k) hoff (by omega)]

theorem getU_at (o : Order) (k : Nat) (pre x post : Bytes) (off : Nat) (hoff : off = pre.length) (hx : x.length = k) :
    getU o k (pre ++ (x ++ post)) off = unpackU o k x := by
  unfold getU
  rw [slice_at' pre x post off (off + k) hoff (by omega)]

theorem byteAt_at (pre : Bytes) (b : UInt8) (post : Bytes) (off : Nat) (hoff : off = pre.length) :
    byteAt (pre ++ (b :: post)) off = .ok b := by
  subst hoff
  simp [byteAt]

theorem slice_length_of_le (d : Bytes) (off k : Nat) (h : off + k ≤ d.length) : (slice d off (off + k)).length = k := by
  simp [slice, List.length_take, List.length_drop]; omega

/-- a signed read whose value is ignored only has to be inside the data -/
theorem getS_ok_of_le (o : Order) (k : Nat) (d : Bytes) (off : Nat) (h : off + k ≤ d.length) :
    ∃ v, getS o k d off = .ok v := by
  unfold getS unpackS
  rw [slice_length_of_le d off k h]
  exact ⟨_, if_pos rfl⟩

theorem unpackS_small (o : Order) (k n : Nat) (hk : 0 < k) (h : n < 2 ^ (8 * k - 1)) :
    unpackS o k (encOrd o k n) = .ok (n : Int) := by
  unfold unpackS
  simp only [encOrd_length, if_true]
  have hlt : n < 256 ^ k := by
    rw [pow256]
    calc n < 2 ^ (8 * k - 1) := h
      _ ≤ 2 ^ (8 * k) := Nat.pow_le_pow_right (by decide) (by omega)
  rw [ordNat_encOrd_of_lt o k n hlt]
  simp [toSigned, h]

theorem getSI_at (k : Nat) (pre x post : Bytes) (off : Int) (hoff : off = (pre.length : Int)) (hx : x.length = k) :
    getSI k (pre ++ (x ++ post)) off = unpackS .be k x := by
  rw [hoff, getSI_nat, getS_at .be k pre x post _ rfl hx]

theorem getUI_at (k : Nat) (pre x post : Bytes) (off : Int) (hoff : off = (pre.length : Int)) (hx : x.length = k) :
    getUI k (pre ++ (x ++ post)) off = unpackU .be k x := by
  rw [hoff, getUI_nat, getU_at .be k pre x post _ rfl hx]

theorem pyIndex_at (pre : Bytes) (b : UInt8) (post : Bytes) (off : Int) (hoff : off = (pre.length : Int)) :
    pyIndex (pre ++ (b :: post)) off = .ok b := by
  rw [hoff, pyIndex_nat, byteAt_at pre b post _ rfl]

theorem getSI_ok_of_le (k : Nat) (d : Bytes) (off : Int) (h0 : 0 ≤ off) (h : off + (k : Int) ≤ (d.length : Int)) :
    ∃ v, getSI k d off = .ok v := by
  obtain ⟨n, rfl⟩ : ∃ n : Nat, off = (n : Int) := ⟨off.toNat, by omega⟩
  rw [getSI_nat]
  exact getS_ok_of_le .be k d n (by omega)

/-! ### the record loops of format.py on well-sized input -/

/-- the data-type loop succeeds and ends right after `n` six-byte records, whatever they contain -/
theorem parseDataTypes_ok (d : Bytes) (n idx : Nat) (h : idx + 6 * n ≤ d.length) :
    ∃ l, parseDataTypes d n idx = .ok (l, idx + 6 * n) := by
  induction n generalizing idx with
  | zero => exact ⟨[], rfl⟩
  | succ n ih =>
    obtain ⟨t, ht⟩ := getS_ok_of_le .be 2 d idx (by omega)
    obtain ⟨o, ho⟩ := getS_ok_of_le .be 4 d (idx + 2) (by omega)
    obtain ⟨l, hl⟩ := ih (idx + 6) (by omega)
    refine ⟨⟨t, o⟩ :: l, ?_⟩
    simp only [parseDataTypes, ht, ho, hl, bind, Except.bind]
    have : idx + 6 + 6 * n = idx + 6 * (n + 1) := by omega
    rw [this]

theorem flatten_length_const (bs : List Bytes) (k : Nat) (h : ∀ b ∈ bs, b.length = k) : bs.flatten.length = k * bs.length := by
  induction bs with
  | nil => simp
  | cons b bs ih =>
    simp only [List.flatten_cons, List.length_append, List.length_cons]
    rw [ih (fun x hx => h x (List.mem_cons_of_mem _ hx)), h b (List.mem_cons_self)]
    rw [Nat.mul_add]; omega

/-- the command loop on `nulls` null commands followed by one command record: the null commands come out
    with command number 0 (their parameters are whatever the bytes say), the last one exactly -/
theorem parseCmds_nulls (nulls : List Bytes) (hn : ∀ b ∈ nulls, b.length = 6)
    (pre post : Bytes) (cmd p2 : Nat) (p1 : Bytes) (hcmd : 32768 ≤ cmd ∧ cmd < 65536) (hp1 : p1.length = 2) (hp2 : p2 < 2 ^ 31) :
    ∃ cs p1v, parseCmds (pre ++ ((nulls.map encNull).flatten ++ (be16 cmd ++ p1 ++ be32 p2 ++ post))) (nulls.length + 1) pre.length
        = .ok (cs ++ [⟨(cmd : Int), p1v, (p2 : Int)⟩]) ∧ ∀ c ∈ cs, c.command = 0 := by
  induction nulls generalizing pre with
  | nil =>
    refine ⟨[], toSigned 16 (ordNat .be p1), ?_, by simp⟩
    simp only [List.map_nil, List.flatten_nil, List.nil_append, List.length_nil, parseCmds]
    have e : pre ++ (be16 cmd ++ p1 ++ be32 p2 ++ post) = pre ++ (be16 cmd ++ (p1 ++ be32 p2 ++ post)) := by simp [List.append_assoc]
    have h0 : getS .be 2 (pre ++ (be16 cmd ++ p1 ++ be32 p2 ++ post)) pre.length = .ok ((cmd : Int) - 65536) := by
      rw [e, getS_at .be 2 pre _ _ _ rfl (by simp [be16])]
      unfold unpackS be16
      simp only [encOrd_length, if_true]
      rw [ordNat_encOrd_of_lt _ _ _ (by omega)]
      have : ¬ (cmd < 2 ^ (8 * 2 - 1)) := by simp; omega
      simp [toSigned, this]
    have e1 : pre ++ (be16 cmd ++ p1 ++ be32 p2 ++ post) = (pre ++ be16 cmd) ++ (p1 ++ (be32 p2 ++ post)) := by simp [List.append_assoc]
    have h1 : getS .be 2 (pre ++ (be16 cmd ++ p1 ++ be32 p2 ++ post)) (pre.length + 2) = .ok (toSigned 16 (ordNat .be p1)) := by
      rw [e1, getS_at .be 2 _ _ _ _ (by simp [be16]) hp1]
      simp [unpackS, hp1]
    have e2 : pre ++ (be16 cmd ++ p1 ++ be32 p2 ++ post) = (pre ++ be16 cmd ++ p1) ++ (be32 p2 ++ post) := by simp [List.append_assoc]
    have h2 : getS .be 4 (pre ++ (be16 cmd ++ p1 ++ be32 p2 ++ post)) (pre.length + 4) = .ok (p2 : Int) := by
      rw [e2, getS_at .be 4 _ _ _ _ (by simp [be16, hp1]) (by simp [be32])]
      exact unpackS_small .be 4 p2 (by decide) hp2
    simp only [h0, h1, h2, bind, Except.bind]
    have hneg : (cmd : Int) - 65536 < 0 := by omega
    simp only [hneg, if_true]
    have : (0xFFFF + ((cmd : Int) - 65536)) + 1 = (cmd : Int) := by omega
    rw [this]
  | cons b nulls ih =>
    have hb : b.length = 6 := hn b (List.mem_cons_self)
    obtain ⟨cs, p1v, hcs, hall⟩ := ih (fun x hx => hn x (List.mem_cons_of_mem _ hx)) (pre ++ encNull b)
    let d := pre ++ (((b :: nulls).map encNull).flatten ++ (be16 cmd ++ p1 ++ be32 p2 ++ post))
    have ed : d = (pre ++ encNull b) ++ ((nulls.map encNull).flatten ++ (be16 cmd ++ p1 ++ be32 p2 ++ post)) := by
      simp [d, List.append_assoc]
    have elen : (pre ++ encNull b).length = pre.length + 8 := by simp [encNull, be16, hb]
    have e0 : d = pre ++ (be16 0 ++ (b ++ ((nulls.map encNull).flatten ++ (be16 cmd ++ p1 ++ be32 p2 ++ post)))) := by
      simp [d, encNull, List.append_assoc]
    have h0 : getS .be 2 d pre.length = .ok 0 := by
      rw [e0, getS_at .be 2 pre _ _ _ rfl (by simp [be16])]
      exact unpackS_small .be 2 0 (by decide) (by decide)
    have hlen : pre.length + 8 ≤ d.length := by rw [ed]; simp only [List.length_append] at elen ⊢; omega
    obtain ⟨v1, h1⟩ := getS_ok_of_le .be 2 d (pre.length + 2) (by omega)
    obtain ⟨v2, h2⟩ := getS_ok_of_le .be 4 d (pre.length + 4) (by omega)
    refine ⟨⟨0, v1, v2⟩ :: cs, p1v, ?_, ?_⟩
    · show parseCmds d (nulls.length + 1 + 1) pre.length = _
      rw [parseCmds]
      simp only [h0, h1, h2, bind, Except.bind]
      rw [ed, ← elen, hcs]
      simp
    · intro c hc
      cases hc with
      | head => rfl
      | tail _ h => exact hall c h

/-! ### the sound headers -/

/-- standard sound header: samplePtr NIL, length, 16.16 rate, loop points, encode 0, baseFrequency 60 -/
theorem soundHeader_standard (st : St) (pre post frac loops : Bytes) (n r : Nat)
    (hn : n < 2 ^ 31) (hr : r < 65536) (hf : frac.length = 2) (hl : loops.length = 8) (hc : st.channels ≠ 0) :
    soundHeader st (pre.length : Int) (pre ++ ((be32 0 ++ be32 n ++ be16 r ++ frac ++ loops ++ [0x00, 60]) ++ post))
      = .ok ({ st with rate := (r : Int) }, (pre.length : Int) + 22, (n : Int)) := by
  generalize hd : pre ++ ((be32 0 ++ be32 n ++ be16 r ++ frac ++ loops ++ [0x00, 60]) ++ post) = d
  have e0 : d = pre ++ (be32 0 ++ (be32 n ++ be16 r ++ frac ++ loops ++ [0x00, 60] ++ post)) := by simp [← hd, List.append_assoc]
  have e1 : d = (pre ++ be32 0) ++ (be32 n ++ (be16 r ++ frac ++ loops ++ [0x00, 60] ++ post)) := by simp [← hd, List.append_assoc]
  have e2 : d = (pre ++ be32 0 ++ be32 n) ++ (be16 r ++ (frac ++ loops ++ [0x00, 60] ++ post)) := by simp [← hd, List.append_assoc]
  have e3 : d = (pre ++ be32 0 ++ be32 n ++ be16 r) ++ (frac ++ (loops ++ [0x00, 60] ++ post)) := by simp [← hd, List.append_assoc]
  have e6 : d = (pre ++ be32 0 ++ be32 n ++ be16 r ++ frac ++ loops) ++ (0x00 :: (60 :: post)) := by simp [← hd, List.append_assoc]
  have e7 : d = (pre ++ be32 0 ++ be32 n ++ be16 r ++ frac ++ loops ++ [0x00]) ++ (60 :: post) := by simp [← hd, List.append_assoc]
  have hlen : d.length = pre.length + 22 + post.length := by simp [← hd, be32, be16, hf, hl]; omega
  have h0 : getSI 4 d (pre.length : Int) = .ok 0 := by
    rw [e0, getSI_at 4 pre _ _ _ rfl (by simp [be32])]; first | done | exact unpackS_small .be 4 0 (by decide) (by decide)
  have h1 : getSI 4 d ((pre.length : Int) + 4) = .ok (n : Int) := by
    rw [e1, getSI_at 4 _ _ _ _ (by simp [be32]) (by simp [be32])]; exact unpackS_small .be 4 n (by decide) hn
  have h2 : getUI 2 d ((pre.length : Int) + 8) = .ok r := by
    rw [e2, getUI_at 2 _ _ _ _ (by simp [be32]; try omega) (by simp [be16])]; exact unpackU_encOrd .be 2 r hr
  obtain ⟨v3, h3⟩ := getSI_ok_of_le 2 d ((pre.length : Int) + 10) (by omega) (by omega)
  obtain ⟨v4, h4⟩ := getSI_ok_of_le 4 d ((pre.length : Int) + 12) (by omega) (by omega)
  obtain ⟨v5, h5⟩ := getSI_ok_of_le 4 d ((pre.length : Int) + 16) (by omega) (by omega)
  have h6 : pyIndex d ((pre.length : Int) + 20) = .ok 0x00 := by
    rw [e6, pyIndex_at _ _ _ _ (by simp [be32, be16, hf, hl]; try omega)]
  have h7 : pyIndex d ((pre.length : Int) + 21) = .ok 60 := by
    rw [e7, pyIndex_at _ _ _ _ (by simp [be32, be16, hf, hl]; try omega)]
  have hm : (60 : UInt8).toNat = Gen.SndCommands.MIDDLE_C := by decide
  have hs : (0x00 : UInt8).toNat = Gen.SndCommands.STANDARD := by decide
  simp only [soundHeader, h0, h1, h2, h3, h4, h5, h6, h7, bind, Except.bind, hm, hs, ne_eq, not_true_eq_false, if_false, if_true, hc]

/-- extended sound header -/
theorem soundHeader_extended (st : St) (pre post frac loops aiff ptrs future : Bytes) (c f b r : Nat)
    (hcn : c < 2 ^ 31) (hfn : f < 2 ^ 31) (hb : b < 2 ^ 15) (hr : r < 65536) (hf : frac.length = 2) (hl : loops.length = 8)
    (ha : aiff.length = 10) (hp : ptrs.length = 12) (hfu : future.length = 14) :
    soundHeader st (pre.length : Int)
        (pre ++ ((be32 0 ++ be32 c ++ be16 r ++ frac ++ loops ++ [0xFF, 60] ++ be32 f ++ aiff ++ ptrs ++ be16 b ++ future) ++ post))
      = .ok (⟨(c : Int), (b : Int), (r : Int)⟩, (pre.length : Int) + 64, (f : Int) * (c : Int)) := by
  generalize hd : pre ++ ((be32 0 ++ be32 c ++ be16 r ++ frac ++ loops ++ [0xFF, 60] ++ be32 f ++ aiff ++ ptrs ++ be16 b ++ future) ++ post) = d
  have e0 : d = pre ++ (be32 0 ++ (be32 c ++ be16 r ++ frac ++ loops ++ [0xFF, 60] ++ be32 f ++ aiff ++ ptrs ++ be16 b ++ future ++ post)) := by
    simp [← hd, List.append_assoc]
  have e1 : d = (pre ++ be32 0) ++ (be32 c ++ (be16 r ++ frac ++ loops ++ [0xFF, 60] ++ be32 f ++ aiff ++ ptrs ++ be16 b ++ future ++ post)) := by
    simp [← hd, List.append_assoc]
  have e2 : d = (pre ++ be32 0 ++ be32 c) ++ (be16 r ++ (frac ++ loops ++ [0xFF, 60] ++ be32 f ++ aiff ++ ptrs ++ be16 b ++ future ++ post)) := by
    simp [← hd, List.append_assoc]
  have e6 : d = (pre ++ be32 0 ++ be32 c ++ be16 r ++ frac ++ loops) ++ (0xFF :: (60 :: (be32 f ++ aiff ++ ptrs ++ be16 b ++ future ++ post))) := by
    simp [← hd, List.append_assoc]
  have e7 : d = (pre ++ be32 0 ++ be32 c ++ be16 r ++ frac ++ loops ++ [0xFF]) ++ (60 :: (be32 f ++ aiff ++ ptrs ++ be16 b ++ future ++ post)) := by
    simp [← hd, List.append_assoc]
  have e8 : d = (pre ++ be32 0 ++ be32 c ++ be16 r ++ frac ++ loops ++ [0xFF, 60]) ++ (be32 f ++ (aiff ++ ptrs ++ be16 b ++ future ++ post)) := by
    simp [← hd, List.append_assoc]
  have e9 : d = (pre ++ be32 0 ++ be32 c ++ be16 r ++ frac ++ loops ++ [0xFF, 60] ++ be32 f ++ aiff ++ ptrs) ++ (be16 b ++ (future ++ post)) := by
    simp [← hd, List.append_assoc]
  have hlen : d.length = pre.length + 64 + post.length := by simp [← hd, be32, be16, hf, hl, ha, hp, hfu]; omega
  have h0 : getSI 4 d (pre.length : Int) = .ok 0 := by
    rw [e0, getSI_at 4 pre _ _ _ rfl (by simp [be32])]; first | done | exact unpackS_small .be 4 0 (by decide) (by decide)
  have h1 : getSI 4 d ((pre.length : Int) + 4) = .ok (c : Int) := by
    rw [e1, getSI_at 4 _ _ _ _ (by simp [be32]) (by simp [be32])]; exact unpackS_small .be 4 c (by decide) hcn
  have h2 : getUI 2 d ((pre.length : Int) + 8) = .ok r := by
    rw [e2, getUI_at 2 _ _ _ _ (by simp [be32]; try omega) (by simp [be16])]; exact unpackU_encOrd .be 2 r hr
  obtain ⟨v3, h3⟩ := getSI_ok_of_le 2 d ((pre.length : Int) + 10) (by omega) (by omega)
  obtain ⟨v4, h4⟩ := getSI_ok_of_le 4 d ((pre.length : Int) + 12) (by omega) (by omega)
  obtain ⟨v5, h5⟩ := getSI_ok_of_le 4 d ((pre.length : Int) + 16) (by omega) (by omega)
  have h6 : pyIndex d ((pre.length : Int) + 20) = .ok 0xFF := by
    rw [e6, pyIndex_at _ _ _ _ (by simp [be32, be16, hf, hl]; try omega)]
  have h7 : pyIndex d ((pre.length : Int) + 21) = .ok 60 := by
    rw [e7, pyIndex_at _ _ _ _ (by simp [be32, be16, hf, hl]; try omega)]
  have h8 : getSI 4 d ((pre.length : Int) + 22) = .ok (f : Int) := by
    rw [e8, getSI_at 4 _ _ _ _ (by simp [be32, be16, hf, hl]; try omega) (by simp [be32])]; exact unpackS_small .be 4 f (by decide) hfn
  obtain ⟨v10, h10⟩ := getSI_ok_of_le 4 d ((pre.length : Int) + 36) (by omega) (by omega)
  obtain ⟨v11, h11⟩ := getSI_ok_of_le 4 d ((pre.length : Int) + 40) (by omega) (by omega)
  obtain ⟨v12, h12⟩ := getSI_ok_of_le 4 d ((pre.length : Int) + 44) (by omega) (by omega)
  have h9 : getSI 2 d ((pre.length : Int) + 48) = .ok (b : Int) := by
    rw [e9, getSI_at 2 _ _ _ _ (by simp [be32, be16, hf, hl, ha, hp]; try omega) (by simp [be16])]; exact unpackS_small .be 2 b (by decide) hb
  obtain ⟨v13, h13⟩ := getSI_ok_of_le 2 d ((pre.length : Int) + 50) (by omega) (by omega)
  obtain ⟨v14, h14⟩ := getSI_ok_of_le 4 d ((pre.length : Int) + 52) (by omega) (by omega)
  obtain ⟨v15, h15⟩ := getSI_ok_of_le 4 d ((pre.length : Int) + 56) (by omega) (by omega)
  obtain ⟨v16, h16⟩ := getSI_ok_of_le 4 d ((pre.length : Int) + 60) (by omega) (by omega)
  have hm : (60 : UInt8).toNat = Gen.SndCommands.MIDDLE_C := by decide
  have hs : ¬ (Gen.SndCommands.EXTENDED = Gen.SndCommands.STANDARD) := by decide
  have hx : (0xFF : UInt8).toNat = Gen.SndCommands.EXTENDED := by decide
  simp only [soundHeader, h0, h1, h2, h3, h4, h5, h6, h7, h8, h9, h10, h11, h12, h13, h14, h15, h16, bind, Except.bind, hm, hs, hx,
    ne_eq, not_true_eq_false, if_false, if_true]

/-! ### the command loop of snd_to_sampled -/

theorem runCmds_nulls (d : Bytes) (st : St) (cs : List Cmd) (hall : ∀ c ∈ cs, c.command = 0)
    (hnull : dispatch 0 = some .null) (rest : List Cmd) :
    runCmds d st (cs ++ rest) = runCmds d st rest := by
  induction cs with
  | nil => rfl
  | cons c cs ih =>
    have hc : c.command = 0 := hall c (List.mem_cons_self)
    simp only [List.cons_append, runCmds, hc, hnull]
    exact ih (fun x hx => hall x (List.mem_cons_of_mem _ hx))

/-! ### the 16-bit swap loop -/

theorem swapPairs_length (l : Bytes) : (swapPairs l).length = l.length := by
  induction l using swapPairs.induct with
  | case1 a b rest ih => simp [swapPairs, ih]
  | case2 l h => unfold swapPairs; split <;> simp_all

theorem swapPairs_swapPairs (l : Bytes) : swapPairs (swapPairs l) = l := by
  induction l using swapPairs.induct with
  | case1 a b rest ih => simp [swapPairs, ih]
  | case2 l h =>
    have e : swapPairs l = l := by unfold swapPairs; split <;> simp_all
    rw [e, e]

theorem swapLoop_spec (n : Nat) (pre s post : Bytes) (hs : s.length = 2 * n) (idx : Int) (i : Nat)
    (h : idx + (i : Int) = (pre.length : Int)) :
    swapLoop (pre ++ (s ++ post)) idx n i = .ok (swapPairs s) := by
  induction n generalizing pre s i with
  | zero =>
    have : s = [] := List.eq_nil_of_length_eq_zero (by omega)
    subst this; rfl
  | succ n ih =>
    match s, hs with
    | a :: b :: s', hs' =>
      have hlen : s'.length = 2 * n := by simp at hs'; omega
      have e1 : idx + (i : Int) + 1 = ((pre.length + 1 : Nat) : Int) := by omega
      have hhi : pyIndex (pre ++ (a :: b :: s' ++ post)) (idx + (i : Int) + 1) = .ok b := by
        rw [e1, pyIndex_nat]
        have : pre ++ (a :: b :: s' ++ post) = (pre ++ [a]) ++ (b :: (s' ++ post)) := by simp
        rw [this]
        exact byteAt_at _ _ _ _ (by simp)
      have hlo : pyIndex (pre ++ (a :: b :: s' ++ post)) (idx + (i : Int)) = .ok a := by
        rw [h, pyIndex_nat]
        exact byteAt_at _ _ _ _ rfl
      have hrec := ih (pre ++ [a, b]) s' hlen (i + 2) (by simp; omega)
      have ed : pre ++ (a :: b :: s' ++ post) = (pre ++ [a, b]) ++ (s' ++ post) := by simp
      rw [swapLoop]
      simp only [hhi, hlo, bind, Except.bind]
      rw [ed, hrec]
      simp [swapPairs]

/-! ### the sample area -/

theorem sampleArea_8 (st : St) (hb : st.bits = 8) (pre s post : Bytes) (idx : Int) (hidx : idx = (pre.length : Int)) :
    sampleArea st (pre ++ (s ++ post)) idx (s.length : Int) = .ok s := by
  subst hidx
  simp only [sampleArea, hb, if_true]
  have : ((pre.length : Int) + (s.length : Int)) = ((pre.length + s.length : Nat) : Int) := by omega
  rw [this, pySlice_nat, slice_at' pre s post _ _ rfl rfl]

theorem sampleArea_16 (st : St) (hb : st.bits = 16) (pre s post : Bytes) (n : Nat) (hs : s.length = 2 * n)
    (idx : Int) (hidx : idx = (pre.length : Int)) :
    sampleArea st (pre ++ (s ++ post)) idx (n : Int) = .ok (swapPairs s) := by
  subst hidx
  have h8 : ¬ (st.bits = 8) := by omega
  have hgt : ¬ ((pre.length : Int) + (n : Int) * 2 > ((pre ++ (s ++ post)).length : Int)) := by
    simp only [List.length_append]; omega
  have hneg : ¬ ((n : Int) < 0) := by omega
  simp only [sampleArea, hb, if_true, if_false, hgt, hneg, Int.toNat_natCast]
  exact swapLoop_spec n pre s post hs _ 0 (by simp)

/-! ### parsing an encoded resource -/

theorem cmdNumber_range (b : Bool) : 32768 ≤ cmdNumber b ∧ cmdNumber b < 65536 := by
  cases b <;> simp [cmdNumber]

theorem nulls_flatten_length (nulls : List Bytes) (hn : ∀ b ∈ nulls, b.length = 6) :
    ((nulls.map encNull).flatten).length = 8 * nulls.length := by
  have := flatten_length_const (nulls.map encNull) 8 (by
    intro b hb
    obtain ⟨x, hx, rfl⟩ := List.mem_map.mp hb
    simp [encNull, be16, hn x hx])
  simpa using this

theorem encCommands_length (s : Snd) (hn : ∀ b ∈ s.nulls, b.length = 6) (hp : s.param1.length = 2) :
    (encCommands s).length = 2 + 8 * (s.nulls.length + 1) := by
  simp [encCommands, be16, be32, nulls_flatten_length s.nulls hn, hp]; omega

/-- the parser returns the command list: null commands, then the sound command with the header's offset -/
theorem parse_encode (s : Snd) (hv : Valid s) :
    ∃ f cs p1v, parseSndFmt (encode s) = .ok f ∧
      f.commands = cs ++ [⟨(cmdNumber s.soundCmd : Int), p1v, (headerOffset s : Int)⟩] ∧ ∀ c ∈ cs, c.command = 0 := by
  obtain ⟨format, nulls, sc, p1, rate, frac, loops, header, samples, trailing⟩ := s
  obtain ⟨hfmt, hnn, hnl, hp1, _hr, _hfr, _hlo, _hh⟩ := hv
  simp only at hfmt hnn hnl hp1
  generalize hS : (⟨format, nulls, sc, p1, rate, frac, loops, header, samples, trailing⟩ : Snd) = s
  have hsn : s.nulls = nulls := by rw [← hS]
  have hsf : s.format = format := by rw [← hS]
  have hsc : s.soundCmd = sc := by rw [← hS]
  have hsp : s.param1 = p1 := by rw [← hS]
  rw [hsc]
  generalize hpost : encSoundHeader s ++ s.samples ++ s.trailing = post
  have hcmdr := cmdNumber_range sc
  cases format with
  | fmt2 rc =>
    have hrc : rc.length = 2 := hfmt
    have hoff : headerOffset s < 2 ^ 31 := by
      simp [headerOffset, hsf, hsn, encPrefix, be16, hrc]; omega
    have hd : encode s = (be16 2 ++ rc ++ be16 (nulls.length + 1)) ++
        ((nulls.map encNull).flatten ++ (be16 (cmdNumber sc) ++ p1 ++ be32 (headerOffset s) ++ post)) := by
      simp [encode, encCommands, encPrefix, hsf, hsn, hsc, hsp, ← hpost, List.append_assoc]
    obtain ⟨cs, p1v, hcs, hall⟩ := parseCmds_nulls nulls hnl (be16 2 ++ rc ++ be16 (nulls.length + 1)) post
      (cmdNumber sc) (headerOffset s) p1 hcmdr hp1 hoff
    rw [← hd] at hcs
    have hl : (be16 2 ++ rc ++ be16 (nulls.length + 1)).length = 6 := by simp [be16, hrc]
    rw [hl] at hcs
    have h0 : getS .be 2 (encode s) 0 = .ok 2 := by
      have e : encode s = [] ++ (be16 2 ++ (rc ++ be16 (nulls.length + 1) ++
          ((nulls.map encNull).flatten ++ (be16 (cmdNumber sc) ++ p1 ++ be32 (headerOffset s) ++ post)))) := by
        rw [hd]; simp [List.append_assoc]
      rw [e, getS_at .be 2 [] _ _ 0 rfl (by simp [be16])]
      first | done | exact unpackS_small .be 2 2 (by decide) (by decide)
    have hlen : 6 ≤ (encode s).length := by rw [hd]; simp only [List.length_append, hl]; omega
    obtain ⟨rcv, h2⟩ := getS_ok_of_le .be 2 (encode s) 2 (by omega)
    have h4 : getS .be 2 (encode s) 4 = .ok ((nulls.length + 1 : Nat) : Int) := by
      have e : encode s = (be16 2 ++ rc) ++ (be16 (nulls.length + 1) ++
          ((nulls.map encNull).flatten ++ (be16 (cmdNumber sc) ++ p1 ++ be32 (headerOffset s) ++ post))) := by
        rw [hd]; simp [List.append_assoc]
      rw [e, getS_at .be 2 _ _ _ 4 (by simp [be16, hrc]) (by simp [be16])]
      exact unpackS_small .be 2 _ (by decide) (by simpa using hnn)
    refine ⟨⟨2, [], rcv, _⟩, cs, p1v, ?_, rfl, hall⟩
    simp only [parseSndFmt, h0, bind, Except.bind, parseSndFmt2, h2, parseSndCommands, h4, Int.toNat_natCast]
    simp only [show ((2 : Int) = 1) = False from by simp, if_false, if_true, hcs]
  | fmt1 dts =>
    have hdl : dts.length < 32768 := hfmt.1
    have hfl := flatten_length_const dts 6 hfmt.2
    have hoff : headerOffset s < 2 ^ 31 := by
      simp [headerOffset, hsf, hsn, encPrefix, be16, hfl]; omega
    have hd : encode s = (be16 1 ++ be16 dts.length ++ dts.flatten ++ be16 (nulls.length + 1)) ++
        ((nulls.map encNull).flatten ++ (be16 (cmdNumber sc) ++ p1 ++ be32 (headerOffset s) ++ post)) := by
      simp [encode, encCommands, encPrefix, hsf, hsn, hsc, hsp, ← hpost, List.append_assoc]
    obtain ⟨cs, p1v, hcs, hall⟩ := parseCmds_nulls nulls hnl (be16 1 ++ be16 dts.length ++ dts.flatten ++ be16 (nulls.length + 1)) post
      (cmdNumber sc) (headerOffset s) p1 hcmdr hp1 hoff
    rw [← hd] at hcs
    have hl : (be16 1 ++ be16 dts.length ++ dts.flatten ++ be16 (nulls.length + 1)).length = 4 + 6 * dts.length + 2 := by
      simp [be16, hfl]; omega
    rw [hl] at hcs
    have h0 : getS .be 2 (encode s) 0 = .ok 1 := by
      have e : encode s = [] ++ (be16 1 ++ (be16 dts.length ++ dts.flatten ++ be16 (nulls.length + 1) ++
          ((nulls.map encNull).flatten ++ (be16 (cmdNumber sc) ++ p1 ++ be32 (headerOffset s) ++ post)))) := by
        rw [hd]; simp [List.append_assoc]
      rw [e, getS_at .be 2 [] _ _ 0 rfl (by simp [be16])]
      first | done | exact unpackS_small .be 2 1 (by decide) (by decide)
    have h2 : getS .be 2 (encode s) 2 = .ok (dts.length : Int) := by
      have e : encode s = be16 1 ++ (be16 dts.length ++ (dts.flatten ++ be16 (nulls.length + 1) ++
          ((nulls.map encNull).flatten ++ (be16 (cmdNumber sc) ++ p1 ++ be32 (headerOffset s) ++ post)))) := by
        rw [hd]; simp [List.append_assoc]
      rw [e, getS_at .be 2 _ _ _ 2 (by simp [be16]) (by simp [be16])]
      exact unpackS_small .be 2 _ (by decide) (by simpa using hdl)
    have hlen : 4 + 6 * dts.length + 2 ≤ (encode s).length := by rw [hd]; simp only [List.length_append] at hl ⊢; omega
    obtain ⟨l, hdt⟩ := parseDataTypes_ok (encode s) dts.length 4 (by omega)
    have h4 : getS .be 2 (encode s) (4 + 6 * dts.length) = .ok ((nulls.length + 1 : Nat) : Int) := by
      have e : encode s = (be16 1 ++ be16 dts.length ++ dts.flatten) ++ (be16 (nulls.length + 1) ++
          ((nulls.map encNull).flatten ++ (be16 (cmdNumber sc) ++ p1 ++ be32 (headerOffset s) ++ post))) := by
        rw [hd]; simp [List.append_assoc]
      rw [e, getS_at .be 2 _ _ _ _ (by simp [be16, hfl]; try omega) (by simp [be16])]
      exact unpackS_small .be 2 _ (by decide) (by simpa using hnn)
    refine ⟨⟨1, l, -1, _⟩, cs, p1v, ?_, rfl, hall⟩
    simp only [parseSndFmt, h0, bind, Except.bind, parseSndFmt1, h2, parseSndCommands, Int.toNat_natCast, hdt, h4, if_true, hcs]

/-! ### decoding an encoded resource -/

theorem prefix_commands_length (s : Snd) (hv : Valid s) :
    (encPrefix s.format ++ encCommands s).length = headerOffset s := by
  simp [headerOffset, encCommands_length s hv.2.2.1 hv.2.2.2.1]; omega

theorem dispatch_cmdNumber (b : Bool) : dispatch (cmdNumber b : Int) = some .frames := by
  cases b <;> decide

theorem dispatch_null : dispatch 0 = some .null := by decide

theorem getFrames_encode (s : Snd) (hv : Valid s) :
    getFrames St.init (headerOffset s : Int) (encode s) =
      .ok (⟨(expected s).channels, (expected s).bits, (expected s).rate⟩, (expected s).samples) := by
  have hpl := prefix_commands_length s hv
  obtain ⟨_, _, _, _, hr, hfr, hlo, hh⟩ := hv
  generalize hpre : encPrefix s.format ++ encCommands s = pre at hpl
  rw [← hpl]
  cases hhd : s.header with
  | standard =>
    rw [hhd] at hh
    have hn : s.samples.length < 2 ^ 31 := hh
    have hd : encode s = pre ++ ((be32 0 ++ be32 s.samples.length ++ be16 s.rateInt ++ s.rateFrac ++ s.loops ++ [0x00, 60])
        ++ (s.samples ++ s.trailing)) := by
      simp [encode, encSoundHeader, hhd, ← hpre, List.append_assoc]
    have hc : St.init.channels ≠ 0 := by decide
    have hH := soundHeader_standard St.init pre (s.samples ++ s.trailing) s.rateFrac s.loops s.samples.length s.rateInt hn hr hfr hlo hc
    rw [← hd] at hH
    have hd2 : encode s = (pre ++ (be32 0 ++ be32 s.samples.length ++ be16 s.rateInt ++ s.rateFrac ++ s.loops ++ [0x00, 60]))
        ++ (s.samples ++ s.trailing) := by rw [hd]; simp [List.append_assoc]
    have hb : ({ St.init with rate := (s.rateInt : Int) } : St).bits = 8 := by
      show St.init.bits = 8
      decide
    have hA := sampleArea_8 { St.init with rate := (s.rateInt : Int) } hb
      (pre ++ (be32 0 ++ be32 s.samples.length ++ be16 s.rateInt ++ s.rateFrac ++ s.loops ++ [0x00, 60])) s.samples s.trailing
      ((pre.length : Int) + 22) (by simp [be32, be16, hfr, hlo]; try omega)
    rw [← hd2] at hA
    simp only [getFrames, hH, hA, bind, Except.bind]
    simp [expected, Header.channels, Header.bits, hhd, St.init]
    decide
  | extended c f b aiff ptrs future =>
    rw [hhd] at hh
    obtain ⟨hc, hf, hb, ha, hp, hfu, hlen⟩ := hh
    have hd : encode s = pre ++ ((be32 0 ++ be32 c ++ be16 s.rateInt ++ s.rateFrac ++ s.loops ++ [0xFF, 60] ++ be32 f ++ aiff ++ ptrs
        ++ be16 b ++ future) ++ (s.samples ++ s.trailing)) := by
      simp [encode, encSoundHeader, hhd, ← hpre, List.append_assoc]
    have hH := soundHeader_extended St.init pre (s.samples ++ s.trailing) s.rateFrac s.loops aiff ptrs future c f b s.rateInt
      hc hf (by omega) hr hfr hlo ha hp hfu
    rw [← hd] at hH
    have hd2 : encode s = (pre ++ (be32 0 ++ be32 c ++ be16 s.rateInt ++ s.rateFrac ++ s.loops ++ [0xFF, 60] ++ be32 f ++ aiff ++ ptrs
        ++ be16 b ++ future)) ++ (s.samples ++ s.trailing) := by rw [hd]; simp [List.append_assoc]
    have hidx : (pre.length : Int) + 64 = ((pre ++ (be32 0 ++ be32 c ++ be16 s.rateInt ++ s.rateFrac ++ s.loops ++ [0xFF, 60] ++ be32 f
        ++ aiff ++ ptrs ++ be16 b ++ future)).length : Int) := by
      simp [be32, be16, hfr, hlo, ha, hp, hfu]; try omega
    rcases hb with hb | hb
    · subst hb
      have hl : s.samples.length = f * c := by simpa using hlen
      have hA := sampleArea_8 (⟨(c : Int), ((8 : Nat) : Int), (s.rateInt : Int)⟩ : St) rfl _ s.samples s.trailing _ hidx
      rw [← hd2, hl] at hA
      have hmul : ((f * c : Nat) : Int) = (f : Int) * (c : Int) := by simp
      rw [hmul] at hA
      simp only [getFrames, hH, hA, bind, Except.bind]
      simp [expected, Header.channels, Header.bits, hhd]
    · subst hb
      have hl : s.samples.length = 2 * (f * c) := by simp at hlen; omega
      have hA := sampleArea_16 (⟨(c : Int), ((16 : Nat) : Int), (s.rateInt : Int)⟩ : St) rfl _ s.samples s.trailing (f * c) hl _ hidx
      rw [← hd2] at hA
      have hmul : ((f * c : Nat) : Int) = (f : Int) * (c : Int) := by simp
      rw [hmul] at hA
      simp only [getFrames, hH, hA, bind, Except.bind]
      simp [expected, Header.channels, Header.bits, hhd]

theorem decode_encode (s : Snd) (hv : Valid s) : sndToSampled (encode s) = .ok (expected s) := by
  obtain ⟨f, cs, p1v, hparse, hcmds, hall⟩ := parse_encode s hv
  have hG := getFrames_encode s hv
  simp only [sndToSampled, hparse, bind, Except.bind, hcmds]
  rw [runCmds_nulls _ _ cs hall dispatch_null]
  simp only [runCmds, dispatch_cmdNumber, hG, bind, Except.bind, List.append_nil]

/-! ### WAV -/

theorem packLE_ok (k n : Nat) (h : n < 256 ^ k) : packLE k n = .ok (encOrd .le k n) := by
  simp [packLE, h]

theorem slice_pre (pre x post : Bytes) (i j : Nat) (hi : i = pre.length) (hj : j = pre.length + x.length) :
    slice (pre ++ (x ++ post)) i j = x := slice_at' pre x post i j hi hj

/-- reading the canonical file: 13 header blocks + data -/
theorem wavRead_canonical (total br al : Bytes) (ch rate bits dlen : Nat) (d : Bytes)
    (ht : total.length = 4) (hbr : br.length = 4) (hal : al.length = 2)
    (hch : ch < 65536) (hrate : rate < 2 ^ 32) (hbits : bits < 65536) (hdlen : dlen < 2 ^ 32)
    (hw0 : (bits + 7) / 8 ≠ 0) (hc0 : ch ≠ 0) :
    wavRead (RIFF ++ total ++ WAVE ++ FMT_ ++ encOrd .le 4 16 ++ encOrd .le 2 1 ++ encOrd .le 2 ch ++ encOrd .le 4 rate ++ br ++ al
        ++ encOrd .le 2 bits ++ DATA ++ encOrd .le 4 dlen ++ d)
      = .ok (⟨ch, (bits + 7) / 8, rate⟩, slice d 0 (dlen / (ch * ((bits + 7) / 8)) * (ch * ((bits + 7) / 8)))) := by
  generalize hw : RIFF ++ total ++ WAVE ++ FMT_ ++ encOrd .le 4 16 ++ encOrd .le 2 1 ++ encOrd .le 2 ch ++ encOrd .le 4 rate ++ br ++ al
        ++ encOrd .le 2 bits ++ DATA ++ encOrd .le 4 dlen ++ d = w
  have hR : RIFF.length = 4 := rfl
  have hW : WAVE.length = 4 := rfl
  have hF : FMT_.length = 4 := rfl
  have hD : DATA.length = 4 := rfl
  have s0 : slice w 0 4 = RIFF := by
    have e : w = [] ++ (RIFF ++ (total ++ WAVE ++ FMT_ ++ encOrd .le 4 16 ++ encOrd .le 2 1 ++ encOrd .le 2 ch ++ encOrd .le 4 rate ++ br ++ al
        ++ encOrd .le 2 bits ++ DATA ++ encOrd .le 4 dlen ++ d)) := by simp [← hw, List.append_assoc]
    rw [e]; exact slice_pre _ _ _ _ _ rfl rfl
  have s1 : getU .le 4 w 4 = .ok (ordNat .le total) := by
    have e : w = RIFF ++ (total ++ (WAVE ++ FMT_ ++ encOrd .le 4 16 ++ encOrd .le 2 1 ++ encOrd .le 2 ch ++ encOrd .le 4 rate ++ br ++ al
        ++ encOrd .le 2 bits ++ DATA ++ encOrd .le 4 dlen ++ d)) := by simp [← hw, List.append_assoc]
    rw [e, getU_at .le 4 _ _ _ 4 rfl ht]; simp [unpackU, ht]
  have s2 : slice w 8 12 = WAVE := by
    have e : w = (RIFF ++ total) ++ (WAVE ++ (FMT_ ++ encOrd .le 4 16 ++ encOrd .le 2 1 ++ encOrd .le 2 ch ++ encOrd .le 4 rate ++ br ++ al
        ++ encOrd .le 2 bits ++ DATA ++ encOrd .le 4 dlen ++ d)) := by simp [← hw, List.append_assoc]
    rw [e]; exact slice_pre _ _ _ _ _ (by simp [hR, ht]) (by simp [hR, ht, hW])
  have s3 : slice w 12 16 = FMT_ := by
    have e : w = (RIFF ++ total ++ WAVE) ++ (FMT_ ++ (encOrd .le 4 16 ++ encOrd .le 2 1 ++ encOrd .le 2 ch ++ encOrd .le 4 rate ++ br ++ al
        ++ encOrd .le 2 bits ++ DATA ++ encOrd .le 4 dlen ++ d)) := by simp [← hw, List.append_assoc]
    rw [e]; exact slice_pre _ _ _ _ _ (by simp [hR, ht, hW]) (by simp [hR, ht, hW, hF])
  have s4 : getU .le 4 w 16 = .ok 16 := by
    have e : w = (RIFF ++ total ++ WAVE ++ FMT_) ++ (encOrd .le 4 16 ++ (encOrd .le 2 1 ++ encOrd .le 2 ch ++ encOrd .le 4 rate ++ br ++ al
        ++ encOrd .le 2 bits ++ DATA ++ encOrd .le 4 dlen ++ d)) := by simp [← hw, List.append_assoc]
    rw [e, getU_at .le 4 _ _ _ 16 (by simp [hR, ht, hW, hF]) (by simp)]; exact unpackU_encOrd .le 4 16 (by decide)
  have s5 : getU .le 2 w 20 = .ok 1 := by
    have e : w = (RIFF ++ total ++ WAVE ++ FMT_ ++ encOrd .le 4 16) ++ (encOrd .le 2 1 ++ (encOrd .le 2 ch ++ encOrd .le 4 rate ++ br ++ al
        ++ encOrd .le 2 bits ++ DATA ++ encOrd .le 4 dlen ++ d)) := by simp [← hw, List.append_assoc]
    rw [e, getU_at .le 2 _ _ _ 20 (by simp [hR, ht, hW, hF]) (by simp)]; exact unpackU_encOrd .le 2 1 (by decide)
  have s6 : getU .le 2 w 22 = .ok ch := by
    have e : w = (RIFF ++ total ++ WAVE ++ FMT_ ++ encOrd .le 4 16 ++ encOrd .le 2 1) ++ (encOrd .le 2 ch ++ (encOrd .le 4 rate ++ br ++ al
        ++ encOrd .le 2 bits ++ DATA ++ encOrd .le 4 dlen ++ d)) := by simp [← hw, List.append_assoc]
    rw [e, getU_at .le 2 _ _ _ 22 (by simp [hR, ht, hW, hF]) (by simp)]; exact unpackU_encOrd .le 2 ch hch
  have s7 : getU .le 4 w 24 = .ok rate := by
    have e : w = (RIFF ++ total ++ WAVE ++ FMT_ ++ encOrd .le 4 16 ++ encOrd .le 2 1 ++ encOrd .le 2 ch) ++ (encOrd .le 4 rate ++ (br ++ al
        ++ encOrd .le 2 bits ++ DATA ++ encOrd .le 4 dlen ++ d)) := by simp [← hw, List.append_assoc]
    rw [e, getU_at .le 4 _ _ _ 24 (by simp [hR, ht, hW, hF]) (by simp)]; exact unpackU_encOrd .le 4 rate hrate
  have s8 : getU .le 4 w 28 = .ok (ordNat .le br) := by
    have e : w = (RIFF ++ total ++ WAVE ++ FMT_ ++ encOrd .le 4 16 ++ encOrd .le 2 1 ++ encOrd .le 2 ch ++ encOrd .le 4 rate) ++ (br ++ (al
        ++ encOrd .le 2 bits ++ DATA ++ encOrd .le 4 dlen ++ d)) := by simp [← hw, List.append_assoc]
    rw [e, getU_at .le 4 _ _ _ 28 (by simp [hR, ht, hW, hF]) hbr]; simp [unpackU, hbr]
  have s9 : getU .le 2 w 32 = .ok (ordNat .le al) := by
    have e : w = (RIFF ++ total ++ WAVE ++ FMT_ ++ encOrd .le 4 16 ++ encOrd .le 2 1 ++ encOrd .le 2 ch ++ encOrd .le 4 rate ++ br) ++ (al
        ++ (encOrd .le 2 bits ++ DATA ++ encOrd .le 4 dlen ++ d)) := by simp [← hw, List.append_assoc]
    rw [e, getU_at .le 2 _ _ _ 32 (by simp [hR, ht, hW, hF, hbr]) hal]; simp [unpackU, hal]
  have s10 : getU .le 2 w 34 = .ok bits := by
    have e : w = (RIFF ++ total ++ WAVE ++ FMT_ ++ encOrd .le 4 16 ++ encOrd .le 2 1 ++ encOrd .le 2 ch ++ encOrd .le 4 rate ++ br ++ al)
        ++ (encOrd .le 2 bits ++ (DATA ++ encOrd .le 4 dlen ++ d)) := by simp [← hw, List.append_assoc]
    rw [e, getU_at .le 2 _ _ _ 34 (by simp [hR, ht, hW, hF, hbr, hal]) (by simp)]; exact unpackU_encOrd .le 2 bits hbits
  have s11 : slice w 36 40 = DATA := by
    have e : w = (RIFF ++ total ++ WAVE ++ FMT_ ++ encOrd .le 4 16 ++ encOrd .le 2 1 ++ encOrd .le 2 ch ++ encOrd .le 4 rate ++ br ++ al
        ++ encOrd .le 2 bits) ++ (DATA ++ (encOrd .le 4 dlen ++ d)) := by simp [← hw, List.append_assoc]
    rw [e]; exact slice_pre _ _ _ _ _ (by simp [hR, ht, hW, hF, hbr, hal]) (by simp [hR, ht, hW, hF, hbr, hal, hD])
  have s12 : getU .le 4 w 40 = .ok dlen := by
    have e : w = (RIFF ++ total ++ WAVE ++ FMT_ ++ encOrd .le 4 16 ++ encOrd .le 2 1 ++ encOrd .le 2 ch ++ encOrd .le 4 rate ++ br ++ al
        ++ encOrd .le 2 bits ++ DATA) ++ (encOrd .le 4 dlen ++ d) := by simp [← hw, List.append_assoc]
    rw [e, getU_at .le 4 _ _ _ 40 (by simp [hR, ht, hW, hF, hbr, hal, hD]) (by simp)]; exact unpackU_encOrd .le 4 dlen hdlen
  have s13 : ∀ n, slice w 44 (44 + n) = slice d 0 n := by
    intro n
    have e : w = (RIFF ++ total ++ WAVE ++ FMT_ ++ encOrd .le 4 16 ++ encOrd .le 2 1 ++ encOrd .le 2 ch ++ encOrd .le 4 rate ++ br ++ al
        ++ encOrd .le 2 bits ++ DATA ++ encOrd .le 4 dlen) ++ d := by simp [← hw, List.append_assoc]
    have hl : (RIFF ++ total ++ WAVE ++ FMT_ ++ encOrd .le 4 16 ++ encOrd .le 2 1 ++ encOrd .le 2 ch ++ encOrd .le 4 rate ++ br ++ al
        ++ encOrd .le 2 bits ++ DATA ++ encOrd .le 4 dlen).length = 44 := by simp [hR, ht, hW, hF, hbr, hal, hD]
    rw [e]; unfold slice
    rw [List.drop_append_of_le_length (by omega), List.drop_of_length_le (by omega)]
    simp
  simp only [wavRead, s0, s1, s2, s3, s4, s5, s6, s7, s8, s9, s10, s11, s12, s13, bind, Except.bind, ne_eq, not_true_eq_false, if_false,
    hw0, hc0]

/-- `wave` writes what `wave` reads: parameters and frames survive the file (rate ≥ 1, channels ≥ 1, whole frames) -/
theorem wav_roundtrip (p : WavParams) (d : Bytes)
    (hc : 1 ≤ p.channels) (hw : 1 ≤ p.width ∧ p.width ≤ 4) (hr : 1 ≤ p.rate ∧ p.rate < 2 ^ 32)
    (hal : p.channels * p.width < 2 ^ 16) (hbr : p.channels * p.rate * p.width < 2 ^ 32) (hlen : 36 + d.length < 2 ^ 32)
    (hfr : d.length % (p.channels * p.width) = 0) :
    ∃ w, wavWrite p d = .ok w ∧ wavRead w = .ok (p, d) := by
  obtain ⟨ch, width, rate⟩ := p
  simp only at hc hw hr hal hbr hfr
  have hch : ch < 65536 := by
    have : ch * 1 ≤ ch * width := Nat.mul_le_mul_left _ hw.1
    omega
  have e1 : ¬ (ch < 1) := by omega
  have e2 : ¬ (width < 1 ∨ width > 4) := by omega
  have e3 : ¬ (rate < 1) := by omega
  have hwidth : (width * 8 + 7) / 8 = width := by omega
  have hwrite : wavWrite ⟨ch, width, rate⟩ d = .ok (RIFF ++ encOrd .le 4 (36 + d.length) ++ WAVE ++ FMT_ ++ encOrd .le 4 16 ++ encOrd .le 2 1
      ++ encOrd .le 2 ch ++ encOrd .le 4 rate ++ encOrd .le 4 (ch * rate * width) ++ encOrd .le 2 (ch * width) ++ encOrd .le 2 (width * 8)
      ++ DATA ++ encOrd .le 4 d.length ++ d) := by
    simp only [wavWrite, e1, e2, e3, if_false, bind, Except.bind,
      packLE_ok 4 (36 + d.length) (by omega), packLE_ok 2 ch (by omega), packLE_ok 4 rate (by omega),
      packLE_ok 4 (ch * rate * width) (by omega), packLE_ok 2 (ch * width) (by omega), packLE_ok 2 (width * 8) (by omega),
      packLE_ok 4 d.length (by omega)]
  refine ⟨_, hwrite, ?_⟩
  rw [wavRead_canonical _ _ _ ch rate (width * 8) d.length d (by simp) (by simp) (by simp) hch hr.2 (by omega) (by omega)
    (by omega) (by omega)]
  rw [hwidth, Nat.div_mul_cancel (Nat.dvd_of_mod_eq_zero hfr)]
  simp [slice]

/-! ### the decoded sound as a WAV file -/

theorem expected_samples_length (s : Snd) : (expected s).samples.length = s.samples.length := by
  unfold expected
  split <;> simp [swapPairs_length]

/-- the sample area holds whole frames: frames × channels × width bytes -/
theorem samples_whole_frames (s : Snd) (hv : Valid s) :
    s.samples.length = s.frames * s.header.channels * (s.header.bits / 8) := by
  have hh := hv.2.2.2.2.2.2.2
  unfold Snd.frames
  cases hhd : s.header with
  | standard => simp [Header.channels, Header.bits]
  | extended c f b aiff ptrs future =>
    rw [hhd] at hh
    simpa [Header.channels, Header.bits] using hh.2.2.2.2.2.2

theorem header_bits (s : Snd) (hv : Valid s) : s.header.bits = 8 ∨ s.header.bits = 16 := by
  have hh := hv.2.2.2.2.2.2.2
  cases hhd : s.header with
  | standard => simp [Header.bits]
  | extended c f b aiff ptrs future =>
    rw [hhd] at hh
    simpa [Header.bits] using hh.2.2.1

theorem sampledToWav_expected (s : Snd) (hv : Valid s) (hc : 1 ≤ s.header.channels) (hr : 1 ≤ s.rateInt) :
    sampledToWav (expected s) = wavWrite ⟨s.header.channels, s.header.bits / 8, s.rateInt⟩ (expected s).samples := by
  have hb := header_bits s hv
  have e1 : ¬ (((s.header.channels : Nat) : Int) < 1) := by omega
  have e3 : ¬ (((s.rateInt : Nat) : Int) ≤ 0) := by omega
  have hw : Int.tdiv ((s.header.bits : Nat) : Int) 8 = ((s.header.bits / 8 : Nat) : Int) := by
    rcases hb with h | h <;> rw [h] <;> decide
  have e2 : ¬ (((s.header.bits / 8 : Nat) : Int) < 1 ∨ ((s.header.bits / 8 : Nat) : Int) > 4) := by
    rcases hb with h | h <;> rw [h] <;> decide
  simp only [sampledToWav, expected, e1, if_false, hw, e2, e3, Int.toNat_natCast]

/-! ### bounded allocation (the repaired 16-bit path) -/

theorem pySlice_length_lt (d : Bytes) (idx : Int) (k : Nat) (h : idx < -(d.length : Int)) (hk : 0 < k) :
    (pySlice d idx (idx + k)).length < k := by
  unfold pySlice
  simp only [List.length_take, List.length_drop]
  have hneg : idx < 0 := by omega
  simp only [hneg, if_true]
  have ha : max (idx + (d.length : Int)) 0 = 0 := by omega
  rw [ha]
  by_cases hb : idx + (k : Int) < 0
  · simp only [hb, if_true]; omega
  · simp only [hb, if_false]; omega

/-- a header that could be read lies inside the data, also when addressed from the end -/
theorem soundHeader_idx_ge (st : St) (idx : Int) (d : Bytes) (r : St × Int × Int) (h : soundHeader st idx d = .ok r) :
    -(d.length : Int) ≤ idx ∧ idx ≤ r.2.1 := by
  have hlow : -(d.length : Int) ≤ idx := by
    refine Decidable.byContradiction fun hc => ?_
    have hl : (pySlice d idx (idx + 4)).length < 4 := pySlice_length_lt d idx 4 (by omega) (by decide)
    have : getSI 4 d idx = .error .struct := by
      unfold getSI unpackS
      have : ¬ ((pySlice d idx (idx + 4)).length = 4) := by omega
      exact if_neg this
    simp [soundHeader, this, bind, Except.bind] at h
  refine ⟨hlow, ?_⟩
  unfold soundHeader at h
  simp only [bind, Except.bind] at h
  repeat' (split at h)
  all_goals first | contradiction | (simp only [Except.ok.injEq] at h; subst h; simp only; omega)

theorem sampleAreaAlloc_le (st : St) (d : Bytes) (i length : Int) (hi : -(d.length : Int) ≤ i) :
    sampleAreaAlloc st d i length ≤ 2 * d.length := by
  unfold sampleAreaAlloc
  split
  · omega
  · split
    · split
      · omega
      · split
        · omega
        · omega
    · omega

/-- one `_get_frames` call never allocates more than twice the resource for its output buffer -/
theorem getFramesAlloc_le (st : St) (idx : Int) (d : Bytes) : getFramesAlloc st idx d ≤ 2 * d.length := by
  unfold getFramesAlloc
  split
  · rename_i s i length h
    have := soundHeader_idx_ge st idx d _ h
    exact sampleAreaAlloc_le s d i length (by simp only at this; omega)
  · omega

theorem runCmdsAlloc_le (d : Bytes) (st : St) (cs : List Cmd) : runCmdsAlloc d st cs ≤ 2 * d.length * cs.length := by
  induction cs generalizing st with
  | nil => simp [runCmdsAlloc]
  | cons c cs ih =>
    unfold runCmdsAlloc
    have hstep : 2 * d.length * (c :: cs).length = 2 * d.length + 2 * d.length * cs.length := by
      simp only [List.length_cons, Nat.mul_add, Nat.mul_one]; omega
    split
    · omega
    · have := ih st; omega
    · have h1 := getFramesAlloc_le st c.param2 d
      split
      · rename_i s' _ _
        have := ih s'; omega
      · omega

/-! ### the F09 guard rejects only inputs on which the loop raised anyway -/

/-- `_get_frames`' 16-bit path as it was before the repair: allocate from the declared length, then loop -/
def sampleArea16Old (d : Bytes) (idx length : Int) : R Bytes :=
  if length < 0 then .error .value else swapLoop d idx length.toNat 0

theorem pyIndex_error_of_ge (d : Bytes) (i : Int) (h : (d.length : Int) ≤ i) : pyIndex d i = .error .index := by
  unfold pyIndex
  have h0 : (0 : Int) ≤ i := by omega
  have h1 : ¬ (i < (d.length : Int)) := by omega
  simp [h0, h1]

theorem swapLoop_error_of_short (d : Bytes) (idx : Int) (n i : Nat) (hn : 0 < n)
    (h : idx + (i : Int) + 2 * (n : Int) > (d.length : Int)) : ∃ e, swapLoop d idx n i = .error e := by
  induction n generalizing i with
  | zero => omega
  | succ n ih =>
    rw [swapLoop]
    cases hhi : pyIndex d (idx + (i : Int) + 1) with
    | error e => exact ⟨e, rfl⟩
    | ok hi =>
      cases hlo : pyIndex d (idx + (i : Int)) with
      | error e => exact ⟨e, rfl⟩
      | ok lo =>
        by_cases hz : n = 0
        · subst hz
          have : pyIndex d (idx + (i : Int) + 1) = .error .index := pyIndex_error_of_ge d _ (by omega)
          rw [this] at hhi; cases hhi
        · obtain ⟨e, he⟩ := ih (i + 2) (by omega) (by omega)
          exact ⟨e, by simp only [bind, Except.bind, he]⟩

theorem pyIndex_ok_lt (d : Bytes) (i : Int) (v : UInt8) (h : pyIndex d i = .ok v) : i < (d.length : Int) := by
  unfold pyIndex at h
  by_cases h0 : 0 ≤ i
  · by_cases h1 : i < (d.length : Int)
    · exact h1
    · simp [h0, h1] at h
  · omega

theorem pySlice_length_le (d : Bytes) (off : Int) (k : Nat) (h : (pySlice d off (off + k)).length = k) (hk : 0 < k) :
    off + (k : Int) ≤ (d.length : Int) := by
  unfold pySlice at h
  simp only [List.length_take, List.length_drop] at h
  by_cases h0 : off < 0
  · by_cases h1 : off + (k : Int) < 0
    · omega
    · simp only [h0, h1, if_true, if_false] at h; omega
  · have h1 : ¬ (off + (k : Int) < 0) := by omega
    simp only [h0, h1, if_false] at h; omega

theorem getSI_ok_le (k : Nat) (d : Bytes) (off : Int) (v : Int) (hk : 0 < k) (h : getSI k d off = .ok v) :
    off + (k : Int) ≤ (d.length : Int) := by
  unfold getSI unpackS at h
  by_cases hl : (pySlice d off (off + (k : Int))).length = k
  · exact pySlice_length_le d off k hl hk
  · simp [hl] at h

/-- the sample area of a header that could be read starts inside (or right at the end of) the data -/
theorem soundHeader_end_le (st : St) (idx : Int) (d : Bytes) (r : St × Int × Int) (h : soundHeader st idx d = .ok r) :
    r.2.1 ≤ (d.length : Int) := by
  unfold soundHeader at h
  simp only [bind, Except.bind] at h
  repeat' (split at h)
  all_goals first
    | contradiction
    | (have h60 : ∃ v, getSI 4 d (idx + 60) = .ok v := ⟨_, by assumption⟩
       obtain ⟨v, hv⟩ := h60
       have := getSI_ok_le 4 d (idx + 60) v (by decide) hv
       simp only [Except.ok.injEq] at h; subst h; simp only; omega)
    | (have h21 : ∃ v, pyIndex d (idx + 21) = .ok v := ⟨_, by assumption⟩
       obtain ⟨v, hv⟩ := h21
       have := pyIndex_ok_lt d (idx + 21) v hv
       simp only [Except.ok.injEq] at h; subst h; simp only; omega)

/-- the repaired 16-bit path returns exactly what the old one returned whenever the old one returned anything
    (`idx ≤ len` holds for the index `_get_frames` reaches: `soundHeader_end_le`) -/
theorem guard_preserves_results (st : St) (hb : st.bits = 16) (d : Bytes) (idx length : Int) (r : Bytes)
    (hidx : idx ≤ (d.length : Int))
    (hold : sampleArea16Old d idx length = .ok r) : sampleArea st d idx length = .ok r := by
  unfold sampleArea16Old at hold
  by_cases hneg : length < 0
  · simp [hneg] at hold
  · simp only [hneg, if_false] at hold
    simp only [sampleArea, hb, if_true, if_false, hneg]
    by_cases hg : idx + length * 2 > (d.length : Int)
    · exfalso
      have hpos : 0 < length.toNat := by omega
      obtain ⟨e, he⟩ := swapLoop_error_of_short d idx length.toNat 0 hpos (by omega)
      rw [he] at hold; cases hold
    · simp only [hg, if_false]; exact hold

/-- `_get_frames` before the F09 repair (same header part, unguarded 16-bit path) -/
def getFramesOld (s : St) (idx : Int) (d : Bytes) : R (St × Bytes) := do
  let (s, i, length) ← soundHeader s idx d
  let fr ← (if s.bits = 8 then .ok (pySlice d i (i + length))
            else if s.bits = 16 then sampleArea16Old d i length else .error .value)
  .ok (s, fr)

theorem getFrames_of_old (st : St) (idx : Int) (d : Bytes) (r : St × Bytes) (h : getFramesOld st idx d = .ok r) :
    getFrames st idx d = .ok r := by
  unfold getFramesOld at h
  unfold getFrames
  cases hH : soundHeader st idx d with
  | error e => simp [hH, bind, Except.bind] at h
  | ok t =>
    obtain ⟨s, i, length⟩ := t
    have hle := soundHeader_end_le st idx d _ hH
    simp only [hH, bind, Except.bind] at h ⊢
    by_cases h8 : s.bits = 8
    · simp only [h8, if_true] at h
      simp only [sampleArea, h8, if_true]
      exact h
    · by_cases h16 : s.bits = 16
      · simp only [h16, if_true] at h
        have hne : ¬ ((16 : Int) = 8) := by decide
        simp only [hne, if_false] at h
        cases hO : sampleArea16Old d i length with
        | error e => simp [hO] at h
        | ok fr =>
          rw [guard_preserves_results s h16 d i length fr hle hO]
          simpa [hO] using h
      · simp [h8, h16] at h

end Drx.Snd
