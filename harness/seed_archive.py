"""seed_archive.py <id> <src dir> <caught-by text>: keep a confirmed seeded change under /verif/seeded/<id>/"""
import json, shutil, sys
from pathlib import Path
sid, src, caught = sys.argv[1], Path(sys.argv[2]), sys.argv[3]
dst = Path("/verif/seeded") / sid
dst.mkdir(parents=True, exist_ok=True)
for f in ("patch.diff", "demo.py"):
    shutil.copy(src / f, dst / f)
m = json.loads((src / "meta.json").read_text())
m["confirmed_by_coordinator"] = ("applied patch.diff to a scratch worktree of /repo HEAD: 204 tests pass; demo.py exits 0 without and non-zero with the change; "
                                 "ran `DRX_REPO=<worktree> ./check " + m["property"] + " --tier quick` (harness/seedtest.sh)")
m["check_result"] = caught
(dst / "meta.json").write_text(json.dumps(m, indent=1))
print("archived", dst)
