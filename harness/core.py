"""
Common machinery of every check (DESIGN.md sections 1, 4, 5):

  G  regenerate lean/Drx/Gen/*.lean from /repo's working tree
  B  lake build the property's theorem module(s) + the model driver; audit axioms; grep forbidden tokens
  C  correspondence: compiled Lean model vs. the real Python code on the same inputs
  D  the property itself evaluated on the implementation's outputs (also the failing-input search)
  K  known findings
  -> verdict, replay file, evidence file

A property module (harness/cNN.py) provides:
  PROP, LEAN_MODULES, TRUSTED (list of str), RULE (str)
  gen_tables() -> {relative lean path: content}            (optional, stage G)
  cases(rng, tier) -> list[Case]                           (generators; corpus is prepended by core)
  impl(case: dict) -> list[str]                            (runs the REAL code; one canonical string per line)
  oracle(case: dict, impl_out: list[str]) -> str|None      (optional extra D predicate; returns a failure text)
  nontrivial(case, impl_out) -> bool                       (optional)
  MATCHERS: {name: fn(case, failure, params) -> bool}      (known-finding matchers)
  extra_stage(ctx) -> None                                 (optional; property-specific stages, may add failures)
"""
from __future__ import annotations
import argparse, fcntl, hashlib, importlib, json, multiprocessing as mp, os, random, re, subprocess, sys, time, traceback
from dataclasses import dataclass, field, asdict
from pathlib import Path

VERIF = Path(__file__).resolve().parent.parent
REPO = Path(os.environ.get("DRX_REPO", "/repo"))
LEAN = VERIF / "lean"
BIN = LEAN / ".lake" / "build" / "bin"
ALLOWED_AXIOMS = {"propext", "Classical.choice", "Quot.sound"}
FORBIDDEN = re.compile(r"\bsorry\b|\badmit\b|^axiom\s|native_decide|bv_decide|implemented_by|\bunsafe\s|maxHeartbeats\s+0\b", re.M)

if str(REPO) not in sys.path:
    sys.path.insert(0, str(REPO))


def canon(x) -> str:
    return json.dumps(x, sort_keys=True, separators=(",", ":"), ensure_ascii=True)


def hx(b: bytes) -> str:
    return b.hex() if b else "-"


@dataclass
class Case:
    kind: str
    spec: dict
    lines: list
    expect: list = field(default_factory=list)   # aligned with lines; None = no expectation for that line
    cid: str = ""

    def d(self):
        return asdict(self)


# ----------------------------------------------------------------------------------------------
# lake / lean

class LakeLock:
    def __enter__(self):
        self.f = open(LEAN / ".lake.lock", "w")
        fcntl.flock(self.f, fcntl.LOCK_EX)
        return self

    def __exit__(self, *a):
        fcntl.flock(self.f, fcntl.LOCK_UN)
        self.f.close()


def sh(cmd, cwd=None, timeout=3600, input=None):
    p = subprocess.run(cmd, cwd=cwd, stdout=subprocess.PIPE, stderr=subprocess.STDOUT, text=True, timeout=timeout, input=input)
    return p.returncode, p.stdout


def write_if_changed(path: Path, content: str) -> bool:
    if path.exists() and path.read_text() == content:
        return False
    path.parent.mkdir(parents=True, exist_ok=True)
    path.write_text(content)
    return True


def lake_build(targets, timeout=3000):
    rc, out = sh(["lake", "build"] + list(targets), cwd=LEAN, timeout=timeout)
    return rc == 0, out


def theorem_names(module: str):
    """(qualified name, line) of every theorem in lean/<module path>.lean, tracking namespaces."""
    path = LEAN / (module.replace(".", "/") + ".lean")
    names, ns = [], []
    if not path.exists():
        return names
    for i, line in enumerate(path.read_text().splitlines(), 1):
        m = re.match(r"\s*namespace\s+(\S+)", line)
        if m:
            ns.append(m.group(1)); continue
        m = re.match(r"\s*end\s+(\S+)\s*$", line)
        if m and ns and ns[-1] == m.group(1):
            ns.pop(); continue
        m = re.match(r"\s*(?:@\[[^\]]*\]\s*)?(?:private\s+|protected\s+)?theorem\s+(\S+)", line)
        if m:
            n = m.group(1)
            q = n if n.startswith("_root_.") else ".".join(ns + [n])
            names.append((q.replace("_root_.", ""), i))
    return names


def strip_lean_comments(s: str) -> str:
    out, i, depth = [], 0, 0
    while i < len(s):
        if s.startswith("/-", i):
            depth += 1; i += 2; continue
        if depth and s.startswith("-/", i):
            depth -= 1; i += 2; continue
        if depth:
            if s[i] == "\n": out.append("\n")
            i += 1; continue
        if s.startswith("--", i):
            while i < len(s) and s[i] != "\n": i += 1
            continue
        out.append(s[i]); i += 1
    return "".join(out)


def import_closure(modules):
    """local .lean files transitively imported by the given modules"""
    seen, todo = {}, list(modules)
    while todo:
        m = todo.pop()
        if m in seen:
            continue
        p = LEAN / (m.replace(".", "/") + ".lean")
        if not p.exists():
            continue
        seen[m] = p
        for mm in re.findall(r"^import\s+(\S+)", p.read_text(), re.M):
            todo.append(mm)
    return list(seen.values())


def forbidden_tokens(modules):
    hits = []
    for p in import_closure(modules):
        txt = strip_lean_comments(p.read_text())
        # string literals may legitimately contain the word (e.g. parser keyword tables); drop them
        txt = re.sub(r'"(?:[^"\\]|\\.)*"', '""', txt)
        for m in FORBIDDEN.finditer(txt):
            hits.append(f"{p.relative_to(LEAN)}: {m.group(0).strip()}")
    return hits


def audit_axioms(modules, names):
    """returns {theorem: [axioms]} for theorems that exist in the compiled modules; missing ones are absent."""
    aud = LEAN / ".audit"
    aud.mkdir(exist_ok=True)
    f = aud / ("audit_" + hashlib.md5(",".join(modules).encode()).hexdigest()[:8] + ".lean")
    body = "".join(f"import {m}\n" for m in modules) + "".join(f"#print axioms {n}\n" for n in names)
    f.write_text(body)
    rc, out = sh(["lake", "env", "lean", str(f)], cwd=LEAN, timeout=1200)
    res = {}
    for m in re.finditer(r"'([^']+)' depends on axioms: \[([^\]]*)\]", out):
        res[m.group(1)] = [a.strip() for a in m.group(2).replace("\n", " ").split(",") if a.strip()]
    for m in re.finditer(r"'([^']+)' does not depend on any axioms", out):
        res[m.group(1)] = []
    return res, out


def family_main(fam):
    return "Main" + fam[0].upper() + fam[1:]


class Driver:
    """routes each line `<family> <cmd> ...` to the compiled driver of that family (lean/.lake/build/bin/drx_<family>)"""
    def __init__(self, families=()):
        self.ok = True
        self.disabled = set()

    def _ask1(self, fam, lines):
        exe = BIN / f"drx_{fam}"
        if not self.ok or fam in self.disabled:
            return [None] * len(lines)
        for _ in range(40):
            # a concurrent `lake build` (another check) may be re-linking the executable right now
            if exe.exists() and os.access(exe, os.X_OK):
                break
            time.sleep(3)
        else:
            return [None] * len(lines)
        nproc = min(16, max(1, len(lines) // 200))
        if nproc > 1:
            # split across processes: the model side is embarrassingly parallel
            k = (len(lines) + nproc - 1) // nproc
            parts = [lines[i:i + k] for i in range(0, len(lines), k)]
            procs = [subprocess.Popen([str(exe)], stdin=subprocess.PIPE, stdout=subprocess.PIPE, stderr=subprocess.DEVNULL, text=True) for _ in parts]
            import threading
            res = [None] * len(parts)
            def work(i):
                o, _ = procs[i].communicate("\n".join(parts[i]) + "\n")
                res[i] = o
            th = [threading.Thread(target=work, args=(i,)) for i in range(len(parts))]
            [t.start() for t in th]; [t.join() for t in th]
            out = []
            for part, o in zip(parts, res):
                ol = (o or "").split("\n")
                if ol and ol[-1] == "":
                    ol.pop()
                out += ol + [None] * (len(part) - len(ol))
            return out
        p = subprocess.run([str(exe)], input="\n".join(lines) + "\n", stdout=subprocess.PIPE, stderr=subprocess.DEVNULL, text=True, timeout=3600)
        out = p.stdout.split("\n")
        if out and out[-1] == "":
            out.pop()
        return out + [None] * (len(lines) - len(out))   # driver crashed part-way (e.g. stack overflow): pad

    def ask(self, lines):
        if not lines:
            return []
        byfam = {}
        for i, l in enumerate(lines):
            byfam.setdefault(l.split(" ", 1)[0], []).append(i)
        out = [None] * len(lines)
        for fam, idxs in byfam.items():
            for i, o in zip(idxs, self._ask1(fam, [lines[i] for i in idxs])):
                out[i] = o
        return out


# ----------------------------------------------------------------------------------------------
# workers running the real code

def _winit():
    import logging
    logging.disable(logging.CRITICAL)


def _wrun(args):
    modname, cd = args
    mod = importlib.import_module(modname)
    try:
        return mod.impl(cd)
    except BaseException as e:  # impl() must canonicalise errors itself; anything escaping is a harness fault
        return ["harness-exception:" + type(e).__name__ + ":" + str(e)[:200]] * max(1, len(cd["lines"]))


WORKER_DIED = "worker-died"          # observable of a case whose worker process was killed (out of memory, fatal signal)
WORKER_TIMEOUT = "worker-timeout"    # observable of a case that did not finish inside the per-case wall-clock limit
CHUNK_WALL_S = 1500                  # a chunk of cases (or, after a failure, a single case) may take this long


def _worker_main(modname, conn):
    _winit()
    while True:
        try:
            job = conn.recv()
        except EOFError:
            return
        if job is None:
            return
        key, ds = job
        conn.send((key, [_wrun((modname, d)) for d in ds]))


def run_impl(modname, cases, procs=None):
    """the real code on every case, in `procs` forked workers. A worker that DIES (killed for memory, fatal signal) or does not come
    back within CHUNK_WALL_S does not take the check down: its chunk is re-run case by case in fresh workers and the one case that
    kills / stalls its worker gets the observable WORKER_DIED / WORKER_TIMEOUT (a difference from every expectation)."""
    procs = procs or min(16, os.cpu_count() or 4)
    ds = [c.d() for c in cases]
    if len(ds) < 8 or os.environ.get("VERIF_SERIAL"):
        _winit()
        return [_wrun((modname, d)) for d in ds]
    from multiprocessing.connection import wait
    ctx = mp.get_context("fork")
    k = max(1, len(ds) // (procs * 8))
    queue = [(i, min(len(ds), i + k)) for i in range(0, len(ds), k)]      # (start, end) index ranges, popped from the front
    results = [None] * len(ds)
    workers = {}      # parent connection -> [process, job or None, deadline]

    def spawn():
        pc, cc = ctx.Pipe()
        p = ctx.Process(target=_worker_main, args=(modname, cc), daemon=True)
        p.start(); cc.close()
        workers[pc] = [p, None, None]
        return pc

    def give(pc):
        if queue:
            job = queue.pop(0)
            workers[pc][1], workers[pc][2] = job, time.time() + CHUNK_WALL_S
            pc.send((job, ds[job[0]:job[1]]))
            return True
        return False

    def retire(pc, kill=False):
        p = workers.pop(pc)[0]
        try:
            if kill:
                p.kill()
            else:
                pc.send(None)
        except Exception:
            pass
        pc.close(); p.join(5)

    def failed(pc, mark):
        """the worker of `pc` died or stalled while it held a job"""
        job = workers[pc][1]
        retire(pc, kill=True)
        if job is not None:
            a, b = job
            if b - a == 1:
                results[a] = [mark] * max(1, len(ds[a]["lines"]))
            else:
                queue[0:0] = [(i, i + 1) for i in range(a, b)]      # find the culprit: one case per job, next in line
        npc = spawn()
        if not give(npc):
            retire(npc)

    for _ in range(min(procs, len(queue))):
        give(spawn())
    while workers:
        busy = [pc for pc, w in workers.items() if w[1] is not None]
        if not busy:
            for pc in list(workers):
                retire(pc)
            break
        ready = wait(busy + [workers[pc][0].sentinel for pc in busy], timeout=5)
        now = time.time()
        for pc in busy:
            if pc not in workers:
                continue
            p, job, deadline = workers[pc]
            if pc in ready:
                try:
                    key, res = pc.recv()
                except (EOFError, OSError):
                    failed(pc, WORKER_DIED)
                    continue
                results[key[0]:key[1]] = res
                workers[pc][1] = None
                if not give(pc):
                    retire(pc)
            elif p.sentinel in ready or not p.is_alive():
                failed(pc, WORKER_DIED)
            elif now > deadline:
                failed(pc, WORKER_TIMEOUT)
    for i, r in enumerate(results):
        if r is None:       # cannot happen; never return a hole
            results[i] = [WORKER_DIED] * max(1, len(ds[i]["lines"]))
    return results


# ----------------------------------------------------------------------------------------------
# known findings

def load_findings(prop):
    """known_findings.json is the committed list; entries may name several properties ("properties": [...])"""
    out = []
    for p in [VERIF / "known_findings.json"] + sorted((VERIF / "known_findings.d").glob("*.json")):
        if p.exists():
            for e in json.loads(p.read_text()):
                if e.get("property") == prop or prop in e.get("properties", []):
                    out.append(e)
    return out


# ----------------------------------------------------------------------------------------------

@dataclass
class Failure:
    stage: str          # "D" (implementation violates property) | "C" (model != implementation) | "B" | "G"
    case: dict | None
    line: int | None
    what: str
    expected: str | None = None
    got: str | None = None
    model: str | None = None


class Ctx:
    def __init__(self, mod, tier, seed):
        self.mod, self.tier, self.seed = mod, tier, seed
        self.rng = random.Random(seed)
        self.failures: list[Failure] = []
        self.cov = {}
        self.notes = []
        self.t0 = time.time()


def write_replay(prop, payload) -> Path:
    d = VERIF / "replays"
    d.mkdir(exist_ok=True)
    h = hashlib.sha1(canon(payload).encode()).hexdigest()[:12]
    p = d / f"{prop}-{h}.json"
    p.write_text(json.dumps(payload, indent=1, sort_keys=True))
    return p


def load_corpus(prop):
    out = []
    d = VERIF / "corpus" / prop
    if d.is_dir():
        for p in sorted(d.glob("*.json")):
            j = json.loads(p.read_text())
            c = j.get("case", j)
            out.append(Case(kind=c.get("kind", "corpus"), spec=c["spec"], lines=c["lines"], expect=c.get("expect", []), cid="corpus/" + p.name))
    return out


def evaluate(ctx: Ctx, cases, driver: Driver, stage_c=True, label=""):
    """runs impl + model on cases; appends failures; returns stats"""
    mod = ctx.mod
    _t0 = time.time()
    impl_out = run_impl(mod.__name__, cases)
    _t1 = time.time()
    lines, idx = [], []
    for ci, c in enumerate(cases):
        for li, l in enumerate(c.lines):
            if l.startswith("#"):
                continue          # a line the model does not cover: property-on-implementation (D) only
            lines.append(l); idx.append((ci, li))
    model_flat = driver.ask(lines) if stage_c else [None] * len(lines)
    _t2 = time.time()
    model_out = [[None] * len(c.lines) for c in cases]
    for (ci, li), o in zip(idx, model_flat):
        model_out[ci][li] = o
    oracle = getattr(mod, "oracle", None)
    nontriv = getattr(mod, "nontrivial", None)
    seen = set()
    st = dict(evaluations=0, distinct_nontrivial=0, c_compared=0, d_compared=0, kinds={}, impl_errors=0,
              seconds=dict(implementation=round(_t1 - _t0, 1), model=round(_t2 - _t1, 1)))
    for c, io, mo in zip(cases, impl_out, model_out):
        st["evaluations"] += 1
        st["kinds"][c.kind] = st["kinds"].get(c.kind, 0) + 1
        cd = c.d()
        if any(isinstance(x, str) and x.startswith("harness-exception:") for x in io):
            ctx.failures.append(Failure("H", cd, None, "harness exception in impl(): " + str(io[0])))
            continue
        if len(io) != len(c.lines):
            ctx.failures.append(Failure("H", cd, None, f"impl returned {len(io)} observables for {len(c.lines)} lines"))
            continue
        if all(x == '"error"' for x in io):
            st["impl_errors"] += 1
        for li, (i_s, m_s) in enumerate(zip(io, mo)):
            e_s = c.expect[li] if li < len(c.expect) else None
            if e_s is not None:
                st["d_compared"] += 1
                if i_s != e_s:
                    ctx.failures.append(Failure("D", cd, li, "implementation output differs from what the property requires", expected=e_s, got=i_s, model=m_s))
            if i_s is None:
                continue   # impl declares this line unobservable on this input
            if stage_c and m_s is not None:
                st["c_compared"] += 1
                if m_s != i_s:
                    ctx.failures.append(Failure("C", cd, li, "model and implementation disagree", expected=e_s, got=i_s, model=m_s))
            elif stage_c and m_s is None and not c.lines[li].startswith("#"):
                ctx.failures.append(Failure("C", cd, li, "model driver gave no answer (crash or not built)", expected=e_s, got=i_s))
        if oracle:
            try:
                msg = oracle(cd, io)
            except Exception as e:      # the implementation's output has a shape the property's evaluation cannot even read
                msg = f"the implementation's output cannot be evaluated against the property ({type(e).__name__}: {e})"
            if msg:
                # the model's answers for the same lines (None when the model was not asked on one of them): stage K compares them
                # with `got` where the model reproduces the open findings
                ml = [(m if i is not None else i) for i, m in zip(io, mo)]
                mdl = None if any(m is None and i is not None for i, m in zip(io, mo)) else canon(ml)[:2000]
                ctx.failures.append(Failure("D", cd, None, msg, got=canon(io)[:2000], model=mdl))
        key = hashlib.sha1(canon([c.kind, c.spec]).encode()).digest()
        nt = nontriv(cd, io) if nontriv else not all(x in ('"error"', "[]", "{}", '""', "null") for x in io)
        if nt and key not in seen:
            seen.add(key); st["distinct_nontrivial"] += 1
    return st


def merge_stats(a, b):
    for k, v in b.items():
        if isinstance(v, dict):
            d = a.setdefault(k, {})
            for kk, vv in v.items():
                d[kk] = d.get(kk, 0) + vv
        else:
            a[k] = a.get(k, 0) + v
    return a


def main(modname, argv=None):
    ap = argparse.ArgumentParser()
    ap.add_argument("--tier", default=os.environ.get("VERIF_TIER", "quick"), choices=["quick", "thorough"])
    ap.add_argument("--replay", default=None)
    ap.add_argument("--seed", type=int, default=int(os.environ.get("VERIF_SEED", "1")))
    ap.add_argument("--no-build", action="store_true")
    args = ap.parse_args(argv)
    mod = importlib.import_module(modname)
    prop = mod.PROP
    ctx = Ctx(mod, args.tier, args.seed)
    _winit()

    if args.replay:
        return replay(ctx, args.replay)

    broken = []   # (stage, text) obligations / correspondences that no longer check

    # ---- G
    gen = getattr(mod, "gen_tables", None)
    gen_changed = []
    with LakeLock():
        if gen:
            try:
                for rel, content in gen().items():
                    if write_if_changed(LEAN / rel, content):
                        gen_changed.append(rel)
            except Exception as e:
                broken.append(("G", f"translator refused: {type(e).__name__}: {e}"))
                ctx.notes.append(traceback.format_exc()[-1500:])
        # ---- B
        t = time.time()
        names = []
        for m in mod.LEAN_MODULES:
            names += [n for n, _ in theorem_names(m)]
        drv_targets = ["drx_" + f for f in getattr(mod, "FAMILIES", [])]
        ok_drv, log_drv = (True, "") if (args.no_build or not drv_targets) else lake_build(drv_targets)
        if not ok_drv:
            broken.append(("B", "model driver does not build: " + first_error(log_drv)))
        ok_thm, log_thm = (True, "") if args.no_build else lake_build(mod.LEAN_MODULES)
        if not ok_thm:
            broken.append(("B", "theorem module does not build: " + first_error(log_thm) + failing_theorems(mod.LEAN_MODULES, log_thm)))
        if args.tier == "thorough" and ok_thm and not args.no_build and not os.environ.get("VERIF_NO_LEANCHECKER"):
            rc, out = sh(["lake", "env", "leanchecker"] + list(mod.LEAN_MODULES), cwd=LEAN, timeout=3000)
            ctx.cov["leanchecker"] = "ok" if rc == 0 else "FAILED: " + out[-400:]
            if rc != 0:
                broken.append(("B", "leanchecker rejects the compiled theorems: " + out[-300:]))
        ax, axlog = audit_axioms(mod.LEAN_MODULES, names) if ok_thm else ({}, "")
        discharged = []
        for n in names:
            if n in ax and set(ax[n]) <= ALLOWED_AXIOMS:
                discharged.append(n)
            elif n in ax:
                broken.append(("B", f"theorem {n} depends on disallowed axioms {ax[n]}"))
            elif ok_thm:
                broken.append(("B", f"theorem {n} not found in compiled module"))
        fb = forbidden_tokens(list(mod.LEAN_MODULES) + [family_main(f) for f in getattr(mod, "FAMILIES", [])])
        if fb:
            broken.append(("B", "forbidden tokens in lean/: " + "; ".join(fb[:5])))
        ctx.cov.update(obligations=len(names), discharged=len(discharged), theorems=names,
                       axioms_used=sorted({a for n in discharged for a in ax[n]}),
                       gen_files_changed=gen_changed, build_s=round(time.time() - t, 1))

    # ---- C + D
    driver = Driver()
    driver.ok = driver.ok and ok_drv
    stats = {}
    corpus = load_corpus(prop)
    cases = corpus + list(mod.cases(ctx.rng, args.tier))
    for i, c in enumerate(cases):
        if not c.cid:
            c.cid = f"{c.kind}#{i}"
    merge_stats(stats, evaluate(ctx, cases, driver))
    extra = getattr(mod, "extra_stage", None)
    if extra:
        extra(ctx, driver, stats)

    c_fail = [f for f in ctx.failures if f.stage == "C"]
    d_fail = [f for f in ctx.failures if f.stage == "D"]
    h_fail = [f for f in ctx.failures if f.stage == "H"]

    # ---- failing-input search when a proof obligation or the correspondence is broken
    if (broken or c_fail) and not d_fail and args.tier == "quick" and hasattr(mod, "cases"):
        ctx.notes.append("obligation/correspondence broken: running the failing-input search at thorough size (D only)")
        rng2 = random.Random(args.seed + 7919)
        more = list(mod.cases(rng2, "search" if getattr(mod, "HAS_SEARCH_TIER", False) else "thorough"))
        # neighbours of disagreeing inputs first
        nb = getattr(mod, "neighbours", None)
        if nb:
            for f in c_fail[:20]:
                more = list(nb(f.case, rng2)) + more
        budget = int(os.environ.get("VERIF_SEARCH_MAX", "60000"))
        more = more[:budget]
        before = len(ctx.failures)
        merge_stats(stats, evaluate(ctx, more, driver, stage_c=False))
        d_fail = [f for f in ctx.failures if f.stage == "D"]

    # ---- K: known findings
    findings = load_findings(prop)
    open_f = [e for e in findings if e.get("status") == "open"]
    matchers = getattr(mod, "MATCHERS", {})
    unlisted, claimed = [], {}
    # where the Lean model REPRODUCES the open findings (it models the code that exists, defects included), a failing input is
    # attributed to a known finding only while the implementation still does exactly what the model does on it: the same input
    # failing in another way (got != model) is a new failure, however well it matches the finding's description
    reproduced = bool(getattr(mod, "MODEL_REPRODUCES_KNOWN_FINDINGS", False))
    for f in d_fail:
        hit = None
        for e in ([] if (reproduced and f.model is not None and f.got != f.model) else open_f):
            fn = matchers.get(e["matcher"])
            try:
                if fn and fn(f.case, f, e.get("params", {})):
                    hit = e; break
            except Exception:
                pass
        if hit:
            claimed.setdefault(hit["id"], []).append(f)
        else:
            unlisted.append(f)
    # a C disagreement on an input a known finding claims is the same root cause, not a broken correspondence
    c_real = []
    for f in c_fail:
        hit = False
        for e in ([] if reproduced else open_f):
            fn = matchers.get(e["matcher"])
            try:
                if fn and fn(f.case, f, e.get("params", {})):
                    hit = True; break
            except Exception:
                pass
        if not hit:
            c_real.append(f)
    for e in open_f:
        if e["id"] in claimed:
            print(f"KNOWN-FINDING: property={prop} {e['id']} {e['what']} ({len(claimed[e['id']])} failing inputs this run)")
    for e in findings:
        if e.get("status") == "fixed":
            ctx.notes.append(f"fixed: property={prop} {e.get('commit','?')} {e['what']}")

    # ---- verdict
    rc = 0
    if h_fail:
        for f in h_fail[:3]:
            print("HARNESS-ERROR", f.what, file=sys.stderr)
    if unlisted:
        f = shrink_failure(mod, unlisted[0])
        p = write_replay(prop, dict(property=prop, kind="failing-input", stage="D", what=f.what, case=f.case, line=f.line,
                                    expected=f.expected, got=f.got, model=f.model, seed=args.seed, tier=args.tier,
                                    others=len(unlisted) - 1))
        print(f"VIOLATION property={prop} replay={p}")
        rc = 1
    elif broken or c_real:
        payload = dict(property=prop, kind="no-failing-input-found", seed=args.seed, tier=args.tier,
                       broken_obligations=[dict(stage=s, what=w) for s, w in broken],
                       broken_correspondence=[dict(what=f.what, case=f.case, line=f.line, implementation=f.got, model=f.model) for f in c_real[:5]],
                       searched=stats.get("evaluations", 0))
        p = write_replay(prop, payload)
        print(f"VIOLATION property={prop} replay={p} no-failing-input-found")
        rc = 1
    if h_fail and rc == 0:
        rc = 2

    # ---- evidence
    samples = [dict(kind=c.kind, lines=[l[:300] for l in c.lines[:3]], spec=_trunc(c.spec)) for c in _pick(cases, 4)]
    cov = dict(ctx.cov)
    cov.update(
        evaluations=stats.get("evaluations", 0), distinct_nontrivial=stats.get("distinct_nontrivial", 0),
        rule=getattr(mod, "RULE", ""), samples=samples,
        checker_cmd=f"cd lean && lake build {' '.join(mod.LEAN_MODULES)} {' '.join('drx_' + f for f in getattr(mod, 'FAMILIES', []))} && lake env lean .audit/<audit>.lean (#print axioms)" + (" && lake env leanchecker " + " ".join(mod.LEAN_MODULES) if args.tier == "thorough" else ""),
        trusted_base=["Lean 4.33 kernel", "axioms: " + ", ".join(sorted(ALLOWED_AXIOMS)) + " (audited per theorem by #print axioms; no native_decide/bv_decide/sorry)"] + list(getattr(mod, "TRUSTED", [])),
        correspondence=dict(compared=stats.get("c_compared", 0), disagreements=len(c_fail), unexplained=len(c_real)),
        property_on_impl=dict(compared=stats.get("d_compared", 0) , failures=len(d_fail), unlisted=len(unlisted)),
        input_kinds=stats.get("kinds", {}), impl_error_cases=stats.get("impl_errors", 0),
        broken=[f"{s}: {w}"[:500] for s, w in broken], notes=ctx.notes,
        known_findings_replayed=sorted(claimed.keys()),
        exhaustive=bool(stats.get("exhaustive", False)),
    )
    for k, v in stats.items():
        if k not in ("evaluations", "distinct_nontrivial", "kinds", "c_compared", "d_compared", "impl_errors", "exhaustive"):
            cov[k] = v
    ev = dict(property_id=prop, tier=args.tier, seed=args.seed, level="proof", coverage=cov,
              assumptions=list(getattr(mod, "ASSUMPTIONS", [])), wall_s=round(time.time() - ctx.t0, 2),
              violations=len(unlisted) + (1 if (rc == 1 and not unlisted) else 0))
    (VERIF / "evidence").mkdir(exist_ok=True)
    (VERIF / "evidence" / f"{prop}.json").write_text(json.dumps(ev, indent=1, sort_keys=True))
    print(f"{prop} {args.tier}: theorems {len(discharged)}/{len(names)} | cases {stats.get('evaluations',0)} "
          f"(nontrivial {stats.get('distinct_nontrivial',0)}) | C diffs {len(c_fail)} | D failures {len(d_fail)} (unlisted {len(unlisted)}) | {ev['wall_s']}s")
    return rc


def _trunc(x, n=400):
    s = canon(x)
    return x if len(s) <= n else s[:n] + "..."


def _pick(cases, k):
    if len(cases) <= k:
        return cases
    step = len(cases) // k
    return [cases[i * step] for i in range(k)]


def first_error(log):
    m = re.search(r"error: (.*(?:\n(?!error:|warning:|✖|✔|info:).*){0,6})", log)
    return (m.group(1) if m else log[-600:])[:800]


def failing_theorems(modules, log):
    out = []
    for m in re.finditer(r"error: (\S+\.lean):(\d+):\d+", log):
        path, line = m.group(1), int(m.group(2))
        for mod in modules:
            if path.endswith(mod.replace(".", "/") + ".lean"):
                best = None
                for n, l in theorem_names(mod):
                    if l <= line:
                        best = n
                if best and best not in out:
                    out.append(best)
    return (" [theorems: " + ", ".join(out) + "]") if out else ""


def shrink_failure(mod, f: Failure) -> Failure:
    sh_ = getattr(mod, "shrink", None)
    if not sh_:
        return f
    try:
        g = sh_(f)
        return g or f
    except Exception:
        return f


def replay(ctx, path):
    mod = ctx.mod
    prop = mod.PROP
    j = json.loads(Path(path).read_text())
    if j.get("kind") == "no-failing-input-found":
        print(f"replay names broken obligations, not an input: {canon(j.get('broken_obligations'))[:600]}")
        if j.get("broken_correspondence"):
            c0 = j["broken_correspondence"][0]["case"]
            j = dict(case=c0)
        else:
            return 0
    cd = j["case"]
    c = Case(kind=cd["kind"], spec=cd["spec"], lines=cd["lines"], expect=cd.get("expect", []), cid="replay")
    driver = Driver()
    st = evaluate(ctx, [c], driver)
    d_fail = [f for f in ctx.failures if f.stage == "D"]
    c_fail = [f for f in ctx.failures if f.stage == "C"]
    for f in ctx.failures:
        print(f"  [{f.stage}] line {f.line}: {f.what}\n     expected: {str(f.expected)[:300]}\n     got:      {str(f.got)[:300]}\n     model:    {str(f.model)[:300]}")
    if d_fail:
        print(f"VIOLATION property={prop} replay={path}")
        return 1
    if c_fail:
        print(f"VIOLATION property={prop} replay={path} no-failing-input-found")
        return 1
    print("replay: property holds on this input now")
    return 0
