"""Spec side of C06/C13 in Python (independent of /repo): images, row layouts, PackBits encodings, a BMP reader.

Img = dict(depth, W, H, ox, oy, pix)   pix: (H-oy) rows x (W-ox) columns; row 0 = top row of the image
    depth 1: 0/1, depth 8: 0..255, depth 16: 0..65535, depth 32: [a, r, g, b]
The canvas is W x H, background 0, with the image placed at (ox, oy) from the top-left corner.
"""
import struct


def iw(img):
    return img["W"] - img["ox"]


def ih(img):
    return img["H"] - img["oy"]


def raw_rows(img, pad=0):
    """the scan lines as Director stores them; `pad` fills alignment bytes/bits (free for the author of the file)"""
    d, w = img["depth"], iw(img)
    rows = []
    for r in img["pix"]:
        assert len(r) == w
        if d == 8:
            row = bytes(r) + (bytes([pad & 0xFF]) if w % 2 else b"")
        elif d == 1:
            nb = (w + 7) // 8
            bits = list(r) + [(pad >> (7 - (k % 8))) & 1 for k in range(w, nb * 8)]
            row = bytes(sum(bits[8 * i + j] << (7 - j) for j in range(8)) for i in range(nb))
            if nb % 2:
                row += bytes([pad & 0xFF])
        elif d == 16:
            row = bytes(v >> 8 for v in r) + bytes(v & 0xFF for v in r)
        elif d == 32:
            row = bytes(p[0] for p in r) + bytes(p[1] for p in r) + bytes(p[2] for p in r) + bytes(p[3] for p in r)
        else:
            raise ValueError(d)
        rows.append(row)
    return rows


def raw_len(img):
    return sum(len(r) for r in raw_rows(img))


# an op is ["lit", hexbytes] (1..128 bytes) or ["run", n, byte] (2..128 copies)

def op_bytes(op):
    if op[0] == "lit":
        b = bytes.fromhex(op[1])
        assert 1 <= len(b) <= 128
        return bytes([len(b) - 1]) + b
    n, v = op[1], op[2]
    assert 2 <= n <= 128
    return bytes([257 - n, v])


def op_expand(op):
    return bytes.fromhex(op[1]) if op[0] == "lit" else bytes([op[2]]) * op[1]


def unpack_ops(ops):
    return b"".join(op_expand(o) for o in ops)


def serialise_packed(rows_ops):
    return b"".join(op_bytes(o) for ops in rows_ops for o in ops)


def seg_to_ops(row: bytes, cuts, prefer_run=True):
    """ops for one row from a segmentation (sorted cut positions inside the row): each segment becomes a run when it is
    >=2 equal bytes (and prefer_run) else a literal; segments longer than 128 are split further"""
    ops, pts = [], [0] + [c for c in cuts if 0 < c < len(row)] + [len(row)]
    for a, b in zip(pts, pts[1:]):
        while b - a > 128:
            ops.append(_seg(row[a:a + 128], prefer_run)); a += 128
        if b > a:
            ops.append(_seg(row[a:b], prefer_run))
    return ops


def _seg(s, prefer_run):
    if prefer_run and len(s) >= 2 and len(set(s)) == 1:
        return ["run", len(s), s[0]]
    return ["lit", s.hex()]


def canvas(img):
    W, H, ox, oy, d = img["W"], img["H"], img["ox"], img["oy"], img["depth"]
    bg = [0, 0, 0] if d == 32 else 0
    c = [[bg for _ in range(W)] for _ in range(H)]
    for j, r in enumerate(img["pix"]):
        for i, v in enumerate(r):
            c[oy + j][ox + i] = [v[3], v[2], v[1]] if d == 32 else v      # BMP 24bpp pixel bytes are B, G, R
    return c


class BmpError(Exception):
    pass


def read_bmp(b: bytes):
    """what a standard BMP reader sees: (width, height, bpp, rows top-down); uses only the offset field, the info-header
    width/height/bpp and the 4-byte-aligned stride"""
    if len(b) < 54 or b[0:2] != b"BM":
        raise BmpError("no BM header")
    off = struct.unpack("<I", b[10:14])[0]
    hsize, w, h = struct.unpack("<Iii", b[14:26])
    planes, bpp = struct.unpack("<HH", b[26:30])
    if w < 0 or h < 0 or planes != 1 or bpp not in (8, 16, 24):
        raise BmpError("unsupported header")
    stride = ((w * bpp + 31) // 32) * 4
    if len(b) < off + stride * h:
        raise BmpError("pixel data too short: %d < %d" % (len(b), off + stride * h))
    rows = []
    for y in range(h):
        base = off + (h - 1 - y) * stride
        if bpp == 8:
            rows.append(list(b[base:base + w]))
        elif bpp == 16:
            rows.append([b[base + 2 * x] | (b[base + 2 * x + 1] << 8) for x in range(w)])
        else:
            rows.append([[b[base + 3 * x], b[base + 3 * x + 1], b[base + 3 * x + 2]] for x in range(w)])
    return w, h, bpp, rows


def cast_data(img, palette="systemMac"):
    return dict(height=img["H"], width=img["W"], depth=img["depth"], w_padding=img["ox"], h_padding=img["oy"], palette_txt=palette)


# ---------------------------------------------------------------------------------------------- C10 support: loop rounds

LOOP_NAMES = {
    "Decoder8b": (["ops", "run", "lit"], ["rows", "cols"]),
    "Decoder1b": (["ops", "run", "runBits", "lit", "litBits"], ["rows", "cols", "bits"]),
    "Decoder16b": (["ops", "run", "lit", "deRows", "dePix"], []),
    "Decoder24b": (["ops", "run", "lit", "deRows", "dePix"], []),
    "Decoder4b": ([], []),
}
STEP_KEYS = ["ops", "run", "runBits", "lit", "litBits", "rows", "cols", "bits", "deRows", "dePix"]
_LOOPMAP = {}


def _loop_map(cls):
    """code object -> {first body line: (counter name, (lo, hi) line span of a loop that IS the first body statement, or None)}
    for decode_compressed_data / decode_raw_data of a decoder class; None when the source does not have the expected loops"""
    import ast, inspect, sys
    if cls in _LOOPMAP:
        return _LOOPMAP[cls]
    names = LOOP_NAMES.get(cls.__name__)
    res = None
    if names is not None:
        src = inspect.getsource(sys.modules[cls.__module__])
        cdef = [n for n in ast.walk(ast.parse(src)) if isinstance(n, ast.ClassDef) and n.name == cls.__name__]
        res = {}
        for fname, nm in zip(("decode_compressed_data", "decode_raw_data"), names):
            fn = [n for n in cdef[0].body if isinstance(n, ast.FunctionDef) and n.name == fname]
            loops = sorted([l for l in ast.walk(fn[0]) if isinstance(l, (ast.For, ast.While))], key=lambda l: l.lineno) if fn else []
            if len(loops) != len(nm):
                res = None
                break
            m = {}
            for l, name in zip(loops, nm):
                first = l.body[0]
                span = (first.lineno, first.end_lineno) if isinstance(first, (ast.For, ast.While)) else None
                m[first.lineno] = (name, span)
            res[getattr(cls, fname).__code__] = m
    _LOOPMAP[cls] = res
    return res


def real_loop_rounds(castData, clut, data):
    """(C10 support) rounds of every Python-level loop of the bitmap decoder selected by castData['depth'], counted on the
    REAL code with sys.settrace while bitd2bmp(castData, clut, data) runs: a round = one start of a loop body (the round that
    raises included). When the first statement of a loop body is itself a loop header, a line event on it is a new round of
    the outer loop only if the previous line executed in that frame lies outside the inner loop. Counterpart of the driver
    line `bitd steps <call>` (same keys + total). Works whether or not the call raises; None if the source has other loops."""
    import sys, importlib
    m = importlib.import_module("drxtract.bitd.bitd2bmp")
    counts = {k: 0 for k in STEP_KEYS}
    dec = m.DECODERS.get(castData.get("depth"))
    lm = _loop_map(type(dec)) if dec is not None else {}
    if lm is None:
        return None

    def tr(frame, event, arg):
        mp = lm.get(frame.f_code)
        if mp is None:
            return None
        prev = [None]

        def line(frame, event, arg):
            if event == "line":
                ln = frame.f_lineno
                hit = mp.get(ln)
                if hit is not None:
                    name, span = hit
                    if span is None or prev[0] is None or not (span[0] <= prev[0] <= span[1]):
                        counts[name] += 1
                prev[0] = ln
            return line
        return line
    old = sys.gettrace()
    sys.settrace(tr)
    try:
        try:
            m.bitd2bmp(castData, clut, data)
        except Exception:
            pass
    finally:
        sys.settrace(old)
    counts["total"] = sum(counts[k] for k in STEP_KEYS)
    return counts


# ---------------------------------------------------------------------------------------------- the exact bytes (C06 theorems)

_V5TAIL = [3, 0, 0, 0, 0, 0, 0x7C00, 0x3E0, 0x1F, 0, 0x73524742] + [0] * 12 + [2, 0, 0, 0]


def expected_bmp(img, packed: bool, palette: bytes):
    """the byte string the C06 theorems (`hdr8 ++ fileRows1 …`, `bmp16`, `bmp24`) state for an image: headers, palette, rows
    bottom-up at the 4-byte stride, top-offset rows last; `palette` = the 8 (1 bit) or 1024 (8 bit) palette bytes, unused for
    16/32 bit; `packed` selects the 4·H surplus bytes of the 8-bit PackBits path (F30b geometry)"""
    d, W, H, ox, oy = img["depth"], img["W"], img["H"], img["ox"], img["oy"]
    w = W - ox
    if d in (1, 8):
        nc = 2 if d == 1 else 256
        off = nc * 4 + 54
        hdr = b"BM" + struct.pack("<ihhi", W * H + off, 0, 0, off) + struct.pack("<iiihhiiiiii", 40, W, H, 1, 8, 0, 0, 0, 0, nc, nc) + palette
        stride = (W + 3) // 4 * 4
        rows = [bytes(ox) + bytes(r) + bytes(stride - W) for r in reversed(img["pix"])] + [bytes(stride)] * oy
        extra = bytes(4 * H) if (d == 8 and packed and w + w % 2 + ox > stride) else b""
        return hdr + b"".join(rows) + extra
    if d == 16:
        hdr = (b"BM" + struct.pack("<ihhi", W * H * 2 + 138, 0, 0, 138) + struct.pack("<iiihh", 124, W, H, 1, 16)
               + b"".join(struct.pack("<I", v) for v in _V5TAIL))
        stride = 2 * W + (2 * W) % 4
        rows = [bytes(2 * ox) + b"".join(bytes([v & 0xFF, v >> 8]) for v in r) + bytes(stride - 2 * W) for r in reversed(img["pix"])]
    else:
        hdr = b"BM" + struct.pack("<ihhi", W * H * 3 + 54, 0, 0, 54) + struct.pack("<iiihhiiiiii", 40, W, H, 1, 24, 0, 0, 0, 0, 0, 0)
        stride = 3 * W + (4 - (3 * W) % 4) % 4
        rows = [bytes(3 * ox) + b"".join(bytes([p[3], p[2], p[1]]) for p in r) + bytes(stride - 3 * W) for r in reversed(img["pix"])]
    return hdr + b"".join(rows) + bytes(stride * oy)


def repo_palette(depth, name):
    """palette bytes `Decoder.writeColorPalette` writes for a system palette (read from the repo's own table)"""
    from drxtract.bitd.decoder import PALETTES
    if depth not in (1, 8):
        return b""
    tbl = PALETTES[depth]
    return bytes(tbl[name] if name in tbl else tbl["default"])
