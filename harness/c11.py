"""C11 — constants are rendered as literals that evaluate to the original value.

Driver lines (family lscr):
  lscr cstr <bytes>            string constant: [stored name, Lingo literal, JS literal] via escape_string + ConstantValue
  lscr cint8 <p1> / cint16 <p1> <p2>   inline integers (Int1bOpcode / Int2bOpcode)
  lscr consts <lscr>           every constant of a script through parse_lrcr_file_header + parse_lrcr_crb: [[name, lingo, js], …]
  lscr cfloat <10 bytes>       unpack_float80
  lscr lingo|js <lscr> <lnam>  whole-script path (the literal is read off the `put` line)
  lscr readdbl <utf-8 text>    the float reader (Drx/Lscr/LitEvalFloat.lean readDbl) against CPython float()
  lscr evallingo|evallingo2|evaljs|evalint|evaldec <utf-8 text>   the spec-side readers (Lean: Drx/Lscr/LitEval.lean; evallingo2 = the
                               recursive-descent twin of the Lingo scanner)
  lscr lingosafe <bytes>       the decidable domain of theorem lingo_string_partial
D: the literal texts produced by the REAL code are evaluated with Python mirrors of the Lean readers (the mirrors are tied to
the Lean readers by the `eval*` lines, stage C) and compared with the value encoded in the constant.
"""
import itertools, json, math, struct, sys
from fractions import Fraction
from core import Case, canon, hx
import lscr_common as L

PROP = "C11"
LEAN_MODULES = ["DrxProps.C11"]
FAMILIES = ["lscr"]
MODEL_REPRODUCES_KNOWN_FINDINGS = True      # the model is of the code that exists: see core.main, stage K
RULE = ("constants: all strings of length <=3 (quick) / <=4 (thorough) over a 13-byte special alphabet, random strings <=40 bytes, all 256 "
        "one-byte and all 65536 two-byte inline integers, boundary and random 32-bit pool integers, 80-bit floats over sign/exponent/"
        "mantissa classes; each is pushed through the real escape_string / parse_lrcr_crb / ConstantValue.generate_lingo / generate_js "
        "(and for a sample through whole scripts), the emitted literal is read back with the reference readers and compared with the "
        "original value; the texts are also compared with the Lean model. distinct_nontrivial = distinct constants for which a literal was produced.")
TRUSTED = ["the reference readers of Lingo / JavaScript literals (lean/Drx/Lscr/LitEval.lean; Python mirrors in harness/c11.py tied by stage C)",
           "harness/lscr_common.py assembler", "CPython unicode_escape, repr(float), int->float conversion are modelled (Drx/Lscr/Const.lean, Float.lean), not verified",
           "Python float(text) and Fraction arithmetic are used as the decimal->double oracle for float literals"]
ASSUMPTIONS = ["DRX_ENCODING unset (mac_roman)", "a float literal 'keeps the value' when it reads back as the double nearest to the 80-bit value"]

ALPHABET = [0x08, 0x03, 0x22, 0x0D, 0x09, 0x5C, 0x26, 0x20, 0x61, 0x74, 0x78, 0x0A, 0x8E]
NAMED = {0x08, 0x03, 0x0D, 0x09}


def gen_tables():
    return L.gen_lscr_tables()


# ---------------------------------------------------------------------------------------------- reference readers (mirror of LitEval.lean)

LINGO_NAMED = [("RETURN", "\r"), ("TAB", "\t"), ("QUOTE", "\""), ("ENTER", "\x03"), ("BACKSPACE", "\x08"), ("EMPTY", "")]


def _ident(c):
    return ("0" <= c <= "9") or ("a" <= c <= "z") or ("A" <= c <= "Z") or c == "_"


def _ident_start(c):
    return ("a" <= c <= "z") or ("A" <= c <= "Z") or c == "_"


def py_eval_lingo(s):
    """mirror of Drx.Lscr.evalLingoLit (the scanner with escs = none)"""
    named = dict(LINGO_NAMED)
    q, acc, k, out = "T", "", 0, []
    for c in s:
        if q == "T":
            if c == '"': q = "S"
            elif _ident_start(c): q, acc = "N", c
            else: return None
        elif q == "S":
            if c == '"': q, k = "A", 0
            else: out.append(c)
        elif q == "N":
            if _ident(c): acc += c
            elif c == " ":
                if acc not in named: return None
                out.append(named[acc]); q, k = "A", 1
            else: return None
        elif q == "A":
            if (k, c) == (0, " "): k = 1
            elif (k, c) == (1, "&"): k = 2
            elif (k, c) == (2, " "): q = "T"
            else: return None
    if q == "A" and k == 0:
        return "".join(out)
    if q == "N" and acc in named:
        return "".join(out) + named[acc]
    return None


def py_eval_lingo_rd(s):
    """mirror of Drx.Lscr.evalLingoLitRD (recursive descent over terms)"""
    named = dict(LINGO_NAMED)
    out = []
    i, fuel = 0, len(s) + 1
    while True:
        if fuel == 0:
            return None
        fuel -= 1
        if s[i:i + 1] == '"':
            j = s.find('"', i + 1)
            if j < 0:
                return None
            out.append(s[i + 1:j]); i = j + 1
        else:
            j = i
            while j < len(s) and _ident(s[j]): j += 1
            idn = s[i:j]
            if idn == "" or not _ident_start(idn[0]) or idn not in named:
                return None
            out.append(named[idn]); i = j
        if i == len(s):
            return "".join(out)
        if s.startswith(" & ", i):
            i += 3
        else:
            return None


def _hexv(c):
    if "0" <= c <= "9": return ord(c) - 48
    if "a" <= c <= "f": return ord(c) - 87
    if "A" <= c <= "F": return ord(c) - 55
    return None


def _unit(n):
    if 0xD800 <= n <= 0xDFFF or n > 0x10FFFF:
        return None
    return chr(n)


def py_js_body(s, i):
    out = []
    while True:
        if i >= len(s):
            return None
        c = s[i]
        if c == '"':
            return "".join(out), i + 1
        if c == "\\":
            if i + 1 >= len(s):
                return None
            e = s[i + 1]
            if e == "x":
                if i + 3 >= len(s): return None
                a, b = _hexv(s[i + 2]), _hexv(s[i + 3])
                if a is None or b is None: return None
                u = _unit(a * 16 + b)
                if u is None: return None
                out.append(u); i += 4; continue
            if e == "u":
                if i + 5 >= len(s): return None
                hs = [_hexv(s[i + k]) for k in range(2, 6)]
                if any(h is None for h in hs): return None
                u = _unit(((hs[0] * 16 + hs[1]) * 256) + hs[2] * 16 + hs[3])
                if u is None: return None
                out.append(u); i += 6; continue
            if "0" <= e <= "9" or e in "\n\r":
                return None
            out.append({"n": "\n", "r": "\r", "t": "\t", "b": "\x08", "f": "\x0c", "v": "\x0b"}.get(e, e)); i += 2; continue
        if c in "\n\r":
            return None
        out.append(c); i += 1


def py_eval_js(s):
    p = 'new LingoString("'
    if not s.startswith(p):
        return None
    r = py_js_body(s, len(p))
    if r is None:
        return None
    v, j = r
    return v if s[j:] == ")" else None


def _isd(c):
    return "0" <= c <= "9"


def py_eval_int(s):
    neg = s.startswith("-")
    d = s[1:] if neg else s
    if d == "" or not all(_isd(c) for c in d):
        return None
    return -int(d) if neg else int(d)


def py_eval_dec(s):
    neg = s.startswith("-")
    if neg: s = s[1:]
    i = 0
    while i < len(s) and _isd(s[i]): i += 1
    ip = s[:i]; rest = s[i:]; fp = ""
    if rest.startswith("."):
        j = 1
        while j < len(rest) and _isd(rest[j]): j += 1
        fp = rest[1:j]; rest = rest[j:]
    if ip == "":
        return None
    m = int(ip + fp)
    if rest == "":
        return [neg, m, -len(fp)]
    if rest[0] != "e":
        return None
    r = rest[1:]
    eneg = r.startswith("-")
    if r[:1] in "+-": r = r[1:]
    if r == "" or not all(_isd(c) for c in r):
        return None
    return [neg, m, (-int(r) if eneg else int(r)) - len(fp)]


def py_read_dbl(s):
    """what the literal reads back as: [neg, m, e] with the magnitude m*2^e normalised like the model's `roundDbl`
    (2^52 <= m < 2^53, or e = -1074), [neg, "inf"] beyond the double range, None if it is not a decimal literal.
    CPython's float() is the oracle for decimal -> nearest double."""
    d = py_eval_dec(s)
    if d is None:
        return None
    x = abs(float(s))
    if math.isinf(x):
        return [d[0], "inf"]
    if x == 0.0:
        return [d[0], 0, -1074]
    fr, ex = math.frexp(x)
    m, e = int(fr * (1 << 53)), ex - 53
    if e < -1074:
        m >>= (-1074 - e); e = -1074
    return [d[0], m, e]


def rand_float_text(rng):
    """decimal texts around doubles: repr (the round-trip hypothesis of float_normal_partial), longer and shorter renderings,
    exact midpoints between neighbouring doubles (ties), the ends of the range"""
    r = rng.random()
    if r < 0.1:
        return rng.choice(["0.0", "-0.0", "5e-324", "2.4703282292062327e-324", "2.4703282292062328e-324", "2.5e-324", "1e-400", "1.7976931348623157e+308",
                           "1.7976931348623158e+308", "1.797693134862315807e+308", "1.797693134862315808e+308", "1e400", "-1e400", "2.2250738585072014e-308",
                           "2.2250738585072011e-308", "4.9406564584124654e-324", "0.1", "3.001", "1e22", "1e23", "9007199254740993", "9007199254740992.5"])
    kind = rng.choice(["normal", "normal", "normal", "denormal", "small", "big", "int"])
    if kind == "normal": bits = rng.randrange(1 << 52, 0x7FF << 52)
    elif kind == "denormal": bits = rng.randrange(1, 1 << 52)
    elif kind == "small": bits = rng.randrange(1 << 52, 40 << 52)
    elif kind == "big": bits = rng.randrange(0x7C0 << 52, 0x7FF << 52)
    else: bits = struct.unpack(">Q", struct.pack(">d", float(rng.randrange(0, 1 << 60))))[0]
    x = struct.unpack(">d", struct.pack(">Q", bits))[0]
    how = rng.random()
    if how < 0.55:
        t = repr(x)
    elif how < 0.7:
        t = "%.17e" % x
    elif how < 0.8:
        t = "%.*e" % (rng.choice([0, 3, 8, 15, 16]), x)
    elif how < 0.9 and 1e-5 < x < 1e15:
        t = "%.*f" % (rng.choice([0, 1, 5, 20]), x)
    else:
        # the exact midpoint between x and its successor, written out in full (a tie: must go to the even neighbour)
        nxt = struct.unpack(">d", struct.pack(">Q", bits + 1))[0]
        if math.isinf(nxt):
            t = repr(x)
        else:
            mid = (Fraction(x) + Fraction(nxt)) / 2
            k = 0
            while mid.denominator != 1 and k < 1200:
                mid *= 10; k += 1
            t = "%de-%d" % (mid.numerator // mid.denominator, k) if k else str(int(mid))
    return ("-" if rng.random() < 0.2 else "") + t


# ---------------------------------------------------------------------------------------------- classes of known findings

def has_backslash(b): return 0x5C in b
def has_f17(b):
    """a literal backslash followed by what unicode_escape writes for a named character"""
    return any(b[i] == 0x5C and (b[i + 1:i + 2] in (b"t", b"r") or b[i + 1:i + 4] in (b"x08", b"x03")) for i in range(len(b)))
def has_f16(b): return any((c < 0x20 and c not in NAMED) or c >= 0x7F for c in b)
def lingo_safe(b): return not has_backslash(b) and not has_f16(b)


# ---------------------------------------------------------------------------------------------- cases

def str_case(kind, b):
    return Case(kind=kind, spec=dict(bytes=b.hex()), lines=[f"lscr cstr {hx(b)}", f"lscr lingosafe {hx(b)}"], expect=[None, canon(lingo_safe(b))])


def float_expected(b):
    """(sign, exact magnitude as Fraction) of an 80-bit extended value; None for inf/nan"""
    e, q = struct.unpack(">HQ", b)
    neg = e >= 0x8000
    e &= 0x7FFF
    if e == 0x7FFF:
        return neg, None
    return neg, Fraction(q) * Fraction(2) ** (e - 16383 - 63)


def float_bytes(rng):
    sign = rng.choice([0, 0, 0x8000])
    cls = rng.choice(["zero", "denormal", "normal", "normal", "normal", "exactdouble", "max", "infnan", "tiny", "huge"])
    if cls == "zero": e, q = rng.choice([0, 0x3FFF]), 0
    elif cls == "denormal": e, q = rng.randrange(16383 - 1074 - 2, 16383 - 1021), rng.randrange(2 ** 63, 2 ** 64)
    elif cls == "normal": e, q = rng.randrange(16383 - 1000, 16383 + 1000), rng.randrange(2 ** 63, 2 ** 64)
    elif cls == "exactdouble": e, q = rng.randrange(16383 - 60, 16383 + 60), (rng.randrange(2 ** 52, 2 ** 53) << 11)
    elif cls == "max": e, q = 16383 + 1023, rng.choice([2 ** 64 - 1, (2 ** 53 - 1) << 11, 2 ** 64 - 2 ** 10, 2 ** 64 - 2 ** 10 - 1, 2 ** 63])
    elif cls == "infnan": e, q = 0x7FFF, rng.choice([2 ** 63, 2 ** 63 + 1, 0])
    elif cls == "tiny": e, q = rng.randrange(0, 16383 - 1074), rng.randrange(0, 2 ** 64)
    else: e, q = rng.randrange(16383 + 1024, 0x7FFF), rng.randrange(2 ** 63, 2 ** 64)
    if rng.random() < 0.15:
        f = Fraction(rng.choice([1, 3, 5, 7, 9, 1001, 3001]), rng.choice([10, 100, 1000]))
        while f >= 2: f /= 2
        while f < 1: f *= 2
        q = rng.choice([2 ** 63, 2 ** 63 + 2 ** 10, 2 ** 63 + 2 ** 10 + 1, 2 ** 63 + 3 * 2 ** 10, 2 ** 64 - 2 ** 10, int(f * 2 ** 63)])
    return struct.pack(">HQ", sign | e, q), cls


def script_with_constants(consts, wide=False):
    """`put c` for every constant; returns (lscr, lnam)"""
    bpc = 8 if wide else 6
    code = b""
    for i in range(len(consts)):
        k = i * bpc
        code += (bytes([0x44, k]) if k < 256 else bytes([0x84, k >> 8, k & 0xFF])) + bytes([0x42, 0x01, 0x57, 0x01])
    code += b"\x01"
    lscr = L.build_lscr([dict(name=0, args=[], locals=[], code=code)], consts, wide_consts=wide)
    return lscr, L.build_lnam([b"h", b"put"])


def consts_case(kind, consts, wide=False, whole=False, spec=None):
    lscr, lnam = script_with_constants(consts, wide)
    lines = [f"lscr consts {hx(lscr)}"]
    if whole:
        lines += [f"lscr lingo {hx(lscr)} {hx(lnam)}", f"lscr js {hx(lscr)} {hx(lnam)}"]
    # ("t", content + slot byte) is a string constant whose terminator slot is not NUL: the constant is `content` whatever the slot holds
    sp = dict(consts=[[("s" if k == "t" else k), ((v[:-1] if k == "t" else v).hex() if isinstance(v, bytes) else v)] for k, v in consts], wide=wide)
    sp.update(spec or {})
    return Case(kind=kind, spec=sp, lines=lines, expect=[None] * len(lines))


def rand_lingo_text(rng):
    parts = []
    for _ in range(rng.choice([1, 1, 2, 3, 4])):
        r = rng.random()
        if r < 0.5:
            parts.append('"' + "".join(rng.choice('ab &"\\tT\x08\u00e9') if rng.random() < 0.1 else rng.choice("ab &\\tTAB\r") for _ in range(rng.choice([0, 1, 2, 5]))).replace('"', '') + '"')
        elif r < 0.9:
            parts.append(rng.choice(["RETURN", "TAB", "QUOTE", "ENTER", "BACKSPACE", "EMPTY"]))
        else:
            parts.append(rng.choice(["TABX", "return", "", "\"unterminated", "QUOTE_", "TAB1", "_TAB", "1TAB", "TAB ", " TAB", "EMPTY&", "Q"]))
    sep = " & " if rng.random() < 0.9 else rng.choice(["&", " &", " & & ", "  &  "])
    return sep.join(parts)


def rand_js_text(rng):
    body = "".join(rng.choice(['a', ' ', '\\\\', '\\"', '\\t', '\\n', '\\r', '\\x08', '\\xe9', '\\u00e9', '\\u2022', '\\b', '\\q', '\\x', '\\u12', '\\0', '"', '\\', "'", '\\ud800', '\n', '\\xZZ', '\u00e9']) for _ in range(rng.choice([0, 1, 2, 4, 7])))
    return rng.choice(['new LingoString("', 'new LingoString("', 'new LingoString(\'', 'LingoString("']) + body + rng.choice(['")', '")', '"', '") ', ')'])


def cases(rng, tier):
    out = []
    maxlen = 3 if tier == "quick" else 4
    # 1. exhaustive strings over the special alphabet
    for n in range(0, maxlen + 1):
        for t in itertools.product(ALPHABET, repeat=n):
            out.append(str_case("string-exhaustive", bytes(t)))
    # 2. random strings
    nrand = dict(quick=3000, thorough=60000, search=30000)[tier]
    for _ in range(nrand):
        n = rng.choice([1, 2, 5, 8, 13, 21, 40, rng.randrange(0, 41)])
        r = rng.random()
        if r < 0.4:
            b = bytes(rng.choice(ALPHABET) for _ in range(n))
        elif r < 0.7:
            b = bytes(rng.choice(b"abc XYZ,.;&\"" + bytes(NAMED)) for _ in range(n))
        else:
            b = bytes(rng.randrange(256) for _ in range(n))
        out.append(str_case("string-random", b))
    # 3. inline integers, exhaustively
    out.append(Case(kind="int8-exhaustive", spec=dict(), lines=[f"lscr cint8 {v}" for v in range(256)],
                    expect=[canon([str(v - 256 if v > 127 else v)] * 3) for v in range(256)]))
    for hi in range(256):
        vals = [hi * 256 + lo for lo in range(256)]
        out.append(Case(kind="int16-exhaustive", spec=dict(hi=hi), lines=[f"lscr cint16 {hi} {lo}" for lo in range(256)],
                        expect=[canon([str(v - 65536 if v > 32767 else v)] * 3) for v in vals]))
    # 4. constant pools through the container: pool integers, floats, strings; both record widths
    npool = dict(quick=400, thorough=6000, search=3000)[tier]
    edge = [0, 1, -1, 6, 127, 128, 255, 256, 32767, 32768, 65535, 65536, 2 ** 31 - 1, -2 ** 31, -2 ** 31 + 1, 10 ** 9, -10 ** 9]
    out.append(consts_case("pool-ints", [("i", v) for v in edge], whole=True))
    # the byte in the terminator slot of a string constant (Director writes NUL; the length counts it, the constant ends before it)
    for slot in (0x00, 0x01, 0x20, 0x0D, 0x22, 0x41, 0x5C, 0x7F, 0x80, 0xFF):
        for wide in (False, True):
            out.append(consts_case("pool-term-slot", [("t", b"Salir" + bytes([slot])), ("t", bytes([slot])), ("i", 5), ("t", b"a b" + bytes([slot])), ("s", b"x")],
                                   wide=wide, whole=True, spec=dict(slot=slot)))
    out.append(consts_case("pool-ints", [("i", v) for v in edge], wide=True, whole=True))
    # pools with more than 43 constants: record offsets >= 256 are loaded with the two-byte operand form (opcode 0x84)
    for wide in (False, True):
        big = [("i", 1000 + 7 * k) for k in range(40)] + [("s", b"k%d" % k) for k in range(40, 56)] + [("i", -(k * k) - 40000) for k in range(56, 70)]
        out.append(consts_case("pool-two-byte-offsets", big, wide=wide, whole=True))
    for i in range(npool):
        consts = []
        for _ in range(rng.choice([1, 2, 5, 12, 12, 48, 70] if i % 10 == 0 else [1, 2, 5, 12])):
            r = rng.random()
            if r < 0.35:
                consts.append(("i", rng.choice(edge + [rng.randrange(-2 ** 31, 2 ** 31)] * 3)))
            elif r < 0.75:
                fb, cls = float_bytes(rng)
                consts.append(("f", fb))
            else:
                n = rng.choice([0, 1, 3, 9, 30])
                consts.append(("s", bytes(rng.choice(b"abc XYZ&\"" + bytes(NAMED)) for _ in range(n))))
        out.append(consts_case("pool", consts, wide=rng.random() < 0.3, whole=(i % 4 == 0)))
    # 4a. beyond the small bounds: a pool of 4 200 / 5 500 constants (record offsets of the 2-byte literal opcode 0x84 reach 0x8000:
    #     top bit of its 16-bit operand) with `put` of the constants around the boundary, and constant data of more than 65 535 bytes
    #     (two strings of 40 000 and 30 000 bytes: every 16-bit size / offset of the constant area overflows)
    for npool, wide in ((4200, True), (5500, False)):
        consts = [("i", 100000 + i) for i in range(npool)]
        bpc = 8 if wide else 6
        code = b""
        idxs = (0, 1, 41, 42, 43, 4095, 4096, 4097, npool - 1) + tuple(range(0x8000 // bpc - 2, 0x8000 // bpc + 3))
        for i in idxs:
            k = i * bpc
            code += (bytes([0x44, k]) if k < 256 else bytes([0x84, k >> 8, k & 0xFF])) + bytes([0x42, 0x01, 0x57, 0x01])
        lscr = L.build_lscr([dict(name=0, args=[], locals=[], code=code + b"\x01")], consts, wide_consts=wide)
        lnam = L.build_lnam([b"h", b"put"])
        out.append(Case(kind="scale-pool-int", spec=dict(npool=npool, wide=wide, values=[100000 + i for i in idxs]),
                        lines=[f"lscr lingo {hx(lscr)} {hx(lnam)}", f"lscr js {hx(lscr)} {hx(lnam)}"], expect=[None, None]))
    big = [("s", bytes(97 + i % 26 for i in range(40000))), ("s", bytes(65 + i % 26 for i in range(30000))), ("s", b"tail"), ("i", 7)]
    out.append(consts_case("pool-scale", big, wide=False, whole=True, spec=dict(sizes=[40000, 30000, 4])))
    out.append(consts_case("pool-scale", big, wide=True, whole=True, spec=dict(sizes=[40000, 30000, 4])))
    # 4b. an inline integer under a unary minus: the literal must still be read as a number (`--5` would be a Lingo comment)
    vals = [0, 1, 5, 127, 128, 255, 200, 129] + [rng.randrange(256) for _ in range(6)]
    lines, spec_vals = [], []
    for p1 in vals:
        v = p1 - 256 if p1 > 127 else p1
        lscr = L.build_lscr([dict(name=0, args=[], locals=[], code=bytes([0x41, p1, 0x09, 0x42, 0x01, 0x57, 0x01, 0x01]))])
        lnam = L.build_lnam([b"h", b"put"])
        lines += [f"lscr lingo {hx(lscr)} {hx(lnam)}", f"lscr js {hx(lscr)} {hx(lnam)}"]
        spec_vals.append(v)
    for hi, lo in [(0x80, 0x00), (0xFF, 0xFF), (0x7F, 0xFF), (0x01, 0x00), (0xFE, 0x0C)]:
        v = hi * 256 + lo
        v = v - 65536 if v > 32767 else v
        lscr = L.build_lscr([dict(name=0, args=[], locals=[], code=bytes([0x81, hi, lo, 0x09, 0x42, 0x01, 0x57, 0x01, 0x01]))])
        lnam = L.build_lnam([b"h", b"put"])
        lines += [f"lscr lingo {hx(lscr)} {hx(lnam)}", f"lscr js {hx(lscr)} {hx(lnam)}"]
        spec_vals.append(v)
    out.append(Case(kind="negated-int", spec=dict(values=spec_vals), lines=lines, expect=[None] * len(lines)))
    # 5. the readers themselves (Python mirror vs Lean)
    nev = dict(quick=1500, thorough=20000, search=0)[tier]
    lines = []
    for _ in range(nev):
        r = rng.random()
        if r < 0.4:
            t = hx(rand_lingo_text(rng).encode("utf-8"))
            lines.append("lscr evallingo " + t); lines.append("lscr evallingo2 " + t)
        elif r < 0.8: lines.append("lscr evaljs " + hx(rand_js_text(rng).encode("utf-8")))
        elif r < 0.9: lines.append("lscr evalint " + hx(rng.choice(["0", "-0", "12", "-12", "007", "--1", "1-", "", "-", "+5", "1e3", "99999999999999999999"]).encode()))
        else: lines.append("lscr evaldec " + hx(rng.choice(["3.001", "-3.001", "1e+22", "1e-05", "1.5e-7", "70000.0", "0.0", "-0.0", "5e-324", "1.7976931348623157e+308", "inf", "nan", "1.", ".5", "1e", "1e+", "1.2.3", "12"]).encode()))
    for i in range(0, len(lines), 100):
        out.append(Case(kind="readers", spec=dict(batch=i // 100), lines=lines[i:i + 100], expect=[None] * len(lines[i:i + 100])))
    # 6. the float reader (`readDbl`: decimal literal -> sign and nearest double) against CPython's float(); more than half of
    #    the texts are repr(x) of random doubles: the samples of the hypothesis `ReprRoundTrips` of theorem float_normal_partial
    nfl = dict(quick=600, thorough=12000, search=0)[tier]
    lines = ["lscr readdbl " + hx(rand_float_text(rng).encode()) for _ in range(nfl)]
    for i in range(0, len(lines), 100):
        out.append(Case(kind="float-reader", spec=dict(batch=i // 100), lines=lines[i:i + 100], expect=[None] * len(lines[i:i + 100])))
    return out


# ---------------------------------------------------------------------------------------------- the real code

def _const_triple(c):
    from drxtract.lingosrc.ast import ConstantValue
    cv = ConstantValue(c, 0)
    return [c, cv.generate_lingo(0), cv.generate_js(0, False)]


def impl(case):
    L._quiet()
    from drxtract.lingosrc.util import escape_string, unpack_float80, get_encoding
    from drxtract.lingosrc.parse.lscr import parse_lrcr_file_header, parse_lrcr_crb
    from drxtract.lingosrc.opcodes.constant_op import Int1bOpcode, Int2bOpcode
    from drxtract.lingosrc.model import Context
    from drxtract.lingosrc.ast import FunctionDef
    B = lambda s: bytes.fromhex("" if s == "-" else s)
    out = []
    import signal
    def _alarm(sig, frm):
        raise TimeoutError()
    signal.signal(signal.SIGALRM, _alarm)
    for line in case["lines"]:
        t = line.split()
        cmd = t[1]
        signal.setitimer(signal.ITIMER_REAL, 1.0)     # a literal that takes a second is a hang (replace loop not advancing)
        try:
            if cmd == "cstr":
                out.append(canon(_const_triple(escape_string(B(t[2]).decode(get_encoding())))))
            elif cmd in ("cint8", "cint16"):
                op = Int1bOpcode() if cmd == "cint8" else Int2bOpcode()
                op.param1 = int(t[2])
                if cmd == "cint16": op.param2 = int(t[3])
                stack = []
                op.process(Context(), stack, FunctionDef("f", 0), 0)
                out.append(canon(_const_triple(stack[0].name)))
            elif cmd == "consts":
                d = B(t[2])
                h = parse_lrcr_file_header(d)
                out.append(canon([_const_triple(c) for c in parse_lrcr_crb(d, h)]))
            elif cmd == "cfloat":
                out.append(canon(unpack_float80(B(t[2]))))
            elif cmd == "lingo":
                r = L.py_lingo(B(t[2]), B(t[3])); out.append(canon(r if r is not None else "error"))
            elif cmd == "js":
                r = L.py_js(B(t[2]), B(t[3])); out.append(canon(r if r is not None else "error"))
            elif cmd == "lingosafe":
                out.append(canon(lingo_safe(B(t[2]))))
            elif cmd == "evallingo":
                out.append(canon(py_eval_lingo(B(t[2]).decode("utf-8"))))
            elif cmd == "evallingo2":
                out.append(canon(py_eval_lingo_rd(B(t[2]).decode("utf-8"))))
            elif cmd == "evaljs":
                out.append(canon(py_eval_js(B(t[2]).decode("utf-8"))))
            elif cmd == "evalint":
                out.append(canon(py_eval_int(B(t[2]).decode("utf-8"))))
            elif cmd == "evaldec":
                out.append(canon(py_eval_dec(B(t[2]).decode("utf-8"))))
            elif cmd == "readdbl":
                out.append(canon(py_read_dbl(B(t[2]).decode("utf-8"))))
            else:
                out.append("bad-op")
        except RecursionError:
            raise
        except TimeoutError:
            out.append(canon("timeout"))
        except Exception:
            out.append(canon("error"))
        finally:
            signal.setitimer(signal.ITIMER_REAL, 0)
    return out


# ---------------------------------------------------------------------------------------------- D: the property on the implementation's output

def _float_ok(text, fb):
    neg, mag = float_expected(fb)
    if mag is None:
        return False, "inf/nan has no literal"
    try:
        want = float(mag)
    except OverflowError:
        return False, "value beyond the double range"
    d = py_eval_dec(text)
    if d is None:
        return False, f"not a decimal literal: {text!r}"
    got = float(text)
    if got != (-want if neg else want) or math.copysign(1.0, got) != (-1.0 if neg else 1.0):
        return False, f"literal {text!r} reads back as {got!r}, the constant is {'-' if neg else ''}{want!r}"
    return True, ""


def _check_const(kind, val, triple, where=""):
    """kind/val = the spec constant; triple = [name, lingo, js]"""
    name, lg, js = triple
    if kind == "s":
        want = val.decode("mac_roman")
        if py_eval_lingo(str(lg)) != py_eval_lingo_rd(str(lg)):
            return f"readers{where}: the two Lingo readers disagree on {lg!r}"
        if py_eval_lingo(str(lg)) != want:
            return f"lingo{where}: string literal {lg!r} does not evaluate to the original string"
        if py_eval_js(str(js)) != want:
            return f"js{where}: string literal {js!r} does not evaluate to the original string"
    elif kind == "i":
        if py_eval_int(str(lg)) != val:
            return f"lingo{where}: integer literal {lg!r} is not {val}"
        if py_eval_int(str(js)) != val:
            return f"js{where}: integer literal {js!r} is not {val}"
    else:
        for lang, txt in (("lingo", lg), ("js", js)):
            ok, why = _float_ok(str(txt), val)
            if not ok:
                return f"{lang}{where}: float: {why}"
    return None


def _put_literals(text, lang):
    """operands of the `put` lines of a generated script"""
    out = []
    for ln in text.split("\n"):
        s = ln.strip()
        if lang == "lingo" and s.startswith("put "):
            out.append(s[4:])
        elif lang == "js" and s.startswith("put(") and s.endswith(");"):
            out.append(s[4:-2])
    return out


def _eval_negated(text):
    """value of `-X` where X is an integer literal, possibly parenthesised; None if it does not read as that"""
    if not text.startswith("-"):
        return None
    x = text[1:]
    if x.startswith("-"):
        return None                      # `--` starts a comment in Lingo (and is a decrement in JavaScript)
    if x.startswith("(") and x.endswith(")"):
        x = x[1:-1]
    v = py_eval_int(x)
    return None if v is None else -v


def oracle(case, io):
    k = case["kind"]
    if k == "negated-int":
        for i, v in enumerate(case["spec"]["values"]):
            for lang, o in (("lingo", io[2 * i]), ("js", io[2 * i + 1])):
                if o == '"error"':
                    return f"{lang}: negated inline integer {v} raised"
                lits = _put_literals(json.loads(o), lang)
                if len(lits) != 1 or _eval_negated(lits[0]) != -v:
                    return f"{lang}: `put -({v})` is printed {lits!r}, which does not read as {-v}"
        return None
    if k == "scale-pool-int":
        for lang, o in (("lingo", io[0]), ("js", io[1])):
            if o == '"error"':
                return f"{lang}: a pool of {case['spec']['npool']} integer constants makes the decompiler raise"
            lits = _put_literals(json.loads(o), lang)
            if lits != [str(v) for v in case["spec"]["values"]]:
                return f"{lang}: constants of a {case['spec']['npool']}-entry pool are printed {lits[:16]!r}, expected {case['spec']['values'][:16]!r}"
        return None
    if k == "readers":
        for li in range(len(case["lines"]) - 1):
            a, b = case["lines"][li].split(), case["lines"][li + 1].split()
            if a[1] == "evallingo" and b[1] == "evallingo2" and a[2] == b[2] and io[li] != io[li + 1]:
                return f"readers: scanner and recursive-descent reader of Lingo literals disagree on {bytes.fromhex(a[2]).decode('utf-8')!r}"
        return None
    if k.startswith("string"):
        if io[0] == '"timeout"':
            return "lingo+js: the real code does not terminate on a string constant"
        if io[0] == '"error"':
            return "lingo+js: the real code raised on a string constant"
        return _check_const("s", bytes.fromhex(case["spec"]["bytes"]), json.loads(io[0]))
    if k.startswith("int"):
        for li, line in enumerate(case["lines"]):
            t = line.split()
            v = int(t[2]) if t[1] == "cint8" else int(t[2]) * 256 + int(t[3])
            v = (v - 256 if v > 127 else v) if t[1] == "cint8" else (v - 65536 if v > 32767 else v)
            if io[li] == '"error"':
                return f"lingo+js: inline integer {v} raised"
            m = _check_const("i", v, json.loads(io[li]))
            if m:
                return m
        return None
    if k.startswith("pool"):
        consts = [(a, bytes.fromhex(b) if a in ("s", "f") else b) for a, b in case["spec"]["consts"]]
        if io[0] == '"timeout"':
            return "lingo+js: the real code does not terminate on a constant pool"
        if io[0] == '"error"':
            # parse_lrcr_crb raised: which constant is to blame?
            for a, b in consts:
                if a == "f":
                    neg, mag = float_expected(b)
                    if mag is None:
                        return "lingo+js: float: inf/nan constant makes parse_lrcr_crb raise"
                    try:
                        float(mag)
                    except OverflowError:
                        return "lingo+js: float: value beyond the double range makes parse_lrcr_crb raise"
                    e = struct.unpack(">H", b[:2])[0] & 0x7FFF
                    if e - 16383 > 1023:
                        return "lingo+js: float: value beyond the double range makes parse_lrcr_crb raise"
            return "lingo+js: parse_lrcr_crb raised on a well-formed constant pool"
        triples = json.loads(io[0])
        if len(triples) != len(consts):
            return "lingo+js: number of constants differs"
        for (a, b), tr in zip(consts, triples):
            m = _check_const(a, b, tr)
            if m:
                return m
        if len(io) == 3 and io[1] != '"error"' and io[2] != '"error"':
            for lang, txt in (("lingo", json.loads(io[1])), ("js", json.loads(io[2]))):
                lits = _put_literals(txt, lang)
                want = [str(tr[1 if lang == "lingo" else 2]) for tr in triples]
                if lits != want:
                    return f"{lang}: literals in the generated script differ from ConstantValue's own rendering"
        return None
    return None


def nontrivial(case, io):
    return case["kind"] != "readers" and io[0] != '"error"'


# ---------------------------------------------------------------------------------------------- known findings

def _case_strings(case):
    if case["kind"].startswith("string"):
        return [bytes.fromhex(case["spec"]["bytes"])]
    if case["kind"].startswith("pool"):
        return [bytes.fromhex(b) for a, b in case["spec"]["consts"] if a == "s"]
    return []


def m_f17(case, f, params):
    return "lingo" in f.what and "string" in f.what and any(has_f17(b) for b in _case_strings(case))


def m_f15(case, f, params):
    return "lingo" in f.what and "string" in f.what and any(has_backslash(b) for b in _case_strings(case))


def m_f16(case, f, params):
    return "lingo" in f.what and "string" in f.what and any(has_f16(b) for b in _case_strings(case))


def m_f19(case, f, params):
    if "float" not in f.what or not case["kind"].startswith("pool"):
        return False
    for a, b in case["spec"]["consts"]:
        if a == "f":
            e, q = struct.unpack(">HQ", bytes.fromhex(b))
            e &= 0x7FFF
            # inf/nan, beyond the double range, or rounding up to 2^1024
            if e >= 16383 + 1024 or (e == 16383 + 1023 and q >= 2 ** 64 - 2 ** 10):
                return True
    return False


def m_f102(case, f, params):
    """the value lies in the double's denormal range: pow(2, k) underflows to 0.0 below 2^-1074 and the product is rounded twice"""
    if "float" not in f.what or not case["kind"].startswith("pool"):
        return False
    for a, b in case["spec"]["consts"]:
        if a == "f":
            e, q = struct.unpack(">HQ", bytes.fromhex(b))
            e &= 0x7FFF
            if q != 0 and e - 16383 <= -1022:
                return True
    return False


MATCHERS = {"c11_float_denormal": m_f102, "c11_lingo_backslash_named": m_f17, "c11_lingo_backslash": m_f15, "c11_lingo_nonprintable": m_f16, "c11_float_out_of_range": m_f19}


def extra_stage(ctx, driver, stats):
    stats["exhaustive"] = 1


if __name__ == "__main__":
    import core
    sys.exit(core.main("c11"))
